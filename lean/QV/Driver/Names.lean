import QV.Sexp
import QV.Model.Names
import QV.Spec.Names

namespace QV.Driver.Names
open QV QV.Model.Names

private def nodes? : Sexp → Option (List (Option Str × Str))
  | .list (.atom "nodes" :: ns) =>
    Sexp.mapM? (fun n => match n with
      | .list [.atom "_", .str c] => some (none, c)
      | .list [.atom i, .str c] => some (some i.toList, c)
      | _ => none) ns
  | _ => none

private def insertSorted (s : String) : List String → List String
  | [] => [s]
  | x :: xs => if s ≤ x then s :: x :: xs else x :: insertSorted s xs

/-- `(names (nodes …))` → `(names ("n1" …) ("duplicated object id: x" …))` | `(panic …)` -/
def handleModel (args : List Sexp) : Sexp :=
  match args with
  | [ns] => match nodes? ns with
    | some nodes =>
      match ensureObjectNames nodes with
      | some names =>
        let dups := (updateIdMap (nodes.map (·.1))).1.map fun x => "duplicated object id: " ++ String.ofList x
        .list [.atom "names", .list (names.map Sexp.str), .list ((dups.foldr insertSorted []).map Sexp.ofString)]
      | none => .list [.atom "panic", .ofString "unused id must be found within N+1 tries"]
    | none => .list [.atom "bad-request"]
  | _ => .list [.atom "bad-request"]

/-- predicate form: `(spec-names (nodes …) (impl (names (…) (…))))` → `(ok)` | `(fail reason)`.
    With pairwise distinct ids the real names must form a valid naming; with duplicated ids a diagnostic
    must have been reported. -/
def handleSpec (args : List Sexp) : Sexp :=
  match args with
  | [ns, .list [.atom "impl", .list [.atom "names", .list names, .list diags]]] =>
    match nodes? ns, Sexp.mapM? Sexp.toChars? names with
    | some nodes, some names =>
      let ids := nodes.filterMap (·.1)
      if QV.Spec.Names.allDistinct ids then
        if !diags.isEmpty then .list [.atom "fail", .ofString "diagnostic although ids are distinct"]
        else if QV.Spec.Names.validNaming nodes names then .list [.atom "ok"]
        else .list [.atom "fail", .ofString "not a valid naming"]
      else if diags.isEmpty then .list [.atom "fail", .ofString "duplicated id not diagnosed"]
      else .list [.atom "ok", .atom "dup-diagnosed"]
    | _, _ => .list [.atom "bad-request"]
  | [_, .list [.atom "impl", other]] => .list [.atom "fail", .ofString ("unexpected answer " ++ toString other)]
  | _ => .list [.atom "bad-request"]

end QV.Driver.Names
