import QV.Sexp
import QV.Model.Layout
import QV.Spec.Layout

namespace QV.Driver.Layout
open QV QV.Model.Layout

private def optInt? : Sexp → Option (Option Int)
  | .atom "_" => some none
  | s => (Sexp.toInt? s).map some

private def attached? : Sexp → Option Attached
  | .list [a, b, c, d, e, f, g, h] => do
    let row ← optInt? a; let column ← optInt? b; let rowSpan ← optInt? c; let columnSpan ← optInt? d
    let rowStretch ← optInt? e; let columnStretch ← optInt? f
    let rowMinimumHeight ← optInt? g; let columnMinimumWidth ← optInt? h
    pure { row, column, rowSpan, columnSpan, rowStretch, columnStretch, rowMinimumHeight, columnMinimumWidth }
  | _ => none

private def children? : Sexp → Option (List Attached)
  | .list (.atom "children" :: cs) => Sexp.mapM? attached? cs
  | _ => none

private def optAtom (v : Option Int) : Sexp :=
  match v with
  | none => .atom "_"
  | some x => .ofInt x

private def arr (tag : String) (xs : List Int) : Sexp := .list (.atom tag :: xs.map Sexp.ofInt)

private def insertSorted (s : String) : List String → List String
  | [] => [s]
  | x :: xs => if s ≤ x then s :: x :: xs else x :: insertSorted s xs

private def sortStrings (l : List String) : List String := l.foldr insertSorted []

private def answer (cmw cs rmh rs st : List Int) (items : List (Option Int × Option Int × Option Int × Option Int))
    (diags : List String) : Sexp :=
  .list [.atom "layout", arr "cmw" cmw, arr "cs" cs, arr "rmh" rmh, arr "rs" rs, arr "st" st,
    .list (.atom "items" :: items.map fun (r, c, rsp, csp) => .list [optAtom r, optAtom c, optAtom rsp, optAtom csp]),
    .list (.atom "diags" :: (sortStrings diags).map Sexp.ofString)]

private def modelAnswer (res : Attributes × List Item × List Diag) (extra : List Diag) : Sexp :=
  let (a, items, diags) := res
  answer (formatArray a.columnMinimumWidth 0) (formatArray a.columnStretch 1) (formatArray a.rowMinimumHeight 0)
    (formatArray a.rowStretch 1) (formatArray a.stretch 1)
    (items.map fun it => (it.row, it.column, it.rowSpan, it.columnSpan))
    ((extra ++ diags).map Diag.message)

private def flowArgs? : List Sexp → Option (Bool × Option Int × Option Int × List Attached)
  | [.list [.atom "flow", f], .list [.atom "columns", c], .list [.atom "rows", r], ch] => do
    let ltr ← match f with
      | .atom "ltr" => some true
      | .atom "ttb" => some false
      | .atom "_" => some true
      | _ => none
    pure (ltr, ← optInt? c, ← optInt? r, ← children? ch)
  | _ => none

/-- model side -/
def handleModel (tag : String) (args : List Sexp) : Sexp :=
  match tag with
  | "grid" =>
    match flowArgs? args with
    | some (ltr, c, r, ch) =>
      let (flow, d) := parseFlow ltr c r
      modelAnswer (processGrid flow ch) d
    | none => .list [.atom "bad-request"]
  | "form" => match args with
    | [ch] => match children? ch with
      | some ch => modelAnswer (processForm ch) []
      | none => .list [.atom "bad-request"]
    | _ => .list [.atom "bad-request"]
  | "vbox" | "hbox" => match args with
    | [ch] => match children? ch with
      | some ch => modelAnswer (processBox (tag == "vbox") ch) []
      | none => .list [.atom "bad-request"]
    | _ => .list [.atom "bad-request"]
  | _ => .list [.atom "bad-request"]

/-! specification side: computed from QV.Spec.Layout only -/
open QV.Spec.Layout in
private def specGrid (ltr : Bool) (countGiven : Option Int) (otherCount : Option Int) (fixedForm : Bool)
    (ch : List Attached) (rmhByColumn : Bool) : Sexp :=
  let countDiag (name : String) (c : Option Int) : List String :=
    match c with
    | some c => if c ≤ 0 then [s!"negative or zero {name} is not allowed"]
                else if c > 65536 then [s!"{name} is too large"] else []
    | none => []
  let n : Nat := match countGiven with
    | some c => if 0 < c ∧ c ≤ 65536 then c.toNat else 65536
    | none => 65536
  let (cName, oName) := if ltr then ("columns", "rows") else ("rows", "columns")
  let cntDiags := if fixedForm then [] else
    (if ltr then countDiag cName countGiven ++ countDiag oName otherCount
     else countDiag oName otherCount ++ countDiag cName countGiven)
  let maxRow : Int := if ltr then 65535 else (n : Int) - 1
  let maxCol : Int := if ltr then (n : Int) - 1 else 65535
  let idxDiag (field : String) (v : Option Int) (max : Int) : List String :=
    match v with
    | some v => if v < 0 then [s!"negative {field} is not allowed"] else if v > max then [s!"{field} is too large"] else []
    | none => []
  let cs := cells ltr n (0, 0) (ch.map fun a => (validIndex a.row maxRow, validIndex a.column maxCol))
  let pairs := cs.zip ch
  let ent (idx : Nat × Nat → Nat) (f : Attached → Option Int) : List (Nat × Int) :=
    pairs.filterMap fun (p, a) => (f a).map fun v => (idx p, v)
  let eCMW := ent (·.2) (·.columnMinimumWidth)
  let eCS := ent (·.2) (·.columnStretch)
  let eRMH := ent (if rmhByColumn then (·.2) else (·.1)) (·.rowMinimumHeight)
  let eRS := ent (·.1) (·.rowStretch)
  let confl (e : List (Nat × Int)) : List String :=
    (conflicts e).map fun v0 => s!"mismatched with the value previously set: {v0}"
  let unusedMsg := "unused or unsupported dynamic binding to attached property"
  let diags := cntDiags ++ (ch.map fun a => idxDiag "row" a.row maxRow ++ idxDiag "column" a.column maxCol).flatten
    ++ (if fixedForm then
          -- a form layout has no per-row/column arrays: such settings cannot take effect and are reported
          (ch.map fun a => ([a.rowStretch, a.columnStretch, a.rowMinimumHeight, a.columnMinimumWidth].filter
            Option.isSome).map fun _ => unusedMsg).flatten
        else confl eCMW ++ confl eCS ++ confl eRMH ++ confl eRS)
  let items := pairs.map fun (p, a) => (some (p.1 : Int), some (p.2 : Int), a.rowSpan, a.columnSpan)
  if fixedForm then answer [] [] [] [] [] items diags
  else answer (array eCMW 0) (array eCS 1) (array eRMH 0) (array eRS 1) [] items diags

open QV.Spec.Layout in
private def specBox (vertical : Bool) (ch : List Attached) : Sexp :=
  let e : List (Nat × Int) := ((List.range ch.length).zip ch).filterMap fun (i, a) =>
    (if vertical then a.rowStretch else a.columnStretch).map fun v => (i, v)
  -- a box layout honours only the stretch along its axis; every other cell/array setting is reported
  let unusedMsg := "unused or unsupported dynamic binding to attached property"
  let diags := (ch.map fun a => ([a.row, a.column, if vertical then a.columnStretch else a.rowStretch,
      a.rowMinimumHeight, a.columnMinimumWidth].filter Option.isSome).map fun _ => unusedMsg).flatten
  answer [] [] [] [] (array e 1) (ch.map fun a => (none, none, a.rowSpan, a.columnSpan)) diags

def handleSpec (tag : String) (args : List Sexp) : Sexp :=
  match tag with
  | "spec-grid" | "f9-grid" =>
    match flowArgs? args with
    | some (ltr, c, r, ch) =>
      if ltr then specGrid true c r false ch (tag == "f9-grid") else specGrid false r c false ch (tag == "f9-grid")
    | none => .list [.atom "bad-request"]
  | "spec-form" => match args with
    | [ch] => match children? ch with
      | some ch => specGrid true (some 2) none true ch false
      | none => .list [.atom "bad-request"]
    | _ => .list [.atom "bad-request"]
  | "spec-vbox" | "spec-hbox" => match args with
    | [ch] => match children? ch with
      | some ch => specBox (tag == "spec-vbox") ch
      | none => .list [.atom "bad-request"]
    | _ => .list [.atom "bad-request"]
  | _ => .list [.atom "bad-request"]

end QV.Driver.Layout
