import QV.Sexp
import QV.Driver.Ir
import QV.Model.TypeCheck
import QV.Spec.Typing
import QV.Spec.IrTyping
import QV.Gen.VerifEnv

/-
  Driver of the C05 streams (harness/src/streams/c05.rs):
    c05-accept / c05-reject (kind=pred)  verdict of `Spec.Typing` on the program vs what the REAL compiler did
    c05-ir (kind=pred)                    `Spec.IrTyping.check` on the REAL IR of an accepted program
    c05-verdict (kind=model)              acceptance according to the MODEL (QV.Model.TypeCheck)
-/
namespace QV.Driver.Typing
open QV QV.Model QV.Spec.Typing

structure Req where
  world : World
  ctx : Ctx
  isCb : Bool
  name : String
  prog : Program

def req? (args : List Sexp) : Option Req :=
  match args with
  | .list [.atom "this", .str tn, .str tc] :: .list (.atom "objects" :: objs) :: .list [.atom "kind", .atom kind, .str name] :: prog :: _ =>
    match Driver.Ir.program? prog, Sexp.mapM? (fun o => match o with
        | .list [.str i, .str c] => some (String.ofList i, String.ofList c) | _ => none) objs with
    | some p, some objects =>
      let this := (String.ofList tc, String.ofList tn)
      some { world := { env := QV.Gen.verifEnv, objects, thisObj := some this },
             ctx := { env := QV.Gen.verifEnv, F := Driver.Ir.floatOps, objects, thisObj := some this },
             isCb := kind == "cb", name := String.ofList name, prog := p }
    | _, _ => none
  | _ => none

def thisClass (r : Req) : Option ClassInfo :=
  r.world.thisObj.bind fun (c, _) => r.world.env.classes.find? (·.name = c)

def propType (r : Req) : Option TypeKind :=
  (thisClass r).bind fun ci => (ci.props.find? (·.name = r.name)).map (·.ty)

def signalOverloads (r : Req) : Option (List MethodInfo) :=
  (thisClass r).bind fun ci => (ci.methods.find? (·.1 = r.name)).map (·.2)

/-- verdict of the specification -/
def verdict (r : Req) : Verdict :=
  if r.isCb then
    match (signalOverloads r).bind signalParams with
    | some ps => checkCallback r.world ps r.prog
    | none => .illTyped .unknownSignal
  else
    match propType r with
    | some t => checkBinding r.world t r.prog
    | none => .illTyped .unknownProperty

def implOf (args : List Sexp) : Option Sexp :=
  match args.getLast? with
  | some (.list [.atom "impl", a]) => some a
  | _ => none

def fail (what : String) (more : List Sexp) : Sexp := .list (.atom "fail" :: .atom what :: more)

/-- messages of the constant folder about VALUES (overflow, division by zero, shift count, literal range of the
    folding arithmetic): not typing errors -/
def isValueError (msg : List Char) : Bool :=
  let s := String.ofList msg
  s = "integer overflow" || s.startsWith "integer conversion failed"

def errorsOf (impl : Sexp) : List (List Char) :=
  match impl with
  | .list (.atom "rejected" :: .list (.atom "errors" :: es) :: _) =>
    es.filterMap fun e => match e with | .str s => some s | _ => none
  | _ => []

def noOutput (impl : Sexp) : Bool :=
  match impl with
  | .list [.atom _, _, .list [.atom "ui", .atom "no"], .list [.atom "code", .atom "no"]] => true
  | _ => false

def handleAccept (args : List Sexp) : Sexp :=
  match req? args, implOf args with
  | some r, some impl =>
    (match verdict r with
     | .illTyped e => fail "GENERATOR-OR-SPEC-BUG-spec-says-ill-typed" [.atom e.name]
     | .unspecified => fail "GENERATOR-BUG-result-unspecified" []
     | .wellTyped =>
       match impl with
       | .list (.atom "syntax-error" :: _) => .list [.atom "ok", .atom "syntax-error"]
       | .list [.atom "accepted", .list [.atom "warnings", w], ui, code] =>
         if w != .atom "0" then fail "WELL-TYPED-BUT-WARNED" [w]
         else if ui == .list [.atom "ui", .atom "no"] && code == .list [.atom "code", .atom "no"] then
           fail "ACCEPTED-WITHOUT-OUTPUT" []
         else .list [.atom "ok", .atom "accepted"]
       | .list (.atom "rejected" :: _) =>
         let es := errorsOf impl
         if !es.isEmpty && es.all isValueError then .list [.atom "ok", .atom "value-error"]
         else fail "WELL-TYPED-REJECTED" (es.map Sexp.str)
       | other => fail "unexpected-answer" [other])
  | _, _ => .list [.atom "bad-request"]

def handleReject (args : List Sexp) : Sexp :=
  match args with
  | .list [.atom "mut", .str mk] :: rest =>
    let kind := Sexp.atom (String.ofList mk)
    (match req? rest, implOf rest with
     | some r, some impl =>
       (match impl with
        | .list (.atom "syntax-error" :: _) => .list [.atom "ok", .atom "syntax-error"]
        | _ =>
          let accepted := match impl with | .list (.atom "accepted" :: _) => true | _ => false
          match verdict r with
          | .illTyped e =>
            if accepted then fail "ACCEPTED-ILL-TYPED" [kind, .atom e.name]
            else if !noOutput impl then fail "REJECTED-BUT-OUTPUT-WRITTEN" [kind, .atom e.name]
            else if (errorsOf impl).isEmpty then fail "REJECTED-WITHOUT-ERROR" [kind]
            else .list [.atom "ok", .atom "rejected", kind, .atom e.name]
          | .unspecified => .list [.atom "skip", .atom "result-unspecified", kind]
          | .wellTyped =>
            if accepted then .list [.atom "ok", .atom "kept-well-typed", kind]
            else
              let es := errorsOf impl
              if !es.isEmpty && es.all isValueError then .list [.atom "ok", .atom "kept-well-typed-value-error", kind]
              else fail "WELL-TYPED-REJECTED" (kind :: es.map Sexp.str))
     | _, _ => .list [.atom "bad-request"])
  | _ => .list [.atom "bad-request"]

def handleIr (args : List Sexp) : Sexp :=
  match req? args, implOf args with
  | some r, some impl =>
    (match impl with
     | .list [.atom "built", code] =>
       (match Driver.Ir.codeBodyOf? code with
        | none => fail "unreadable-IR" []
        | some c =>
          let expected := if r.isCb then none else propType r
          if QV.Spec.IrTyping.check QV.Gen.verifEnv expected c then .list [.atom "ok"]
          else match QV.Spec.IrTyping.firstFailure QV.Gen.verifEnv c with
            | some (b, s) => fail "IR-ILL-TYPED" [.atom "block", .ofNat b, .atom "statement", .ofNat s]
            | none => fail "IR-ILL-TYPED" [.atom "result-type-or-locals"])
     | .list (.atom "rejected" :: _) => .list [.atom "ok", .atom "rejected"]
     | .list (.atom "syntax-error" :: _) => .list [.atom "ok", .atom "syntax-error"]
     | other => fail "unexpected-answer" [other])
  | _, _ => .list [.atom "bad-request"]

/-- acceptance according to the model of the checker -/
def handleVerdict (args : List Sexp) : Sexp :=
  match req? args with
  | some r =>
    let ok :=
      if r.isCb then
        match (signalOverloads r).bind uniquifyMethods with
        | some desc => desc.kind = .signal && acceptsCallback r.ctx desc r.prog
        | none => false
      else
        match propType r with
        | some t => acceptsBinding r.ctx t r.prog
        | none => false
    .list [.atom (if ok then "accepted" else "rejected")]
  | none => .list [.atom "bad-request"]

end QV.Driver.Typing
