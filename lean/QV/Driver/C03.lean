/- Driver for the `c03` stream: literal model/spec answers and the judgement of an embedded constant. -/
import QV.Sexp
import QV.Model.Literal
import QV.Spec.Ecma
import QV.Spec.ConstSem
import QV.Driver.Ir

namespace QV.Driver.C03
open QV QV.Model QV.Spec.ConstSem

def handleLiteral (args : List Sexp) : Sexp :=
  match args with
  | [.str s] =>
    (match Literal.parseNumberStr (fun t => !t.contains (Char.ofNat 95)) s with
     | some (.integer v) => .list [.atom "integer", Sexp.ofNat v]
     | some .float => .list [.atom "float"]
     | none => .list [.atom "none"])
  | _ => .list [.atom "bad-request"]

def handleSpecMv (args : List Sexp) : Sexp :=
  match args with
  | [.str s] =>
    (match Spec.Ecma.mv s with
     | some v => if v ≤ Literal.u64Max then .list [.atom "integer", Sexp.ofNat v] else .list [.atom "none"]
     | none => .list [.atom "skip", .atom "not-an-integer-literal"])
  | _ => .list [.atom "bad-request"]

def fail (why : String) (extra : List Sexp) : Sexp := .list ([.atom "fail", Sexp.ofString why] ++ extra)
def ok (tag : String) : Sexp := .list [.atom "ok", .atom tag]

def isNaNBits (b : Nat) : Bool := (Float.ofBits b.toUInt64).isNaN

def showVal : Val → Sexp
  | .int v => .list [.atom "int", Sexp.ofInt v]
  | .float b => .list [.atom "float", Sexp.ofNat b]
  | .bool b => .list [.atom "bool", Sexp.ofBool b]
  | .str s => .list [.atom "str", .str s]
  | .trStr s => .list [.atom "trstr", .str s]
  | .enumSet ns => .list (.atom "enums" :: ns.map Sexp.ofString)
  | .strList tr xs => .list (.atom "strlist" :: Sexp.ofBool tr :: xs.map .str)
  | .null => .atom "null"

/-- does the constant found in the `.ui` carry the value `v`? -/
def carries (v : Val) (impl : List Sexp) : Bool :=
  match v, impl with
  | .int i, [.atom "number", .str text] => Spec.Ecma.readInt text == some i
  | .float b, [.atom "number", .str text] =>
    -- an integral double written as an integer text
    (match Spec.Ecma.readInt text with
     | some i => Float.ofInt i == Float.ofBits b.toUInt64 && Float.ofInt i == Float.ofBits b.toUInt64
     | none => false)
  | .float b, [.atom "double", .str _, bits] =>
    (match bits.toNat? with
     | some b' => b' == b || (isNaNBits b && isNaNBits b')
     | none => false)
  | .bool x, [.atom "bool", y] => y.toBool? == some x
  | .str s, [.atom "string", .atom "notr", .str t] => s == t
  | .trStr s, [.atom "string", .atom "tr", .str t] => s == t
  | .enumSet [n], [.atom "enum", .str t] => n.toList == t
  | .enumSet ns, [.atom "set", .str t] => ("|".intercalate ns).toList == t
  | .strList tr xs, .atom "stringlist" :: .atom m :: ts =>
    ts == xs.map .str && (xs.isEmpty || m == (if tr then "tr" else "notr"))
  | _, _ => false

def handleJudge (args : List Sexp) : Sexp :=
  match args with
  | [_prop, prog, .list (.atom "impl" :: impl)] =>
    (match Ir.program? prog with
     | some (.stmt (.expr e)) =>
       let spec := eval Ir.floatOps e
       (match impl with
        | [.list (.atom "const" :: c)] =>
          (match spec with
           | .val v =>
             if carries v c then ok "exact"
             else (match v, c with
               | .float b, [.atom "number-float", .str _, bits] =>
                 if bits.toNat? == some b || (isNaNBits b && (bits.toNat?.map isNaNBits).getD false) then
                   fail "double constant written as <number> with a non-integer text (ui4 types <number> as an integer; uic reads it with toInt)" [showVal v]
                 else fail "embedded constant differs from the denoted value" [showVal v]
               | _, _ => fail "embedded constant differs from the denoted value" [showVal v])
           | .undefined w => fail "constant embedded for an expression whose value is undefined" [Sexp.ofString w]
           | .illTyped => fail "constant embedded for an ill-typed expression" []
           | .outside => .list [.atom "skip", .atom "outside-fragment"])
        | [.list [.atom "dynamic"]] =>
          (match spec with
           | .val _ => ok "not-folded"
           | .undefined _ => ok "not-folded-undefined"
           | .illTyped => ok "not-folded-illtyped"
           | .outside => ok "not-folded-outside")
        | [.list (.atom "rejected" :: _)] =>
          (match spec with
           | .val _ => ok "over-rejected"
           | .undefined _ => ok "rejected-undefined"
           | .illTyped => ok "rejected-illtyped"
           | .outside => ok "rejected-outside")
        | _ => fail "unexpected answer of the implementation" [])
     | _ => .list [.atom "bad-request", .atom "program"])
  | _ => .list [.atom "bad-request"]

/-- `(c03-strlit "raw" (impl (strlit (segs …) <decoder> <outcome>)))` -/
def handleStrLit (args : List Sexp) : Sexp :=
  match args with
  | [_raw, .list [.atom "impl", .list [.atom "strlit", .list (.atom "segs" :: segs), decoder, outcome]]] =>
    let segs? : Option (List Literal.Segment) := Sexp.mapM? (fun s => match s with
      | .list [.atom "frag", .str t] => some (Literal.Segment.fragment t)
      | .list [.atom "esc", .str t] => some (Literal.Segment.escape t)
      | _ => none) segs
    (match segs? with
     | none => .list [.atom "bad-request", .atom "segs"]
     | some segs =>
       let model := Literal.parseString segs
       let spec := Spec.Ecma.stringValue (segs.map fun s => match s with
         | .fragment t => Spec.Ecma.Seg.fragment t
         | .escape t => Spec.Ecma.Seg.escape t)
       -- (1) correspondence: the real decoder = the model
       let decOk : Bool := match decoder, model with
         | .list [.atom "value", .str v], some m => v == m
         | .list [.atom "none"], none => true
         | .list (.atom "unavailable" :: _), _ => true
         | _, _ => false
       if !decOk then
         fail "the real literal decoder disagrees with Model.Literal.parseString"
           [match model with | some m => .list [.atom "value", .str m] | none => .list [.atom "none"]]
       else
       -- (2) the embedded string against the ECMAScript string value
       match outcome, spec with
       | .list [.atom "const", .atom "string", .atom "notr", .str t], some units =>
         if Spec.Ecma.units16 t == units then ok "exact"
         else fail "embedded string differs from the ECMAScript value of the literal" [.list (units.map Sexp.ofNat)]
       | .list (.atom "const" :: _), some _ => fail "unexpected value element for a string literal" []
       | .list (.atom "const" :: _), none => fail "a literal without ECMAScript value was embedded" []
       | .list (.atom "rejected" :: _), some _ => ok "over-rejected"
       | .list (.atom "rejected" :: _), none => ok "rejected-invalid"
       | _, _ => fail "unexpected outcome" [])
  | _ => .list [.atom "bad-request"]

end QV.Driver.C03
