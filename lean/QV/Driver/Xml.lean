import QV.Sexp
import QV.Model.Xml
import QV.Spec.Xml

namespace QV.Driver.Xml
open QV

/-- `(xmltext pos "s")` / `(xmlattr pos "s")` → `(raw "escaped")` -/
def handleModel (attr : Bool) (args : List Sexp) : Sexp :=
  match args with
  | [_, .str s] =>
    -- uigen/expr.rs `SerializableValue::build`: a string with a character XML 1.0 cannot carry is refused
    if !s.all QV.Spec.Xml.isXmlChar then
      .list [.atom "rejected", .ofString "string contains character which cannot be represented in XML"]
    else .list [.atom "raw", .str (if attr then QV.Model.Xml.escapeAttr s else QV.Model.Xml.escapeText s)]
  | _ => .list [.atom "bad-request"]

/-- `(spec-xmlread text|attr pos "s" (impl (raw "r")))` → `(ok)` iff an XML processor reads `r` as `s`
    (strings outside XML 1.0's character range are out of scope: `(ok out-of-scope)`). -/
def handleSpec (args : List Sexp) : Sexp :=
  match args with
  | [.atom kind, _, .str s, .list [.atom "impl", .list [.atom "raw", .str r]]] =>
    if !s.all QV.Spec.Xml.isXmlChar then .list [.atom "ok", .atom "out-of-scope"]
    else
      let v := if kind == "attr" then QV.Spec.Xml.readAttr r else QV.Spec.Xml.readText r
      if v == some s then .list [.atom "ok"]
      else .list [.atom "fail", .ofString "an XML processor reads", Sexp.optionOf Sexp.str v]
  | [_, _, .str s, .list [.atom "impl", other]] =>
    if !s.all QV.Spec.Xml.isXmlChar then .list [.atom "ok", .atom "out-of-scope"]
    else .list [.atom "fail", .ofString ("unexpected answer " ++ toString other)]
  | _ => .list [.atom "bad-request"]

end QV.Driver.Xml
