/-
  C02 driver handlers (all three read the REAL post-analysis IR from the `(impl …)` part of a kind=pred request):

    (coveredcheck <this> <objects> <kind> <program> (expect accepted|unobservable|any) (impl <ir-stream answer>))
        → (ok covered …) | (ok rejected …) | (fail "…")
    (both also with a trailing `(siblings …)` node: the binding under test is then a MEMBER of a gadget property —
     `font.family: …` — next to sibling members; the IR in `(impl …)` is that member's)
    (c02-history  <this> <objects> <kind> <program> (world (obj "a" (("i" (int 3)) ("next" (ptr "b")) …)) …)
                  (history (set "a" "i" (int 5)) …) (impl <ir-stream answer>))
        → (ok steps N) | (ok steps k undefined) | (ok rejected) | (skip "…") | (fail step k …)
-/
import QV.Sexp
import QV.Model.Observe
import QV.Driver.Ir
import QV.Gen.VerifEnv

namespace QV.Driver.Observe
open QV QV.Model QV.Model.Observe

def implOf (args : List Sexp) : Option Sexp :=
  match args.getLast? with
  | some (.list [.atom "impl", a]) => some a
  | _ => none

def diagsOf : Sexp → List String
  | .list (.atom "diags" :: ds) => ds.filterMap fun d => match d with | .str s => some (String.ofList s) | _ => none
  | _ => []

def expectOf (args : List Sexp) : String :=
  (args.findSome? fun a => match a with | .list [.atom "expect", .atom e] => some e | _ => none).getD "any"

def isUnobsDiag (d : String) : Bool := d.startsWith "unobservable property"

def handleCoveredCheck (args : List Sexp) : Sexp :=
  let expect := expectOf args
  match implOf args with
  | some (.list (.atom "built" :: code :: rest)) =>
    (match QV.Driver.Ir.codeBodyOf? code with
     | none => .list [.atom "fail", .ofString "unreadable IR"]
     | some c =>
       let diags := (rest.map diagsOf).flatten
       if diags.isEmpty then
         if expect == "unobservable" then
           .list [.atom "fail", .ofString "a read of a notify-less non-constant property was accepted without diagnostic"]
         else if covered c then
           .list [.atom "ok", .atom "covered", .list [.atom "deps", .ofNat c.staticDeps.length],
             .list [.atom "observers", .ofNat c.observerCount]]
         else if hasUnobservableRead c then
           .list [.atom "fail", .ofString "accepted body reads a non-constant property without notify signal (stale binding)"]
         else .list [.atom "fail", .ofString "accepted body is not covered: a read is neither statically connected nor observed, or observer handles clash"]
       else
         if hasUnobservableRead c && !diags.any isUnobsDiag then
           .list [.atom "fail", .ofString "unobservable read present but the diagnostic is missing"]
         else if expect == "unobservable" && !diags.any isUnobsDiag then
           .list [.atom "fail", .ofString "expected the unobservable-property diagnostic"]
         else if expect == "accepted" then
           .list [.atom "fail", .ofString ("expected an accepted program, got diagnostic: " ++ diags.headD "")]
         else .list [.atom "ok", .atom "rejected", .atom (if diags.any isUnobsDiag then "unobservable" else "other")])
  | some (.list (.atom "rejected" :: rest)) =>
    if expect == "accepted" then
      .list [.atom "fail", .ofString ("expected an accepted program, got: " ++ ((rest.map diagsOf).flatten.headD ""))]
    else if expect == "unobservable" then .list [.atom "fail", .ofString "expected IR with the unobservable diagnostic"]
    else .list [.atom "ok", .atom "rejected", .atom "builder"]
  | some (.list (.atom "syntax-error" :: _)) => .list [.atom "ok", .atom "syntax-error"]
  | some other => .list [.atom "fail", .ofString ("unexpected answer " ++ (toString other).take 200)]
  | none => .list [.atom "bad-request"]

/-! ### the concrete instance of the abstract semantics used on real IR -/

def cmpInt (op : CmpOp) (a b : Int) : Bool :=
  match op with
  | .eq => a == b | .ne => a != b | .lt => a < b | .le => a ≤ b | .gt => a > b | .ge => a ≥ b

def in32 (v : Int) : Option Val := if -2147483648 ≤ v ∧ v < 2147483648 then some (.int v) else none

/-- operators of the history-safe sub-language; anything else is `none` (the case is then skipped, not passed) -/
def pureEval (r : Rvalue) (ov : Operand → Option Val) : Option Val :=
  match r with
  | .binary op l r =>
    (match op, ov l, ov r with
     | .arith .add, some (.int a), some (.int b) => in32 (a + b)
     | .arith .sub, some (.int a), some (.int b) => in32 (a - b)
     | .arith .mul, some (.int a), some (.int b) => in32 (a * b)
     | .arith .add, some (.str a), some (.str b) => some (.str (a ++ b))
     | .cmp op, some (.int a), some (.int b) => some (.bool (cmpInt op a b))
     | .cmp .eq, some (.bool a), some (.bool b) => some (.bool (a == b))
     | .cmp .ne, some (.bool a), some (.bool b) => some (.bool (a != b))
     | .cmp .eq, some (.str a), some (.str b) => some (.bool (a == b))
     | .cmp .ne, some (.str a), some (.str b) => some (.bool (a != b))
     | .cmp .eq, some (.ptr a), some (.ptr b) => some (.bool (a == b))
     | .cmp .ne, some (.ptr a), some (.ptr b) => some (.bool (a != b))
     | .logical .and, some (.bool a), some (.bool b) => some (.bool (a && b))
     | .logical .or, some (.bool a), some (.bool b) => some (.bool (a || b))
     | _, _, _ => none)
  | .callBuiltin .max [a, b] =>
    (match ov a, ov b with | some (.int x), some (.int y) => some (.int (if x < y then y else x)) | _, _ => none)
  | .callBuiltin .min [a, b] =>
    (match ov a, ov b with | some (.int x), some (.int y) => some (.int (if y < x then y else x)) | _, _ => none)
  | .unary .logNot a => (match ov a with | some (.bool b) => some (.bool !b) | _ => none)
  | .unary .minus a => (match ov a with | some (.int v) => in32 (-v) | _ => none)
  | .unary .plus a => (match ov a with | some (.int v) => some (.int v) | _ => none)
  | .staticCast (.pointer _) a => (match ov a with | some (.ptr p) => some (.ptr p) | _ => none)
  | .staticCast ty a =>
    if ty = .int then (match ov a with | some (.int v) => some (.int v) | _ => none) else none
  | _ => none

def constVal : Operand → Option Val
  | .const (.integer v) => some (.int v)
  | .const (.qstring s) | .const (.cstring s) => some (.str s)
  | _ => none

def indexOf (names : List String) (n : String) : Nat := (names.idxOf n)

def semOf (names : List String) : Sem := { named := indexOf names, constVal := constVal, pure := pureEval }

def valOf? (names : List String) : Sexp → Option Val
  | .list [.atom "int", n] => (Sexp.toInt? n).map .int
  | .list [.atom "bool", b] => (Sexp.toBool? b).map .bool
  | .list [.atom "str", .str s] => some (.str s)
  | .list [.atom "ptr", .str n] =>
    let n := String.ofList n
    if names.contains n then some (.ptr (some (indexOf names n))) else none
  | .list [.atom "nullptr"] => some (.ptr none)
  | _ => none

def valSexp (names : List String) : Option Val → Sexp
  | none => .atom "undefined"
  | some (.int v) => .list [.atom "int", .ofInt v]
  | some (.bool b) => .list [.atom "bool", .ofBool b]
  | some (.str s) => .list [.atom "str", .str s]
  | some (.ptr none) => .list [.atom "nullptr"]
  | some (.ptr (some o)) => .list [.atom "ptr", .ofString (names.getD o "?")]
  | some (.other t) => .list [.atom "other", .ofNat t]

/-- the real type map's `PropInfo` of property `p` looked up through class `cls` -/
def propInfo? (cls p : String) : Option PropInfo :=
  (QV.Gen.verifEnv.findClass cls).bind fun c => c.props.find? (·.name = p)

abbrev Table := List ((Nat × PropInfo) × Val)

def storeOf (t : Table) : Store := fun o p =>
  match t.find? (fun e => e.1.1 = o ∧ e.1.2 = p) with
  | some e => e.2
  | none => .other 99

def objectsOf? (s : Sexp) : Option (List (String × String)) :=
  match s with
  | .list (.atom "objects" :: objs) => Sexp.mapM? (fun o => match o with
      | .list [.str i, .str c] => some (String.ofList i, String.ofList c) | _ => none) objs
  | _ => none

def worldOf? (objects : List (String × String)) (s : Sexp) : Option Table :=
  let names := objects.map (·.1)
  match s with
  | .list (.atom "world" :: objs) => do
    let rows ← Sexp.mapM? (fun o => match o with
      | .list [.atom "obj", .str n, .list props] => do
        let n := String.ofList n
        let cls ← (objects.find? (·.1 = n)).map (·.2)
        Sexp.mapM? (fun pv => match pv with
          | .list [.str p, v] => do
            pure ((indexOf names n, ← propInfo? cls (String.ofList p)), ← valOf? names v)
          | _ => none) props
      | _ => none) objs
    pure rows.flatten
  | _ => none

def historyOf? (objects : List (String × String)) (s : Sexp) : Option (List Change) :=
  let names := objects.map (·.1)
  match s with
  | .list (.atom "history" :: steps) => Sexp.mapM? (fun st => match st with
      | .list [.atom "set", .str n, .str p, v] => do
        let n := String.ofList n
        let cls ← (objects.find? (·.1 = n)).map (·.2)
        pure ({ obj := indexOf names n, prop := ← propInfo? cls (String.ofList p), val := ← valOf? names v } : Change)
      | _ => none) steps
  | _ => none

/-- every non-constant property the fresh evaluation reads has a live connection (the second half of the invariant) -/
def unsubscribed (S : Sem) (c : CodeBody) (W : World) : Option (Nat × PropInfo) :=
  match run S c W.store with
  | none => none
  | some (_, evs) => evs.findSome? fun e => match e with
    | .read o p =>
      if p.constant then none else
      (match p.notify with
       | some (some sig) => if live S c W (o, sig) then none else some (o, p)
       | _ => some (o, p))
    | _ => none

def checkWorld (S : Sem) (c : CodeBody) (names : List String) (k : Nat) (W : World) : Option Sexp :=
  let fresh := evalBody S c W.store
  if W.target != fresh then
    some (.list [.atom "fail", .atom "step", .ofNat k, .list [.atom "target", valSexp names W.target],
      .list [.atom "expression", valSexp names fresh]])
  else match unsubscribed S c W with
    | some (o, p) => some (.list [.atom "fail", .atom "step", .ofNat k, .atom "unsubscribed-read",
        .ofString (names.getD o "?"), .ofString p.name])
    | none => none

def runHistory (S : Sem) (c : CodeBody) (names : List String) : Nat → World → List Change → Sexp
  | k, _, [] => .list [.atom "ok", .atom "steps", .ofNat k]
  | k, W, ch :: rest =>
    if ch.prop.constant then .list [.atom "skip", .ofString "history changes a constant property"] else
    match stepFn S c W ch with
    | none =>
      -- the expression has no value in the new state (null dereference …): nothing is demanded from here on
      .list [.atom "ok", .atom "steps", .ofNat k, .atom "undefined"]
    | some W' =>
      match checkWorld S c names (k + 1) W' with
      | some f => f
      | none => runHistory S c names (k + 1) W' rest

def handleHistory (args : List Sexp) : Sexp :=
  match args, implOf args with
  | _ :: objs :: _ :: _ :: world :: hist :: _, some (.list (.atom "built" :: code :: rest)) =>
    if !((rest.map diagsOf).flatten.isEmpty) then .list [.atom "ok", .atom "rejected"] else
    (match QV.Driver.Ir.codeBodyOf? code, objectsOf? objs with
     | some c, some objects =>
       let names := objects.map (·.1)
       (match worldOf? objects world, historyOf? objects hist with
        | some table, some changes =>
          -- deliberately independent of `covered` (that is `coveredcheck`'s job): this runs the semantics
          let S := semOf names
          (match setup S c (storeOf table) with
           | none => .list [.atom "ok", .atom "steps", .ofNat 0, .atom "undefined"]
           | some W0 =>
             match checkWorld S c names 0 W0 with
             | some f => f
             | none => runHistory S c names 0 W0 changes)
        | _, _ => .list [.atom "bad-request", .ofString "world/history"])
     | _, _ => .list [.atom "fail", .ofString "unreadable IR"])
  | _, some (.list (.atom "rejected" :: _)) => .list [.atom "ok", .atom "rejected"]
  | _, some (.list (.atom "syntax-error" :: _)) => .list [.atom "ok", .atom "syntax-error"]
  | _, some other => .list [.atom "fail", .ofString ("unexpected answer " ++ (toString other).take 200)]
  | _, none => .list [.atom "bad-request"]

end QV.Driver.Observe
