import QV.Sexp
import QV.Spec.Fs
import QV.Model.Cli

/-!
  Driver handlers for C15 (requests of harness stream `c15`).

  (cli-paths (opts OUTDIR|_ NODYN NOLOWER) "source")            → (refused) | (not-qml) | (ok "ui" "hdr"|_)      model
  (spec-cli-paths (opts …) "source")                            → same, computed from Spec.Fs.specRefused/specNames
  (cli-paths (opts …) (multi "src"…)) / (spec-cli-paths (opts …) (multi "src"…))
        several sources on one command line, fresh directory → (multi (status S) (files "p"…))
        model: `generateUi`; spec: refused (nothing written) iff -O and SOME source is refused by `specRefused`,
        otherwise exactly the documented files (`specNames` at the documented place), sorted, duplicates once
  (cli-hist (opts …) (sources (src "path" U H|fail|missing|dir)…) (steps STEP…))
        STEP = (gen) | (edit I U H) | (edit I fail) | (rm "p") | (put-file "p") | (put-dir "p") | (chmod "p" ro|rw)
        → (hist (step (status S) (trace OP…) (changed "p"…))… (final ENTRY…))
  (cli-kill  same arguments)   → (crash-states (state ENTRY…)…): the states after every prefix of the LAST gen step's trace
  Paths are printed canonically: relative to the cwd (`/ABS` stands for the cwd in absolute spellings), `.` dropped,
  `x/..` cancelled, temp names as `.tmp*`.
-/
namespace QV.Driver.Cli
open QV QV.Spec.Fs QV.Model.Cli

def bad : Sexp := .list [.atom "bad-request"]

def isTmp (n : Name) : Bool := n.take 4 == ['.', 't', 'm', 'p']

/-- canonical text of a path (lexical) -/
def showPath (p : Path) : String :=
  let abs := p.head? == some .rootDir
  let p := if abs then p.drop 1 else p
  let (abs, p) := match abs, p with
    | true, .normal n :: rest => if n == ['A', 'B', 'S'] then (false, rest) else (true, p)
    | a, p => (a, p)
  let stack : List String := p.foldl (fun st c =>
    match c with
    | .rootDir => st
    | .curDir => st
    | .parentDir => match st with
      | top :: rest => if top == ".." then ".." :: st else rest
      | [] => [".."]
    | .normal n => (if isTmp n then ".tmp*" else String.ofList n) :: st) []
  let body := "/".intercalate stack.reverse
  if abs then "/" ++ body else if body == "" then "." else body

def pathSexp (p : Path) : Sexp := .str (showPath p).toList

structure Opts where
  outdir : Option (List Char)
  nodyn : Bool
  nolower : Bool

def opts? : Sexp → Option Opts
  | .list [.atom "opts", o, a, b] => do
    let outdir ← match o with
      | .atom "_" => some none
      | .str s => some (some s)
      | _ => none
    pure { outdir, nodyn := ← Sexp.toBool? a, nolower := ← Sexp.toBool? b }
  | _ => none

def Opts.model (o : Opts) : Options :=
  { outputDirectory := o.outdir.map parsePath, noDynamicBinding := o.nodyn, noLowercaseFileName := o.nolower }

/-! ### cli-paths -/

def handlePaths1 (args : List Sexp) : Sexp :=
  match args with
  | [o, .str src] =>
    match opts? o with
    | none => bad
    | some o =>
      let opts := o.model
      let p := parsePath src
      if refuses opts [p] then .list [.atom "refused"]
      else match planFile opts ⟨p, .ok [] []⟩ with
        | .ok (u, h) => .list [.atom "ok", pathSexp u.1, if o.nodyn then .atom "_" else pathSexp h.1]
        | .error _ => .list [.atom "not-qml"]
  | _ => bad

/-- text-level reading of a path, independent of the model's parser: segments → components -/
def segsToPath (abs : Bool) (segs : List Name) : Path :=
  (if abs then [Component.rootDir] else []) ++ segs.filterMap fun s =>
    if s == [] || s == ['.'] then none else if s == ['.', '.'] then some .parentDir else some (.normal s)

/-- the documented output names of one source at the documented place (canonical text); `none`: not `STEM.qml` -/
def specOutputs (o : Opts) (src : List Char) : Option (String × String) :=
  let segs := splitSlash src
  let file := segs.getLastD []
  let n := file.length
  if n ≥ 5 && (file.drop (n - 4)).map lowerChar == ['.', 'q', 'm', 'l'] then
    let names := specNames (!o.nolower) (file.take (n - 4))
    let srcAbs := src.head? == some '/'
    let (abs, dirSegs) := match o.outdir with
      | some d => (d.head? == some '/', splitSlash d ++ segs.dropLast)
      | none => (srcAbs, segs.dropLast)
    some (showPath (segsToPath abs (dirSegs ++ [names.1])), showPath (segsToPath abs (dirSegs ++ [names.2])))
  else none

def insertStr (x : String) : List String → List String
  | [] => [x]
  | y :: ys => if x < y then x :: y :: ys else if x == y then y :: ys else y :: insertStr x ys

def multiSexp (status : Sexp) (files : List String) : Sexp :=
  .list [.atom "multi", .list [.atom "status", status], .list (.atom "files" :: files.map fun s => .str s.toList)]

/-- specification side of a command line with several sources (Spec.Fs only) -/
def handleSpecMulti (o : Opts) (srcs : List (List Char)) : Sexp :=
  if o.outdir.isSome && srcs.any specRefused then multiSexp (.atom "refused") []
  else
    match srcs.mapM (specOutputs o) with
    | none => .list [.atom "skip", .atom "not-qml"]
    | some outs =>
      let files := outs.flatMap fun (u, h) => if o.nodyn then [u] else [u, h]
      multiSexp (.atom "ok") (files.foldr insertStr [])

def multiSources? : Sexp → Option (List (List Char))
  | .list (.atom "multi" :: ss) => ss.mapM fun
    | .str p => some p
    | _ => none
  | _ => none

def handleSpecPaths (args : List Sexp) : Sexp :=
  match args with
  | [o, .str src] =>
    match opts? o with
    | none => bad
    | some o =>
      if o.outdir.isSome && specRefused src then .list [.atom "refused"]
      else match specOutputs o src with
        | some (u, h) => .list [.atom "ok", .str u.toList, if o.nodyn then .atom "_" else .str h.toList]
        | none => .list [.atom "not-qml"]
  | [o, m] =>
    match opts? o, multiSources? m with
    | some o, some srcs => handleSpecMulti o srcs
    | _, _ => bad
  | _ => bad

/-! ### histories -/

inductive SrcState where
  | ok (u h : Nat)
  | fail
  | missing
  | dir

structure Src where
  path : List Char
  st : SrcState

def src? : Sexp → Option Src
  | .list [.atom "src", .str p, .atom "fail"] => some ⟨p, .fail⟩
  | .list [.atom "src", .str p, .atom "missing"] => some ⟨p, .missing⟩
  | .list [.atom "src", .str p, .atom "dir"] => some ⟨p, .dir⟩
  | .list [.atom "src", .str p, u, h] => do some ⟨p, .ok (← Sexp.toNat? u) (← Sexp.toNat? h)⟩
  | _ => none

def codes (n : Name) : List Nat := n.map Char.toNat

def outcomeOf (o : Opts) (s : Src) : Outcome :=
  let tn := (fileStem (parsePath s.path)).getD []
  match s.st with
  | .ok u h =>
    if o.nodyn && h > 0 then .failed
    else .ok ([1, u, min h 1] ++ codes tn) ([2, h] ++ codes tn)
  | .fail => .failed
  | .missing => .unreadable
  | .dir => .notLoaded

def contentSexp (b : Bytes) : Sexp :=
  let name (l : List Nat) : Sexp := .str (l.map Char.ofNat)
  match b with
  | [] => .atom "empty"
  | 0 :: _ => .atom "junk"
  | 1 :: u :: d :: tn => .list [.atom "ui", name tn, .ofNat u, .ofNat d]
  | 2 :: h :: tn => .list [.atom "hdr", name tn, .ofNat h]
  | _ => .atom "unknown"

structure St where
  fs : FS
  known : List Path
  srcs : List Src

def addDirs (fs : FS) (known : List Path) (d : Path) : FS × List Path :=
  (prefixes d).foldl (fun (acc : FS × List Path) q =>
    if implicitDir q then acc
    else match acc.1 q with
      | none => (acc.1.set q (some .dir), q :: acc.2)
      | some _ => acc) (fs, known)

def initState (srcs : List Src) : St :=
  let (fs, known) := srcs.foldl (fun (acc : FS × List Path) s =>
    let p := key (parsePath s.path)
    match s.st with
    | .dir => addDirs acc.1 acc.2 p
    | _ => addDirs acc.1 acc.2 p.dropLast)
      -- `/ABS` is the absolute spelling of the cwd: it exists
      (FS.set (fun _ => none) [.rootDir, .normal ['A', 'B', 'S']] (some .dir), [])
  { fs, known, srcs }

def insertSorted (x : String × Sexp) : List (String × Sexp) → List (String × Sexp)
  | [] => [x]
  | y :: ys => if x.1 < y.1 || (x.1 == y.1 && toString x.2 ≤ toString y.2) then x :: y :: ys else y :: insertSorted x ys

def sortEntries (l : List (String × Sexp)) : List (String × Sexp) := l.foldr insertSorted []

def dedupPaths (l : List Path) : List Path := l.foldl (fun acc p => if acc.contains p then acc else p :: acc) []

/-- `..`, `../..`, …: ancestors of the cwd (scaffolding of the harness, not part of the listed tree) -/
def onlyUps (name : String) : Bool := (name.splitOn "/").all (· == "..")

def dedupEntries (l : List (String × Sexp)) : List (String × Sexp) :=
  l.foldl (fun acc x =>
    let isDirEntry := match x.2 with
      | .list (.atom "dir" :: _) => true
      | _ => false
    if isDirEntry && acc.any (fun y => y.1 == x.1 && toString y.2 == toString x.2) then acc else acc ++ [x]) []

def listing (fs : FS) (known : List Path) : List Sexp :=
  let entries := (dedupPaths known).filterMap fun p =>
    let name := showPath p
    if name == "." || onlyUps name then none
    else match fs p with
      | none => none
      | some .dir => some (name, Sexp.list [.atom "dir", .str name.toList])
      | some (.file b) => some (name, Sexp.list [.atom "file", .str name.toList, contentSexp b])
  -- two spellings of one DIRECTORY (`/ABS/sub` and `sub`) are one entry (several `.tmp*` files stay several)
  (sortEntries (dedupEntries entries)).map (·.2)

def opSexp : Op → Sexp
  | .mkdir p => .list [.atom "mkdir", pathSexp p]
  | .createTemp p => .list [.atom "create", pathSexp p]
  | .write p _ => .list [.atom "write", pathSexp p]
  | .chmod p => .list [.atom "chmod", pathSexp p]
  | .rename s d => .list [.atom "rename", pathSexp s, pathSexp d]

def statusAtom : Status → Sexp
  | .ok => .atom "ok"
  | .refused => .atom "refused"
  | .populateError => .atom "populate"
  | .notLoaded => .atom "not-loaded"
  | .diagnostic => .atom "diagnostic"
  | .invalidFileName => .atom "invalid"
  | .ioMkdir => .atom "io-mkdir"
  | .ioTemp => .atom "io-temp"
  | .ioPersist => .atom "io-persist"

def digits (n : Nat) : Name := (toString n).toList

def tmpNames (step : Nat) (k : Nat) : Name := ['.', 't', 'm', 'p'] ++ digits step ++ ['_'] ++ digits k

/-- files replaced or created by a trace: rename destinations, and temp files never renamed -/
def changedOf (ops : List Op) : List String :=
  let dsts := ops.filterMap fun op => match op with
    | .rename _ d => some (showPath d)
    | _ => none
  let renamed := ops.filterMap fun op => match op with
    | .rename s _ => some s
    | _ => none
  let residue := ops.filterMap fun op => match op with
    | .createTemp t => if renamed.contains t then none else some (showPath t)
    | _ => none
  let all := dsts ++ residue
  let ded := all.foldl (fun acc s => if acc.contains s then acc else s :: acc) ([] : List String)
  (sortEntries (ded.map fun s => (s, Sexp.atom ""))).map (·.1)

def runGen (o : Opts) (st : St) (stepIdx : Nat) : List Op × Status :=
  let sources := st.srcs.map fun s => (⟨parsePath s.path, outcomeOf o s⟩ : Source)
  generateUi o.model (tmpNames stepIdx) st.fs sources

/-- model side of a command line with several sources in a fresh directory: source `i` is in state `ok 1 (i mod 2)`
    (`ok 1 0` with --no-dynamic-binding), as the harness materialises it -/
def handleMulti (o : Opts) (srcs : List (List Char)) : Sexp :=
  let ss : List Src := srcs.zipIdx.map fun (p, i) => ⟨p, .ok 1 (if o.nodyn then 0 else i % 2)⟩
  let (ops, status) := runGen o (initState ss) 0
  multiSexp (statusAtom status) (changedOf ops)

def handlePaths (args : List Sexp) : Sexp :=
  match args with
  | [_, .str _] => handlePaths1 args
  | [o, m] =>
    match opts? o, multiSources? m with
    | some o, some srcs => handleMulti o srcs
    | _, _ => bad
  | _ => bad

def applyOps (st : St) (ops : List Op) : St :=
  { st with fs := run st.fs ops, known := (ops.map Op.targets).flatten ++ st.known }

def setAt (l : List Src) (i : Nat) (f : Src → Src) : List Src :=
  l.zipIdx.map fun (s, j) => if j = i then f s else s

/-- a non-gen step -/
def applyEdit (st : St) : Sexp → Option St
  | .list [.atom "edit", i, .atom "fail"] => do
    let i ← Sexp.toNat? i
    some { st with srcs := setAt st.srcs i fun s => { s with st := .fail } }
  | .list [.atom "edit", i, u, h] => do
    let i ← Sexp.toNat? i; let u ← Sexp.toNat? u; let h ← Sexp.toNat? h
    some { st with srcs := setAt st.srcs i fun s => { s with st := .ok u h } }
  | .list [.atom "rm", .str p] =>
    let p := key (parsePath p)
    some { st with fs := st.fs.set p none }
  | .list [.atom "put-file", .str p] =>
    let p := key (parsePath p)
    let (fs, known) := addDirs st.fs st.known p.dropLast
    some { st with fs := fs.set p (some (.file [0])), known := p :: known }
  | .list [.atom "put-dir", .str p] =>
    let p := key (parsePath p)
    let (fs, known) := addDirs st.fs st.known p
    some { st with fs, known }
  -- permission bits are not part of the abstract file system (replace-by-rename does not read them)
  | .list [.atom "chmod", .str _, .atom _] => some st
  | _ => none

def parseHist (args : List Sexp) : Option (Opts × List Src × List Sexp) :=
  match args with
  | [o, .list (.atom "sources" :: ss), .list (.atom "steps" :: steps)] => do
    let o ← opts? o
    let srcs ← Sexp.mapM? src? ss
    some (o, srcs, steps)
  | _ => none

def handleHist (args : List Sexp) : Sexp :=
  match parseHist args with
  | none => bad
  | some (o, srcs, steps) =>
    let init := initState srcs
    let res := steps.zipIdx.foldl (fun (acc : Option (St × List Sexp)) (step, idx) =>
      match acc with
      | none => none
      | some (st, out) =>
        match step with
        | .list [.atom "gen"] =>
          let (ops, status) := runGen o st idx
          let ans := Sexp.list [.atom "step", .list [.atom "status", statusAtom status],
            .list (.atom "trace" :: ops.map opSexp),
            .list (.atom "changed" :: (changedOf ops).map fun s => .str s.toList)]
          some (applyOps st ops, ans :: out)
        | other => (applyEdit st other).map fun st' => (st', out)) (some (init, []))
    match res with
    | none => bad
    | some (st, out) =>
      .list (.atom "hist" :: out.reverse ++ [.list (.atom "final" :: listing st.fs st.known)])

def lastGenIndex (steps : List Sexp) : Option Nat :=
  steps.zipIdx.foldl (fun acc (s, i) => match s with
    | .list [.atom "gen"] => some i
    | _ => acc) none

def dedupStrings (l : List (String × Sexp)) : List (String × Sexp) :=
  l.foldl (fun acc x => if acc.any (·.1 == x.1) then acc else x :: acc) []

def handleKill (args : List Sexp) : Sexp :=
  match parseHist args with
  | none => bad
  | some (o, srcs, steps) =>
    match lastGenIndex steps with
    | none => bad
    | some last =>
      let init := initState srcs
      let res := (steps.zipIdx.take last).foldl (fun (acc : Option St) (step, idx) =>
        match acc with
        | none => none
        | some st =>
          match step with
          | .list [.atom "gen"] => some (applyOps st (runGen o st idx).1)
          | other => applyEdit st other) (some init)
      match res with
      | none => bad
      | some st =>
        let (ops, _) := runGen o st last
        let known := (ops.map Op.targets).flatten ++ st.known
        let states := (List.range (ops.length + 1)).map fun i =>
          let s := Sexp.list (.atom "state" :: listing (run st.fs (ops.take i)) known)
          (toString s, s)
        .list (.atom "crash-states" :: (sortEntries (dedupStrings states)).map (·.2))

end QV.Driver.Cli
