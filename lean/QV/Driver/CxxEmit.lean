import QV.Sexp
import QV.Model.CxxEmit
import QV.Spec.CxxLit

/-!
  Driver handlers of C16.
    (c16-inv "qml" "Type" (objs (o "name" (props (p "n" CODE)…) (cbs (cb "signal" (uses …) (lits …))…))…))
        CODE = (e dyn|const OBSERVERS (uses max|min|log|tr|fmod …) (lits (q "s")|(c "s") …)
               (enums (ev "Parent" "Enum" scoped|unscoped "Variant") …)
               (casts AS_INT (bit u|b lScoped rScoped) …)) | (g (p "n" CODE)…)
      → (inv (includes …) (calls …) (index …) (defs …) (guard none|N) (observers ("name" N)…) (lits (q "sp")…) (enums "Parent::Enum::Variant" …) (int-casts N))
    (c16-lit "s" style)         → (lit (q "sp") (c "sp") (c "sp"))      model of formatStringLiteral
    (spec-cxxlit u16|narrow "spelling"…) → (decoded (units …)|(ill-formed) …)   Spec.CxxLit
  The driver sorts properties / gadget members / callbacks by name (code-point order = UTF-8 byte order, C08) and
  flattens each property to its pre-order node list; everything else is the model.
-/
namespace QV.Driver.CxxEmit
open QV QV.Model.CxxEmit QV.Model.Names

private def strLt : List Char → List Char → Bool
  | [], [] => false
  | [], _ :: _ => true
  | _ :: _, [] => false
  | a :: as, b :: bs => if a.toNat < b.toNat then true else if a.toNat > b.toNat then false else strLt as bs

private def insertBy {α} (key : α → List Char) (x : α) : List α → List α
  | [] => [x]
  | y :: ys => if strLt (key y) (key x) then y :: insertBy key x ys else x :: y :: ys

private def sortBy {α} (key : α → List Char) (xs : List α) : List α := xs.foldl (fun acc x => insertBy key x acc) []

private def builtin? : Sexp → Option Builtin
  | .atom "max" => some .max
  | .atom "min" => some .min
  | .atom "log" => some .log
  | .atom "tr" => some .tr
  | .atom "fmod" => some .fmod
  | _ => none

private def lit? : Sexp → Option (Bool × List Char)
  | .list [.atom "q", .str s] => some (true, s)
  | .list [.atom "c", .str s] => some (false, s)
  | _ => none

private def uses? : Sexp → Option (List Builtin)
  | .list (.atom "uses" :: us) => Sexp.mapM? builtin? us
  | _ => none

private def enumUse? : Sexp → Option EnumUse
  | .list [.atom "ev", .str p, .str e, .atom sc, .str v] =>
    some { parent := p, enumName := e, isScoped := sc == "scoped", variant := v }
  | _ => none

private def enums? : Sexp → Option (List EnumUse)
  | .list (.atom "enums" :: es) => Sexp.mapM? enumUse? es
  | _ => none

private def bitUse? : Sexp → Option BitUse
  | .list [.atom "bit", .atom k, l, r] =>
    match l.toBool?, r.toBool? with
    | some l, some r => some { unary := k == "u", lScoped := l, rScoped := r }
    | _, _ => none
  | _ => none

/-- `(casts AS_INT (bit u|b lScoped rScoped)…)` -/
private def casts? : Sexp → Option (Nat × List BitUse)
  | .list (.atom "casts" :: n :: bs) =>
    match n.toNat?, Sexp.mapM? bitUse? bs with
    | some n, some bs => some (n, bs)
    | _, _ => none
  | _ => none

private def lits? : Sexp → Option (List (Bool × List Char))
  | .list (.atom "lits" :: ls) => Sexp.mapM? lit? ls
  | _ => none

/-- a property `(p "n" CODE)` at `depth` → its pre-order node list -/
private partial def prop? (depth : Nat) : Sexp → Option (List Char × List PNode)
  | .list [.atom "p", .str n, .list [.atom "e", .atom d, obs, us, ls, es, cs]] =>
    match obs.toNat?, uses? us, lits? ls, enums? es, casts? cs with
    | some o, some u, some l, some e, some c =>
      some (n, [{ depth := depth, name := n,
                  kind := .expr { dynamic := d == "dyn", observers := o, uses := u, lits := l, enums := e,
                                  asIntCasts := c.1, bitops := c.2 } }])
    | _, _, _, _, _ => none
  | .list [.atom "p", .str n, .list [.atom "e", .atom d, obs, us, ls, es]] =>
    match obs.toNat?, uses? us, lits? ls, enums? es with
    | some o, some u, some l, some e =>
      some (n, [{ depth := depth, name := n,
                  kind := .expr { dynamic := d == "dyn", observers := o, uses := u, lits := l, enums := e } }])
    | _, _, _, _ => none
  | .list [.atom "p", .str n, .list [.atom "e", .atom d, obs, us, ls]] =>
    match obs.toNat?, uses? us, lits? ls with
    | some o, some u, some l =>
      some (n, [{ depth := depth, name := n, kind := .expr { dynamic := d == "dyn", observers := o, uses := u, lits := l } }])
    | _, _, _ => none
  | .list [.atom "p", .str n, .list (.atom "g" :: ms)] =>
    match Sexp.mapM? (prop? (depth + 1)) ms with
    | some members =>
      let sorted := sortBy (·.1) members
      some (n, { depth := depth, name := n, kind := .gadget } :: (sorted.map (·.2)).flatten)
    | none => none
  | _ => none

private def cb? : Sexp → Option Callback
  | .list [.atom "cb", .str s, us, ls, es, cs] =>
    match uses? us, lits? ls, enums? es, casts? cs with
    | some u, some l, some e, some c =>
      some { signal := s, uses := u, lits := l, enums := e, asIntCasts := c.1, bitops := c.2 }
    | _, _, _, _ => none
  | .list [.atom "cb", .str s, us, ls, es] =>
    match uses? us, lits? ls, enums? es with
    | some u, some l, some e => some { signal := s, uses := u, lits := l, enums := e }
    | _, _, _ => none
  | .list [.atom "cb", .str s, us, ls] =>
    match uses? us, lits? ls with
    | some u, some l => some { signal := s, uses := u, lits := l }
    | _, _ => none
  | _ => none

private def obj? : Sexp → Option Obj
  | .list [.atom "o", .str n, .list (.atom "props" :: ps), .list (.atom "cbs" :: cs)] =>
    match Sexp.mapM? (prop? 0) ps, Sexp.mapM? cb? cs with
    | some props, some cbs =>
      some { name := n, props := (sortBy (·.1) props).map (·.2), callbacks := sortBy (·.signal) cbs }
    | _, _ => none
  | _ => none

def handleInventory (args : List Sexp) : Sexp :=
  match args with
  | [_, _, .list (.atom "objs" :: os)] =>
    match Sexp.mapM? obj? os with
    | some objs =>
      match build objs with
      | none => .list [.atom "panic", .ofString "unused id must be found within N+1 tries"]
      | some b =>
        .list [.atom "inv",
          .list (.atom "includes" :: (systemIncludes objs).map Sexp.str),
          .list (.atom "calls" :: b.setupCalls.map Sexp.str),
          .list (.atom "index" :: b.indexEnum.map Sexp.str),
          .list (.atom "defs" :: b.defs.map Sexp.str),
          .list [.atom "guard", match b.guard with | none => .atom "none" | some n => .ofNat n],
          .list (.atom "observers" :: b.observerDecls.map (fun d => .list [.str d.1, .ofNat d.2])),
          .list (.atom "lits" :: b.lits.map (fun l => .list [.atom (if l.1 then "q" else "c"), .str l.2])),
          .list (.atom "enums" :: b.enums.map Sexp.str),
          .list [.atom "int-casts", .ofNat b.intCasts]]
    | none => .list [.atom "bad-request"]
  | _ => .list [.atom "bad-request"]

/-- the three positions of the harness's literal document: QStringLiteral in a binding, narrow in translate(), narrow
    in qDebug() — all three are printed with `{:?}` -/
private def argKind? : Sexp → Option ArgKind
  | .atom "prim" => some .prim
  | .atom "enum" => some .enum
  | .atom "pointer" => some .pointer
  | .atom "qstring" => some .qstring
  | .atom "qvariant" => some .qvariant
  | .atom "cls" => some .cls
  | .atom "list" => some .list
  | _ => none

private def sigUse? : Sexp → Option SignalUse
  | .list (.atom "sig" :: .str c :: .str n :: as) =>
    match Sexp.mapM? (fun a => match a with
        | .list [.atom "arg", .str t, k] => (argKind? k).map (fun k => (t, k))
        | _ => none) as with
    | some args => some { cls := c, name := n, args := args }
    | none => none
  | _ => none

/-- `(c16-lit sig "qml" "Type" (sigs (sig "Class" "name" (arg "T" kind)…)…))` → `(overloads "QOverload<…>::of(&…)"…)`;
    `(c16-lit num "qml" pinf|ninf|nan)` → `(num "spelling")`; `(c16-lit "s" style)` → the literal spellings -/
def handleLit (args : List Sexp) : Sexp :=
  match args with
  | [.atom "sig", _, _, .list (.atom "sigs" :: ss)] =>
    match Sexp.mapM? sigUse? ss with
    | some us => .list (.atom "overloads" :: us.map (fun u => Sexp.str (formatSignalPointer u)))
    | none => .list [.atom "bad-request"]
  | [.atom "num", _, .atom k] =>
    let nf := if k == "pinf" then some NonFinite.posInf else if k == "ninf" then some NonFinite.negInf
      else if k == "nan" then some NonFinite.nan else none
    match nf with
    | some x => .list [.atom "num", .str (formatNonFinite x)]
    | none => .list [.atom "bad-request"]
  | .str s :: _ =>
    let sp := formatStringLiteral s
    .list [.atom "lit", .list [.atom "q", .str sp], .list [.atom "c", .str sp], .list [.atom "c", .str sp]]
  | _ => .list [.atom "bad-request"]

def handleSpecCxxLit (args : List Sexp) : Sexp :=
  match args with
  | .atom mode :: sps =>
    match Sexp.mapM? Sexp.toChars? sps with
    | some spellings =>
      let dec := if mode == "u16" then QV.Spec.CxxLit.decode16 else QV.Spec.CxxLit.decode8
      .list (.atom "decoded" :: spellings.map (fun sp => match dec sp with
        | some us => .list (.atom "units" :: us.map Sexp.ofNat)
        | none => .list [.atom "ill-formed"]))
    | none => .list [.atom "bad-request"]
  | _ => .list [.atom "bad-request"]

end QV.Driver.CxxEmit
