import QV.Sexp
import QV.Model.Color
import QV.Spec.QtColor
import QV.Gen.ColorTable

namespace QV.Driver
open QV QV.Model.Color

private def colorAnswer (c : Color) : Sexp :=
  match c with
  | .rgb8 r g b => .list [.atom "ok", .atom "opaque", .ofNat r, .ofNat g, .ofNat b, .atom "rgb"]
  | .rgba8 r g b a => .list [.atom "ok", .ofNat a, .ofNat r, .ofNat g, .ofNat b, .atom "rgba"]

private def quad (q : Nat × Nat × Nat × Nat) : Sexp :=
  .list [.atom "ok", .ofNat q.1, .ofNat q.2.1, .ofNat q.2.2.1, .ofNat q.2.2.2]

private def errMsg (s : List Char) : Sexp :=
  -- the diagnostic text qmluic prints (ParseColorError's Display)
  if s.head? = some '#' then .list [.atom "err", .ofString "invalid hex color"]
  else .list [.atom "err", .ofString "unknown named color"]

/-- model side: `(color "s")`, `(colorui "s")`, `(brushui "s")` -/
def handleColor (tag : String) (args : List Sexp) : Sexp :=
  match args with
  | [.str s] =>
    match parse QV.Gen.colorTable s, tag with
    | .ok c, "color" => colorAnswer c
    | .ok c, _ => quad (toGadget c)
    | .error .invalidHex, "color" => .list [.atom "err", .atom "invalidHex"]
    | .error .unknownName, "color" => .list [.atom "err", .atom "unknownName"]
    | .error .invalidHex, _ => .list [.atom "err", .ofString "invalid hex color"]
    | .error .unknownName, _ => .list [.atom "err", .ofString "unknown named color"]
  | _ => .list [.atom "bad-request"]

/-- specification side: `(spec-color "s")`, `(spec-colorui "s")`, `(spec-brushui "s")` -/
def handleSpecColor (tag : String) (args : List Sexp) : Sexp :=
  match args with
  | [.str s] =>
    match QV.Spec.QtColor.readColor s, tag with
    | some c, "spec-color" => colorAnswer c
    | some c, _ => quad (QV.Spec.QtColor.channels c)
    | none, "spec-color" =>
      .list [.atom "err", .atom (if s.head? = some '#' then "invalidHex" else "unknownName")]
    | none, _ => errMsg s
  | _ => .list [.atom "bad-request"]

end QV.Driver
