import QV.Sexp
import QV.Model.FormTree
import QV.Spec.FormTree

namespace QV.Driver.FormTree
open QV QV.Model.FormTree

/-- `(o "cls" "name" flags actions kid…)`; flags ⊆ "ralmwsp" (resolves action layout menu widget spacer
    sePARATOR); actions = `_` | `("a" …)` -/
partial def forest? : List Sexp → Option Forest
  | [] => some .nil
  | .list (.atom "o" :: .str cls :: .str name :: .atom flags :: acts :: kids) :: rest => do
    let has (c : Char) := flags.toList.contains c
    let actions ← match acts with
      | .atom "_" => some none
      | .list l => (Sexp.mapM? Sexp.toChars? l).map some
      | _ => none
    let info : Info := { cls, name, resolves := has 'r', isAction := has 'a', isLayout := has 'l', isMenu := has 'm',
                         isWidget := has 'w', isSpacer := has 's', separator := has 'p', actions }
    pure (.cons info (← forest? kids) (← forest? rest))
  | _ => none

partial def renderXF : XF → List Sexp
  | .nil => []
  | .cons tag attrs ch rest =>
    .list (.atom tag :: .list (attrs.map fun (k, v) => .list [.atom k, .str v]) :: renderXF ch) :: renderXF rest

private def answer (r : Option (XF × Nat)) : Sexp :=
  match r with
  | some (x, e) => .list [.atom "form", .list [.atom "errors", .ofNat e], .list (renderXF x)]
  | none => .list [.atom "no-form"]

/- the request may carry a second element `(lists …)` (the explicit lists as written, for the harness's own use) -/
def handleModel (args : List Sexp) : Sexp :=
  match forest? (args.take 1) with
  | some root => answer (buildForm (depth root + 1) root)
  | none => .list [.atom "bad-request"]

def handleSpec (args : List Sexp) : Sexp :=
  match forest? (args.take 1) with
  | some root => answer (QV.Spec.FormTree.specForm root)
  | none => .list [.atom "bad-request"]

end QV.Driver.FormTree
