import QV.Sexp
import QV.Model.Finalize
import QV.Model.Cfg
import QV.Gen.VerifEnv

namespace QV.Driver.Ir
open QV QV.Model

/-- C `fmod` (Rust's `%` on `f64`) computed exactly with `Float` primitives: subtract the divisor scaled to the
    dividend's binade until the remainder is smaller than the divisor (each subtraction is exact: Sterbenz). -/
partial def fmodLoop (ay : Float) (r : Float) : Float :=
  if r < ay then r else
  let er := r.frExp.2
  let ey := ay.frExp.2
  let t0 := ay.scaleB (er - ey)
  let t := if t0 ≤ r then t0 else ay.scaleB (er - ey - 1)
  fmodLoop ay (r - t)

def fmod (x y : Float) : Float :=
  if x.isNaN || y.isNaN || x.isInf || y == 0 then (0.0 / 0.0)
  else if y.isInf then x
  else
    let r := fmodLoop y.abs x.abs
    -- the result carries the sign of the dividend (also for zero results)
    if x.toBits ≥ 0x8000000000000000 then -r else r

/-- the folder's float primitives instantiated with Lean's `Float` (IEEE-754 binary64, like Rust's `f64`) -/
def floatOps : FloatOps :=
  let f (n : Nat) : Float := Float.ofBits n.toUInt64
  let b (x : Float) : Nat := x.toBits.toNat
  { neg := fun a => b (-(f a))
    add := fun a c => b (f a + f c)
    sub := fun a c => b (f a - f c)
    mul := fun a c => b (f a * f c)
    div := fun a c => b (f a / f c)
    rem := fun a c => b (fmod (f a) (f c))
    eq := fun a c => f a == f c
    lt := fun a c => f a < f c
    le := fun a c => f a ≤ f c
    ofInt := fun i => b (Float.ofInt i)
    truncToInt := fun a =>
      let x := f a
      if x.isNaN || x.isInf then none
      else
        -- exact: |x| < 2^63 is required by the caller's range check; Float.toInt64 saturates, so test the range first
        if x.abs < 9223372036854775808.0 then some (x.toInt64.toInt) else none }

/-! ### reading the request -/

def unaryTok? : String → Option UnaryToken
  | "not" => some .logicalNot | "bitnot" => some .bitwiseNot | "minus" => some .minus | "plus" => some .plus
  | "typeof" => some .typeof | "void" => some .void | "delete" => some .delete
  | _ => none

def binaryTok? : String → Option BinaryToken
  | "land" => some .logicalAnd | "lor" => some .logicalOr | "shr" => some .rightShift
  | "ushr" => some .unsignedRightShift | "shl" => some .leftShift | "band" => some .bitwiseAnd
  | "bxor" => some .bitwiseXor | "bor" => some .bitwiseOr | "add" => some .add | "sub" => some .sub
  | "mul" => some .mul | "div" => some .div | "rem" => some .rem | "exp" => some .exp | "eq" => some .equal
  | "seq" => some .strictEqual | "ne" => some .notEqual | "sne" => some .strictNotEqual | "lt" => some .lessThan
  | "le" => some .lessThanEqual | "gt" => some .greaterThan | "ge" => some .greaterThanEqual
  | "nullish" => some .nullishCoalesce | "instanceof" => some .instanceof | "in" => some .in_
  | _ => none

def strs? (s : Sexp) : Option (List String) :=
  match s with
  | .list l => Sexp.mapM? (fun x => match x with | .str c => some (String.ofList c) | _ => none) l
  | _ => none

partial def expr? : Sexp → Option Expr
  | .atom "this" => some .this
  | .atom "null" => some .null
  | .atom "function" => some .function
  | .list [.atom "id", .str n] => some (.ident (String.ofList n))
  | .list (.atom "int" :: v :: _) => (Sexp.toNat? v).map .integer
  | .list (.atom "float" :: v :: _) => (Sexp.toNat? v).map .float
  | .list [.atom "str", .str s] => some (.string s)
  | .list [.atom "bool", b] => (Sexp.toBool? b).map .bool
  | .list (.atom "array" :: es) => (Sexp.mapM? expr? es).map .array
  | .list [.atom "member", o, .str p] => (expr? o).map fun o => .member o (String.ofList p)
  | .list [.atom "sub", o, i] => do pure (.subscript (← expr? o) (← expr? i))
  | .list (.atom "call" :: f :: args) => do pure (.call (← expr? f) (← Sexp.mapM? expr? args))
  | .list [.atom "assign", l, r] => do pure (.assign (← expr? l) (← expr? r))
  | .list [.atom "un", .atom op, a] => do pure (.unary (← unaryTok? op) (← expr? a))
  | .list [.atom "bin", .atom op, l, r] => do pure (.binary (← binaryTok? op) (← expr? l) (← expr? r))
  | .list [.atom "as", v, ty] => do pure (.as_ (← expr? v) (← strs? ty))
  | .list [.atom "tern", c, a, b] => do pure (.ternary (← expr? c) (← expr? a) (← expr? b))
  | _ => none

def optTy? : Sexp → Option (Option (List String))
  | .atom "_" => some none
  | s => (strs? s).map some

def optExpr? : Sexp → Option (Option Expr)
  | .atom "_" => some none
  | s => (expr? s).map some

partial def stmt? : Sexp → Option Stmt
  | .atom "break" => some (.break_ false)
  | .atom "break-label" => some (.break_ true)
  | .list [.atom "expr", e] => (expr? e).map .expr
  | .list (.atom "block" :: ss) => (Sexp.mapM? stmt? ss).map .block
  | .list (.atom kind :: decls) =>
    if kind = "let" ∨ kind = "const" then do
      let ds ← Sexp.mapM? (fun d => match d with
        | .list [.atom "decl", .str n, ty, v] => do
          pure ({ name := String.ofList n, ty := ← optTy? ty, value := ← optExpr? v } : Decl)
        | _ => none) decls
      pure (.lexical (if kind = "let" then .let_ else .const_) ds)
    else match kind, decls with
      | "if", [c, a, b] => do
        let b' ← (match b with | .atom "_" => some none | s => (stmt? s).map some)
        pure (.if_ (← expr? c) (← stmt? a) b')
      | "switch", v :: clauses => do
        let cs ← Sexp.mapM? (fun c => match c with
          | .list (.atom "case" :: e :: body) => do pure (some (← expr? e), ← Sexp.mapM? stmt? body)
          | .list (.atom "default" :: body) => do pure (none, ← Sexp.mapM? stmt? body)
          | _ => none) clauses
        pure (.switch (← expr? v) cs)
      | "return", [e] => (optExpr? e).map .return_
      | _, _ => none
  | _ => none

def program? : Sexp → Option Program
  | .list [.atom "stmt", s] => (stmt? s).map .stmt
  | .list [.atom "fn", named, .list (.atom "params" :: ps), body] => do
    let params ← Sexp.mapM? (fun p => match p with
      | .list [.str n, ty] => do pure (String.ofList n, ← optTy? ty)
      | _ => none) ps
    let b ← match body with
      | .list [.atom "body-expr", e] => (expr? e).map FnBody.expr
      | .list [.atom "body-stmt", s] => (stmt? s).map FnBody.stmt
      | _ => none
    pure (.function { named := ← Sexp.toBool? named, params, body := b })
  | _ => none

/-! ### rendering the IR (mirror of harness/src/irser.rs) -/

def named : NamedTy → Sexp
  | .prim p => .atom p.name
  | .enum n => .list [.atom "enum", .ofString n]
  | .cls n => .list [.atom "cls", .ofString n]
  | .ns n => .list [.atom "ns", .ofString n]
  | .comp n => .list [.atom "comp", .ofString n]

def typeKind : TypeKind → Sexp
  | .just n => named n
  | .pointer n => .list [.atom "ptr", named n]
  | .list t => .list [.atom "list", typeKind t]

def method (m : MethodInfo) : Sexp :=
  .list [.atom "m", .ofString m.cls, .ofString m.name, .list (.atom "args" :: m.args.map typeKind), typeKind m.ret,
    .atom (match m.kind with | .signal => "signal" | .slot => "slot" | .method => "method")]

def property (p : PropInfo) : Sexp :=
  .list [.atom "p", .ofString p.cls, .ofString p.name, typeKind p.ty, .ofBool p.readable, .ofBool p.writable,
    .ofBool p.constant,
    (match p.notify with | none => .atom "_" | some none => .atom "err" | some (some m) => method m),
    .ofString p.readFn, .ofString p.writeFn]

/-- floats are compared by bit pattern, NaNs canonicalised -/
def floatBits (n : Nat) : Sexp :=
  if (Float.ofBits n.toUInt64).isNaN then .list [.atom "float", .atom "nan"] else .list [.atom "float", .ofNat n]

def constant : ConstantValue → Sexp
  | .bool b => .list [.atom "bool", .ofBool b]
  | .integer i => .list [.atom "int", .ofInt i]
  | .float f => floatBits f
  | .cstring s => .list [.atom "cstr", .str s]
  | .qstring s => .list [.atom "qstr", .str s]
  | .nullPointer => .atom "null"
  | .emptyList => .atom "emptylist"

def operand : Operand → Sexp
  | .const c => .list [.atom "const", constant c]
  | .enumVariant e v => .list [.atom "enumv", .ofString e, .ofString v]
  | .local n t => .list [.atom "local", .ofNat n, typeKind t]
  | .namedObject n c => .list [.atom "obj", .ofString n, .ofString c]
  | .void => .atom "void"

def unaryOp : UnaryOp → String
  | .plus => "plus" | .minus => "minus" | .bitNot => "bitnot" | .logNot => "lognot"

def binaryOp : BinaryOp → String
  | .arith .add => "add" | .arith .sub => "sub" | .arith .mul => "mul" | .arith .div => "div" | .arith .rem => "rem"
  | .bitwise .and => "band" | .bitwise .xor => "bxor" | .bitwise .or => "bor"
  | .shift .shr => "shr" | .shift .shl => "shl"
  | .logical .and => "land" | .logical .or => "lor"
  | .cmp .eq => "eq" | .cmp .ne => "ne" | .cmp .lt => "lt" | .cmp .le => "le" | .cmp .gt => "gt" | .cmp .ge => "ge"

def builtin : Builtin → String
  | .consoleLog .log => "console-log" | .consoleLog .debug => "console-debug" | .consoleLog .info => "console-info"
  | .consoleLog .warn => "console-warn" | .consoleLog .error => "console-error"
  | .max => "max" | .min => "min" | .tr => "tr"

def rvalue : Rvalue → Sexp
  | .copy a => .list [.atom "copy", operand a]
  | .unary op a => .list [.atom "unary", .atom (unaryOp op), operand a]
  | .binary op l r => .list [.atom "binary", .atom (binaryOp op), operand l, operand r]
  | .staticCast t a => .list [.atom "scast", typeKind t, operand a]
  | .variantCast t a => .list [.atom "vcast", typeKind t, operand a]
  | .callBuiltin f args => .list (.atom "builtin" :: .atom (builtin f) :: args.map operand)
  | .callMethod o m args => .list (.atom "call" :: operand o :: method m :: args.map operand)
  | .readProperty o p => .list [.atom "readprop", operand o, property p]
  | .writeProperty o p v => .list [.atom "writeprop", operand o, property p, operand v]
  | .readSubscript o i => .list [.atom "readsub", operand o, operand i]
  | .writeSubscript o i v => .list [.atom "writesub", operand o, operand i, operand v]
  | .makeList t args => .list (.atom "mklist" :: typeKind t :: args.map operand)

def statement : Statement → Sexp
  | .assign l r => .list [.atom "assign", .ofNat l, rvalue r]
  | .exec r => .list [.atom "exec", rvalue r]
  | .observeProperty h l m => .list [.atom "observe", .ofNat h, .ofNat l, method m]

def terminator : Option Terminator → Sexp
  | some (.br l) => .list [.atom "br", .ofNat l]
  | some (.brCond c a b) => .list [.atom "brcond", operand c, .ofNat a, .ofNat b]
  | some (.ret a) => .list [.atom "ret", operand a]
  | some .unreachable => .atom "unreachable"
  | none => .atom "NO-TERMINATOR"

def codeBody (c : CodeBody) : Sexp :=
  .list [.atom "code",
    .list [.atom "params", .ofNat c.parameterCount],
    .list (.atom "locals" :: c.locals.map typeKind),
    .list (.atom "blocks" :: c.blocks.map fun b =>
      .list [.atom "block", .list (.atom "stmts" :: b.statements.map statement), terminator b.terminator]),
    .list (.atom "deps" :: c.staticDeps.map fun (o, m) => .list [.ofString o, method m]),
    .list [.atom "observers", .ofNat c.observerCount]]

def evaluated : Option EvaluatedValue → Sexp
  | none => .atom "none"
  | some (.bool b) => .list [.atom "bool", .ofBool b]
  | some (.integer i) => .list [.atom "int", .ofInt i]
  | some (.float f) => floatBits f
  | some (.string s k) => .list [.atom "str", .str s, .atom (if k = .tr then "tr" else "notr")]
  | some (.stringList xs) =>
    .list (.atom "strlist" :: xs.map fun (s, k) => .list [.str s, .atom (if k = .tr then "tr" else "notr")])
  | some (.enumSet es) => .list (.atom "enumset" :: es.map Sexp.ofString)
  | some (.objectRef s) => .list [.atom "objref", .ofString s]
  | some (.objectRefList ss) => .list (.atom "objreflist" :: ss.map Sexp.ofString)
  | some .emptyList => .atom "emptylist"

/-- `(build (this "name" "cls") (objects ("id" "cls")…) (kind prop "p" | cb "sig") <program>)` -/
def handleBuild (args : List Sexp) : Sexp :=
  match args with
  | [.list [.atom "this", .str tn, .str tc], .list (.atom "objects" :: objs), .list [.atom "kind", .atom kind, _], prog] =>
    match program? prog, Sexp.mapM? (fun o => match o with
        | .list [.str i, .str c] => some (String.ofList i, String.ofList c) | _ => none) objs with
    | some p, some objects =>
      let ctx : Ctx := { env := QV.Gen.verifEnv, F := floatOps, objects, thisObj := some (String.ofList tc, String.ofList tn) }
      let isCb := kind == "cb"
      let r := build ctx isCb p
      let diagsOf (ds : List String) : Sexp := .list (.atom "diags" :: ds.map Sexp.ofString)
      match r.panic with
      | some site => .list [.atom "panic", .ofString site]
      | none =>
        match r.code with
        | none => .list [.atom "rejected", diagsOf r.diags]
        | some code =>
          if isCb then
            .list [.atom "built", codeBody code, .list [.atom "eval", .atom "_"], diagsOf r.diags]
          else
            let (code, d2, panic) := analyzePropertyDependency code
            match panic with
            | some site => .list [.atom "panic", .ofString site]
            | none =>
              let ev := match evaluateCode QV.Gen.verifEnv code with
                | .value v => evaluated v
                | .panic _ => .atom "panic"
              .list [.atom "built", codeBody code, .list [.atom "eval", ev], diagsOf (r.diags ++ d2)]
    | _, _ => .list [.atom "bad-request"]
  | _ => .list [.atom "bad-request"]

end QV.Driver.Ir

namespace QV.Driver.Ir
open QV QV.Model

/-! ### reading an IR back (for checks applied to the REAL IR) -/

partial def namedOf? : Sexp → Option NamedTy
  | .atom "bool" => some (.prim .bool) | .atom "double" => some (.prim .double) | .atom "int" => some (.prim .int)
  | .atom "uint" => some (.prim .uint) | .atom "QString" => some (.prim .qstring)
  | .atom "QVariant" => some (.prim .qvariant) | .atom "void" => some (.prim .void)
  | .list [.atom "enum", .str n] => some (.enum (String.ofList n))
  | .list [.atom "cls", .str n] => some (.cls (String.ofList n))
  | .list [.atom "ns", .str n] => some (.ns (String.ofList n))
  | .list [.atom "comp", .str n] => some (.comp (String.ofList n))
  | _ => none

partial def typeKindOf? : Sexp → Option TypeKind
  | .list [.atom "ptr", n] => (namedOf? n).map .pointer
  | .list [.atom "list", t] => (typeKindOf? t).map .list
  | s => (namedOf? s).map .just

def methodOf? : Sexp → Option MethodInfo
  | .list [.atom "m", .str c, .str n, .list (.atom "args" :: args), ret, .atom k] => do
    pure { cls := String.ofList c, name := String.ofList n, args := ← Sexp.mapM? typeKindOf? args, ret := ← typeKindOf? ret,
           kind := if k = "signal" then .signal else if k = "slot" then .slot else .method }
  | _ => none

def propertyOf? : Sexp → Option PropInfo
  | .list [.atom "p", .str c, .str n, ty, r, w, k, notify, .str rf, .str wf] => do
    let nt ← (match notify with
      | .atom "_" => some none
      | .atom "err" => some (some none)
      | m => (methodOf? m).map fun x => some (some x) : Option (Option (Option MethodInfo)))
    pure { cls := String.ofList c, name := String.ofList n, ty := ← typeKindOf? ty, readable := ← Sexp.toBool? r,
           writable := ← Sexp.toBool? w, constant := ← Sexp.toBool? k, notify := nt,
           readFn := String.ofList rf, writeFn := String.ofList wf }
  | _ => none

def constantOf? : Sexp → Option ConstantValue
  | .atom "null" => some .nullPointer
  | .atom "emptylist" => some .emptyList
  | .list [.atom "bool", b] => (Sexp.toBool? b).map .bool
  | .list [.atom "int", i] => (Sexp.toInt? i).map .integer
  | .list [.atom "float", .atom "nan"] => some (.float 0x7ff8000000000000)
  | .list [.atom "float", f] => (Sexp.toNat? f).map .float
  | .list [.atom "cstr", .str s] => some (.cstring s)
  | .list [.atom "qstr", .str s] => some (.qstring s)
  | _ => none

def operandOf? : Sexp → Option Operand
  | .atom "void" => some .void
  | .list [.atom "const", c] => (constantOf? c).map .const
  | .list [.atom "enumv", .str e, .str v] => some (.enumVariant (String.ofList e) (String.ofList v))
  | .list [.atom "local", n, t] => do pure (.local (← Sexp.toNat? n) (← typeKindOf? t))
  | .list [.atom "obj", .str n, .str c] => some (.namedObject (String.ofList n) (String.ofList c))
  | _ => none

def unaryOpOf? : String → Option UnaryOp
  | "plus" => some .plus | "minus" => some .minus | "bitnot" => some .bitNot | "lognot" => some .logNot | _ => none

def binaryOpOf? : String → Option BinaryOp
  | "add" => some (.arith .add) | "sub" => some (.arith .sub) | "mul" => some (.arith .mul) | "div" => some (.arith .div)
  | "rem" => some (.arith .rem) | "band" => some (.bitwise .and) | "bxor" => some (.bitwise .xor)
  | "bor" => some (.bitwise .or) | "shr" => some (.shift .shr) | "shl" => some (.shift .shl)
  | "land" => some (.logical .and) | "lor" => some (.logical .or) | "eq" => some (.cmp .eq) | "ne" => some (.cmp .ne)
  | "lt" => some (.cmp .lt) | "le" => some (.cmp .le) | "gt" => some (.cmp .gt) | "ge" => some (.cmp .ge) | _ => none

def builtinOf? : String → Option Builtin
  | "console-log" => some (.consoleLog .log) | "console-debug" => some (.consoleLog .debug)
  | "console-info" => some (.consoleLog .info) | "console-warn" => some (.consoleLog .warn)
  | "console-error" => some (.consoleLog .error) | "max" => some .max | "min" => some .min | "tr" => some .tr
  | _ => none

def rvalueOf? : Sexp → Option Rvalue
  | .list [.atom "copy", a] => (operandOf? a).map .copy
  | .list [.atom "unary", .atom op, a] => do pure (.unary (← unaryOpOf? op) (← operandOf? a))
  | .list [.atom "binary", .atom op, l, r] => do pure (.binary (← binaryOpOf? op) (← operandOf? l) (← operandOf? r))
  | .list [.atom "scast", t, a] => do pure (.staticCast (← typeKindOf? t) (← operandOf? a))
  | .list [.atom "vcast", t, a] => do pure (.variantCast (← typeKindOf? t) (← operandOf? a))
  | .list (.atom "builtin" :: .atom f :: args) => do pure (.callBuiltin (← builtinOf? f) (← Sexp.mapM? operandOf? args))
  | .list (.atom "call" :: o :: m :: args) => do
    pure (.callMethod (← operandOf? o) (← methodOf? m) (← Sexp.mapM? operandOf? args))
  | .list [.atom "readprop", o, p] => do pure (.readProperty (← operandOf? o) (← propertyOf? p))
  | .list [.atom "writeprop", o, p, v] => do pure (.writeProperty (← operandOf? o) (← propertyOf? p) (← operandOf? v))
  | .list [.atom "readsub", o, i] => do pure (.readSubscript (← operandOf? o) (← operandOf? i))
  | .list [.atom "writesub", o, i, v] => do pure (.writeSubscript (← operandOf? o) (← operandOf? i) (← operandOf? v))
  | .list (.atom "mklist" :: t :: args) => do pure (.makeList (← typeKindOf? t) (← Sexp.mapM? operandOf? args))
  | _ => none

def statementOf? : Sexp → Option Statement
  | .list [.atom "assign", l, r] => do pure (.assign (← Sexp.toNat? l) (← rvalueOf? r))
  | .list [.atom "exec", r] => (rvalueOf? r).map .exec
  | .list [.atom "observe", h, l, m] => do pure (.observeProperty (← Sexp.toNat? h) (← Sexp.toNat? l) (← methodOf? m))
  | _ => none

def terminatorOf? : Sexp → Option Terminator
  | .atom "unreachable" => some .unreachable
  | .list [.atom "br", l] => (Sexp.toNat? l).map .br
  | .list [.atom "brcond", c, a, b] => do pure (.brCond (← operandOf? c) (← Sexp.toNat? a) (← Sexp.toNat? b))
  | .list [.atom "ret", a] => (operandOf? a).map .ret
  | _ => none

def codeBodyOf? : Sexp → Option CodeBody
  | .list [.atom "code", .list [.atom "params", pc], .list (.atom "locals" :: ls), .list (.atom "blocks" :: bs),
      .list (.atom "deps" :: ds), .list [.atom "observers", oc]] => do
    let blocks ← Sexp.mapM? (fun b => match b with
      | .list [.atom "block", .list (.atom "stmts" :: ss), t] => do
        pure ({ statements := ← Sexp.mapM? statementOf? ss, terminator := some (← terminatorOf? t) } : BasicBlock)
      | _ => none) bs
    let deps ← Sexp.mapM? (fun d => match d with
      | .list [.str o, m] => do pure (String.ofList o, ← methodOf? m)
      | _ => none) ds
    pure { blocks, locals := ← Sexp.mapM? typeKindOf? ls, parameterCount := ← Sexp.toNat? pc, staticDeps := deps,
           observerCount := ← Sexp.toNat? oc }
  | _ => none

/-- user-declared uninitialised locals of the program of a `build`-shaped request (computed by the model walk;
    local numbering is the model's, which the exact-IR comparison ties to the real one) -/
def userUninitOf (args : List Sexp) : List Nat :=
  match args with
  | .list [.atom "this", .str tn, .str tc] :: .list (.atom "objects" :: objs) :: .list [.atom "kind", .atom kind, _] :: prog :: _ =>
    match program? prog, Sexp.mapM? (fun o => match o with
        | .list [.str i, .str c] => some (String.ofList i, String.ofList c) | _ => none) objs with
    | some p, some objects =>
      let ctx : Ctx := { env := QV.Gen.verifEnv, F := floatOps, objects, thisObj := some (String.ofList tc, String.ofList tn) }
      (build ctx (kind == "cb") p).userUninit
    | _, _ => []
  | _ => []

/-- `(cfgcheck … (impl (built (code …) …)))` → `(ok)` iff the REAL IR passes `QV.Model.Cfg.check`
    (reads of variables the user declared without initialiser are exempt; a rejected program has no IR) -/
def handleCfgCheck (args : List Sexp) : Sexp :=
  match args.getLast? with
  | some (.list [.atom "impl", .list (.atom "built" :: code :: _)]) =>
    (match codeBodyOf? code with
     | some c =>
       if QV.Model.Cfg.checkExempting (userUninitOf args) c then .list [.atom "ok"]
       else .list [.atom "fail", .ofString "the CFG certificate check rejects this body (jump target / reachable block without proper terminator / compiler temporary read before assignment)"]
     | none => .list [.atom "fail", .ofString "unreadable IR"])
  | some (.list [.atom "impl", .list (.atom "rejected" :: _)]) => .list [.atom "ok", .atom "rejected"]
  | some (.list [.atom "impl", .list (.atom "syntax-error" :: _)]) => .list [.atom "ok", .atom "syntax-error"]
  | some (.list [.atom "impl", other]) => .list [.atom "fail", .ofString ("unexpected answer " ++ (toString other).take 200)]
  | _ => .list [.atom "bad-request"]

/-- `(cfgcheck-cxx … (impl (header (fn "name" value|void <code>)…)))`: every function body found in the REAL support
    header (re-read from its goto-structured C++ text by the harness) must pass `Cfg.checkFn`: jump targets exist,
    reachable blocks end in a jump or return (no `Q_UNREACHABLE`, no falling off), temporaries assigned before read
    on every path, and a value-returning function has no reachable bare `return;` -/
def handleCfgCheckCxx (args : List Sexp) : Sexp :=
  match args.getLast? with
  | some (.list [.atom "impl", .list (.atom "header" :: fns)]) =>
    let bad := fns.filterMap fun f =>
      match f with
      | .list [.atom "fn", .str name, .atom ret, code] =>
        (match codeBodyOf? code with
         | some c =>
           -- only the one function generated from the request's program has user-declared locals to exempt
           let ex := if fns.length = 1 then userUninitOf args else []
           if QV.Model.Cfg.checkFn (ret == "value") (QV.Model.Cfg.eraseExempt ex c) then none else some (Sexp.str name)
         | none => some (.list [.atom "unreadable", .str name]))
      | other => some (.list [.atom "unreadable-entry", .ofString (((toString other).take 80).toString)])
    if bad.isEmpty then .list [.atom "ok", Sexp.ofNat fns.length]
    else .list (.atom "fail" :: .ofString "function bodies of the real header rejected by the CFG check" :: bad)
  | some (.list [.atom "impl", .list (.atom "rejected" :: _)]) => .list [.atom "ok", .atom "rejected"]
  | some (.list [.atom "impl", .list (.atom "syntax-error" :: _)]) => .list [.atom "ok", .atom "syntax-error"]
  | some (.list [.atom "impl", other]) => .list [.atom "fail", .ofString ("unexpected answer " ++ (toString other).take 200)]
  | _ => .list [.atom "bad-request"]

end QV.Driver.Ir
