/-
  Driver for C18.  Request (one line):

    (c18 (qt ("QWidget" true ("windowTitle" …)) …)
         (tree (dir ("a" "b") (file "X" true (imports (named "qmluic.QtWidgets") (dir ".." "sib")) (root "QWidget" _)
                                     (children ("A" _) ("QLabel" "text"))) …) …)
         (sources (("a" "b") "X") …))

  A directory is the list of its path components below the root of the tree; `_` = no binding.  An entry of `(qt …)`
  may carry a 4th element `layout` or `action` (the class derives from QLayout resp. QAction).  An import node may carry
  `(version "6.2")` and/or `(alias "W")` among its arguments: `(named "qmluic.QtWidgets" (version "6.2"))`,
  `(dir (alias "B") ".." "b")`; `diags` holds errors and warnings alike, `accepted` looks at the errors only.  `widgets` lists the root
  object and then the children that resolve, in document order; a child that is an action is reported as "QAction".
  Answer (everything that came out of a map is sorted):

    (c18 (dirs "" "a" "a/b" …)
         (modules ("a/b" ("X" (ok "QWidget")) ("Y" (err "invalid type reference 'Z'"))) …)
         (outputs ("a/b/X.qml" (accepted true) (built true) (diags "…" …) (widgets ("QWidget" "windowTitle") ("A"))
                   (customwidgets ("A" "QWidget" "a.h"))) …))          ; in the order of `sources`

  `c18-cliout` (same arguments) answers what the command `qmluic generate-ui <sources in that order>` does:
    (cli (exit 0|1) (written "a/x.ui" …))     ; sorted; model = `cliRun` over the per-source outcomes

  `spec-c18-dirs` (same arguments) answers `(dirs …)` computed by the specification side: saturation of
  the source directories under "a file with a root object imports, by string, an existing directory".
-/
import QV.Sexp
import QV.Model.QmlDir
import QV.Spec.QmlDir

namespace QV.Driver.QmlDir
open QV QV.Model.QmlDir

private def str? : Sexp → Option String
  | .str s => some (String.ofList s)
  | _ => none

private def optStr? : Sexp → Option (Option String)
  | .atom "_" => some none
  | .str s => some (some (String.ofList s))
  | _ => none

private def path? : Sexp → Option Path
  | .list xs => Sexp.mapM? str? xs
  | _ => none

private def obj? : Sexp → Option Obj
  | .list [ty, p] => do pure { typeName := ← str? ty, prop := ← optStr? p }
  | _ => none

/-- the options `(version "6.2")` / `(alias "W")` of an import node (anywhere among its arguments) and the remaining
    arguments in order -/
private def stmtOpts : List Sexp → Option (Option String × Option String × List Sexp)
  | [] => some (none, none, [])
  | x :: xs => do
    let (v, a, rest) ← stmtOpts xs
    match x with
    | .list [.atom "version", s] => pure (some (← str? s), a, rest)
    | .list [.atom "alias", s] => pure (v, some (← str? s), rest)
    | .list _ => none
    | y => pure (v, a, y :: rest)

/-- `(named "M")`, `(dir "seg" …)`, each optionally with `(version "…")` and/or `(alias "…")` -/
private def import? : Sexp → Option ImportStmt
  | .list (.atom "named" :: args) => do
    let (v, a, rest) ← stmtOpts args
    match rest with
    | [n] => pure { what := .named (← str? n), version := v, alias := a }
    | _ => none
  | .list (.atom "dir" :: args) => do
    let (v, a, rest) ← stmtOpts args
    pure { what := .dir (← Sexp.mapM? str? rest), version := v, alias := a }
  | _ => none

private def file? : Sexp → Option File
  | .list [.atom "file", stem, hasRoot, .list (.atom "imports" :: imps), .list [.atom "root", ty, p],
      .list (.atom "children" :: kids)] => do
    pure { stem := ← str? stem, hasRoot := ← Sexp.toBool? hasRoot, stmts := ← Sexp.mapM? import? imps,
           root := ← obj? (.list [ty, p]), children := ← Sexp.mapM? obj? kids }
  | _ => none

private def dir? : Sexp → Option Dir
  | .list (.atom "dir" :: p :: files) => do pure { path := ← path? p, files := ← Sexp.mapM? file? files }
  | _ => none

/-- `(name derivesQWidget (props…))`, optionally followed by `layout` or `action` (a class that derives from QLayout
    resp. QAction; older requests have three-element entries only) -/
private def qt? : Sexp → Option QtClass
  | .list [n, w, .list ps] => do pure { name := ← str? n, isWidget := ← Sexp.toBool? w, props := ← Sexp.mapM? str? ps }
  | .list [n, w, .list ps, .atom "layout"] => do
    pure { name := ← str? n, isWidget := ← Sexp.toBool? w, props := ← Sexp.mapM? str? ps, isLayout := true }
  | .list [n, w, .list ps, .atom "action"] => do
    pure { name := ← str? n, isWidget := ← Sexp.toBool? w, props := ← Sexp.mapM? str? ps, isAction := true }
  | _ => none

private def source? : Sexp → Option (Path × String)
  | .list [p, s] => do pure (← path? p, ← str? s)
  | _ => none

structure Request where
  env : Env
  tree : Tree
  sources : List (Path × String)

def request? : List Sexp → Option Request
  | [.list (.atom "qt" :: qs), .list (.atom "tree" :: ds), .list (.atom "sources" :: ss)] => do
    pure { env := { qt := ← Sexp.mapM? qt? qs }, tree := ← Sexp.mapM? dir? ds, sources := ← Sexp.mapM? source? ss }
  | _ => none

/-! canonical printing -/

private def insertSorted (s : String) : List String → List String
  | [] => [s]
  | x :: xs => if s ≤ x then s :: x :: xs else x :: insertSorted s xs

def sortStrings (l : List String) : List String := l.foldr insertSorted []

private def insertBy {α} (key : α → String) (a : α) : List α → List α
  | [] => [a]
  | x :: xs => if key a ≤ key x then a :: x :: xs else x :: insertBy key a xs

def sortBy {α} (key : α → String) (l : List α) : List α := l.foldr (insertBy key) []

def pathString (p : Path) : String := "/".intercalate p

def moduleIdDebug : ModuleId → String
  | .builtins => "Builtins"
  | .named n => "Named(\"" ++ n ++ "\")"
  | .dir p => "Directory(\"" ++ (if p.isEmpty then "" else "/" ++ pathString p) ++ "\")"

def tmErrorMessage : TMError → String
  | .invalidModuleRef id => "invalid module reference '" ++ moduleIdDebug id ++ "'"
  | .invalidTypeRef n => "invalid type reference '" ++ n ++ "'"

def diagMessage : Diag → String
  | .directoryModuleNotFound => "directory module not found"
  | .moduleNotFound => "module not found"
  | .unknownObjectType n => "unknown object type: " ++ n
  | .objectTypeResolutionFailed e => "object type resolution failed: " ++ tmErrorMessage e
  | .propertyResolutionFailed e => "property resolution failed: " ++ tmErrorMessage e
  | .unknownProperty c p => "unknown property of class '" ++ c ++ "': " ++ p
  | .notQWidget c => "class '" ++ c ++ "' is not a QWidget"
  | .notActionLayoutWidget c => "class '" ++ c ++ "' is not a QAction, QLayout, nor QWidget"
  | .aliasedImport => "aliased import is not supported"
  | .importVersionIgnored => "import version is ignored"

private def dedup (l : List String) : List String := uniq [] l

/-! input validity (outside: `(skip …)`) -/

private def prefixes (p : Path) : List Path := (List.range (p.length + 1)).map fun n => p.take n

private def escapesGo (t : Tree) : Path → List String → Bool
  | _, [] => false
  | p, seg :: rest =>
    if seg = "" ∨ seg = "." then escapesGo t p rest
    else if seg = ".." then p.isEmpty || escapesGo t p.dropLast rest
    else if isDir t (p ++ [seg]) then escapesGo t (p ++ [seg]) rest
    else false

/-- `..` applied at the root of the tree, or a LEADING empty component followed by more (`/x`: an absolute path
    replaces the base in `Utf8Path::join`).  Empty components elsewhere (`a//b`, `a/`) are skipped by the OS. -/
private def escapes (t : Tree) (p : Path) (segs : List String) : Bool :=
  (match segs with
    | "" :: _ :: _ => true
    | _ => false) || escapesGo t p segs

def invalidReason (r : Request) : Option String :=
  let paths := r.tree.map (·.path)
  if uniq [] paths ≠ paths then some "duplicate-directory"
  else if !(paths.all fun p => (prefixes p).all fun q => isDir r.tree q) then some "not-parent-closed"
  else if !(r.tree.all fun d => (uniq [] (d.files.map (·.stem))) = d.files.map (·.stem)) then some "duplicate-stem"
  else if r.tree.any (fun d => d.files.any fun f => f.imports.any fun
      | .dir segs => escapes r.tree d.path segs
      | .named _ => false) then some "escapes-root"
  else if !(r.sources.all fun (p, s) => match findDir r.tree p with
      | some d => d.files.any fun f => f.stem = s ∧ f.hasRoot
      | none => false) then some "source-missing"
  else none

/-! answers -/

private def superSexp (env : Env) (look : Path → Option Module) (c : CompData) : Sexp :=
  match superClass env look c with
  | .ok s => .list [.atom "ok", .ofString s.name]
  | .err e => .list [.atom "err", .ofString (tmErrorMessage e)]

private def moduleSexp (env : Env) (look : Path → Option Module) (p : Path) (m : Module) : Sexp :=
  let names := sortStrings (dedup (m.map (·.name)))
  .list (.ofString (pathString p) :: names.filterMap fun n =>
    (findComp m n).map fun c => .list [.ofString n, superSexp env look c])

private def outputSexp (name : String) (o : Output) : Sexp :=
  .list [.ofString name,
    .list [.atom "accepted", .ofBool o.accepted],
    .list [.atom "built", .ofBool o.built],
    .list (.atom "diags" :: (sortStrings (o.diags.map diagMessage)).map Sexp.ofString),
    .list (.atom "widgets" :: o.widgets.map fun w => .list (.ofString w.cls :: w.props.map Sexp.ofString)),
    .list (.atom "customwidgets" :: o.customs.map fun c => .list [.ofString c.cls, .ofString c.ext, .ofString c.header])]

def handleModel (args : List Sexp) : Sexp :=
  match request? args with
  | none => .list [.atom "bad-request"]
  | some r =>
    match invalidReason r with
    | some why => .list [.atom "skip", .atom why]
    | none =>
      match populate r.tree (r.sources.map (·.1)) with
      | none => .list [.atom "out-of-fuel"]
      | some (.readDirError p) => .list [.atom "populate-error", .ofString (pathString p)]
      | some (.ok ms) =>
        let look := ms.get?
        let dirs := sortStrings (ms.keys.map pathString)
        let mods := sortBy (fun (e : Path × Module) => pathString e.1) ms
        let outs := r.sources.map fun (p, s) =>
          let name := (if p.isEmpty then "" else pathString p ++ "/") ++ s ++ ".qml"
          match (findDir r.tree p).bind fun d => d.files.find? fun f => f.stem = s with
          | none => .list [.ofString name, .atom "missing"]
          | some f =>
            match translate r.env r.tree look p f with
            | none => .list [.ofString name, .atom "out-of-fuel"]
            | some o => outputSexp name o
        .list [.atom "c18",
          .list (.atom "dirs" :: dirs.map Sexp.ofString),
          .list (.atom "modules" :: mods.map fun (p, m) => moduleSexp r.env look p m),
          .list (.atom "outputs" :: outs)]

/-- the command line: `cliRun` over the outcome of every source -/
def handleCli (args : List Sexp) : Sexp :=
  match request? args with
  | none => .list [.atom "bad-request"]
  | some r =>
    match invalidReason r with
    | some why => .list [.atom "skip", .atom why]
    | none =>
      match populate r.tree (r.sources.map (·.1)) with
      | none => .list [.atom "out-of-fuel"]
      | some (.readDirError p) => .list [.atom "populate-error", .ofString (pathString p)]
      | some (.ok ms) =>
        let outcomes : Option (List (String × SrcOutcome)) := r.sources.mapM fun (p, s) =>
          let name := (if p.isEmpty then "" else pathString p ++ "/") ++ uiFileName s
          match (findDir r.tree p).bind fun d => d.files.find? fun f => f.stem = s with
          | none => none
          | some f => (translate r.env r.tree ms.get? p f).map fun o =>
              (name, if o.accepted then SrcOutcome.accepted else SrcOutcome.rejected)
        match outcomes with
        | none => .list [.atom "out-of-fuel"]
        | some os =>
          let res := cliRun os
          .list [.atom "cli", .list [.atom "exit", .ofNat res.2.exitCode],
            .list (.atom "written" :: (sortStrings res.1).map Sexp.ofString)]

/-- specification side: discovered directories = saturation under string imports -/
def handleSpec (args : List Sexp) : Sexp :=
  match request? args with
  | none => .list [.atom "bad-request"]
  | some r =>
    match invalidReason r with
    | some why => .list [.atom "skip", .atom why]
    | none =>
      let fs := QV.Spec.QmlDir.ofLists (r.tree.map (·.path))
        (r.tree.map fun d => (d.path, (d.files.filter (·.hasRoot)).flatMap fun f => f.imports.filterMap fun
          | .dir segs => some segs
          | .named _ => none))
      let ds := QV.Spec.QmlDir.saturate fs (r.tree.length) (dedup' (r.sources.map (·.1)))
      .list (.atom "dirs" :: (sortStrings (ds.map pathString)).map Sexp.ofString)
where
  dedup' (l : List Path) : List Path := uniq [] l

end QV.Driver.QmlDir
