/-
  Driver for C01 / C13: instantiates the reference semantics (Spec.Sem) and the IR semantics (Model.IrSem) on the
  verification classes (class facts from the REAL type map: QV.Gen.verifEnv; enumerator values and object states from
  the request), and judges what the real generated C++ printed.

    (spec-c01 (enums …) (states S…) (prog (prop "p") P)… (impl (results R…)))   → (ok …) | (fail (p k class detail…)…)
    (c01-ir   (enums …) (states S…) (prog (prop "p") P) (impl (built CODE)))     → (ok …) | (fail …)
    (c01-body (this…) (objects…) (kind prop "p") P)                               → (body "text") — Model.CxxBody
-/
import QV.Sexp
import QV.Driver.Ir
import QV.Spec.Sem
import QV.Model.IrSem
import QV.Model.CxxBody
import QV.Model.Callback

namespace QV.Driver.Sem
open QV QV.Model
open QV.Spec.Sem (Val World Host Ev Ty STy)

/-! ### the fixed document of the c01 / c13 streams (harness/src/streams/ir.rs OBJECTS) -/

def objectTable : List (String × Nat × String) :=
  [("a", 1, "VBase"), ("b", 2, "VBase"), ("o", 3, "VOther"), ("dv", 4, "VDerived")]

def objId (n : String) : Option Nat := (objectTable.find? (·.1 = n)).map (·.2.1)
def objName (o : Nat) : String := ((objectTable.find? (·.2.1 = o)).map (·.1)).getD "?"

/-! ### values -/

partial def valOf? : Sexp → Option Val
  | .list [.atom "int", n] => (Sexp.toInt? n).map .int
  | .list [.atom "uint", n] => (Sexp.toNat? n).map .uint
  | .list [.atom "double", n] => (Sexp.toNat? n).map .double
  | .list [.atom "bool", b] => (Sexp.toBool? b).map .bool
  | .list [.atom "str", .str s] => some (.str s)
  | .list [.atom "enum", n] => (Sexp.toInt? n).map .enum
  | .list [.atom "ptr", .atom "null"] => some (.ptr none)
  | .list [.atom "ptr", .str n] => (objId (String.ofList n)).map fun o => .ptr (some o)
  | .list (.atom "list" :: xs) => (Sexp.mapM? valOf? xs).map .list
  | .list [.atom "variant", .atom "invalid"] => some (.variant .void)
  | .list [.atom "variant", v] => (valOf? v).map .variant
  | _ => none

def hex16 (n : Nat) : String :=
  let ds := Nat.toDigits 16 n
  String.ofList (List.replicate (16 - ds.length) '0' ++ ds)

def isNaNBits (b : Nat) : Bool := (Float.ofBits b.toUInt64).isNaN

/-- the text the runtime mock prints for a value (`rt::show`) -/
partial def showVal : Val → Sexp
  | .cint v | .int v => .list [.atom "int", .ofInt v]
  | .uint v => .list [.atom "uint", .ofNat v]
  | .double b => .list [.atom "double", .atom (if isNaNBits b then "nan" else hex16 b)]
  | .bool b => .list [.atom "bool", .ofBool b]
  | .str s => .list (.atom "str" :: (QV.Model.utf16 s).map Sexp.ofNat)
  | .enum v => .list [.atom "enum", .ofInt v]
  | .ptr none => .list [.atom "ptr", .atom "null"]
  | .ptr (some o) => .list [.atom "ptr", .atom (objName o)]
  | .list xs => .list (.atom "list" :: xs.map showVal)
  | .variant .void => .list [.atom "variant", .atom "invalid"]
  | .variant v => .list [.atom "variant", showVal v]
  | .void => .atom "void"

/-! ### worlds -/

abbrev ObjState := List (String × Val)

def stateOf? : Sexp → Option (List (Nat × ObjState))
  | .list (.atom "state" :: objs) =>
    Sexp.mapM? (fun o => match o with
      | .list (.atom "obj" :: .str n :: props) => do
        let ps ← Sexp.mapM? (fun p => match p with
          | .list [.atom k, v] => (valOf? v).map fun v => (k, v)
          | _ => none) props
        pure ((← objId (String.ofList n)), ps)
      | _ => none) objs
  | _ => none

def worldOf (st : List (Nat × ObjState)) : World :=
  { prop := fun o p => ((st.find? (·.1 = o)).bind fun (_, ps) => ps.find? (·.1 = p)).map (·.2) }

/-! ### the host: float primitives, QString::arg, the methods of the mock classes (tools/gen_rt_decls.py BODIES) -/

def decimal (v : Int) : List Char := (toString v).toList

/-- place marker at the head of `cs`: `%`, optional `L`, one or two digits → (number, length) -/
def marker : List Char → Option (Nat × Nat)
  | '%' :: rest =>
    let (rest, l) := match rest with | 'L' :: r => (r, 1) | r => (r, 0)
    (match rest with
     | d1 :: more =>
       if d1.isDigit then
         (match more with
          | d2 :: _ => if d2.isDigit then some ((d1.toNat - 48) * 10 + (d2.toNat - 48), 3 + l) else some (d1.toNat - 48, 2 + l)
          | [] => some (d1.toNat - 48, 2 + l))
       else none
     | [] => none)
  | _ => none

partial def lowestMarker : List Char → Option Nat
  | [] => none
  | cs@(_ :: rest) =>
    match marker cs, lowestMarker rest with
    | some (n, _), some m => some (min n m)
    | some (n, _), none => some n
    | none, r => r

partial def replaceMarker (n : Nat) (a : List Char) : List Char → List Char
  | [] => []
  | cs@(c :: rest) =>
    match marker cs with
    | some (m, len) => if m = n then a ++ replaceMarker n a (cs.drop len) else c :: replaceMarker n a rest
    | none => c :: replaceMarker n a rest

/-- `QString::arg`: every occurrence of the lowest-numbered marker is replaced; no marker: unchanged -/
def argText (s a : List Char) : List Char :=
  match lowestMarker s with
  | some n => replaceMarker n a s
  | none => s

def hostArg (s : List Char) : Val → Option (List Char)
  | .str a => some (argText s a)
  | .cint v | .int v => some (argText s (decimal v))
  | .uint v => some (argText s (decimal v))
  | _ => none               -- arg(double): `%g` formatting is not specified here (not compared)

def asInt? : Val → Option Int
  | .cint v | .int v => some v
  | _ => none

def low (v : Int) (m : Nat) : Int := ((QV.Spec.Sem.toU32 v) % m : Nat)

def hostMethod (w : World) (o : Nat) (m : String) (args : List Val) : Option (Val × World) :=
  let geti (p : String) : Option Int := match w.prop o p with | some (.int v) => some v | _ => none
  match m, args with
  | "count", [] => (geti "i").map fun i => (.int (low i 256 + 3), w)
  | "scaled", [.double x] => some (.double (QV.Driver.Ir.floatOps.mul x 0x3fe0000000000000), w)
  | "label", [a] => (asInt? a).map fun n => (.str ('L' :: decimal n), w)
  | "pick", [a] =>
    (asInt? a).bind fun n =>
      if QV.Spec.Sem.toU32 n % 2 = 1 then some (.ptr (some o), w) else (w.prop o "next").map fun v => (v, w)
  | "test", [.str s, a] => (asInt? a).map fun n => (.bool (decide (((QV.Model.utf16 s).length : Int) < n)), w)
  | "sum3", [a, b, c] =>
    (match asInt? a, asInt? b, asInt? c with
     | some x, some y, some z => some (.int (low x 65536 + low y 65536 + low z 65536), w)
     | _, _, _ => none)
  | "reset", [] => some (.void, (w.set o "i" (.int 0)).set o "s" (.str []))
  | "setBoth", [a, .str y] => (asInt? a).map fun x => (.void, (w.set o "i" (.int x)).set o "s" (.str y))
  | "take", [.ptr p] => some (.void, w.set o "next" (.ptr p))
  | "bump", [.double x] => some (.void, w.set o "d" (.double x))
  | "bump", [a] => (asInt? a).map fun x => (.void, w.set o "j" (.int x))
  | "special", [a] => (asInt? a).map fun x => (.void, w.set o "extra" (.int x))
  | "ping", [a] => (asInt? a).map fun x => (.void, w.set o "n" (.int x))
  | _, _ => none

def host : Host :=
  { F := QV.Driver.Ir.floatOps
    intToDouble := fun v => (Float.ofInt v).toBits.toNat
    doubleToInt := fun b =>
      let f := Float.ofBits b.toUInt64
      if f.isNaN || f.isInf then none else some f.toInt64.toInt
    method := hostMethod
    arg := hostArg
    -- the runtime mock's `QCoreApplication::translate(context, source)` (cxx/rt/qtrt.h): `<context>source`
    tr := fun ctx x => ("<" ++ ctx ++ ">").toList ++ x }

/-! ### static facts from the real type map -/

def env : Env := QV.Gen.verifEnv

def namedSTy : NamedTy → STy
  | .prim p => { ty := IrSem.primTy p }
  | .enum _ => { ty := .enum }
  | .cls n => { ty := .ptr, cls := some n }
  | .ns n => { ty := .ptr, cls := some n }
  | .comp n => { ty := .ptr, cls := some n }

abbrev EnumTable := List (String × List (String × Int))

def enumsOf? : Sexp → Option EnumTable
  | .list (.atom "enums" :: es) =>
    Sexp.mapM? (fun e => match e with
      | .list (.str n :: vs) => do
        let vs ← Sexp.mapM? (fun v => match v with
          | .list [.str k, x] => (Sexp.toInt? x).map fun x => (String.ofList k, x)
          | _ => none) vs
        pure (String.ofList n, vs)
      | _ => none) es
  | _ => none

def enumValue (t : EnumTable) (enum variant : String) : Option Int :=
  -- a flag type shares the enumerators of its enum (`VBase::Flags` → `VBase::Flag`)
  let e := match env.findEnum enum with
    | some ei => ei.alias.getD enum
    | none => enum
  ((t.find? (·.1 = e)).bind fun (_, vs) => vs.find? (·.1 = variant)).map (·.2)

/-- `Type.Variant` -/
def typeVariant (t : EnumTable) (ty variant : String) : Option Int :=
  match env.findClass ty with
  | some ci => ((ci.variants.find? (·.1 = variant)).bind fun (_, e) => enumValue t e variant)
  | none => none

/-- which reading of the language judges: the specification, or the specification with ONE named deviation of the
    code (used only to attribute a failure to a known finding exactly) -/
structure Variant where
  /-- F42: call arguments are evaluated before the callee expression -/
  argsFirst : Bool := false
  /-- F41: an integer constant outside the `int` range that is an argument of `Math.max`/`Math.min` or of a method is
      emitted as a C++ `long` literal: template deduction / overload resolution fails, the header does not compile -/
  longConst : Bool := false

/-- `doc`: the type name of the document the program is part of (the harness translates the k-th program of a batch
    as document type `T<k>`, single programs as `MyType`; the root object is anonymous in all of them, so its generated
    name never equals the type name) -/
def specCtx (t : EnumTable) (v : Variant := {}) (doc : String := "MyType") : QV.Spec.Sem.Ctx :=
  { argsFirst := v.argsFirst
    docType := doc
    H := host
    objects := objectTable
    thisObj := some (1, "VBase")
    enumVal := typeVariant t
    tyName := fun n => (env.types.find? (·.1 = n)).map fun p => namedSTy p.2
    propTy := fun cls p => ((env.findClass cls).bind fun ci => ci.props.find? (·.name = p)).map fun pi => IrSem.styOf pi.ty
    methodTy := fun cls m =>
      ((env.findClass cls).bind fun ci => ci.methods.find? (·.1 = m)).bind fun (_, ms) => ms.head?.map fun mi => IrSem.styOf mi.ret }

def irCtx (t : EnumTable) : IrSem.ICtx :=
  { H := host
    docType := "MyType"
    named := objId
    enumVariant := enumValue t }

/-! ### requests -/

structure Parsed where
  enums : EnumTable
  /-- the state of freshly constructed objects (the one `setup()` evaluates the binding in), if the request has it -/
  init : Option (List (Nat × ObjState)) := none
  states : List (List (Nat × ObjState))
  progs : List (String × Program)
  impl : Option Sexp

def parse (args : List Sexp) : Option Parsed := do
  let mut enums : EnumTable := []
  let mut init := none
  let mut states := []
  let mut progs := []
  let mut impl := none
  for a in args do
    match a with
    | .list (.atom "enums" :: _) => enums ← enumsOf? a
    | .list (.atom "states" :: ss) => states ← Sexp.mapM? stateOf? ss
    | .list [.atom "init", st] => init := some (← stateOf? st)
    | .list [.atom "prog", .list [.atom "prop", .str p], prog] =>
      progs := progs ++ [(String.ofList p, ← QV.Driver.Ir.program? prog)]
    | .list [.atom "impl", x] => impl := some x
    | _ => pure ()
  pure { enums, init, states, progs, impl }

/-- the document type name of the k-th program of a `spec-c01` / `spec-c13` batch (harness: `format!("T{k}")`) -/
def batchDoc (k : Nat) : String := "T" ++ toString k

def propTyOf (t : EnumTable) (prop : String) : Ty :=
  (((specCtx t).propTy "VBase" prop).map (·.ty)).getD .int

/-- value of the binding under the reference semantics in each state: `some sexp` or `none` (undefined) -/
def specValues (p : Parsed) (prop : String) (prog : Program) (v : Variant := {}) (doc : String := "MyType") :
    List (Option Sexp) :=
  let c := specCtx p.enums v doc
  p.states.map fun st => (QV.Spec.Sem.bindingValue c prog (worldOf st) (propTyOf p.enums prop)).map showVal

def optShow : Option Sexp → Sexp
  | some v => v
  | none => .atom "undef"

/-- compare what the specification defines with what was observed -/
def compareValues (spec impl : List (Option Sexp)) : Nat × Nat × List Sexp :=
  let rec go (k : Nat) (compared undef : Nat) (bad : List Sexp) : List (Option Sexp) → List (Option Sexp) → Nat × Nat × List Sexp
    | [], _ => (compared, undef, bad)
    | none :: ss, is => go (k + 1) compared (undef + 1) bad ss (is.drop 1)
    | some v :: ss, is =>
      let got := (is.head?.getD none)
      if got == some v then go (k + 1) (compared + 1) undef bad ss (is.drop 1)
      else go (k + 1) (compared + 1) undef
        (bad ++ [.list [.atom "state", .ofNat k, .atom "spec", v, .atom "impl", optShow got]]) ss (is.drop 1)
  go 0 0 0 [] spec impl

def isInfix (pat : List Char) : List Char → Bool
  | [] => pat.isEmpty
  | cs@(_ :: rest) => pat.isPrefixOf cs || isInfix pat rest

/-- an integer constant whose C++ spelling is a `long` literal: outside the `int` range, or `-2147483648` (which C++
    reads as `-(2147483648L)`) -/
def outsideInt : Operand → Bool
  | .const (.integer v) => !(QV.Spec.Sem.inI32 v) || v == -2147483648
  | _ => false

/-- the model IR passes an integer constant outside the `int` range to `std::max`/`std::min` or to a method -/
def usesLongConstant (code : CodeBody) : Bool :=
  code.blocks.any fun b => b.statements.any fun st =>
    match st with
    | .assign _ (.callBuiltin .max as) | .assign _ (.callBuiltin .min as) | .exec (.callBuiltin .max as)
    | .exec (.callBuiltin .min as) => as.any outsideInt
    | .assign _ (.callMethod _ _ as) | .exec (.callMethod _ _ as) => as.any outsideInt
    | _ => false

def walkCtx : Ctx :=
  { env, F := QV.Driver.Ir.floatOps, objects := objectTable.map fun (n, _, c) => (n, c), thisObj := some ("VBase", "a") }

/-- F41 variant: is this compile error the one a `long` literal causes in this program? -/
def longConstError (callback : Bool) (prog : Program) (msg : Sexp) : Bool :=
  let text := match msg with | .str m => m | _ => []
  let classOk := isInfix "error: no matching function for call to 'max(".toList text ||
    isInfix "error: no matching function for call to 'min(".toList text ||
    (isInfix "error: call of overloaded '".toList text && isInfix "(long int)' is ambiguous".toList text)
  match (build walkCtx callback prog).code with
  | some code => classOk && isInfix "long int".toList text && usesLongConstant code
  | none => false

/-- `(setup X)`: a crash while `setup()` evaluates the binding in the initial state is a failure iff the reference
    semantics defines a value there -/
def setupFailure (p : Parsed) (prop : String) (prog : Program) (setup : Sexp) (v : Variant := {}) (doc : String := "MyType") :
    Option Sexp :=
  match setup, p.init with
  | .list [.atom "setup", .atom x], some init =>
    if x = "sigsegv" ∨ x = "sigfpe" ∨ x = "ub" ∨ x = "unreachable" ∨ x = "signal" ∨ x = "died" then
      -- the same context as specValues: the finding variant and the document type name of THIS program of the batch
      -- (the translation context of qsTr is part of every string value)
      match QV.Spec.Sem.bindingValue (specCtx p.enums v doc) prog (worldOf init) (propTyOf p.enums prop) with
      | some v => some (.list [.atom "setup", .atom x, .atom "spec", showVal v])
      | none => none
    else none
  | _, _ => none

/-- `(spec-c01 …)` (and its finding variants) -/
def handleSpecC01 (args : List Sexp) (v : Variant := {}) : Sexp :=
  match parse args with
  | none => .list [.atom "bad-request"]
  | some p =>
    match p.impl with
    | none =>
      -- no implementation answer: print the specification's values
      .list (.atom "values" :: (p.progs.zipIdx).map fun ((prop, prog), k) =>
        .list (.atom "v" :: (specValues p prop prog v (batchDoc k)).map optShow))
    | some (.list (.atom "results" :: rs)) =>
      let rec go (k : Nat) (cmp und skipped : Nat) (bad : List Sexp) : List (String × Program) → List Sexp → Sexp
        | [], _ =>
          if bad.isEmpty then .list [.atom "ok", .atom "compared", .ofNat cmp, .atom "undef", .ofNat und, .atom "skipped", .ofNat skipped]
          else .list (.atom "fail" :: bad)
        | (prop, prog) :: ps, rs =>
          let r := rs.head?.getD (.list [.atom "r", .atom "missing"])
          (match r with
           | .list (.atom "r" :: .atom "ok" :: .list [.atom "setup", .atom "assert"] :: _) =>
             -- the debug guard of the generated code ("binding loop detected") fired while setup() evaluated the binding:
             -- the program reads its own target property (a self-dependent binding; loops are outside the property, see
             -- C02's assumptions) and the process does not survive the guard — nothing is compared, the program is counted
             go (k + 1) cmp und (skipped + 1) bad ps (rs.drop 1)
           | .list (.atom "r" :: .atom "ok" :: setup :: vals) =>
             -- `(fail died)`: the test process did not survive an earlier crash of this program (a crash inside the slot of a
             -- self-dependent binding cannot be unwound): that state was NOT observed — it is left out, not read as undefined
             let observed := ((specValues p prop prog v (batchDoc k)).zip vals).filter fun (_, x) =>
               x != .list [.atom "fail", .atom "died"]
             let impl := observed.map fun (_, v) => match v with
               | .list (.atom "fail" :: _) => none
               | v => some v
             let (c, u, b) := compareValues (observed.map (·.1)) impl
             let bad1 := match setupFailure p prop prog setup v (batchDoc k) with
               | some f => bad ++ [.list [.atom "p", .ofNat k, .atom "setup-crash", f]]
               | none => bad
             let bad' := if b.isEmpty then bad1 else bad1 ++ [.list (.atom "p" :: .ofNat k :: .atom "value" :: b.take 3)]
             go (k + 1) (cmp + c) (und + u) skipped bad' ps (rs.drop 1)
           | .list [.atom "r", .atom "error", msg] =>
             if v.longConst && longConstError false prog msg then go (k + 1) cmp und (skipped + 1) bad ps (rs.drop 1) else
             go (k + 1) cmp und skipped (bad ++ [.list [.atom "p", .ofNat k, .atom "compile-error", msg]]) ps (rs.drop 1)
           | .list [.atom "r", .atom "rejected"] =>
             -- rejected although every state has a defined value? only counted (over-rejection is C05's business)
             go (k + 1) cmp und (skipped + 1) bad ps (rs.drop 1)
           | .list [.atom "r", .atom "constant"] =>
             -- folded to a constant (no eval function in the header): the specification must then give ONE value
             -- in all states of the batch — a binding whose value depends on the state must have an update path
             -- (states in which the specification leaves the value undefined do not count: an undefined operation in
             -- a statement whose value is dropped does not make the result state-dependent)
             let sv := (specValues p prop prog v (batchDoc k)).filterMap fun x => x.map fun y => optShow (some y)
             let varies := match sv with
               | [] => false
               | x :: xs => xs.any (· != x)
             if varies then
               go (k + 1) cmp und skipped (bad ++ [.list [.atom "p", .ofNat k, .atom "constant-but-state-dependent"]]) ps (rs.drop 1)
             else go (k + 1) cmp und (skipped + 1) bad ps (rs.drop 1)
           | .list [.atom "r", .atom _] => go (k + 1) cmp und (skipped + 1) bad ps (rs.drop 1)
           | other => go (k + 1) cmp und skipped (bad ++ [.list [.atom "p", .ofNat k, .atom "unreadable", other]]) ps (rs.drop 1))
      go 0 0 0 0 [] p.progs rs
    | some (.list (.atom "fail" :: m)) => .list (.atom "fail" :: .atom "harness" :: m)
    | some other => .list [.atom "fail", .atom "unreadable-answer", other]

/-- `(c01-ir …)`: Model.IrSem on the REAL IR vs Spec.Sem -/
def handleIr (args : List Sexp) : Sexp :=
  match parse args with
  | none => .list [.atom "bad-request"]
  | some p =>
    match p.progs, p.impl with
    | [(prop, prog)], some (.list [.atom "built", code]) =>
      (match QV.Driver.Ir.codeBodyOf? code with
       | none => .list [.atom "fail", .atom "unreadable-ir"]
       | some cb =>
         let ic := irCtx p.enums
         let ty := propTyOf p.enums prop
         let ir := p.states.map fun st => (IrSem.bindingValue ic cb (worldOf st) ty).map showVal
         let (c, u, b) := compareValues (specValues p prop prog) ir
         if b.isEmpty then .list [.atom "ok", .atom "compared", .ofNat c, .atom "undef", .ofNat u]
         else .list (.atom "fail" :: b.take 3))
    | _, some (.list (.atom "rejected" :: _)) => .list [.atom "ok", .atom "rejected"]
    | _, some (.list (.atom "syntax-error" :: _)) => .list [.atom "ok", .atom "syntax-error"]
    | _, _ => .list [.atom "bad-request"]

/-- `(c01-body …)`: the model's text of the eval function -/
def handleBody (args : List Sexp) : Sexp :=
  match args with
  | [.list [.atom "this", .str tn, .str tc], .list (.atom "objects" :: objs), .list [.atom "kind", .atom "prop", .str prop], prog] =>
    match QV.Driver.Ir.program? prog, Sexp.mapM? (fun o => match o with
        | .list [.str i, .str c] => some (String.ofList i, String.ofList c) | _ => none) objs with
    | some p, some objects =>
      let ctx : Ctx := { env, F := QV.Driver.Ir.floatOps, objects, thisObj := some (String.ofList tc, String.ofList tn) }
      let r := build ctx false p
      (match r.code, r.panic with
       | some code, none =>
         if !r.diags.isEmpty then .list [.atom "rejected"] else
         let (code, d2, panic) := analyzePropertyDependency code
         if panic.isSome || !d2.isEmpty then .list [.atom "rejected"] else
         let prop := String.ofList prop
         let propInfo := (env.findClass (String.ofList tc)).bind fun ci => ci.props.find? (·.name = prop)
         (match propInfo, evaluateCode env code with
          | some pi, .value (some _) =>
            if !CxxBody.returnTypeOk env code pi.ty then .list [.atom "rejected"] else .list [.atom "constant"]
          | some pi, .value none =>
            -- `verify_code_return_type`: the returned type must be assignable to the property type
            if !CxxBody.returnTypeOk env code pi.ty then .list [.atom "rejected"] else
            let name := CxxBody.capitalize (String.ofList tn) ++ CxxBody.capitalize prop
            .list [.atom "body", .ofString (CxxBody.evalFunction env CxxBody.rustFloatE "root" name pi.ty code)]
          | _, _ => .list [.atom "rejected"])
       | _, _ => .list [.atom "rejected"])
    | _, _ => .list [.atom "bad-request"]
  | _ => .list [.atom "bad-request"]

/-! ### C13 -/

def logName : LogLevel → String
  | .log | .debug => "debug" | .info => "info" | .warn => "warn" | .error => "error"

/-- the text the runtime mock records for an effect -/
def showEv : Ev → Sexp
  | .write o p v => .list [.atom "set", showVal (.ptr (some o)), .ofString p, showVal v]
  | .call o m args => .list (.atom "call" :: showVal (.ptr (some o)) :: .ofString m :: args.map showVal)
  | .log lv args => .list (.atom "log" :: .atom (logName lv) :: args.map showVal)

structure Parsed13 where
  enums : EnumTable
  states : List (List (Nat × ObjState))
  /-- per state: signal ↦ argument values -/
  sigargs : List (List (String × List Val))
  handlers : List (String × Program)
  impl : Option Sexp

def parse13 (args : List Sexp) : Option Parsed13 := do
  let mut enums : EnumTable := []
  let mut states := []
  let mut sigargs := []
  let mut handlers := []
  let mut impl := none
  for a in args do
    match a with
    | .list (.atom "enums" :: _) => enums ← enumsOf? a
    | .list (.atom "states" :: ss) => states ← Sexp.mapM? stateOf? ss
    | .list (.atom "sigargs" :: es) =>
      sigargs ← Sexp.mapM? (fun e => match e with
        | .list (.atom "e" :: entries) => Sexp.mapM? (fun x => match x with
          | .list (.str n :: vs) => (Sexp.mapM? valOf? vs).map fun vs => (String.ofList n, vs)
          | _ => none) entries
        | _ => none) es
    | .list [.atom "handler", .list [.atom "sig", .str sg], prog] =>
      handlers := handlers ++ [(String.ofList sg, ← QV.Driver.Ir.program? prog)]
    | .list [.atom "impl", x] => impl := some x
    | _ => pure ()
  pure { enums, states, sigargs, handlers, impl }

/-- the trace the reference semantics prescribes for the handler in each state (`none`: undefined) -/
def specTraces (p : Parsed13) (sg : String) (prog : Program) (v : Variant := {}) (doc : String := "MyType") :
    List (Option Sexp) :=
  let c := specCtx p.enums v doc
  (p.states.zip p.sigargs).map fun (st, sa) =>
    let args := ((sa.find? (·.1 = sg)).map (·.2)).getD []
    (QV.Spec.Sem.run c prog (worldOf st) args).map fun r => .list (.atom "t" :: r.trace.map showEv)

/-- `(spec-c13 …)` (and its finding variants) -/
def handleSpecC13 (args : List Sexp) (v : Variant := {}) : Sexp :=
  match parse13 args with
  | none => .list [.atom "bad-request"]
  | some p =>
    match p.impl with
    | none => .list (.atom "traces" :: (p.handlers.zipIdx).map fun ((sg, prog), k) =>
        .list (.atom "h" :: (specTraces p sg prog v (batchDoc k)).map optShow))
    | some (.list (.atom "results" :: rs)) =>
      let rec go (k : Nat) (cmp und skipped : Nat) (bad : List Sexp) : List (String × Program) → List Sexp → Sexp
        | [], _ =>
          if bad.isEmpty then .list [.atom "ok", .atom "compared", .ofNat cmp, .atom "undef", .ofNat und, .atom "skipped", .ofNat skipped]
          else .list (.atom "fail" :: bad)
        | (sg, prog) :: ps, rs =>
          let r := rs.head?.getD (.list [.atom "r", .atom "missing"])
          (match r with
           | .list (.atom "r" :: .atom "ok" :: setup :: vals) =>
             -- exactly one connection, on object `a`, made by setup()
             let setupOk := setup == .list [.atom "setup", .atom "ok", .atom "1", .atom "1"]
             let impl := vals.map fun v => match v with
               | .list (.atom "fail" :: _) => none
               | v => some v
             let (c, u, b) := compareValues (specTraces p sg prog v (batchDoc k)) impl
             let bad1 := if setupOk then bad else bad ++ [.list [.atom "p", .ofNat k, .atom "connections", setup]]
             let bad' := if b.isEmpty then bad1 else bad1 ++ [.list (.atom "p" :: .ofNat k :: .atom "trace" :: b.take 2)]
             go (k + 1) (cmp + c) (und + u) skipped bad' ps (rs.drop 1)
           | .list [.atom "r", .atom "error", msg] =>
             if v.longConst && longConstError true prog msg then go (k + 1) cmp und (skipped + 1) bad ps (rs.drop 1) else
             go (k + 1) cmp und skipped (bad ++ [.list [.atom "p", .ofNat k, .atom "compile-error", msg]]) ps (rs.drop 1)
           | .list (.atom "r" :: .atom _ :: _) => go (k + 1) cmp und (skipped + 1) bad ps (rs.drop 1)
           | other => go (k + 1) cmp und skipped (bad ++ [.list [.atom "p", .ofNat k, .atom "unreadable", other]]) ps (rs.drop 1))
      go 0 0 0 0 [] p.handlers rs
    | some (.list (.atom "fail" :: m)) => .list (.atom "fail" :: .atom "harness" :: m)
    | some other => .list [.atom "fail", .atom "unreadable-answer", other]

/-- type names of the overload classes (harness/metatypes/verif_overloads.json) -/
def overloadTy (n : List Char) : Option TypeKind :=
  match String.ofList n with
  | "int" => some .int | "QString" => some .string | "bool" => some .bool | "double" => some .double
  | "void" => some .void | _ => none

def overloadTyName (t : TypeKind) : Sexp :=
  if t = .int then .str "int".toList else if t = .string then .str "QString".toList else if t = .bool then .str "bool".toList
  else if t = .double then .str "double".toList else .str "?".toList

/-- `(c13-body overload (cls C) (name N) (methods (m kind "ret" "arg"…)…))`: the overload set found under one name, in
    lookup order → what `uniquify_methods` (Model.Callback) makes of it: `(accepted "arg"…)` (the connected overload),
    `(ambiguous)`, `(not-signal)` -/
def handleOverload13 (cls : String) (ms : List Sexp) : Sexp :=
  let parsed : Option (List MethodInfo) := Sexp.mapM? (fun m => match m with
    | .list (.atom "m" :: .atom k :: .str r :: as) => do
      let kind ← (match k with | "signal" => some MethodKind.signal | "slot" => some .slot | "method" => some .method | _ => none)
      let ret ← overloadTy r
      let args ← Sexp.mapM? (fun a => match a with | .str x => overloadTy x | _ => none) as
      pure ({ cls, name := "m", args, ret, kind } : MethodInfo)
    | _ => none) ms
  match parsed with
  | none => .list [.atom "bad-request"]
  | some ms =>
    match Callback.uniquifyMethods ms with
    | none => .list [.atom "panic"]
    | some none => .list [.atom "ambiguous"]
    | some (some m) =>
      if m.kind = .signal then .list (.atom "accepted" :: m.args.map overloadTyName) else .list [.atom "not-signal"]

/-- `(c13-body (name "onFired2") P)`: accepted → text of the connection and handler functions (Model.Callback);
    rejected → the messages -/
def handleBody13 (args : List Sexp) : Sexp :=
  match args with
  | [.atom "overload", .list [.atom "cls", .str c], .list [.atom "name", _], .list (.atom "methods" :: ms)] =>
    handleOverload13 (String.ofList c) ms
  | [.list [.atom "name", .str nm], prog] =>
    match QV.Driver.Ir.program? prog, env.findClass "VBase" with
    | some p, some ci =>
      let name := String.ofList nm
      let d := Callback.resolveBinding ci name
      -- the generated environment has class facts for the verification classes only: an annotation naming another
      -- class (QWidget, QObject) cannot be classified as object/gadget by the model
      let foreign := match p with
        | .function f => f.params.any fun (_, ty) => match ty with
          | some t => (match (env.types.find? fun (x : String × NamedTy) => x.1 = joinWith "::" t) with
            | some (_, NamedTy.cls n) => (env.findClass n).isNone
            | _ => false)
          | none => false
        | _ => false
      if foreign then .list [.atom "skip", .atom "foreign-class-annotation"] else
      (match d with
       | .callback sig =>
         let ctx : Ctx := { env, F := QV.Driver.Ir.floatOps, objects := objectTable.map fun (n, _, c) => (n, c),
                            thisObj := some ("VBase", "a") }
         let r := build ctx true p
         (match r.code, r.panic with
          | some code, none =>
            if !r.diags.isEmpty then .list (.atom "rejected" :: r.diags.map Sexp.ofString) else
            let msgs := Callback.verifyCallbackParameterType env sig code
            if !msgs.isEmpty then .list (.atom "rejected" :: msgs.map Sexp.ofString) else
            let t : CxxBody.Tr := { env, fmtFloat := CxxBody.rustFloatE, rootName := "widget", trContext := "MyType", returnsValue := false }
            let fname := CxxBody.capitalize "a" ++ CxxBody.capitalize sig.name
            .list [.atom "cb", .ofString (Callback.setupFunction t fname "a" sig code),
                   .ofString (Callback.callbackFunction t fname code), .ofNat 1]
          | none, none => .list (.atom "rejected" :: r.diags.map Sexp.ofString)
          | _, some site => .list [.atom "panic", .ofString site])
       | .property _ => .list [.atom "skip", .atom "property"]
       | .panic => .list [.atom "panic", .ofString "method matches should not be empty"]
       | d => .list [.atom "rejected", .ofString ((d.message "VBase" name).getD "")])
    | _, _ => .list [.atom "bad-request"]
  | _ => .list [.atom "bad-request"]

end QV.Driver.Sem
