/-
  Import-free s-expression reader/printer used by the line protocol between the Rust harness and the
  Lean driver (DESIGN.md Appendix A).  One request per line, one answer per line.

  atoms   : [^\s()"]+
  strings : "…" with escapes  \\  \"  \n  \t  \r  \u{HEX}
  lists   : ( … )
-/
namespace QV

inductive Sexp where
  | atom (s : String)
  | str (s : List Char)
  | list (xs : List Sexp)
deriving Repr, Inhabited, BEq

namespace Sexp

private def hexDigitChar (n : Nat) : Char :=
  if n < 10 then Char.ofNat (48 + n) else Char.ofNat (87 + n)

private partial def toHex (n : Nat) : List Char :=
  if n < 16 then [hexDigitChar n] else toHex (n / 16) ++ [hexDigitChar (n % 16)]

def escapeChar (c : Char) : List Char :=
  if c = '\\' then ['\\', '\\']
  else if c = '"' then ['\\', '"']
  else if c = '\n' then ['\\', 'n']
  else if c = '\t' then ['\\', 't']
  else if c = '\r' then ['\\', 'r']
  else if c.toNat ≥ 32 ∧ c.toNat < 127 then [c]
  else ['\\', 'u', '{'] ++ toHex c.toNat ++ ['}']

partial def render : Sexp → String
  | atom s => s
  | str cs => String.ofList (['"'] ++ (cs.map escapeChar).flatten ++ ['"'])
  | list xs => "(" ++ " ".intercalate (xs.map render) ++ ")"

instance : ToString Sexp := ⟨render⟩

private def hexVal (c : Char) : Option Nat :=
  if '0' ≤ c ∧ c ≤ '9' then some (c.toNat - 48)
  else if 'a' ≤ c ∧ c ≤ 'f' then some (c.toNat - 87)
  else if 'A' ≤ c ∧ c ≤ 'F' then some (c.toNat - 55)
  else none

private partial def readStr (cs : List Char) (acc : List Char) : Option (List Char × List Char) :=
  match cs with
  | [] => none
  | '"' :: rest => some (acc.reverse, rest)
  | '\\' :: 'n' :: rest => readStr rest ('\n' :: acc)
  | '\\' :: 't' :: rest => readStr rest ('\t' :: acc)
  | '\\' :: 'r' :: rest => readStr rest ('\r' :: acc)
  | '\\' :: '\\' :: rest => readStr rest ('\\' :: acc)
  | '\\' :: '"' :: rest => readStr rest ('"' :: acc)
  | '\\' :: 'u' :: '{' :: rest =>
    let rec go (cs : List Char) (n : Nat) : Option (Nat × List Char) :=
      match cs with
      | '}' :: r => some (n, r)
      | c :: r => match hexVal c with
        | some d => go r (n * 16 + d)
        | none => none
      | [] => none
    match go rest 0 with
    | some (n, r) => readStr r (Char.ofNat n :: acc)
    | none => none
  | c :: rest => readStr rest (c :: acc)

private def isDelim (c : Char) : Bool :=
  c = ' ' || c = '\t' || c = '\n' || c = '\r' || c = '(' || c = ')' || c = '"'

mutual
partial def readOne (cs : List Char) : Option (Sexp × List Char) :=
  match cs with
  | [] => none
  | c :: rest =>
    if c = ' ' || c = '\t' || c = '\n' || c = '\r' then readOne rest
    else if c = '(' then
      match readMany rest [] with
      | some (xs, r) => some (list xs, r)
      | none => none
    else if c = ')' then none
    else if c = '"' then
      match readStr rest [] with
      | some (s, r) => some (str s, r)
      | none => none
    else
      let a := cs.takeWhile (fun c => !isDelim c)
      some (atom (String.ofList a), cs.dropWhile (fun c => !isDelim c))
partial def readMany (cs : List Char) (acc : List Sexp) : Option (List Sexp × List Char) :=
  match cs with
  | [] => none
  | c :: rest =>
    if c = ' ' || c = '\t' || c = '\n' || c = '\r' then readMany rest acc
    else if c = ')' then some (acc.reverse, rest)
    else match readOne cs with
      | some (x, r) => readMany r (x :: acc)
      | none => none
end

def parse (s : String) : Option Sexp :=
  match readOne s.toList with
  | some (x, _) => some x
  | none => none

def ofNat (n : Nat) : Sexp := atom (toString n)
def ofInt (n : Int) : Sexp := atom (toString n)
def ofBool (b : Bool) : Sexp := atom (if b then "true" else "false")
def ofString (s : String) : Sexp := str s.toList

def toNat? : Sexp → Option Nat
  | atom s => s.toNat?
  | _ => none
def toInt? : Sexp → Option Int
  | atom s => s.toInt?
  | _ => none
def toBool? : Sexp → Option Bool
  | atom "true" => some true
  | atom "false" => some false
  | _ => none
def toChars? : Sexp → Option (List Char)
  | str s => some s
  | _ => none
def toList? : Sexp → Option (List Sexp)
  | list xs => some xs
  | _ => none

def optionOf (f : α → Sexp) : Option α → Sexp
  | none => atom "none"
  | some x => list [atom "some", f x]

def toOption? (f : Sexp → Option α) : Sexp → Option (Option α)
  | atom "none" => some none
  | list [atom "some", x] => (f x).map some
  | _ => none

def mapM? (f : Sexp → Option α) : List Sexp → Option (List α)
  | [] => some []
  | x :: xs => match f x, mapM? f xs with
    | some y, some ys => some (y :: ys)
    | _, _ => none

end Sexp
end QV
