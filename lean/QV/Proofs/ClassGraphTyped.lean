import QV.Model.ClassGraphTyped
import QV.Spec.GraphMembers
import QV.Proofs.ClassGraphRepaired

/-
  Lemmas about member look-ups with member types (QV.Model.ClassGraph.Typed): which declaration decides.

  The search of find_map_self_and_base_classes is generic in the per-class function `f`; `f` may answer with an
  error (a declaration whose type does not resolve).  `fmsb_decider`: the answer is the answer of a class that
  is reached from the queried class along a path on which no class before it answers (`Unhidden`) — the class
  itself whenever it answers — or, if no class answers, "not found" resp. the deferred super-class error.
-/
namespace QV.Proofs.ClassGraph.Typed
open QV.Model.ClassGraph QV.Model.ClassGraph.Typed QV.Proofs.ClassGraph

/-! ### the erased table -/

theorem erase_name (d : ClassDeclT) : d.erase.name = d.name := rfl

theorem lookupClass_erase (cs : List ClassDeclT) (n : Name) :
    lookupClass (cs.map (·.erase)) n = (lookupClassT cs n).map (·.erase) := by
  induction cs with
  | nil => rfl
  | cons x xs ih =>
    simp only [List.map_cons, lookupClass, lookupClassT, ih]
    cases lookupClassT xs n with
    | some y => rfl
    | none =>
      simp only [Option.map_none]
      show (if x.erase.name = n then some x.erase else none) = _
      rw [erase_name]
      split <;> rfl

theorem lookupClassT_name {cs : List ClassDeclT} {n : Name} {d : ClassDeclT} (h : lookupClassT cs n = some d) :
    d.name = n := by
  induction cs with
  | nil => cases h
  | cons x xs ih =>
    simp only [lookupClassT] at h
    cases hx : lookupClassT xs n with
    | some y => rw [hx] at h; cases h; exact ih hx
    | none =>
      rw [hx] at h
      simp only at h
      split at h
      · next hn => cases h; exact hn
      · cases h

/-- a handle of the erased table is the erasure of the typed declaration of its name -/
theorem handle_typed {t : TableT} {c : ClassDecl} (h : lookupClass t.erase.classes c.name = some c) :
    ∃ d, lookupClassT t.classes c.name = some d ∧ d.erase = c := by
  have := lookupClass_erase t.classes c.name
  rw [show t.erase.classes = t.classes.map (·.erase) from rfl] at h
  rw [h] at this
  cases hd : lookupClassT t.classes c.name with
  | none => rw [hd] at this; cases this
  | some d => rw [hd] at this; simp only [Option.map_some, Option.some.injEq] at this; exact ⟨d, rfl, this.symm⟩

theorem typed_handle {t : TableT} {n : Name} {d : ClassDeclT} (h : lookupClassT t.classes n = some d) :
    lookupClass t.erase.classes d.erase.name = some d.erase := by
  have hn := lookupClassT_name h
  rw [erase_name, hn]
  show lookupClass (t.classes.map (·.erase)) n = _
  rw [lookupClass_erase, h]; rfl

/-! ### which class decides a search -/

/-- `c` is listed as a public super class by `p` (and the name resolves to `c`) -/
def IsSuperOf (t : Table) (p c : ClassDecl) : Prop :=
  ∃ n ∈ p.publicSuperClassNames, lookupClass t.classes n = some c

/-- `d` is reached from `a` along public super classes, and no class BEFORE `d` on that path answers `f` -/
inductive Unhidden {α : Type} (t : Table) (f : ClassDecl → Lookup α) : ClassDecl → ClassDecl → Prop where
  | refl (d : ClassDecl) : Unhidden t f d d
  | snoc {a b c : ClassDecl} : Unhidden t f a b → f b = .notFound → IsSuperOf t b c → Unhidden t f a c

theorem Unhidden.reach {α : Type} {t : Table} {f : ClassDecl → Lookup α} {a d : ClassDecl}
    (h : Unhidden t f a d) : Reach t a d := by
  induction h with
  | refl => exact .refl _
  | snoc _ _ hs ih =>
    obtain ⟨n, hn, hl⟩ := hs
    exact ih.trans (.step hn hl (.refl _))

/-- a class that answers is reached unhidden only by the trivial path -/
theorem Unhidden.of_self {α : Type} {t : Table} {f : ClassDecl → Lookup α} {a d : ClassDecl}
    (h : Unhidden t f a d) (hf : f a ≠ .notFound) : d = a := by
  induction h with
  | refl => rfl
  | snoc _ hb _ ih => rw [ih] at hb; exact absurd hb hf

/-- the walk: either nothing it yields answers `f`, or the FIRST class that answers is reached unhidden —
    provided every pending name is (its class is reached unhidden from `self`) -/
theorem run_first_hit {α : Type} {t : Table} {f : ClassDecl → Lookup α} {self : ClassDecl}
    {p : List (List Name)} {vis : List Name} {out : List Item} (h : Run t p vis out)
    (hp : ∀ n ∈ p.flatten, ∀ c, lookupClass t.classes n = some c → Unhidden t f self c) :
    (∀ d, .ok d ∈ out → f d = .notFound) ∨
    ∃ pre d post, out = pre ++ .ok d :: post ∧ (∀ x, .ok x ∈ pre → f x = .notFound) ∧ f d ≠ .notFound ∧
      Unhidden t f self d := by
  induction h with
  | done => exact .inl (fun d hd => by cases hd)
  | pop _ ih => exact ih (by simpa using hp)
  | @err n ns rest vis out e _ _ ih =>
    have hp' : ∀ m ∈ (ns :: rest).flatten, ∀ c, lookupClass t.classes m = some c → Unhidden t f self c := by
      intro m hm c hc
      refine hp m ?_ c hc
      simp only [List.flatten_cons, List.mem_append, List.mem_cons] at hm ⊢
      rcases hm with hm | hm
      · exact .inl (.inr hm)
      · exact .inr hm
    rcases ih hp' with hall | ⟨pre, d, post, ho, h1, h2, h3⟩
    · refine .inl (fun d hd => ?_)
      rcases List.mem_cons.mp hd with h | h
      · cases h
      · exact hall d h
    · refine .inr ⟨.err e :: pre, d, post, by rw [ho]; rfl, fun x hx => ?_, h2, h3⟩
      rcases List.mem_cons.mp hx with h | h
      · cases h
      · exact h1 x h
  | @seen n ns rest vis out c _ _ _ ih =>
    refine ih (fun m hm c' hc' => hp m ?_ c' hc')
    simp only [List.flatten_cons, List.mem_append, List.mem_cons] at hm ⊢
    rcases hm with hm | hm
    · exact .inl (.inr hm)
    · exact .inr hm
  | @new n ns rest vis out c hc _ _ ih =>
    have hcu : Unhidden t f self c := hp n (by simp) c (resolveClass_ok.mp hc)
    by_cases hfc : f c = .notFound
    · have hp' : ∀ m ∈ ((ns :: rest) ++ [c.publicSuperClassNames]).flatten, ∀ c', lookupClass t.classes m = some c' →
          Unhidden t f self c' := by
        intro m hm c' hc'
        simp only [List.flatten_append, List.flatten_cons, List.flatten_nil, List.append_nil, List.mem_append] at hm
        rcases hm with (hm | hm) | hm
        · exact hp m (by simp [hm]) c' hc'
        · exact hp m (by simp [hm]) c' hc'
        · exact .snoc hcu hfc ⟨m, hm, hc'⟩
      rcases ih hp' with hall | ⟨pre, d, post, ho, h1, h2, h3⟩
      · refine .inl (fun d hd => ?_)
        rcases List.mem_cons.mp hd with h | h
        · cases h; exact hfc
        · exact hall d h
      · refine .inr ⟨.ok c :: pre, d, post, by rw [ho]; rfl, fun x hx => ?_, h2, h3⟩
        rcases List.mem_cons.mp hx with h | h
        · cases h; exact hfc
        · exact h1 x h
    · exact .inr ⟨[], c, out, rfl, (fun x hx => by cases hx), hfc, hcu⟩

/-- the loop of the search returns the answer of the first class that answers -/
theorem fmi_split {α : Type} {f : ClassDecl → Lookup α} {pre post : List Item} {d : ClassDecl}
    (hpre : ∀ x, .ok x ∈ pre → f x = .notFound) (hd : f d ≠ .notFound) (fe : Option TypeMapError) :
    Repaired.findMapItems f (pre ++ .ok d :: post) fe = f d := by
  induction pre generalizing fe with
  | nil =>
    cases hfd : f d with
    | notFound => exact absurd hfd hd
    | found x => simp [Repaired.findMapItems, hfd]
    | error e => simp [Repaired.findMapItems, hfd]
  | cons i rest ih =>
    have hrest : ∀ x, Item.ok x ∈ rest → f x = .notFound := fun x hx => hpre x (List.mem_cons_of_mem _ hx)
    cases i with
    | err e =>
      cases fe with
      | none => simp only [List.cons_append, Repaired.findMapItems]; exact ih hrest _
      | some e0 => simp only [List.cons_append, Repaired.findMapItems]; exact ih hrest _
    | ok c =>
      simp only [List.cons_append, Repaired.findMapItems, hpre c List.mem_cons_self]
      exact ih hrest _

/-- **Which class decides.**  Either the answer is the answer of a class reached from `self` along a path on
    which no earlier class answers — `self` itself whenever it answers — or no class reachable from `self`
    answers and the result is "not found" resp. the deferred error of an unresolved super class. -/
theorem fmsb_decider {α : Type} (t : Table) (self : ClassDecl) (f : ClassDecl → Lookup α) :
    (∃ d, Unhidden t f self d ∧ f d ≠ .notFound ∧ Repaired.findMapSelfAndBaseClasses t self f = f d) ∨
    ((∀ d, Reach t self d → f d = .notFound) ∧
      (Repaired.findMapSelfAndBaseClasses t self f = .notFound ∨
        ∃ e, Repaired.findMapSelfAndBaseClasses t self f = .error e ∧ .err e ∈ baseClasses t self)) := by
  by_cases hfs : f self = .notFound
  · have hrun := baseClasses_run t self
    have hp : ∀ n ∈ [self.publicSuperClassNames].flatten, ∀ c, lookupClass t.classes n = some c →
        Unhidden t f self c := by
      intro n hn c hc
      exact .snoc (.refl _) hfs ⟨n, by simpa using hn, hc⟩
    rcases run_first_hit hrun hp with hall | ⟨pre, d, post, ho, h1, h2, h3⟩
    · have hall' : ∀ d, Reach t self d → f d = .notFound := by
        intro d hd
        rcases reach_cases hd with rfl | h
        · exact hfs
        · exact hall d h
      exact .inr ⟨hall', Repaired.fmsb_none hall'⟩
    · refine .inl ⟨d, h3, h2, ?_⟩
      rw [Repaired.fmsb_eq, hfs]
      show Repaired.findMapItems f (baseClasses t self) none = f d
      rw [ho]
      exact fmi_split h1 h2 none
  · refine .inl ⟨self, .refl _, hfs, ?_⟩
    rw [Repaired.fmsb_eq]
    cases h : f self with
    | notFound => exact absurd h hfs
    | found x => rfl
    | error e => rfl

/-- the class's own answer — `Ok` or `Err` — is the result: nothing falls through to an ancestor -/
theorem fmsb_own {α : Type} (t : Table) (self : ClassDecl) (f : ClassDecl → Lookup α) (h : f self ≠ .notFound) :
    Repaired.findMapSelfAndBaseClasses t self f = f self := by
  rw [Repaired.fmsb_eq]
  cases hf : f self with
  | notFound => exact absurd hf h
  | found x => rfl
  | error e => rfl

/-! ### properties -/

theorem lookupProp_some {ps : List PropDecl} {n : Name} {p : PropDecl} (h : lookupProp ps n = some p) :
    p ∈ ps ∧ p.name = n := by
  induction ps with
  | nil => cases h
  | cons x xs ih =>
    simp only [lookupProp] at h
    cases hx : lookupProp xs n with
    | some y =>
      rw [hx] at h; cases h
      exact ⟨List.mem_cons_of_mem _ (ih hx).1, (ih hx).2⟩
    | none =>
      rw [hx] at h
      simp only at h
      split at h
      · next hn => cases h; exact ⟨List.mem_cons_self, hn⟩
      · cases h

theorem lookupProp_none {ps : List PropDecl} {n : Name} (h : lookupProp ps n = none) : ∀ p ∈ ps, p.name ≠ n := by
  induction ps with
  | nil => intro p hp; cases hp
  | cons x xs ih =>
    simp only [lookupProp] at h
    cases hx : lookupProp xs n with
    | some y => rw [hx] at h; cases h
    | none =>
      rw [hx] at h
      simp only at h
      split at h
      · cases h
      · next hn =>
        intro p hp
        rcases List.mem_cons.mp hp with rfl | hp
        · exact hn
        · exact ih hx p hp

/-- a property name is declared (with some type) iff the erased class lists it -/
theorem lookupProp_isSome_iff (d : ClassDeclT) (n : Name) : (lookupProp d.props n).isSome ↔ n ∈ d.erase.props := by
  show _ ↔ n ∈ d.props.map (·.name)
  constructor
  · intro h
    cases hp : lookupProp d.props n with
    | none => rw [hp] at h; cases h
    | some p =>
      obtain ⟨h1, h2⟩ := lookupProp_some hp
      exact List.mem_map.mpr ⟨p, h1, h2⟩
  · intro h
    obtain ⟨p, hp, hn⟩ := List.mem_map.mp h
    cases hl : lookupProp d.props n with
    | none => exact absurd hn (lookupProp_none hl p hp)
    | some _ => rfl

/-- on a handle: `propAt` answers iff the class declares the name -/
theorem propAt_notFound_iff {t : TableT} {c : ClassDecl} (hc : lookupClass t.erase.classes c.name = some c) (p : Name) :
    propAt t c p = .notFound ↔ p ∉ c.props := by
  obtain ⟨d, hd, he⟩ := handle_typed hc
  unfold propAt
  rw [hd]
  simp only
  rw [← he, ← lookupProp_isSome_iff]
  cases hp : lookupProp d.props p with
  | none => simp
  | some pd =>
    simp only [Option.isSome_some, not_true_eq_false, iff_false]
    cases resolveTypeExpr t.erase d.erase pd.ty <;> simp

theorem propAt_found {t : TableT} {c o : ClassDecl} {p : Name} (h : propAt t c p = .found o) : o = c := by
  unfold propAt at h
  split at h
  · cases h
  · split at h
    · cases h
    · split at h
      · cases h; rfl
      · cases h

/-! ### methods -/

/-- forgetting the types of the public methods gives the public methods of the erased class -/
def eraseData (m : MethodData) : MethodData := { name := m.name, kind := m.kind, nargs := m.nargs }

theorem publicMethodsT_erase (d : ClassDeclT) : (publicMethodsT d).map eraseData = publicMethods d.erase := by
  have pick : ∀ (k : MethodKind) (ms : List MethodDeclT),
      (ms.filterMap fun m =>
        if m.isPublic then some ({ name := m.name, kind := k, nargs := m.args.length, ret := m.ret, args := m.args } : MethodData)
        else none).map eraseData =
      (ms.map (·.erase)).filterMap fun m => if m.isPublic then some ({ name := m.name, kind := k, nargs := m.nargs } : MethodData) else none := by
    intro k ms
    induction ms with
    | nil => rfl
    | cons m rest ih =>
      simp only [List.filterMap_cons, List.map_cons, MethodDeclT.erase]
      cases m.isPublic with
      | true =>
        simp only [if_true, List.map_cons]
        rw [ih]; rfl
      | false =>
        simp only [Bool.false_eq_true, if_false]
        exact ih
  simp only [publicMethodsT, publicMethods, List.map_append, pick]
  rfl

/-- the slice of a name: the public methods of that name in declaration order, with their types -/
theorem methodSlice_methodTableT (d : ClassDeclT) (n : Name) :
    methodSlice (methodTableT d) n = (publicMethodsT d).filter (fun m => m.name = n) := by
  unfold methodTableT
  rw [methodSlice_sorted n (sorted_sortByName _), filter_sortByName]

theorem filter_map_eraseData (l : List MethodData) (n : Name) :
    (l.filter (fun m => m.name = n)).map eraseData = (l.map eraseData).filter (fun m => m.name = n) := by
  induction l with
  | nil => rfl
  | cons x xs ih =>
    simp only [List.filter_cons, List.map_cons]
    have : (eraseData x).name = x.name := rfl
    rw [this]
    split
    · simp only [List.map_cons, ih]
    · exact ih

/-- the typed slice, types forgotten, is the slice of the erased class -/
theorem methodSlice_erase (d : ClassDeclT) (n : Name) :
    (methodSlice (methodTableT d) n).map eraseData = methodSlice (methodTable d.erase) n := by
  rw [methodSlice_methodTableT, methodSlice_methodTable, filter_map_eraseData, publicMethodsT_erase]

theorem methodAt_notFound_iff {t : TableT} {c : ClassDecl} (hc : lookupClass t.erase.classes c.name = some c) (m : Name) :
    methodAt t c m = .notFound ↔ methodSlice (methodTable c) m = [] := by
  obtain ⟨d, hd, he⟩ := handle_typed hc
  unfold methodAt
  rw [hd]
  simp only
  rw [← he, ← methodSlice_erase]
  cases hs : methodSlice (methodTableT d) m with
  | nil => simp
  | cons x xs =>
    simp only [List.map_cons, reduceCtorEq, iff_false]
    cases resolveAll t.erase d.erase ((x :: xs).flatMap methodTypes) <;> simp

theorem methodAt_found {t : TableT} {c : ClassDecl} {m : Name} {r : ClassDecl × List MethodData}
    (h : methodAt t c m = .found r) :
    r.1 = c ∧ ∃ d, lookupClassT t.classes c.name = some d ∧ r.2 = methodSlice (methodTableT d) m ∧ r.2 ≠ [] := by
  unfold methodAt at h
  split at h
  · cases h
  · next d hd =>
    split at h
    · cases h
    · next ms hne =>
      split at h
      · cases h; exact ⟨rfl, d, hd, rfl, fun h0 => hne h0⟩
      · cases h

/-! ### the default types always resolve: the typed model extends the untyped one -/

theorem resolveHead_builtin (t : Table) (d : ClassDecl) {n : Name} (hn : n ∈ builtinNames) :
    ∃ s, resolveHead t d n = some s := by
  unfold resolveHead
  cases Repaired.getType t d n with
  | found x => exact ⟨_, rfl⟩
  | notFound =>
    simp only
    cases lookupClass t.classes n with
    | some c => exact ⟨_, rfl⟩
    | none => simp [hn]
  | error e =>
    simp only
    cases lookupClass t.classes n with
    | some c => exact ⟨_, rfl⟩
    | none => simp [hn]

theorem resolve_int (t : Table) (d : ClassDecl) : resolveTypeExpr t d .int = .ok () := by
  obtain ⟨s, hs⟩ := resolveHead_builtin t d (n := "int") (by decide)
  simp [TypeExpr.int, resolveTypeExpr, resolveNamed, hs, resolveTail]

theorem resolve_void (t : Table) (d : ClassDecl) : resolveTypeExpr t d .void = .ok () := by
  obtain ⟨s, hs⟩ := resolveHead_builtin t d (n := "void") (by decide)
  simp [TypeExpr.void, resolveTypeExpr, resolveNamed, hs, resolveTail]

/-! ### the typed model extends the untyped one -/

theorem lookupClassT_mem {cs : List ClassDeclT} {n : Name} {d : ClassDeclT} (h : lookupClassT cs n = some d) : d ∈ cs := by
  induction cs with
  | nil => cases h
  | cons x xs ih =>
    simp only [lookupClassT] at h
    cases hx : lookupClassT xs n with
    | some y => rw [hx] at h; cases h; exact List.mem_cons_of_mem _ (ih hx)
    | none =>
      rw [hx] at h
      simp only at h
      split at h
      · cases h; exact List.mem_cons_self
      · cases h

theorem fmi_congr {α : Type} {f g : ClassDecl → Lookup α} {l : List Item} (h : ∀ d, .ok d ∈ l → f d = g d)
    (fe : Option TypeMapError) : Repaired.findMapItems f l fe = Repaired.findMapItems g l fe := by
  induction l generalizing fe with
  | nil => cases fe <;> rfl
  | cons i rest ih =>
    have hrest : ∀ d, Item.ok d ∈ rest → f d = g d := fun d hd => h d (List.mem_cons_of_mem _ hd)
    cases i with
    | err e =>
      cases fe with
      | none => simp only [Repaired.findMapItems]; exact ih hrest _
      | some e0 => simp only [Repaired.findMapItems]; exact ih hrest _
    | ok c =>
      simp only [Repaired.findMapItems, h c List.mem_cons_self]
      cases g c with
      | notFound => exact ih hrest _
      | found x => rfl
      | error e => rfl

/-- two per-class look-ups that agree on every class obtained by name give the same search result -/
theorem fmsb_congr {α : Type} {t : Table} {self : ClassDecl} {f g : ClassDecl → Lookup α}
    (hs : lookupClass t.classes self.name = some self)
    (h : ∀ d, lookupClass t.classes d.name = some d → f d = g d) :
    Repaired.findMapSelfAndBaseClasses t self f = Repaired.findMapSelfAndBaseClasses t self g := by
  rw [Repaired.fmsb_eq, Repaired.fmsb_eq, h self hs]
  cases g self with
  | notFound =>
    exact fmi_congr (fun d hd => h d (run_ok_handle (baseClasses_run t self) d hd)) none
  | found x => rfl
  | error e => rfl

/-- every property of the table has the default type `int` -/
def DefaultPropTypes (t : TableT) : Prop := ∀ d ∈ t.classes, ∀ p ∈ d.props, p.ty = .int

/-- with the default property types the typed look-up IS the untyped one: the theorems about
    `Repaired.getProperty` speak about what the driver answers -/
theorem getProperty_default {t : TableT} (hdef : DefaultPropTypes t) {self : ClassDecl}
    (hs : lookupClass t.erase.classes self.name = some self) (p : Name) :
    Typed.getProperty t self p = Repaired.getProperty t.erase self p := by
  unfold Typed.getProperty Repaired.getProperty
  refine fmsb_congr hs (fun x hx => ?_)
  obtain ⟨d, hd, he⟩ := handle_typed hx
  unfold propAt Repaired.getPropertyNoSuper
  rw [hd, Repaired.resolveMemberType_found]
  simp only
  have hiff := lookupProp_isSome_iff d p
  rw [he] at hiff
  cases hp : lookupProp d.props p with
  | none =>
    rw [hp] at hiff
    have : p ∉ x.props := fun hm => by simpa using hiff.mpr hm
    simp [this]
  | some pd =>
    rw [hp] at hiff
    have hm : p ∈ x.props := hiff.mp rfl
    have hty : pd.ty = .int := hdef d (lookupClassT_mem hd) pd (lookupProp_some hp).1
    simp only [hty, resolve_int, hm, if_true]

/-! ### the deciding class, in terms of the specification's graph -/
section spec
open QV.Spec.Graph

theorem classOf_name {g : Graph} {n : String} {d : Node} (h : classOf g n = some d) : d.name = n := by
  induction g with
  | nil => cases h
  | cons x xs ih =>
    simp only [classOf] at h
    cases hx : classOf xs n with
    | some y => rw [hx] at h; cases h; exact ih hx
    | none =>
      rw [hx] at h
      simp only at h
      split at h
      · next hn => cases h; exact hn
      · cases h

theorem cutNode_name (P : String → Bool) (d : Node) : (cutNode P d).name = d.name := by
  unfold cutNode; split <;> rfl

theorem classOf_cut (g : Graph) (P : String → Bool) (n : String) :
    classOf (cut g P) n = (classOf g n).map (cutNode P) := by
  induction g with
  | nil => rfl
  | cons x xs ih =>
    have ih' : classOf (List.map (cutNode P) xs) n = (classOf xs n).map (cutNode P) := ih
    simp only [cut, List.map_cons, classOf, ih']
    cases classOf xs n with
    | some y => rfl
    | none =>
      simp only [Option.map_none]
      rw [cutNode_name]
      split <;> rfl

theorem isClass_cut {g : Graph} {P : String → Bool} {n : String} : IsClass (cut g P) n ↔ IsClass g n := by
  unfold IsClass
  rw [classOf_cut]
  cases classOf g n <;> simp

/-- an edge out of a class that does not satisfy `P` survives the cut -/
theorem edge_cut {g : Graph} {P : String → Bool} {a b : String} (h : Edge g a b) (hp : P a = false) :
    Edge (cut g P) a b := by
  obtain ⟨d, hd, hb, hc⟩ := h
  refine ⟨cutNode P d, by rw [classOf_cut, hd]; rfl, ?_, isClass_cut.mpr hc⟩
  have hn : d.name = a := classOf_name hd
  unfold cutNode
  rw [hn, hp]
  exact hb

/-- the cut graph has no edges of its own -/
theorem edge_of_cut {g : Graph} {P : String → Bool} {a b : String} (h : Edge (cut g P) a b) : Edge g a b := by
  obtain ⟨d, hd, hb, hc⟩ := h
  rw [classOf_cut] at hd
  cases hx : classOf g a with
  | none => rw [hx] at hd; cases hd
  | some x =>
    rw [hx] at hd
    simp only [Option.map_some, Option.some.injEq] at hd
    refine ⟨x, hx, ?_, isClass_cut.mp hc⟩
    rw [← hd] at hb
    unfold cutNode at hb
    split at hb
    · cases hb
    · exact hb

theorem derives_of_cut {g : Graph} {P : String → Bool} {a b : String} (h : Derives (cut g P) a b) : Derives g a b := by
  induction h with
  | refl => exact .refl _
  | step he _ ih => exact .step (edge_of_cut he) ih

/-- a class that satisfies `P` decides for itself only -/
theorem decides_self {g : Graph} {P : String → Bool} {c d : String} (hc : P c = true) (h : Decides g P c d) : d = c := by
  obtain ⟨hd, _⟩ := h
  cases hd with
  | refl => rfl
  | step he _ =>
    obtain ⟨x, hx, hb, _⟩ := he
    rw [classOf_cut] at hx
    cases hy : classOf g c with
    | none => rw [hy] at hx; cases hx
    | some y =>
      rw [hy] at hx
      simp only [Option.map_some, Option.some.injEq] at hx
      rw [← hx] at hb
      unfold cutNode at hb
      rw [classOf_name hy, hc] at hb
      cases hb

/-- a path on which no class before the last answers `f` is a path of the graph cut at the classes that answer -/
theorem unhidden_derives_cut {α : Type} {t : Table} {f : ClassDecl → Lookup α} {P : String → Bool} {a d : ClassDecl}
    (hP : ∀ x, lookupClass t.classes x.name = some x → (f x = .notFound ↔ P x.name = false))
    (ha : lookupClass t.classes a.name = some a) (h : Unhidden t f a d) :
    Derives (cut (toGraph t) P) a.name d.name := by
  induction h with
  | refl => exact .refl _
  | @snoc b c hab hfb hs ih =>
    have hb := reach_handle hab.reach ha
    obtain ⟨n, hn, hl⟩ := hs
    have hc := lookupClass_self hl
    have hname := lookupClass_name hl
    have hedge : Edge (toGraph t) b.name c.name :=
      ⟨nodeOf b, classOf_handle hb, by rw [hname]; exact hn, isClass_iff.mpr ⟨c, hc⟩⟩
    exact QV.Proofs.ClassGraph.Derives.trans ih (.step (edge_cut hedge ((hP b hb).mp hfb)) (.refl _))

end spec

end QV.Proofs.ClassGraph.Typed
