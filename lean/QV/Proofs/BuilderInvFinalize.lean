/-
  C06, the builder for ALL programs — part 5: `finalize_completion_values` (tir/core.rs as modelled in QV.Model.Finalize).
    * it only REPLACES terminators, by `return`s and `unreachable` markers: no jump is added, no block stays open
      that was closed, the start block is closed;
    * the graph theorem (the territory of findings F1 and F17): when it finishes without panic, a block that carries
      the `unreachable` marker has NO incoming edge at all and is not the entry block — so no execution reaches it.
-/
import QV.Model.Finalize
import QV.Proofs.BuilderInvStmt
import QV.Proofs.Cfg

set_option linter.unusedSimpArgs false
set_option linter.unusedVariables false

namespace QV.Proofs.BuilderInv
open QV.Model QV.Model.Cfg

/-- terminator of block `i` of a block list -/
def tL (blocks : List BasicBlock) (i : Nat) : Option Terminator := (blocks[i]?).bind (·.terminator)

theorem termOf_eq_tL (b : Builder) (i : Nat) : termOf b i = tL b.code.blocks i := rfl

@[simp] theorem length_setBlock (blocks : List BasicBlock) (i : Nat) (nb : BasicBlock) :
    (setBlock blocks i nb).length = blocks.length := by simp [setBlock]

theorem tL_setBlock (blocks : List BasicBlock) (i : Nat) (nb : BasicBlock) (j : Nat) :
    tL (setBlock blocks i nb) j = if j = i ∧ i < blocks.length then nb.terminator else tL blocks j := by
  unfold tL setBlock
  by_cases hj : j = i
  · subst hj
    by_cases hlt : j < blocks.length
    · simp [hlt]
    · simp [hlt, List.getElem?_eq_none (Nat.le_of_not_lt hlt)]
  · simp [hj, List.getElem?_set_ne (Ne.symm hj)]

theorem tL_some_lt {blocks : List BasicBlock} {i : Nat} {t : Terminator} (h : tL blocks i = some t) : i < blocks.length := by
  unfold tL at h
  cases hb : blocks[i]? with
  | none => simp [hb] at h
  | some blk => exact (List.getElem?_eq_some_iff.1 hb).1

/-- a terminator installed by the finalisation -/
def IsFinal : Option Terminator → Prop
  | some (.ret _) => True
  | some .unreachable => True
  | _ => False

/-- what the loop never does: it keeps the number of blocks, changes terminators only into `return`/`unreachable`,
    and leaves no closed block open -/
theorem loop_keeps (reachable : List Bool) : ∀ (fuel : Nat) (stack : List Nat) (incoming : List (List Nat))
    (blocks : List BasicBlock) (panic : Option String),
    (finalizeLoop reachable fuel stack incoming blocks panic).1.length = blocks.length ∧
    ∀ j, (tL (finalizeLoop reachable fuel stack incoming blocks panic).1 j = tL blocks j ∨
          IsFinal (tL (finalizeLoop reachable fuel stack incoming blocks panic).1 j)) ∧
         ((tL blocks j).isSome → (tL (finalizeLoop reachable fuel stack incoming blocks panic).1 j).isSome)
  | 0, stack, incoming, blocks, panic => by
    simp [finalizeLoop]
  | fuel + 1, stack, incoming, blocks, panic => by
    simp only [finalizeLoop]
    cases hs : stack.getLast? with
    | none => simp
    | some i =>
      simp only
      cases hb : blocks[i]? with
      | none => simp
      | some b =>
        simp only
        have hi : i < blocks.length := (List.getElem?_eq_some_iff.1 hb).1
        -- one step replaces the terminator of block i by a final one
        have step : ∀ (nb : BasicBlock) (st' : List Nat) (inc' : List (List Nat)) (p' : Option String),
            IsFinal nb.terminator →
            (finalizeLoop reachable fuel st' inc' (setBlock blocks i nb) p').1.length = blocks.length ∧
            ∀ j, (tL (finalizeLoop reachable fuel st' inc' (setBlock blocks i nb) p').1 j = tL blocks j ∨
                  IsFinal (tL (finalizeLoop reachable fuel st' inc' (setBlock blocks i nb) p').1 j)) ∧
                 ((tL blocks j).isSome → (tL (finalizeLoop reachable fuel st' inc' (setBlock blocks i nb) p').1 j).isSome) := by
          intro nb st' inc' p' hfin
          obtain ⟨h1, h2⟩ := loop_keeps reachable fuel st' inc' (setBlock blocks i nb) p'
          refine ⟨by rw [h1]; simp, fun j => ?_⟩
          obtain ⟨h3, h4⟩ := h2 j
          rw [tL_setBlock] at h3 h4
          by_cases hj : j = i ∧ i < blocks.length
          · obtain ⟨rfl, hlt⟩ := hj
            simp only [hlt, and_self, if_true] at h3 h4
            have hsome : nb.terminator.isSome := by
              cases ht : nb.terminator with
              | none => simp [ht, IsFinal] at hfin
              | some t => rfl
            refine ⟨Or.inr ?_, fun _ => h4 hsome⟩
            rcases h3 with h3 | h3
            · rw [h3]; exact hfin
            · exact h3
          · simp only [hj, if_false] at h3 h4
            exact ⟨h3, h4⟩
        cases hcv : b.completionValue with
        | some a => simp only; exact step _ _ _ _ (by simp [IsFinal])
        | none =>
          simp only
          split
          · exact step _ _ _ _ (by simp only []; split <;> simp [IsFinal])
          · exact step _ _ _ _ (by simp only []; split <;> simp [IsFinal])

/-- the block on top of the stack is closed by the loop -/
theorem loop_closes_top (reachable : List Bool) (fuel : Nat) (stack : List Nat) (incoming : List (List Nat))
    (blocks : List BasicBlock) (panic : Option String) (i : Nat) (hs : stack.getLast? = some i) (hi : i < blocks.length) :
    (tL (finalizeLoop reachable (fuel + 1) stack incoming blocks panic).1 i).isSome := by
  simp only [finalizeLoop, hs]
  have hb : blocks[i]? = some blocks[i] := List.getElem?_eq_getElem hi
  simp only [hb]
  have step : ∀ (nb : BasicBlock) (st' : List Nat) (inc' : List (List Nat)) (p' : Option String), nb.terminator.isSome →
      (tL (finalizeLoop reachable fuel st' inc' (setBlock blocks i nb) p').1 i).isSome := by
    intro nb st' inc' p' hsome
    apply ((loop_keeps reachable fuel st' inc' (setBlock blocks i nb) p').2 i).2
    rw [tL_setBlock]
    simp [hi, hsome]
  cases hcv : (blocks[i]).completionValue with
  | some a => simp only; exact step _ _ _ _ rfl
  | none =>
    simp only
    split
    · exact step _ _ _ _ rfl
    · exact step _ _ _ _ rfl


/-! ### the graph theorem -/

/-- invariant of the reverse-`br` walk -/
structure Q (reachable : List Bool) (stack : List Nat) (incoming : List (List Nat)) (blocks : List BasicBlock) : Prop where
  brEdge : ∀ j i, tL blocks j = some (.br i) → j ∈ stack ∨ j ∈ incoming.getD i []
  condEdge : ∀ j c x y, tL blocks j = some (.brCond c x y) → reachable.getD x false = true ∧ reachable.getD y false = true
  unr : ∀ i, tL blocks i = some .unreachable → incoming.getD i [] = [] ∧ reachable.getD i false = false
  incLen : incoming.length = blocks.length

/-- a block marked `unreachable` is not the target of any jump and is not entered through a conditional branch or as
    the entry block -/
def NoEdgeIntoUnreachable (reachable : List Bool) (blocks : List BasicBlock) : Prop :=
  ∀ i, tL blocks i = some .unreachable → reachable.getD i false = false ∧ ∀ j, i ∉ successors (tL blocks j)

theorem Q.final {reachable : List Bool} {incoming : List (List Nat)} {blocks : List BasicBlock}
    (h : Q reachable [] incoming blocks) : NoEdgeIntoUnreachable reachable blocks := by
  intro i hi
  obtain ⟨h1, h2⟩ := h.unr i hi
  refine ⟨h2, fun j hj => ?_⟩
  cases ht : tL blocks j with
  | none => simp [ht, successors] at hj
  | some t =>
    cases t with
    | br k =>
      simp [ht, successors] at hj
      subst hj
      rcases h.brEdge j i ht with h3 | h3
      · simp at h3
      · rw [h1] at h3; simp at h3
    | brCond c x y =>
      simp [ht, successors] at hj
      have := h.condEdge j c x y ht
      rcases hj with rfl | rfl
      · rw [h2] at this; simp at this
      · rw [h2] at this; simp at this
    | ret a => simp [ht, successors] at hj
    | unreachable => simp [ht, successors] at hj

theorem mem_dropLast_of_ne : ∀ {l : List Nat} {i j : Nat}, l.getLast? = some i → j ∈ l → j ≠ i → j ∈ l.dropLast
  | [], i, j, hl, hj, hne => by simp at hj
  | [x], i, j, hl, hj, hne => by
    simp at hl hj
    subst hl; exact absurd hj hne
  | x :: y :: rest, i, j, hl, hj, hne => by
    have hl' : (y :: rest).getLast? = some i := by simpa [List.getLast?_cons_cons] using hl
    simp only [List.dropLast_cons_cons, List.mem_cons] at hj ⊢
    rcases hj with rfl | hj
    · exact Or.inl rfl
    · exact Or.inr (mem_dropLast_of_ne hl' (by simpa using hj) hne)

theorem getD_set_nil (incoming : List (List Nat)) (i k : Nat) :
    (incoming.set i []).getD k [] = if k = i then [] else incoming.getD k [] := by
  by_cases hk : k = i
  · subst hk
    simp only [if_true, List.getD_eq_getElem?_getD]
    by_cases hlt : k < incoming.length
    · simp [hlt]
    · simp [List.getElem?_eq_none (Nat.le_of_not_lt hlt), hlt]
  · simp [hk, List.getD_eq_getElem?_getD, List.getElem?_set_ne (Ne.symm hk)]

/-- one pop keeps the invariant -/
theorem Q.step {reachable : List Bool} {stack : List Nat} {incoming : List (List Nat)} {blocks : List BasicBlock}
    (h : Q reachable stack incoming blocks) {i : Nat} (hs : stack.getLast? = some i) {b : BasicBlock} (hb : blocks[i]? = some b)
    (nb : BasicBlock) (push : Bool)
    (hfin : (∃ a, nb.terminator = some (.ret a)) ∨
      (nb.terminator = some .unreachable ∧ push = true ∧ reachable.getD i false = false)) :
    Q reachable (if push then stack.dropLast ++ incoming.getD i [] else stack.dropLast)
      (if push then incoming.set i [] else incoming) (setBlock blocks i nb) := by
  have hi : i < blocks.length := (List.getElem?_eq_some_iff.1 hb).1
  have hnb_br : ∀ k, nb.terminator ≠ some (.br k) := by
    intro k hk
    rcases hfin with ⟨a, ha⟩ | ⟨ha, _⟩ <;> rw [ha] at hk <;> cases hk
  have hnb_cond : ∀ c x y, nb.terminator ≠ some (.brCond c x y) := by
    intro c x y hk
    rcases hfin with ⟨a, ha⟩ | ⟨ha, _⟩ <;> rw [ha] at hk <;> cases hk
  refine ⟨?_, ?_, ?_, ?_⟩
  · intro j k hjk
    rw [tL_setBlock] at hjk
    by_cases hj : j = i ∧ i < blocks.length
    · simp only [hj, and_self, if_true] at hjk
      exact absurd hjk (hnb_br k)
    · simp only [hj, if_false] at hjk
      have hne : j ≠ i := fun e => hj ⟨e, hi⟩
      rcases h.brEdge j k hjk with h1 | h1
      · have := mem_dropLast_of_ne hs h1 hne
        cases push <;> simp [this]
      · cases push with
        | false => exact Or.inr h1
        | true =>
          simp only [if_true, getD_set_nil]
          by_cases hk : k = i
          · subst hk; exact Or.inl (List.mem_append_right _ h1)
          · simp only [hk, if_false]; exact Or.inr h1
  · intro j c x y hj
    rw [tL_setBlock] at hj
    by_cases hji : j = i ∧ i < blocks.length
    · simp only [hji, and_self, if_true] at hj
      exact absurd hj (hnb_cond c x y)
    · simp only [hji, if_false] at hj
      exact h.condEdge j c x y hj
  · intro k hk
    rw [tL_setBlock] at hk
    by_cases hki : k = i ∧ i < blocks.length
    · simp only [hki, and_self, if_true] at hk
      rcases hfin with ⟨a, ha⟩ | ⟨ha, hp, hr⟩
      · rw [ha] at hk; cases hk
      · obtain ⟨rfl, _⟩ := hki
        subst hp
        simp only [if_true, getD_set_nil]
        exact ⟨trivial, hr⟩
    · simp only [hki, if_false] at hk
      obtain ⟨h1, h2⟩ := h.unr k hk
      refine ⟨?_, h2⟩
      cases push with
      | false => exact h1
      | true =>
        simp only [if_true, getD_set_nil]
        split
        · rfl
        · exact h1
  · cases push <;> simp [h.incLen]

theorem Q.step_push {reachable : List Bool} {stack : List Nat} {incoming : List (List Nat)} {blocks : List BasicBlock}
    (h : Q reachable stack incoming blocks) {i : Nat} (hs : stack.getLast? = some i) {b : BasicBlock} (hb : blocks[i]? = some b)
    (nb : BasicBlock)
    (hfin : (∃ a, nb.terminator = some (.ret a)) ∨ (nb.terminator = some .unreachable ∧ reachable.getD i false = false)) :
    Q reachable (stack.dropLast ++ incoming.getD i []) (incoming.set i []) (setBlock blocks i nb) := by
  have := h.step hs hb nb true (by
    rcases hfin with h1 | ⟨h1, h2⟩
    · exact Or.inl h1
    · exact Or.inr ⟨h1, rfl, h2⟩)
  simpa using this

theorem Q.step_nopush {reachable : List Bool} {stack : List Nat} {incoming : List (List Nat)} {blocks : List BasicBlock}
    (h : Q reachable stack incoming blocks) {i : Nat} (hs : stack.getLast? = some i) {b : BasicBlock} (hb : blocks[i]? = some b)
    (nb : BasicBlock) (hfin : ∃ a, nb.terminator = some (.ret a)) :
    Q reachable stack.dropLast incoming (setBlock blocks i nb) := by
  have := h.step hs hb nb false (Or.inl hfin)
  simpa using this

theorem or_some_ne_none (p : Option String) (m : String) : p.or (some m) ≠ none := by
  cases p <;> simp

/-- **the graph theorem for the loop** -/
theorem loop_graph (reachable : List Bool) : ∀ (fuel : Nat) (stack : List Nat) (incoming : List (List Nat))
    (blocks : List BasicBlock) (panic : Option String), Q reachable stack incoming blocks →
    (finalizeLoop reachable fuel stack incoming blocks panic).2 = none →
    NoEdgeIntoUnreachable reachable (finalizeLoop reachable fuel stack incoming blocks panic).1
  | 0, stack, incoming, blocks, panic, hq, hp => by
    simp only [finalizeLoop] at hp ⊢
    cases stack with
    | nil => exact hq.final
    | cons x xs => simp at hp
  | fuel + 1, stack, incoming, blocks, panic, hq, hp => by
    simp only [finalizeLoop] at hp ⊢
    cases hs : stack.getLast? with
    | none =>
      simp only [hs] at hp ⊢
      have : stack = [] := by simpa using hs
      subst this
      exact hq.final
    | some i =>
      simp only [hs] at hp ⊢
      cases hb : blocks[i]? with
      | none => simp only [hb] at hp; exact absurd hp (or_some_ne_none _ _)
      | some b =>
        simp only [hb] at hp ⊢
        cases hcv : b.completionValue with
        | some a =>
          simp only [hcv] at hp ⊢
          exact loop_graph reachable fuel _ _ _ _ (hq.step_nopush hs hb _ ⟨a, rfl⟩) hp
        | none =>
          simp only [hcv] at hp ⊢
          by_cases hem : b.statements.isEmpty = true
          · simp only [hem, if_true] at hp ⊢
            refine loop_graph reachable fuel _ _ _ _ (hq.step_push hs hb _ ?_) hp
            cases hr : reachable.getD i false with
            | true => left; exact ⟨.void, by simp⟩
            | false => right; exact ⟨by simp, rfl⟩
          · have hne : b.statements.isEmpty = false := by simpa using hem
            simp only [hne, Bool.false_eq_true, if_false] at hp ⊢
            exact loop_graph reachable fuel _ _ _ _ (hq.step_nopush hs hb _ ⟨.void, by simp⟩) hp


/-! ### `finalize_completion_values` on the output of the walk -/

/-- what the walk guarantees about the blocks it hands to the finalisation -/
structure WalkOut (blocks : List BasicBlock) : Prop where
  pos : 0 < blocks.length
  valid : ∀ j t, tL blocks j = some t → ValidTerm blocks.length t
  closed : ∀ j, j + 1 < blocks.length → (tL blocks j).isSome

theorem walkOut_of_walk (c : Ctx) (callback : Bool) (p : Program) (st : WState)
    (h : (walkProgram c callback p).run {} = (some (), st)) : WalkOut st.b.code.blocks := by
  obtain ⟨hinv, hcl⟩ := walk_result c callback p st h
  exact ⟨hinv.pos, fun j t ht => hinv.tgt j t ht, fun j hj => hcl j hj⟩

/-- the three facts about the finalised blocks -/
structure FinOut (blocks : List BasicBlock) (panic : Option String) : Prop where
  targets : ∀ j t, tL blocks j = some t → ∀ k ∈ successors (some t), k < blocks.length
  closed : ∀ j, j < blocks.length → (tL blocks j).isSome
  noEdge : panic = none → ∀ i, tL blocks i = some .unreachable → i ≠ 0 ∧ ∀ j, i ∉ successors (tL blocks j)
  pos : 0 < blocks.length

theorem isFinal_targets {t : Terminator} (h : IsFinal (some t)) : ∀ k ∈ successors (some t), k < 0 := by
  cases t <;> simp [IsFinal, successors] at h ⊢

theorem finalize_out (code : CodeBody) (hw : WalkOut code.blocks) :
    FinOut (finalizeCompletionValues code (code.blocks.length - 1)).1.blocks
      (finalizeCompletionValues code (code.blocks.length - 1)).2 := by
  have hn := hw.pos
  have hstart : code.blocks.length - 1 < code.blocks.length := by omega
  have hb : code.blocks[code.blocks.length - 1]? = some code.blocks[code.blocks.length - 1] := List.getElem?_eq_getElem hstart
  unfold finalizeCompletionValues
  simp only [hb]
  cases hcv : (code.blocks[code.blocks.length - 1]).completionValue with
  | some a =>
    simp only
    refine ⟨?_, ?_, ?_, by simpa using hn⟩
    · intro j t ht k hk
      rw [tL_setBlock] at ht
      simp only [length_setBlock]
      split at ht
      · simp at ht; subst ht; simp [successors] at hk
      · exact (hw.valid j t ht).1 k hk
    · intro j hj
      rw [tL_setBlock]
      simp only [length_setBlock] at hj
      by_cases hjs : j = code.blocks.length - 1
      · simp [hjs, hstart]
      · simp only [hjs, false_and, if_false]
        exact hw.closed j (by omega)
    · intro _ i hi
      rw [tL_setBlock] at hi
      split at hi
      · simp at hi
      · exact absurd rfl ((hw.valid i _ hi).2)
  | none =>
    simp only
    generalize hinc : ((List.range code.blocks.length).map fun l =>
        (List.range code.blocks.length).filter fun i =>
          match code.blocks[i]? with
          | some b => b.terminator = some (.br l)
          | none => false) = incoming
    generalize hre : ((List.range code.blocks.length).map fun l =>
        l = 0 || code.blocks.any fun b =>
          match b.terminator with
          | some (.brCond _ x y) => x = l || y = l
          | _ => false) = reachable
    generalize hp0 : (if (code.blocks[code.blocks.length - 1]).terminator.isSome then some "assert!(start_block.terminator.is_none())" else none) = panic0
    -- the producers of the two maps
    have hincoming : ∀ j i, tL code.blocks j = some (.br i) → j ∈ incoming.getD i [] := by
      intro j i hji
      have hj := tL_some_lt hji
      have hi : i < code.blocks.length := (hw.valid j _ hji).1 i (by simp [successors])
      rw [← hinc, List.getD_eq_getElem?_getD, List.getElem?_map, List.getElem?_range hi]
      simp only [Option.map_some, Option.getD_some, List.mem_filter, List.mem_range]
      refine ⟨hj, ?_⟩
      unfold tL at hji
      cases hbj : code.blocks[j]? with
      | none => simp [hbj] at hji
      | some bj => simp [hbj] at hji ⊢; exact hji
    have hreach : ∀ j c x y, tL code.blocks j = some (.brCond c x y) → reachable.getD x false = true ∧ reachable.getD y false = true := by
      intro j c x y hj
      have hv := (hw.valid j _ hj).1
      have hx : x < code.blocks.length := hv x (by simp [successors])
      have hy : y < code.blocks.length := hv y (by simp [successors])
      have hmem : ∃ bj ∈ code.blocks, bj.terminator = some (.brCond c x y) := by
        unfold tL at hj
        cases hbj : code.blocks[j]? with
        | none => simp [hbj] at hj
        | some bj => simp [hbj] at hj; exact ⟨bj, List.mem_of_getElem? hbj, hj⟩
      obtain ⟨bj, hbm, hbt⟩ := hmem
      constructor
      · rw [← hre, List.getD_eq_getElem?_getD, List.getElem?_map, List.getElem?_range hx]
        simp only [Option.map_some, Option.getD_some, Bool.or_eq_true, decide_eq_true_eq, List.any_eq_true]
        exact Or.inr ⟨bj, hbm, by simp [hbt]⟩
      · rw [← hre, List.getD_eq_getElem?_getD, List.getElem?_map, List.getElem?_range hy]
        simp only [Option.map_some, Option.getD_some, Bool.or_eq_true, decide_eq_true_eq, List.any_eq_true]
        exact Or.inr ⟨bj, hbm, by simp [hbt]⟩
    have hreach0 : reachable.getD 0 false = true := by
      rw [← hre, List.getD_eq_getElem?_getD, List.getElem?_map, List.getElem?_range hn]
      simp
    have hq : Q reachable [code.blocks.length - 1] incoming code.blocks :=
      ⟨fun j i h => Or.inr (hincoming j i h), hreach, fun i hi => absurd rfl ((hw.valid i _ hi).2), by rw [← hinc]; simp⟩
    obtain ⟨hlen, hkeep⟩ := loop_keeps reachable (code.blocks.length + 1) [code.blocks.length - 1] incoming code.blocks panic0
    have htop := loop_closes_top reachable code.blocks.length [code.blocks.length - 1] incoming code.blocks panic0
      (code.blocks.length - 1) (by simp) hstart
    generalize hres : finalizeLoop reachable (code.blocks.length + 1) [code.blocks.length - 1] incoming code.blocks panic0 = res
      at hlen hkeep htop
    have hgraph := loop_graph reachable (code.blocks.length + 1) [code.blocks.length - 1] incoming code.blocks panic0 hq
    rw [hres] at hgraph
    rcases res with ⟨blocks', panic'⟩
    simp only at hlen hkeep htop hgraph ⊢
    refine ⟨?_, ?_, ?_, by rw [hlen]; exact hn⟩
    · intro j t ht k hk
      rw [hlen]
      rcases (hkeep j).1 with h1 | h1
      · rw [h1] at ht; exact (hw.valid j t ht).1 k hk
      · rw [ht] at h1; exact absurd (isFinal_targets h1 k hk) (Nat.not_lt_zero _)
    · intro j hj
      rw [hlen] at hj
      by_cases hjs : j = code.blocks.length - 1
      · rw [hjs]; exact htop
      · exact (hkeep j).2 (hw.closed j (by omega))
    · intro hpn i hi
      obtain ⟨h1, h2⟩ := hgraph hpn i hi
      refine ⟨fun h0 => ?_, h2⟩
      rw [h0, hreach0] at h1
      cases h1

/-! ### `Reaches` -/

theorem reaches_cases {c : CodeBody} {i : Nat} {A : List Nat} (h : QV.Proofs.Cfg.Reaches c i A) :
    i = 0 ∨ ∃ j, i ∈ successors (tL c.blocks j) := by
  cases h with
  | entry => exact Or.inl rfl
  | step hr hb hj =>
    rename_i j0 A0 b0
    exact Or.inr ⟨j0, by unfold tL; rw [hb]; exact hj⟩

end QV.Proofs.BuilderInv
