/-
  Framework for the CFG-level induction over the AST walk (QV.Props.C01: ternary, `&&`/`||`, let/const):
    * `runAt` — execution of the IR from a POSITION (block, statement index);
    * `Ext` / `Walked` — what a walk may do to the builder: blocks below its entry block are untouched, the entry block
      only grows, (for a complete expression walk) every block from the entry block up to the exit block is terminated and
      the exit block — the current one — is open;
    * `Covers C b lo` — a final code `C` contains the blocks `lo … current-1` of `b` unchanged and extends the open
      current block and the locals of `b`: the form in which "frozen blocks are immutable, unfrozen blocks only grow,
      a walk touches only blocks ≥ its entry block" (DESIGN §2.2) is used by the simulation.
-/
import QV.Proofs.SemWalk

namespace QV.Proofs.SemCfg
open QV.Model QV.Model.IrSem QV.Proofs.SemIr QV.Proofs.SemVisit QV.Proofs.SemWalk
open QV.Spec.Sem (Val World Host Ev Ty STy coerceTo binop unop)

/-! ### execution from a position -/

/-- what happens after the statements of a block: its terminator; successors run with `fuel` -/
def afterBlock (c : ICtx) (code : CodeBody) (fuel : Nat) (b : BasicBlock) (st : State) : Option (Val × State) :=
  match b.terminator with
  | some (.ret a) => (evalOperand c st.L a).map fun v => (v, st)
  | some (.br j) => runFrom c code fuel j st
  | some (.brCond cnd t f) =>
    (match evalOperand c st.L cnd with
     | some (.bool true) => runFrom c code fuel t st
     | some (.bool false) => runFrom c code fuel f st
     | _ => none)
  | some .unreachable => none
  | none => none

/-- run block `i` from its statement index `k` -/
def runAt (c : ICtx) (code : CodeBody) (fuel i k : Nat) (st : State) : Option (Val × State) :=
  match code.blocks[i]? with
  | none => none
  | some b =>
    match execStatements c code.locals (b.statements.drop k) st with
    | none => none
    | some st' => afterBlock c code fuel b st'

theorem runFrom_eq_runAt (c : ICtx) (code : CodeBody) (fuel i : Nat) (st : State) :
    runFrom c code (fuel + 1) i st = runAt c code fuel i 0 st := by
  simp only [runFrom, runAt, List.drop_zero]
  cases code.blocks[i]? with
  | none => rfl
  | some b =>
    simp only
    cases execStatements c code.locals b.statements st with
    | none => rfl
    | some st' =>
      simp only [afterBlock]
      cases b.terminator with
      | none => rfl
      | some t => cases t <;> rfl

/-- executing `ss`, the statements of block `i` at positions `k … k+|ss|-1`, moves the position -/
theorem runAt_stmts (c : ICtx) (code : CodeBody) (fuel i k : Nat) (b : BasicBlock) (ss : List Statement)
    (st st1 : State) (hb : code.blocks[i]? = some b)
    (hss : ∃ rest, b.statements.drop k = ss ++ rest)
    (he : execStatements c code.locals ss st = some st1) :
    runAt c code fuel i k st = runAt c code fuel i (k + ss.length) st1 := by
  obtain ⟨rest, hr⟩ := hss
  have hdrop : b.statements.drop (k + ss.length) = rest := by
    rw [← List.drop_drop, hr, List.drop_left]
  simp only [runAt, hb, hr, hdrop, execStatements_append, he, Option.bind_some]

/-- at the end of a block that branches unconditionally -/
theorem runAt_br (c : ICtx) (code : CodeBody) (fuel i k j : Nat) (b : BasicBlock) (st : State)
    (hb : code.blocks[i]? = some b) (hk : b.statements.length ≤ k) (ht : b.terminator = some (.br j)) :
    runAt c code (fuel + 1) i k st = runAt c code fuel j 0 st := by
  simp only [runAt, hb, List.drop_eq_nil_of_le hk, execStatements, afterBlock, ht]
  exact runFrom_eq_runAt c code fuel j st

/-- at the end of a block that branches on a condition -/
theorem runAt_brCond (c : ICtx) (code : CodeBody) (fuel i k t f : Nat) (b : BasicBlock) (cnd : Operand) (st : State)
    (x : Bool) (hb : code.blocks[i]? = some b) (hk : b.statements.length ≤ k)
    (ht : b.terminator = some (.brCond cnd t f)) (hx : evalOperand c st.L cnd = some (.bool x)) :
    runAt c code (fuel + 1) i k st = runAt c code fuel (if x then t else f) 0 st := by
  have h0 : runAt c code (fuel + 1) i k st = afterBlock c code (fuel + 1) b st := by
    simp only [runAt, hb, List.drop_eq_nil_of_le hk, execStatements]
  rw [h0]
  simp only [afterBlock, ht, hx]
  cases x
  · exact runFrom_eq_runAt c code fuel f st
  · exact runFrom_eq_runAt c code fuel t st

/-- at the end of a block that returns -/
theorem runAt_ret (c : ICtx) (code : CodeBody) (fuel i k : Nat) (b : BasicBlock) (a : Operand) (st : State)
    (hb : code.blocks[i]? = some b) (hk : b.statements.length ≤ k) (ht : b.terminator = some (.ret a)) :
    runAt c code fuel i k st = (evalOperand c st.L a).map fun v => (v, st) := by
  simp only [runAt, hb, List.drop_eq_nil_of_le hk, execStatements, afterBlock, ht]

/-! ### what a walk may do to the builder -/

/-- number of statements in the current block: the statement index of the builder's "cursor" -/
def curLen (b : Builder) : Nat :=
  match b.code.blocks[b.currentRef]? with
  | some blk => blk.statements.length
  | none => 0

/-- monotone extension: blocks below the entry block untouched, the entry block only grows, locals only grow -/
structure Ext (b b' : Builder) : Prop where
  panic : b'.panic = b.panic
  locals : ∃ tys, b'.code.locals = b.code.locals ++ tys
  params : b'.code.parameterCount = b.code.parameterCount
  len : b.code.blocks.length ≤ b'.code.blocks.length
  below : ∀ i, i < b.currentRef → b'.code.blocks[i]? = b.code.blocks[i]?
  entry : ∃ blk blk', b.code.blocks[b.currentRef]? = some blk ∧ blk.terminator = none ∧
    b'.code.blocks[b.currentRef]? = some blk' ∧ ∃ ss, blk'.statements = blk.statements ++ ss

theorem Ext.cur_le {b b' : Builder} (h : Ext b b') : b.currentRef ≤ b'.currentRef := by
  have := h.len
  simp only [Builder.currentRef]
  omega

theorem Ext.locals_le {b b' : Builder} (h : Ext b b') : b.code.locals.length ≤ b'.code.locals.length := by
  obtain ⟨tys, ht⟩ := h.locals
  rw [ht]; simp

theorem Ext.refl (b : Builder) (blk : BasicBlock) (ho : OpenAt b blk) : Ext b b :=
  ⟨rfl, ⟨[], by simp⟩, rfl, Nat.le_refl _, fun _ _ => rfl, blk, blk, ho.1, ho.2, ho.1, [], by simp⟩

theorem Ext.trans {b b1 b2 : Builder} (h1 : Ext b b1) (h2 : Ext b1 b2) : Ext b b2 := by
  obtain ⟨t1, hl1⟩ := h1.locals
  obtain ⟨t2, hl2⟩ := h2.locals
  obtain ⟨blk, blk1, hb, ht, hb1, ss1, hs1⟩ := h1.entry
  refine ⟨h2.panic.trans h1.panic, ⟨t1 ++ t2, by rw [hl2, hl1, List.append_assoc]⟩, h2.params.trans h1.params,
    Nat.le_trans h1.len h2.len, ?_, ?_⟩
  · intro i hi
    rw [h2.below i (Nat.lt_of_lt_of_le hi h1.cur_le), h1.below i hi]
  · rcases Nat.lt_or_ge b.currentRef b1.currentRef with hlt | hge
    · exact ⟨blk, blk1, hb, ht, by rw [h2.below _ hlt]; exact hb1, ss1, hs1⟩
    · have heq : b1.currentRef = b.currentRef := Nat.le_antisymm hge h1.cur_le
      obtain ⟨blk1', blk2, hb1', _, hb2, ss2, hs2⟩ := h2.entry
      rw [heq, hb1] at hb1'
      injection hb1' with hb1'
      subst hb1'
      exact ⟨blk, blk2, hb, ht, by rw [← heq]; exact hb2, ss1 ++ ss2, by rw [hs2, hs1, List.append_assoc]⟩

/-- a complete walk of an expression / statement list: additionally every block from the entry block up to the exit
    block is terminated, and the exit block — the current one — is open -/
structure Walked (b b' : Builder) : Prop extends Ext b b' where
  closed : ∀ i, b.currentRef ≤ i → i < b'.currentRef → ∃ bi, b'.code.blocks[i]? = some bi ∧ bi.terminator.isSome = true
  exitOpen : ∃ blkE, OpenAt b' blkE
  /-- an unconditional branch of a closed block does not go past the exit block (so that nothing the walk closed
      branches to a block added later: `finalize_completion_values` follows `br` edges backwards) -/
  brs : ∀ i, b.currentRef ≤ i → i < b'.currentRef → ∀ bi j, b'.code.blocks[i]? = some bi →
    bi.terminator = some (.br j) → j ≤ b'.currentRef

theorem Walked.trans {b b1 b2 : Builder} (h1 : Walked b b1) (h2 : Walked b1 b2) : Walked b b2 := by
  refine ⟨h1.toExt.trans h2.toExt, ?_, h2.exitOpen, ?_⟩
  · intro i hlo hhi
    rcases Nat.lt_or_ge i b1.currentRef with hlt | hge
    · obtain ⟨bi, hbi, hti⟩ := h1.closed i hlo hlt
      exact ⟨bi, by rw [h2.below i hlt]; exact hbi, hti⟩
    · exact h2.closed i hge hhi
  · intro i hlo hhi bi j hbi hbr
    rcases Nat.lt_or_ge i b1.currentRef with hlt | hge
    · rw [h2.below i hlt] at hbi
      exact Nat.le_trans (h1.brs i hlo hlt bi j hbi hbr) h2.cur_le
    · exact h2.brs i hge hhi bi j hbi hbr

/-- a walk that only appended statements to the open current block (`Grows`) -/
theorem Walked.of_grows {b b' : Builder} {ss : List Statement} (h : Grows b ss b') : Walked b b' := by
  obtain ⟨blk, hb, ht, hbl⟩ := h.blocks
  have hcur := h.currentRef
  refine ⟨⟨h.panic, h.locals, h.params, by rw [hbl]; simp, ?_, ?_⟩, ?_, h.open, ?_⟩
  · intro i hi
    rw [hbl, getElem?_set_ne' _ _ _ _ (by omega)]
  · exact ⟨blk, _, hb, ht, by rw [hbl]; exact getElem?_set_self' _ _ _ _ hb, ss, rfl⟩
  · intro i hlo hhi
    omega
  · intro i hlo hhi
    omega

theorem curLen_of_open {b : Builder} {blk : BasicBlock} (ho : OpenAt b blk) : curLen b = blk.statements.length := by
  simp [curLen, ho.1]

/-! ### final codes -/

/-- the final code `C` contains the blocks `lo … current-1` of `b` as they are, and extends the (open) current block
    and the locals of `b` -/
structure Covers (C : CodeBody) (b : Builder) (lo : Nat) : Prop where
  locals : b.code.locals <+: C.locals
  closed : ∀ i, lo ≤ i → i < b.currentRef → C.blocks[i]? = b.code.blocks[i]?
  exit : ∃ blkE bE, b.code.blocks[b.currentRef]? = some blkE ∧ C.blocks[b.currentRef]? = some bE ∧
    blkE.statements <+: bE.statements

theorem Covers.mono {C : CodeBody} {b : Builder} {lo lo' : Nat} (h : Covers C b lo) (hl : lo ≤ lo') : Covers C b lo' :=
  ⟨h.locals, fun i h1 h2 => h.closed i (Nat.le_trans hl h1) h2, h.exit⟩

/-- a final code that covers a later builder state covers the earlier one (from any `lo` not above the earlier
    state's current block) -/
theorem Covers.of_ext {C : CodeBody} {b1 b2 : Builder} {lo : Nat} (he : Ext b1 b2) (h : Covers C b2 lo)
    (hlo : lo ≤ b1.currentRef) : Covers C b1 lo := by
  obtain ⟨tys, ht⟩ := he.locals
  obtain ⟨blk1, blk2, hb1, _, hb2, ss, hss⟩ := he.entry
  have hloc : b1.code.locals <+: C.locals := by
    have := h.locals
    rw [ht] at this
    exact (List.prefix_append _ _).trans this
  refine ⟨hloc, ?_, ?_⟩
  · intro i h1 h2
    rw [h.closed i h1 (Nat.lt_of_lt_of_le h2 he.cur_le), he.below i h2]
  · rcases Nat.lt_or_ge b1.currentRef b2.currentRef with hlt | hge
    · refine ⟨blk1, blk2, hb1, ?_, ?_⟩
      · rw [h.closed _ hlo hlt]; exact hb2
      · rw [hss]; exact List.prefix_append _ _
    · have heq : b2.currentRef = b1.currentRef := Nat.le_antisymm hge he.cur_le
      obtain ⟨blkE, bE, hE, hC, hp⟩ := h.exit
      rw [heq, hb2] at hE
      injection hE with hE
      subst hE
      refine ⟨blk1, bE, hb1, by rw [← heq]; exact hC, ?_⟩
      rw [hss] at hp
      exact (List.prefix_append _ _).trans hp

end QV.Proofs.SemCfg
