/- Helper lemmas for C03 (constant folding): wrapping arithmetic facts. Core Lean only. -/
import QV.Model.Ceval
import QV.Spec.ConstSem
import QV.Model.Builder

namespace QV.Proofs.ConstFold
open QV.Model QV.Spec.ConstSem

theorem toU64_cast (x : Int) : ((toU64 x : Nat) : Int) = x % 18446744073709551616 := by
  unfold toU64
  exact Int.toNat_of_nonneg (Int.emod_nonneg _ (by decide))

theorem ofU64_cases (n : Nat) : (n < 9223372036854775808 ∧ ofU64 n = n) ∨ (¬ n < 9223372036854775808 ∧ ofU64 n = (n : Int) - 18446744073709551616) := by
  unfold ofU64
  by_cases h : n < 9223372036854775808
  · exact Or.inl ⟨h, by simp [h]⟩
  · exact Or.inr ⟨h, by simp [h]⟩

theorem wrap_of_representable (x : Int) (h : representable x = true) : wrapI64 x = x := by
  simp only [representable, Bool.and_eq_true, decide_eq_true_eq] at h
  unfold wrapI64
  have h2 := toU64_cast x
  have h3 : (x % 18446744073709551616) < 18446744073709551616 := Int.emod_lt_of_pos _ (by decide)
  have hd := Int.emod_def x 18446744073709551616
  generalize toU64 x = n at h2
  rcases ofU64_cases n with ⟨hlt, he⟩ | ⟨hlt, he⟩ <;> rw [he] <;> omega

theorem wrap_spec (x : Int) : ∃ k : Int, wrapI64 x = x - 18446744073709551616 * k ∧ representable (wrapI64 x) = true := by
  simp only [representable, Bool.and_eq_true, decide_eq_true_eq]
  unfold wrapI64
  have h2 := toU64_cast x
  have h3 : (x % 18446744073709551616) < 18446744073709551616 := Int.emod_lt_of_pos _ (by decide)
  have hd := Int.emod_def x 18446744073709551616
  generalize toU64 x = n at h2
  rcases ofU64_cases n with ⟨hlt, he⟩ | ⟨hlt, he⟩ <;> rw [he]
  · refine ⟨x / 18446744073709551616, ?_, ?_⟩ <;> omega
  · refine ⟨x / 18446744073709551616 + 1, ?_, ?_⟩ <;> omega

theorem pow_split (n : Nat) (hn : n < 64) : (2 : Int) ^ n * (2 : Int) ^ (64 - n) = 18446744073709551616 := by
  rw [← Int.pow_add]
  have : n + (64 - n) = 64 := by omega
  rw [this]; rfl

/-- the shift-back test of the repaired `<<` accepts exactly the representable products -/
theorem shl_check_iff (a : Int) (n : Nat) (hn : n < 64) :
    (wrapI64 (a * (2 : Int) ^ n) / (2 : Int) ^ n = a) ↔ representable (a * (2 : Int) ^ n) = true := by
  have hP : (0 : Int) < (2 : Int) ^ n := Int.pow_pos (by decide)
  have hQ : (0 : Int) < (2 : Int) ^ (64 - n) := Int.pow_pos (by decide)
  constructor
  · intro h
    obtain ⟨k, hk, hr⟩ := wrap_spec (a * (2 : Int) ^ n)
    rw [← pow_split n hn] at hk
    have hw : wrapI64 (a * (2 : Int) ^ n) = (2 : Int) ^ n * (a - (2 : Int) ^ (64 - n) * k) := by
      rw [hk, Int.mul_sub, Int.mul_comm a, Int.mul_assoc]
    rw [hw, Int.mul_ediv_cancel_left _ (Int.ne_of_gt hP)] at h
    have hz : (2 : Int) ^ (64 - n) * k = 0 := by omega
    have hk0 : k = 0 := by
      rcases Int.mul_eq_zero.mp hz with h' | h'
      · omega
      · exact h'
    rw [hk0] at hw
    simp at hw
    rw [hw, Int.mul_comm] at hr
    exact hr
  · intro h
    rw [wrap_of_representable _ h]
    exact Int.mul_ediv_cancel _ (Int.ne_of_gt hP)

theorem inI64_iff (v : Int) : inI64 v = representable v := by
  simp only [inI64, representable, i64Min, i64Max]
  have : (2 : Int) ^ 63 = 9223372036854775808 := by decide
  rw [this]
  by_cases h1 : -9223372036854775808 ≤ v <;> by_cases h2 : v ≤ 9223372036854775807 <;> simp [h1, h2] <;> omega

theorem checked_eq (v : Int) : checked v = if representable v then .ok (.integer v) else .error .integerOverflow := by
  simp [checked, inI64_iff]

def valOf : ConstantValue → Val
  | .bool b => .bool b
  | .integer v => .int v
  | .float v => .float v
  | .cstring s => .str s
  | .qstring s => .str s
  | .nullPointer => .null
  | .emptyList => .strList false []

theorem checked_cases (v : Int) :
    (representable v = true ∧ checked v = .ok (.integer v) ∧ intRes v = .val (.int v)) ∨
    (representable v = false ∧ checked v = .error .integerOverflow ∧ intRes v = .undefined "64-bit overflow") := by
  rw [checked_eq]
  unfold intRes
  by_cases h : representable v = true
  · exact Or.inl ⟨h, by simp [h], by simp [h]⟩
  · have h' : representable v = false := by simpa using h
    exact Or.inr ⟨h', by simp [h'], by simp [h']⟩

/-- integer arithmetic: a folded value is the mathematical one and fits 64 bits; an error means the value is
    undefined, with one over-rejection (`i64::MIN % -1`, value 0, refused by `checked_rem`) -/
theorem fold_int_arith (F : FloatOps) (tok : BinaryToken) (op : ArithOp) (htok : tok.toOp = some (.arith op))
    (a b : Int) (ha : representable a = true) :
    match evalBinaryArith F op (.integer a) (.integer b) with
    | .ok c => binInt tok a b = .val (valOf c)
    | .error _ => (∃ w, binInt tok a b = .undefined w) ∨ (tok = .rem ∧ a = i64Min ∧ b = -1) := by
  cases tok <;> simp [BinaryToken.toOp] at htok <;> subst htok
  · rcases checked_cases (a + b) with ⟨_, h1, h2⟩ | ⟨_, h1, h2⟩ <;> simp [evalBinaryArith, binInt, h1, h2, valOf]
  · rcases checked_cases (a - b) with ⟨_, h1, h2⟩ | ⟨_, h1, h2⟩ <;> simp [evalBinaryArith, binInt, h1, h2, valOf]
  · rcases checked_cases (a * b) with ⟨_, h1, h2⟩ | ⟨_, h1, h2⟩ <;> simp [evalBinaryArith, binInt, h1, h2, valOf]
  · by_cases hb : b = 0
    · simp [evalBinaryArith, binInt, hb]
    · rcases checked_cases (a.tdiv b) with ⟨_, h1, h2⟩ | ⟨_, h1, h2⟩ <;> simp [evalBinaryArith, binInt, h1, h2, valOf, hb]
  · by_cases hb : b = 0
    · simp [evalBinaryArith, binInt, hb]
    · by_cases hm : a = i64Min ∧ b = -1
      · simp [evalBinaryArith, binInt, hb, hm]
      · have hr : representable (a.tmod b) = true := by
          simp only [representable, Bool.and_eq_true, decide_eq_true_eq] at ha ⊢
          have h1 : (a.tmod b).natAbs ≤ a.natAbs := by
            rw [Int.natAbs_tmod]; exact Nat.mod_le _ _
          have h2 : 0 ≤ a → 0 ≤ a.tmod b := fun h => Int.tmod_nonneg b h
          have h3 : a ≤ 0 → a.tmod b ≤ 0 := by
            intro h
            have := Int.tmod_nonneg (a := -a) b (by omega)
            rw [Int.neg_tmod] at this
            omega
          omega
        simp [evalBinaryArith, binInt, hb, hm, intRes, hr, valOf]

theorem toU64_eq_bits64 (v : Int) : toU64 v = bits64 v := by
  have : (2 : Int) ^ 64 = 18446744073709551616 := by decide
  simp [toU64, bits64, this]

theorem ofU64_eq_ofBits64 (n : Nat) : ofU64 n = ofBits64 n := by
  have h1 : (2 : Int) ^ 64 = 18446744073709551616 := by decide
  have h2 : (2 : Nat) ^ 63 = 9223372036854775808 := by decide
  simp [ofU64, ofBits64, h1, h2]

theorem fold_int_bitwise (tok : BinaryToken) (op : BitOp) (htok : tok.toOp = some (.bitwise op)) (a b : Int) :
    ∃ c, evalBinaryBitwise op (.integer a) (.integer b) = .ok c ∧ binInt tok a b = .val (valOf c) := by
  cases tok <;> simp [BinaryToken.toOp] at htok <;> subst htok <;>
    simp [evalBinaryBitwise, binInt, bitNat, valOf, toU64_eq_bits64, ofU64_eq_ofBits64]

theorem evalShift_int (op : ShiftOp) (a b : Int) : evalShift op (.integer a) (.integer b) =
    if b < 0 ∨ b > 4294967295 then .error .integerConversion
    else if b ≥ 64 then .error .integerOverflow
    else
      (match op with
       | .shr => .ok (.integer (a / (2 : Int) ^ b.toNat))
       | .shl =>
         if wrapI64 (a * (2 : Int) ^ b.toNat) / (2 : Int) ^ b.toNat = a
         then .ok (.integer (wrapI64 (a * (2 : Int) ^ b.toNat))) else .error .integerOverflow) := rfl

theorem fold_int_shift (tok : BinaryToken) (op : ShiftOp) (htok : tok.toOp = some (.shift op)) (a b : Int) :
    match evalShift op (.integer a) (.integer b) with
    | .ok c => binInt tok a b = .val (valOf c)
    | .error _ => ∃ w, binInt tok a b = .undefined w := by
  rw [evalShift_int]
  by_cases h1 : b < 0
  · rw [if_pos (Or.inl h1)]
    cases tok <;> simp [BinaryToken.toOp] at htok <;> simp [binInt, h1]
  · by_cases h2 : b ≥ 64
    · have hsp : ∃ w, binInt tok a b = .undefined w := by
        cases tok <;> simp [BinaryToken.toOp] at htok <;> simp [binInt, h1, h2]
      by_cases h3 : b < 0 ∨ b > 4294967295
      · rw [if_pos h3]; exact hsp
      · rw [if_neg h3, if_pos h2]; exact hsp
    · have h3 : ¬ (b < 0 ∨ b > 4294967295) := by omega
      have hn : b.toNat < 64 := by omega
      rw [if_neg h3, if_neg h2]
      cases tok <;> simp [BinaryToken.toOp] at htok <;> subst htok
      · simp [binInt, h1, h2, valOf]
      · by_cases hr : representable (a * (2 : Int) ^ b.toNat) = true
        · have hc := (shl_check_iff a b.toNat hn).mpr hr
          simp only [if_pos hc]
          simp [binInt, h1, h2, intRes, hr, valOf, wrap_of_representable _ hr]
        · have hc : ¬ (wrapI64 (a * (2 : Int) ^ b.toNat) / (2 : Int) ^ b.toNat = a) :=
            fun h => hr ((shl_check_iff a b.toNat hn).mp h)
          simp only [if_neg hc]
          simp [binInt, h1, h2, intRes, hr]

def cmpPick : CmpOp → Bool → Bool → Bool → Bool
  | .eq, eq, _, _ => eq | .ne, eq, _, _ => !eq | .lt, _, lt, _ => lt | .le, eq, lt, _ => lt || eq
  | .gt, _, _, gt => gt | .ge, eq, _, gt => gt || eq

theorem cmpTok (tok : BinaryToken) (op : CmpOp) (htok : tok.toOp = some (.cmp op)) (eq lt gt : Bool) :
    cmpRes tok eq lt gt = .val (.bool (cmpPick op eq lt gt)) ∧ isCmp tok = true := by
  cases tok <;> simp [BinaryToken.toOp] at htok <;> subst htok <;> simp [cmpRes, isCmp, cmpPick]

theorem fold_int_cmp (F : FloatOps) (tok : BinaryToken) (op : CmpOp) (htok : tok.toOp = some (.cmp op)) (a b : Int) :
    ∃ c, evalComparison F op (.integer a) (.integer b) = .ok c ∧ binInt tok a b = .val (valOf c) := by
  have hb : binInt tok a b = cmpRes tok (a == b) (decide (a < b)) (decide (b < a)) := by
    have := (cmpTok tok op htok true true true).2
    cases tok <;> simp [BinaryToken.toOp] at htok <;> simp [binInt, isCmp]
  refine ⟨_, rfl, ?_⟩
  rw [hb, (cmpTok tok op htok _ _ _).1]
  cases op <;> simp [valOf, cmpBy, cmpPick, Bool.or_comm]

theorem utf16_eq_units (s : List Char) : utf16 s = units s := by
  induction s with
  | nil => rfl
  | cons c cs ih => simp [utf16, units, ih]

theorem unitsLt_eq : ∀ (a b : List Nat), unitsLt a b = unitsLess a b
  | [], [] => rfl
  | [], _ :: _ => rfl
  | _ :: _, [] => rfl
  | a :: as, b :: bs => by simp [unitsLt, unitsLess, unitsLt_eq as bs]

theorem strLt_eq (a b : List Char) : strLt a b = strLess a b := by
  simp [strLt, strLess, utf16_eq_units, unitsLt_eq]

/-- F6 (repaired): the order by code point, used before the repair, is not the UTF-16 order of the language -/
theorem f6_codepoint_order_differs :
    strLtCodePoint [Char.ofNat 0xE000] [Char.ofNat 0x10000] = true ∧ strLess [Char.ofNat 0xE000] [Char.ofNat 0x10000] = false := by
  decide

def inRange : ConstantValue → Prop
  | .integer v => representable v = true
  | _ => True

theorem and_lt (a b : Nat) (ha : a < 2 ^ 64) : a &&& b < 2 ^ 64 := Nat.lt_of_le_of_lt Nat.and_le_left ha

theorem bits64_lt (v : Int) : bits64 v < 2 ^ 64 := by
  unfold bits64
  have h1 : (0 : Int) ≤ v % (2 : Int) ^ 64 := Int.emod_nonneg _ (by decide)
  have h2 : v % (2 : Int) ^ 64 < (2 : Int) ^ 64 := Int.emod_lt_of_pos _ (by decide)
  have : (2 : Int) ^ 64 = 18446744073709551616 := by decide
  omega

theorem ofBits64_rep (n : Nat) (h : n < 2 ^ 64) : representable (ofBits64 n) = true := by
  rw [← ofU64_eq_ofBits64, ← inI64_iff]
  have h4 : (2 : Nat) ^ 64 = 18446744073709551616 := by decide
  rw [h4] at h
  simp only [inI64, i64Min, i64Max, Bool.and_eq_true]
  suffices h : -9223372036854775808 ≤ ofU64 n ∧ ofU64 n ≤ 9223372036854775807 from ⟨decide_eq_true h.1, decide_eq_true h.2⟩
  rcases ofU64_cases n with ⟨hlt, he⟩ | ⟨hlt, he⟩ <;> omega

def arithToken : ArithOp → BinaryToken
  | .add => .add | .sub => .sub | .mul => .mul | .div => .div | .rem => .rem

theorem arithTok (tok : BinaryToken) (op : ArithOp) (htok : tok.toOp = some (.arith op)) : tok = arithToken op := by
  cases tok <;> simp [BinaryToken.toOp] at htok <;> subst htok <;> rfl

theorem sound_arith (F : FloatOps) (tok : BinaryToken) (op : ArithOp) (htok : tok.toOp = some (.arith op))
    (l r c : ConstantValue) (hl : inRange l) (h : evalBinaryArith F op l r = .ok c) :
    inRange c ∧ binary F tok (valOf l) (valOf r) = .val (valOf c) := by
  cases l <;> cases r <;> try (simp [evalBinaryArith] at h; done)
  case integer.integer a b =>
    have hs := fold_int_arith F tok op htok a b hl
    rw [h] at hs
    refine ⟨?_, by simpa [binary, valOf] using hs⟩
    -- the result went through a range check
    have ht := arithTok tok op htok
    cases op <;> simp only [evalBinaryArith] at h
    · rcases checked_cases (a + b) with ⟨hr, h1, _⟩ | ⟨_, h1, _⟩ <;> rw [h1] at h <;> cases h; exact hr
    · rcases checked_cases (a - b) with ⟨hr, h1, _⟩ | ⟨_, h1, _⟩ <;> rw [h1] at h <;> cases h; exact hr
    · rcases checked_cases (a * b) with ⟨hr, h1, _⟩ | ⟨_, h1, _⟩ <;> rw [h1] at h <;> cases h; exact hr
    · split at h
      · cases h
      · rcases checked_cases (a.tdiv b) with ⟨hr, h1, _⟩ | ⟨_, h1, _⟩ <;> rw [h1] at h <;> cases h; exact hr
    · subst ht
      split at h
      · cases h
      · split at h
        · cases h
        · cases h
          rename_i hb hm
          have hs' : binInt .rem a b = .val (.int (a.tmod b)) := by simpa [arithToken, valOf] using hs
          simp only [binInt, hb, if_false, intRes] at hs'
          by_cases hr : representable (a.tmod b) = true
          · exact hr
          · simp [hr] at hs'
  case float.float a b =>
    simp only [evalBinaryArith] at h
    cases h
    have ht := arithTok tok op htok
    subst ht
    cases op <;> simp [inRange, binary, binFloat, valOf, arithToken]
  case cstring.cstring a b =>
    have ht := arithTok tok op htok
    subst ht
    cases op <;> simp [evalBinaryArith] at h
    subst h
    simp [inRange, binary, binStr, valOf, arithToken]

def bitToken : BitOp → BinaryToken
  | .and => .bitwiseAnd | .xor => .bitwiseXor | .or => .bitwiseOr

theorem bitTok (tok : BinaryToken) (op : BitOp) (htok : tok.toOp = some (.bitwise op)) : tok = bitToken op := by
  cases tok <;> simp [BinaryToken.toOp] at htok <;> subst htok <;> rfl

theorem sound_bitwise (F : FloatOps) (tok : BinaryToken) (op : BitOp) (htok : tok.toOp = some (.bitwise op))
    (l r c : ConstantValue) (h : evalBinaryBitwise op l r = .ok c) :
    inRange c ∧ binary F tok (valOf l) (valOf r) = .val (valOf c) := by
  have ht := bitTok tok op htok
  cases l <;> cases r <;> try (simp [evalBinaryBitwise] at h; done)
  case bool.bool a b =>
    subst ht
    simp only [evalBinaryBitwise] at h
    cases h
    cases op <;> simp [inRange, binary, binBool, valOf, bitToken]
  case integer.integer a b =>
    obtain ⟨c', h1, h2⟩ := fold_int_bitwise tok op htok a b
    rw [h1] at h
    cases h
    refine ⟨?_, by simpa [binary, valOf] using h2⟩
    simp only [evalBinaryBitwise] at h1
    cases h1
    simp only [inRange, toU64_eq_bits64, ofU64_eq_ofBits64]
    apply ofBits64_rep
    cases op <;> simp only [bitNat]
    · exact and_lt _ _ (bits64_lt a)
    · exact Nat.xor_lt_two_pow (bits64_lt a) (bits64_lt b)
    · exact Nat.or_lt_two_pow (bits64_lt a) (bits64_lt b)

theorem sound_shift (F : FloatOps) (tok : BinaryToken) (op : ShiftOp) (htok : tok.toOp = some (.shift op))
    (l r c : ConstantValue) (hl : inRange l) (h : evalShift op l r = .ok c) :
    inRange c ∧ binary F tok (valOf l) (valOf r) = .val (valOf c) := by
  cases l <;> cases r <;> try (simp [evalShift] at h; done)
  case integer.integer a b =>
    have hs := fold_int_shift tok op htok a b
    rw [h] at hs
    refine ⟨?_, by simpa [binary, valOf] using hs⟩
    rw [evalShift_int] at h
    split at h
    · cases h
    · split at h
      · cases h
      · rename_i h3 h2
        cases op <;> simp only at h
        · cases h
          -- arithmetic shift right keeps the magnitude within that of the operand
          simp only [inRange, representable, Bool.and_eq_true, decide_eq_true_eq] at hl ⊢
          have hp : (0 : Int) < (2 : Int) ^ b.toNat := Int.pow_pos (by decide)
          have h1 : a / (2 : Int) ^ b.toNat ≤ a ∨ a < 0 := by
            by_cases ha : 0 ≤ a
            · exact Or.inl (Int.ediv_le_self _ ha)
            · exact Or.inr (by omega)
          have h2' : 0 ≤ a → 0 ≤ a / (2 : Int) ^ b.toNat := fun ha => Int.ediv_nonneg ha (Int.le_of_lt hp)
          have h3' : a < 0 → a / (2 : Int) ^ b.toNat < 0 := fun ha => Int.ediv_neg_of_neg_of_pos ha hp
          have h4 : a < 0 → a ≤ a / (2 : Int) ^ b.toNat := by
            intro ha
            have := Int.lt_ediv_add_one_mul_self a hp
            have hm : (a / (2 : Int) ^ b.toNat + 1) * (2 : Int) ^ b.toNat ≤ a / (2 : Int) ^ b.toNat + 1 ∨ 0 < a / (2 : Int) ^ b.toNat + 1 := by
              by_cases hq : 0 < a / (2 : Int) ^ b.toNat + 1
              · exact Or.inr hq
              · left
                have hq' : a / (2 : Int) ^ b.toNat + 1 ≤ 0 := by omega
                have h1p : (1 : Int) ≤ (2 : Int) ^ b.toNat := hp
                calc (a / (2 : Int) ^ b.toNat + 1) * (2 : Int) ^ b.toNat
                    ≤ (a / (2 : Int) ^ b.toNat + 1) * 1 := Int.mul_le_mul_of_nonpos_left hq' h1p
                  _ = a / (2 : Int) ^ b.toNat + 1 := Int.mul_one _
            omega
          omega
        · split at h
          · cases h
            exact (wrap_spec _).choose_spec.2
          · cases h

theorem sound_cmp (F : FloatOps) (tok : BinaryToken) (op : CmpOp) (htok : tok.toOp = some (.cmp op))
    (l r c : ConstantValue) (h : evalComparison F op l r = .ok c) :
    inRange c ∧ binary F tok (valOf l) (valOf r) = .val (valOf c) := by
  have hc := fun e l g => cmpTok tok op htok e l g
  cases l <;> cases r <;> try (simp [evalComparison] at h; done)
  case bool.bool a b =>
    simp only [evalComparison] at h; cases h
    simp only [inRange, binary, valOf, true_and]
    have : binBool tok a b = cmpRes tok (a == b) (!a && b) (!b && a) := by
      have := (hc true true true).2
      cases tok <;> simp [BinaryToken.toOp] at htok <;> simp [binBool, isCmp]
    rw [this, (hc _ _ _).1]
    cases op <;> simp [cmpBy, cmpPick, Bool.or_comm]
  case integer.integer a b =>
    obtain ⟨c', h1, h2⟩ := fold_int_cmp F tok op htok a b
    rw [h1] at h; cases h
    simp only [evalComparison] at h1; cases h1
    exact ⟨trivial, by simpa [binary, valOf] using h2⟩
  case float.float a b =>
    simp only [evalComparison] at h; cases h
    simp only [inRange, binary, valOf, true_and]
    cases tok <;> simp [BinaryToken.toOp] at htok <;> subst htok <;> simp [binFloat]
  case cstring.cstring a b =>
    simp only [evalComparison] at h; cases h
    simp only [inRange, binary, valOf, true_and]
    have : binStr tok a b = cmpRes tok (a == b) (strLess a b) (strLess b a) := by
      have := (hc true true true).2
      cases tok <;> simp [BinaryToken.toOp] at htok <;> simp [binStr, isCmp]
    rw [this, (hc _ _ _).1]
    cases op <;> simp [cmpBy, cmpPick, strLt_eq, Bool.or_comm]
  case qstring.qstring a b =>
    simp only [evalComparison] at h; cases h
    simp only [inRange, binary, valOf, true_and]
    have : binStr tok a b = cmpRes tok (a == b) (strLess a b) (strLess b a) := by
      have := (hc true true true).2
      cases tok <;> simp [BinaryToken.toOp] at htok <;> simp [binStr, isCmp]
    rw [this, (hc _ _ _).1]
    cases op <;> simp [cmpBy, cmpPick, strLt_eq, Bool.or_comm]
  case nullPointer.nullPointer =>
    simp only [evalComparison] at h
    split at h
    · rename_i hop
      cases h
      simp only [inRange, binary, valOf, true_and]
      cases tok <;> simp [BinaryToken.toOp] at htok <;> subst htok <;> simp [cmpBy] at hop ⊢
    · cases h


end QV.Proofs.ConstFold
