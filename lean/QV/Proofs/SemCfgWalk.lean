/-
  The CFG-level induction over the AST walk (QV.Props.C01): definitions and the single-block cases.
  Result of a walk (`CResult`): the structural invariant `Walked`, an operand that is a folded constant or an allocated
  local of non-void type, the agreement of its type with the static type the reference semantics uses (`TyRel`, needed
  where Spec.Sem converts an untyped constant: at the ternary and at a declaration), and the simulation `Sim`: over every
  final code that covers the builder state after the walk, execution from the entry position reaches the exit position
  with the reference value in the operand.  Variables in scope: the walk's name map `wl`, the shape (names, types,
  constness) `vars` of the reference semantics' variable stack and the builder's local types are related statically
  (`VarRel`); in every state the variables' values are in their locals (`ValRel`).
  Cases here: integer / bool literals, variable reads, property reads, unary and (non-logical) binary operators; the
  control-flow cases are in SemCfgCtl, statement lists in SemCfgBlock.
-/
import QV.Proofs.SemCfg
import QV.Proofs.SemStraight

namespace QV.Proofs.SemCfgWalk
open QV.Model QV.Model.IrSem QV.Proofs.SemIr QV.Proofs.SemVisit QV.Proofs.SemWalk QV.Proofs.SemStraight QV.Proofs.SemCfg
open QV.Spec.Sem (Val World Host Ev Ty STy coerceTo binop unop staticTy)
set_option linter.unusedSimpArgs false

/-- the operand's type (as the builder sees it) agrees with the static type of the reference semantics, as far as the
    conversion of untyped constants depends on it -/
def TyRel (op : Operand) (t : STy) : Prop :=
  (op.typeDesc = .constInteger ∧ t.const = true ∧ t.ty = .int) ∨
  (∃ k, op.typeDesc = .concrete k ∧ t.const = false ∧ t.ty = (styOf k).ty)

/-! ### variables in scope -/

/-- what is known of the variables before the program runs: names, types, constness (not the values) -/
def shapeOf (vars : List QV.Spec.Sem.Var) : List (String × STy × Bool) := vars.map fun v => (v.name, v.sty, v.const)

theorem find?_shape : ∀ {a b : List QV.Spec.Sem.Var}, shapeOf a = shapeOf b → ∀ name : String,
    (a.find? (·.name = name)).map (fun v => (v.name, v.sty, v.const)) =
    (b.find? (·.name = name)).map (fun v => (v.name, v.sty, v.const))
  | [], [], _, _ => rfl
  | [], _ :: _, h, _ => by simp [shapeOf] at h
  | _ :: _, [], h, _ => by simp [shapeOf] at h
  | x :: xs, y :: ys, h, name => by
    simp only [shapeOf, List.map_cons, List.cons.injEq, Prod.mk.injEq] at h
    obtain ⟨⟨hn, hs, hc⟩, ht⟩ := h
    simp only [List.find?_cons, hn]
    by_cases hy : y.name = name
    · simp [hy, hn, hs, hc]
    · simp only [hy, decide_false]
      exact find?_shape ht name

theorem find?_none_of_shape {a b : List QV.Spec.Sem.Var} (h : shapeOf a = shapeOf b) (name : String)
    (hb : b.find? (·.name = name) = none) : a.find? (·.name = name) = none := by
  have := find?_shape h name
  rw [hb] at this
  simpa using this

theorem find?_some_of_shape {a b : List QV.Spec.Sem.Var} (h : shapeOf a = shapeOf b) (name : String)
    (var : QV.Spec.Sem.Var) (hb : b.find? (·.name = name) = some var) :
    ∃ var', a.find? (·.name = name) = some var' ∧ var'.sty = var.sty ∧ var'.const = var.const := by
  have := find?_shape h name
  rw [hb] at this
  cases ha : a.find? (·.name = name) with
  | none => rw [ha] at this; simp at this
  | some var' =>
    rw [ha] at this
    simp only [Option.map_some, Option.some.injEq, Prod.mk.injEq] at this
    exact ⟨var', rfl, this.2.1, this.2.2⟩

/-- STATIC agreement on the variables in scope: the walk's name map `wl` (name ↦ IR local, kind), the (shape of the)
    reference semantics' variable stack `vars`, and the builder's local types `ltys` know the same names, and every
    variable is of the non-void, typed (never an untyped constant) type of its local -/
structure VarRel (ltys : List TypeKind) (wl : QV.Model.Locals) (vars : List QV.Spec.Sem.Var) : Prop where
  none : ∀ name, wl.get? name = none → vars.find? (·.name = name) = none
  some : ∀ name n k, wl.get? name = some (n, k) → ∃ var ty, vars.find? (·.name = name) = some var ∧
    ltys[n]? = some ty ∧ ty ≠ .void ∧ var.sty.const = false ∧ var.sty.ty = (styOf ty).ty

/-- DYNAMIC agreement: every variable in scope has been initialised with a typed value, which is in its IR local -/
def ValRel (wl : QV.Model.Locals) (vars : List QV.Spec.Sem.Var) (L : IrSem.Locals) : Prop :=
  ∀ name n k, wl.get? name = some (n, k) →
    ∃ var v, vars.find? (·.name = name) = some var ∧ var.val = some v ∧ L n = some v ∧ isCint v = false

theorem VarRel.nil (ltys : List TypeKind) : VarRel ltys [] [] :=
  ⟨fun _ _ => rfl, fun _ _ _ h => by simp [QV.Model.Locals.get?] at h⟩

theorem ValRel.nil (vars : List QV.Spec.Sem.Var) (L : IrSem.Locals) : ValRel [] vars L := by
  intro name n k h
  simp [QV.Model.Locals.get?] at h

theorem VarRel.mono {ltys ltys' : List TypeKind} {wl : QV.Model.Locals} {vars : List QV.Spec.Sem.Var}
    (h : VarRel ltys wl vars) (hp : ∃ tys, ltys' = ltys ++ tys) : VarRel ltys' wl vars := by
  obtain ⟨tys, rfl⟩ := hp
  refine ⟨h.none, ?_⟩
  intro name n k hn
  obtain ⟨var, ty, h1, h2, h3⟩ := h.some name n k hn
  exact ⟨var, ty, h1, prefix_getElem? (List.prefix_append _ _) n ty h2, h3⟩

theorem ValRel.mono {ltys : List TypeKind} {wl : QV.Model.Locals} {vars vars' : List QV.Spec.Sem.Var} {L L' : IrSem.Locals}
    (hv : ValRel wl vars' L) (hr : VarRel ltys wl vars) (h : ∀ m, m < ltys.length → L' m = L m) : ValRel wl vars' L' := by
  intro name n k h1
  obtain ⟨_, ty, _, hty, _⟩ := hr.some name n k h1
  have hn : n < ltys.length := by
    rcases Nat.lt_or_ge n ltys.length with h' | h'
    · exact h'
    · simp [List.getElem?_eq_none h'] at hty
  obtain ⟨var, v, h2, h3, h4, h5⟩ := hv name n k h1
  exact ⟨var, v, h2, h3, by rw [h n hn]; exact h4, h5⟩

/-- the simulation: over any final code covering the builder after the walk, from the entry position (entry block,
    behind the statements it had) execution reaches the exit position (current block, behind its statements) in at
    most (number of blocks in between) transitions, with the reference value in the operand, the earlier locals, the
    world and the trace unchanged; `wl`/`vars` are the variables in scope (`vars`: names and types, the state's variables
    have that shape), whose values are in their locals -/
def Sim (sc : QV.Spec.Sem.Ctx) (ic : ICtx) (wl : QV.Model.Locals) (vars : List QV.Spec.Sem.Var) (e : Expr)
    (b b' : Builder) (op : Operand) : Prop :=
  ∀ C, Covers C b' b.currentRef →
  ∀ (st : State) (sst sst' : QV.Spec.Sem.St) (v : Val),
    shapeOf sst.vars = shapeOf vars → sst.w = st.w → (∀ x q u, st.w.prop x q = some u → isCint u = false) →
    ValRel wl sst.vars st.L →
    QV.Spec.Sem.evalExpr sc e sst = some (v, sst') →
    sst' = sst ∧ ∃ d st', d ≤ b'.currentRef - b.currentRef ∧
      (∀ fuel, runAt ic C (fuel + d) b.currentRef (curLen b) st = runAt ic C fuel b'.currentRef (curLen b') st') ∧
      evalOperand ic st'.L op = some v ∧ (∀ m, m < b.code.locals.length → st'.L m = st.L m) ∧
      st'.w = st.w ∧ st'.trace = st.trace ∧ ((∀ c, op ≠ .const c) → isCint v = false)

/-- what the walk of `e` from `s` to `s'` with result `op` achieved -/
structure CResult (sc : QV.Spec.Sem.Ctx) (ic : ICtx) (wl : QV.Model.Locals) (vars : List QV.Spec.Sem.Var) (e : Expr)
    (s s' : WState) (op : Operand) : Prop where
  locals : s'.locals = wl
  walked : Walked s.b s'.b
  ok : OperandOk s'.b.code.locals.length op
  ty : ∃ t, QV.Spec.Sem.staticTy sc vars e = some t ∧ TyRel op t
  sim : Sim sc ic wl vars e s.b s'.b op
  /-- no operand of type `void` (the sink of a ternary could not be allocated for it) -/
  nv : op.typeDesc ≠ .concrete .void

/-- the induction hypothesis / conclusion for one expression: every successful walk from a builder whose current block
    is open, with the variables `wl` ~ `vars` in scope -/
def WalkOk (wc : Ctx) (sc : QV.Spec.Sem.Ctx) (ic : ICtx) (wl : QV.Model.Locals) (vars : List QV.Spec.Sem.Var)
    (e : Expr) : Prop :=
  ∀ s s' op, (walkRvalue wc e).run s = (some op, s') → s.locals = wl → VarRel s.b.code.locals wl vars →
    (∃ blk, OpenAt s.b blk) → CResult sc ic wl vars e s s' op

theorem const_nv (c : ConstantValue) : (Operand.const c).typeDesc ≠ .concrete .void := by
  cases c <;> simp [Operand.typeDesc, ConstantValue.typeDesc, TypeDesc.bool, TypeDesc.double, TypeDesc.string,
    TypeKind.bool, TypeKind.void, TypeKind.double, TypeKind.string]

theorem local_nv {m : Nat} {ty : TypeKind} (h : ty ≠ .void) : (Operand.local m ty).typeDesc ≠ .concrete .void := by
  simp [Operand.typeDesc, h]

theorem prefix_drop {α} {l m : List α} (h : l <+: m) (k : Nat) (pre ss : List α) (hl : l = pre ++ ss) (hk : pre.length = k) :
    ∃ rest, m.drop k = ss ++ rest := by
  obtain ⟨t, rfl⟩ := h
  subst hl; subst hk
  exact ⟨t, by rw [List.append_assoc, List.drop_left]⟩

/-- appending one emitted statement at the cursor: the position moves by one inside the current block -/
theorem runAt_emit (ic : ICtx) (C : CodeBody) (b b' : Builder) (blk : BasicBlock) (stmt : Statement) (lo : Nat)
    (ho : OpenAt b blk) (hg : Grows b [stmt] b') (hC : Covers C b' lo) (st st1 : State)
    (he : execStatements ic C.locals [stmt] st = some st1) (fuel : Nat) :
    runAt ic C fuel b.currentRef (curLen b) st = runAt ic C fuel b'.currentRef (curLen b') st1 := by
  obtain ⟨blk0, hb, ht, hbl⟩ := hg.blocks
  have hblk : blk0 = blk := by rw [ho.1] at hb; injection hb with hb; exact hb.symm
  subst hblk
  have hcur := hg.currentRef
  obtain ⟨blkE, bE, hE, hCE, hp⟩ := hC.exit
  have hE' : blkE = { blk0 with statements := blk0.statements ++ [stmt] } := by
    rw [hcur, hbl, getElem?_set_self' _ _ _ _ hb] at hE
    injection hE with hE
    exact hE.symm
  subst hE'
  have hl0 : curLen b = blk0.statements.length := curLen_of_open ho
  have hl1 : curLen b' = blk0.statements.length + 1 := by
    simp [curLen, hcur, hbl, getElem?_set_self' _ _ _ _ hb]
  rw [hcur] at hCE ⊢
  rw [hl0, hl1]
  exact runAt_stmts ic C fuel _ _ bE [stmt] st st1 hCE (prefix_drop hp _ blk0.statements [stmt] rfl rfl) he

/-! ### static types of the reference semantics (definitional equations) -/

section
variable (sc : QV.Spec.Sem.Ctx) (vars : List QV.Spec.Sem.Var)

theorem sty_integer (v : Nat) : staticTy sc vars (.integer v) = some QV.Spec.Sem.sCint := rfl
theorem sty_bool (v : Bool) : staticTy sc vars (.bool v) = some QV.Spec.Sem.sBool := rfl
theorem sty_member_ident (o p : String) :
    staticTy sc vars (.member (.ident o) p) =
      (match staticTy sc vars (.ident o) with
       | some ot => ot.cls.bind fun cls => sc.propTy cls p
       | none => if (sc.enumVal o p).isSome then some { ty := .enum } else none) := rfl
theorem sty_ident (o : String) :
    staticTy sc vars (.ident o) =
      (match QV.Spec.Sem.varTy vars o with
       | some t => some t
       | none =>
         match sc.objects.find? (·.1 = o) with
         | some (_, _, cls) => some { ty := .ptr, cls := some cls }
         | none => sc.thisObj.bind fun (_, cls) => sc.propTy cls o) := rfl
theorem sty_unary (tok : UnaryToken) (a : Expr) : staticTy sc vars (.unary tok a) = staticTy sc vars a := rfl
theorem sty_ternary (c a b : Expr) :
    staticTy sc vars (.ternary c a b) =
      (match staticTy sc vars a, staticTy sc vars b with
       | some x, some y => some (x.unify y).concrete
       | _, _ => none) := rfl
theorem sty_binary (tok : BinaryToken) (l r : Expr) :
    staticTy sc vars (.binary tok l r) =
    (match tok.toOp with
     | some (.logical _) | some (.cmp _) => some QV.Spec.Sem.sBool
     | some (.shift _) =>
       (match staticTy sc vars l, staticTy sc vars r with
        | some x, some y => some (if x.const && y.const then x else x.concrete)
        | _, _ => none)
     | some _ =>
       (match staticTy sc vars l, staticTy sc vars r with
        | some x, some y => some (x.unify y)
        | _, _ => none)
     | none => none) := rfl

end

/-! ### the leaves -/

/-- a walk that leaves the builder as it is and returns an operand whose value does not depend on the state -/
theorem sim_unchanged (sc : QV.Spec.Sem.Ctx) (ic : ICtx) (wl : QV.Model.Locals) (vars : List QV.Spec.Sem.Var) (e : Expr)
    (b : Builder) (op : Operand)
    (h : ∀ (st : State) (sst sst' : QV.Spec.Sem.St) (v : Val), shapeOf sst.vars = shapeOf vars → ValRel wl sst.vars st.L →
      QV.Spec.Sem.evalExpr sc e sst = some (v, sst') →
      sst' = sst ∧ evalOperand ic st.L op = some v ∧ ((∀ c, op ≠ .const c) → isCint v = false)) :
    Sim sc ic wl vars e b b op := by
  intro C _ st sst sst' v hv _ _ hval hspec
  obtain ⟨h1, h2, h3⟩ := h st sst sst' v hv hval hspec
  exact ⟨h1, 0, st, by omega, fun _ => rfl, h2, fun _ _ => rfl, rfl, rfl, h3⟩

theorem cfg_int (wc : Ctx) (sc : QV.Spec.Sem.Ctx) (ic : ICtx) (wl : QV.Model.Locals) (vars : List QV.Spec.Sem.Var)
    (v : Nat) : WalkOk wc sc ic wl vars (.integer v) := by
  intro s s' op h hl _ ⟨blk, ho⟩
  obtain ⟨hop, hs, hv⟩ := run_integer wc v s s' op h
  subst hop
  rw [hs]
  refine ⟨hl, Walked.of_grows (Grows.refl s.b blk ho), representable_nat v hv,
    ⟨_, sty_integer sc vars v, Or.inl ⟨rfl, rfl, rfl⟩⟩, ?_, const_nv _⟩
  apply sim_unchanged
  intro st sst sst' val _ _ hspec
  rw [spec_integer] at hspec
  split at hspec
  · simp only [Option.some.injEq, Prod.mk.injEq] at hspec
    obtain ⟨rfl, rfl⟩ := hspec
    exact ⟨rfl, rfl, fun hc => absurd rfl (hc _)⟩
  · simp at hspec

theorem cfg_bool (wc : Ctx) (sc : QV.Spec.Sem.Ctx) (ic : ICtx) (wl : QV.Model.Locals) (vars : List QV.Spec.Sem.Var)
    (v : Bool) : WalkOk wc sc ic wl vars (.bool v) := by
  intro s s' op h hl _ ⟨blk, ho⟩
  rw [run_bool] at h
  injection h with h1 h2
  injection h1 with h1
  subst h1 h2
  refine ⟨hl, Walked.of_grows (Grows.refl s.b blk ho), trivial,
    ⟨_, sty_bool sc vars v, Or.inr ⟨.bool, rfl, rfl, rfl⟩⟩, ?_, const_nv _⟩
  apply sim_unchanged
  intro st sst sst' val _ _ hspec
  rw [spec_bool] at hspec
  simp only [Option.some.injEq, Prod.mk.injEq] at hspec
  obtain ⟨rfl, rfl⟩ := hspec
  exact ⟨rfl, rfl, fun hc => absurd rfl (hc _)⟩

theorem spec_ident (c : QV.Spec.Sem.Ctx) (x : String) (s : QV.Spec.Sem.St) :
    QV.Spec.Sem.evalExpr c (.ident x) s =
      (match QV.Spec.Sem.resolveIdent c x s with
       | some (.val v) => some (v, s)
       | _ => none) := by
  rw [QV.Spec.Sem.evalExpr.eq_def]
  first | rfl | (simp only; rfl) | (simp only; split <;> rfl)

/-- a variable in scope: the operand is the variable's local, nothing is emitted -/
theorem cfg_var (wc : Ctx) (sc : QV.Spec.Sem.Ctx) (ic : ICtx) (wl : QV.Model.Locals) (vars : List QV.Spec.Sem.Var)
    (x : String) (n : Nat) (k : DeclKind) (hx : wl.get? x = some (n, k)) : WalkOk wc sc ic wl vars (.ident x) := by
  intro s s' op h hl hvr ⟨blk, ho⟩
  obtain ⟨var, ty, hfind, hty, htnv, hconst, hsty⟩ := hvr.some x n k hx
  obtain ⟨hop, hs⟩ := run_var wc x n k ty s s' op (by rw [hl]; exact hx) hty h
  subst hop
  rw [hs]
  have hn : n < s.b.code.locals.length := by
    rcases Nat.lt_or_ge n s.b.code.locals.length with h' | h'
    · exact h'
    · simp [List.getElem?_eq_none h'] at hty
  refine ⟨hl, Walked.of_grows (Grows.refl s.b blk ho), hn,
    ⟨var.sty, by rw [sty_ident]; simp [QV.Spec.Sem.varTy, hfind], Or.inr ⟨ty, rfl, hconst, hsty⟩⟩, ?_, local_nv htnv⟩
  apply sim_unchanged
  intro st sst sst' val _ hval hspec
  obtain ⟨var', v0, hfind', hv0, hL, hnc0⟩ := hval x n k hx
  rw [spec_ident] at hspec
  simp only [QV.Spec.Sem.resolveIdent, QV.Spec.Sem.St.lookup, hfind', hv0, Option.map_some, Option.some.injEq,
    Prod.mk.injEq] at hspec
  obtain ⟨rfl, rfl⟩ := hspec
  exact ⟨rfl, hL, fun _ => hnc0⟩

theorem cfg_read (wc : Ctx) (sc : QV.Spec.Sem.Ctx) (ic : ICtx) (hag : Agree wc sc ic)
    (wl : QV.Model.Locals) (vars : List QV.Spec.Sem.Var)
    (o p cls : String) (ci : ClassInfo) (pinfo : PropInfo)
    (h1 : wc.objects.find? (·.1 = o) = some (o, cls)) (h2 : wc.env.findClass cls = some ci)
    (h3 : ci.props.find? (·.name = p) = some pinfo) (h5 : pinfo.ty ≠ .void) (hno : wl.get? o = none) :
    WalkOk wc sc ic wl vars (.member (.ident o) p) := by
  intro s s' op h hl hvr ⟨blk, ho⟩
  obtain ⟨hop', hs⟩ := run_read' wc o p cls ci pinfo s s' op (by rw [hl]; exact hno) h1 h2 h3 h
  obtain ⟨hop, hg, hloc⟩ := grows_emit s.b blk pinfo.ty (.readProperty (.namedObject o cls) pinfo) h5 ho
  subst hop' hs
  obtain ⟨oid, hso, hnamed⟩ := hag.objects o cls h1
  have hname : pinfo.name = p := by simpa using List.find?_some h3
  have hvnone := hvr.none o hno
  refine ⟨hl, Walked.of_grows hg, ?_, ⟨styOf pinfo.ty, ?_, Or.inr ⟨pinfo.ty, by rw [hop]; rfl, ?_, rfl⟩⟩, ?_,
    by rw [hop]; exact local_nv h5⟩
  · rw [hop]
    simp only [hloc, OperandOk, List.length_append, List.length_singleton]
    omega
  · rw [sty_member_ident, sty_ident]
    simp [QV.Spec.Sem.varTy, hvnone, hso, hag.props, h2, h3]
  · cases hty : pinfo.ty with
    | just n => cases n <;> simp [styOf]
    | pointer n => simp [styOf]
    | list t => cases t <;> simp [styOf] <;> (rename_i n; cases n <;> simp [styOf])
  · intro C hC st sst sst' val hvars hw hnc _ hspec
    rw [QV.Proofs.SemFold.spec_member_ident] at hspec
    simp only [QV.Spec.Sem.resolveIdent, QV.Spec.Sem.St.lookup, find?_none_of_shape hvars o hvnone, hso,
      QV.Spec.Sem.memberRef, QV.Spec.Sem.memberOf] at hspec
    cases hp : sst.w.prop oid p with
    | none => simp [hp] at hspec
    | some pv =>
      simp only [hp, Option.some.injEq, Prod.mk.injEq] at hspec
      obtain ⟨rfl, rfl⟩ := hspec
      rw [hw] at hp
      have hpv := hnc oid p pv hp
      have hLLn : C.locals[s.b.code.locals.length]? = some pinfo.ty :=
        prefix_getElem? hC.locals _ _ (by simp only [hloc]; simp)
      have hex : execStatements ic C.locals
          [.assign s.b.code.locals.length (.readProperty (.namedObject o cls) pinfo)] st =
          some { st with L := upd st.L s.b.code.locals.length pv } := by
        simp [execStatements, execStatement, evalRvalue, evalOperand, hnamed, hname, hp, hLLn,
          coerceTo_of_not_cint _ _ hpv]
      refine ⟨rfl, 0, { st with L := upd st.L s.b.code.locals.length pv }, by omega, ?_, ?_, ?_, rfl, rfl, fun _ => hpv⟩
      · intro fuel
        exact runAt_emit ic C s.b _ blk _ _ ho hg hC st _ hex fuel
      · rw [hop]; simp [evalOperand, upd]
      · intro m hm
        simp only [upd]
        rw [if_neg (by omega)]

/-! ### typing and the unary case -/

theorem tyrel_const_integer (k : Int) (t : STy) : TyRel (.const (.integer k)) t ↔ (t.const = true ∧ t.ty = .int) := by
  constructor
  · rintro (⟨_, h1, h2⟩ | ⟨k', h, _⟩)
    · exact ⟨h1, h2⟩
    · simp [Operand.typeDesc, ConstantValue.typeDesc] at h
  · rintro ⟨h1, h2⟩
    exact Or.inl ⟨rfl, h1, h2⟩

theorem tyrel_concrete (op : Operand) (k : TypeKind) (t : STy) (h : op.typeDesc = .concrete k) :
    TyRel op t ↔ (t.const = false ∧ t.ty = (styOf k).ty) := by
  constructor
  · rintro (⟨h', _, _⟩ | ⟨k', h', h1, h2⟩)
    · rw [h] at h'; cases h'
    · rw [h] at h'; injection h' with h'; subst h'; exact ⟨h1, h2⟩
  · rintro ⟨h1, h2⟩
    exact Or.inr ⟨k, h, h1, h2⟩

/-- `emit_unary_expression`: the type of the result is the concrete type of the operand -/
theorem emitUnary_ty (b : Builder) (op : UnaryOp) (a res : Operand) (b' : Builder)
    (h : emitUnaryExpression b op a = .ok (res, b')) :
    ∃ ty, ty ≠ TypeKind.void ∧ toConcreteType (ensureConcreteString a).typeDesc = .ok ty ∧
      (res, b') = b.emitResult ty (.unary op (ensureConcreteString a)) := by
  unfold emitUnaryExpression at h
  simp only at h
  split at h
  · simp at h
  · rename_i ty hty
    have h' : (res, b') = b.emitResult ty (.unary op (ensureConcreteString a)) := by simpa using h.symm
    cases op with
    | logNot =>
      simp only at hty
      split at hty
      · rename_i hb
        simp only [Except.ok.injEq] at hty
        subst hty
        exact ⟨_, by decide, by rw [hb]; rfl, h'⟩
      · simp at hty
    | plus =>
      simp only [toConcrete] at hty
      cases hc : toConcreteType (ensureConcreteString a).typeDesc with
      | error e => simp [hc] at hty
      | ok k =>
        simp only [hc] at hty
        split at hty
        · rename_i hk
          simp only [Except.ok.injEq] at hty
          subst hty
          exact ⟨_, by rcases hk with rfl | rfl | rfl <;> decide, rfl, h'⟩
        · simp at hty
    | minus =>
      simp only [toConcrete] at hty
      cases hc : toConcreteType (ensureConcreteString a).typeDesc with
      | error e => simp [hc] at hty
      | ok k =>
        simp only [hc] at hty
        split at hty
        · rename_i hk
          simp only [Except.ok.injEq] at hty
          subst hty
          exact ⟨_, by rcases hk with rfl | rfl | rfl <;> decide, rfl, h'⟩
        · simp at hty
    | bitNot =>
      simp only [toConcrete] at hty
      cases hc : toConcreteType (ensureConcreteString a).typeDesc with
      | error e => simp [hc] at hty
      | ok k =>
        simp only [hc] at hty
        split at hty
        · rename_i hk
          simp only [Except.ok.injEq] at hty
          subst hty
          refine ⟨_, ?_, rfl, h'⟩
          rcases hk with rfl | rfl | hk
          · decide
          · decide
          · intro hv; subst hv; simp [isEnumKind, TypeKind.void] at hk
        · simp at hty

/-- typing of a folded unary operator on a fragment constant -/
theorem fold_unary_types (F : FloatOps) (b b' : Builder) (u : UnaryOp) (c : ConstantValue) (x : Operand) (t : STy)
    (h : visitUnaryExpression F b u (.const c) = .ok (x, b')) (hok : ConstOk c) (ht : TyRel (.const c) t) : TyRel x t := by
  cases c with
  | integer k =>
    have ht' := (tyrel_const_integer k t).mp ht
    cases u with
    | plus =>
      simp [visitUnaryExpression, evalUnaryArith] at h
      rw [← h.1]; exact (tyrel_const_integer _ _).mpr ht'
    | minus =>
      rcases QV.Proofs.ConstFold.checked_cases (-k) with ⟨_, hc, _⟩ | ⟨_, hc, _⟩
      · simp [visitUnaryExpression, evalUnaryArith, hc] at h
        rw [← h.1]; exact (tyrel_const_integer _ _).mpr ht'
      · simp [visitUnaryExpression, evalUnaryArith, hc] at h
    | bitNot =>
      simp [visitUnaryExpression, evalUnaryBitwise] at h
      rw [← h.1]; exact (tyrel_const_integer _ _).mpr ht'
    | logNot => simp [visitUnaryExpression, evalUnaryLogical] at h
  | bool k =>
    have ht' := (tyrel_concrete _ .bool t rfl).mp ht
    cases u with
    | logNot =>
      simp [visitUnaryExpression, evalUnaryLogical] at h
      rw [← h.1]; exact (tyrel_concrete _ .bool t rfl).mpr ht'
    | plus => simp [visitUnaryExpression, evalUnaryArith] at h
    | minus => simp [visitUnaryExpression, evalUnaryArith] at h
    | bitNot => simp [visitUnaryExpression, evalUnaryBitwise] at h
  | _ => exact absurd hok (by simp [ConstOk])

theorem cfg_unary (wc : Ctx) (sc : QV.Spec.Sem.Ctx) (ic : ICtx) (hag : Agree wc sc ic)
    (wl : QV.Model.Locals) (vars : List QV.Spec.Sem.Var) (tok : UnaryToken) (a : Expr)
    (ih : WalkOk wc sc ic wl vars a) : WalkOk wc sc ic wl vars (.unary tok a) := by
  intro s s' op h hl hvr ho
  rw [run_unary] at h
  cases hw : (walkRvalue wc a).run s with
  | mk r s1 =>
    rw [hw] at h
    cases r with
    | none => simp only at h; injection h with h1 _; cases h1
    | some arg =>
      simp only at h
      cases htok : tok.toOp with
      | none => rw [htok] at h; simp only at h; injection h with h1 _; cases h1
      | some u =>
        rw [htok] at h
        simp only at h
        cases hv : visitUnaryExpression wc.F s1.b u arg with
        | error e => rw [hv] at h; simp only at h; injection h with h1 _; cases h1
        | ok xb =>
          obtain ⟨x, b⟩ := xb
          rw [hv] at h
          simp only at h
          injection h with h1 h2
          injection h1 with h1
          rw [← h1, ← h2]
          obtain ⟨hl1, hw1, hok1, ⟨t, hsty, hty⟩, hsim1⟩ := ih s s1 arg hw hl hvr ho
          obtain ⟨blk1, ho1⟩ := hw1.exitOpen
          cases arg with
          | const c =>
            obtain ⟨va0, hva0⟩ := evalOperand_const_some ic (fun _ => none) c hok1
            obtain ⟨hb, c', hres, hc', _⟩ := fold_const_unary ic (fun _ => none) wc.F s1.b u c hok1 x b hv va0 hva0
            subst hb; subst hres
            refine ⟨hl1, hw1, hc', ⟨t, by rw [sty_unary]; exact hsty, fold_unary_types wc.F _ _ u c _ t hv hok1 hty⟩, ?_,
              const_nv _⟩
            intro C hC st sst sst' val hvars hw' hnc hval hspec
            rw [spec_unary, htok] at hspec
            cases hsa : QV.Spec.Sem.evalExpr sc a sst with
            | none => simp [hsa] at hspec
            | some p =>
              obtain ⟨va, sa⟩ := p
              simp only [hsa, Option.map_eq_some_iff, Prod.mk.injEq] at hspec
              obtain ⟨v', hu, rfl, rfl⟩ := hspec
              obtain ⟨rfl, d, st1, hd, hrun, hv1, hp1, hw1', ht1, _⟩ := hsim1 C hC st sst sa va hvars hw' hnc hval hsa
              obtain ⟨_, c2, hres2, _, hval⟩ := fold_const_unary ic st1.L wc.F s1.b u c hok1 _ _ hv va hv1
              exact ⟨rfl, d, st1, hd, hrun, hval v' (by rw [← hag.float]; exact hu), hp1, hw1', ht1,
                fun hc => absurd rfl (hc _)⟩
          | «local» m ty =>
            have hem : emitUnaryExpression s1.b u (.local m ty) = .ok (x, b) := by
              simpa [visitUnaryExpression] using hv
            obtain ⟨ty', hty', hconc, hshape⟩ := emitUnary_ty s1.b u (.local m ty) x b hem
            have htyeq : ty' = ty := by
              simp [ensureConcreteString, Operand.typeDesc, toConcreteType] at hconc
              exact hconc.symm
            subst htyeq
            obtain ⟨hop, hg2, hloc2⟩ := grows_emit s1.b blk1 ty' (.unary u (ensureConcreteString (.local m ty'))) hty' ho1
            rw [← hshape] at hop hg2 hloc2
            simp only at hop hg2 hloc2
            have hw2 : Walked s1.b b := Walked.of_grows hg2
            refine ⟨hl1, hw1.trans hw2, ?_, ⟨t, by rw [sty_unary]; exact hsty, ?_⟩, ?_, by rw [hop]; exact local_nv hty'⟩
            · rw [hop]
              simp only [hloc2, OperandOk, List.length_append, List.length_singleton]
              omega
            · rw [hop]
              exact (tyrel_concrete _ ty' t rfl).mpr ((tyrel_concrete _ ty' t rfl).mp hty)
            · intro C hC st sst sst' val hvars hw' hnc hval hspec
              rw [spec_unary, htok] at hspec
              cases hsa : QV.Spec.Sem.evalExpr sc a sst with
              | none => simp [hsa] at hspec
              | some p =>
                obtain ⟨va, sa⟩ := p
                simp only [hsa, Option.map_eq_some_iff, Prod.mk.injEq] at hspec
                obtain ⟨v', hu, rfl, rfl⟩ := hspec
                have hC1 : Covers C s1.b s.b.currentRef := Covers.of_ext hw2.toExt hC hw1.cur_le
                obtain ⟨rfl, d, st1, hd, hrun, hv1, hp1, hw1', ht1, hnc1⟩ := hsim1 C hC1 st sst sa va hvars hw' hnc hval hsa
                have hva : isCint va = false := hnc1 (by intro c hc; cases hc)
                have hvv : isCint v' = false := QV.Proofs.SemFold.unop_not_cint _ u va v' hva hu
                have hLLn : C.locals[s1.b.code.locals.length]? = some ty' :=
                  prefix_getElem? hC.locals _ _ (by simp only [hloc2]; simp)
                have hu' : unop ic.H.F u va = some v' := by rw [← hag.host]; exact hu
                have hex : execStatements ic C.locals
                    [.assign s1.b.code.locals.length (.unary u (ensureConcreteString (.local m ty')))] st1 =
                    some { st1 with L := upd st1.L s1.b.code.locals.length v' } := by
                  simp [execStatements, execStatement, evalRvalue, evalOperand_ensure, hv1, hu', hLLn,
                    coerceTo_of_not_cint _ _ hvv]
                have hcur2 : b.currentRef = s1.b.currentRef := hg2.currentRef
                refine ⟨rfl, d, { st1 with L := upd st1.L s1.b.code.locals.length v' }, by rw [hcur2]; exact hd, ?_, ?_, ?_,
                  hw1', ht1, fun _ => hvv⟩
                · intro fuel
                  rw [hrun fuel]
                  exact runAt_emit ic C s1.b b blk1 _ _ ho1 hg2 hC st1 _ hex fuel
                · rw [hop]; simp [evalOperand, upd]
                · intro k hk
                  simp only [upd]
                  have := hw1.locals_le
                  rw [if_neg (by omega)]
                  exact hp1 k hk
          | _ => exact absurd hok1 (by simp [OperandOk])

/-! ### typing of binary operators -/

theorem ensure_ok {n : Nat} {op : Operand} (h : OperandOk n op) : ensureConcreteString op = op := by
  cases op with
  | const c => cases c <;> simp_all [OperandOk, ConstOk, ensureConcreteString]
  | _ => rfl

/-- static type of a binary operator application in the reference semantics -/
def binSTy (op : BinaryOp) (x y : STy) : STy :=
  match op with
  | .logical _ | .cmp _ => QV.Spec.Sem.sBool
  | .shift _ => if x.const && y.const then x else x.concrete
  | _ => x.unify y

theorem sty_binary' (sc : QV.Spec.Sem.Ctx) (vars : List QV.Spec.Sem.Var) (tok : BinaryToken) (op : BinaryOp) (l r : Expr)
    (x y : STy) (htok : tok.toOp = some op) (hl : staticTy sc vars l = some x) (hr : staticTy sc vars r = some y) :
    staticTy sc vars (.binary tok l r) = some (binSTy op x y) := by
  rw [sty_binary, htok, hl, hr]
  cases op with
  | logical o => rfl
  | cmp o => rfl
  | shift o => rfl
  | arith o => rfl
  | bitwise o => rfl

theorem deduce_const_left (env : Env) (kr : TypeKind) (t : TypeDesc)
    (h : deduceType env .constInteger (.concrete kr) = .ok t) : t = .concrete kr := by
  cases kr with
  | just n =>
    cases n with
    | prim p => cases p <;> simp [deduceType] at h <;> exact h.symm
    | _ => simp [deduceType] at h
  | _ => simp [deduceType] at h

theorem deduce_const_right (env : Env) (kl : TypeKind) (t : TypeDesc)
    (h : deduceType env (.concrete kl) .constInteger = .ok t) : t = .concrete kl := by
  cases kl with
  | just n =>
    cases n with
    | prim p => cases p <;> simp [deduceType] at h <;> exact h.symm
    | _ => simp [deduceType] at h
  | _ => simp [deduceType] at h

theorem deduce_concrete_concrete (env : Env) (kl kr : TypeKind) (t : TypeDesc)
    (h : deduceType env (.concrete kl) (.concrete kr) = .ok t) :
    t = .concrete kl ∧ (styOf kr).ty = (styOf kl).ty := by
  by_cases heq : kl = kr
  · subst heq
    simp [deduceType] at h
    exact ⟨h.symm, rfl⟩
  · have hne : (TypeDesc.concrete kl) ≠ (TypeDesc.concrete kr) := by intro hc; injection hc with hc; exact heq hc
    unfold deduceType at h
    rw [if_neg hne] at h
    cases kl with
    | just n =>
      cases kr with
      | just m =>
        cases n <;> cases m <;> simp at h
        rename_i a b
        split at h
        · simp at h; exact ⟨h.symm, rfl⟩
        · simp at h
      | _ => simp at h
    | pointer n => cases kr <;> simp at h
    | list n => cases kr <;> simp at h

/-- typing of `deduce_concrete_type` against `STy.unify`, when not both operands are untyped constants -/
theorem deduce_tyrel (env : Env) (l r : Operand) (x y : STy) (k : TypeKind)
    (h : deduceConcreteType env l.typeDesc r.typeDesc = .ok k) (hx : TyRel l x) (hy : TyRel r y)
    (hdyn : l.typeDesc ≠ .constInteger ∨ r.typeDesc ≠ .constInteger) :
    (x.unify y).const = false ∧ (x.unify y).ty = (styOf k).ty := by
  simp only [deduceConcreteType] at h
  cases hd : deduceType env l.typeDesc r.typeDesc with
  | error e => simp [hd] at h
  | ok t =>
    simp only [hd] at h
    rcases hx with ⟨hlc, hxc, hxt⟩ | ⟨kl, hlk, hxc, hxt⟩
    · rcases hy with ⟨hrc, _, _⟩ | ⟨kr, hrk, hyc, hyt⟩
      · rcases hdyn with hd' | hd'
        · exact absurd hlc hd'
        · exact absurd hrc hd'
      · rw [hlc, hrk] at hd
        have := deduce_const_left env kr t hd
        subst this
        simp only [toConcreteType, Except.ok.injEq] at h
        subst h
        simp [STy.unify, hxc, hyc, hyt]
    · rcases hy with ⟨hrc, hyc, _⟩ | ⟨kr, hrk, hyc, hyt⟩
      · rw [hlk, hrc] at hd
        have := deduce_const_right env kl t hd
        subst this
        simp only [toConcreteType, Except.ok.injEq] at h
        subst h
        simp [STy.unify, hxc, hyc, hxt]
      · rw [hlk, hrk] at hd
        obtain ⟨rfl, hsame⟩ := deduce_concrete_concrete env kl kr t hd
        simp only [toConcreteType, Except.ok.injEq] at h
        subst h
        simp only [STy.unify, hxc, hyc, Bool.false_and, Bool.false_eq_true, ↓reduceIte]
        split
        · exact ⟨hyc, by rw [hyt, hsame]⟩
        · split
          · exact ⟨hyc, by rw [hyt, hsame]⟩
          · exact ⟨hxc, hxt⟩

theorem deduceConcrete_ok {env : Env} {sym : String} {l r : TypeDesc} {ty : TypeKind}
    (h : deduceConcrete env sym l r = .ok ty) : deduceConcreteType env l r = .ok ty := by
  unfold deduceConcrete at h
  cases hd : deduceConcreteType env l r with
  | ok t => simp [hd] at h; rw [h]
  | error e => simp [hd] at h

theorem toConcrete_ok {sym : String} {l : TypeDesc} {ty : TypeKind} (h : toConcrete sym l = .ok ty) :
    toConcreteType l = .ok ty := by
  unfold toConcrete at h
  cases hd : toConcreteType l with
  | ok t => simp [hd] at h; rw [h]
  | error e => simp [hd] at h

/-- how `emit_binary_expression` determines the type of the result -/
def BinTyFact (env : Env) (op : BinaryOp) (l r : Operand) (ty : TypeKind) : Prop :=
  match op with
  | .arith _ | .bitwise _ =>
    deduceConcreteType env (ensureConcreteString l).typeDesc (ensureConcreteString r).typeDesc = .ok ty
  | .shift _ => toConcreteType (ensureConcreteString l).typeDesc = .ok ty
  | .cmp _ => ty = .bool
  | .logical _ => False

/-- `emit_binary_expression`: how the type of the result comes about -/
theorem emitBinary_ty (env : Env) (b : Builder) (op : BinaryOp) (l r res : Operand) (b' : Builder)
    (hlog : ∀ lop, op ≠ .logical lop)
    (h : emitBinaryExpression env b op l r = .ok (res, b')) :
    ∃ ty, ty ≠ TypeKind.void ∧
      (res, b') = b.emitResult ty (.binary op (ensureConcreteString l) (ensureConcreteString r)) ∧
      BinTyFact env op l r ty := by
  unfold BinTyFact
  unfold emitBinaryExpression at h
  simp only at h
  split at h
  · simp at h
  · rename_i ty bb hty
    cases op with
    | logical lop =>
      exact absurd rfl (hlog lop)
    | arith aop =>
      simp only at hty
      cases hd : deduceConcrete env aop.symbol (ensureConcreteString l).typeDesc (ensureConcreteString r).typeDesc with
      | error e => simp [hd] at hty
      | ok k =>
        simp only [hd] at hty
        (repeat' split at hty) <;> simp only [Prod.mk.injEq, Except.ok.injEq, reduceCtorEq, false_and] at hty
        all_goals (obtain ⟨rfl, rfl⟩ := hty)
        all_goals (refine ⟨_, ?_, (Except.ok.inj h).symm, deduceConcrete_ok hd⟩)
        all_goals (intro hv; subst hv; simp_all [TypeKind.void, TypeKind.int, TypeKind.uint, TypeKind.double, TypeKind.string])
    | bitwise bop =>
      simp only at hty
      cases hd : deduceConcrete env bop.symbol (ensureConcreteString l).typeDesc (ensureConcreteString r).typeDesc with
      | error e => simp [hd] at hty
      | ok k =>
        simp only [hd] at hty
        (repeat' split at hty) <;> simp only [Prod.mk.injEq, Except.ok.injEq, reduceCtorEq, false_and] at hty
        all_goals (obtain ⟨rfl, rfl⟩ := hty)
        all_goals (refine ⟨_, ?_, (Except.ok.inj h).symm, deduceConcrete_ok hd⟩)
        all_goals (intro hv; subst hv; simp_all [TypeKind.void, TypeKind.int, TypeKind.uint, TypeKind.bool, isEnumKind])
    | shift sop =>
      simp only at hty
      cases hd : toConcrete sop.symbol (ensureConcreteString l).typeDesc with
      | error e => simp [hd] at hty
      | ok k =>
        simp only [hd] at hty
        split at hty
        · rename_i hc
          simp only [Prod.mk.injEq, Except.ok.injEq] at hty
          obtain ⟨rfl, rfl⟩ := hty
          refine ⟨_, ?_, (Except.ok.inj h).symm, toConcrete_ok hd⟩
          rcases hc.1 with rfl | rfl <;> decide
        · simp at hty
    | cmp cop =>
      simp only at hty
      cases hd : deduceConcrete env cop.symbol (ensureConcreteString l).typeDesc (ensureConcreteString r).typeDesc with
      | error e => simp [hd] at hty
      | ok k =>
        simp only [hd] at hty
        split at hty
        · simp only [Prod.mk.injEq, Except.ok.injEq] at hty
          obtain ⟨rfl, rfl⟩ := hty
          exact ⟨_, by decide, (Except.ok.inj h).symm, rfl⟩
        · simp at hty

theorem tyrel_const_iff (op : Operand) (t : STy) (h : TyRel op t) : t.const = true ↔ op.typeDesc = .constInteger := by
  rcases h with ⟨h1, h2, _⟩ | ⟨k, h1, h2, _⟩
  · simp [h1, h2]
  · simp [h1, h2]

/-- typing of an emitted (dynamic) binary operator application -/
theorem emit_binary_types (env : Env) (op : BinaryOp) (l r : Operand) (n m : Nat) (ty : TypeKind) (x y : STy)
    (hokl : OperandOk n l) (hokr : OperandOk n r) (hx : TyRel l x) (hy : TyRel r y)
    (hdyn : l.typeDesc ≠ .constInteger ∨ r.typeDesc ≠ .constInteger)
    (hfact : BinTyFact env op l r ty) :
    TyRel (.local m ty) (binSTy op x y) := by
  unfold BinTyFact at hfact
  rw [ensure_ok hokl, ensure_ok hokr] at hfact
  rw [tyrel_concrete _ ty _ rfl]
  cases op with
  | logical o => exact absurd hfact (by simp)
  | cmp o => simp only at hfact; subst hfact; exact ⟨rfl, rfl⟩
  | arith o => exact deduce_tyrel env l r x y ty hfact hx hy hdyn
  | bitwise o => exact deduce_tyrel env l r x y ty hfact hx hy hdyn
  | shift o =>
    simp only at hfact
    have hnb : (x.const && y.const) = false := by
      rcases hdyn with hd | hd
      · have : x.const = false := by
          cases hc : x.const with
          | false => rfl
          | true => exact absurd ((tyrel_const_iff l x hx).mp hc) hd
        simp [this]
      · have : y.const = false := by
          cases hc : y.const with
          | false => rfl
          | true => exact absurd ((tyrel_const_iff r y hy).mp hc) hd
        simp [this]
    simp only [binSTy, hnb, Bool.false_eq_true, ↓reduceIte, STy.concrete]
    rcases hx with ⟨hlc, _, hxt⟩ | ⟨kl, hlk, _, hxt⟩
    · rw [hlc] at hfact
      simp only [toConcreteType, Except.ok.injEq] at hfact
      subst hfact
      exact ⟨trivial, hxt⟩
    · rw [hlk] at hfact
      simp only [toConcreteType, Except.ok.injEq] at hfact
      subst hfact
      exact ⟨trivial, hxt⟩

theorem checked_kind {v : Int} {r : ConstantValue} (h : checked v = .ok r) : r = .integer v := by
  unfold checked at h
  split at h <;> simp at h
  exact h.symm

theorem arith_int_kind (F : FloatOps) (o : ArithOp) (a c : Int) (v : ConstantValue)
    (h : evalBinaryArith F o (.integer a) (.integer c) = .ok v) : ∃ k, v = .integer k := by
  cases o <;> simp only [evalBinaryArith] at h <;> (repeat' split at h) <;>
    first
      | exact ⟨_, checked_kind h⟩
      | (simp only [Except.ok.injEq] at h; exact ⟨_, h.symm⟩)
      | (simp at h)

theorem shift_int_kind (o : ShiftOp) (a c : Int) (v : ConstantValue)
    (h : evalShift o (.integer a) (.integer c) = .ok v) : ∃ k, v = .integer k := by
  simp only [evalShift] at h
  (repeat' split at h) <;>
    first
      | (simp only [Except.ok.injEq] at h; exact ⟨_, h.symm⟩)
      | (simp at h)

/-- typing of a folded binary operator on two fragment constants -/
theorem fold_binary_types (F : FloatOps) (env : Env) (b b' : Builder) (op : BinaryOp) (hlog : ∀ lop, op ≠ .logical lop)
    (cl cr : ConstantValue) (res : Operand) (x y : STy)
    (h : visitBinaryExpression F env b op (.const cl) (.const cr) = .ok (res, b'))
    (hokl : ConstOk cl) (hokr : ConstOk cr) (hx : TyRel (.const cl) x) (hy : TyRel (.const cr) y) :
    TyRel res (binSTy op x y) := by
  cases cl with
  | integer a =>
    cases cr with
    | integer c =>
      have hx' := (tyrel_const_integer a x).mp hx
      have hy' := (tyrel_const_integer c y).mp hy
      cases op with
      | logical lop => exact absurd rfl (hlog lop)
      | arith o =>
        simp only [visitBinaryExpression] at h
        have : ∃ k, res = .const (.integer k) := by
          cases he : evalBinaryArith F o (.integer a) (.integer c) with
          | error e => simp [he] at h
          | ok v =>
            obtain ⟨k, rfl⟩ := arith_int_kind F o a c v he
            simp [he] at h
            exact ⟨k, h.1.symm⟩
        obtain ⟨k, rfl⟩ := this
        exact (tyrel_const_integer _ _).mpr (by simp [binSTy, STy.unify, hx'.1, hy'.1, hx'.2])
      | bitwise o =>
        simp only [visitBinaryExpression, evalBinaryBitwise, Except.ok.injEq, Prod.mk.injEq] at h
        rw [← h.1]
        exact (tyrel_const_integer _ _).mpr (by simp [binSTy, STy.unify, hx'.1, hy'.1, hx'.2])
      | shift o =>
        simp only [visitBinaryExpression] at h
        have : ∃ k, res = .const (.integer k) := by
          cases he : evalShift o (.integer a) (.integer c) with
          | error e => simp [he] at h
          | ok v =>
            obtain ⟨k, rfl⟩ := shift_int_kind o a c v he
            simp [he] at h
            exact ⟨k, h.1.symm⟩
        obtain ⟨k, rfl⟩ := this
        exact (tyrel_const_integer _ _).mpr (by simp [binSTy, hx'.1, hy'.1, hx'.2])
      | cmp o =>
        simp only [visitBinaryExpression, evalComparison, Except.ok.injEq, Prod.mk.injEq] at h
        rw [← h.1]
        exact (tyrel_concrete _ .bool _ rfl).mpr ⟨rfl, rfl⟩
    | bool c =>
      exfalso
      cases op with
      | logical lop => exact absurd rfl (hlog lop)
      | arith o => simp [visitBinaryExpression, evalBinaryArith] at h
      | bitwise o => simp [visitBinaryExpression, evalBinaryBitwise] at h
      | shift o => simp [visitBinaryExpression, evalShift] at h
      | cmp o => simp [visitBinaryExpression, evalComparison] at h
    | _ => exact absurd hokr (by simp [ConstOk])
  | bool a =>
    cases cr with
    | bool c =>
      have hx' := (tyrel_concrete _ .bool x rfl).mp hx
      have hy' := (tyrel_concrete _ .bool y rfl).mp hy
      cases op with
      | logical lop => exact absurd rfl (hlog lop)
      | arith o => simp [visitBinaryExpression, evalBinaryArith] at h
      | shift o => simp [visitBinaryExpression, evalShift] at h
      | bitwise o =>
        simp only [visitBinaryExpression, evalBinaryBitwise, Except.ok.injEq, Prod.mk.injEq] at h
        rw [← h.1]
        refine (tyrel_concrete _ .bool _ rfl).mpr ?_
        have hs : (styOf TypeKind.bool).ty = Ty.bool := rfl
        simp only [binSTy, STy.unify, hx'.1, hy'.1, Bool.false_and, Bool.false_eq_true, ↓reduceIte, hx'.2, hs]
        simp [hx'.1, hx'.2, hs]
      | cmp o =>
        simp only [visitBinaryExpression, evalComparison, Except.ok.injEq, Prod.mk.injEq] at h
        rw [← h.1]
        exact (tyrel_concrete _ .bool _ rfl).mpr ⟨rfl, rfl⟩
    | integer c =>
      exfalso
      cases op with
      | logical lop => exact absurd rfl (hlog lop)
      | arith o => simp [visitBinaryExpression, evalBinaryArith] at h
      | bitwise o => simp [visitBinaryExpression, evalBinaryBitwise] at h
      | shift o => simp [visitBinaryExpression, evalShift] at h
      | cmp o => simp [visitBinaryExpression, evalComparison] at h
    | _ => exact absurd hokr (by simp [ConstOk])
  | _ => exact absurd hokl (by simp [ConstOk])

theorem not_const_of_local {m : Nat} {ty : TypeKind} : (Operand.local m ty).typeDesc ≠ .constInteger := by
  simp [Operand.typeDesc]

/-- the dynamic path of a binary operator, given what the two operand walks achieved -/
theorem cfg_binary_emit (wc : Ctx) (sc : QV.Spec.Sem.Ctx) (ic : ICtx) (hag : Agree wc sc ic)
    (wl : QV.Model.Locals) (vars : List QV.Spec.Sem.Var)
    (tok : BinaryToken) (op : BinaryOp) (l r : Expr) (htok : tok.toOp = some op) (hlog : ∀ lop, op ≠ .logical lop)
    (s s1 s2 : WState) (left right x : Operand) (b : Builder) (hvr : VarRel s.b.code.locals wl vars)
    (r1 : CResult sc ic wl vars l s s1 left) (r2 : CResult sc ic wl vars r s1 s2 right)
    (hdyn : (∀ c, left ≠ .const c) ∨ (∀ c, right ≠ .const c))
    (hdynT : left.typeDesc ≠ .constInteger ∨ right.typeDesc ≠ .constInteger)
    (hem : emitBinaryExpression wc.env s2.b op left right = .ok (x, b)) :
    CResult sc ic wl vars (.binary tok l r) s { s2 with b := b } x := by
  obtain ⟨_, hw1, hok1, ⟨tx, hstx, htyx⟩, hsim1⟩ := r1
  obtain ⟨hl2, hw2, hok2, ⟨ty, hsty, htyy⟩, hsim2⟩ := r2
  obtain ⟨blk2, ho2⟩ := hw2.exitOpen
  obtain ⟨ty', hty', hshape, hfact⟩ := emitBinary_ty wc.env s2.b op left right x b hlog hem
  obtain ⟨hop, hg3, hloc3⟩ := grows_emit s2.b blk2 ty'
    (.binary op (ensureConcreteString left) (ensureConcreteString right)) hty' ho2
  rw [← hshape] at hop hg3 hloc3
  simp only at hop hg3 hloc3
  have hw3 : Walked s2.b b := Walked.of_grows hg3
  have hn01 := hw1.locals_le
  have hn12 := hw2.locals_le
  have hok1' : OperandOk s2.b.code.locals.length left := hok1.mono hn12
  refine ⟨hl2, (hw1.trans hw2).trans hw3, ?_, ⟨binSTy op tx ty, sty_binary' sc vars tok op l r tx ty htok hstx hsty, ?_⟩, ?_,
    by rw [hop]; exact local_nv hty'⟩
  · rw [hop]
    simp only [hloc3, OperandOk, List.length_append, List.length_singleton]
    omega
  · rw [hop]
    exact emit_binary_types wc.env op left right _ _ ty' tx ty hok1' hok2 htyx htyy hdynT hfact
  · intro C hC st sst sst' val hvars hw' hnc hval hspec
    rw [spec_binary sc tok op l r sst htok hlog] at hspec
    cases hsl : QV.Spec.Sem.evalExpr sc l sst with
    | none => simp [hsl] at hspec
    | some p =>
      obtain ⟨va, sa⟩ := p
      simp only [hsl] at hspec
      have hC2 : Covers C s2.b s.b.currentRef := Covers.of_ext hw3.toExt hC (hw1.trans hw2).cur_le
      have hC1 : Covers C s1.b s.b.currentRef := Covers.of_ext hw2.toExt hC2 hw1.cur_le
      obtain ⟨rfl, d1, st1, hd1, hrun1, hv1, hp1, hw1', ht1, hnc1⟩ := hsim1 C hC1 st sst sa va hvars hw' hnc hval hsl
      cases hsr : QV.Spec.Sem.evalExpr sc r sa with
      | none => simp [hsr] at hspec
      | some q =>
        obtain ⟨vb, sb⟩ := q
        simp only [hsr, Option.map_eq_some_iff, Prod.mk.injEq] at hspec
        obtain ⟨v', hbin, rfl, rfl⟩ := hspec
        obtain ⟨rfl, d2, st2, hd2, hrun2, hv2, hp2, hw2', ht2, hnc2⟩ :=
          hsim2 C (hC2.mono hw1.cur_le) st1 sa sb vb hvars (hw'.trans hw1'.symm) (by rw [hw1']; exact hnc)
            (hval.mono hvr hp1) hsr
        have hv1' : evalOperand ic st2.L left = some va := by
          rw [evalOperand_agree ic st1.L st2.L _ left hok1 hp2]; exact hv1
        have hvv : isCint v' = false := by
          refine binop_dyn_not_cint _ op va vb v' hbin ?_
          rcases hdyn with hd | hd
          · exact Or.inl (hnc1 hd)
          · exact Or.inr (hnc2 hd)
        have hLLn : C.locals[s2.b.code.locals.length]? = some ty' :=
          prefix_getElem? hC.locals _ _ (by simp only [hloc3]; simp)
        have hb' : binop ic.H.F op va vb = some v' := by rw [← hag.host]; exact hbin
        have hex : execStatements ic C.locals
            [.assign s2.b.code.locals.length (.binary op (ensureConcreteString left) (ensureConcreteString right))] st2 =
            some { st2 with L := upd st2.L s2.b.code.locals.length v' } := by
          simp [execStatements, execStatement, evalRvalue, evalOperand_ensure, hv1', hv2, hb', hLLn,
            coerceTo_of_not_cint _ _ hvv]
        have hcur3 : b.currentRef = s2.b.currentRef := hg3.currentRef
        have hc01 := hw1.cur_le
        have hc12 := hw2.cur_le
        refine ⟨rfl, d2 + d1, { st2 with L := upd st2.L s2.b.code.locals.length v' }, ?_, ?_, ?_, ?_,
          hw2'.trans hw1', ht2.trans ht1, fun _ => hvv⟩
        · show d2 + d1 ≤ b.currentRef - s.b.currentRef
          rw [hcur3]; omega
        · intro fuel
          rw [← Nat.add_assoc, hrun1 (fuel + d2), hrun2 fuel]
          exact runAt_emit ic C s2.b b blk2 _ _ ho2 hg3 hC st2 _ hex fuel
        · rw [hop]; simp [evalOperand, upd]
        · intro k hk
          simp only [upd]
          rw [if_neg (by omega)]
          rw [hp2 k (by omega)]
          exact hp1 k hk

theorem cfg_binary (wc : Ctx) (sc : QV.Spec.Sem.Ctx) (ic : ICtx) (hag : Agree wc sc ic)
    (wl : QV.Model.Locals) (vars : List QV.Spec.Sem.Var)
    (tok : BinaryToken) (op : BinaryOp) (l r : Expr) (htok : tok.toOp = some op) (hlog : ∀ lop, op ≠ .logical lop)
    (ihl : WalkOk wc sc ic wl vars l) (ihr : WalkOk wc sc ic wl vars r) : WalkOk wc sc ic wl vars (.binary tok l r) := by
  intro s s' x h hl hvr ho
  rw [run_binary wc tok op l r s htok hlog] at h
  cases hw1 : (walkRvalue wc l).run s with
  | mk q1 s1 =>
    rw [hw1] at h
    cases q1 with
    | none => simp only at h; injection h with h1 _; cases h1
    | some left =>
      simp only at h
      have r1 := ihl s s1 left hw1 hl hvr ho
      cases hw2 : (walkRvalue wc r).run s1 with
      | mk q2 s2 =>
        rw [hw2] at h
        cases q2 with
        | none => simp only at h; injection h with h1 _; cases h1
        | some right =>
          simp only at h
          have r2 := ihr s1 s2 right hw2 r1.locals (hvr.mono r1.walked.locals) r1.walked.exitOpen
          cases hv : visitBinaryExpression wc.F wc.env s2.b op left right with
          | error e => rw [hv] at h; simp only at h; injection h with h1 _; cases h1
          | ok xb =>
            obtain ⟨x', b⟩ := xb
            rw [hv] at h
            simp only at h
            injection h with h1 h2
            injection h1 with h1
            rw [← h1, ← h2]
            cases left with
            | const cl =>
              cases right with
              | const cr =>
                obtain ⟨_, hwk1, hok1, ⟨tx, hstx, htyx⟩, hsim1⟩ := r1
                obtain ⟨hl2, hwk2, hok2, ⟨ty, hsty, htyy⟩, hsim2⟩ := r2
                obtain ⟨vl0, hvl0⟩ := evalOperand_const_some ic (fun _ => none) cl hok1
                obtain ⟨vr0, hvr0⟩ := evalOperand_const_some ic (fun _ => none) cr hok2
                obtain ⟨hb, c', hres, hc', _⟩ :=
                  fold_const_binary ic (fun _ => none) wc.F wc.env s2.b op hlog cl cr hok1 hok2 x' b hv vl0 vr0 hvl0 hvr0
                subst hb; subst hres
                refine ⟨hl2, hwk1.trans hwk2, hc', ⟨binSTy op tx ty, sty_binary' sc vars tok op l r tx ty htok hstx hsty,
                  fold_binary_types wc.F wc.env _ _ op hlog cl cr _ tx ty hv hok1 hok2 htyx htyy⟩, ?_, const_nv _⟩
                intro C hC st sst sst' val hvars hw' hnc hval hspec
                rw [spec_binary sc tok op l r sst htok hlog] at hspec
                cases hsl : QV.Spec.Sem.evalExpr sc l sst with
                | none => simp [hsl] at hspec
                | some p =>
                  obtain ⟨va, sa⟩ := p
                  simp only [hsl] at hspec
                  have hC1 : Covers C s1.b s.b.currentRef := Covers.of_ext hwk2.toExt hC hwk1.cur_le
                  obtain ⟨rfl, d1, st1, hd1, hrun1, hv1, hp1, hw1', ht1, _⟩ := hsim1 C hC1 st sst sa va hvars hw' hnc hval hsl
                  cases hsr : QV.Spec.Sem.evalExpr sc r sa with
                  | none => simp [hsr] at hspec
                  | some q =>
                    obtain ⟨vb, sb⟩ := q
                    simp only [hsr, Option.map_eq_some_iff, Prod.mk.injEq] at hspec
                    obtain ⟨v', hbin, rfl, rfl⟩ := hspec
                    obtain ⟨rfl, d2, st2, hd2, hrun2, hv2, hp2, hw2', ht2, _⟩ :=
                      hsim2 C (hC.mono hwk1.cur_le) st1 sa sb vb hvars (hw'.trans hw1'.symm) (by rw [hw1']; exact hnc)
                        (hval.mono hvr hp1) hsr
                    have hv1' : evalOperand ic st2.L (.const cl) = some va := by
                      rw [evalOperand_agree ic st1.L st2.L _ (.const cl) hok1 hp2]; exact hv1
                    obtain ⟨_, c2, hres2, _, hval⟩ :=
                      fold_const_binary ic st2.L wc.F wc.env s2.b op hlog cl cr hok1 hok2 _ _ hv va vb hv1' hv2
                    have hn01 := hwk1.locals_le
                    have hc01 := hwk1.cur_le
                    have hc12 := hwk2.cur_le
                    refine ⟨rfl, d2 + d1, st2, ?_, ?_, hval v' (by rw [← hag.float]; exact hbin), ?_, hw2'.trans hw1',
                      ht2.trans ht1, fun hc => absurd rfl (hc _)⟩
                    · show d2 + d1 ≤ s2.b.currentRef - s.b.currentRef
                      omega
                    · intro fuel
                      rw [← Nat.add_assoc, hrun1 (fuel + d2), hrun2 fuel]
                    · intro k hk
                      rw [hp2 k (by omega)]
                      exact hp1 k hk
              | «local» m ty =>
                have hem : emitBinaryExpression wc.env s2.b op (.const cl) (.local m ty) = .ok (x', b) := by
                  simpa [visitBinaryExpression] using hv
                exact cfg_binary_emit wc sc ic hag wl vars tok op l r htok hlog s s1 s2 _ _ x' b hvr r1 r2
                  (Or.inr (by intro c hc; cases hc)) (Or.inr not_const_of_local) hem
              | _ => exact absurd r2.ok (by simp [OperandOk])
            | «local» m ty =>
              have hem : emitBinaryExpression wc.env s2.b op (.local m ty) right = .ok (x', b) := by
                simpa [visitBinaryExpression] using hv
              exact cfg_binary_emit wc sc ic hag wl vars tok op l r htok hlog s s1 s2 _ _ x' b hvr r1 r2
                (Or.inl (by intro c hc; cases hc)) (Or.inl not_const_of_local) hem
            | _ => exact absurd r1.ok (by simp [OperandOk])

end QV.Proofs.SemCfgWalk
