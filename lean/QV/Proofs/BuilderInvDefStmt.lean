/-
  C06, the builder for ALL programs — define-before-use, part 5: statements.
  A branch block claims what the block that branches to it knows; the block after an `if`/`switch` claims what was
  known when the condition / the switch value had been computed; every clause of a `switch` starts from that too
  (this is where the proof needs the per-clause name map of the repair 0aff63c: finding F100).
-/
import QV.Proofs.BuilderInvDefWalk

set_option linter.unusedSimpArgs false
set_option linter.unusedVariables false

namespace QV.Proofs.BuilderInv
open QV.Model QV.Model.Cfg

/-- the effect of walking a statement: as `EStep`, but the name map may change and `let v: T;` may add to `U` -/
structure SStep (s : WState) (ins : Ins) (s' : WState) (ins' : Ins) : Prop where
  pre : DPre s' ins'
  le : LeB s.b ins s'.b ins'
  m : ∀ x, Cur ins s.b x → Cur ins' s'.b x
  uu : ∀ x, UU s x → UU s' x

theorem SStep.refl {s : WState} {ins : Ins} (hp : DPre s ins) : SStep s ins s ins :=
  ⟨hp, LeB.refl _ _, fun _ h => h, fun _ h => h⟩

theorem SStep.trans {s1 s2 s3 : WState} {i1 i2 i3 : Ins} (h1 : SStep s1 i1 s2 i2) (h2 : SStep s2 i2 s3 i3) : SStep s1 i1 s3 i3 :=
  ⟨h2.pre, h1.le.trans h2.le, fun x hx => h2.m x (h1.m x hx), fun x hx => h2.uu x (h1.uu x hx)⟩

theorem SStep.of_estep {s s' : WState} {ins ins' : Ins} (e : EStep s ins s' ins') : SStep s ins s' ins' :=
  ⟨e.pre, e.le, e.m, fun x hx => by rw [UU_eq e.uueq]; exact hx⟩

/-- the target of `break` claims no more than is known here -/
def BreakOk (s : WState) (ins : Ins) (bl : Option Nat) : Prop :=
  ∀ l, bl = some l → l < len s.b ∧ ∀ x, ins l x → Cur ins s.b x

theorem BreakOk.of {s s' : WState} {ins ins' : Ins} {bl : Option Nat} (h : BreakOk s ins bl) (le : LeB s.b ins s'.b ins')
    (m : ∀ x, Cur ins s.b x → Cur ins' s'.b x) : BreakOk s' ins' bl := by
  intro l hl
  obtain ⟨h1, h2⟩ := h l hl
  refine ⟨Nat.lt_of_lt_of_le h1 le.mono, fun x hx => ?_⟩
  rw [le.ext l h1] at hx
  exact m x (h2 x hx)

theorem BreakOk.step {s s' : WState} {ins ins' : Ins} {bl : Option Nat} (h : BreakOk s ins bl) (e : SStep s ins s' ins') :
    BreakOk s' ins' bl := h.of e.le e.m

theorem BreakOk.lt {s : WState} {ins : Ins} {bl : Option Nat} (h : BreakOk s ins bl) : ∀ l, bl = some l → l < len s.b :=
  fun l hl => (h l hl).1

/-- after `mark_branch_point` with the claim `S` for the new block (no assumption on the old name map) -/
theorem mark_pre2 {s s' : WState} {ins : Ins} (hi : Inv s.b) (hd : DInv (UU s) ins s.b) (hb : s'.b = s.b.newBlock.2)
    (hu : s'.userUninit = s.userUninit) (S : Nat → Prop) (hloc : ∀ e ∈ s'.locals, UU s e.2.1 ∨ S e.2.1) :
    DPre s' (upd ins (len s.b) S) := by
  refine ⟨by rw [hb]; exact (adv_newBlock s.b).inv hi, by rw [hb, UU_eq hu]; exact hd.newBlock S hi, fun e he => ?_⟩
  rw [UU_eq hu]
  rcases hloc e he with h | h
  · exact Or.inl h
  · right; rw [hb]; exact (cur_newBlock S _).2 (Or.inl h)

/-! ### declarations -/

theorem mem_insert {m : Locals} {name : String} {v : Nat × DeclKind} {e : String × (Nat × DeclKind)}
    (h : e ∈ m.insert name v) : e = (name, v) ∨ e ∈ m := by
  unfold Locals.insert at h
  simp only [List.mem_cons, List.mem_filter] at h
  rcases h with h | h
  · exact Or.inl h
  · exact Or.inr h.1

theorem visitLocalDeclaration_lt {b b' : Builder} {ty : TypeKind} {n : Nat} (h : visitLocalDeclaration b ty = .ok (n, b')) :
    n < b'.code.locals.length := by
  unfold visitLocalDeclaration at h
  by_cases hv : ty = .void
  · subst hv; simp [Builder.alloca] at h
  · simp [Builder.alloca, hv] at h
    rw [← h.1, ← h.2]
    simp

theorem modify_uu {s s' : WState} {l : Nat}
    (h : run (modify fun s => { s with userUninit := s.userUninit ++ [l] } : W Unit) s = (some (), s')) :
    s' = { s with userUninit := s.userUninit ++ [l] } := by
  have := congrArg Prod.snd h
  simpa [run, modify, modifyGet, MonadStateOf.modifyGet, StateT.modifyGet, OptionT.lift, liftM, monadLift, MonadLift.monadLift,
    OptionT.mk, bind, StateT.bind, pure, StateT.pure, getModify] using this.symm

theorem d_decls (c : Ctx) (kind : DeclKind) : (ds : List Decl) → ∀ s s' ins, DPre s ins →
    run (walkDecls c kind ds) s = (some (), s') → ∃ ins', SStep s ins s' ins'
  | [], s, s', ins, hp, h => by
    simp [walkDecls] at h
    rw [← h]; exact ⟨ins, SStep.refl hp⟩
  | d :: rest, s, s', ins, hp, h => by
    simp only [walkDecls] at h
    obtain ⟨rvalue, s1, h1, h2⟩ := bind_ok h
    have g1 : ∃ ins1, EStep s ins s1 ins1 ∧ ∀ v, rvalue = some v → OpOk (UU s1) ins1 s1.b v := by
      cases hv : d.value with
      | some e =>
        simp only [hv] at h1
        obtain ⟨v, s1', h3, h4⟩ := bind_ok h1
        simp at h4
        rw [← h4.1, ← h4.2]
        obtain ⟨ins1, e1, hv1⟩ := rvalue_of_exprD (d_expr c e) s s1' v ins hp h3
        exact ⟨ins1, e1, fun v' hv' => by simp at hv'; rw [← hv']; exact hv1⟩
      | none =>
        simp only [hv] at h1
        split at h1 <;> simp at h1
        rw [← h1.1, ← h1.2]; exact ⟨ins, EStep.refl hp, fun v hv' => by simp at hv'⟩
    obtain ⟨ins1, e1, hrv⟩ := g1
    obtain ⟨ty, s2, h5, h6⟩ := bind_ok h2
    have e2 : s2 = s1 := by
      cases ha : d.ty with
      | some a => simp only [ha] at h5; exact processTypeAnnotation_ok h5
      | none =>
        simp only [ha] at h5
        split at h5
        · split at h5 <;> simp at h5
          exact h5.2.symm
        · simp at h5
    subst e2
    obtain ⟨b0, s3, h7, h8⟩ := bind_ok h6
    simp at h7
    obtain ⟨rfl, rfl⟩ := h7
    obtain ⟨l, s4, h9, h10⟩ := bind_ok h8
    obtain ⟨b1, h11, hs4⟩ := consumeLocal_ok h9
    have hds1 := visitLocalDeclaration_d (U := UU s2) (ins := ins1) h11 e1.pre.d
    have hsame1 := visitLocalDeclaration_same h11
    have hllt := visitLocalDeclaration_lt h11
    obtain ⟨ls, s5, h12, h13⟩ := bind_ok h10
    simp at h12
    obtain ⟨rfl, rfl⟩ := h12
    obtain ⟨u, s6, h14, h15⟩ := bind_ok h13
    simp at h14
    -- s6 : the builder after the alloca, the name map with the new variable
    have hb6 : s6.b = b1 := by rw [← h14, hs4]
    have hl6 : s6.locals = s2.locals.insert d.name (l, kind) := by rw [← h14, hs4]
    have hu6 : s6.userUninit = s2.userUninit := by rw [← h14, hs4]
    have hinv6 : Inv s6.b := by rw [hb6]; exact hsame1.adv.inv e1.pre.inv
    have hd6 : DInv (UU s2) ins1 s6.b := by rw [hb6]; exact hds1.d
    have hcur6 : ∀ x, Cur ins1 s2.b x → Cur ins1 s6.b x := fun x hx => by rw [hb6]; exact hds1.cur hx
    have hle6 : LeB s2.b ins1 s6.b ins1 := by rw [hb6]; exact LeB.of_ds hds1
    cases hr : rvalue with
    | none =>
      simp only [hr] at h15
      obtain ⟨u2, s7, h16, h17⟩ := bind_ok h15
      have e7 := modify_uu h16
      have hb7 : s7.b = s6.b := by rw [e7]
      have hl7 : s7.locals = s6.locals := by rw [e7]
      have hu7 : s7.userUninit = s6.userUninit ++ [l] := by rw [e7]
      have huu : ∀ x, UU s2 x → UU s7 x := by
        intro x hx
        show x ∈ s7.userUninit
        rw [hu7, hu6]; exact List.mem_append_left _ hx
      have hp7 : DPre s7 ins1 := by
        refine ⟨by rw [hb7]; exact hinv6, by rw [hb7]; exact hd6.weaken huu, fun e he => ?_⟩
        rw [hl7, hl6] at he
        rcases mem_insert he with h | h
        · left
          show e.2.1 ∈ s7.userUninit
          rw [h, hu7]; simp
        · rcases e1.pre.loc e h with h' | h'
          · exact Or.inl (huu _ h')
          · right; rw [hb7]; exact hcur6 _ h'
      have st7 : SStep s ins s7 ins1 :=
        ⟨hp7, e1.le.trans (by rw [hb7]; exact hle6), fun x hx => by rw [hb7]; exact hcur6 x (e1.m x hx),
         fun x hx => huu x (by rw [UU_eq e1.uueq]; exact hx)⟩
      obtain ⟨ins', st'⟩ := d_decls c kind rest s7 s' ins1 hp7 h17
      exact ⟨ins', st7.trans st'⟩
    | some v =>
      simp only [hr] at h15
      obtain ⟨bq, s8, h18, h19⟩ := bind_ok h15
      simp at h18
      obtain ⟨rfl, rfl⟩ := h18
      obtain ⟨u3, s9, h20, h17⟩ := bind_ok h19
      obtain ⟨b9, h21, hs9⟩ := consume_ok h20
      rw [hb6] at h21
      have hv2 : OpOk (UU s2) ins1 b1 v := fun x hx hu => hds1.cur (hrv v hr x hx hu)
      obtain ⟨hds9, _, hcurl⟩ := visitLocalAssignment_d (U := UU s2) (ins := ins1) h21 hds1.d
        (by rw [hds1.eq]; exact e1.pre.inv.pos) hv2
      have hsame9 := visitLocalAssignment_same h21
      have hb9 : s9.b = b9 := by rw [hs9]
      have hl9 : s9.locals = s2.locals.insert d.name (l, kind) := by rw [hs9]; exact hl6
      have hu9 : s9.userUninit = s2.userUninit := by rw [hs9]; exact hu6
      have hp9 : DPre s9 ins1 := by
        refine ⟨by rw [hb9]; exact hsame9.adv.inv (hsame1.adv.inv e1.pre.inv), by rw [hb9, UU_eq hu9]; exact hds9.d, fun e he => ?_⟩
        rw [hl9] at he
        rw [UU_eq hu9, hb9]
        rcases mem_insert he with h | h
        · right; rw [h]; exact hcurl hllt
        · rcases e1.pre.loc e h with h' | h'
          · exact Or.inl h'
          · right; exact hds9.cur (hds1.cur h')
      have st9 : SStep s ins s9 ins1 :=
        ⟨hp9, e1.le.trans (by rw [hb9]; exact (LeB.of_ds hds1).trans (LeB.of_ds hds9)),
         fun x hx => by rw [hb9]; exact hds9.cur (hds1.cur (e1.m x hx)),
         fun x hx => by rw [UU_eq hu9, UU_eq e1.uueq]; exact hx⟩
      obtain ⟨ins', st'⟩ := d_decls c kind rest s9 s' ins1 hp9 h17
      exact ⟨ins', st9.trans st'⟩

/-! ### `mark_branch_point` claiming what is known here -/

theorem mark_estep {s s' : WState} {l : Nat} {ins : Ins} (hp : DPre s ins) (h : run markBranchPoint s = (some l, s')) :
    l = len s.b - 1 ∧ s'.b = s.b.newBlock.2 ∧ EStep s ins s' (upd ins (len s.b) (Cur ins s.b)) := by
  obtain ⟨hl, hb, hlo, hu⟩ := mark_eq' h
  refine ⟨hl, hb, mark_pre' hp hb hlo hu _ (fun e he => hp.loc e he), by rw [hb]; exact LeB.newBlock _ _ _, fun x hx => ?_, hlo, hu⟩
  rw [hb]; exact (cur_newBlock _ x).2 (Or.inl hx)

/-! ### the case conditions of a `switch` -/

theorem d_caseConditions (c : Ctx) (left : Operand) : (cl : List (Option Expr × List Stmt)) → ∀ s s' conds ins, DPre s ins →
    OpOk (UU s) ins s.b left →
    run (walkCaseConditions c left cl) s = (some conds, s') →
    conds.length = (cl.filter (·.1.isSome)).length →
    ∃ ins', EStep s ins s' ins' ∧ ∀ x ∈ conds, x.2 + 1 < len s'.b ∧
      (∀ z ∈ operandReads x.1, ¬ UU s' z → Out ins' s'.b x.2 z) ∧
      (∀ z, ins' (x.2 + 1) z → Out ins' s'.b x.2 z) ∧
      (∀ z, Cur ins s.b z → Out ins' s'.b x.2 z)
  | [], s, s', conds, ins, hp, hleft, h, hlen => by
    simp [walkCaseConditions] at h
    rw [h.1, ← h.2]; exact ⟨ins, EStep.refl hp, by simp⟩
  | (none, body) :: rest, s, s', conds, ins, hp, hleft, h, hlen => by
    simp only [walkCaseConditions] at h
    exact d_caseConditions c left rest s s' conds ins hp hleft h (by simpa using hlen)
  | (some v, body) :: rest, s, s', conds, ins, hp, hleft, h, hlen => by
    simp only [walkCaseConditions] at h
    obtain ⟨r, s1, h1, h2⟩ := bind_ok h
    obtain ⟨others, s2, h3, h4⟩ := bind_ok h2
    have hle := caseConditions_length c left rest s1 s2 others h3
    cases r with
    | none =>
      simp at h4
      rw [← h4.1] at hlen
      simp at hlen
      omega
    | some x =>
      simp at h4
      obtain ⟨rfl, rfl⟩ := h4
      have hx := attempt_ok h1
      obtain ⟨right, s3, h5, h6⟩ := bind_ok hx
      obtain ⟨ins1, e1, hright⟩ := rvalue_of_exprD (d_expr c v) s s3 right ins hp h5
      obtain ⟨cnd, b', h7, h8⟩ := getB_consume_bind h6
      have hv := visitBinaryExpression_d h7 e1.pre.d e1.pre.inv.pos (OpOk.estep hleft e1) hright
      have e2 := EStep.of_ds e1.pre (visitBinaryExpression_same h7) hv.1
      generalize hs5 : ({ s3 with b := b' } : WState) = s5 at h8 e2
      have hcnd : OpOk (UU s5) ins1 s5.b cnd := by rw [← hs5]; exact hv.2
      obtain ⟨lbl, s6, h12, h13⟩ := bind_ok h8
      simp at h13
      obtain ⟨rfl, rfl⟩ := h13
      obtain ⟨hlbl, hb6, e3⟩ := mark_estep e2.pre h12
      have e13 := (e1.trans e2).trans e3
      have hpos5 := e2.pre.inv.pos
      have hlen6 : len s6.b = len s5.b + 1 := by rw [hb6]; simp
      have hleft6 : OpOk (UU s6) (upd ins1 (len s5.b) (Cur ins1 s5.b)) s6.b left := OpOk.estep hleft e13
      obtain ⟨ins', e4, hothers⟩ := d_caseConditions c left rest s6 s2 others _ e3.pre hleft6 h3 (by simp at hlen; omega)
      have hold : ∀ z, Cur ins1 s5.b z → Out ins' s2.b lbl z := by
        intro z hz
        rw [hlbl]
        exact e4.le.om _ (by omega) z (e3.le.om _ (by omega) z hz)
      refine ⟨ins', e13.trans e4, fun y hy => ?_⟩
      simp at hy
      rcases hy with rfl | hy
      · refine ⟨by have := e4.le.mono; simp only; omega, fun z hz hu => ?_, fun z hz => ?_, fun z hz => ?_⟩
        · simp only at hz ⊢
          rw [UU_eq e4.uueq, UU_eq e3.uueq] at hu
          exact hold z (hcnd z hz hu)
        · simp only at hz ⊢
          have h1 : lbl + 1 = len s5.b := by omega
          rw [h1, e4.le.ext _ (by omega), upd_same] at hz
          exact hold z hz
        · simp only
          exact hold z ((e1.trans e2).m z hz)
      · obtain ⟨g1, g2, g3, g4⟩ := hothers y hy
        exact ⟨g1, g2, g3, fun z hz => g4 z (e13.m z hz)⟩

/-! ### `break`, `return` -/

theorem break_d {s : WState} {ins : Ins} {l : Nat} (hp : DPre s ins) (hbr : l < len s.b ∧ ∀ x, ins l x → Cur ins s.b x) :
    SStep s ins { s with b := visitBreakStatement s.b l } (upd ins (len s.b) (Cur ins s.b)) := by
  obtain ⟨hd, hold, hnew⟩ := visitBreak_d s.b l (Cur ins s.b) hp.d hp.inv hbr.1 hbr.2
  obtain ⟨hadv, hlen, _⟩ := visitBreakStatement_adv s.b l hbr.1 hp.inv.pos
  have hcur : ∀ x, Cur ins s.b x → Cur (upd ins (len s.b) (Cur ins s.b)) (visitBreakStatement s.b l) x := by
    intro x hx
    unfold Cur
    rw [hlen]
    show Out _ _ (len s.b) x
    exact (hnew x).2 (Or.inl hx)
  refine ⟨⟨hadv.inv hp.inv, hd, fun e he => ?_⟩, ⟨by show len s.b ≤ len (visitBreakStatement s.b l); omega, fun i hi => upd_ne ins _ (by omega),
    fun i hi x hx => (hold i x (by omega)).2 hx⟩, hcur, fun x hx => hx⟩
  rcases hp.loc e he with h | h
  · exact Or.inl h
  · exact Or.inr (hcur _ h)

theorem return_d {s : WState} {ins : Ins} {v : Operand} (hp : DPre s ins) (hv : OpOk (UU s) ins s.b v) :
    SStep s ins { s with b := visitReturnStatement s.b v } (upd ins (len s.b) (Cur ins s.b)) := by
  obtain ⟨hd, hold, hnew⟩ := visitReturn_d s.b v (Cur ins s.b) hp.d hp.inv hv
  obtain ⟨hadv, hlen, _⟩ := visitReturnStatement_adv s.b v hp.inv.pos
  have hcur : ∀ x, Cur ins s.b x → Cur (upd ins (len s.b) (Cur ins s.b)) (visitReturnStatement s.b v) x := by
    intro x hx
    unfold Cur
    rw [hlen]
    show Out _ _ (len s.b) x
    exact (hnew x).2 (Or.inl hx)
  refine ⟨⟨hadv.inv hp.inv, hd, fun e he => ?_⟩, ⟨by show len s.b ≤ len (visitReturnStatement s.b v); omega, fun i hi => upd_ne ins _ (by omega),
    fun i hi x hx => (hold i x (by omega)).2 hx⟩, hcur, fun x hx => hx⟩
  rcases hp.loc e he with h | h
  · exact Or.inl h
  · exact Or.inr (hcur _ h)

/-! ### the induction over statements -/

def StmtD (c : Ctx) (bl : Option Nat) (st : Stmt) : Prop :=
  ∀ s s' ins, DPre s ins → BreakOk s ins bl → run (walkStmt c bl st) s = (some (), s') → ∃ ins', SStep s ins s' ins'

def StmtsD (c : Ctx) (bl : Option Nat) (ss : List Stmt) : Prop :=
  ∀ s s' ins, DPre s ins → BreakOk s ins bl → run (walkStmts c bl ss) s = (some true, s') → ∃ ins', SStep s ins s' ins'

/-- the clause bodies of a `switch` whose `break` target is `er`; `D`: what is known once the value and the case
    conditions' common prefix have been computed (every body starts from it) -/
def BodiesD (c : Ctx) (er : Nat) (cl : List (Option Expr × List Stmt)) : Prop :=
  ∀ s s' bodies ins (D : Nat → Prop), DPre s ins → (∀ z, D z → Cur ins s.b z) → (∀ e ∈ s.locals, UU s e.2.1 ∨ D e.2.1) →
    er < len s.b → (∀ z, ins er z → D z) →
    run (walkBodies c (some er) cl) s = (some bodies, s') → bodies.length = cl.length →
    ∃ ins', DPre s' ins' ∧ LeB s.b ins s'.b ins' ∧ (∀ z, UU s z → UU s' z) ∧ (∀ z, D z → Cur ins' s'.b z) ∧
      s'.locals = s.locals ∧
      ∀ r ∈ bodies, r + 1 < len s'.b ∧ (∀ z, ins' (r + 1) z → D z) ∧ (∀ z, D z → Out ins' s'.b r z)

theorem expr_stmt_d (c : Ctx) (bl : Option Nat) (e : Expr) : StmtD c bl (.expr e) := by
  intro s s' ins hp hbl h
  simp only [walkStmt] at h
  obtain ⟨v, s1, h1, h2⟩ := bind_ok h
  obtain ⟨ins1, e1, hv⟩ := rvalue_of_exprD (d_expr c e) s s1 v ins hp h1
  obtain ⟨b, s2, h3, h4⟩ := bind_ok h2
  simp at h3 h4
  obtain ⟨rfl, rfl⟩ := h3
  rw [← h4]
  have hds := visitExpressionStatement_d (U := UU s1) (ins := ins1) e1.pre.d hv
  exact ⟨ins1, (SStep.of_estep e1).trans (SStep.of_estep (EStep.of_ds e1.pre (visitExpressionStatement_same _ _) hds))⟩

theorem if_d (c : Ctx) (bl : Option Nat) (cnd : Expr) (a : Stmt) (b : Option Stmt) (ha : StmtD c bl a)
    (hb : ∀ n, b = some n → StmtD c bl n) : StmtD c bl (.if_ cnd a b) := by
  intro s s' ins hp hbl h
  have hinv' : Inv s'.b := (good_stmt c bl (.if_ cnd a b) s s' hp.inv hbl.lt h).inv hp.inv
  simp only [walkStmt] at h
  obtain ⟨cv, s1, h1, h2⟩ := bind_ok h
  obtain ⟨ins1, e1, hcv⟩ := rvalue_of_exprD (d_expr c cnd) s s1 cv ins hp h1
  obtain ⟨cl, s2, h3, h4⟩ := bind_ok h2
  obtain ⟨hcl, hb2, e2⟩ := mark_estep e1.pre h3
  have hbl2 : BreakOk s2 _ bl := hbl.of (e1.trans e2).le (e1.trans e2).m
  obtain ⟨outer, s3x, h5, h6⟩ := bind_ok h4
  simp at h5
  obtain ⟨rfl, rfl⟩ := h5
  obtain ⟨r, s4, h7, h8⟩ := bind_ok h6
  have hx := attempt_ok h7
  obtain ⟨u, s5, h9, h10⟩ := bind_ok h8
  simp at h9
  cases r with
  | none => simp at h10
  | some u0 =>
    simp only at h10
    obtain ⟨ins4, st4⟩ := ha s2 s4 _ e2.pre hbl2 hx
    have hb5 : s5.b = s4.b := by rw [← h9]
    have hl5 : s5.locals = s2.locals := by rw [← h9]
    have hu5 : s5.userUninit = s4.userUninit := by rw [← h9]
    -- what the condition block knows: the claim of every block opened from here on
    have hpos1 := e1.pre.inv.pos
    have hlen3 : len s2.b = len s1.b + 1 := by rw [hb2]; simp
    have hmono4 : len s1.b + 1 ≤ len s4.b := by have := st4.le.mono; omega
    have huu14 : ∀ x, UU s1 x → UU s4 x := fun x hx => st4.uu x (by rw [UU_eq e2.uueq]; exact hx)
    have hlocD : ∀ e ∈ s2.locals, UU s1 e.2.1 ∨ Cur ins1 s1.b e.2.1 := by
      intro e he
      rw [e2.locs] at he
      exact e1.pre.loc e he
    obtain ⟨al, s6, h11, h12⟩ := bind_ok h10
    obtain ⟨hal, hb6, hl6, hu6⟩ := mark_eq' h11
    have hp6 : DPre s6 (upd ins4 (len s4.b) (Cur ins1 s1.b)) := by
      have := mark_pre2 (s := s5) (s' := s6) (ins := ins4) (by rw [hb5]; exact st4.pre.inv)
        (by rw [hb5, UU_eq hu5]; exact st4.pre.d) hb6 hu6 (Cur ins1 s1.b) (fun e he => by
          rw [hl6, hl5] at he
          rcases hlocD e he with h | h
          · left; rw [UU_eq hu5]; exact huu14 _ h
          · exact Or.inr h)
      rw [hb5] at this
      exact this
    have L13 := e2.le
    have L34 := st4.le
    have L46 : LeB s4.b ins4 s6.b (upd ins4 (len s4.b) (Cur ins1 s1.b)) := by rw [hb6, hb5]; exact LeB.newBlock _ _ _
    have L16 := (L13.trans L34).trans L46
    have hcur6 : ∀ z, Cur ins1 s1.b z → Cur (upd ins4 (len s4.b) (Cur ins1 s1.b)) s6.b z := by
      intro z hz
      rw [hb6, hb5]; exact (cur_newBlock _ z).2 (Or.inl hz)
    have hlen6 : len s6.b = len s4.b + 1 := by rw [hb6, hb5]; simp
    have hal' : al = len s4.b - 1 := by rw [hal, hb5]
    have hpos4 := st4.pre.inv.pos
    -- facts about the condition block and the first branch, at `s6`
    have hC6 : ∀ z, Cur ins1 s1.b z → Out (upd ins4 (len s4.b) (Cur ins1 s1.b)) s6.b cl z := by
      intro z hz
      rw [hcl]
      exact L16.om _ (by omega) z hz
    have hX6 : ∀ z, Cur ins1 s1.b z → Out (upd ins4 (len s4.b) (Cur ins1 s1.b)) s6.b al z := by
      intro z hz
      rw [hal']
      exact L46.om _ (by omega) z (st4.m z (e2.m z hz))
    have hi1 : (upd ins4 (len s4.b) (Cur ins1 s1.b)) (cl + 1) = Cur ins1 s1.b := by
      have h1 : cl + 1 = len s1.b := by omega
      rw [h1, L46.ext _ (by omega), L34.ext _ (by omega), upd_same]
    have hi2 : (upd ins4 (len s4.b) (Cur ins1 s1.b)) (al + 1) = Cur ins1 s1.b := by
      have h1 : al + 1 = len s4.b := by omega
      rw [h1, upd_same]
    have hbl6 : BreakOk s6 (upd ins4 (len s4.b) (Cur ins1 s1.b)) bl :=
      hbl.of (e1.le.trans L16) (fun z hz => hcur6 z (e1.m z hz))
    have huu6 : ∀ x, UU s1 x → UU s6 x := fun x hx => by rw [UU_eq hu6, UU_eq hu5]; exact huu14 x hx
    obtain ⟨alt, s7, h13, h14⟩ := bind_ok h12
    cases b with
    | none =>
      simp at h13
      obtain ⟨rfl, rfl⟩ := h13
      obtain ⟨u1, s8, h15, h16⟩ := bind_ok h14
      rw [checkConditionType_ok h15] at h16
      obtain ⟨bb, s9, h17, h18⟩ := bind_ok h16
      simp at h17 h18
      obtain ⟨rfl, rfl⟩ := h17
      have hds := visitIf_d (U := UU s6) (ins := upd ins4 (len s4.b) (Cur ins1 s1.b)) s6.b cv cl al none hp6.d
        (fun z hz hu => hC6 z (hcv z hz (fun h => hu (huu6 z h))))
        (fun z hz => by rw [hi1] at hz; exact hC6 z hz)
        (fun z hz => by rw [hi2] at hz; exact hC6 z hz)
        (fun z hz => by simp only [Option.getD_none] at hz; rw [hi2] at hz; exact hX6 z hz)
        (fun y hy => by simp at hy)
      have hb' : s'.b = visitIfStatement s6.b cv cl al none := by rw [← h18]
      have hl' : s'.locals = s6.locals := by rw [← h18]
      have hu' : s'.userUninit = s6.userUninit := by rw [← h18]
      refine ⟨_, ⟨⟨hinv', by rw [hb', UU_eq hu']; exact hds.d, fun e he => ?_⟩, by rw [hb']; exact e1.le.trans (L16.trans (LeB.of_ds hds)),
        fun z hz => by rw [hb']; exact hds.cur (hcur6 z (e1.m z hz)), fun z hz => by
          rw [UU_eq hu']; exact huu6 z (by rw [UU_eq e1.uueq]; exact hz)⟩⟩
      rw [hl', hl6, hl5] at he
      rw [hb', UU_eq hu']
      rcases hlocD e he with h | h
      · exact Or.inl (huu6 _ h)
      · exact Or.inr (hds.cur (hcur6 _ h))
    | some bs =>
      simp only at h13
      obtain ⟨r2, s8, h15, h16⟩ := bind_ok h13
      have hx2 := attempt_ok h15
      obtain ⟨u2, s9, h17, h18⟩ := bind_ok h16
      simp at h17
      cases r2 with
      | none => simp at h18
      | some u3 =>
        simp only at h18
        obtain ⟨ins8, st8⟩ := hb bs rfl s6 s8 _ hp6 hbl6 hx2
        have hb9 : s9.b = s8.b := by rw [← h17]
        have hl9 : s9.locals = s2.locals := by rw [← h17]
        have hu9 : s9.userUninit = s8.userUninit := by rw [← h17]
        obtain ⟨lb, s10, h19, h20⟩ := bind_ok h18
        obtain ⟨hlb, hb10, hl10, hu10⟩ := mark_eq' h19
        simp at h20
        obtain ⟨rfl, rfl⟩ := h20
        obtain ⟨u1, s11, h21, h22⟩ := bind_ok h14
        rw [checkConditionType_ok h21] at h22
        obtain ⟨bb, s12, h23, h24⟩ := bind_ok h22
        simp at h23 h24
        obtain ⟨rfl, rfl⟩ := h23
        have hmono8 : len s4.b + 1 ≤ len s8.b := by have := st8.le.mono; omega
        have hpos8 := st8.pre.inv.pos
        have huu8 : ∀ x, UU s1 x → UU s8 x := fun x hx => st8.uu x (huu6 x hx)
        have hp10 : DPre s10 (upd ins8 (len s8.b) (Cur ins1 s1.b)) := by
          have := mark_pre2 (s := s9) (s' := s10) (ins := ins8) (by rw [hb9]; exact st8.pre.inv)
            (by rw [hb9, UU_eq hu9]; exact st8.pre.d) hb10 hu10 (Cur ins1 s1.b) (fun e he => by
              rw [hl10, hl9] at he
              rcases hlocD e he with h | h
              · left; rw [UU_eq hu9]; exact huu8 _ h
              · exact Or.inr h)
          rw [hb9] at this
          exact this
        have L68 := st8.le
        have L810 : LeB s8.b ins8 s10.b (upd ins8 (len s8.b) (Cur ins1 s1.b)) := by rw [hb10, hb9]; exact LeB.newBlock _ _ _
        have L610 := L68.trans L810
        have hlb' : lb = len s8.b - 1 := by rw [hlb, hb9]
        have hcur10 : ∀ z, Cur ins1 s1.b z → Cur (upd ins8 (len s8.b) (Cur ins1 s1.b)) s10.b z := by
          intro z hz
          rw [hb10, hb9]; exact (cur_newBlock _ z).2 (Or.inl hz)
        have hj : (upd ins8 (len s8.b) (Cur ins1 s1.b)) (lb + 1) = Cur ins1 s1.b := by
          have h1 : lb + 1 = len s8.b := by omega
          rw [h1, upd_same]
        have hi1' : (upd ins8 (len s8.b) (Cur ins1 s1.b)) (cl + 1) = Cur ins1 s1.b := by
          rw [L610.ext _ (by omega)]; exact hi1
        have hi2' : (upd ins8 (len s8.b) (Cur ins1 s1.b)) (al + 1) = Cur ins1 s1.b := by
          rw [L610.ext _ (by omega)]; exact hi2
        have huu10 : ∀ x, UU s1 x → UU s10 x := fun x hx => by rw [UU_eq hu10, UU_eq hu9]; exact huu8 x hx
        have hds := visitIf_d (U := UU s10) (ins := upd ins8 (len s8.b) (Cur ins1 s1.b)) s10.b cv cl al (some lb) hp10.d
          (fun z hz hu => L610.om _ (by omega) z (hC6 z (hcv z hz (fun h => hu (huu10 z h)))))
          (fun z hz => by rw [hi1'] at hz; exact L610.om _ (by omega) z (hC6 z hz))
          (fun z hz => by rw [hi2'] at hz; exact L610.om _ (by omega) z (hC6 z hz))
          (fun z hz => by
            simp only [Option.getD_some] at hz
            rw [hj] at hz
            exact L610.om _ (by omega) z (hX6 z hz))
          (fun y hy z hz => by
            simp at hy
            subst hy
            rw [hj] at hz
            rw [hlb']
            exact L810.om _ (by omega) z (st8.m z (hcur6 z hz)))
        have hb' : s'.b = visitIfStatement s10.b cv cl al (some lb) := by rw [← h24]
        have hl' : s'.locals = s10.locals := by rw [← h24]
        have hu' : s'.userUninit = s10.userUninit := by rw [← h24]
        refine ⟨_, ⟨⟨hinv', by rw [hb', UU_eq hu']; exact hds.d, fun e he => ?_⟩,
          by rw [hb']; exact e1.le.trans (L16.trans (L610.trans (LeB.of_ds hds))),
          fun z hz => by rw [hb']; exact hds.cur (hcur10 z (e1.m z hz)), fun z hz => by
            rw [UU_eq hu']; exact huu10 z (by rw [UU_eq e1.uueq]; exact hz)⟩⟩
        rw [hl', hl10, hl9] at he
        rw [hb', UU_eq hu']
        rcases hlocD e he with h | h
        · exact Or.inl (huu10 _ h)
        · exact Or.inr (hds.cur (hcur10 _ h))

theorem switch_d (c : Ctx) (bl : Option Nat) (v : Expr) (cl : List (Option Expr × List Stmt)) (hbodies : ∀ er, BodiesD c er cl) :
    StmtD c bl (.switch v cl) := by
  intro s s' ins hp hbl h
  have hinv' : Inv s'.b := (good_stmt c bl (.switch v cl) s s' hp.inv hbl.lt h).inv hp.inv
  simp only [walkStmt] at h
  by_cases hmd : (cl.filter (·.1.isNone)).length > 1
  · simp [hmd] at h
  · simp only [hmd, if_false] at h
    obtain ⟨left, s1, h1, h2⟩ := bind_ok h
    obtain ⟨ins1, e1, hleft⟩ := rvalue_of_exprD (d_expr c v) s s1 left ins hp h1
    obtain ⟨conds, s2, h3, h4⟩ := bind_ok h2
    obtain ⟨hr, s3, h5, h6⟩ := bind_ok h4
    obtain ⟨er, s4, h7, h8⟩ := bind_ok h6
    obtain ⟨outer, s5, h9, h10⟩ := bind_ok h8
    simp at h9
    obtain ⟨hout, hs5⟩ := h9
    subst hs5
    obtain ⟨bodies?, s6, h11, h12⟩ := bind_ok h10
    have hx := attempt_ok h11
    obtain ⟨u, s7, h13, h14⟩ := bind_ok h12
    simp at h13
    cases bodies? with
    | none => simp at h14
    | some bodies =>
      simp only at h14
      by_cases hlen : (cl.filter (·.1.isSome)).length = conds.length ∧ cl.length = bodies.length
      · simp only [hlen, and_self, if_true] at h14
        obtain ⟨bb, s8, h15, h16⟩ := bind_ok h14
        simp at h15 h16
        have hb' : s'.b = visitSwitchStatement s6.b conds bodies (cl.findIdx? (·.1.isNone)) hr er := by
          rw [← h16, ← h15.2, ← h15.1, ← h13]
        have hl' : s'.locals = outer := by rw [← h16, ← h15.2, ← h13]
        have hu' : s'.userUninit = s6.userUninit := by rw [← h16, ← h15.2, ← h13]
        -- the case conditions
        obtain ⟨ins2, e2, hconds⟩ := d_caseConditions c left cl s1 s2 conds ins1 e1.pre hleft h3 hlen.1.symm
        have hu21 : UU s2 = UU s1 := UU_eq e2.uueq
        have hlocD : ∀ e ∈ s1.locals, UU s1 e.2.1 ∨ Cur ins1 s1.b e.2.1 := e1.pre.loc
        -- the head mark: the block that `break` targets claims D
        obtain ⟨hhr, hb3, hl3, hu3⟩ := mark_eq' h5
        have hp3 : DPre s3 (upd ins2 (len s2.b) (Cur ins1 s1.b)) :=
          mark_pre2 e2.pre.inv e2.pre.d hb3 hu3 _ (fun e he => by
            rw [hl3, e2.locs] at he
            rw [hu21]; exact hlocD e he)
        -- the exit mark: the first body block claims D
        obtain ⟨her, hb4, hl4, hu4⟩ := mark_eq' h7
        have hu31 : UU s3 = UU s1 := (UU_eq hu3).trans hu21
        have hp4 : DPre s4 (upd (upd ins2 (len s2.b) (Cur ins1 s1.b)) (len s3.b) (Cur ins1 s1.b)) :=
          mark_pre2 hp3.inv hp3.d hb4 hu4 _ (fun e he => by
            rw [hl4, hl3, e2.locs] at he
            rw [hu31]; exact hlocD e he)
        have hu41 : UU s4 = UU s1 := (UU_eq hu4).trans hu31
        have hpos2 := e2.pre.inv.pos
        have hlen3 : len s3.b = len s2.b + 1 := by rw [hb3]; simp
        have hlen4 : len s4.b = len s3.b + 1 := by rw [hb4]; simp
        have L23 : LeB s2.b ins2 s3.b (upd ins2 (len s2.b) (Cur ins1 s1.b)) := by rw [hb3]; exact LeB.newBlock _ _ _
        have L34 : LeB s3.b (upd ins2 (len s2.b) (Cur ins1 s1.b)) s4.b
            (upd (upd ins2 (len s2.b) (Cur ins1 s1.b)) (len s3.b) (Cur ins1 s1.b)) := by rw [hb4]; exact LeB.newBlock _ _ _
        have hD4 : ∀ z, Cur ins1 s1.b z → Cur (upd (upd ins2 (len s2.b) (Cur ins1 s1.b)) (len s3.b) (Cur ins1 s1.b)) s4.b z := by
          intro z hz
          rw [hb4]; exact (cur_newBlock _ z).2 (Or.inl hz)
        have hier : (upd (upd ins2 (len s2.b) (Cur ins1 s1.b)) (len s3.b) (Cur ins1 s1.b)) er = Cur ins1 s1.b := by
          have h1 : er = len s2.b := by omega
          rw [h1, upd_ne _ _ (by omega), upd_same]
        obtain ⟨ins6, hp6, L46, huu46, hD6, hl6, hbod⟩ := hbodies er s4 s6 bodies _ (Cur ins1 s1.b) hp4 hD4
          (fun e he => by
            rw [hl4, hl3, e2.locs] at he
            rw [hu41]; exact hlocD e he)
          (by omega) (fun z hz => by rw [hier] at hz; exact hz) hx hlen.2.symm
        have L26 := L23.trans (L34.trans L46)
        have huu16 : ∀ z, UU s1 z → UU s6 z := fun z hz => huu46 z (by rw [hu41]; exact hz)
        have hds := visitSwitch_d (U := UU s6) (ins := ins6) (Cur ins1 s1.b) s6.b conds bodies (cl.findIdx? (·.1.isNone)) hr er hp6.d
          (fun x hx' => by
            obtain ⟨g1, g2, g3, g4⟩ := hconds x hx'
            refine ⟨fun z hz hu => L26.om _ (by omega) z (g2 z hz (fun h => hu (huu16 z (by rw [← hu21]; exact h)))),
              fun z hz => ?_, fun z hz => L26.om _ (by omega) z (g4 z hz)⟩
            rw [L26.ext _ g1] at hz
            exact L26.om _ (by omega) z (g3 z hz))
          (fun r hr' => ⟨(hbod r hr').2.1, (hbod r hr').2.2⟩)
          (fun z hz => by
            rw [hhr]
            exact L26.om _ (by omega) z (e2.m z hz))
          ⟨fun z hz => by
              have h1 : er + 1 = len s3.b := by omega
              rw [h1, L46.ext _ (by omega), upd_same] at hz
              exact hz,
           fun z hz => by
              refine L46.om _ (by omega) z ?_
              right; left
              rw [hier]; exact hz⟩
        refine ⟨ins6, ⟨⟨hinv', by rw [hb', UU_eq hu']; exact hds.d, fun e he => ?_⟩,
          by rw [hb']; exact e1.le.trans (e2.le.trans (L26.trans (LeB.of_ds hds))),
          fun z hz => by rw [hb']; exact hds.cur (hD6 z (e1.m z hz)),
          fun z hz => by rw [UU_eq hu']; exact huu16 z (by rw [UU_eq e1.uueq]; exact hz)⟩⟩
        rw [hl', ← hout, hl4, hl3, e2.locs] at he
        rw [hb', UU_eq hu']
        rcases hlocD e he with h | h
        · exact Or.inl (huu16 _ h)
        · exact Or.inr (hds.cur (hD6 _ h))
      · simp [hlen] at h14

mutual

theorem d_stmt (c : Ctx) (bl : Option Nat) : (st : Stmt) → StmtD c bl st
  | .expr e => expr_stmt_d c bl e
  | .lexical kind ds => by
    intro s s' ins hp hbl h
    simp only [walkStmt] at h
    exact d_decls c kind ds s s' ins hp h
  | .break_ labeled => by
    intro s s' ins hp hbl h
    simp only [walkStmt] at h
    cases labeled with
    | true => simp at h
    | false =>
      simp only [Bool.false_eq_true, if_false] at h
      cases bl with
      | none => simp at h
      | some l =>
        simp only at h
        obtain ⟨b, s1, h1, h2⟩ := bind_ok h
        simp at h1 h2
        obtain ⟨hb, hs1⟩ := h1
        subst hs1
        subst hb
        rw [← h2]
        exact ⟨_, break_d hp (hbl l rfl)⟩
  | .return_ e => by
    intro s s' ins hp hbl h
    simp only [walkStmt] at h
    obtain ⟨v, s1, h1, h2⟩ := bind_ok h
    obtain ⟨b, s2, h3, h4⟩ := bind_ok h2
    simp at h3 h4
    obtain ⟨hb, hs2⟩ := h3
    subst hs2
    subst hb
    have g1 : ∃ ins1, EStep s ins s1 ins1 ∧ OpOk (UU s1) ins1 s1.b v := by
      cases e with
      | none => simp at h1; rw [← h1.1, ← h1.2]; exact ⟨ins, EStep.refl hp, OpOk.void _ _ _⟩
      | some x => simp only at h1; exact rvalue_of_exprD (d_expr c x) s s1 v ins hp h1
    obtain ⟨ins1, e1, hv⟩ := g1
    rw [← h4]
    exact ⟨_, (SStep.of_estep e1).trans (return_d e1.pre hv)⟩
  | .block ss => by
    intro s s' ins hp hbl h
    simp only [walkStmt] at h
    obtain ⟨outer, s1, h1, h2⟩ := bind_ok h
    simp at h1
    obtain ⟨hout, hs1⟩ := h1
    subst hs1
    obtain ⟨ok, s2, h3, h4⟩ := bind_ok h2
    obtain ⟨u, s3, h5, h6⟩ := bind_ok h4
    simp at h5
    cases ok with
    | false => simp at h6
    | true =>
      simp at h6
      obtain ⟨ins2, st2⟩ := d_stmts c bl ss s s2 ins hp hbl h3
      rw [← h6, ← h5]
      refine ⟨ins2, ⟨⟨st2.pre.inv, st2.pre.d, fun e he => ?_⟩, st2.le, st2.m, st2.uu⟩⟩
      simp only at he
      rw [← hout] at he
      rcases hp.loc e he with h | h
      · exact Or.inl (st2.uu _ h)
      · exact Or.inr (st2.m _ h)
  | .if_ cnd a b => by
    cases b with
    | none => exact if_d c bl cnd a none (d_stmt c bl a) (by intro n hn; cases hn)
    | some n => exact if_d c bl cnd a (some n) (d_stmt c bl a) (by intro m hm; cases hm; exact d_stmt c bl n)
  | .switch v cl => switch_d c bl v cl (fun er => d_bodies c er cl)

theorem d_stmts (c : Ctx) (bl : Option Nat) : (ss : List Stmt) → StmtsD c bl ss
  | [] => by
    intro s s' ins hp hbl h
    simp [walkStmts] at h
    rw [← h]; exact ⟨ins, SStep.refl hp⟩
  | st :: rest => by
    intro s s' ins hp hbl h
    simp only [walkStmts] at h
    obtain ⟨r, s1, h1, h2⟩ := bind_ok h
    have hx := attempt_ok h1
    cases r with
    | none =>
      simp only at h2
      obtain ⟨u, s2, h3, h4⟩ := bind_ok h2
      simp at h4
    | some u =>
      simp only at h2
      obtain ⟨ins1, st1⟩ := d_stmt c bl st s s1 ins hp hbl hx
      obtain ⟨ins2, st2⟩ := d_stmts c bl rest s1 s' ins1 st1.pre (hbl.step st1) h2
      exact ⟨ins2, st1.trans st2⟩

theorem d_bodies (c : Ctx) (er : Nat) : (cl : List (Option Expr × List Stmt)) → BodiesD c er cl
  | [] => by
    intro s s' bodies ins D hp hD hloc her hier h hlen
    simp [walkBodies] at h
    rw [h.1, ← h.2]
    exact ⟨ins, hp, LeB.refl _ _, fun _ h => h, hD, rfl, by simp⟩
  | (cv, body) :: rest => by
    intro s s' bodies ins D hp hD hloc her hier h hlen
    simp only [walkBodies] at h
    obtain ⟨outer, s0, h0, h0'⟩ := bind_ok h
    simp at h0
    obtain ⟨hout, hs0⟩ := h0
    subst hs0
    obtain ⟨ok, s1a, h1, h1'⟩ := bind_ok h0'
    obtain ⟨u, s1, hset, h2⟩ := bind_ok h1'
    simp at hset
    cases ok with
    | false =>
      simp only [Bool.false_eq_true, if_false] at h2
      have := bodies_length c (some er) rest s1 s' bodies h2
      simp at hlen
      omega
    | true =>
      simp only [if_true] at h2
      obtain ⟨l, s2, h3, h4⟩ := bind_ok h2
      obtain ⟨others, s3, h5, h6⟩ := bind_ok h4
      simp at h6
      obtain ⟨hbod, hs3⟩ := h6
      subst hs3
      have hbr : BreakOk s ins (some er) := by
        intro l' hl'
        simp at hl'
        subst hl'
        exact ⟨her, fun x hx => hD x (hier x hx)⟩
      obtain ⟨ins1, st1⟩ := d_stmts c (some er) body s s1a ins hp hbr h1
      have hb1 : s1.b = s1a.b := by rw [← hset]
      have hl1 : s1.locals = outer := by rw [← hset]
      have hu1 : s1.userUninit = s1a.userUninit := by rw [← hset]
      obtain ⟨hl, hb2, hl2, hu2⟩ := mark_eq' h3
      have hpos1 := st1.pre.inv.pos
      have hl' : l = len s1a.b - 1 := by rw [hl, hb1]
      have hlen2 : len s2.b = len s1a.b + 1 := by rw [hb2, hb1]; simp
      have hmono1 := st1.le.mono
      have hp2 : DPre s2 (upd ins1 (len s1a.b) D) := by
        have := mark_pre2 (s := s1) (s' := s2) (ins := ins1) (by rw [hb1]; exact st1.pre.inv)
          (by rw [hb1, UU_eq hu1]; exact st1.pre.d) hb2 hu2 D (fun e he => by
            rw [hl2, hl1, ← hout] at he
            rw [UU_eq hu1]
            rcases hloc e he with h | h
            · exact Or.inl (st1.uu _ h)
            · exact Or.inr h)
        rw [hb1] at this
        exact this
      have L12 : LeB s1a.b ins1 s2.b (upd ins1 (len s1a.b) D) := by rw [hb2, hb1]; exact LeB.newBlock _ _ _
      have hD2 : ∀ z, D z → Cur (upd ins1 (len s1a.b) D) s2.b z := by
        intro z hz
        rw [hb2, hb1]; exact (cur_newBlock _ z).2 (Or.inl hz)
      have huu2 : ∀ z, UU s z → UU s2 z := fun z hz => by rw [UU_eq hu2, UU_eq hu1]; exact st1.uu z hz
      obtain ⟨ins', hp', L23, huu23, hD', hl3, hothers⟩ := d_bodies c er rest s2 s3 others (upd ins1 (len s1a.b) D) D hp2 hD2
        (fun e he => by
          rw [hl2, hl1, ← hout] at he
          rcases hloc e he with h | h
          · exact Or.inl (huu2 _ h)
          · exact Or.inr h)
        (by omega)
        (fun z hz => by
          rw [upd_ne _ _ (by omega), st1.le.ext _ her] at hz
          exact hier z hz)
        h5 (by rw [← hbod] at hlen; simp at hlen; exact hlen)
      have L02 := st1.le.trans L12
      refine ⟨ins', hp', L02.trans L23, fun z hz => huu23 z (huu2 z hz), hD', by rw [hl3, hl2, hl1, ← hout], fun r hr => ?_⟩
      rw [← hbod] at hr
      simp at hr
      rcases hr with rfl | hr
      · refine ⟨by have := L23.mono; omega, fun z hz => ?_, fun z hz => ?_⟩
        · have h1 : r + 1 = len s1a.b := by omega
          rw [h1, L23.ext _ (by omega), upd_same] at hz
          exact hz
        · rw [hl']
          exact L23.om _ (by omega) z (L12.om _ (by omega) z (st1.m z (hD z hz)))
      · exact hothers r hr

end

end QV.Proofs.BuilderInv
