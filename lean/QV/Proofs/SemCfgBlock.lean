/-
  QV.Props.C01 — the statement level of the CFG induction: blocks `{ let/const x = e; …; e }` and
  `{ let/const x = e; …; return e }` (`BlockFrag`), by induction over the statement list on top of the expression
  induction (`QV.Proofs.SemCfgCtl.walk_cfg`).  A declaration walks its initialiser, allocates one local of the concrete
  type of the operand and stores the operand there (`run_let`: the builder effect of `emit_result`); the name map of the
  walk, the variable stack of the reference semantics and the IR locals stay related (`VarRel` statically, `ValRel` in
  every state), so that a later read of the variable (`cfg_var`) finds `Spec.Sem`'s value in the variable's local.
-/
import QV.Proofs.SemCfgCtl

namespace QV.Proofs.SemCfgBlock
open QV.Model QV.Model.IrSem QV.Proofs.SemIr QV.Proofs.SemVisit QV.Proofs.SemWalk QV.Proofs.SemStraight QV.Proofs.SemCfg QV.Proofs.SemCfgWalk QV.Proofs.SemCfgCtl
open QV.Spec.Sem (Val World Host Ev Ty STy coerceTo binop unop staticTy)
set_option linter.unusedSimpArgs false

/-! ### the name map -/

theorem get?_insert_self (m : QV.Model.Locals) (x : String) (v : Nat × DeclKind) : (m.insert x v).get? x = some v := by
  simp [QV.Model.Locals.insert, QV.Model.Locals.get?]

theorem get?_insert_ne (m : QV.Model.Locals) (x y : String) (v : Nat × DeclKind) (h : y ≠ x) :
    (m.insert x v).get? y = m.get? y := by
  simp only [QV.Model.Locals.insert, QV.Model.Locals.get?, List.find?_cons]
  have h1 : (decide (x = y)) = false := by simp [Ne.symm h]
  simp only [h1, List.find?_filter]
  have hf : (fun a : String × Nat × DeclKind => decide (decide (a.1 ≠ x) = true ∧ decide (a.1 = y) = true)) =
      fun a => decide (a.1 = y) := by
    funext a
    by_cases hy : a.1 = y
    · have : a.1 ≠ x := by rw [hy]; exact h
      simp [hy, h]
    · simp [hy]
  rw [hf]

/-! ### what the statement walks do -/

theorem run_setLocals (l : QV.Model.Locals) (s : WState) : (setLocals l).run s = (some (), { s with locals := l }) := rfl

theorem run_stmts_nil (wc : Ctx) (s : WState) : (walkStmts wc none []).run s = (some true, s) := by
  rw [walkStmts]; rfl

theorem run_stmts_cons (wc : Ctx) (st : Stmt) (rest : List Stmt) (s : WState) :
    (walkStmts wc none (st :: rest)).run s =
      match (walkStmt wc none st).run s with
      | (some (), s1) => (walkStmts wc none rest).run s1
      | (none, s1) =>
        match (walkStmts wc none rest).run s1 with
        | (some _, s2) => (some false, s2)
        | (none, s2) => (none, s2) := by
  rw [walkStmts]
  simp only [run_bind, attempt]
  have hat : (attempt (walkStmt wc none st)).run s =
      (some ((walkStmt wc none st).run s).1, ((walkStmt wc none st).run s).2) := rfl
  rw [hat]
  cases h : (walkStmt wc none st).run s with
  | mk r s1 =>
    cases r with
    | some u => cases u; rfl
    | none =>
      simp only [run_bind]
      cases (walkStmts wc none rest).run s1 with
      | mk r2 s2 => cases r2 <;> rfl

theorem run_block (wc : Ctx) (ns : List Stmt) (s : WState) :
    (walkStmt wc none (.block ns)).run s =
      match (walkStmts wc none ns).run s with
      | (some true, s1) => (some (), { s1 with locals := s.locals })
      | (some false, s1) => (none, { s1 with locals := s.locals })
      | (none, s1) => (none, s1) := by
  rw [walkStmt]
  simp only [run_bind, run_getLocals]
  cases h : (walkStmts wc none ns).run s with
  | mk r s1 =>
    cases r with
    | none => rfl
    | some ok =>
      simp only [run_bind, run_setLocals]
      cases ok <;> rfl

/-- what a successful walk of `let x = e` / `const x = e` consists of: the walk of `e`, one fresh local of the concrete
    type of its operand, the name bound to it, and one `local := copy operand` statement — the builder effect of
    `emit_result` -/
theorem run_let (wc : Ctx) (kind : DeclKind) (x : String) (e : Expr) (s s' : WState)
    (h : (walkStmt wc none (.lexical kind [{ name := x, ty := none, value := some e }])).run s = (some (), s')) :
    ∃ v s1 ty, (walkRvalue wc e).run s = (some v, s1) ∧ toConcreteType v.typeDesc = .ok ty ∧ ty ≠ .void ∧
      s'.b = { s1.b with code := { s1.b.code with locals := s1.b.code.locals ++ [ty] } }.pushStatement
        (.assign s1.b.code.locals.length (.copy (ensureConcreteString v))) ∧
      s'.locals = s1.locals.insert x (s1.b.code.locals.length, kind) := by
  rw [walkStmt, walkDecls] at h
  simp only [run_bind] at h
  cases h1 : (walkRvalue wc e).run s with
  | mk r s1 =>
    rw [h1] at h
    cases r with
    | none => simp only at h; injection h with h _; cases h
    | some v =>
      simp only [run_pure, run_bind] at h
      cases htc : toConcreteType v.typeDesc with
      | error er =>
        rw [htc] at h
        have := run_err (α := TypeKind) er.message s1
        cases hq : (err er.message : W TypeKind).run s1 with
        | mk q sq =>
          rw [hq] at this h
          simp only at this
          subst this
          simp only at h; injection h with h _; cases h
      | ok ty =>
        rw [htc] at h
        simp only [run_pure, run_getB, run_getLocals, run_setLocals] at h
        by_cases hty : ty = .void
        · subst hty
          simp only [visitLocalDeclaration, Builder.alloca, ne_eq, not_true_eq_false, ↓reduceIte, consumeLocal] at h
          have := run_err (α := Nat) (ExprError.opUnsupported "local declaration" TypeDesc.void).message s1
          cases hq : (err (ExprError.opUnsupported "local declaration" TypeDesc.void).message : W Nat).run s1 with
          | mk q sq =>
            rw [hq] at this h
            simp only at this
            subst this
            simp only at h; injection h with h _; cases h
        · have hdecl : visitLocalDeclaration s1.b ty =
              .ok (s1.b.code.locals.length, { s1.b with code := { s1.b.code with locals := s1.b.code.locals ++ [ty] } }) := by
            simp [visitLocalDeclaration, Builder.alloca, hty]
          rw [hdecl] at h
          simp only [consumeLocal, run_bind, run_setB, run_pure, run_getB, run_getLocals, run_setLocals] at h
          have hget : (s1.b.code.locals ++ [ty])[s1.b.code.locals.length]? = some ty := by simp
          simp only [visitLocalAssignment, hget] at h
          cases has : isAssignable wc.env ty (ensureConcreteString v).typeDesc with
          | false =>
            simp only [has, Bool.not_false, ↓reduceIte, consume] at h
            generalize hs0 : ({ b := _, diags := s1.diags, locals := _, userUninit := s1.userUninit } : WState) = s0 at h
            have := run_err (α := Operand) (ExprError.opIncompatible "=" (TypeDesc.concrete ty)
              (ensureConcreteString v).typeDesc).message s0
            cases hq : (err (ExprError.opIncompatible "=" (TypeDesc.concrete ty)
              (ensureConcreteString v).typeDesc).message : W Operand).run s0 with
            | mk q sq =>
              rw [hq] at this h
              simp only at this
              subst this
              simp only at h; injection h with h _; cases h
          | true =>
            simp only [has, Bool.not_true, Bool.false_eq_true, ↓reduceIte, run_consume_ok] at h
            rw [walkDecls] at h
            simp only [run_pure] at h
            injection h with _ hs
            subst hs
            exact ⟨v, s1, ty, rfl, htc, hty, rfl, rfl⟩

theorem decl_builder (b : Builder) (ty : TypeKind) (rv : Rvalue) (hty : ty ≠ .void) :
    ({ b with code := { b.code with locals := b.code.locals ++ [ty] } } : Builder).pushStatement
      (.assign b.code.locals.length rv) = (b.emitResult ty rv).2 := by
  simp [Builder.emitResult, Builder.alloca, hty]

theorem run_return (wc : Ctx) (e : Expr) (s : WState) :
    (walkStmt wc none (.return_ (some e))).run s =
      match (walkRvalue wc e).run s with
      | (some op, s1) => (some (), { s1 with b := visitReturnStatement s1.b op })
      | (none, s1) => (none, s1) := by
  rw [walkStmt]
  simp only [run_bind]
  cases (walkRvalue wc e).run s with
  | mk r s1 => cases r <;> rfl

/-! ### the reference semantics of the statements of the fragment -/

theorem spec_stmts_expr (c : QV.Spec.Sem.Ctx) (e : Expr) (s : QV.Spec.Sem.St) :
    QV.Spec.Sem.execStmts c [.expr e] s =
      (QV.Spec.Sem.evalExpr c e s).map fun (v, s) => (.normal (some v), s) := by
  rw [QV.Spec.Sem.execStmts.eq_def]
  simp only
  rw [QV.Spec.Sem.execStmt.eq_def]
  simp only
  cases QV.Spec.Sem.evalExpr c e s with
  | none => rfl
  | some p =>
    obtain ⟨v, s1⟩ := p
    simp only [Option.map_some]
    rw [QV.Spec.Sem.execStmts.eq_def]
    rfl

theorem spec_stmts_ret (c : QV.Spec.Sem.Ctx) (e : Expr) (s : QV.Spec.Sem.St) :
    QV.Spec.Sem.execStmts c [.return_ (some e)] s =
      (QV.Spec.Sem.evalExpr c e s).map fun (v, s) => (.ret v, s) := by
  rw [QV.Spec.Sem.execStmts.eq_def]
  simp only
  rw [QV.Spec.Sem.execStmt.eq_def]
  simp only
  cases QV.Spec.Sem.evalExpr c e s with
  | none => rfl
  | some p => rfl

/-- `let x = e; rest` / `const x = e; rest`: `e` is evaluated, converted to the concrete form of its static type and
    bound; the rest runs with the variable in scope and decides the outcome -/
theorem updateEmpty_none (v : Option Val) : QV.Spec.Sem.updateEmpty v none = v := by
  cases v <;> rfl

theorem spec_stmts_let (c : QV.Spec.Sem.Ctx) (kind : DeclKind) (x : String) (e : Expr) (rest : List Stmt)
    (s : QV.Spec.Sem.St) (out : QV.Spec.Sem.Outcome) (s' : QV.Spec.Sem.St)
    (h : QV.Spec.Sem.execStmts c (.lexical kind [{ name := x, ty := none, value := some e }] :: rest) s = some (out, s')) :
    ∃ v s1 t v', QV.Spec.Sem.evalExpr c e s = some (v, s1) ∧ staticTy c s1.vars e = some t ∧
      coerceTo t.concrete.ty v = some v' ∧
      QV.Spec.Sem.execStmts c rest
        { s1 with vars := { name := x, sty := t.concrete, const := kind = .const_, val := some v' } :: s1.vars } =
          some (out, s') := by
  rw [QV.Spec.Sem.execStmts.eq_def] at h
  simp only at h
  rw [QV.Spec.Sem.execStmt.eq_def] at h
  simp only [QV.Spec.Sem.execDecls, QV.Spec.Sem.execDecl] at h
  cases he : QV.Spec.Sem.evalExpr c e s with
  | none => simp [he] at h
  | some p =>
    obtain ⟨v, s1⟩ := p
    simp only [he] at h
    cases hst : staticTy c s1.vars e with
    | none => simp [hst] at h
    | some t =>
      simp only [hst, Option.map_some] at h
      cases hco : coerceTo t.concrete.ty v with
      | none => simp [hco] at h
      | some v' =>
        simp only [hco, Option.map_some, Option.bind_some, Option.bind_eq_bind] at h
        refine ⟨v, s1, t, v', rfl, hst, hco, ?_⟩
        generalize QV.Spec.Sem.execStmts c rest _ = r at h ⊢
        cases r with
        | none => cases h
        | some q =>
          obtain ⟨o, s2⟩ := q
          cases o with
          | normal w => simp only [updateEmpty_none] at h; exact h
          | brk w => simp only [updateEmpty_none] at h; exact h
          | ret w => exact h

/-! ### the block fragment -/

/-- statement lists `let/const x = e; …; e` (`isRet = false`) or `let/const x = e; …; return e` (`isRet = true`), every
    expression in the fragment relative to the variables declared before it -/
inductive BlockFrag (wc : Ctx) : Bool → List String → List Stmt → Prop
  | expr (scope : List String) (e : Expr) : CfgFrag wc scope e → BlockFrag wc false scope [.expr e]
  | ret (scope : List String) (e : Expr) : CfgFrag wc scope e → BlockFrag wc true scope [.return_ (some e)]
  | decl (isRet : Bool) (scope : List String) (kind : DeclKind) (x : String) (e : Expr) (rest : List Stmt) :
      CfgFrag wc scope e → BlockFrag wc isRet (x :: scope) rest →
      BlockFrag wc isRet scope (.lexical kind [{ name := x, ty := none, value := some e }] :: rest)

/-- what the final statement does with the operand of its expression -/
def finish (isRet : Bool) (b : Builder) (op : Operand) : Builder :=
  if isRet then visitReturnStatement b op else visitExpressionStatement b op

def outOf (isRet : Bool) (v : Val) : QV.Spec.Sem.Outcome := if isRet then .ret v else .normal (some v)

/-- the induction hypothesis / conclusion for a statement list of the block fragment: the walk up to the operand of the
    final expression is a CFG walk, and over any covering final code, in any state holding the variables' values,
    execution from the entry position reaches the exit position with the value the reference semantics gives to the
    statement list — as completion value, or as `return` value — in that operand -/
def BlockOk (wc : Ctx) (sc : QV.Spec.Sem.Ctx) (ic : ICtx) (isRet : Bool) (wl : QV.Model.Locals)
    (vars : List QV.Spec.Sem.Var) (stmts : List Stmt) : Prop :=
  ∀ s s', (walkStmts wc none stmts).run s = (some true, s') → s.locals = wl → VarRel s.b.code.locals wl vars →
    (∃ blk, OpenAt s.b blk) →
    ∃ (s1 : WState) (op : Operand), s'.b = finish isRet s1.b op ∧ Walked s.b s1.b ∧ OperandOk s1.b.code.locals.length op ∧
      ∀ C, Covers C s1.b s.b.currentRef →
      ∀ (st : State) (sst : QV.Spec.Sem.St) (out : QV.Spec.Sem.Outcome) (sst' : QV.Spec.Sem.St),
        shapeOf sst.vars = shapeOf vars → sst.w = st.w → (∀ x q u, st.w.prop x q = some u → isCint u = false) →
        ValRel wl sst.vars st.L →
        QV.Spec.Sem.execStmts sc stmts sst = some (out, sst') →
        ∃ v, out = outOf isRet v ∧ ∃ d st', d ≤ s1.b.currentRef - s.b.currentRef ∧
          (∀ fuel, runAt ic C (fuel + d) s.b.currentRef (curLen s.b) st =
            runAt ic C fuel s1.b.currentRef (curLen s1.b) st') ∧
          evalOperand ic st'.L op = some v

theorem block_final (wc : Ctx) (sc : QV.Spec.Sem.Ctx) (ic : ICtx) (isRet : Bool) (wl : QV.Model.Locals)
    (vars : List QV.Spec.Sem.Var) (e : Expr) (fin : Stmt) (he : WalkOk wc sc ic wl vars e)
    (hrun : ∀ s, (walkStmt wc none fin).run s =
      match (walkRvalue wc e).run s with
      | (some op, s1) => (some (), { s1 with b := finish isRet s1.b op })
      | (none, s1) => (none, s1))
    (hspec : ∀ s, QV.Spec.Sem.execStmts sc [fin] s = (QV.Spec.Sem.evalExpr sc e s).map fun (v, s) => (outOf isRet v, s)) :
    BlockOk wc sc ic isRet wl vars [fin] := by
  intro s s' h hl hvr ho
  rw [run_stmts_cons, hrun] at h
  cases hw : (walkRvalue wc e).run s with
  | mk r s1 =>
    rw [hw] at h
    cases r with
    | none =>
      simp only at h
      cases hq : (walkStmts wc none []).run s1 with
      | mk q sq =>
        rw [hq] at h
        cases q <;> (simp only at h; injection h with h _; cases h)
    | some op =>
      simp only [run_stmts_nil] at h
      injection h with _ hs
      subst hs
      have r1 := he s s1 op hw hl hvr ho
      refine ⟨s1, op, rfl, r1.walked, r1.ok, ?_⟩
      intro C hC st sst out sst' hvars hw' hnc hval hsp
      rw [hspec] at hsp
      cases hev : QV.Spec.Sem.evalExpr sc e sst with
      | none => rw [hev] at hsp; cases hsp
      | some p =>
        obtain ⟨v, sa⟩ := p
        rw [hev] at hsp
        simp only [Option.map_some, Option.some.injEq, Prod.mk.injEq] at hsp
        obtain ⟨rfl, rfl⟩ := hsp
        obtain ⟨_, d, st', hd, hrun', hv, _⟩ := r1.sim C hC st sst sa v hvars hw' hnc hval hev
        exact ⟨v, rfl, d, st', hd, hrun', hv⟩

theorem scopeOf_insert {scope : List String} {wl : QV.Model.Locals} (h : ScopeOf scope wl) (x : String)
    (v : Nat × DeclKind) : ScopeOf (x :: scope) (wl.insert x v) := by
  intro y
  by_cases hy : y = x
  · subst hy; simp [get?_insert_self]
  · rw [get?_insert_ne _ _ _ _ hy, ← h y]
    simp [hy]

/-- the concrete type the declaration gives the variable's local is the type the reference semantics gives the variable -/
theorem decl_type (v : Operand) (t : STy) (ty : TypeKind) (hty : TyRel v t) (htc : toConcreteType v.typeDesc = .ok ty) :
    t.concrete.ty = (styOf ty).ty := by
  rcases hty with ⟨hc, _, ht⟩ | ⟨k, hk, _, ht⟩
  · rw [hc] at htc
    simp only [toConcreteType, Except.ok.injEq] at htc
    subst htc
    simp [STy.concrete, ht]
    rfl
  · rw [hk] at htc
    simp only [toConcreteType, Except.ok.injEq] at htc
    subst htc
    simpa [STy.concrete] using ht

/-- `walk_block_let` — a declaration `let x = e` / `const x = e` in front of a statement list: given the induction's
    conclusion for `e` (with the variables declared so far) and for the rest (with `x` added), it holds for the whole list -/
theorem block_decl (wc : Ctx) (sc : QV.Spec.Sem.Ctx) (ic : ICtx) (isRet : Bool) (wl : QV.Model.Locals)
    (vars : List QV.Spec.Sem.Var) (kind : DeclKind) (x : String) (e : Expr) (rest : List Stmt)
    (he : WalkOk wc sc ic wl vars e)
    (hse : ∀ vars', shapeOf vars' = shapeOf vars → staticTy sc vars' e = staticTy sc vars e)
    (hrest : ∀ (n : Nat) (sty : STy), BlockOk wc sc ic isRet (wl.insert x (n, kind))
      ({ name := x, sty := sty, const := kind = .const_, val := none } :: vars) rest) :
    BlockOk wc sc ic isRet wl vars (.lexical kind [{ name := x, ty := none, value := some e }] :: rest) := by
  intro s s' h hl hvr ho
  rw [run_stmts_cons] at h
  cases hd : (walkStmt wc none (.lexical kind [{ name := x, ty := none, value := some e }])).run s with
  | mk r sd =>
    rw [hd] at h
    cases r with
    | none =>
      simp only at h
      cases hq : (walkStmts wc none rest).run sd with
      | mk q sq =>
        rw [hq] at h
        cases q <;> (simp only at h; injection h with h _; cases h)
    | some u =>
      cases u
      simp only at h
      obtain ⟨v, s1, ty, hw, htc, htynv, hb, hloc⟩ := run_let wc kind x e s sd hd
      have r1 := he s s1 v hw hl hvr ho
      obtain ⟨tx, hstx, htyx⟩ := r1.ty
      obtain ⟨blk1, ho1⟩ := r1.walked.exitOpen
      have w1 : Walked s.b s1.b := r1.walked
      obtain ⟨hop, hg, hloc3⟩ := grows_emit s1.b blk1 ty (.copy (ensureConcreteString v)) htynv ho1
      rw [decl_builder s1.b ty _ htynv] at hb
      rw [← hb] at hg hloc3
      have wd : Walked s1.b sd.b := Walked.of_grows hg
      have hcurd : sd.b.currentRef = s1.b.currentRef := hg.currentRef
      have hkty := decl_type v tx ty htyx htc
      rw [r1.locals] at hloc
      -- the variable relation with `x` added
      have hn01 := w1.locals_le
      have hvr' : VarRel sd.b.code.locals (wl.insert x (s1.b.code.locals.length, kind))
          ({ name := x, sty := tx.concrete, const := kind = .const_, val := none } :: vars) := by
        refine ⟨?_, ?_⟩
        · intro name hnone
          have hne : name ≠ x := by
            intro hc; subst hc; rw [get?_insert_self] at hnone; cases hnone
          rw [get?_insert_ne _ _ _ _ hne] at hnone
          simp only [List.find?_cons, Ne.symm hne, decide_false]
          exact hvr.none name hnone
        · intro name n k hsome
          by_cases hne : name = x
          · subst hne
            rw [get?_insert_self] at hsome
            injection hsome with hsome
            injection hsome with h1 h2
            subst h1 h2
            exact ⟨{ name := name, sty := tx.concrete, const := kind = .const_, val := none }, ty, by simp,
              by rw [hloc3]; simp, htynv, rfl, hkty⟩
          · rw [get?_insert_ne _ _ _ _ hne] at hsome
            obtain ⟨var, ty', h1, h2, h3⟩ := ((hvr.mono w1.locals).mono wd.locals).some name n k hsome
            exact ⟨var, ty', by simp only [List.find?_cons, Ne.symm hne, decide_false]; exact h1, h2, h3⟩
      obtain ⟨s2, op2, hfin, w2, hok2, hsim2⟩ :=
        hrest s1.b.code.locals.length tx.concrete sd s' h hloc hvr' hg.open
      refine ⟨s2, op2, hfin, (w1.trans wd).trans w2, hok2, ?_⟩
      intro C hC st sst out sst' hvars hw' hnc hval hsp
      obtain ⟨v0, sA, tA, v', hev, hstA, hco, hrs⟩ := spec_stmts_let sc kind x e rest sst out sst' hsp
      have hCd : Covers C sd.b s.b.currentRef := Covers.of_ext w2.toExt hC (w1.trans wd).cur_le
      have hC1 : Covers C s1.b s.b.currentRef := Covers.of_ext wd.toExt hCd w1.cur_le
      obtain ⟨hsA, d1, st1, hd1, hrun1, hv1, hp1, hw1', ht1, _⟩ := r1.sim C hC1 st sst sA v0 hvars hw' hnc hval hev
      subst hsA
      rw [hse _ hvars, hstx] at hstA
      injection hstA with hstA
      subst hstA
      rw [hkty] at hco
      have hLLn : C.locals[s1.b.code.locals.length]? = some ty :=
        prefix_getElem? hCd.locals _ _ (by rw [hloc3]; simp)
      have hex : execStatements ic C.locals
          [.assign s1.b.code.locals.length (.copy (ensureConcreteString v))] st1 =
          some { st1 with L := upd st1.L s1.b.code.locals.length v' } := by
        simp [execStatements, execStatement, evalRvalue, evalOperand_ensure, hv1, hLLn, hco]
      have hstep : ∀ fuel, runAt ic C fuel s1.b.currentRef (curLen s1.b) st1 =
          runAt ic C fuel sd.b.currentRef (curLen sd.b) { st1 with L := upd st1.L s1.b.code.locals.length v' } :=
        fun fuel => runAt_emit ic C s1.b sd.b blk1 _ _ ho1 hg hCd st1 _ hex fuel
      have hval' : ValRel (wl.insert x (s1.b.code.locals.length, kind))
          ({ name := x, sty := tx.concrete, const := kind = .const_, val := some v' } :: sA.vars)
          (upd st1.L s1.b.code.locals.length v') := by
        intro name n k hsome
        by_cases hne : name = x
        · subst hne
          rw [get?_insert_self] at hsome
          injection hsome with hsome
          injection hsome with h1 h2
          subst h1 h2
          exact ⟨{ name := name, sty := tx.concrete, const := kind = .const_, val := some v' }, v', by simp, rfl,
            upd_same _ _ _, coerceTo_not_cint hco⟩
        · rw [get?_insert_ne _ _ _ _ hne] at hsome
          obtain ⟨_, ty', _, hty', _⟩ := hvr.some name n k hsome
          have hn : n < s.b.code.locals.length := lt_of_getElem? hty'
          obtain ⟨var, val, h1, h2, h3, h4⟩ := hval name n k hsome
          refine ⟨var, val, by simp only [List.find?_cons, Ne.symm hne, decide_false]; exact h1, h2, ?_, h4⟩
          rw [upd_other _ _ _ _ (by omega), hp1 n hn]
          exact h3
      obtain ⟨val, hout, d2, st2, hd2, hrun2, hv2⟩ := hsim2 C (hC.mono (w1.trans wd).cur_le)
        { st1 with L := upd st1.L s1.b.code.locals.length v' }
        { sA with vars := { name := x, sty := tx.concrete, const := kind = .const_, val := some v' } :: sA.vars } out sst'
        (by simp only [shapeOf, List.map_cons] at hvars ⊢; rw [hvars])
        (hw'.trans hw1'.symm) (by show ∀ x q u, st1.w.prop x q = some u → _; rw [hw1']; exact hnc) hval' hrs
      have hc01 := w1.cur_le
      have hc2 := w2.cur_le
      refine ⟨val, hout, d1 + d2, st2, by omega, ?_, hv2⟩
      intro fuel
      have : fuel + (d1 + d2) = (fuel + d2) + d1 := by omega
      rw [this, hrun1, hstep, hrun2]

/-- THE INDUCTION over the statement lists of the block fragment -/
theorem walk_block (wc : Ctx) (sc : QV.Spec.Sem.Ctx) (ic : ICtx) (hag : Agree wc sc ic) (isRet : Bool)
    (scope : List String) (stmts : List Stmt) (hf : BlockFrag wc isRet scope stmts) :
    ∀ (wl : QV.Model.Locals) (vars : List QV.Spec.Sem.Var), ScopeOf scope wl → BlockOk wc sc ic isRet wl vars stmts := by
  induction hf with
  | expr scope e he =>
    intro wl vars hsc
    exact block_final wc sc ic false wl vars e _ (walk_cfg wc sc ic hag scope wl vars hsc e he)
      (fun s => run_expr_stmt wc e s) (fun s => spec_stmts_expr sc e s)
  | ret scope e he =>
    intro wl vars hsc
    exact block_final wc sc ic true wl vars e _ (walk_cfg wc sc ic hag scope wl vars hsc e he)
      (fun s => run_return wc e s) (fun s => spec_stmts_ret sc e s)
  | decl isRet scope kind x e rest he _ ih =>
    intro wl vars hsc
    exact block_decl wc sc ic isRet wl vars kind x e rest (walk_cfg wc sc ic hag scope wl vars hsc e he)
      (fun vars' h => sty_shape wc sc scope vars vars' h e he)
      (fun n sty => ih _ _ (scopeOf_insert hsc x (n, kind)))

/-! ### from the exit position to the value of the binding -/

/-- from the exit position of a walk that started in the initial builder to the value of the binding, when the program
    ends in an expression statement: the operand becomes the completion value of the exit block,
    `finalize_completion_values` turns it into `return operand`, nothing else changes -/
theorem ir_of_expr_finish (ic : ICtx) (s1 : WState) (op : Operand) (w : World) (P : Val → Prop)
    (hwalked : Walked ({} : WState).b s1.b)
    (hsim : ∀ C, Covers C s1.b ({} : WState).b.currentRef → ∃ val d st', P val ∧
      d ≤ s1.b.currentRef - ({} : WState).b.currentRef ∧
      (∀ fuel, runAt ic C (fuel + d) ({} : WState).b.currentRef (curLen ({} : WState).b)
          { w := w, L := fun _ => none, trace := [] } =
        runAt ic C fuel s1.b.currentRef (curLen s1.b) st') ∧
      evalOperand ic st'.L op = some val) :
    ∃ val st', P val ∧ IrSem.run ic (finalizeCompletionValues (visitExpressionStatement s1.b op).code
      (visitExpressionStatement s1.b op).currentRef).1 w [] = some (val, st') := by
  obtain ⟨blkE, hoE⟩ := hwalked.exitOpen
  have hlenE := open_len hoE
  have hves0 : visitExpressionStatement s1.b op =
      { s1.b with code := { s1.b.code with
        blocks := s1.b.code.blocks.set s1.b.currentRef { blkE with completionValue := some (ensureConcreteString op) } } } := by
    simp only [visitExpressionStatement, Builder.setCompletionValue, Builder.blockHasTerminator, Builder.modifyBlock,
      hoE.1, hoE.2, Option.isSome_none, Bool.false_eq_true, ↓reduceIte]
  have hves : (visitExpressionStatement s1.b op).code.blocks =
      s1.b.code.blocks.set s1.b.currentRef { blkE with completionValue := some (ensureConcreteString op) } ∧
      (visitExpressionStatement s1.b op).code.locals = s1.b.code.locals ∧
      (visitExpressionStatement s1.b op).currentRef = s1.b.currentRef := by
    rw [hves0]
    exact ⟨rfl, rfl, by simp [Builder.currentRef]⟩
  obtain ⟨hvb, hvl, hvc⟩ := hves
  have hfin := QV.Proofs.SemFold.return_of_completion (visitExpressionStatement s1.b op).code s1.b.currentRef
    { blkE with completionValue := some (ensureConcreteString op) } (ensureConcreteString op)
    (by rw [hvb]; exact getElem?_set_self' _ _ _ _ hoE.1) hoE.2 rfl
  rw [hvc, hfin]
  simp only
  have key : ∀ Cfin : CodeBody,
      Cfin.blocks = s1.b.code.blocks.set s1.b.currentRef
        { statements := blkE.statements, terminator := some (.ret (ensureConcreteString op)) } →
      Cfin.locals = s1.b.code.locals → ∃ val st', P val ∧ IrSem.run ic Cfin w [] = some (val, st') := by
    intro Cfin hCb hCl
    have hCE : Cfin.blocks[s1.b.currentRef]? =
        some { statements := blkE.statements, terminator := some (.ret (ensureConcreteString op)) } := by
      rw [hCb]; exact getElem?_set_self' _ _ _ _ hoE.1
    have hcov : Covers Cfin s1.b ({} : WState).b.currentRef := by
      refine ⟨by rw [hCl]; exact List.prefix_refl _, ?_, blkE, _, hoE.1, hCE, List.prefix_refl _⟩
      intro i _ hi
      rw [hCb, getElem?_set_ne' _ _ _ _ (by omega)]
    obtain ⟨val, d, st', hP, hd, hrunE, hv⟩ := hsim Cfin hcov
    have hinit : initLocals Cfin [] = fun _ => none := by funext n; simp [initLocals]
    have hlenC : Cfin.blocks.length = s1.b.currentRef + 1 := by rw [hCb, List.length_set, hlenE]
    have hcur0 : ({} : WState).b.currentRef = 0 := rfl
    have hlen0 : curLen ({} : WState).b = 0 := rfl
    have hd' : d ≤ s1.b.currentRef := by rw [hcur0] at hd; omega
    refine ⟨val, st', hP, ?_⟩
    simp only [IrSem.run, hinit, hlenC]
    rw [runFrom_eq_runAt]
    have hsplit : s1.b.currentRef + 1 = (s1.b.currentRef + 1 - d) + d := by omega
    rw [hsplit]
    have h2 := hrunE (s1.b.currentRef + 1 - d)
    rw [hcur0, hlen0] at h2
    rw [h2, runAt_ret ic Cfin _ _ _ _ (ensureConcreteString op) st' hCE (by simp [curLen_of_open hoE]) rfl]
    rw [evalOperand_ensure, hv]
    rfl
  exact key _ (by simp only [hvb, List.set_set]) hvl


theorem getD_map_range {α} (f : Nat → List α) (n start : Nat) (h : start < n) :
    ((List.range n).map f).getD start [] = f start := by
  simp [List.getD_eq_getElem?_getD, h]

/-- `finalize_completion_values` on an EMPTY open start block that no block branches to unconditionally (the block pushed
    after a final `return`): only that block changes — it gets a terminator (`unreachable`, or `return void` if it is the
    target of a conditional branch) -/
theorem finalize_after_return (code : CodeBody) (start : Nat)
    (hs : code.blocks[start]? = some {})
    (hbr : ∀ (i : Nat) (bi : BasicBlock), code.blocks[i]? = some bi → bi.terminator ≠ some (.br start)) :
    ∃ term, (finalizeCompletionValues code start).1 =
      { code with blocks := setBlock code.blocks start { terminator := some term } } := by
  have hlt : start < code.blocks.length := lt_of_getElem? hs
  simp only [finalizeCompletionValues, hs]
  simp only [finalizeLoop, List.getLast?_singleton, hs]
  simp only [getD_map_range _ _ _ hlt, List.isEmpty_nil, ↓reduceIte, List.dropLast_singleton, List.nil_append]
  rw [List.filter_eq_nil_iff.mpr (by
    intro i _
    cases hb : code.blocks[i]? with
    | none => simp
    | some bi => simpa using hbr i bi hb)]
  obtain ⟨k, hk⟩ : ∃ k, code.blocks.length = k + 1 := ⟨code.blocks.length - 1, by omega⟩
  generalize (List.map (fun l => decide (l = 0) || code.blocks.any fun b =>
      match b.terminator with
      | some (Terminator.brCond c x y) => decide (x = l) || decide (y = l)
      | x => false) (List.range code.blocks.length)) = reach
  rw [hk]
  simp only [finalizeLoop, List.getLast?_nil]
  exact ⟨_, rfl⟩

/-- from the exit position of a walk that started in the initial builder to the value of the binding, when the program
    ends in `return e`: the exit block is terminated by `return operand`, an empty block is pushed, which
    `finalize_completion_values` marks unreachable; nothing else changes -/
theorem ir_of_return_finish (ic : ICtx) (s1 : WState) (op : Operand) (w : World) (P : Val → Prop)
    (hwalked : Walked ({} : WState).b s1.b)
    (hsim : ∀ C, Covers C s1.b ({} : WState).b.currentRef → ∃ val d st', P val ∧
      d ≤ s1.b.currentRef - ({} : WState).b.currentRef ∧
      (∀ fuel, runAt ic C (fuel + d) ({} : WState).b.currentRef (curLen ({} : WState).b)
          { w := w, L := fun _ => none, trace := [] } =
        runAt ic C fuel s1.b.currentRef (curLen s1.b) st') ∧
      evalOperand ic st'.L op = some val) :
    ∃ val st', P val ∧ IrSem.run ic (finalizeCompletionValues (visitReturnStatement s1.b op).code
      (visitReturnStatement s1.b op).currentRef).1 w [] = some (val, st') := by
  obtain ⟨blkE, hoE⟩ := hwalked.exitOpen
  have hlenE := open_len hoE
  have hvr0 : visitReturnStatement s1.b op =
      { s1.b with code := { s1.b.code with
        blocks := s1.b.code.blocks.set s1.b.currentRef
          { blkE with terminator := some (.ret (ensureConcreteString op)) } ++ [{}] } } := by
    simp only [visitReturnStatement, finalizeAt_open s1.b _ blkE _ hoE.1 hoE.2, Builder.newBlock]
  have hcur : (visitReturnStatement s1.b op).currentRef = s1.b.currentRef + 1 := by
    rw [hvr0]
    simp only [Builder.currentRef, List.length_append, List.length_set, List.length_singleton] at hlenE ⊢
    omega
  have hblocks : (visitReturnStatement s1.b op).code.blocks = s1.b.code.blocks.set s1.b.currentRef
      { blkE with terminator := some (.ret (ensureConcreteString op)) } ++ [({} : BasicBlock)] := by rw [hvr0]
  have hlocals : (visitReturnStatement s1.b op).code.locals = s1.b.code.locals := by rw [hvr0]
  have hlen0 : (s1.b.code.blocks.set s1.b.currentRef
      { blkE with terminator := some (.ret (ensureConcreteString op)) }).length = s1.b.currentRef + 1 := by
    rw [List.length_set, hlenE]
  have hget : ∀ i, i < s1.b.currentRef → (visitReturnStatement s1.b op).code.blocks[i]? = s1.b.code.blocks[i]? := by
    intro i hi
    rw [hblocks, List.getElem?_append_left (by omega), getElem?_set_ne' _ _ _ _ (by omega)]
  have hgetE : (visitReturnStatement s1.b op).code.blocks[s1.b.currentRef]? =
      some { blkE with terminator := some (.ret (ensureConcreteString op)) } := by
    rw [hblocks, List.getElem?_append_left (by omega)]
    exact getElem?_set_self' _ _ _ _ hoE.1
  have hgetS : (visitReturnStatement s1.b op).code.blocks[s1.b.currentRef + 1]? = some ({} : BasicBlock) := by
    rw [hblocks, List.getElem?_append_right (by omega), hlen0]
    simp
  obtain ⟨term, hfin⟩ := finalize_after_return (visitReturnStatement s1.b op).code (s1.b.currentRef + 1) hgetS (by
    intro i bi hbi hbr
    rcases Nat.lt_or_ge i s1.b.currentRef with hlt | hge
    · rw [hget i hlt] at hbi
      have := hwalked.brs i (Nat.zero_le _) hlt bi _ hbi hbr
      omega
    · rcases Nat.eq_or_lt_of_le hge with heq | hgt
      · subst heq
        rw [hgetE] at hbi
        injection hbi with hbi
        subst hbi
        simp at hbr
      · rcases Nat.eq_or_lt_of_le (Nat.succ_le_of_lt hgt) with heq2 | hgt2
        · rw [← heq2] at hbi
          rw [hgetS] at hbi
          injection hbi with hbi
          subst hbi
          simp at hbr
        · have : (visitReturnStatement s1.b op).code.blocks[i]? = none := by
            rw [hblocks]
            apply List.getElem?_eq_none
            simp only [List.length_append, hlen0, List.length_singleton]
            omega
          rw [this] at hbi
          cases hbi)
  rw [hcur, hfin]
  have key : ∀ Cfin : CodeBody,
      Cfin.blocks = setBlock (visitReturnStatement s1.b op).code.blocks (s1.b.currentRef + 1) { terminator := some term } →
      Cfin.locals = s1.b.code.locals → ∃ val st', P val ∧ IrSem.run ic Cfin w [] = some (val, st') := by
    intro Cfin hCb hCl
    have hCE : Cfin.blocks[s1.b.currentRef]? =
        some { blkE with terminator := some (.ret (ensureConcreteString op)) } := by
      rw [hCb, setBlock, getElem?_set_ne' _ _ _ _ (by omega)]; exact hgetE
    have hcov : Covers Cfin s1.b ({} : WState).b.currentRef := by
      refine ⟨by rw [hCl]; exact List.prefix_refl _, ?_, blkE, _, hoE.1, hCE, List.prefix_refl _⟩
      intro i _ hi
      rw [hCb, setBlock, getElem?_set_ne' _ _ _ _ (by omega)]
      exact hget i hi
    obtain ⟨val, d, st', hP, hd, hrunE, hv⟩ := hsim Cfin hcov
    have hinit : initLocals Cfin [] = fun _ => none := by funext n; simp [initLocals]
    have hlenC : Cfin.blocks.length = s1.b.currentRef + 2 := by
      rw [hCb, setBlock, List.length_set, hblocks, List.length_append, hlen0]; rfl
    have hcur0 : ({} : WState).b.currentRef = 0 := rfl
    have hlen00 : curLen ({} : WState).b = 0 := rfl
    have hd' : d ≤ s1.b.currentRef := by rw [hcur0] at hd; omega
    refine ⟨val, st', hP, ?_⟩
    simp only [IrSem.run, hinit, hlenC]
    rw [runFrom_eq_runAt]
    have hsplit : s1.b.currentRef + 2 = (s1.b.currentRef + 2 - d) + d := by omega
    rw [hsplit]
    have h2 := hrunE (s1.b.currentRef + 2 - d)
    rw [hcur0, hlen00] at h2
    rw [h2, runAt_ret ic Cfin _ _ _ _ (ensureConcreteString op) st' hCE (by simp [curLen_of_open hoE]) rfl]
    rw [evalOperand_ensure, hv]
    rfl
  exact key _ rfl hlocals

end QV.Proofs.SemCfgBlock
