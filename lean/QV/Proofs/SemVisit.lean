/-
  Helper lemmas for QV.Props.C01: what the builder's expression visitors emit (shape lemmas), and the CFG fragments
  built for `&&` / `||`, the ternary and `if`.
-/
import QV.Proofs.SemIr

namespace QV.Proofs.SemVisit
set_option linter.unusedSimpArgs false
open QV.Model QV.Model.IrSem QV.Proofs.SemIr
open QV.Spec.Sem (Val World Host Ev Ty STy coerceTo)

theorem evalOperand_ensure (c : ICtx) (L : IrSem.Locals) (a : Operand) :
    evalOperand c L (ensureConcreteString a) = evalOperand c L a := by
  unfold ensureConcreteString
  split <;> simp [evalOperand]

/-- `emit_unary_expression` either fails or emits exactly one statement `fresh = op a` of a non-void type -/
theorem emitUnary_shape (b : Builder) (op : UnaryOp) (a res : Operand) (b' : Builder)
    (h : emitUnaryExpression b op a = .ok (res, b')) :
    ∃ ty, ty ≠ TypeKind.void ∧ (res, b') = b.emitResult ty (.unary op (ensureConcreteString a)) := by
  unfold emitUnaryExpression at h
  simp only at h
  split at h
  · simp at h
  · rename_i ty hty
    refine ⟨ty, ?_, by simpa using h.symm⟩
    intro hv
    subst hv
    cases op <;> simp only at hty <;> (repeat' split at hty) <;> simp_all [TypeKind.void, TypeKind.int, TypeKind.uint, TypeKind.double, TypeKind.bool, isEnumKind, TypeDesc.bool]

/-- `emit_binary_expression` (not `&&`/`||`) either fails or emits exactly one statement `fresh = l op r` of a
    non-void type -/
theorem emitBinary_shape (env : Env) (b : Builder) (op : BinaryOp) (l r res : Operand) (b' : Builder)
    (hlog : ∀ lop, op ≠ .logical lop)
    (h : emitBinaryExpression env b op l r = .ok (res, b')) :
    ∃ ty, ty ≠ TypeKind.void ∧
      (res, b') = b.emitResult ty (.binary op (ensureConcreteString l) (ensureConcreteString r)) := by
  unfold emitBinaryExpression at h
  simp only at h
  split at h
  · simp at h
  · rename_i ty bb hty
    cases op with
    | logical lop => exact absurd rfl (hlog lop)
    | arith aop =>
      simp only at hty
      (repeat' split at hty) <;> simp_all [TypeKind.void, TypeKind.int, TypeKind.uint, TypeKind.double, TypeKind.string]
      all_goals (refine ⟨_, ?_, h.symm⟩; intro hv; simp_all [isEnumKind, TypeKind.void, TypeKind.int, TypeKind.uint, TypeKind.double, TypeKind.bool, TypeKind.string])
    | bitwise bop =>
      simp only at hty
      (repeat' split at hty) <;> simp_all [TypeKind.void, TypeKind.int, TypeKind.uint, TypeKind.bool]
      all_goals (refine ⟨_, ?_, h.symm⟩; intro hv; simp_all [isEnumKind, TypeKind.void, TypeKind.int, TypeKind.uint, TypeKind.double, TypeKind.bool, TypeKind.string])
    | shift sop =>
      simp only at hty
      split at hty
      · simp at hty
      · rename_i lty hl
        split at hty
        · rename_i hc
          simp only [Prod.mk.injEq, Except.ok.injEq] at hty
          obtain ⟨rfl, rfl⟩ := hty
          refine ⟨_, ?_, (Except.ok.inj h).symm⟩
          rcases hc.1 with rfl | rfl <;> decide
        · simp at hty
    | cmp cop =>
      simp only at hty
      (repeat' split at hty) <;> simp_all [TypeKind.void, TypeKind.bool]
      all_goals (refine ⟨_, ?_, h.symm⟩; intro hv; simp_all [isEnumKind, TypeKind.void, TypeKind.int, TypeKind.uint, TypeKind.double, TypeKind.bool, TypeKind.string])

/-! ### CFG fragments -/

/-- a block that ends in a conditional branch: after its statements, control goes to `t` or `f` by the condition -/
theorem cond_block (c : ICtx) (code : CodeBody) (i t f fuel : Nat) (blk : BasicBlock) (cnd : Operand)
    (hb : code.blocks[i]? = some blk) (ht : blk.terminator = some (.brCond cnd t f))
    (st st1 : State) (hs : execStatements c code.locals blk.statements st = some st1)
    (x : Bool) (hx : evalOperand c st1.L cnd = some (.bool x)) :
    runFrom c code (fuel + 1) i st = runFrom c code fuel (if x then t else f) st1 := by
  rw [runFrom_step c code fuel i st st1 blk hb hs, ht]
  cases x <;> simp [hx]

/-- a block whose last statement stores `src` in the sink `n` and which then jumps to `j` -/
theorem sink_block (c : ICtx) (code : CodeBody) (i j n fuel : Nat) (blk : BasicBlock) (ss : List Statement)
    (src : Operand) (ty : TypeKind)
    (hb : code.blocks[i]? = some blk) (hss : blk.statements = ss ++ [.assign n (.copy src)])
    (ht : blk.terminator = some (.br j)) (hn : code.locals[n]? = some ty)
    (st st1 : State) (hs : execStatements c code.locals ss st = some st1)
    (v v' : Val) (hv : evalOperand c st1.L src = some v) (hc : coerceTo (styOf ty).ty v = some v') :
    runFrom c code (fuel + 1) i st = runFrom c code fuel j { st1 with L := upd st1.L n v' } := by
  have hs' : execStatements c code.locals blk.statements st = some { st1 with L := upd st1.L n v' } := by
    rw [hss, execStatements_append, hs]
    simp [execStatements, execStatement, evalRvalue, hv, hn, hc]
  rw [runFrom_step c code fuel i st _ blk hb hs', ht]

/-- the LEFT block of `&&` / `||`: the sink is initialised here, then the left operand decides -/
theorem logical_left_block (c : ICtx) (code : CodeBody) (i t f n fuel : Nat) (blk : BasicBlock) (ss : List Statement)
    (init : Bool) (left : Operand)
    (hb : code.blocks[i]? = some blk) (hss : blk.statements = ss ++ [.assign n (.copy (.const (.bool init)))])
    (ht : blk.terminator = some (.brCond left t f)) (hn : code.locals[n]? = some .bool) (hav : Avoids n left)
    (st st1 : State) (hs : execStatements c code.locals ss st = some st1)
    (x : Bool) (hx : evalOperand c st1.L left = some (.bool x)) :
    runFrom c code (fuel + 1) i st =
      runFrom c code fuel (if x then t else f) { st1 with L := upd st1.L n (.bool init) } := by
  have hs' : execStatements c code.locals blk.statements st = some { st1 with L := upd st1.L n (.bool init) } := by
    rw [hss, execStatements_append, hs]
    simp [execStatements, execStatement, evalRvalue, evalOperand, hn, coerceTo, styOf, primTy, TypeKind.bool]
  exact cond_block c code i t f fuel blk left hb ht st _ hs' x (by simpa [evalOperand_upd c st1.L n _ left hav] using hx)

/-! ### what the control-flow visitors wire -/

theorem getElem?_set_self' {α} (l : List α) (i : Nat) (a x : α) (h : l[i]? = some x) : (l.set i a)[i]? = some a := by
  have hlt : i < l.length := by
    rcases Nat.lt_or_ge i l.length with h' | h'
    · exact h'
    · simp [List.getElem?_eq_none h'] at h
  simp [List.getElem?_set, hlt]

theorem getElem?_set_ne' {α} (l : List α) (i j : Nat) (a : α) (h : i ≠ j) : (l.set i a)[j]? = l[j]? := by
  simp [List.getElem?_set, h]

/-- `visit_binary_logical_expression` on two open blocks: one fresh `bool` sink; the LEFT block gets the
    initialisation of the sink and the conditional branch, the RIGHT block the store of the right operand and the jump
    to the block after it -/
theorem visitLogical_shape (b : Builder) (op : LogicOp) (left right : Operand) (lRef rRef : Nat) (bl br_ : BasicBlock)
    (hl : b.code.blocks[lRef]? = some bl) (hlt : bl.terminator = none)
    (hr : b.code.blocks[rRef]? = some br_) (hrt : br_.terminator = none) (hne : lRef ≠ rRef)
    (htl : left.typeDesc = .bool) (htr : right.typeDesc = .bool) :
    visitBinaryLogicalExpression b op left lRef right rRef =
      (.local b.code.locals.length .bool,
       { b with code := { b.code with
          locals := b.code.locals ++ [.bool],
          blocks := (b.code.blocks.set lRef
              { bl with
                statements := bl.statements ++
                  [.assign b.code.locals.length (.copy (.const (.bool (match op with | .and => false | .or => true))))],
                terminator := some (.brCond left (match op with | .and => lRef + 1 | .or => rRef + 1)
                  (match op with | .and => rRef + 1 | .or => lRef + 1)) }).set rRef
              { br_ with statements := br_.statements ++ [.assign b.code.locals.length (.copy right)],
                         terminator := some (.br (rRef + 1)) } } }) := by
  have hbool : (TypeKind.bool ≠ TypeKind.void) := by decide
  cases op <;>
  · simp only [visitBinaryLogicalExpression, htl, htr, ne_eq, not_true_eq_false, or_self, ↓reduceIte, Builder.alloca,
      hbool, not_false_eq_true]
    rw [pushStatementAt_open _ lRef bl _ (by simpa using hl) hlt]
    rw [finalizeAt_open _ lRef _ _ (by simpa using getElem?_set_self' _ _ _ _ hl) (by simpa using hlt)]
    rw [pushStatementAt_open _ rRef br_ _ (by simp [getElem?_set_ne' _ _ _ _ hne, hr]) hrt]
    rw [finalizeAt_open _ rRef _ _ (by
      simp only
      exact getElem?_set_self' _ _ _ br_ (by simp [getElem?_set_ne' _ _ _ _ hne, hr])) (by simpa using hrt)]
    simp [List.set_set]

end QV.Proofs.SemVisit
