/-
  C06, the builder for ALL programs — part 2: the invariant and what every `visit_*` function does to it.
-/
import QV.Proofs.BuilderInvBase

set_option linter.unusedSimpArgs false
set_option linter.unusedVariables false

namespace QV.Proofs.BuilderInv
open QV.Model QV.Model.Cfg

/-- a terminator that may be installed when there are `n` blocks -/
def ValidTerm (n : Nat) (t : Terminator) : Prop := (∀ k ∈ successors (some t), k < n) ∧ t ≠ .unreachable

/-- **the invariant**: there is a block, and every terminator present targets existing blocks and is not `unreachable` -/
structure Inv (b : Builder) : Prop where
  pos : 0 < len b
  tgt : ∀ j t, termOf b j = some t → ValidTerm (len b) t

def Closed (b : Builder) (j : Nat) : Prop := (termOf b j).isSome = true

/-- `b'` is a later builder state: blocks are only added, closed blocks stay closed, the invariant is kept -/
structure Adv (b b' : Builder) : Prop where
  mono : len b ≤ len b'
  closed : ∀ j, Closed b j → Closed b' j
  inv : Inv b → Inv b'

/-- the control-flow skeleton is unchanged -/
structure Same (b b' : Builder) : Prop where
  eq : len b' = len b
  term : ∀ j, termOf b' j = termOf b j

theorem Same.refl (b : Builder) : Same b b := ⟨rfl, fun _ => rfl⟩
theorem Same.trans {a b c : Builder} (h1 : Same a b) (h2 : Same b c) : Same a c :=
  ⟨h2.eq.trans h1.eq, fun j => (h2.term j).trans (h1.term j)⟩

theorem Same.adv {b b' : Builder} (h : Same b b') : Adv b b' where
  mono := by rw [h.eq]; exact Nat.le_refl _
  closed := fun j hj => by unfold Closed; rw [h.term]; exact hj
  inv := fun hi => ⟨by rw [h.eq]; exact hi.pos, fun j t ht => by rw [h.eq]; rw [h.term] at ht; exact hi.tgt j t ht⟩

theorem Adv.refl (b : Builder) : Adv b b := (Same.refl b).adv
theorem Adv.trans {a b c : Builder} (h1 : Adv a b) (h2 : Adv b c) : Adv a c :=
  ⟨Nat.le_trans h1.mono h2.mono, fun j hj => h2.closed j (h1.closed j hj), fun hi => h2.inv (h1.inv hi)⟩

theorem ValidTerm.mono {n m : Nat} {t : Terminator} (h : ValidTerm n t) (hnm : n ≤ m) : ValidTerm m t :=
  ⟨fun k hk => Nat.lt_of_lt_of_le (h.1 k hk) hnm, h.2⟩

theorem adv_newBlock (b : Builder) : Adv b b.newBlock.2 where
  mono := by simp
  closed := fun j hj => by unfold Closed; rw [termOf_newBlock]; exact hj
  inv := fun hi => ⟨by simp, fun j t ht => by
    rw [termOf_newBlock] at ht
    exact (hi.tgt j t ht).mono (by simp)⟩

theorem adv_finalizeAt (b : Builder) (i : Nat) (t : Terminator) (hv : ValidTerm (len b) t) : Adv b (b.finalizeAt i t) where
  mono := by simp
  closed := fun j hj => by
    unfold Closed at hj ⊢
    rw [termOf_finalizeAt]
    split
    · rfl
    · exact hj
  inv := fun hi => ⟨by simp; exact hi.pos, fun j t' ht => by
    rw [termOf_finalizeAt] at ht
    rw [len_finalizeAt]
    split at ht
    · simp at ht; subst ht; exact hv
    · exact hi.tgt j t' ht⟩

theorem closed_finalizeAt (b : Builder) (i : Nat) (t : Terminator) (hi : i < len b) : Closed (b.finalizeAt i t) i := by
  unfold Closed
  rw [termOf_finalizeAt]
  simp [hi]

theorem same_fail (b : Builder) (m : String) : Same b (b.fail m) := ⟨rfl, fun _ => rfl⟩
theorem same_pushStatementAt (b : Builder) (i : Nat) (st : Statement) : Same b (b.pushStatementAt i st) := ⟨by simp, fun j => by simp⟩
theorem same_pushStatement (b : Builder) (st : Statement) : Same b (b.pushStatement st) := ⟨by simp, fun j => by simp⟩
theorem same_setCompletionValue (b : Builder) (v : Operand) : Same b (b.setCompletionValue v) := ⟨by simp, fun j => by simp⟩
theorem same_alloca (b : Builder) (ty : TypeKind) : Same b (b.alloca ty).2 := ⟨by simp, fun j => by simp⟩
theorem same_emitResult (b : Builder) (ty : TypeKind) (rv : Rvalue) : Same b (b.emitResult ty rv).2 := ⟨by simp, fun j => by simp⟩

theorem same_of_emit {b b' : Builder} {ty : TypeKind} {rv : Rvalue} {a : Operand} (h : b.emitResult ty rv = (a, b')) : Same b b' := by
  have := same_emitResult b ty rv
  rw [h] at this
  exact this

/-! ### the visitors that emit straight-line code: the skeleton is unchanged -/

theorem visitInteger_same {b b' : Builder} {v : Nat} {a : Operand} (h : visitInteger b v = .ok (a, b')) : Same b b' := by
  unfold visitInteger at h
  split at h <;> simp at h
  rw [← h.2]; exact Same.refl _

theorem visitArray_same {env : Env} {b b' : Builder} {els : List Operand} {a : Operand}
    (h : visitArray env b els = .ok (a, b')) : Same b b' := by
  unfold visitArray at h
  simp only at h
  split at h
  · simp at h; rw [← h.2]; exact Same.refl _
  · split at h
    · simp at h
    · split at h
      · simp at h
      · simp at h; exact same_of_emit h

theorem visitLocalRef_same {b b' : Builder} {l : Nat} {a : Operand} (h : visitLocalRef b l = .ok (a, b')) : Same b b' := by
  unfold visitLocalRef at h
  split at h <;> simp at h
  · rw [← h.2]; exact Same.refl _
  · rw [← h.2]; exact same_fail _ _

theorem visitLocalDeclaration_same {b b' : Builder} {ty : TypeKind} {n : Nat}
    (h : visitLocalDeclaration b ty = .ok (n, b')) : Same b b' := by
  unfold visitLocalDeclaration at h
  have hs := same_alloca b ty
  split at h <;> simp at h
  rename_i heq
  rw [← h.2]
  rw [heq] at hs
  exact hs

theorem visitLocalAssignment_same {env : Env} {b b' : Builder} {l : Nat} {r a : Operand}
    (h : visitLocalAssignment env b l r = .ok (a, b')) : Same b b' := by
  unfold visitLocalAssignment at h
  split at h
  · simp at h; rw [← h.2]; exact same_fail _ _
  · simp only at h
    split at h <;> simp at h
    rw [← h.2]; exact same_pushStatement _ _

theorem visitFunctionParameter_same {b b' : Builder} {ty : TypeKind} {n : Nat}
    (h : visitFunctionParameter b ty = .ok (n, b')) : Same b b' := by
  unfold visitFunctionParameter at h
  simp only at h
  generalize hb0 : (if b.code.locals.length ≠ b.code.parameterCount then
    b.fail "function parameters must be declared prior to any local declarations" else b) = b0 at h
  have h0 : Same b b0 := by rw [← hb0]; split; exact same_fail _ _; exact Same.refl _
  have hs := same_alloca b0 ty
  split at h <;> simp at h
  rename_i heq
  rw [heq] at hs
  refine h0.trans (hs.trans ?_)
  rw [← h.2]
  exact ⟨rfl, fun _ => rfl⟩

theorem visitObjectProperty_same {b b' : Builder} {o a : Operand} {p : PropInfo}
    (h : visitObjectProperty b o p = .ok (a, b')) : Same b b' := by
  unfold visitObjectProperty at h
  split at h <;> simp at h
  exact same_of_emit h

theorem visitObjectPropertyAssignment_same {env : Env} {b b' : Builder} {o r a : Operand} {p : PropInfo}
    (h : visitObjectPropertyAssignment env b o p r = .ok (a, b')) : Same b b' := by
  unfold visitObjectPropertyAssignment at h
  split at h
  · simp at h
  · simp only at h
    split at h <;> simp at h
    exact same_of_emit h

theorem visitObjectSubscript_same {b b' : Builder} {o i a : Operand} (h : visitObjectSubscript b o i = .ok (a, b')) : Same b b' := by
  unfold visitObjectSubscript at h
  split at h <;> simp at h
  exact same_of_emit h

theorem visitObjectSubscriptAssignment_same {env : Env} {b b' : Builder} {o i r a : Operand}
    (h : visitObjectSubscriptAssignment env b o i r = .ok (a, b')) : Same b b' := by
  unfold visitObjectSubscriptAssignment at h
  split at h
  · simp at h
  · split at h <;> simp at h
    rw [← h.2]; exact same_pushStatement _ _

theorem visitObjectMethodCall_same {env : Env} {b b' : Builder} {o a : Operand} {ms : List MethodInfo} {args : List Operand}
    (h : visitObjectMethodCall env b o ms args = .ok (a, b')) : Same b b' := by
  unfold visitObjectMethodCall at h
  simp only at h
  split at h <;> simp at h
  exact same_of_emit h

theorem visitBuiltinCall_same {env : Env} {b b' : Builder} {f : Builtin} {args : List Operand} {a : Operand}
    (h : visitBuiltinCall env b f args = .ok (a, b')) : Same b b' := by
  unfold visitBuiltinCall at h
  cases f with
  | consoleLog lv => simp at h; exact same_of_emit h
  | tr =>
    simp only at h
    split at h
    · split at h <;> simp at h
      exact same_of_emit h
    · simp at h
  | max =>
    simp only at h
    split at h
    · split at h
      · simp at h
      · split at h <;> simp at h
        exact same_of_emit h
    · simp at h
  | min =>
    simp only at h
    split at h
    · split at h
      · simp at h
      · split at h <;> simp at h
        exact same_of_emit h
    · simp at h

theorem emitUnary_same {b b' : Builder} {op : UnaryOp} {arg a : Operand}
    (h : emitUnaryExpression b op arg = .ok (a, b')) : Same b b' := by
  unfold emitUnaryExpression at h
  simp only at h
  split at h <;> simp at h
  exact same_of_emit h

theorem visitUnaryExpression_same {F : FloatOps} {b b' : Builder} {op : UnaryOp} {arg a : Operand}
    (h : visitUnaryExpression F b op arg = .ok (a, b')) : Same b b' := by
  unfold visitUnaryExpression at h
  split at h
  · simp only at h
    split at h
    · simp at h; rw [← h.2]; exact Same.refl _
    · simp at h
  · exact emitUnary_same h

theorem emitBinary_same {env : Env} {b b' : Builder} {op : BinaryOp} {l r a : Operand}
    (h : emitBinaryExpression env b op l r = .ok (a, b')) : Same b b' := by
  unfold emitBinaryExpression at h
  simp only at h
  split at h
  · simp at h
  · rename_i tyR ty b0 heq
    simp at h
    have hb0 : Same b b0 := by
      cases op with
      | logical o => simp at heq; rw [← heq.2]; exact same_fail _ _
      | arith o =>
        simp only at heq
        split at heq
        · simp at heq
        · split at heq
          · simp at heq; rw [← heq.2]; exact Same.refl _
          · split at heq
            · split at heq <;> simp at heq; rw [← heq.2]; exact Same.refl _
            · simp at heq
      | bitwise o =>
        simp only at heq
        split at heq
        · simp at heq
        · split at heq <;> simp at heq; rw [← heq.2]; exact Same.refl _
      | shift o =>
        simp only at heq
        split at heq
        · simp at heq
        · split at heq <;> simp at heq; rw [← heq.2]; exact Same.refl _
      | cmp o =>
        simp only at heq
        split at heq
        · simp at heq
        · split at heq <;> simp at heq; rw [← heq.2]; exact Same.refl _
    exact hb0.trans (same_of_emit h)

theorem visitBinaryExpression_same {F : FloatOps} {env : Env} {b b' : Builder} {op : BinaryOp} {l r a : Operand}
    (h : visitBinaryExpression F env b op l r = .ok (a, b')) : Same b b' := by
  unfold visitBinaryExpression at h
  split at h
  · simp only at h
    split at h
    · rename_i v b0 heq
      simp at h
      rw [← h.2]
      cases op <;> simp at heq <;> (try (rw [← heq.2]; first | exact Same.refl _ | exact same_fail _ _))
    · simp at h
  · exact emitBinary_same h

theorem visitAsExpression_same {env : Env} {b b' : Builder} {v a : Operand} {ty : TypeKind}
    (h : visitAsExpression env b v ty = .ok (a, b')) : Same b b' := by
  unfold visitAsExpression at h
  simp only at h
  split at h <;> simp at h
  · rw [← h.2]; exact Same.refl _
  · exact same_of_emit h
  · exact same_of_emit h
  · exact same_of_emit h

theorem visitExpressionStatement_same (b : Builder) (v : Operand) : Same b (visitExpressionStatement b v) :=
  same_setCompletionValue _ _


/-! ### the visitors that build control flow -/

/-- result of a control-flow visitor: same number of blocks, later state, and the listed blocks are closed -/
structure Ctl (b b' : Builder) (closedNow : List Nat) : Prop where
  eq : len b' = len b
  adv : Adv b b'
  now : ∀ j ∈ closedNow, Closed b' j

theorem Ctl.of_same {b b' : Builder} (h : Same b b') : Ctl b b' [] := ⟨h.eq, h.adv, by simp⟩

theorem Ctl.trans {a b c : Builder} {l1 l2 : List Nat} (h1 : Ctl a b l1) (h2 : Ctl b c l2) : Ctl a c (l1 ++ l2) where
  eq := h2.eq.trans h1.eq
  adv := h1.adv.trans h2.adv
  now := fun j hj => by
    rcases List.mem_append.1 hj with h | h
    · exact h2.adv.closed j (h1.now j h)
    · exact h2.now j h

theorem Ctl.fin (b : Builder) (i : Nat) (t : Terminator) (hi : i < len b) (hv : ValidTerm (len b) t) :
    Ctl b (b.finalizeAt i t) [i] :=
  ⟨by simp, adv_finalizeAt b i t hv, fun j hj => by simp at hj; subst hj; exact closed_finalizeAt b j t hi⟩

theorem Ctl.sub {b b' : Builder} {l1 l2 : List Nat} (h : Ctl b b' l1) (hs : ∀ j ∈ l2, j ∈ l1) : Ctl b b' l2 :=
  ⟨h.eq, h.adv, fun j hj => h.now j (hs j hj)⟩

theorem validBr {n k : Nat} (h : k < n) : ValidTerm n (.br k) := ⟨by simp [successors]; exact h, by simp⟩
theorem validBrCond {n x y : Nat} (c : Operand) (hx : x < n) (hy : y < n) : ValidTerm n (.brCond c x y) :=
  ⟨by simp [successors]; exact ⟨hx, hy⟩, by simp⟩
theorem validRet (n : Nat) (a : Operand) : ValidTerm n (.ret a) := ⟨by simp [successors], by simp⟩

theorem visitBinaryLogicalExpression_ctl (b : Builder) (op : LogicOp) (l r : Operand) (lr rr : Nat)
    (hl : lr + 1 < len b) (hr : rr + 1 < len b) :
    Ctl b (visitBinaryLogicalExpression b op l lr r rr).2 [lr, rr] := by
  unfold visitBinaryLogicalExpression
  generalize hb0 : (if l.typeDesc ≠ .bool ∨ r.typeDesc ≠ .bool then b.fail "logical operand must be bool" else b) = b0
  have h0 : Same b b0 := by rw [← hb0]; split; exact same_fail _ _; exact Same.refl _
  have hbv : TypeKind.bool ≠ TypeKind.void := by simp [TypeKind.bool, TypeKind.void]
  have ha : b0.alloca .bool = (some (.local b0.code.locals.length .bool),
      { b0 with code := { b0.code with locals := b0.code.locals ++ [TypeKind.bool] } }) := by
    simp [Builder.alloca, hbv]
  have h1 : Same b0 (b0.alloca .bool).2 := same_alloca _ _
  rw [ha] at h1
  simp only [ha]
  generalize hb1 : ({ b0 with code := { b0.code with locals := b0.code.locals ++ [TypeKind.bool] } } : Builder) = b1 at h1
  have hlen1 : len b1 = len b := h1.eq.trans h0.eq
  cases op
  all_goals
    simp only []
    refine Ctl.sub (Ctl.trans (Ctl.of_same (h0.trans h1)) (Ctl.trans (Ctl.of_same (same_pushStatementAt b1 lr _))
      (Ctl.trans (Ctl.fin _ lr _ (by simp; omega) (validBrCond _ (by simp; omega) (by simp; omega)))
        (Ctl.trans (Ctl.of_same (same_pushStatementAt _ rr _)) (Ctl.fin _ rr _ (by simp; omega) (validBr (by simp; omega))))))) ?_
    simp

theorem visitTernaryExpression_ctl {env : Env} {b b' : Builder} {c x y res : Operand} {cr xr yr : Nat}
    (hc : cr + 1 < len b) (hx : xr + 1 < len b) (hy : yr + 1 < len b)
    (h : visitTernaryExpression env b c cr x xr y yr = .ok (res, b')) : Ctl b b' [cr, xr, yr] := by
  unfold visitTernaryExpression at h
  simp only at h
  split at h
  · simp at h
  · rename_i ty hd
    simp at h
    obtain ⟨_, h2⟩ := h
    rw [← h2]
    have h1 : Same b (b.alloca ty).2 := same_alloca _ _
    generalize (b.alloca ty).2 = b1 at h1
    have hlen1 : len b1 = len b := h1.eq
    generalize (b.alloca ty).1 = sink
    -- the two `store`s: an optional push, then the branch to the join block
    have store : ∀ (bb : Builder) (src : Operand) (ref : Nat), len bb = len b → ref + 1 < len b →
        Ctl bb ((match sink with
          | some (Operand.local n _) => bb.pushStatementAt ref (.assign n (.copy src))
          | _ => bb).finalizeAt ref (.br (yr + 1))) [ref] := by
      intro bb src ref hbb href
      have hs : Same bb (match sink with
          | some (Operand.local n _) => bb.pushStatementAt ref (.assign n (.copy src))
          | _ => bb) := by
        split
        · exact same_pushStatementAt _ _ _
        · exact Same.refl _
      refine Ctl.sub (Ctl.trans (Ctl.of_same hs) (Ctl.fin _ ref _ (by rw [hs.eq, hbb]; omega) (validBr (by rw [hs.eq, hbb]; omega)))) ?_
      simp
    have c1 := Ctl.fin b1 cr (.brCond c (cr + 1) (xr + 1)) (by omega) (validBrCond _ (by omega) (by omega))
    have c2 := store (b1.finalizeAt cr (.brCond c (cr + 1) (xr + 1))) (ensureConcreteString x) xr (by simp [hlen1]) hx
    have c3 := store _ (ensureConcreteString y) yr (by rw [c2.eq]; simp [hlen1]) hy
    exact Ctl.sub (Ctl.trans (Ctl.of_same h1) (Ctl.trans c1 (Ctl.trans c2 c3))) (by simp)

theorem visitIfStatement_ctl (b : Builder) (cnd : Operand) (cr xr : Nat) (yr : Option Nat)
    (hc : cr + 1 < len b) (hx : xr + 1 < len b) (hy : ∀ y, yr = some y → y + 1 < len b) :
    Ctl b (visitIfStatement b cnd cr xr yr) (cr :: xr :: yr.toList) := by
  unfold visitIfStatement
  simp only []
  have c1 := Ctl.fin b cr (.brCond cnd (cr + 1) (xr + 1)) (by omega) (validBrCond _ (by omega) (by omega))
  cases yr with
  | none =>
    simp only [Option.getD_none, Option.toList_none]
    have c2 := Ctl.fin (b.finalizeAt cr (.brCond cnd (cr + 1) (xr + 1))) xr (.br (xr + 1)) (by simp; omega) (validBr (by simp; omega))
    exact Ctl.sub (Ctl.trans c1 c2) (by simp)
  | some y =>
    have hy' := hy y rfl
    simp only [Option.getD_some, Option.toList_some]
    have c2 := Ctl.fin (b.finalizeAt cr (.brCond cnd (cr + 1) (xr + 1))) xr (.br (y + 1)) (by simp; omega) (validBr (by simp; omega))
    have c3 := Ctl.fin ((b.finalizeAt cr (.brCond cnd (cr + 1) (xr + 1))).finalizeAt xr (.br (y + 1))) y (.br (y + 1))
      (by simp; omega) (validBr (by simp; omega))
    exact Ctl.sub (Ctl.trans c1 (Ctl.trans c2 c3)) (by simp)

theorem visitBreakStatement_adv (b : Builder) (l : Nat) (hl : l < len b) (hpos : 0 < len b) :
    Adv b (visitBreakStatement b l) ∧ len (visitBreakStatement b l) = len b + 1 ∧ Closed (visitBreakStatement b l) (len b - 1) := by
  unfold visitBreakStatement
  have c1 := Ctl.fin b b.currentRef (.br l) (by simp [Builder.currentRef, len] at hpos ⊢; omega) (validBr hl)
  refine ⟨c1.adv.trans (adv_newBlock _), by simp, ?_⟩
  have := (adv_newBlock (b.finalizeAt b.currentRef (.br l))).closed _ (c1.now b.currentRef (by simp))
  simpa [Builder.currentRef, len] using this

theorem visitReturnStatement_adv (b : Builder) (v : Operand) (hpos : 0 < len b) :
    Adv b (visitReturnStatement b v) ∧ len (visitReturnStatement b v) = len b + 1 ∧ Closed (visitReturnStatement b v) (len b - 1) := by
  unfold visitReturnStatement
  have c1 := Ctl.fin b b.currentRef (.ret (ensureConcreteString v)) (by simp [Builder.currentRef, len] at hpos ⊢; omega) (validRet _ _)
  refine ⟨c1.adv.trans (adv_newBlock _), by simp, ?_⟩
  have := (adv_newBlock (b.finalizeAt b.currentRef (.ret (ensureConcreteString v)))).closed _ (c1.now b.currentRef (by simp))
  simpa [Builder.currentRef, len] using this


/-! ### `visit_switch_statement` -/

theorem connect_ctl (N lastBodyRef : Nat) (defaultStart : Option Nat) (starts : List Nat)
    (hd : ∀ d, defaultStart = some d → d < N) (hl : lastBodyRef + 1 < N) :
    ∀ (xs : List ((Operand × Nat) × Nat)) (b : Builder) (i : Nat), len b = N →
      (∀ x ∈ xs, x.1.2 + 1 < N ∧ x.2 < N) →
      Ctl b (visitSwitchStatement.connect lastBodyRef defaultStart starts b i xs) (xs.map (·.1.2))
  | [], b, i, hb, hx => by
    simp only [visitSwitchStatement.connect, List.map_nil]
    exact Ctl.of_same (Same.refl b)
  | ((cnd, cr), bs) :: rest, b, i, hb, hx => by
    simp only [visitSwitchStatement.connect, List.map_cons]
    have h0 := hx ((cnd, cr), bs) (by simp)
    simp only at h0
    have hnext : (if i + 1 < starts.length then cr + 1 else defaultStart.getD (lastBodyRef + 1)) < N := by
      split
      · exact h0.1
      · cases hds : defaultStart with
        | none => simpa using hl
        | some d => simpa using hd d hds
    have c1 := Ctl.fin b cr (.brCond cnd bs (if i + 1 < starts.length then cr + 1 else defaultStart.getD (lastBodyRef + 1)))
      (by rw [hb]; omega) (validBrCond _ (by rw [hb]; exact h0.2) (by rw [hb]; exact hnext))
    have c2 := connect_ctl N lastBodyRef defaultStart starts hd hl rest _ (i + 1) (by rw [c1.eq]; exact hb)
      (fun x hx' => hx x (by simp [hx']))
    exact Ctl.sub (Ctl.trans c1 c2) (by simp)

theorem foldl_finalize_ctl (N : Nat) : ∀ (bodies : List Nat) (b : Builder), len b = N → (∀ r ∈ bodies, r + 1 < N) →
    Ctl b (bodies.foldl (fun b bodyRef => b.finalizeAt bodyRef (.br (bodyRef + 1))) b) bodies
  | [], b, hb, hr => by simpa using Ctl.of_same (Same.refl b)
  | r :: rest, b, hb, hr => by
    simp only [List.foldl_cons]
    have h0 := hr r (by simp)
    have c1 := Ctl.fin b r (.br (r + 1)) (by rw [hb]; omega) (validBr (by rw [hb]; exact h0))
    have c2 := foldl_finalize_ctl N rest _ (by rw [c1.eq]; exact hb) (fun x hx => hr x (by simp [hx]))
    exact Ctl.sub (Ctl.trans c1 c2) (by simp)

theorem mem_of_mem_dropLast {α} : ∀ (l : List α) (a : α), a ∈ l.dropLast → a ∈ l
  | [], a, h => by simp at h
  | [x], a, h => by simp at h
  | x :: y :: rest, a, h => by
    simp only [List.dropLast_cons_cons, List.mem_cons] at h
    rcases h with rfl | h
    · simp
    · exact List.mem_cons_of_mem _ (mem_of_mem_dropLast (y :: rest) a h)

theorem removeAt_mem {α} : ∀ (xs : List α) (p : Nat) (d : α) (rest : List α), removeAt xs p = some (d, rest) →
    d ∈ xs ∧ (∀ x ∈ rest, x ∈ xs) ∧ rest.length + 1 = xs.length
  | [], p, d, rest, h => by simp [removeAt] at h
  | x :: xs, 0, d, rest, h => by
    simp [removeAt] at h
    obtain ⟨rfl, rfl⟩ := h
    exact ⟨by simp, fun y hy => by simp [hy], rfl⟩
  | x :: xs, p + 1, d, rest, h => by
    simp only [removeAt] at h
    cases hr : removeAt xs p with
    | none => simp [hr] at h
    | some q =>
      rcases q with ⟨y, ys⟩
      simp [hr] at h
      obtain ⟨rfl, rfl⟩ := h
      obtain ⟨h1, h2, h3⟩ := removeAt_mem xs p y ys hr
      refine ⟨by simp [h1], fun z hz => ?_, by simp; omega⟩
      simp at hz
      rcases hz with rfl | hz
      · simp
      · simp [h2 z hz]

theorem removeAt_some {α} : ∀ (xs : List α) (p : Nat), p < xs.length → ∃ d rest, removeAt xs p = some (d, rest)
  | [], p, h => by simp at h
  | x :: xs, 0, h => ⟨x, xs, rfl⟩
  | x :: xs, p + 1, h => by
    obtain ⟨d, rest, hr⟩ := removeAt_some xs p (by simpa using h)
    exact ⟨d, x :: rest, by simp [removeAt, hr]⟩

/-- the case-condition blocks that get connected: all of them when the counts fit -/
theorem visitSwitchStatement_ctl (b : Builder) (conds : List (Operand × Nat)) (bodies : List Nat) (dp : Option Nat) (hr er : Nat)
    (hc : ∀ x ∈ conds, x.2 + 1 < len b) (hb : ∀ r ∈ bodies, r + 1 < len b) (hh : hr < len b) (he : er + 1 < len b)
    (hcount : match dp with
      | none => conds.length = bodies.length
      | some p => p < bodies.length ∧ conds.length + 1 = bodies.length) :
    Ctl b (visitSwitchStatement b conds bodies dp hr er) (conds.map (·.2) ++ bodies ++ [hr, er]) := by
  unfold visitSwitchStatement
  simp only []
  -- the start references
  have hstarts0 : ∀ x ∈ (if bodies.isEmpty then [] else (er + 1) :: (bodies.dropLast.map (· + 1))), x < len b := by
    intro x hx
    split at hx
    · simp at hx
    · rw [List.mem_cons] at hx
      rcases hx with rfl | hx
      · exact he
      · obtain ⟨a, ha, rfl⟩ := List.mem_map.1 hx
        exact hb a (mem_of_mem_dropLast _ _ ha)
  have hlen0 : (if bodies.isEmpty then [] else (er + 1) :: (bodies.dropLast.map (· + 1))).length = bodies.length := by
    cases bodies with
    | nil => rfl
    | cons x xs => simp
  generalize hs0 : (if bodies.isEmpty then [] else (er + 1) :: (bodies.dropLast.map (· + 1))) = starts0 at hstarts0 hlen0
  have hlast : bodies.getLast?.getD er + 1 < len b := by
    cases hgl : bodies.getLast? with
    | none => simpa using he
    | some r => simpa using hb r (List.mem_of_getLast? hgl)
  -- the triple (default start, case starts, builder)
  have key : ∀ (ds : Option Nat) (starts : List Nat) (b1 : Builder), Same b b1 →
      (∀ d, ds = some d → d < len b) → (∀ x ∈ starts, x < len b) → conds.length = starts.length →
      Ctl b (((bodies.foldl (fun b bodyRef => b.finalizeAt bodyRef (.br (bodyRef + 1)))
        (visitSwitchStatement.connect (bodies.getLast?.getD er) ds starts
          (if conds.length ≠ starts.length then b1.fail "assert_eq!(case_conditions.len(), case_body_start_refs.len())" else b1) 0
          (conds.zip starts))).finalizeAt hr (.br (er + 1))).finalizeAt er (.br (bodies.getLast?.getD er + 1)))
        (conds.map (·.2) ++ bodies ++ [hr, er]) := by
    intro ds starts b1 hs1 hds hst hcs
    simp only [hcs, ne_eq, not_true_eq_false, if_false]
    have c1 := connect_ctl (len b) (bodies.getLast?.getD er) ds starts hds hlast (conds.zip starts) b1 0 hs1.eq (by
      intro x hx
      obtain ⟨h1, h2⟩ := List.of_mem_zip (a := x.1) (b := x.2) (by simpa using hx)
      exact ⟨hc x.1 h1, hst x.2 h2⟩)
    have hmap : (conds.zip starts).map (·.1.2) = conds.map (·.2) := by
      have : (conds.zip starts).map (·.1) = conds := List.map_fst_zip (by omega)
      calc (conds.zip starts).map (·.1.2) = ((conds.zip starts).map (·.1)).map (·.2) := by rw [List.map_map]; rfl
        _ = conds.map (·.2) := by rw [this]
    rw [hmap] at c1
    have c2 := foldl_finalize_ctl (len b) bodies _ (by rw [c1.eq]; exact hs1.eq) hb
    have c3 := Ctl.fin (bodies.foldl (fun b bodyRef => b.finalizeAt bodyRef (.br (bodyRef + 1)))
        (visitSwitchStatement.connect (bodies.getLast?.getD er) ds starts b1 0 (conds.zip starts))) hr (.br (er + 1))
      (by rw [c2.eq, c1.eq, hs1.eq]; exact hh) (validBr (by rw [c2.eq, c1.eq, hs1.eq]; exact he))
    have c4 := Ctl.fin _ er (.br (bodies.getLast?.getD er + 1)) (by rw [c3.eq, c2.eq, c1.eq, hs1.eq]; omega)
      (validBr (by rw [c3.eq, c2.eq, c1.eq, hs1.eq]; exact hlast))
    exact Ctl.sub (Ctl.trans (Ctl.of_same hs1) (Ctl.trans c1 (Ctl.trans c2 (Ctl.trans c3 c4)))) (by simp)
  cases dp with
  | none =>
    simp only at hcount ⊢
    exact key none starts0 b (Same.refl b) (by simp) hstarts0 (by omega)
  | some p =>
    simp only at hcount
    obtain ⟨d, rest, hrm⟩ := removeAt_some starts0 p (by omega)
    obtain ⟨h1, h2, h3⟩ := removeAt_mem starts0 p d rest hrm
    simp only [hrm]
    exact key (some d) rest b (Same.refl b) (by intro d' hd'; simp at hd'; subst hd'; exact hstarts0 d h1)
      (fun x hx => hstarts0 x (h2 x hx)) (by omega)

end QV.Proofs.BuilderInv
