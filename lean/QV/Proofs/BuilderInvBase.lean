/-
  C06, the builder for ALL programs — part 1: the control-flow skeleton of a builder state (`len`, `termOf`), what the
  four primitives of tir/core.rs and every `visit_*` function of tir/builder.rs do to it, and the invariant
      every terminator present targets existing blocks and is not the `unreachable` marker.
  Core Lean only.
-/
import QV.Model.Walk
import QV.Model.Cfg

set_option linter.unusedSimpArgs false
set_option linter.unusedVariables false

namespace QV.Proofs.BuilderInv
open QV.Model QV.Model.Cfg

/-! ### running the walk monad -/

def run {α} (m : W α) (s : WState) : Option α × WState := m s

@[simp] theorem run_pure {α} (a : α) (s : WState) : run (pure a : W α) s = (some a, s) := rfl

theorem run_bind {α β} (m : W α) (f : α → W β) (s : WState) :
    run (m >>= f) s = (match run m s with
      | (some a, s1) => run (f a) s1
      | (none, s1) => (none, s1)) := by
  show (m >>= f) s = _
  simp only [bind, OptionT.bind, OptionT.mk, StateT.bind, run]
  rcases h : m s with ⟨o, s1⟩
  cases o <;> simp [h] <;> rfl

@[simp] theorem run_err {α} (msg : String) (s : WState) :
    run (err msg : W α) s = (none, { s with diags := s.diags ++ [msg] }) := rfl
@[simp] theorem run_getB (s : WState) : run getB s = (some s.b, s) := rfl
@[simp] theorem run_setB (b : Builder) (s : WState) : run (setB b) s = (some (), { s with b := b }) := rfl
@[simp] theorem run_getLocals (s : WState) : run getLocals s = (some s.locals, s) := rfl
@[simp] theorem run_setLocals (l : Locals) (s : WState) : run (setLocals l) s = (some (), { s with locals := l }) := rfl
@[simp] theorem run_failure {α} (s : WState) : run (failure : W α) s = (none, s) := rfl
theorem run_attempt {α} (x : W α) (s : WState) : run (attempt x) s = (some (run x s).1, (run x s).2) := rfl

theorem bind_ok {α β} {m : W α} {f : α → W β} {s s' : WState} {r : β}
    (h : run (m >>= f) s = (some r, s')) : ∃ a s1, run m s = (some a, s1) ∧ run (f a) s1 = (some r, s') := by
  rw [run_bind] at h
  rcases hm : run m s with ⟨o, s1⟩
  rw [hm] at h
  cases o with
  | none => simp at h
  | some a => exact ⟨a, s1, rfl, h⟩

theorem attempt_ok {α} {x : W α} {s s1 : WState} {r : Option α} (h : run (attempt x) s = (some r, s1)) :
    run x s = (r, s1) := by
  rw [run_attempt] at h
  simp at h
  exact Prod.ext h.1 h.2

theorem consume_ok {r : VisitResult} {s s' : WState} {a : Operand} (h : run (consume r) s = (some a, s')) :
    ∃ b', r = .ok (a, b') ∧ s' = { s with b := b' } := by
  cases r with
  | error e => simp [consume] at h
  | ok p =>
    rcases p with ⟨a', b'⟩
    simp only [consume] at h
    obtain ⟨x, s1, h1, h2⟩ := bind_ok h
    simp at h1 h2
    obtain ⟨rfl, rfl⟩ := h1
    exact ⟨b', by rw [h2.1], h2.2.symm⟩

theorem consumeLocal_ok {r : Except ExprError (Nat × Builder)} {s s' : WState} {n : Nat}
    (h : run (consumeLocal r) s = (some n, s')) : ∃ b', r = .ok (n, b') ∧ s' = { s with b := b' } := by
  cases r with
  | error e => simp [consumeLocal] at h
  | ok p =>
    rcases p with ⟨n', b'⟩
    simp only [consumeLocal] at h
    obtain ⟨x, s1, h1, h2⟩ := bind_ok h
    simp at h1 h2
    obtain ⟨rfl, rfl⟩ := h1
    exact ⟨b', by rw [h2.1], h2.2.symm⟩

/-! ### the control-flow skeleton of a builder state -/

/-- number of basic blocks -/
def len (b : Builder) : Nat := b.code.blocks.length

/-- the terminator of block `i`, if the block exists and is closed -/
def termOf (b : Builder) (i : Nat) : Option Terminator := (b.code.blocks[i]?).bind (·.terminator)

theorem termOf_lt {b : Builder} {i : Nat} {t : Terminator} (h : termOf b i = some t) : i < len b := by
  unfold termOf at h
  cases hb : b.code.blocks[i]? with
  | none => simp [hb] at h
  | some blk => exact (List.getElem?_eq_some_iff.1 hb).1

@[simp] theorem len_fail (b : Builder) (m : String) : len (b.fail m) = len b := rfl
@[simp] theorem termOf_fail (b : Builder) (m : String) (j : Nat) : termOf (b.fail m) j = termOf b j := rfl

theorem len_modifyBlock (b : Builder) (i : Nat) (f : BasicBlock → BasicBlock) : len (b.modifyBlock i f) = len b := by
  unfold Builder.modifyBlock len
  split <;> simp [Builder.fail]

theorem termOf_modifyBlock (b : Builder) (i : Nat) (f : BasicBlock → BasicBlock) (j : Nat) :
    termOf (b.modifyBlock i f) j =
      if j = i then (b.code.blocks[i]?).bind (fun blk => (f blk).terminator) else termOf b j := by
  unfold Builder.modifyBlock termOf
  cases hb : b.code.blocks[i]? with
  | none =>
    simp only [Builder.fail]
    by_cases hj : j = i
    · subst hj; simp [hb]
    · simp [hj]
  | some blk =>
    simp only
    by_cases hj : j = i
    · subst hj
      have hlt := (List.getElem?_eq_some_iff.1 hb).1
      simp [hlt]
    · simp [hj, List.getElem?_set_ne (Ne.symm hj)]

theorem ite_fail_code (c : Prop) [Decidable c] (b : Builder) (m : String) : (if c then b.fail m else b).code = b.code := by
  split <;> rfl

theorem termOf_congr {b0 b : Builder} (h : b0.code = b.code) (j : Nat) : termOf b0 j = termOf b j := by
  unfold termOf; rw [h]
theorem len_congr {b0 b : Builder} (h : b0.code = b.code) : len b0 = len b := by
  unfold len; rw [h]

/-- a block update that keeps the terminator keeps the skeleton -/
theorem termOf_modifyBlock_keep (b : Builder) (i : Nat) (f : BasicBlock → BasicBlock)
    (hf : ∀ blk, (f blk).terminator = blk.terminator) (j : Nat) : termOf (b.modifyBlock i f) j = termOf b j := by
  rw [termOf_modifyBlock]
  by_cases hj : j = i
  · subst hj
    simp only [if_true, termOf]
    cases b.code.blocks[j]? <;> simp [hf]
  · simp [hj]

@[simp] theorem len_pushStatementAt (b : Builder) (i : Nat) (st : Statement) : len (b.pushStatementAt i st) = len b := by
  unfold Builder.pushStatementAt
  simp only []
  rw [len_modifyBlock]
  exact len_congr (ite_fail_code _ _ _)

@[simp] theorem termOf_pushStatementAt (b : Builder) (i : Nat) (st : Statement) (j : Nat) :
    termOf (b.pushStatementAt i st) j = termOf b j := by
  unfold Builder.pushStatementAt
  simp only []
  rw [termOf_modifyBlock_keep (f := fun blk => { blk with statements := blk.statements ++ [st] }) (hf := fun _ => rfl)]
  exact termOf_congr (ite_fail_code _ _ _) j

@[simp] theorem len_pushStatement (b : Builder) (st : Statement) : len (b.pushStatement st) = len b := by
  simp [Builder.pushStatement]
@[simp] theorem termOf_pushStatement (b : Builder) (st : Statement) (j : Nat) : termOf (b.pushStatement st) j = termOf b j := by
  simp [Builder.pushStatement]

@[simp] theorem len_setCompletionValue (b : Builder) (v : Operand) : len (b.setCompletionValue v) = len b := by
  unfold Builder.setCompletionValue
  simp only []
  rw [len_modifyBlock]
  exact len_congr (ite_fail_code _ _ _)

@[simp] theorem termOf_setCompletionValue (b : Builder) (v : Operand) (j : Nat) :
    termOf (b.setCompletionValue v) j = termOf b j := by
  unfold Builder.setCompletionValue
  simp only []
  rw [termOf_modifyBlock_keep (f := fun blk => { blk with completionValue := some v }) (hf := fun _ => rfl)]
  exact termOf_congr (ite_fail_code _ _ _) j

@[simp] theorem len_finalizeAt (b : Builder) (i : Nat) (t : Terminator) : len (b.finalizeAt i t) = len b := by
  unfold Builder.finalizeAt
  rw [len_modifyBlock]
  exact len_congr (ite_fail_code _ _ _)

theorem termOf_finalizeAt (b : Builder) (i : Nat) (t : Terminator) (j : Nat) :
    termOf (b.finalizeAt i t) j = if j = i ∧ i < len b then some t else termOf b j := by
  unfold Builder.finalizeAt
  generalize hb0 : (if b.blockHasTerminator i = true then b.fail "finalize: terminator already set" else b) = b0
  have hc : b0.code = b.code := by rw [← hb0]; exact ite_fail_code _ _ _
  rw [termOf_modifyBlock, hc]
  by_cases hj : j = i
  · subst hj
    by_cases hlt : j < len b
    · have hb : b.code.blocks[j]? = some b.code.blocks[j] := List.getElem?_eq_getElem hlt
      simp [hlt, hb]
    · have hb : b.code.blocks[j]? = none := List.getElem?_eq_none (Nat.le_of_not_lt hlt)
      simp [hlt, hb, termOf]
  · simp only [hj, false_and, if_false]
    exact termOf_congr hc j

@[simp] theorem len_newBlock (b : Builder) : len b.newBlock.2 = len b + 1 := by
  simp [Builder.newBlock, len]

@[simp] theorem termOf_newBlock (b : Builder) (j : Nat) : termOf b.newBlock.2 j = termOf b j := by
  simp only [Builder.newBlock, termOf]
  by_cases hlt : j < b.code.blocks.length
  · rw [List.getElem?_append_left hlt]
  · have hge := Nat.le_of_not_lt hlt
    rw [List.getElem?_eq_none hge]
    by_cases he : j = b.code.blocks.length
    · subst he; simp
    · rw [List.getElem?_eq_none (by simp; omega)]

@[simp] theorem len_alloca (b : Builder) (ty : TypeKind) : len (b.alloca ty).2 = len b := by
  unfold Builder.alloca
  split <;> rfl
@[simp] theorem termOf_alloca (b : Builder) (ty : TypeKind) (j : Nat) : termOf (b.alloca ty).2 j = termOf b j := by
  unfold Builder.alloca
  split <;> rfl

@[simp] theorem len_emitResult (b : Builder) (ty : TypeKind) (rv : Rvalue) : len (b.emitResult ty rv).2 = len b := by
  unfold Builder.emitResult Builder.alloca
  by_cases h : ty = .void
  · subst h; simp
  · simp [h]; rfl
@[simp] theorem termOf_emitResult (b : Builder) (ty : TypeKind) (rv : Rvalue) (j : Nat) :
    termOf (b.emitResult ty rv).2 j = termOf b j := by
  unfold Builder.emitResult Builder.alloca
  by_cases h : ty = .void
  · subst h; simp
  · simp [h]; rfl

end QV.Proofs.BuilderInv
