/-
  Shared definitions and structural lemmas about `QV.Model.Passes` used by the C04 / C14 / C20 theorem files:
  objects of a forest, per-object edits of a forest, pruning of unresolved subtrees, and the fact that every placed
  object is `placeOne` of an object of the document.
-/
import QV.Model.Passes

namespace QV.Proofs.Passes
open QV.Model.Passes

/-- all objects written in the document -/
def objs : Forest → List Obj
  | .nil => []
  | .cons o ch rest => o :: objs ch ++ objs rest

/-- apply an edit to every object (edits are keyed on `oid` by the caller) -/
def mapObj (f : Obj → Obj) : Forest → Forest
  | .nil => .nil
  | .cons o ch rest => .cons (f o) (mapObj f ch) (mapObj f rest)

/-- remove the subtrees whose root object does not resolve -/
def prune : Forest → Forest
  | .nil => .nil
  | .cons o ch rest => if o.resolves then .cons o (prune ch) (prune rest) else prune rest

/-- all scalar bindings of a placed object that entered a code map, with what the constant pass did -/
def leafOutsOf (p : Placed) : List (Leaf × LeafOut) := p.allOuts.flatMap (·.leafOuts)

theorem hasResolving_prune (F : Forest) : hasResolving (prune F) = hasResolving F := by
  induction F with
  | nil => rfl
  | cons o ch rest _ ihr =>
    by_cases h : o.resolves = true
    · simp [prune, hasResolving, h]
    · have h' : o.resolves = false := by simpa using h
      simp [prune, hasResolving, h', ihr]

/-- objects whose type does not resolve vanish with their subtree and leave the rest untouched -/
theorem place_prune (F : Forest) : ∀ reach, (place reach (prune F)).1 = (place reach F).1 := by
  induction F with
  | nil => intro _; rfl
  | cons o ch rest ihc ihr =>
    intro reach
    by_cases h : o.resolves = true
    · simp only [prune, h, if_true, place, hasResolving_prune, ihc, ihr]
    · have h' : o.resolves = false := by simpa using h
      simp [prune, place, h', ihr]

/-- every placed object is `placeOne` of an object of the document, at some place -/
theorem place_mem (F : Forest) : ∀ reach, ∀ p ∈ (place reach F).1,
    ∃ reach' hc, ∃ o ∈ objs F, p = placeOne reach' o hc := by
  induction F with
  | nil => intro _ p hp; simp [place] at hp
  | cons o ch rest ihc ihr =>
    intro reach p hp
    by_cases h : o.resolves = true
    · simp [place, h] at hp
      rcases hp with hp | hp | hp
      · exact ⟨reach, hasResolving ch, o, by simp [objs], hp⟩
      · obtain ⟨r', hc, o', ho', e⟩ := ihc _ p hp
        exact ⟨r', hc, o', by simp [objs, ho'], e⟩
      · obtain ⟨r', hc, o', ho', e⟩ := ihr _ p hp
        exact ⟨r', hc, o', by simp [objs, ho'], e⟩
    · have h' : o.resolves = false := by simpa using h
      simp only [place, h'] at hp
      obtain ⟨r', hc, o', ho', e⟩ := ihr _ p (by simpa using hp)
      exact ⟨r', hc, o', by simp [objs, ho'], e⟩

end QV.Proofs.Passes
