/-
  Helper lemmas for QV.Props.C07: the shape relation between evaluated values and static types, its
  preservation by `deduce_type`/`is_assignable`, and the shape invariant of the interpreter.
-/
import QV.Model.Totality

namespace QV.Proofs.Totality
open QV.Model.Totality

/-- **ShapeOf**: which evaluated values the interpreter can produce for an operand of a given static type.
    int/uint/untyped integer → `Integer`; double → `Float`; bool → `Bool`; QString/untyped string → `String`;
    enum → `EnumSet`; pointer to class → `ObjectRef` (a constant `null` evaluates to *no value*, so nothing has
    the shape of `nullptr_t`); list of strings → `StringList`; list of pointers → `ObjectRefList`; the empty array
    `[]` evaluates to `EmptyList`, which is also the shape of any concrete list type it is assigned to. -/
def hasShape : EvaluatedValue → TypeDesc → Bool
  | .bool _, .concrete (.prim .bool) => true
  | .integer _, .constInteger => true
  | .integer _, .concrete (.prim .int) => true
  | .integer _, .concrete (.prim .uint) => true
  | .float _, .concrete (.prim .double) => true
  | .string _ _, .constString => true
  | .string _ _, .concrete (.prim .qstring) => true
  | .enumSet _, .concrete (.enum _) => true
  | .objectRef _, .concrete (.ptr _) => true
  | .stringList _, .concrete (.list (.prim .qstring)) => true
  | .objectRefList _, .concrete (.list (.ptr _)) => true
  | .emptyList, .emptyList => true
  | .emptyList, .concrete (.list _) => true
  | _, _ => false

/-! ### inversion -/

theorem shape_enum {v e} (h : hasShape v (.concrete (.enum e)) = true) : ∃ es, v = .enumSet es := by
  cases v <;> simp [hasShape] at h ⊢

theorem shape_ptr {v c} (h : hasShape v (.concrete (.ptr c)) = true) : ∃ s, v = .objectRef s := by
  cases v <;> simp [hasShape] at h ⊢

theorem shape_string_list {v} (h : hasShape v (.concrete (.list (.prim .qstring))) = true) :
    (∃ xs, v = .stringList xs) ∨ v = .emptyList := by
  cases v <;> simp [hasShape] at h ⊢

theorem shape_qstring {v} (h : hasShape v (.concrete (.prim .qstring)) = true) : ∃ s k, v = .string s k := by
  cases v <;> simp [hasShape] at h ⊢

theorem shape_simple {v p} (hp : p = Prim.bool ∨ p = Prim.int ∨ p = Prim.uint ∨ p = Prim.double ∨ p = Prim.qstring)
    (h : hasShape v (.concrete (.prim p)) = true) : ∃ sv, unwrapIntoSimpleValue v = .ok sv := by
  rcases hp with rfl | rfl | rfl | rfl | rfl <;> cases v <;> simp [hasShape, unwrapIntoSimpleValue] at h ⊢

/-! ### `is_assignable` and `deduce_type` preserve shapes -/

theorem fallbackCast_not_assignable (e a : TypeKind) : fallbackCast e a ≠ .noop ∧ fallbackCast e a ≠ .implicit := by
  unfold fallbackCast
  repeat' split
  all_goals simp

/-- when a concrete type is assignable: same type, compatible enums, or pointer to a derived class -/
theorem concrete_assignable (env : Env) {e a : TypeKind}
    (h : pickConcreteTypeCast env e a = .noop ∨ pickConcreteTypeCast env e a = .implicit) :
    e = a ∨ (∃ x y, e = .enum x ∧ a = .enum y) ∨ (∃ x y, e = .ptr x ∧ a = .ptr y) := by
  unfold pickConcreteTypeCast at h
  by_cases heq : e = a
  · exact Or.inl heq
  · simp only [heq, if_false] at h
    split at h
    · exact Or.inr (Or.inl ⟨_, _, rfl, rfl⟩)
    · exact Or.inr (Or.inr ⟨_, _, rfl, rfl⟩)
    · have := fallbackCast_not_assignable e a
      rcases h with h | h
      · exact absurd h this.1
      · exact absurd h this.2

theorem isAssignable_iff (env : Env) (e : TypeKind) (a : TypeDesc) :
    isAssignable env e a = true ↔ (pickTypeCast env e a = .noop ∨ pickTypeCast env e a = .implicit) := by
  unfold isAssignable
  cases pickTypeCast env e a <;> simp

/-- a value of the shape of the actual type has the shape of every type the actual type is assignable to -/
theorem assignable_shape (env : Env) {expected : TypeKind} {actual : TypeDesc} {v : EvaluatedValue}
    (ha : isAssignable env expected actual = true) (hs : hasShape v actual = true) :
    hasShape v (.concrete expected) = true := by
  rw [isAssignable_iff] at ha
  cases actual with
  | nullPointer => cases v <;> simp [hasShape] at hs
  | concrete t =>
    have hc : pickTypeCast env expected (.concrete t) = pickConcreteTypeCast env expected t := by
      cases expected <;> simp [pickTypeCast]
    rw [hc] at ha
    rcases concrete_assignable env ha with rfl | ⟨x, y, rfl, rfl⟩ | ⟨x, y, rfl, rfl⟩
    · exact hs
    · cases v <;> simp [hasShape] at hs ⊢
    · cases v <;> simp [hasShape] at hs ⊢
  | constInteger =>
    cases expected with
    | prim p => cases p <;> simp [pickTypeCast] at ha <;> cases v <;> simp [hasShape] at hs ⊢
    | _ => simp [pickTypeCast] at ha
  | constString =>
    cases expected with
    | prim p => cases p <;> simp [pickTypeCast] at ha <;> cases v <;> simp [hasShape] at hs ⊢
    | _ => simp [pickTypeCast] at ha
  | emptyList =>
    cases expected with
    | prim p => cases p <;> simp [pickTypeCast] at ha
    | list t => cases v <;> simp [hasShape] at hs ⊢
    | _ => simp [pickTypeCast] at ha

/-- `deduce_type` is an upper bound w.r.t. shapes, on both sides -/
theorem deduce_shape (env : Env) {l r R : TypeDesc} {v : EvaluatedValue} (hd : deduceType env l r = some R) :
    (hasShape v l = true → hasShape v R = true) ∧ (hasShape v r = true → hasShape v R = true) := by
  unfold deduceType at hd
  by_cases heq : l = r
  · subst heq; simp at hd; subst hd; exact ⟨id, id⟩
  · simp only [heq, if_false] at hd
    split at hd <;> simp at hd <;> (try (obtain ⟨_, rfl⟩ := hd)) <;> (try subst hd) <;>
      constructor <;> intro h <;> cases v <;> simp_all [hasShape]

/-! ### interpreter: the shape invariant -/

/-- every local that holds a value holds one of the shape of its declared type -/
def LocalsOk (code : Code) (locals : Locals) : Prop :=
  locals.length = code.locals.length ∧
  ∀ (i : Nat) (v : EvaluatedValue), locals[i]? = some (some v) → ∃ t, code.locals[i]? = some t ∧ hasShape v (.concrete t) = true

theorem localsOk_init (code : Code) : LocalsOk code (List.replicate code.locals.length none) := by
  refine ⟨by simp, ?_⟩
  intro i v h
  rw [List.getElem?_replicate] at h
  split at h <;> simp at h

theorem localsOk_set {code : Code} {locals : Locals} {l : Nat} {lty : TypeKind} {v : Option EvaluatedValue}
    (hl : LocalsOk code locals) (hty : code.locals[l]? = some lty)
    (hv : ∀ x, v = some x → hasShape x (.concrete lty) = true) : LocalsOk code (locals.set l v) := by
  refine ⟨by simp [hl.1], ?_⟩
  intro i x h
  rw [List.getElem?_set] at h
  split at h
  · rename_i hli
    subst hli
    split at h
    · simp at h; exact ⟨lty, hty, hv x h⟩
    · simp at h
  · exact hl.2 i x h

theorem tev_ok {code : Code} {locals : Locals} {a : Operand} {k : Bool}
    (hl : LocalsOk code locals) (ha : operandOk code a = true) :
    (∀ s, toEvaluatedValue locals a k ≠ .error s) ∧
    (∀ v, toEvaluatedValue locals a k = .ok (some v) → hasShape v a.typeDesc = true) := by
  cases a with
  | const c => cases c <;> simp [toEvaluatedValue, hasShape, Operand.typeDesc, ConstantValue.typeDesc]
  | enumVariant e cxx => simp [toEvaluatedValue, hasShape, Operand.typeDesc]
  | namedObject n c => simp [toEvaluatedValue, hasShape, Operand.typeDesc]
  | void => simp [toEvaluatedValue]
  | local_ i ty =>
    simp only [operandOk, decide_eq_true_eq] at ha
    have hi : i < locals.length := by
      rw [hl.1]
      exact (List.getElem?_eq_some_iff.mp ha).1
    simp only [toEvaluatedValue, List.getElem?_eq_getElem hi, Operand.typeDesc]
    refine ⟨by simp, ?_⟩
    intro v hv
    simp at hv
    obtain ⟨t, ht, hs⟩ := hl.2 i v (by rw [List.getElem?_eq_getElem hi, hv])
    rw [ha] at ht
    cases ht
    exact hs

theorem tev_const (locals : Locals) (c : ConstantValue) (k : Bool) :
    (∀ s, toEvaluatedValue locals (.const c) k ≠ .error s) ∧
    (∀ v, toEvaluatedValue locals (.const c) k = .ok (some v) → hasShape v (Operand.const c).typeDesc = true) := by
  cases c <;> simp [toEvaluatedValue, hasShape, Operand.typeDesc, ConstantValue.typeDesc]

theorem evalAll_ok {code : Code} {locals : Locals} (hl : LocalsOk code locals) :
    ∀ (args : List Operand), args.all (operandOk code) = true →
      ∃ vs, evalAll locals args = .ok vs ∧ vs.length = args.length ∧
        ∀ (i : Nat) (a : Operand) (v : EvaluatedValue), args[i]? = some a → vs[i]? = some (some v) → hasShape v a.typeDesc = true
  | [], _ => ⟨[], rfl, rfl, by simp⟩
  | a :: rest, h => by
    simp only [List.all_cons, Bool.and_eq_true] at h
    obtain ⟨vs, hvs, hlen, hsh⟩ := evalAll_ok hl rest h.2
    have ha := tev_ok (k := false) hl h.1
    cases hta : toEvaluatedValue locals a false with
    | error s => exact absurd hta (ha.1 s)
    | ok v =>
      refine ⟨v :: vs, by simp [evalAll, hta, hvs], by simp [hlen], ?_⟩
      intro i a' v' hai hvi
      cases i with
      | zero =>
        simp at hai hvi
        subst hai; subst hvi
        exact ha.2 v' hta
      | succ j =>
        simp at hai hvi
        exact hsh j a' v' hai hvi

theorem allStrings_some_head {vs : List (Option EvaluatedValue)} {xs} (h : allStrings vs = some xs) (hne : vs ≠ []) :
    ∃ s k rest, vs = some (.string s k) :: rest := by
  cases vs with
  | nil => exact absurd rfl hne
  | cons x rest =>
    cases x with
    | none => simp [allStrings] at h
    | some y => cases y <;> simp [allStrings] at h ⊢

/-- the element type of a `MakeList` whose first element evaluates to a string is QString, and to an object
    reference a pointer -/
theorem elem_of_first (env : Env) {elem : TypeKind} {a : Operand}
    (hd : deduceType env (.concrete elem) a.typeDesc = some (.concrete elem)) :
    (∀ s k, hasShape (.string s k) a.typeDesc = true → elem = .prim .qstring) ∧
    (∀ s, hasShape (.objectRef s) a.typeDesc = true → ∃ c, elem = .ptr c) := by
  generalize a.typeDesc = t at hd
  unfold deduceType at hd
  by_cases heq : TypeDesc.concrete elem = t
  · subst heq
    constructor
    · intro s k h; cases elem <;> simp [hasShape] at h ⊢
      rename_i p; cases p <;> simp [hasShape] at h ⊢
    · intro s h; cases elem <;> simp [hasShape] at h ⊢
  · simp only [heq, if_false] at hd
    constructor
    · intro s k h
      cases t with
      | constString => split at hd <;> simp_all
      | concrete tt =>
        cases tt with
        | prim p =>
          cases p <;> simp [hasShape] at h
          split at hd <;> simp_all
        | _ => simp [hasShape] at h
      | _ => simp [hasShape] at h
    · intro s h
      cases t with
      | concrete tt =>
        cases tt with
        | ptr c => split at hd <;> simp_all
        | _ => simp [hasShape] at h
      | _ => simp [hasShape] at h

theorem rvalue_ok (env : Env) {code : Code} {locals : Locals} {lty : TypeKind} {r : Rvalue}
    (hl : LocalsOk code locals) (hr : rvalueOk env code lty r = true) :
    (∀ s, evalRvalue locals r ≠ .error s) ∧
    (∀ v, evalRvalue locals r = .ok (some (some v)) → hasShape v (.concrete lty) = true) := by
  cases r with
  | other => simp [evalRvalue]
  | copy a =>
    simp only [rvalueOk, Bool.and_eq_true] at hr
    have ha := tev_ok (k := false) hl hr.1
    simp only [evalRvalue]
    cases hta : toEvaluatedValue locals a false with
    | error s => exact absurd hta (ha.1 s)
    | ok v =>
      refine ⟨by simp [Except.map], ?_⟩
      intro x hx
      simp [Except.map] at hx
      subst hx
      exact assignable_shape env hr.2 (ha.2 x hta)
  | tr args =>
    simp only [rvalueOk, Bool.and_eq_true, decide_eq_true_eq] at hr
    obtain ⟨hargs, hty⟩ := hr
    subst hty
    match args, hargs with
    | [.const (.cstring s)], _ => simp [evalRvalue, toEvaluatedValue, Except.map, hasShape]
  | callMethod obj flag =>
    simp only [rvalueOk, Bool.and_eq_true] at hr
    cases obj <;> cases flag <;> simp [evalRvalue] at hr ⊢
    cases lty <;> simp_all [hasShape]
  | bitOr l r =>
    simp only [rvalueOk, Bool.and_eq_true] at hr
    obtain ⟨⟨hol, hor⟩, hd⟩ := hr
    have hla := tev_ok (k := false) hl hol
    have hra := tev_ok (k := false) hl hor
    simp only [evalRvalue, toEvaluatedEnumSet]
    cases htl : toEvaluatedValue locals l false with
    | error s => exact absurd htl (hla.1 s)
    | ok lv =>
      cases lv with
      | none => simp [Except.map]
      | some lv =>
        cases htr : toEvaluatedValue locals r false with
        | error s => exact absurd htr (hra.1 s)
        | ok rv =>
          cases rv with
          | none => simp [Except.map]
          | some rv =>
            have hsl := hla.2 lv htl
            have hsr := hra.2 rv htr
            cases lv <;> cases rv <;> simp [Except.map]
            rename_i ls rs
            -- both operands have enum types; so has the result
            cases hdt : deduceType env l.typeDesc r.typeDesc with
            | none => simp [hdt] at hd
            | some t =>
              simp only [hdt] at hd
              have h1 := (deduce_shape env (v := .enumSet ls) hdt).1 hsl
              cases t <;> simp [hasShape] at h1
              rename_i tt; cases tt <;> simp [hasShape] at h1
              simp [toConcrete] at hd
              subst hd
              simp [hasShape]
  | makeList ty args =>
    simp only [rvalueOk, Bool.and_eq_true, decide_eq_true_eq] at hr
    obtain ⟨⟨hty, hops⟩, hlist⟩ := hr
    subst hty
    obtain ⟨vs, hvs, hlen, hsh⟩ := evalAll_ok hl args hops
    simp only [evalRvalue, toEvaluatedList, hvs]
    cases ty <;> simp at hlist
    rename_i elem
    obtain ⟨hne, hall⟩ := hlist
    cases args with
    | nil => simp at hne
    | cons a0 rest =>
      have hd0 : deduceType env (.concrete elem) a0.typeDesc = some (.concrete elem) := by
        have := hall a0 (by simp)
        simpa using this
      have he := elem_of_first env hd0
      cases vs with
      | nil => simp at hlen
      | cons v0 vrest =>
        have hs0 : ∀ v, v0 = some v → hasShape v a0.typeDesc = true := by
          intro v hv; subst hv; exact hsh 0 a0 v (by simp) (by simp)
        cases v0 with
        | none => simp [Except.map]
        | some x =>
          cases x <;> simp [Except.map]
          · -- strings
            rename_i s k
            have := he.1 s k (hs0 _ rfl)
            subst this
            intro xs _; simp [hasShape]
          · -- object references
            rename_i s
            obtain ⟨c, hc⟩ := he.2 s (hs0 _ rfl)
            subst hc
            intro xs _; simp [hasShape]

theorem stmts_ok (env : Env) {code : Code} :
    ∀ (stmts : List Statement) (locals : Locals), LocalsOk code locals → stmts.all (stmtOk env code) = true →
      (∀ s, evalStmts locals stmts ≠ .error s) ∧
      (∀ locals', evalStmts locals stmts = .ok (some locals') → LocalsOk code locals')
  | [], locals, hl, _ => by simp [evalStmts]; exact hl
  | .exec :: rest, locals, hl, h => by
    simp only [List.all_cons, Bool.and_eq_true] at h
    simpa [evalStmts] using stmts_ok env rest locals hl h.2
  | .observe :: rest, locals, hl, h => by
    simp only [List.all_cons, Bool.and_eq_true] at h
    simpa [evalStmts] using stmts_ok env rest locals hl h.2
  | .assign l r :: rest, locals, hl, h => by
    simp only [List.all_cons, Bool.and_eq_true, stmtOk] at h
    obtain ⟨hs, hrest⟩ := h
    cases hty : code.locals[l]? with
    | none => simp [hty] at hs
    | some lty =>
      simp only [hty] at hs
      have hr := rvalue_ok env hl hs
      have hlt : l < locals.length := by rw [hl.1]; exact (List.getElem?_eq_some_iff.mp hty).1
      simp only [evalStmts]
      cases hev : evalRvalue locals r with
      | error s => exact absurd hev (hr.1 s)
      | ok ov =>
        cases ov with
        | none => simp
        | some v =>
          simp only [hlt, if_true]
          apply stmts_ok env rest _ _ hrest
          apply localsOk_set hl hty
          intro x hx; subst hx
          exact hr.2 x hev

theorem wf_block {env : Env} {code : Code} (hw : wfCode env code = true) {idx : Nat} {b : Block}
    (hb : code.blocks[idx]? = some b) : b.stmts.all (stmtOk env code) = true ∧ termOk code b.term = true := by
  simp only [wfCode, Bool.and_eq_true, List.all_eq_true] at hw
  have := hw.2 b (List.mem_of_getElem? hb)
  exact ⟨List.all_eq_true.mpr this.1, this.2⟩

theorem ret_mem {code : Code} {idx : Nat} {b : Block} {a : Operand} (hb : code.blocks[idx]? = some b)
    (ht : b.term = some (.ret a)) : a ∈ returnOperands code := by
  simp only [returnOperands, List.mem_filterMap]
  exact ⟨b, List.mem_of_getElem? hb, by simp [ht]⟩

/-- the main loop: on builder-well-formed code the only panic is `unreachable!()`, and a value has the shape
    of the operand of some `return` -/
theorem run_ok (env : Env) (code : Code) (hw : wfCode env code = true) :
    ∀ (n : Nat) (unvisited : List Nat), unvisited.length = n → ∀ (idx : Nat) (locals : Locals),
      idx < code.blocks.length → LocalsOk code locals →
      (∀ s, runFrom code unvisited idx locals = .error s →
        s = .interpUnreachable ∧ ∃ b, b ∈ code.blocks ∧ b.term = some .unreachable) ∧
      (∀ v, runFrom code unvisited idx locals = .ok (some v) →
        ∃ a, a ∈ returnOperands code ∧ hasShape v a.typeDesc = true) := by
  intro n
  induction n using Nat.strongRecOn with
  | _ n ih =>
    intro unvisited hn idx locals hidx hl
    have hb : code.blocks[idx]? = some code.blocks[idx] := List.getElem?_eq_getElem hidx
    rw [runFrom]
    simp only [hb]
    by_cases hmem : idx ∈ unvisited
    · simp only [hmem, dite_true]
      obtain ⟨hso, hto⟩ := wf_block hw hb
      have hst := stmts_ok env _ locals hl hso
      cases hev : evalStmts locals code.blocks[idx].stmts with
      | error s => exact absurd hev (hst.1 s)
      | ok ol =>
        cases ol with
        | none => simp
        | some locals' =>
          have hl' := hst.2 locals' hev
          cases hterm : code.blocks[idx].term with
          | none => simp [hterm, termOk] at hto
          | some t =>
            cases t with
            | brCond => simp
            | unreachable =>
              simp only
              exact ⟨fun s h => by
                cases h
                exact ⟨rfl, _, List.mem_of_getElem? hb, hterm⟩, fun v h => by cases h⟩
            | ret a =>
              simp only [hterm, termOk] at hto
              have ha := tev_ok (k := false) hl' hto
              simp only
              refine ⟨fun s h => absurd h (ha.1 s), fun v h => ⟨a, ret_mem hb hterm, ha.2 v h⟩⟩
            | br r =>
              simp only [hterm, termOk, decide_eq_true_eq] at hto
              simp only
              have hlen : (unvisited.erase idx).length < n := by
                rw [List.length_erase_of_mem hmem, ← hn]
                have : 0 < unvisited.length := List.length_pos_of_mem hmem
                omega
              exact ih _ hlen (unvisited.erase idx) rfl r locals' hto hl'
    · simp [hmem]

theorem evaluate_ok (env : Env) (code : Code) (hw : wfCode env code = true) :
    (∀ s, evaluateCode code = .error s →
      s = .interpUnreachable ∧ ∃ b, b ∈ code.blocks ∧ b.term = some .unreachable) ∧
    (∀ v, evaluateCode code = .ok (some v) → ∃ a, a ∈ returnOperands code ∧ hasShape v a.typeDesc = true) := by
  have hne : code.blocks ≠ [] := by
    intro h; simp [wfCode, h] at hw
  have h0 : 0 < code.blocks.length := List.length_pos_iff.mpr hne
  have hrun := run_ok env code hw _ (List.range code.blocks.length) rfl 0
    (List.replicate code.locals.length none) h0 (localsOk_init code)
  have hb0 : code.blocks[0]? = some code.blocks[0] := List.getElem?_eq_getElem h0
  obtain ⟨_, hto⟩ := wf_block hw hb0
  unfold evaluateCode
  cases hbl : code.blocks with
  | nil => exact absurd hbl hne
  | cons b0 rest =>
    have hb0' : code.blocks[0] = b0 := by simp [hbl]
    rw [hb0'] at hto
    simp only
    cases hterm : b0.term with
    | none => simp [hterm, termOk] at hto
    | some t =>
      have hgen : ∀ {x : Out EvaluatedValue}, x = runFrom code (List.range code.blocks.length) 0 (List.replicate code.locals.length none) →
          (∀ s, x = .error s → s = .interpUnreachable ∧ ∃ b, b ∈ code.blocks ∧ b.term = some .unreachable) ∧
          (∀ v, x = .ok (some v) → ∃ a, a ∈ returnOperands code ∧ hasShape v a.typeDesc = true) := by
        intro x hx; subst hx; exact hrun
      cases t with
      | br r => simpa [hbl] using hgen (x := _) (by simp [hbl])
      | brCond => simpa [hbl] using hgen (x := _) (by simp [hbl])
      | unreachable => simpa [hbl] using hgen (x := _) (by simp [hbl])
      | ret a =>
        cases a with
        | const c =>
          simp only
          have hmem : Operand.const c ∈ returnOperands code := ret_mem hb0 (by rw [hb0']; exact hterm)
          have hc := tev_const ([] : Locals) c false
          exact ⟨fun s h => absurd h (hc.1 s), fun v h => ⟨_, hmem, hc.2 v h⟩⟩
        | enumVariant e s => simpa [hbl] using hgen (x := _) (by simp [hbl])
        | local_ i ty => simpa [hbl] using hgen (x := _) (by simp [hbl])
        | namedObject nm c => simpa [hbl] using hgen (x := _) (by simp [hbl])
        | void => simpa [hbl] using hgen (x := _) (by simp [hbl])

/-! ### `resolve_return_type` is an upper bound of every `return` operand -/

theorem foldDeduce_shape (env : Env) {v : EvaluatedValue} :
    ∀ (ts : List TypeDesc) (known R : TypeDesc), foldDeduce env known ts = some R →
      (hasShape v known = true → hasShape v R = true) ∧ (∀ t, t ∈ ts → hasShape v t = true → hasShape v R = true)
  | [], known, R, h => by
    simp [foldDeduce] at h; subst h; exact ⟨id, by simp⟩
  | t :: rest, known, R, h => by
    simp only [foldDeduce] at h
    cases hd : deduceType env known t with
    | none => simp [hd] at h
    | some k =>
      simp only [hd] at h
      have ih := foldDeduce_shape env (v := v) rest k R h
      have hds := deduce_shape env (v := v) hd
      refine ⟨fun hk => ih.1 (hds.1 hk), ?_⟩
      intro t' ht' hs
      simp only [List.mem_cons] at ht'
      rcases ht' with rfl | hm
      · exact ih.1 (hds.2 hs)
      · exact ih.2 t' hm hs

theorem resolve_shape (env : Env) {code : Code} {R : TypeDesc} {v : EvaluatedValue} {a : Operand}
    (hr : resolveReturnType env code = some R) (ha : a ∈ returnOperands code) (hs : hasShape v a.typeDesc = true) :
    hasShape v R = true := by
  unfold resolveReturnType at hr
  have hmem : a.typeDesc ∈ (returnOperands code).map Operand.typeDesc := List.mem_map_of_mem ha
  cases hl : (returnOperands code).map Operand.typeDesc with
  | nil => rw [hl] at hmem; simp at hmem
  | cons t rest =>
    rw [hl] at hr hmem
    simp only at hr
    have := foldDeduce_shape env (v := v) rest t R hr
    simp only [List.mem_cons] at hmem
    rcases hmem with h | h
    · exact this.1 (h ▸ hs)
    · exact this.2 _ h hs

/-! ### ranges -/

theorem ordered_head_le : ∀ (rest : List Rng) (x : Rng), ordered (x :: rest) → (∀ r, r ∈ rest → r.start ≤ r.stop) →
    ∀ (k : Nat) (b : Rng), rest[k]? = some b → x.stop ≤ b.start
  | [], _, _, _, k, b, h => by simp at h
  | y :: r', x, ho, hv, k, b, h => by
    simp only [ordered] at ho
    cases k with
    | zero => simp at h; subst h; exact ho.1
    | succ k' =>
      simp at h
      have := ordered_head_le r' y ho.2 (fun r hr => hv r (List.mem_cons_of_mem _ hr)) k' b h
      have hy := hv y (by simp)
      omega

theorem ordered_le : ∀ (l : List Rng), ordered l → (∀ r, r ∈ l → r.start ≤ r.stop) →
    ∀ (i j : Nat) (a b : Rng), l[i]? = some a → l[j]? = some b → i ≤ j → a.start ≤ b.stop
  | [], _, _, i, j, a, b, hi, _, _ => by simp at hi
  | x :: rest, ho, hv, i, j, a, b, hi, hj, hij => by
    cases i with
    | zero =>
      simp at hi
      cases j with
      | zero =>
        simp at hj; subst hi; subst hj; exact hv x (by simp)
      | succ j' =>
        simp at hj
        have h1 := ordered_head_le rest x ho (fun r hr => hv r (List.mem_cons_of_mem _ hr)) j' b hj
        have h2 := hv b (List.mem_cons_of_mem _ (List.mem_of_getElem? hj))
        have h3 := hv x (by simp)
        subst hi
        omega
    | succ i' =>
      cases j with
      | zero => omega
      | succ j' =>
        simp at hi hj
        have ho' : ordered rest := by
          cases rest with
          | nil => trivial
          | cons y r' => simp only [ordered] at ho; exact ho.2
        exact ordered_le rest ho' (fun r hr => hv r (List.mem_cons_of_mem _ hr)) i' j' a b hi hj (by omega)

end QV.Proofs.Totality
