/-
  C05, the constant path (tir/ceval.rs as modelled in QV.Model.Ceval): which operator/operand-type combinations it
  admits, compared with the specification's table and with the dynamic path (`emit_*_expression`).
  A failure of the folder that depends on the VALUES (overflow, division by zero, shift count) is not a type error.
-/
import QV.Proofs.TypingRules

set_option linter.unusedSimpArgs false

namespace QV.Proofs.TypingConst
open QV.Model QV.Spec.Typing QV.Proofs.TypingRules

def isValueError : ExprError → Bool
  | .integerOverflow | .integerConversion => true
  | _ => false

/-- verdict of a folding step as far as types are concerned -/
def typeOkB {α} : Except ExprError α → Bool
  | .ok _ => true
  | .error e => isValueError e

/-- the dispatch of `visit_unary_expression` on a constant operand -/
def cevalUnary (F : FloatOps) (op : UnaryOp) (a : ConstantValue) : Except ExprError ConstantValue :=
  match op with
  | .plus | .minus => evalUnaryArith F op a
  | .bitNot => evalUnaryBitwise a
  | .logNot => evalUnaryLogical a

/-- the dispatch of `visit_binary_expression` on constant operands (`&&`/`||` are handled elsewhere) -/
def cevalBinary (F : FloatOps) (op : BinaryOp) (l r : ConstantValue) : Except ExprError ConstantValue :=
  match op with
  | .arith o => evalBinaryArith F o l r
  | .bitwise o => evalBinaryBitwise o l r
  | .shift o => evalShift o l r
  | .cmp o => evalComparison F o l r
  | .logical _ => .ok (.bool false)

theorem visitUnary_const (F : FloatOps) (b : Builder) (op : UnaryOp) (a : ConstantValue) :
    visitUnaryExpression F b op (.const a) =
      (match cevalUnary F op a with
       | .ok v => .ok (.const v, b)
       | .error e => .error e) := by
  cases op <;> simp only [visitUnaryExpression, cevalUnary] <;>
    first
    | (cases evalUnaryArith F .plus a <;> rfl)
    | (cases evalUnaryArith F .minus a <;> rfl)
    | (cases evalUnaryBitwise a <;> rfl)
    | (cases evalUnaryLogical a <;> rfl)

theorem visitBinary_const (F : FloatOps) (env : Env) (b : Builder) (op : BinaryOp) (l r : ConstantValue)
    (hlog : ∀ o, op ≠ .logical o) :
    visitBinaryExpression F env b op (.const l) (.const r) =
      (match cevalBinary F op l r with
       | .ok v => .ok (.const v, b)
       | .error e => .error e) := by
  cases op with
  | logical o => exact absurd rfl (hlog o)
  | arith o => simp only [visitBinaryExpression, cevalBinary]; cases evalBinaryArith F o l r <;> rfl
  | bitwise o => simp only [visitBinaryExpression, cevalBinary]; cases evalBinaryBitwise o l r <;> rfl
  | shift o => simp only [visitBinaryExpression, cevalBinary]; cases evalShift o l r <;> rfl
  | cmp o => simp only [visitBinaryExpression, cevalBinary]; cases evalComparison F o l r <;> rfl

theorem visitBinary_dynamic (F : FloatOps) (env : Env) (b : Builder) (op : BinaryOp) (l r : Operand)
    (h : ¬ ((∃ x, l = .const x) ∧ (∃ y, r = .const y))) :
    visitBinaryExpression F env b op l r = emitBinaryExpression env b op l r := by
  unfold visitBinaryExpression
  split
  · exact absurd ⟨⟨_, rfl⟩, ⟨_, rfl⟩⟩ h
  · rfl

theorem visitUnary_dynamic (F : FloatOps) (b : Builder) (op : UnaryOp) (a : Operand) (h : ¬ ∃ x, a = .const x) :
    visitUnaryExpression F b op a = emitUnaryExpression b op a := by
  unfold visitUnaryExpression
  split
  · exact absurd ⟨_, rfl⟩ h
  · rfl

/-! ### unary operators: the constant path is exactly the table -/

theorem checked_type (v : Int) (c : ConstantValue) (h : checked v = .ok c) : c.typeDesc = .constInteger := by
  unfold checked at h
  split at h <;> simp at h
  subst h; rfl

theorem cevalUnary_type (F : FloatOps) (op : UnaryOp) (a c : ConstantValue) (h : cevalUnary F op a = .ok c) :
    unaryType op a.typeDesc = some c.typeDesc := by
  cases op <;> cases a <;>
    simp [cevalUnary, evalUnaryArith, evalUnaryBitwise, evalUnaryLogical] at h <;>
    (try (subst h; simp [unaryType, ConstantValue.typeDesc, TypeDesc.double, TypeDesc.bool, TypeKind.double, numK]))
  -- `-v` goes through the range check
  simp [unaryType, ConstantValue.typeDesc]
  exact (checked_type _ _ h).symm

@[simp] theorem typeOkB_checked (v : Int) : typeOkB (checked v) = true := by
  unfold checked
  split <;> rfl

@[simp] theorem typeOkB_ok {α} (a : α) : typeOkB (Except.ok a : Except ExprError α) = true := rfl

theorem cevalUnary_okB (F : FloatOps) (op : UnaryOp) (a : ConstantValue) :
    typeOkB (cevalUnary F op a) = (unaryType op a.typeDesc).isSome := by
  cases op <;> cases a <;>
    simp [cevalUnary, evalUnaryArith, evalUnaryBitwise, evalUnaryLogical, unaryType,
      ConstantValue.typeDesc, TypeDesc.double, TypeDesc.bool, TypeDesc.string, TypeKind.double, TypeKind.bool, TypeKind.string, numK,
      intK, enumK, TypeKind.int, TypeKind.uint] <;>
    simp [typeOkB, isValueError]

/-! ### binary operators on constants -/

def isQString : ConstantValue → Bool
  | .qstring _ => true
  | _ => false

def isOrdering : CmpOp → Bool
  | .lt | .le | .gt | .ge => true
  | _ => false

theorem typeOkB_evalShift (o : ShiftOp) (a b : Int) : typeOkB (evalShift o (.integer a) (.integer b)) = true := by
  unfold evalShift
  simp only
  split
  · rfl
  · split
    · rfl
    · cases o
      · rfl
      · simp only; split <;> rfl

theorem typeOkB_arith_int (F : FloatOps) (o : ArithOp) (a b : Int) :
    typeOkB (evalBinaryArith F o (.integer a) (.integer b)) = true := by
  cases o <;> simp [evalBinaryArith]
  · split <;> (first | exact typeOkB_checked _ | simp [typeOkB, isValueError])
  · split
    · simp [typeOkB, isValueError]
    · split <;> simp [typeOkB, isValueError]

/-- without `QString`-typed constants (which only `"lit" as QString` produces) the constant path admits exactly the
    operator/type combinations of the specification's table (after the repair 9ae7b5c of finding F30 this includes
    the comparisons of two `null` literals: `==`/`!=` only) -/
theorem cevalBinary_okB (F : FloatOps) (env : Env) (op : BinaryOp) (l r : ConstantValue) (hlog : ∀ o, op ≠ .logical o)
    (hq : isQString l = false ∧ isQString r = false) :
    typeOkB (cevalBinary F op l r) = (binaryType env op l.typeDesc r.typeDesc).isSome := by
  cases op with
  | logical o => exact absurd rfl (hlog o)
  | arith o =>
    cases l <;> cases r <;> simp [isQString] at hq <;>
      (first
        | (rw [show cevalBinary F (.arith o) _ _ = evalBinaryArith F o _ _ from rfl, typeOkB_arith_int]
           simp [binaryType, common, ConstantValue.typeDesc])
        | (cases o <;>
            simp [cevalBinary, evalBinaryArith, typeOkB, isValueError, binaryType, common, ConstantValue.typeDesc, TypeDesc.bool,
              TypeDesc.double, TypeDesc.string, litFits, intK, ptrK, listK, numK, TypeKind.bool, TypeKind.double, TypeKind.int,
              TypeKind.uint, TypeKind.string]))
  | bitwise o =>
    cases l <;> cases r <;> simp [isQString] at hq <;>
      simp [cevalBinary, evalBinaryBitwise, typeOkB, isValueError, binaryType, common, ConstantValue.typeDesc, TypeDesc.bool,
        TypeDesc.double, TypeDesc.string, litFits, intK, ptrK, listK, numK, enumK, TypeKind.bool, TypeKind.double, TypeKind.int,
        TypeKind.uint, TypeKind.string]
  | shift o =>
    cases l <;> cases r <;> simp [isQString] at hq <;>
      (first
        | (rw [show cevalBinary F (.shift o) _ _ = evalShift o _ _ from rfl, typeOkB_evalShift]
           simp [binaryType, intTy, ConstantValue.typeDesc])
        | simp [cevalBinary, evalShift, typeOkB, isValueError, binaryType, intTy, ConstantValue.typeDesc, TypeDesc.bool,
            TypeDesc.double, TypeDesc.string, intK, TypeKind.bool, TypeKind.double, TypeKind.int, TypeKind.uint, TypeKind.string])
  | cmp o =>
    cases l <;> cases r <;> simp [isQString] at hq
    case nullPointer.nullPointer =>
      cases o <;>
        simp [cevalBinary, evalComparison, typeOkB, isValueError, binaryType, common, ConstantValue.typeDesc, orderedTy, eqOnlyTy]
    all_goals
      simp [cevalBinary, evalComparison, typeOkB, isValueError, binaryType, common, ConstantValue.typeDesc, TypeDesc.bool,
        TypeDesc.double, TypeDesc.string, litFits, intK, ptrK, listK, numK, enumK, orderedTy, eqOnlyTy, TypeKind.bool,
        TypeKind.double, TypeKind.int, TypeKind.uint, TypeKind.string]

theorem evalShift_type (o : ShiftOp) (l r c : ConstantValue) (h : evalShift o l r = .ok c) :
    l.typeDesc = .constInteger ∧ r.typeDesc = .constInteger ∧ c.typeDesc = .constInteger := by
  cases l <;> cases r <;> simp [evalShift] at h
  rename_i a b
  refine ⟨rfl, rfl, ?_⟩
  split at h
  · simp at h
  · split at h
    · simp at h
    · cases o
      · simp at h; subst h; rfl
      · simp only at h
        split at h
        · simp at h; subst h; rfl
        · simp at h

/-- whatever the constant path accepts has the type the specification's table gives -/
theorem cevalBinary_type (F : FloatOps) (env : Env) (op : BinaryOp) (l r c : ConstantValue) (hlog : ∀ o, op ≠ .logical o)
    (h : cevalBinary F op l r = .ok c) :
    binaryType env op l.typeDesc r.typeDesc = some c.typeDesc := by
  cases op with
  | logical o => exact absurd rfl (hlog o)
  | shift o =>
    obtain ⟨h1, h2, h3⟩ := evalShift_type o l r c h
    simp [binaryType, h1, h2, h3, intTy]
  | arith o =>
    cases l <;> cases r <;> simp [cevalBinary, evalBinaryArith] at h
    case integer.integer a b =>
      have : c.typeDesc = .constInteger := by
        cases o <;> simp at h
        · exact checked_type _ _ h
        · exact checked_type _ _ h
        · exact checked_type _ _ h
        · split at h
          · simp at h
          · exact checked_type _ _ h
        · split at h
          · simp at h
          · split at h
            · simp at h
            · simp at h; subst h; rfl
      rw [this]
      simp [binaryType, common, ConstantValue.typeDesc]
    case float.float a b =>
      subst h
      simp [binaryType, common, ConstantValue.typeDesc, TypeDesc.double, numK, TypeKind.double]
    case cstring.cstring a b =>
      cases o <;> simp at h
      subst h
      simp [binaryType, common, ConstantValue.typeDesc]
  | bitwise o =>
    cases l <;> cases r <;> simp [cevalBinary, evalBinaryBitwise] at h <;> subst h <;>
      simp [binaryType, common, ConstantValue.typeDesc, TypeDesc.bool, TypeKind.bool]
  | cmp o =>
    cases l <;> cases r <;> simp [cevalBinary, evalComparison] at h
    case nullPointer.nullPointer =>
      split at h
      · rename_i ho
        simp at h
        subst h
        rcases ho with rfl | rfl <;>
          simp [binaryType, common, ConstantValue.typeDesc, orderedTy, eqOnlyTy, TypeDesc.bool]
      · simp at h
    all_goals
      subst h
      simp [binaryType, common, ConstantValue.typeDesc, TypeDesc.bool, TypeDesc.double, TypeDesc.string, orderedTy, numK,
        TypeKind.bool, TypeKind.double, TypeKind.string, TypeKind.int, TypeKind.uint]

/-! ### consistency of the two paths -/

/-- CONSISTENCY: on constant operands (no `QString`-typed constant, not two `null`s) the constant path and the
    dynamic path accept the same operator/type combinations -/
theorem const_dyn_consistent (F : FloatOps) (env : Env) (b : Builder) (op : BinaryOp) (l r : ConstantValue)
    (hlog : ∀ o, op ≠ .logical o) (hq : isQString l = false ∧ isQString r = false)
    (hnn : ¬ (l = .nullPointer ∧ r = .nullPointer)) :
    typeOkB (cevalBinary F op l r) = okB (emitBinaryExpression env b op (.const l) (.const r)) := by
  have hnn' : ¬ ((Operand.const l).typeDesc = .nullPointer ∧ (Operand.const r).typeDesc = .nullPointer) := by
    intro ⟨h1, h2⟩
    apply hnn
    constructor
    · cases l <;> simp [Operand.typeDesc, ConstantValue.typeDesc, TypeDesc.bool, TypeDesc.double, TypeDesc.string] at h1; rfl
    · cases r <;> simp [Operand.typeDesc, ConstantValue.typeDesc, TypeDesc.bool, TypeDesc.double, TypeDesc.string] at h2; rfl
  rw [cevalBinary_okB F env op l r hlog hq, emitBinary_okB env b op _ _ hlog hnn']
  rfl

theorem const_dyn_consistent_unary (F : FloatOps) (b : Builder) (op : UnaryOp) (a : ConstantValue) :
    typeOkB (cevalUnary F op a) = okB (emitUnaryExpression b op (.const a)) := by
  rw [cevalUnary_okB, emitUnary_okB]
  rfl

/-! ### the exceptions, with witnesses -/

/-- over-rejection 1: `QString + QString` on constants (`("a" as QString) + ("b" as QString)`) is refused by the
    folder although the table and the dynamic path accept it -/
theorem qstring_add_overrejected (F : FloatOps) (env : Env) (b : Builder) (x y : List Char) :
    typeOkB (cevalBinary F (.arith .add) (.qstring x) (.qstring y)) = false ∧
    binaryType env (.arith .add) (ConstantValue.qstring x).typeDesc (ConstantValue.qstring y).typeDesc = some .string ∧
    okB (emitBinaryExpression env b (.arith .add) (.const (.qstring x)) (.const (.qstring y))) = true := by
  refine ⟨by simp [cevalBinary, evalBinaryArith, typeOkB, isValueError], ?_, ?_⟩
  · simp [binaryType, common, ConstantValue.typeDesc, TypeDesc.string, numK, TypeKind.string, TypeKind.int, TypeKind.uint, TypeKind.double]
  · rw [emitBinary_okB _ _ _ _ _ (by intro o h; cases h) (by simp [Operand.typeDesc, ConstantValue.typeDesc, TypeDesc.string])]
    simp [binaryType, common, Operand.typeDesc, ConstantValue.typeDesc, TypeDesc.string, numK, TypeKind.string, TypeKind.int,
      TypeKind.uint, TypeKind.double]

/-- over-rejection 2: a `QString` constant against a string literal (`("a" as QString) == "b"`, `… + "b"`) -/
theorem qstring_cstring_overrejected (F : FloatOps) (env : Env) (x y : List Char) :
    typeOkB (cevalBinary F (.cmp .eq) (.qstring x) (.cstring y)) = false ∧
    typeOkB (cevalBinary F (.arith .add) (.qstring x) (.cstring y)) = false ∧
    binaryType env (.cmp .eq) (ConstantValue.qstring x).typeDesc (ConstantValue.cstring y).typeDesc = some .bool ∧
    binaryType env (.arith .add) (ConstantValue.qstring x).typeDesc (ConstantValue.cstring y).typeDesc = some .string := by
  refine ⟨by simp [cevalBinary, evalComparison, typeOkB, isValueError], by simp [cevalBinary, evalBinaryArith, typeOkB, isValueError], ?_, ?_⟩ <;>
    simp [binaryType, common, ConstantValue.typeDesc, TypeDesc.string, litFits, orderedTy, numK, TypeKind.string, TypeKind.int,
      TypeKind.uint, TypeKind.double, TypeKind.bool]

/-- over-rejection 3 (a VALUE, not a type): `i64::MIN % -1` is 0 mathematically but refused (`checked_rem`) -/
theorem i64min_rem_overrejected (F : FloatOps) :
    cevalBinary F (.arith .rem) (.integer i64Min) (.integer (-1)) = .error .integerOverflow := by
  simp [cevalBinary, evalBinaryArith, i64Min]

/-- finding F30, repaired by 9ae7b5c: an ordering comparison of two `null` literals is a type error on the constant
    path too (it used to be folded to `false`/`true`), as the table says and as the dynamic path says for every pair
    of pointer operands -/
theorem null_ordering_rejected_by_const_path (F : FloatOps) (env : Env) (c : CmpOp) (hc : isOrdering c = true) :
    typeOkB (cevalBinary F (.cmp c) .nullPointer .nullPointer) = false ∧
    binaryType env (.cmp c) .nullPointer .nullPointer = none := by
  cases c <;> simp [isOrdering] at hc <;>
    simp [cevalBinary, evalComparison, typeOkB, isValueError, binaryType, common, orderedTy, eqOnlyTy]

theorem pointer_ordering_rejected_by_dynamic_path (env : Env) (b : Builder) (c : CmpOp) (hc : isOrdering c = true)
    (l r : Operand) (k : TypeKind) (hk : ptrK k = true) (hl : l.typeDesc = .concrete k ∨ l.typeDesc = .nullPointer)
    (hr : r.typeDesc = .concrete k ∨ r.typeDesc = .nullPointer) (hnn : ¬ (l.typeDesc = .nullPointer ∧ r.typeDesc = .nullPointer)) :
    okB (emitBinaryExpression env b (.cmp c) l r) = false := by
  rw [emitBinary_okB env b _ l r (by intro o h; cases h) hnn]
  have hkb : k ≠ .bool ∧ k ≠ .string ∧ numK k = false ∧ enumK k = false := by
    cases k <;> simp [ptrK] at hk <;> simp [TypeKind.bool, TypeKind.string, numK, enumK, TypeKind.int, TypeKind.uint, TypeKind.double]
  obtain ⟨h1, h2, h3, h4⟩ := hkb
  rcases hl with hl | hl <;> rcases hr with hr | hr
  · cases c <;> simp [isOrdering] at hc <;> simp [binaryType, common, hl, hr, orderedTy, eqOnlyTy, h1, h2, h3, h4, hk]
  · cases c <;> simp [isOrdering] at hc <;> simp [binaryType, common, hl, hr, litFits, orderedTy, eqOnlyTy, h1, h2, h3, h4, hk]
  · cases c <;> simp [isOrdering] at hc <;> simp [binaryType, common, hl, hr, litFits, orderedTy, eqOnlyTy, h1, h2, h3, h4, hk]
  · exact absurd ⟨hl, hr⟩ hnn

/-- the dynamic path has no type for `null == null` ("undetermined type"); the constant path takes it (both are
    literals), so no program observes this -/
theorem null_eq_null (F : FloatOps) (env : Env) (b : Builder) :
    cevalBinary F (.cmp .eq) .nullPointer .nullPointer = .ok (.bool true) ∧
    binaryType env (.cmp .eq) .nullPointer .nullPointer = some .bool ∧
    okB (emitBinaryExpression env b (.cmp .eq) (.const .nullPointer) (.const .nullPointer)) = false := by
  refine ⟨by simp [cevalBinary, evalComparison, cmpBy], by simp [binaryType, common, orderedTy, eqOnlyTy], ?_⟩
  simp [emitBinaryExpression, ensureConcreteString, Operand.typeDesc, ConstantValue.typeDesc, deduceConcrete, deduceConcreteType,
    deduceType, toConcreteType, toOperationTypeError]

end QV.Proofs.TypingConst
