/-
  QV.Props.C01 — the `if` statement in the CFG-level induction over statement lists: `if (c) { A } else { B }` and
  `if (c) { A }` followed by more statements, where the branch bodies are lists of assignments to variables in scope
  (`BodyFrag`).  The condition's exit block branches to the first block of a branch, each branch's exit block jumps to
  the new current block (`visit_if_statement`); the variables' values are in their locals at the join.
-/
import QV.Proofs.SemCfgStmt

namespace QV.Proofs.SemCfgStmtIf
open QV.Model QV.Model.IrSem QV.Proofs.SemIr QV.Proofs.SemVisit QV.Proofs.SemWalk QV.Proofs.SemStraight QV.Proofs.SemCfg QV.Proofs.SemCfgWalk QV.Proofs.SemCfgCtl QV.Proofs.SemCfgBlock QV.Proofs.SemCfgStmt
open QV.Spec.Sem (Val World Host Ev Ty STy coerceTo binop unop staticTy)
set_option linter.unusedSimpArgs false

theorem run_attempt {α} (x : W α) (s : WState) : (attempt x).run s = (some (x.run s).1, (x.run s).2) := rfl

/-- what a successful walk of `if (c) a else b` consists of -/
theorem run_if_else (wc : Ctx) (cnd : Expr) (a b : Stmt) (s s' : WState)
    (h : (walkStmt wc none (.if_ cnd a (some b))).run s = (some (), s')) :
    ∃ cop s1 s2 s3, (walkRvalue wc cnd).run s = (some cop, s1) ∧
      (walkStmt wc none a).run { s1 with b := s1.b.newBlock.2 } = (some (), s2) ∧
      (walkStmt wc none b).run { s2 with b := s2.b.newBlock.2, locals := s1.locals } = (some (), s3) ∧
      cop.typeDesc = .bool ∧
      s' = { s3 with locals := s1.locals,
                     b := visitIfStatement s3.b.newBlock.2 cop s1.b.currentRef s2.b.currentRef (some s3.b.currentRef) } := by
  rw [walkStmt] at h
  simp only [run_bind] at h
  cases h1 : (walkRvalue wc cnd).run s with
  | mk r s1 =>
    rw [h1] at h
    cases r with
    | none => simp only at h; injection h with h _; cases h
    | some cop =>
      simp only [run_mark, run_bind, run_getLocals, run_attempt] at h
      cases h2 : (walkStmt wc none a).run { s1 with b := s1.b.newBlock.2 } with
      | mk r2 s2 =>
        rw [h2] at h
        simp only [run_setLocals, run_bind] at h
        cases r2 with
        | none =>
          simp only at h
          have hf : ∀ t : WState, (failure : W Unit).run t = (none, t) := fun _ => rfl
          rw [hf] at h
          injection h with h _; cases h
        | some u =>
          cases u
          simp only [run_pure, run_mark, run_bind, run_attempt] at h
          cases h3 : (walkStmt wc none b).run { s2 with b := s2.b.newBlock.2, locals := s1.locals } with
          | mk r3 s3 =>
            rw [h3] at h
            simp only [run_setLocals] at h
            cases r3 with
            | none =>
              simp only at h
              have hf : ∀ t : WState, (failure : W (Option Nat)).run t = (none, t) := fun _ => rfl
              rw [hf] at h
              simp only at h
              injection h with h _; cases h
            | some u3 =>
              cases u3
              simp only [run_mark, run_bind, run_pure] at h
              by_cases hc : cop.typeDesc = .bool
              · rw [run_check_ok _ _ hc] at h
                simp only [run_getB, run_setB] at h
                injection h with _ hs
                exact ⟨cop, s1, s2, s3, rfl, h2, h3, hc, hs.symm⟩
              · have := run_check_err cop { s3 with locals := s1.locals, b := s3.b.newBlock.2 } hc
                cases hq : (checkConditionType cop).run { s3 with locals := s1.locals, b := s3.b.newBlock.2 } with
                | mk q sq =>
                  rw [hq] at this
                  simp only at this
                  subst this
                  rw [hq] at h
                  simp only at h; injection h with h _; cases h

/-! ### branch bodies: lists of assignments -/

/-- branch bodies: `A ::= ε | x = e; A` (x a variable in scope, e in `CfgFrag`) -/
inductive BodyFrag (wc : Ctx) (scope : List String) : List Stmt → Prop
  | nil : BodyFrag wc scope []
  | assign (x : String) (e : Expr) (rest : List Stmt) : x ∈ scope → CfgFrag wc scope e → BodyFrag wc scope rest →
      BodyFrag wc scope (.expr (.assign (.ident x) e) :: rest)

/-- what the walk of a branch body achieves: a CFG walk that leaves the name map as it is, and over any covering final
    code execution from the entry position reaches the exit position in a state in which the variables — updated as the
    reference semantics updates them — are in their locals again; the world is untouched -/
def BodyOk (wc : Ctx) (sc : QV.Spec.Sem.Ctx) (ic : ICtx) (wl : QV.Model.Locals)
    (vars : List QV.Spec.Sem.Var) (body : List Stmt) : Prop :=
  ∀ s s', (walkStmts wc none body).run s = (some true, s') → s.locals = wl → VarRel s.b.code.locals wl vars →
    VarInj wl → (∃ blk, OpenAt s.b blk) →
    s'.locals = wl ∧ Walked s.b s'.b ∧
      ∀ C, Covers C s'.b s.b.currentRef →
      ∀ (st : State) (sst : QV.Spec.Sem.St) (o : QV.Spec.Sem.Outcome) (sst' : QV.Spec.Sem.St),
        shapeOf sst.vars = shapeOf vars → sst.w = st.w → (∀ x q u, st.w.prop x q = some u → isCint u = false) →
        ValRel wl sst.vars st.L →
        QV.Spec.Sem.execStmts sc body sst = some (o, sst') →
        (∃ w, o = .normal w) ∧ shapeOf sst'.vars = shapeOf vars ∧ ∃ d st', d ≤ s'.b.currentRef - s.b.currentRef ∧
          (∀ fuel, runAt ic C (fuel + d) s.b.currentRef (curLen s.b) st =
            runAt ic C fuel s'.b.currentRef (curLen s'.b) st') ∧
          ValRel wl sst'.vars st'.L ∧ sst'.w = st'.w ∧ st'.w = st.w

theorem body_nil (wc : Ctx) (sc : QV.Spec.Sem.Ctx) (ic : ICtx) (wl : QV.Model.Locals) (vars : List QV.Spec.Sem.Var) :
    BodyOk wc sc ic wl vars [] := by
  intro s s' h hl _ _ ⟨blk, ho⟩
  rw [run_stmts_nil] at h
  injection h with _ hs
  subst hs
  refine ⟨hl, Walked.of_grows (Grows.refl s.b blk ho), ?_⟩
  intro C _ st sst o sst' hvars hw _ hval hsp
  rw [QV.Spec.Sem.execStmts.eq_def] at hsp
  simp only [Option.some.injEq, Prod.mk.injEq] at hsp
  obtain ⟨rfl, rfl⟩ := hsp
  exact ⟨⟨_, rfl⟩, hvars, 0, st, by omega, fun _ => rfl, hval, hw, rfl⟩

theorem body_assign (wc : Ctx) (sc : QV.Spec.Sem.Ctx) (ic : ICtx) (wl : QV.Model.Locals)
    (vars : List QV.Spec.Sem.Var) (x : String) (n : Nat) (k : DeclKind) (e : Expr) (rest : List Stmt)
    (hx : wl.get? x = some (n, k)) (he : WalkOk wc sc ic wl vars e) (hrest : BodyOk wc sc ic wl vars rest) :
    BodyOk wc sc ic wl vars (.expr (.assign (.ident x) e) :: rest) := by
  intro s s' h hl hvr hinj ho
  rw [run_stmts_cons] at h
  cases hd : (walkStmt wc none (.expr (.assign (.ident x) e))).run s with
  | mk r sd =>
    rw [hd] at h
    cases r with
    | none =>
      simp only at h
      cases hq : (walkStmts wc none rest).run sd with
      | mk q sq =>
        rw [hq] at h
        cases q <;> (simp only at h; injection h with h _; cases h)
    | some u =>
      cases u
      simp only at h
      obtain ⟨v, s1, hw, _, a, b1, hvis, hsd⟩ := run_assign_stmt wc x n k e s sd (by rw [hl]; exact hx) hd
      have r1 := he s s1 v hw hl hvr ho
      obtain ⟨blk1, ho1⟩ := r1.walked.exitOpen
      have w1 : Walked s.b s1.b := r1.walked
      obtain ⟨var0, ty, hfind0, hty0, htynv, _, hsty0⟩ := hvr.some x n k hx
      have hn : n < s.b.code.locals.length := lt_of_getElem? hty0
      have hty1 : s1.b.code.locals[n]? = some ty := by
        obtain ⟨tys, ht⟩ := w1.locals
        rw [ht]; exact prefix_getElem? (List.prefix_append _ _) n ty hty0
      -- the builder after the store
      simp only [visitLocalAssignment, hty1] at hvis
      split at hvis
      · cases hvis
      · injection hvis with hvis
        injection hvis with ha hb1
        subst ha hb1
        have hg := grows_push s1.b blk1 (.assign n (.copy (ensureConcreteString v))) ho1
        obtain ⟨blk1', ho1'⟩ := hg.open
        have wp : Walked s1.b (s1.b.pushStatement (.assign n (.copy (ensureConcreteString v)))) := Walked.of_grows hg
        obtain ⟨wc', hcur', hlen', hloc'⟩ :=
          walked_completion (s1.b.pushStatement (.assign n (.copy (ensureConcreteString v)))) blk1' .void ho1'
        have hsdb : sd.b = (s1.b.pushStatement (.assign n (.copy (ensureConcreteString v)))).setCompletionValue .void := by
          rw [hsd]; rfl
        rw [← hsdb] at wc' hcur' hlen' hloc'
        have hsdl : sd.locals = wl := by rw [hsd]; exact r1.locals
        have hvr' : VarRel sd.b.code.locals wl vars := ((hvr.mono w1.locals).mono wp.locals).mono wc'.locals
        obtain ⟨hl2, w2, hsim2⟩ := hrest sd s' h hsdl hvr' hinj wc'.exitOpen
        refine ⟨hl2, ((w1.trans wp).trans wc').trans w2, ?_⟩
        intro C hC st sst out sst' hvars hw' hnc hval hsp
        obtain ⟨varx, valx, hfx, _, _, _⟩ := hval x n k hx
        rcases spec_stmts_assign sc x e rest sst out sst' hsp with
          ⟨var, v0, sA, v', hlook, _, hev, hco, out', hrs, hout⟩ | hnone
        · have hCd : Covers C sd.b s.b.currentRef := Covers.of_ext w2.toExt hC ((w1.trans wp).trans wc').cur_le
          have hCp : Covers C (s1.b.pushStatement (.assign n (.copy (ensureConcreteString v)))) s.b.currentRef :=
            Covers.of_ext wc'.toExt hCd (w1.trans wp).cur_le
          have hC1 : Covers C s1.b s.b.currentRef := Covers.of_ext wp.toExt hCp w1.cur_le
          obtain ⟨hsA, d1, st1, hd1, hrun1, hv1, hp1, hw1', ht1, _⟩ := r1.sim C hC1 st sst sA v0 hvars hw' hnc hval hev
          subst hsA
          -- the type of the variable
          obtain ⟨var', hf', hsty', _⟩ := find?_some_of_shape hvars x var0 hfind0
          have hvv : var = var' := by
            simp only [QV.Spec.Sem.St.lookup] at hlook
            rw [hf'] at hlook; injection hlook with hlook; exact hlook.symm
          subst hvv
          rw [hsty', hsty0] at hco
          have hLLn : C.locals[n]? = some ty := prefix_getElem? hC1.locals n ty hty1
          have hex : execStatements ic C.locals [.assign n (.copy (ensureConcreteString v))] st1 =
              some { st1 with L := upd st1.L n v' } := by
            simp [execStatements, execStatement, evalRvalue, evalOperand_ensure, hv1, hLLn, hco]
          have hstep : ∀ fuel, runAt ic C fuel s1.b.currentRef (curLen s1.b) st1 =
              runAt ic C fuel sd.b.currentRef (curLen sd.b) { st1 with L := upd st1.L n v' } := by
            intro fuel
            rw [hcur', hlen']
            exact runAt_emit ic C s1.b _ blk1 _ _ ho1 hg hCp st1 _ hex fuel
          have hval' : ValRel wl (QV.Spec.Sem.assignVar x v' sA.vars) (upd st1.L n v') := by
            intro y ny ky hy
            by_cases hyx : y = x
            · subst hyx
              rw [hx] at hy
              injection hy with hy
              injection hy with h1 h2
              subst h1
              exact ⟨{ var with val := some v' }, v', find?_assignVar_self y v' _ var hf', rfl, upd_same _ _ _,
                coerceTo_not_cint hco⟩
            · obtain ⟨vy, valy, g1, g2, g3, g4⟩ := hval y ny ky hy
              obtain ⟨_, tyy, _, htyy, _⟩ := hvr.some y ny ky hy
              have hny : ny < s.b.code.locals.length := lt_of_getElem? htyy
              have hne : ny ≠ n := fun hc => hyx (hinj y x ny ky n k hy hx hc)
              refine ⟨vy, valy, by rw [find?_assignVar_ne x y v' hyx]; exact g1, g2, ?_, g4⟩
              rw [upd_other _ _ _ _ hne, hp1 ny hny]
              exact g3
          obtain ⟨⟨w, hout'⟩, hsh2, d2, st2, hd2, hrun2, hval2, hww2, hw2'⟩ := hsim2 C (hC.mono ((w1.trans wp).trans wc').cur_le)
            { st1 with L := upd st1.L n v' } { sA with vars := QV.Spec.Sem.assignVar x v' sA.vars } out' sst'
            (by show shapeOf (QV.Spec.Sem.assignVar x v' sA.vars) = _; rw [shapeOf_assignVar]; exact hvars)
            (hw'.trans hw1'.symm) (by show ∀ x q u, st1.w.prop x q = some u → _; rw [hw1']; exact hnc) hval' hrs
          have hc01 := w1.cur_le
          have hcp := wp.cur_le
          have hc2 := w2.cur_le
          have hcpe : (s1.b.pushStatement (.assign n (.copy (ensureConcreteString v)))).currentRef = s1.b.currentRef :=
            hg.currentRef
          refine ⟨⟨_, by rw [hout, hout']; rfl⟩, hsh2, d1 + d2, st2, by omega, ?_, hval2, hww2, hw2'.trans hw1'⟩
          intro fuel
          have : fuel + (d1 + d2) = (fuel + d2) + d1 := by omega
          rw [this, hrun1, hstep, hrun2]
        · simp only [QV.Spec.Sem.St.lookup] at hnone
          rw [hfx] at hnone
          cases hnone

theorem walk_body (wc : Ctx) (sc : QV.Spec.Sem.Ctx) (ic : ICtx) (hag : Agree wc sc ic)
    (scope : List String) (wl : QV.Model.Locals) (vars : List QV.Spec.Sem.Var) (hsc : ScopeOf scope wl)
    (body : List Stmt) (hf : BodyFrag wc scope body) : BodyOk wc sc ic wl vars body := by
  induction hf with
  | nil => exact body_nil wc sc ic wl vars
  | assign x e rest hx he _ ih =>
    have := (hsc x).mp hx
    cases hg : wl.get? x with
    | none => rw [hg] at this; cases this
    | some nk =>
      exact body_assign wc sc ic wl vars x nk.1 nk.2 e rest hg (walk_cfg wc sc ic hag scope wl vars hsc e he) ih

/-! ### `visit_if_statement` with both branches -/

theorem visitIf_facts (b : Builder) (cond : Operand) (cRef aRef bRef : Nat) (blkC blkA blkB : BasicBlock)
    (hC : b.code.blocks[cRef]? = some blkC) (hCt : blkC.terminator = none)
    (hA : b.code.blocks[aRef]? = some blkA) (hAt : blkA.terminator = none)
    (hB : b.code.blocks[bRef]? = some blkB) (hBt : blkB.terminator = none)
    (hca : cRef ≠ aRef) (hcb : cRef ≠ bRef) (hab : aRef ≠ bRef) :
    (visitIfStatement b cond cRef aRef (some bRef)).panic = b.panic ∧
    (visitIfStatement b cond cRef aRef (some bRef)).code.parameterCount = b.code.parameterCount ∧
    (visitIfStatement b cond cRef aRef (some bRef)).code.locals = b.code.locals ∧
    (visitIfStatement b cond cRef aRef (some bRef)).code.blocks.length = b.code.blocks.length ∧
    (∀ i, i ≠ cRef → i ≠ aRef → i ≠ bRef →
      (visitIfStatement b cond cRef aRef (some bRef)).code.blocks[i]? = b.code.blocks[i]?) ∧
    (visitIfStatement b cond cRef aRef (some bRef)).code.blocks[cRef]? =
      some { blkC with terminator := some (.brCond cond (cRef + 1) (aRef + 1)) } ∧
    (visitIfStatement b cond cRef aRef (some bRef)).code.blocks[aRef]? =
      some { blkA with terminator := some (.br (bRef + 1)) } ∧
    (visitIfStatement b cond cRef aRef (some bRef)).code.blocks[bRef]? =
      some { blkB with terminator := some (.br (bRef + 1)) } := by
  have hshape : visitIfStatement b cond cRef aRef (some bRef) =
      { b with code := { b.code with
          blocks := ((b.code.blocks.set cRef { blkC with terminator := some (.brCond cond (cRef + 1) (aRef + 1)) }).set aRef
            { blkA with terminator := some (.br (bRef + 1)) }).set bRef { blkB with terminator := some (.br (bRef + 1)) } } } := by
    simp only [visitIfStatement, Option.getD_some]
    rw [finalizeAt_open _ cRef blkC _ hC hCt]
    rw [finalizeAt_open _ aRef blkA _ (by simp [getElem?_set_ne' _ _ _ _ hca, hA]) hAt]
    rw [finalizeAt_open _ bRef blkB _ (by simp [getElem?_set_ne' _ _ _ _ hab, getElem?_set_ne' _ _ _ _ hcb, hB]) hBt]
  rw [hshape]
  refine ⟨rfl, rfl, rfl, by simp, ?_, ?_, ?_, ?_⟩
  · intro i h1 h2 h3
    simp only
    rw [getElem?_set_ne' _ _ _ _ (Ne.symm h3), getElem?_set_ne' _ _ _ _ (Ne.symm h2), getElem?_set_ne' _ _ _ _ (Ne.symm h1)]
  · simp only
    rw [getElem?_set_ne' _ _ _ _ (Ne.symm hcb), getElem?_set_ne' _ _ _ _ (Ne.symm hca), getElem?_set_self' _ _ _ _ hC]
  · simp only
    rw [getElem?_set_ne' _ _ _ _ (Ne.symm hab)]
    exact getElem?_set_self' _ _ _ blkA (by rw [getElem?_set_ne' _ _ _ _ hca]; exact hA)
  · simp only
    exact getElem?_set_self' _ _ _ blkB (by
      rw [getElem?_set_ne' _ _ _ _ hab, getElem?_set_ne' _ _ _ _ hcb]; exact hB)

/-! ### the reference semantics of `if (c) { A } else { B }; rest` -/

/-- a statement that completed with the value `u` in front of an outcome -/
def afterVal (u : Val) : QV.Spec.Sem.Outcome → QV.Spec.Sem.Outcome
  | .normal w => .normal (QV.Spec.Sem.updateEmpty w (some u))
  | .brk w => .brk (QV.Spec.Sem.updateEmpty w (some u))
  | o => o

theorem afterVal_outOf (u : Val) (isRet : Bool) (v : Val) : afterVal u (outOf isRet v) = outOf isRet v := by
  cases isRet <;> rfl

theorem leave_same (s : QV.Spec.Sem.St) (n : Nat) (h : s.vars.length = n) : s.leave n = s := by
  cases s
  simp only [QV.Spec.Sem.St.leave] at h ⊢
  simp [h]

theorem length_of_shape {a b : List QV.Spec.Sem.Var} (h : shapeOf a = shapeOf b) : a.length = b.length := by
  have := congrArg List.length h
  simpa [shapeOf] using this

theorem spec_stmts_if (c : QV.Spec.Sem.Ctx) (cnd : Expr) (A B rest : List Stmt)
    (s : QV.Spec.Sem.St) (out : QV.Spec.Sem.Outcome) (s' : QV.Spec.Sem.St)
    (h : QV.Spec.Sem.execStmts c (.if_ cnd (.block A) (some (.block B)) :: rest) s = some (out, s')) :
    ∃ xc sC o1 s1', QV.Spec.Sem.evalExpr c cnd s = some (.bool xc, sC) ∧
      QV.Spec.Sem.execStmts c (if xc then A else B) sC = some (o1, s1') ∧
      ∀ w, o1 = .normal w → ∃ out', QV.Spec.Sem.execStmts c rest ((s1'.leave sC.vars.length).leave sC.vars.length) =
        some (out', s') ∧ out = afterVal (w.getD .void) out' := by
  rw [QV.Spec.Sem.execStmts.eq_def] at h
  simp only at h
  rw [QV.Spec.Sem.execStmt.eq_def] at h
  simp only at h
  cases he : QV.Spec.Sem.evalExpr c cnd s with
  | none => simp [he] at h
  | some p =>
    obtain ⟨vc, sC⟩ := p
    cases vc with
    | bool xc =>
      cases xc with
      | true =>
        simp only [he] at h
        rw [QV.Spec.Sem.execStmt.eq_def] at h
        simp only at h
        cases hx : QV.Spec.Sem.execStmts c A sC with
        | none => simp [hx] at h
        | some p =>
          obtain ⟨o1, s1'⟩ := p
          refine ⟨true, sC, o1, s1', rfl, by simpa using hx, ?_⟩
          intro w hw
          subst hw
          simp only [hx, Option.map_some] at h
          generalize QV.Spec.Sem.execStmts c rest _ = r at h ⊢
          cases r with
          | none => cases h
          | some q =>
            obtain ⟨o, s2⟩ := q
            cases o with
            | normal w2 => simp only [Option.some.injEq, Prod.mk.injEq] at h; exact ⟨.normal w2, by rw [h.2], h.1.symm⟩
            | brk w2 => simp only [Option.some.injEq, Prod.mk.injEq] at h; exact ⟨.brk w2, by rw [h.2], h.1.symm⟩
            | ret w2 => simp only [Option.some.injEq, Prod.mk.injEq] at h; exact ⟨.ret w2, by rw [h.2], h.1.symm⟩
      | false =>
        simp only [he] at h
        rw [QV.Spec.Sem.execStmt.eq_def] at h
        simp only at h
        cases hx : QV.Spec.Sem.execStmts c B sC with
        | none => simp [hx] at h
        | some p =>
          obtain ⟨o1, s1'⟩ := p
          refine ⟨false, sC, o1, s1', rfl, by simpa using hx, ?_⟩
          intro w hw
          subst hw
          simp only [hx, Option.map_some] at h
          generalize QV.Spec.Sem.execStmts c rest _ = r at h ⊢
          cases r with
          | none => cases h
          | some q =>
            obtain ⟨o, s2⟩ := q
            cases o with
            | normal w2 => simp only [Option.some.injEq, Prod.mk.injEq] at h; exact ⟨.normal w2, by rw [h.2], h.1.symm⟩
            | brk w2 => simp only [Option.some.injEq, Prod.mk.injEq] at h; exact ⟨.brk w2, by rw [h.2], h.1.symm⟩
            | ret w2 => simp only [Option.some.injEq, Prod.mk.injEq] at h; exact ⟨.ret w2, by rw [h.2], h.1.symm⟩
    | _ => simp [he] at h

/-- a branch `{ A }`: the block statement restores the name map; the rest is `BodyOk` -/
theorem branch_ok (wc : Ctx) (sc : QV.Spec.Sem.Ctx) (ic : ICtx) (wl : QV.Model.Locals) (vars : List QV.Spec.Sem.Var)
    (A : List Stmt) (hA : BodyOk wc sc ic wl vars A) (s s2 : WState)
    (h : (walkStmt wc none (.block A)).run s = (some (), s2)) (hl : s.locals = wl)
    (hvr : VarRel s.b.code.locals wl vars) (hinj : VarInj wl) (ho : ∃ blk, OpenAt s.b blk) :
    s2.locals = wl ∧ Walked s.b s2.b ∧
      ∀ C, Covers C s2.b s.b.currentRef →
      ∀ (st : State) (sst : QV.Spec.Sem.St) (o : QV.Spec.Sem.Outcome) (sst' : QV.Spec.Sem.St),
        shapeOf sst.vars = shapeOf vars → sst.w = st.w → (∀ x q u, st.w.prop x q = some u → isCint u = false) →
        ValRel wl sst.vars st.L →
        QV.Spec.Sem.execStmts sc A sst = some (o, sst') →
        (∃ w, o = .normal w) ∧ shapeOf sst'.vars = shapeOf vars ∧ ∃ d st', d ≤ s2.b.currentRef - s.b.currentRef ∧
          (∀ fuel, runAt ic C (fuel + d) s.b.currentRef (curLen s.b) st =
            runAt ic C fuel s2.b.currentRef (curLen s2.b) st') ∧
          ValRel wl sst'.vars st'.L ∧ sst'.w = st'.w ∧ st'.w = st.w := by
  rw [run_block] at h
  cases hr : (walkStmts wc none A).run s with
  | mk r sA =>
    rw [hr] at h
    cases r with
    | none => simp only at h; injection h with h _; cases h
    | some ok =>
      cases ok with
      | false => simp only at h; injection h with h _; cases h
      | true =>
        simp only at h
        injection h with _ hs
        subst hs
        obtain ⟨_, wA, simA⟩ := hA s sA hr hl hvr hinj ho
        exact ⟨hl, wA, simA⟩

/-- `if (c) { A } else { B }; rest` inside the induction over statement lists -/
theorem s_if_else (wc : Ctx) (sc : QV.Spec.Sem.Ctx) (ic : ICtx) (isRet : Bool) (wl : QV.Model.Locals)
    (vars : List QV.Spec.Sem.Var) (cnd : Expr) (A B rest : List Stmt)
    (hc : WalkOk wc sc ic wl vars cnd) (hA : BodyOk wc sc ic wl vars A) (hB : BodyOk wc sc ic wl vars B)
    (hrest : SOk wc sc ic isRet wl vars rest) :
    SOk wc sc ic isRet wl vars (.if_ cnd (.block A) (some (.block B)) :: rest) := by
  intro s s' h hl hvr hinj ho
  rw [run_stmts_cons] at h
  cases hd : (walkStmt wc none (.if_ cnd (.block A) (some (.block B)))).run s with
  | mk r sd =>
    rw [hd] at h
    cases r with
    | none =>
      simp only at h
      cases hq : (walkStmts wc none rest).run sd with
      | mk q sq =>
        rw [hq] at h
        cases q <;> (simp only at h; injection h with h _; cases h)
    | some u =>
      cases u
      simp only at h
      obtain ⟨cop, s1, s2, s3, hw1, hwa, hwb, htc, hsd⟩ := run_if_else wc cnd (.block A) (.block B) s sd hd
      have r1 := hc s s1 cop hw1 hl hvr ho
      obtain ⟨blkC, hoC⟩ := r1.walked.exitOpen
      have w1 : Walked s.b s1.b := r1.walked
      have hvr1 : VarRel s1.b.newBlock.2.code.locals wl vars := hvr.mono w1.locals
      obtain ⟨hl2, w2, simA⟩ := branch_ok wc sc ic wl vars A hA { s1 with b := s1.b.newBlock.2 } s2 hwa r1.locals hvr1 hinj
        ⟨{}, newBlock_open hoC⟩
      have w2 : Walked s1.b.newBlock.2 s2.b := w2
      obtain ⟨blkA, hoA⟩ := w2.exitOpen
      have hvr2 : VarRel s2.b.newBlock.2.code.locals wl vars := hvr1.mono w2.locals
      obtain ⟨hl3, w3, simB⟩ := branch_ok wc sc ic wl vars B hB { s2 with b := s2.b.newBlock.2, locals := s1.locals } s3 hwb
        r1.locals hvr2 hinj ⟨{}, newBlock_open hoA⟩
      have w3 : Walked s2.b.newBlock.2 s3.b := w3
      obtain ⟨blkB, hoB⟩ := w3.exitOpen
      have hcm1 : s1.b.newBlock.2.currentRef = s1.b.currentRef + 1 := newBlock_cur hoC
      have hcm2 : s2.b.newBlock.2.currentRef = s2.b.currentRef + 1 := newBlock_cur hoA
      have hCA : s1.b.currentRef + 1 ≤ s2.b.currentRef := by have := w2.cur_le; omega
      have hAB : s2.b.currentRef + 1 ≤ s3.b.currentRef := by have := w3.cur_le; omega
      have hsC : s.b.currentRef ≤ s1.b.currentRef := w1.cur_le
      have hlenC := open_len hoC
      have hlenA := open_len hoA
      have hlenB := open_len hoB
      have hC2 : s2.b.code.blocks[s1.b.currentRef]? = some blkC := by
        rw [w2.below _ (by omega), newBlock_get _ _ (by omega)]; exact hoC.1
      have hC3 : s3.b.code.blocks[s1.b.currentRef]? = some blkC := by
        rw [w3.below _ (by omega), newBlock_get _ _ (by omega)]; exact hC2
      have hA3 : s3.b.code.blocks[s2.b.currentRef]? = some blkA := by
        rw [w3.below _ (by omega), newBlock_get _ _ (by omega)]; exact hoA.1
      have hCm : s3.b.newBlock.2.code.blocks[s1.b.currentRef]? = some blkC := by
        rw [newBlock_get _ _ (by omega)]; exact hC3
      have hAm : s3.b.newBlock.2.code.blocks[s2.b.currentRef]? = some blkA := by
        rw [newBlock_get _ _ (by omega)]; exact hA3
      have hBm : s3.b.newBlock.2.code.blocks[s3.b.currentRef]? = some blkB := by
        rw [newBlock_get _ _ (by omega)]; exact hoB.1
      obtain ⟨f2, f3, f4, f5, f6, f7, f8, f9⟩ := visitIf_facts s3.b.newBlock.2 cop _ _ _ blkC blkA blkB
        hCm hoC.2 hAm hoA.2 hBm hoB.2 (by omega) (by omega) (by omega)
      have hsdb : sd.b = visitIfStatement s3.b.newBlock.2 cop s1.b.currentRef s2.b.currentRef (some s3.b.currentRef) := by
        rw [hsd]
      rw [← hsdb] at f2 f3 f4 f5 f6 f7 f8 f9
      have hnl : s3.b.newBlock.2.code.locals = s3.b.code.locals := rfl
      have hnlen : s3.b.newBlock.2.code.blocks.length = s3.b.code.blocks.length + 1 := by simp [Builder.newBlock]
      rw [hnl] at f4
      have hcF : sd.b.currentRef = s3.b.currentRef + 1 := by
        simp only [Builder.currentRef] at hlenB ⊢
        omega
      have hch1 : ∀ i, i < s1.b.currentRef → sd.b.code.blocks[i]? = s1.b.code.blocks[i]? := by
        intro i hi
        rw [f6 i (by omega) (by omega) (by omega), newBlock_get _ _ (by omega), w3.below i (by omega),
          newBlock_get _ _ (by omega), w2.below i (by omega), newBlock_get _ _ (by omega)]
      have hch2 : ∀ i, s1.b.currentRef < i → i < s2.b.currentRef → sd.b.code.blocks[i]? = s2.b.code.blocks[i]? := by
        intro i h1 h2
        rw [f6 i (by omega) (by omega) (by omega), newBlock_get _ _ (by omega), w3.below i (by omega),
          newBlock_get _ _ (by omega)]
      have hch3 : ∀ i, s2.b.currentRef < i → i < s3.b.currentRef → sd.b.code.blocks[i]? = s3.b.code.blocks[i]? := by
        intro i h1 h2
        rw [f6 i (by omega) (by omega) (by omega), newBlock_get _ _ (by omega)]
      have hexit : sd.b.code.blocks[s3.b.currentRef + 1]? = some {} := by
        rw [f6 _ (by omega) (by omega) (by omega), hlenB]; exact newBlock_last s3.b
      obtain ⟨t2, hlo2⟩ := w2.locals
      obtain ⟨t3, hlo3⟩ := w3.locals
      have hnl1 : s1.b.newBlock.2.code.locals = s1.b.code.locals := rfl
      have hnl2 : s2.b.newBlock.2.code.locals = s2.b.code.locals := rfl
      rw [hnl1] at hlo2
      rw [hnl2] at hlo3
      have hextF : Ext s1.b sd.b := by
        refine ⟨f2.trans (w3.panic.trans w2.panic), ⟨t2 ++ t3, by rw [f4, hlo3, hlo2]; simp⟩,
          f3.trans (w3.params.trans w2.params), by omega, hch1, blkC, _, hoC.1, hoC.2, f7, [], by simp⟩
      have hwalked : Walked s.b sd.b := by
        refine ⟨w1.toExt.trans hextF, ?_, ⟨{}, by rw [OpenAt, hcF]; exact ⟨hexit, rfl⟩⟩, ?_⟩
        · intro i hlo hhi
          rcases Nat.lt_or_ge i s1.b.currentRef with hlt | hge
          · obtain ⟨bi, hbi, hti⟩ := w1.closed i hlo hlt
            exact ⟨bi, by rw [hch1 i hlt]; exact hbi, hti⟩
          · rcases Nat.eq_or_lt_of_le hge with heq | hgt
            · subst heq; exact ⟨_, f7, rfl⟩
            · rcases Nat.lt_or_ge i s2.b.currentRef with hlt2 | hge2
              · obtain ⟨bi, hbi, hti⟩ := w2.closed i (by omega) hlt2
                exact ⟨bi, by rw [hch2 i hgt hlt2]; exact hbi, hti⟩
              · rcases Nat.eq_or_lt_of_le hge2 with heq2 | hgt2
                · subst heq2; exact ⟨_, f8, rfl⟩
                · rcases Nat.lt_or_ge i s3.b.currentRef with hlt3 | hge3
                  · obtain ⟨bi, hbi, hti⟩ := w3.closed i (by omega) hlt3
                    exact ⟨bi, by rw [hch3 i hgt2 hlt3]; exact hbi, hti⟩
                  · have : i = s3.b.currentRef := by omega
                    subst this; exact ⟨_, f9, rfl⟩
        · intro i hlo hhi bi j hbi hbr
          rcases Nat.lt_or_ge i s1.b.currentRef with hlt | hge
          · rw [hch1 i hlt] at hbi
            have := w1.brs i hlo hlt bi j hbi hbr
            omega
          · rcases Nat.eq_or_lt_of_le hge with heq | hgt
            · subst heq
              rw [f7] at hbi
              injection hbi with hbi
              subst hbi
              simp at hbr
            · rcases Nat.lt_or_ge i s2.b.currentRef with hlt2 | hge2
              · rw [hch2 i hgt hlt2] at hbi
                have := w2.brs i (by omega) hlt2 bi j hbi hbr
                omega
              · rcases Nat.eq_or_lt_of_le hge2 with heq2 | hgt2
                · subst heq2
                  rw [f8] at hbi
                  injection hbi with hbi
                  subst hbi
                  simp only [Option.some.injEq, Terminator.br.injEq] at hbr
                  omega
                · rcases Nat.lt_or_ge i s3.b.currentRef with hlt3 | hge3
                  · rw [hch3 i hgt2 hlt3] at hbi
                    have := w3.brs i (by omega) hlt3 bi j hbi hbr
                    omega
                  · have : i = s3.b.currentRef := by omega
                    subst this
                    rw [f9] at hbi
                    injection hbi with hbi
                    subst hbi
                    simp only [Option.some.injEq, Terminator.br.injEq] at hbr
                    omega
      have hsdl : sd.locals = wl := by rw [hsd]; exact r1.locals
      have hvrd : VarRel sd.b.code.locals wl vars := by
        rw [f4]; exact hvr2.mono ⟨t3, by rw [hnl2]; exact hlo3⟩
      obtain ⟨s4, op4, hfin, w4, hok4, hsim4⟩ := hrest sd s' h hsdl hvrd hinj hwalked.exitOpen
      refine ⟨s4, op4, hfin, hwalked.trans w4, hok4, ?_⟩
      intro C hC st sst out sst' hvars hw hnc hval hsp
      have hC' : Covers C sd.b s.b.currentRef := Covers.of_ext w4.toExt hC hwalked.cur_le
      obtain ⟨xc, sC, o1, sJ, hsc, hsbr, hcont⟩ := spec_stmts_if sc cnd A B rest sst out sst' hsp
      have hCv1 : Covers C s1.b s.b.currentRef :=
        Covers.sub hC' hsC (by omega) (by rw [f4, hlo3, hlo2]; simp [List.append_assoc])
          (fun i _ hi => hch1 i hi) ⟨blkC, _, hoC.1, f7, List.prefix_refl _⟩
      have hCv2 : Covers C s2.b (s1.b.currentRef + 1) :=
        Covers.sub (hC'.mono (by omega)) hCA (by omega) (by rw [f4, hlo3]; exact List.prefix_append _ _)
          (fun i h1 h2 => hch2 i (by omega) h2) ⟨blkA, _, hoA.1, f8, List.prefix_refl _⟩
      have hCv3 : Covers C s3.b (s2.b.currentRef + 1) :=
        Covers.sub (hC'.mono (by omega)) hAB (by omega) (by rw [f4]; exact List.prefix_refl _)
          (fun i h1 h2 => hch3 i (by omega) h2) ⟨blkB, _, hoB.1, f9, List.prefix_refl _⟩
      have hCC := hC'.closed _ hsC (by omega : s1.b.currentRef < sd.b.currentRef)
      rw [f7] at hCC
      have hCA' := hC'.closed _ (by omega : s.b.currentRef ≤ s2.b.currentRef) (by omega : s2.b.currentRef < sd.b.currentRef)
      rw [f8] at hCA'
      have hCB' := hC'.closed _ (by omega : s.b.currentRef ≤ s3.b.currentRef) (by omega : s3.b.currentRef < sd.b.currentRef)
      rw [f9] at hCB'
      have hlenF : curLen sd.b = 0 := by simp [curLen, hcF, hexit]
      obtain ⟨hsa, d1, st1, hd1, hrun1, hv1, hp1, hw1', ht1, _⟩ := r1.sim C hCv1 st sst sC (.bool xc) hvars hw hnc hval hsc
      subst hsa
      have hval1 : ValRel wl sC.vars st1.L := hval.mono hvr hp1
      have hkC : curLen s1.b = blkC.statements.length := curLen_of_open hoC
      have hstepC : ∀ fuel, runAt ic C (fuel + 1) s1.b.currentRef (curLen s1.b) st1 =
          runAt ic C fuel (if xc then s1.b.currentRef + 1 else s2.b.currentRef + 1) 0 st1 := by
        intro fuel
        exact runAt_brCond ic C fuel _ _ _ _ _ cop st1 xc hCC (by rw [hkC]; exact Nat.le_refl _) rfl hv1
      have hc4 := w4.cur_le
      cases xc with
      | true =>
        simp only [if_true] at hsbr hstepC
        obtain ⟨⟨w, ho1⟩, hshJ, d2, st2, hd2, hrun2, hval2, hww2, hw2'⟩ :=
          simA C (by show Covers C s2.b s1.b.newBlock.2.currentRef; rw [hcm1]; exact hCv2) st1 sC o1 sJ hvars
            (hw.trans hw1'.symm) (by rw [hw1']; exact hnc) hval1 hsbr
        obtain ⟨out', hrs, hout⟩ := hcont w ho1
        have hlenJ : sJ.vars.length = sC.vars.length := by
          rw [length_of_shape hshJ, length_of_shape hvars]
        rw [leave_same sJ _ hlenJ, leave_same sJ _ hlenJ] at hrs
        have hd2' : d2 ≤ s2.b.currentRef - (s1.b.currentRef + 1) := by
          have : d2 ≤ s2.b.currentRef - s1.b.newBlock.2.currentRef := hd2
          omega
        have hrun2' : ∀ fuel, runAt ic C (fuel + d2) (s1.b.currentRef + 1) 0 st1 =
            runAt ic C fuel s2.b.currentRef (curLen s2.b) st2 := by
          intro fuel
          have := hrun2 fuel
          rw [show ({ s1 with b := s1.b.newBlock.2 } : WState).b = s1.b.newBlock.2 from rfl, hcm1,
            curLen_of_open (newBlock_open hoC)] at this
          exact this
        have hkA : curLen s2.b = blkA.statements.length := curLen_of_open hoA
        have hstepA : ∀ fuel, runAt ic C (fuel + 1) s2.b.currentRef (curLen s2.b) st2 =
            runAt ic C fuel (s3.b.currentRef + 1) 0 st2 := by
          intro fuel
          exact runAt_br ic C fuel _ _ _ _ st2 hCA' (by rw [hkA]; exact Nat.le_refl _) rfl
        obtain ⟨val, hout4, d4, st4, hd4, hrun4, hv4⟩ := hsim4 C (hC.mono hwalked.cur_le) st2 sJ out' sst' hshJ hww2
          (by rw [hw2', hw1']; exact hnc) hval2 hrs
        refine ⟨val, by rw [hout, hout4, afterVal_outOf], d1 + 1 + d2 + 1 + d4, st4, by omega, ?_, hv4⟩
        intro fuel
        have : fuel + (d1 + 1 + d2 + 1 + d4) = (fuel + d4 + 1 + d2 + 1) + d1 := by omega
        rw [this, hrun1, hstepC, hrun2', hstepA]
        have := hrun4 fuel
        rw [hcF, hlenF] at this
        exact this
      | false =>
        simp only [Bool.false_eq_true, if_false] at hsbr hstepC
        obtain ⟨⟨w, ho1⟩, hshJ, d3, st3, hd3, hrun3, hval3, hww3, hw3'⟩ :=
          simB C (by show Covers C s3.b s2.b.newBlock.2.currentRef; rw [hcm2]; exact hCv3) st1 sC o1 sJ hvars
            (hw.trans hw1'.symm) (by rw [hw1']; exact hnc) hval1 hsbr
        obtain ⟨out', hrs, hout⟩ := hcont w ho1
        have hlenJ : sJ.vars.length = sC.vars.length := by
          rw [length_of_shape hshJ, length_of_shape hvars]
        rw [leave_same sJ _ hlenJ, leave_same sJ _ hlenJ] at hrs
        have hd3' : d3 ≤ s3.b.currentRef - (s2.b.currentRef + 1) := by
          have : d3 ≤ s3.b.currentRef - s2.b.newBlock.2.currentRef := hd3
          omega
        have hrun3' : ∀ fuel, runAt ic C (fuel + d3) (s2.b.currentRef + 1) 0 st1 =
            runAt ic C fuel s3.b.currentRef (curLen s3.b) st3 := by
          intro fuel
          have := hrun3 fuel
          rw [show ({ s2 with b := s2.b.newBlock.2, locals := s1.locals } : WState).b = s2.b.newBlock.2 from rfl, hcm2,
            curLen_of_open (newBlock_open hoA)] at this
          exact this
        have hkB : curLen s3.b = blkB.statements.length := curLen_of_open hoB
        have hstepB : ∀ fuel, runAt ic C (fuel + 1) s3.b.currentRef (curLen s3.b) st3 =
            runAt ic C fuel (s3.b.currentRef + 1) 0 st3 := by
          intro fuel
          exact runAt_br ic C fuel _ _ _ _ st3 hCB' (by rw [hkB]; exact Nat.le_refl _) rfl
        obtain ⟨val, hout4, d4, st4, hd4, hrun4, hv4⟩ := hsim4 C (hC.mono hwalked.cur_le) st3 sJ out' sst' hshJ hww3
          (by rw [hw3', hw1']; exact hnc) hval3 hrs
        refine ⟨val, by rw [hout, hout4, afterVal_outOf], d1 + 1 + d3 + 1 + d4, st4, by omega, ?_, hv4⟩
        intro fuel
        have : fuel + (d1 + 1 + d3 + 1 + d4) = (fuel + d4 + 1 + d3 + 1) + d1 := by omega
        rw [this, hrun1, hstepC, hrun3', hstepB]
        have := hrun4 fuel
        rw [hcF, hlenF] at this
        exact this

/-! ### `if (c) { A }` without `else` -/

theorem run_if_none (wc : Ctx) (cnd : Expr) (a : Stmt) (s s' : WState)
    (h : (walkStmt wc none (.if_ cnd a none)).run s = (some (), s')) :
    ∃ cop s1 s2, (walkRvalue wc cnd).run s = (some cop, s1) ∧
      (walkStmt wc none a).run { s1 with b := s1.b.newBlock.2 } = (some (), s2) ∧
      cop.typeDesc = .bool ∧
      s' = { s2 with locals := s1.locals,
                     b := visitIfStatement s2.b.newBlock.2 cop s1.b.currentRef s2.b.currentRef none } := by
  rw [walkStmt] at h
  simp only [run_bind] at h
  cases h1 : (walkRvalue wc cnd).run s with
  | mk r s1 =>
    rw [h1] at h
    cases r with
    | none => simp only at h; injection h with h _; cases h
    | some cop =>
      simp only [run_mark, run_bind, run_getLocals, run_attempt] at h
      cases h2 : (walkStmt wc none a).run { s1 with b := s1.b.newBlock.2 } with
      | mk r2 s2 =>
        rw [h2] at h
        simp only [run_setLocals, run_bind] at h
        cases r2 with
        | none =>
          simp only at h
          have hf : ∀ t : WState, (failure : W Unit).run t = (none, t) := fun _ => rfl
          rw [hf] at h
          injection h with h _; cases h
        | some u =>
          cases u
          simp only [run_pure, run_mark, run_bind] at h
          by_cases hc : cop.typeDesc = .bool
          · rw [run_check_ok _ _ hc] at h
            simp only [run_getB, run_setB] at h
            injection h with _ hs
            exact ⟨cop, s1, s2, rfl, h2, hc, hs.symm⟩
          · have := run_check_err cop { s2 with locals := s1.locals, b := s2.b.newBlock.2 } hc
            cases hq : (checkConditionType cop).run { s2 with locals := s1.locals, b := s2.b.newBlock.2 } with
            | mk q sq =>
              rw [hq] at this
              simp only at this
              subst this
              rw [hq] at h
              simp only at h; injection h with h _; cases h

theorem visitIf1_facts (b : Builder) (cond : Operand) (cRef aRef : Nat) (blkC blkA : BasicBlock)
    (hC : b.code.blocks[cRef]? = some blkC) (hCt : blkC.terminator = none)
    (hA : b.code.blocks[aRef]? = some blkA) (hAt : blkA.terminator = none) (hca : cRef ≠ aRef) :
    (visitIfStatement b cond cRef aRef none).panic = b.panic ∧
    (visitIfStatement b cond cRef aRef none).code.parameterCount = b.code.parameterCount ∧
    (visitIfStatement b cond cRef aRef none).code.locals = b.code.locals ∧
    (visitIfStatement b cond cRef aRef none).code.blocks.length = b.code.blocks.length ∧
    (∀ i, i ≠ cRef → i ≠ aRef → (visitIfStatement b cond cRef aRef none).code.blocks[i]? = b.code.blocks[i]?) ∧
    (visitIfStatement b cond cRef aRef none).code.blocks[cRef]? =
      some { blkC with terminator := some (.brCond cond (cRef + 1) (aRef + 1)) } ∧
    (visitIfStatement b cond cRef aRef none).code.blocks[aRef]? =
      some { blkA with terminator := some (.br (aRef + 1)) } := by
  have hshape : visitIfStatement b cond cRef aRef none =
      { b with code := { b.code with
          blocks := (b.code.blocks.set cRef { blkC with terminator := some (.brCond cond (cRef + 1) (aRef + 1)) }).set aRef
            { blkA with terminator := some (.br (aRef + 1)) } } } := by
    simp only [visitIfStatement, Option.getD_none]
    rw [finalizeAt_open _ cRef blkC _ hC hCt]
    rw [finalizeAt_open _ aRef blkA _ (by simp [getElem?_set_ne' _ _ _ _ hca, hA]) hAt]
  rw [hshape]
  refine ⟨rfl, rfl, rfl, by simp, ?_, ?_, ?_⟩
  · intro i h1 h2
    simp only
    rw [getElem?_set_ne' _ _ _ _ (Ne.symm h2), getElem?_set_ne' _ _ _ _ (Ne.symm h1)]
  · simp only
    rw [getElem?_set_ne' _ _ _ _ (Ne.symm hca), getElem?_set_self' _ _ _ _ hC]
  · simp only
    exact getElem?_set_self' _ _ _ blkA (by rw [getElem?_set_ne' _ _ _ _ hca]; exact hA)

theorem spec_stmts_if1 (c : QV.Spec.Sem.Ctx) (cnd : Expr) (A rest : List Stmt)
    (s : QV.Spec.Sem.St) (out : QV.Spec.Sem.Outcome) (s' : QV.Spec.Sem.St)
    (h : QV.Spec.Sem.execStmts c (.if_ cnd (.block A) none :: rest) s = some (out, s')) :
    ∃ xc sC, QV.Spec.Sem.evalExpr c cnd s = some (.bool xc, sC) ∧
      ((xc = true ∧ ∃ o1 s1', QV.Spec.Sem.execStmts c A sC = some (o1, s1') ∧
        ∀ w, o1 = .normal w → ∃ out', QV.Spec.Sem.execStmts c rest ((s1'.leave sC.vars.length).leave sC.vars.length) =
          some (out', s') ∧ out = afterVal (w.getD .void) out') ∨
       (xc = false ∧ ∃ out', QV.Spec.Sem.execStmts c rest sC = some (out', s') ∧ out = afterVal .void out')) := by
  rw [QV.Spec.Sem.execStmts.eq_def] at h
  simp only at h
  rw [QV.Spec.Sem.execStmt.eq_def] at h
  simp only at h
  cases he : QV.Spec.Sem.evalExpr c cnd s with
  | none => simp [he] at h
  | some p =>
    obtain ⟨vc, sC⟩ := p
    cases vc with
    | bool xc =>
      cases xc with
      | true =>
        simp only [he] at h
        rw [QV.Spec.Sem.execStmt.eq_def] at h
        simp only at h
        cases hx : QV.Spec.Sem.execStmts c A sC with
        | none => simp [hx] at h
        | some p =>
          obtain ⟨o1, s1'⟩ := p
          refine ⟨true, sC, rfl, Or.inl ⟨rfl, o1, s1', hx, ?_⟩⟩
          intro w hw
          subst hw
          simp only [hx, Option.map_some] at h
          generalize QV.Spec.Sem.execStmts c rest _ = r at h ⊢
          cases r with
          | none => cases h
          | some q =>
            obtain ⟨o, s2⟩ := q
            cases o with
            | normal w2 => simp only [Option.some.injEq, Prod.mk.injEq] at h; exact ⟨.normal w2, by rw [h.2], h.1.symm⟩
            | brk w2 => simp only [Option.some.injEq, Prod.mk.injEq] at h; exact ⟨.brk w2, by rw [h.2], h.1.symm⟩
            | ret w2 => simp only [Option.some.injEq, Prod.mk.injEq] at h; exact ⟨.ret w2, by rw [h.2], h.1.symm⟩
      | false =>
        simp only [he] at h
        refine ⟨false, sC, rfl, Or.inr ⟨rfl, ?_⟩⟩
        generalize QV.Spec.Sem.execStmts c rest _ = r at h ⊢
        cases r with
        | none => cases h
        | some q =>
          obtain ⟨o, s2⟩ := q
          cases o with
          | normal w2 => simp only [Option.some.injEq, Prod.mk.injEq] at h; exact ⟨.normal w2, by rw [h.2], h.1.symm⟩
          | brk w2 => simp only [Option.some.injEq, Prod.mk.injEq] at h; exact ⟨.brk w2, by rw [h.2], h.1.symm⟩
          | ret w2 => simp only [Option.some.injEq, Prod.mk.injEq] at h; exact ⟨.ret w2, by rw [h.2], h.1.symm⟩
    | _ => simp [he] at h

/-- `if (c) { A }; rest` inside the induction over statement lists -/
theorem s_if1 (wc : Ctx) (sc : QV.Spec.Sem.Ctx) (ic : ICtx) (isRet : Bool) (wl : QV.Model.Locals)
    (vars : List QV.Spec.Sem.Var) (cnd : Expr) (A rest : List Stmt)
    (hc : WalkOk wc sc ic wl vars cnd) (hA : BodyOk wc sc ic wl vars A) (hrest : SOk wc sc ic isRet wl vars rest) :
    SOk wc sc ic isRet wl vars (.if_ cnd (.block A) none :: rest) := by
  intro s s' h hl hvr hinj ho
  rw [run_stmts_cons] at h
  cases hd : (walkStmt wc none (.if_ cnd (.block A) none)).run s with
  | mk r sd =>
    rw [hd] at h
    cases r with
    | none =>
      simp only at h
      cases hq : (walkStmts wc none rest).run sd with
      | mk q sq =>
        rw [hq] at h
        cases q <;> (simp only at h; injection h with h _; cases h)
    | some u =>
      cases u
      simp only at h
      obtain ⟨cop, s1, s2, hw1, hwa, htc, hsd⟩ := run_if_none wc cnd (.block A) s sd hd
      have r1 := hc s s1 cop hw1 hl hvr ho
      obtain ⟨blkC, hoC⟩ := r1.walked.exitOpen
      have w1 : Walked s.b s1.b := r1.walked
      have hvr1 : VarRel s1.b.newBlock.2.code.locals wl vars := hvr.mono w1.locals
      obtain ⟨hl2, w2, simA⟩ := branch_ok wc sc ic wl vars A hA { s1 with b := s1.b.newBlock.2 } s2 hwa r1.locals hvr1 hinj
        ⟨{}, newBlock_open hoC⟩
      have w2 : Walked s1.b.newBlock.2 s2.b := w2
      obtain ⟨blkA, hoA⟩ := w2.exitOpen
      have hcm1 : s1.b.newBlock.2.currentRef = s1.b.currentRef + 1 := newBlock_cur hoC
      have hCA : s1.b.currentRef + 1 ≤ s2.b.currentRef := by have := w2.cur_le; omega
      have hsC : s.b.currentRef ≤ s1.b.currentRef := w1.cur_le
      have hlenC := open_len hoC
      have hlenA := open_len hoA
      have hC2 : s2.b.code.blocks[s1.b.currentRef]? = some blkC := by
        rw [w2.below _ (by omega), newBlock_get _ _ (by omega)]; exact hoC.1
      have hCm : s2.b.newBlock.2.code.blocks[s1.b.currentRef]? = some blkC := by
        rw [newBlock_get _ _ (by omega)]; exact hC2
      have hAm : s2.b.newBlock.2.code.blocks[s2.b.currentRef]? = some blkA := by
        rw [newBlock_get _ _ (by omega)]; exact hoA.1
      obtain ⟨f2, f3, f4, f5, f6, f7, f8⟩ := visitIf1_facts s2.b.newBlock.2 cop _ _ blkC blkA
        hCm hoC.2 hAm hoA.2 (by omega)
      have hsdb : sd.b = visitIfStatement s2.b.newBlock.2 cop s1.b.currentRef s2.b.currentRef none := by rw [hsd]
      rw [← hsdb] at f2 f3 f4 f5 f6 f7 f8
      have hnl : s2.b.newBlock.2.code.locals = s2.b.code.locals := rfl
      have hnlen : s2.b.newBlock.2.code.blocks.length = s2.b.code.blocks.length + 1 := by simp [Builder.newBlock]
      rw [hnl] at f4
      have hcF : sd.b.currentRef = s2.b.currentRef + 1 := by
        simp only [Builder.currentRef] at hlenA ⊢
        omega
      have hch1 : ∀ i, i < s1.b.currentRef → sd.b.code.blocks[i]? = s1.b.code.blocks[i]? := by
        intro i hi
        rw [f6 i (by omega) (by omega), newBlock_get _ _ (by omega), w2.below i (by omega), newBlock_get _ _ (by omega)]
      have hch2 : ∀ i, s1.b.currentRef < i → i < s2.b.currentRef → sd.b.code.blocks[i]? = s2.b.code.blocks[i]? := by
        intro i h1 h2
        rw [f6 i (by omega) (by omega), newBlock_get _ _ (by omega)]
      have hexit : sd.b.code.blocks[s2.b.currentRef + 1]? = some {} := by
        rw [f6 _ (by omega) (by omega), hlenA]; exact newBlock_last s2.b
      obtain ⟨t2, hlo2⟩ := w2.locals
      have hnl1 : s1.b.newBlock.2.code.locals = s1.b.code.locals := rfl
      rw [hnl1] at hlo2
      have hextF : Ext s1.b sd.b := by
        refine ⟨f2.trans w2.panic, ⟨t2, by rw [f4, hlo2]⟩, f3.trans w2.params, by omega, hch1,
          blkC, _, hoC.1, hoC.2, f7, [], by simp⟩
      have hwalked : Walked s.b sd.b := by
        refine ⟨w1.toExt.trans hextF, ?_, ⟨{}, by rw [OpenAt, hcF]; exact ⟨hexit, rfl⟩⟩, ?_⟩
        · intro i hlo hhi
          rcases Nat.lt_or_ge i s1.b.currentRef with hlt | hge
          · obtain ⟨bi, hbi, hti⟩ := w1.closed i hlo hlt
            exact ⟨bi, by rw [hch1 i hlt]; exact hbi, hti⟩
          · rcases Nat.eq_or_lt_of_le hge with heq | hgt
            · subst heq; exact ⟨_, f7, rfl⟩
            · rcases Nat.lt_or_ge i s2.b.currentRef with hlt2 | hge2
              · obtain ⟨bi, hbi, hti⟩ := w2.closed i (by omega) hlt2
                exact ⟨bi, by rw [hch2 i hgt hlt2]; exact hbi, hti⟩
              · have : i = s2.b.currentRef := by omega
                subst this; exact ⟨_, f8, rfl⟩
        · intro i hlo hhi bi j hbi hbr
          rcases Nat.lt_or_ge i s1.b.currentRef with hlt | hge
          · rw [hch1 i hlt] at hbi
            have := w1.brs i hlo hlt bi j hbi hbr
            omega
          · rcases Nat.eq_or_lt_of_le hge with heq | hgt
            · subst heq
              rw [f7] at hbi
              injection hbi with hbi
              subst hbi
              simp at hbr
            · rcases Nat.lt_or_ge i s2.b.currentRef with hlt2 | hge2
              · rw [hch2 i hgt hlt2] at hbi
                have := w2.brs i (by omega) hlt2 bi j hbi hbr
                omega
              · have : i = s2.b.currentRef := by omega
                subst this
                rw [f8] at hbi
                injection hbi with hbi
                subst hbi
                simp only [Option.some.injEq, Terminator.br.injEq] at hbr
                omega
      have hsdl : sd.locals = wl := by rw [hsd]; exact r1.locals
      have hvrd : VarRel sd.b.code.locals wl vars := by
        rw [f4]; exact hvr1.mono ⟨t2, by rw [hnl1]; exact hlo2⟩
      obtain ⟨s4, op4, hfin, w4, hok4, hsim4⟩ := hrest sd s' h hsdl hvrd hinj hwalked.exitOpen
      refine ⟨s4, op4, hfin, hwalked.trans w4, hok4, ?_⟩
      intro C hC st sst out sst' hvars hw hnc hval hsp
      have hC' : Covers C sd.b s.b.currentRef := Covers.of_ext w4.toExt hC hwalked.cur_le
      obtain ⟨xc, sC, hsc, hcase⟩ := spec_stmts_if1 sc cnd A rest sst out sst' hsp
      have hCv1 : Covers C s1.b s.b.currentRef :=
        Covers.sub hC' hsC (by omega) (by rw [f4, hlo2]; exact List.prefix_append _ _)
          (fun i _ hi => hch1 i hi) ⟨blkC, _, hoC.1, f7, List.prefix_refl _⟩
      have hCv2 : Covers C s2.b (s1.b.currentRef + 1) :=
        Covers.sub (hC'.mono (by omega)) hCA (by omega) (by rw [f4]; exact List.prefix_refl _)
          (fun i h1 h2 => hch2 i (by omega) h2) ⟨blkA, _, hoA.1, f8, List.prefix_refl _⟩
      have hCC := hC'.closed _ hsC (by omega : s1.b.currentRef < sd.b.currentRef)
      rw [f7] at hCC
      have hCA' := hC'.closed _ (by omega : s.b.currentRef ≤ s2.b.currentRef) (by omega : s2.b.currentRef < sd.b.currentRef)
      rw [f8] at hCA'
      have hlenF : curLen sd.b = 0 := by simp [curLen, hcF, hexit]
      obtain ⟨hsa, d1, st1, hd1, hrun1, hv1, hp1, hw1', ht1, _⟩ := r1.sim C hCv1 st sst sC (.bool xc) hvars hw hnc hval hsc
      subst hsa
      have hval1 : ValRel wl sC.vars st1.L := hval.mono hvr hp1
      have hkC : curLen s1.b = blkC.statements.length := curLen_of_open hoC
      have hstepC : ∀ fuel, runAt ic C (fuel + 1) s1.b.currentRef (curLen s1.b) st1 =
          runAt ic C fuel (if xc then s1.b.currentRef + 1 else s2.b.currentRef + 1) 0 st1 := by
        intro fuel
        exact runAt_brCond ic C fuel _ _ _ _ _ cop st1 xc hCC (by rw [hkC]; exact Nat.le_refl _) rfl hv1
      have hc4 := w4.cur_le
      rcases hcase with ⟨hxc, o1, sJ, hsbr, hcont⟩ | ⟨hxc, out', hrs, hout⟩
      · subst hxc
        simp only [if_true] at hstepC
        obtain ⟨⟨w, ho1⟩, hshJ, d2, st2, hd2, hrun2, hval2, hww2, hw2'⟩ :=
          simA C (by show Covers C s2.b s1.b.newBlock.2.currentRef; rw [hcm1]; exact hCv2) st1 sC o1 sJ hvars
            (hw.trans hw1'.symm) (by rw [hw1']; exact hnc) hval1 hsbr
        obtain ⟨out', hrs, hout⟩ := hcont w ho1
        have hlenJ : sJ.vars.length = sC.vars.length := by
          rw [length_of_shape hshJ, length_of_shape hvars]
        rw [leave_same sJ _ hlenJ, leave_same sJ _ hlenJ] at hrs
        have hd2' : d2 ≤ s2.b.currentRef - (s1.b.currentRef + 1) := by
          have : d2 ≤ s2.b.currentRef - s1.b.newBlock.2.currentRef := hd2
          omega
        have hrun2' : ∀ fuel, runAt ic C (fuel + d2) (s1.b.currentRef + 1) 0 st1 =
            runAt ic C fuel s2.b.currentRef (curLen s2.b) st2 := by
          intro fuel
          have := hrun2 fuel
          rw [show ({ s1 with b := s1.b.newBlock.2 } : WState).b = s1.b.newBlock.2 from rfl, hcm1,
            curLen_of_open (newBlock_open hoC)] at this
          exact this
        have hkA : curLen s2.b = blkA.statements.length := curLen_of_open hoA
        have hstepA : ∀ fuel, runAt ic C (fuel + 1) s2.b.currentRef (curLen s2.b) st2 =
            runAt ic C fuel (s2.b.currentRef + 1) 0 st2 := by
          intro fuel
          exact runAt_br ic C fuel _ _ _ _ st2 hCA' (by rw [hkA]; exact Nat.le_refl _) rfl
        obtain ⟨val, hout4, d4, st4, hd4, hrun4, hv4⟩ := hsim4 C (hC.mono hwalked.cur_le) st2 sJ out' sst' hshJ hww2
          (by rw [hw2', hw1']; exact hnc) hval2 hrs
        refine ⟨val, by rw [hout, hout4, afterVal_outOf], d1 + 1 + d2 + 1 + d4, st4, by omega, ?_, hv4⟩
        intro fuel
        have : fuel + (d1 + 1 + d2 + 1 + d4) = (fuel + d4 + 1 + d2 + 1) + d1 := by omega
        rw [this, hrun1, hstepC, hrun2', hstepA]
        have := hrun4 fuel
        rw [hcF, hlenF] at this
        exact this
      · subst hxc
        simp only [Bool.false_eq_true, if_false] at hstepC
        obtain ⟨val, hout4, d4, st4, hd4, hrun4, hv4⟩ := hsim4 C (hC.mono hwalked.cur_le) st1 sC out' sst' hvars
          (hw.trans hw1'.symm) (by rw [hw1']; exact hnc) hval1 hrs
        refine ⟨val, by rw [hout, hout4, afterVal_outOf], d1 + 1 + d4, st4, by omega, ?_, hv4⟩
        intro fuel
        have : fuel + (d1 + 1 + d4) = (fuel + d4 + 1) + d1 := by omega
        rw [this, hrun1, hstepC]
        have := hrun4 fuel
        rw [hcF, hlenF] at this
        exact this

/-! ### the fragment with `if` and the induction -/

/-- statement lists
      S ::= e | return e | let x = e; S | const x = e; S | x = e; S | if (e) { A } else { A }; S | if (e) { A }; S
      A ::= ε | x = e; A
    (`x` a variable in scope; every expression in `CfgFrag` relative to the variables declared before it) -/
inductive IFrag (wc : Ctx) : Bool → List String → List Stmt → Prop
  | expr (scope : List String) (e : Expr) : CfgFrag wc scope e → IFrag wc false scope [.expr e]
  | ret (scope : List String) (e : Expr) : CfgFrag wc scope e → IFrag wc true scope [.return_ (some e)]
  | decl (isRet : Bool) (scope : List String) (kind : DeclKind) (x : String) (e : Expr) (rest : List Stmt) :
      CfgFrag wc scope e → IFrag wc isRet (x :: scope) rest →
      IFrag wc isRet scope (.lexical kind [{ name := x, ty := none, value := some e }] :: rest)
  | assign (isRet : Bool) (scope : List String) (x : String) (e : Expr) (rest : List Stmt) :
      x ∈ scope → CfgFrag wc scope e → IFrag wc isRet scope rest →
      IFrag wc isRet scope (.expr (.assign (.ident x) e) :: rest)
  | ifElse (isRet : Bool) (scope : List String) (cnd : Expr) (A B rest : List Stmt) :
      CfgFrag wc scope cnd → BodyFrag wc scope A → BodyFrag wc scope B → IFrag wc isRet scope rest →
      IFrag wc isRet scope (.if_ cnd (.block A) (some (.block B)) :: rest)
  | if1 (isRet : Bool) (scope : List String) (cnd : Expr) (A rest : List Stmt) :
      CfgFrag wc scope cnd → BodyFrag wc scope A → IFrag wc isRet scope rest →
      IFrag wc isRet scope (.if_ cnd (.block A) none :: rest)

theorem sFrag_iFrag {wc : Ctx} {isRet : Bool} {scope : List String} {stmts : List Stmt}
    (h : SFrag wc isRet scope stmts) : IFrag wc isRet scope stmts := by
  induction h with
  | expr scope e he => exact .expr scope e he
  | ret scope e he => exact .ret scope e he
  | decl isRet scope kind x e rest he _ ih => exact .decl isRet scope kind x e rest he ih
  | assign isRet scope x e rest hx he _ ih => exact .assign isRet scope x e rest hx he ih

/-- THE INDUCTION over the statement lists with assignments and `if` -/
theorem walk_i (wc : Ctx) (sc : QV.Spec.Sem.Ctx) (ic : ICtx) (hag : Agree wc sc ic) (isRet : Bool)
    (scope : List String) (stmts : List Stmt) (hf : IFrag wc isRet scope stmts) :
    ∀ (wl : QV.Model.Locals) (vars : List QV.Spec.Sem.Var), ScopeOf scope wl → SOk wc sc ic isRet wl vars stmts := by
  induction hf with
  | expr scope e he =>
    intro wl vars hsc
    exact sOk_of_blockOk (block_final wc sc ic false wl vars e _ (walk_cfg wc sc ic hag scope wl vars hsc e he)
      (fun s => run_expr_stmt wc e s) (fun s => spec_stmts_expr sc e s))
  | ret scope e he =>
    intro wl vars hsc
    exact sOk_of_blockOk (block_final wc sc ic true wl vars e _ (walk_cfg wc sc ic hag scope wl vars hsc e he)
      (fun s => run_return wc e s) (fun s => spec_stmts_ret sc e s))
  | decl isRet scope kind x e rest he _ ih =>
    intro wl vars hsc
    exact s_decl wc sc ic isRet wl vars kind x e rest (walk_cfg wc sc ic hag scope wl vars hsc e he)
      (fun vars' h => sty_shape wc sc scope vars vars' h e he)
      (fun n sty => ih _ _ (scopeOf_insert hsc x (n, kind)))
  | assign isRet scope x e rest hx he _ ih =>
    intro wl vars hsc
    have := (hsc x).mp hx
    cases hg : wl.get? x with
    | none => rw [hg] at this; cases this
    | some nk =>
      exact s_assign wc sc ic isRet wl vars x nk.1 nk.2 e rest hg (walk_cfg wc sc ic hag scope wl vars hsc e he)
        (ih wl vars hsc)
  | ifElse isRet scope cnd A B rest hc hA hB _ ih =>
    intro wl vars hsc
    exact s_if_else wc sc ic isRet wl vars cnd A B rest (walk_cfg wc sc ic hag scope wl vars hsc cnd hc)
      (walk_body wc sc ic hag scope wl vars hsc A hA) (walk_body wc sc ic hag scope wl vars hsc B hB) (ih wl vars hsc)
  | if1 isRet scope cnd A rest hc hA _ ih =>
    intro wl vars hsc
    exact s_if1 wc sc ic isRet wl vars cnd A rest (walk_cfg wc sc ic hag scope wl vars hsc cnd hc)
      (walk_body wc sc ic hag scope wl vars hsc A hA) (ih wl vars hsc)

end QV.Proofs.SemCfgStmtIf
