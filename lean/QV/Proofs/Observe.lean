/-
  Helper lemmas for C02, part 1: the abstract world (QV.Model.Observe).
    * the trace of an evaluation: which observer statements ran (`evObs`), each at most once;
    * the fold of the observer snippet over a trace (`applyEvs`);
    * coverage of the trace from the static checker (`coveredStmts`);
    * the frame lemma (an evaluation depends only on the values it read);
    * the invariant of `binding_current`.
-/
import QV.Model.Observe

namespace QV.Proofs.Observe
open QV.Model QV.Model.Observe

/-! ### lists -/

theorem nodup_flatMap_parts {α β γ : Type} (f : α → List β) (g : β → γ) :
    ∀ (l : List α), ((l.flatMap f).map g).Nodup →
      (∀ (i : Nat) a, l[i]? = some a → ((f a).map g).Nodup) ∧
      (∀ (i j : Nat) a b, i ≠ j → l[i]? = some a → l[j]? = some b → ∀ x ∈ f a, ∀ y ∈ f b, g x ≠ g y)
  | [], _ => by simp
  | a :: t, h => by
    rw [List.flatMap_cons, List.map_append, List.nodup_append] at h
    obtain ⟨h1, h2, h3⟩ := h
    obtain ⟨ih1, ih2⟩ := nodup_flatMap_parts f g t h2
    refine ⟨?_, ?_⟩
    · intro i x hx
      cases i with
      | zero => simp at hx; subst hx; exact h1
      | succ i => exact ih1 i x (by simpa using hx)
    · intro i j x y hij hx hy u hu w hw
      cases i with
      | zero =>
        cases j with
        | zero => exact absurd rfl hij
        | succ j =>
          simp at hx hy; subst hx
          exact h3 (g u) (List.mem_map_of_mem hu) (g w)
            (List.mem_map_of_mem (List.mem_flatMap.mpr ⟨y, List.mem_of_getElem? hy, hw⟩))
      | succ i =>
        cases j with
        | zero =>
          simp at hx hy; subst hy
          exact fun e => h3 (g w) (List.mem_map_of_mem hw) (g u)
            (List.mem_map_of_mem (List.mem_flatMap.mpr ⟨x, List.mem_of_getElem? hx, hu⟩)) e.symm
        | succ j =>
          exact ih2 i j x y (fun e => hij (by rw [e])) (by simpa using hx) (by simpa using hy) u hu w hw

theorem nodup_map_fst_unique {α β : Type} : ∀ (l : List (α × β)), (l.map (·.1)).Nodup →
    ∀ a b b', (a, b) ∈ l → (a, b') ∈ l → b = b'
  | [], _, _, _, _, h, _ => by simp at h
  | x :: t, hn, a, b, b', h1, h2 => by
    rw [List.map_cons, List.nodup_cons] at hn
    rcases List.mem_cons.mp h1 with e1 | m1 <;> rcases List.mem_cons.mp h2 with e2 | m2
    · rw [← e1] at e2; exact (Prod.mk.inj e2).2.symm ▸ rfl
    · exact absurd (List.mem_map_of_mem (f := (·.1)) m2) (by rw [← e1] at hn; exact hn.1)
    · exact absurd (List.mem_map_of_mem (f := (·.1)) m1) (by rw [← e2] at hn; exact hn.1)
    · exact nodup_map_fst_unique t hn.2 a b b' m1 m2

/-! ### the observer statements of a trace -/

def evObs : List Ev → List (Nat × MethodInfo)
  | [] => []
  | .observe h _ sig :: r => (h, sig) :: evObs r
  | .read .. :: r => evObs r

theorem evObs_append (a b : List Ev) : evObs (a ++ b) = evObs a ++ evObs b := by
  induction a with
  | nil => rfl
  | cons e t ih => cases e <;> simp [evObs, ih]

theorem mem_evObs {h : Nat} {sig : MethodInfo} : ∀ {e : List Ev}, (h, sig) ∈ evObs e ↔ ∃ a, Ev.observe h a sig ∈ e
  | [] => by simp [evObs]
  | ev :: t => by
    cases ev with
    | read o p => simp [evObs, mem_evObs (e := t)]
    | observe h' a' sig' =>
      simp only [evObs, List.mem_cons, mem_evObs (e := t)]
      constructor
      · rintro (e | ⟨a, m⟩)
        · obtain ⟨e1, e2⟩ := Prod.mk.inj e; subst e1 e2; exact ⟨a', Or.inl rfl⟩
        · exact ⟨a, Or.inr m⟩
      · rintro ⟨a, e | m⟩
        · injection e with e1 e2 e3; subst e1 e3; exact Or.inl rfl
        · exact Or.inr ⟨a, m⟩

theorem evalR_events {S : Sem} {s : Store} {L : Locals} {r : Rvalue} {v : Val} {e : List Ev}
    (h : evalR S s L r = some (v, e)) :
    e = [] ∨ ∃ a p o, r = .readProperty a p ∧ a.typeDesc.isPointer = true ∧
      opVal S L a = some (.ptr (some o)) ∧ v = s o p ∧ e = [Ev.read o p] := by
  unfold evalR at h
  split at h
  · rename_i a p
    split at h
    · rename_i hp
      split at h
      · rename_i o ho
        injection h with h; injection h with h1 h2
        exact Or.inr ⟨a, p, o, rfl, hp, ho, h1.symm, h2.symm⟩
      · exact absurd h (by simp)
    · simp only [Option.map_eq_some_iff] at h
      obtain ⟨_, _, h⟩ := h; injection h with _ h2; exact Or.inl h2.symm
  · simp only [Option.map_eq_some_iff] at h
    obtain ⟨_, _, h⟩ := h; injection h with _ h2; exact Or.inl h2.symm
  · exact absurd h (by simp)
  · exact absurd h (by simp)
  · simp only [Option.map_eq_some_iff] at h
    obtain ⟨_, _, h⟩ := h; injection h with _ h2; exact Or.inl h2.symm

theorem evalR_evObs {S : Sem} {s : Store} {L : Locals} {r : Rvalue} {v : Val} {e : List Ev}
    (h : evalR S s L r = some (v, e)) : evObs e = [] := by
  rcases evalR_events h with h | ⟨_, _, _, _, _, _, _, h⟩ <;> subst h <;> rfl

theorem execStmts_evObs {S : Sem} {s : Store} : ∀ (stmts : List Statement) (L L' : Locals) (e : List Ev),
    execStmts S s stmts L = some (L', e) → evObs e = stmts.flatMap stmtObs
  | [], L, L', e, h => by simp [execStmts] at h; rw [h.2]; rfl
  | .assign l r :: rest, L, L', e, h => by
    simp only [execStmts] at h
    split at h
    · exact absurd h (by simp)
    · rename_i v e1 h1
      split at h
      · exact absurd h (by simp)
      · rename_i L2 e2 h2
        injection h with h; injection h with _ h; subst h
        rw [evObs_append, evalR_evObs h1, execStmts_evObs rest _ _ _ h2]; simp [stmtObs]
  | .exec r :: rest, L, L', e, h => by
    simp only [execStmts] at h
    split at h
    · exact absurd h (by simp)
    · rename_i v e1 h1
      split at h
      · exact absurd h (by simp)
      · rename_i L2 e2 h2
        injection h with h; injection h with _ h; subst h
        rw [evObs_append, evalR_evObs h1, execStmts_evObs rest _ _ _ h2]; simp [stmtObs]
  | .observeProperty hh l sig :: rest, L, L', e, h => by
    simp only [execStmts] at h
    split at h
    · rename_i a ha
      split at h
      · exact absurd h (by simp)
      · rename_i L2 e2 h2
        injection h with h; injection h with _ h; subst h
        simp [evObs, execStmts_evObs rest _ _ _ h2, stmtObs]
    · exact absurd h (by simp)

/-- the shape of a successful `runFrom` step -/
theorem runFrom_succ {S : Sem} {c : CodeBody} {s : Store} {fuel i : Nat} {visited : List Nat} {L : Locals}
    {v : Val} {e : List Ev} (h : runFrom S c s (fuel + 1) i visited L = some (v, e)) :
    i ∉ visited ∧ ∃ b L' e1, c.blocks[i]? = some b ∧ execStmts S s b.statements L = some (L', e1) ∧
      (e = e1 ∨ ∃ j e2, runFrom S c s fuel j (i :: visited) L' = some (v, e2) ∧ e = e1 ++ e2) := by
  simp only [runFrom] at h
  split at h
  · exact absurd h (by simp)
  · rename_i hv
    refine ⟨hv, ?_⟩
    split at h
    · exact absurd h (by simp)
    · rename_i b hb
      split at h
      · exact absurd h (by simp)
      · rename_i L' e1 he
        refine ⟨b, L', e1, hb, he, ?_⟩
        split at h
        · simp only [Option.map_eq_some_iff] at h
          obtain ⟨_, _, h⟩ := h; injection h with _ h2; exact Or.inl h2.symm
        · rename_i j _
          simp only [Option.map_eq_some_iff] at h
          obtain ⟨⟨v2, e2⟩, hr, h⟩ := h; injection h with h1 h2
          simp at h1 h2; subst h1
          exact Or.inr ⟨j, e2, hr, h2.symm⟩
        · rename_i cnd t f _
          split at h
          · simp only [Option.map_eq_some_iff] at h
            obtain ⟨⟨v2, e2⟩, hr, h⟩ := h; injection h with h1 h2
            simp at h1 h2; subst h1
            exact Or.inr ⟨t, e2, hr, h2.symm⟩
          · simp only [Option.map_eq_some_iff] at h
            obtain ⟨⟨v2, e2⟩, hr, h⟩ := h; injection h with h1 h2
            simp at h1 h2; subst h1
            exact Or.inr ⟨f, e2, hr, h2.symm⟩
          · exact absurd h (by simp)
        · exact absurd h (by simp)

/-- observer statements run at most once per evaluation, and they are statements of blocks not visited before -/
theorem runFrom_evObs {S : Sem} {c : CodeBody} {s : Store} (hn : ((allObs c).map (·.1)).Nodup) :
    ∀ (fuel i : Nat) (visited : List Nat) (L : Locals) (v : Val) (e : List Ev),
      runFrom S c s fuel i visited L = some (v, e) →
      ((evObs e).map (·.1)).Nodup ∧
        ∀ x ∈ evObs e, ∃ j b, j ∉ visited ∧ c.blocks[j]? = some b ∧ x ∈ blockObs b
  | 0, _, _, _, _, _, h => by simp [runFrom] at h
  | fuel + 1, i, visited, L, v, e, h => by
    obtain ⟨hv, b, L', e1, hb, he, hrest⟩ := runFrom_succ h
    obtain ⟨p1, p2⟩ := nodup_flatMap_parts blockObs (·.1) c.blocks hn
    have ho := execStmts_evObs _ _ _ _ he
    rcases hrest with h | ⟨j, e2, hr, h⟩
    · subst h
      rw [ho]
      exact ⟨p1 i b hb, fun x hx => ⟨i, b, hv, hb, hx⟩⟩
    · subst h
      obtain ⟨q1, q2⟩ := runFrom_evObs hn fuel j (i :: visited) L' v e2 hr
      rw [evObs_append, List.map_append, List.nodup_append, ho]
      refine ⟨⟨p1 i b hb, q1, ?_⟩, ?_⟩
      · intro a ha a' ha'
        obtain ⟨x, hx, rfl⟩ := List.mem_map.mp ha
        obtain ⟨y, hy, rfl⟩ := List.mem_map.mp ha'
        obtain ⟨k, bk, hk, hbk, hyk⟩ := q2 y hy
        have hik : i ≠ k := fun e => hk (by rw [e]; exact List.mem_cons_self)
        exact p2 i k b bk hik hb hbk x hx y hyk
      · intro x hx
        rcases List.mem_append.mp hx with hx | hx
        · exact ⟨i, b, hv, hb, hx⟩
        · obtain ⟨k, bk, hk, hbk, hyk⟩ := q2 x hx
          exact ⟨k, bk, fun m => hk (List.mem_cons_of_mem _ m), hbk, hyk⟩

/-! ### folding the observer snippet over a trace -/

/-- observer state is consistent: a live connection is on the remembered object and on the signal of *the*
    observer statement with that handle -/
def ObsWf (c : CodeBody) (obs : Nat → Observer) : Prop :=
  ∀ h x s, (obs h).conn = some (x, s) → (obs h).object = some x ∧ (h, s) ∈ allObs c

theorem applyEvs_untouched : ∀ (evs : List Ev) (obs : Nat → Observer) (h : Nat),
    h ∉ (evObs evs).map (·.1) → applyEvs obs evs h = obs h
  | [], _, _, _ => rfl
  | .read o p :: t, obs, h, hn => by
    simpa [applyEvs, applyEv] using applyEvs_untouched t obs h (by simpa [evObs] using hn)
  | .observe h' a sig :: t, obs, h, hn => by
    simp only [evObs, List.map_cons, List.mem_cons, not_or] at hn
    have := applyEvs_untouched t (applyEv obs (.observe h' a sig)) h hn.2
    simp only [applyEvs, List.foldl_cons] at this ⊢
    rw [this]; simp [applyEv, hn.1]

theorem applyEvs_sound {c : CodeBody} (hu : ((allObs c).map (·.1)).Nodup) :
    ∀ (evs : List Ev) (obs : Nat → Observer), ObsWf c obs → ((evObs evs).map (·.1)).Nodup →
      (∀ x ∈ evObs evs, x ∈ allObs c) →
      ObsWf c (applyEvs obs evs) ∧
        ∀ h o sig, Ev.observe h (some o) sig ∈ evs → (applyEvs obs evs h).conn = some (o, sig)
  | [], obs, hw, _, _ => ⟨hw, by simp⟩
  | .read o p :: t, obs, hw, hn, hm => by
    obtain ⟨r1, r2⟩ := applyEvs_sound hu t obs hw (by simpa [evObs] using hn) (by simpa [evObs] using hm)
    refine ⟨by simpa [applyEvs, applyEv] using r1, ?_⟩
    intro h o' sig hmem
    have : Ev.observe h (some o') sig ∈ t := by simpa using hmem
    simpa [applyEvs, applyEv] using r2 h o' sig this
  | .observe h' a sig' :: t, obs, hw, hn, hm => by
    simp only [evObs, List.map_cons, List.nodup_cons] at hn
    have hmem' : (h', sig') ∈ allObs c := hm _ (by simp [evObs])
    -- the state after the head statement
    have hw1 : ObsWf c (applyEv obs (.observe h' a sig')) := by
      intro h x s hc
      by_cases hh : h = h'
      · subst hh
        simp only [applyEv, if_pos] at hc ⊢
        unfold attach at hc ⊢
        by_cases hcond : ((obs h).conn.isNone || (obs h).object != a) = true
        · rw [if_pos hcond] at hc ⊢
          simp only [Option.map_eq_some_iff] at hc
          obtain ⟨y, hy, hc⟩ := hc; injection hc with e1 e2; subst e1 e2
          exact ⟨hy, hmem'⟩
        · rw [if_neg hcond] at hc ⊢
          exact hw h x s hc
      · simp only [applyEv, if_neg hh] at hc ⊢
        exact hw h x s hc
    have hhead : ∀ o, a = some o → (applyEv obs (.observe h' a sig') h').conn = some (o, sig') := by
      intro o ho
      simp only [applyEv, if_pos]
      unfold attach
      split
      · simp [ho]
      · rename_i hc
        simp only [Bool.or_eq_true, Option.isNone_iff_eq_none, bne_iff_ne, ne_eq, not_or, Decidable.not_not] at hc
        obtain ⟨hc1, hc2⟩ := hc
        cases hcn : (obs h').conn with
        | none => exact absurd hcn hc1
        | some xs =>
          obtain ⟨x, s⟩ := xs
          obtain ⟨w1, w2⟩ := hw h' x s hcn
          rw [hc2, ho] at w1; injection w1 with w1; subst w1
          rw [nodup_map_fst_unique _ hu h' s sig' w2 hmem']
    obtain ⟨r1, r2⟩ := applyEvs_sound hu t _ hw1 hn.2 (fun x hx => hm x (by simp [evObs, hx]))
    refine ⟨by simpa [applyEvs] using r1, ?_⟩
    intro h o sig hmem
    rcases List.mem_cons.mp hmem with e | m
    · injection e with e1 e2 e3; subst e1 e2 e3
      have := applyEvs_untouched t (applyEv obs (.observe h (some o) sig)) h hn.1
      simp only [applyEvs, List.foldl_cons] at this ⊢
      rw [this]; exact hhead o rfl
    · simpa [applyEvs] using r2 h o sig m

/-! ### coverage of the trace from the static checker -/

/-- the read `(o, p)` has a subscription according to the trace `E` -/
def Cov (S : Sem) (c : CodeBody) (o : Nat) (p : PropInfo) (E : List Ev) : Prop :=
  p.constant = true ∨ ∃ sig, p.notify = some (some sig) ∧
    ((o, sig) ∈ staticConns S c ∨ ∃ h, Ev.observe h (some o) sig ∈ E)

theorem Cov.mono {S : Sem} {c : CodeBody} {o : Nat} {p : PropInfo} {E E' : List Ev}
    (h : Cov S c o p E) (hs : ∀ x ∈ E, x ∈ E') : Cov S c o p E' := by
  rcases h with h | ⟨sig, h1, h2 | ⟨hh, h2⟩⟩
  · exact Or.inl h
  · exact Or.inr ⟨sig, h1, Or.inl h2⟩
  · exact Or.inr ⟨sig, h1, Or.inr ⟨hh, hs _ h2⟩⟩

def KnownOk (S : Sem) (known : List (Option String)) (L : Locals) : Prop :=
  ∀ x n, known.getD x none = some n → L x = some (.ptr (some (S.named n)))

def ObsdOk (obsd : List (Nat × MethodInfo)) (L : Locals) (pre : List Ev) : Prop :=
  ∀ x sig, (x, sig) ∈ obsd → ∃ h a, L x = some (.ptr a) ∧ Ev.observe h a sig ∈ pre

theorem getD_set_ne {α : Type} (l : List α) (i j : Nat) (v d : α) (h : j ≠ i) : (l.set i v).getD j d = l.getD j d := by
  simp [List.getD_eq_getElem?_getD, h.symm]

theorem getD_set_self {α : Type} (l : List (Option α)) (i : Nat) (v : Option α) (n : α)
    (h : (l.set i v).getD i none = some n) : v = some n := by
  simp only [List.getD_eq_getElem?_getD, List.getElem?_set] at h
  by_cases hi : i < l.length
  · simpa [hi] using h
  · simp [hi] at h

theorem evalR_cov {S : Sem} {c : CodeBody} {s : Store} {L : Locals} {r : Rvalue} {v : Val} {e : List Ev}
    {known : List (Option String)} {obsd : List (Nat × MethodInfo)} {pre : List Ev}
    (hk : KnownOk S known L) (ho : ObsdOk obsd L pre) (hr : readOk c.staticDeps known obsd r = true)
    (h : evalR S s L r = some (v, e)) : ∀ o p, Ev.read o p ∈ e → Cov S c o p pre := by
  intro o p hm
  rcases evalR_events h with h0 | ⟨a, p', o', hr', hp, hv, _, he⟩
  · subst h0; simp at hm
  · subst he hr'
    simp at hm; obtain ⟨e1, e2⟩ := hm; subst e1 e2
    simp only [readOk, hp, Bool.true_and] at hr
    cases hc : p.constant with
    | true => exact Or.inl hc
    | false =>
      simp only [hc, Bool.not_false, if_true] at hr
      split at hr
      · rename_i sig hsig
        refine Or.inr ⟨sig, hsig, ?_⟩
        split at hr
        · rename_i x cls
          simp only [opVal] at hv; injection hv with hv; injection hv with hv; injection hv with hv
          subst hv
          exact Or.inl (List.mem_map.mpr ⟨(x, sig), of_decide_eq_true hr, rfl⟩)
        · rename_i x ty
          simp only [opVal] at hv
          simp only [Bool.or_eq_true] at hr
          rcases hr with hr | hr
          · split at hr
            · rename_i n hn
              have := hk x n hn
              rw [hv] at this; injection this with this; injection this with this; injection this with this
              subst this
              exact Or.inl (List.mem_map.mpr ⟨(n, sig), of_decide_eq_true hr, rfl⟩)
            · exact absurd hr (by simp)
          · obtain ⟨h, a', ha, hin⟩ := ho x sig (of_decide_eq_true hr)
            rw [hv] at ha; injection ha with ha; injection ha with ha; subst ha
            exact Or.inr ⟨h, hin⟩
        · exact absurd hr (by simp)
      · exact absurd hr (by simp)

theorem knownOk_assign {S : Sem} {s : Store} {L : Locals} {known : List (Option String)} {l : Nat} {r : Rvalue}
    {v : Val} {e : List Ev} (hk : KnownOk S known L) (h : evalR S s L r = some (v, e)) :
    KnownOk S (known.set l (trackCopy known r)) (upd L l v) := by
  intro x n hx
  by_cases hxl : x = l
  · subst hxl
    have ht := getD_set_self _ _ _ _ hx
    simp only [upd, if_pos]
    unfold trackCopy at ht
    split at ht
    · rename_i y ty
      have := hk y n ht
      simp only [evalR, opVal, this, Option.map_some] at h
      injection h with h; injection h with h; rw [← h]
    · rename_i y cls
      injection ht with ht; subst ht
      simp only [evalR, opVal, Option.map_some] at h
      injection h with h; injection h with h; rw [← h]
    · exact absurd ht (by simp)
  · rw [getD_set_ne _ _ _ _ _ hxl] at hx
    simp only [upd, if_neg hxl]; exact hk x n hx

theorem execStmts_cov {S : Sem} {c : CodeBody} {s : Store} :
    ∀ (stmts : List Statement) (known : List (Option String)) (obsd : List (Nat × MethodInfo)) (L L' : Locals)
      (pre e : List Ev), KnownOk S known L → ObsdOk obsd L pre →
      coveredStmts c.staticDeps known obsd stmts = true → execStmts S s stmts L = some (L', e) →
      ∀ o p, Ev.read o p ∈ e → Cov S c o p (pre ++ e)
  | [], _, _, _, _, _, e, _, _, _, h => by simp [execStmts] at h; rw [h.2]; simp
  | .assign l r :: rest, known, obsd, L, L', pre, e, hk, ho, hc, h => by
    simp only [coveredStmts, Bool.and_eq_true] at hc
    simp only [execStmts] at h
    split at h
    · exact absurd h (by simp)
    · rename_i v e1 h1
      split at h
      · exact absurd h (by simp)
      · rename_i L2 e2 h2
        injection h with h; injection h with _ h; subst h
        intro o p hm
        rcases List.mem_append.mp hm with hm | hm
        · exact (evalR_cov hk ho hc.1 h1 o p hm).mono (fun x hx => List.mem_append_left _ hx)
        · have ho' : ObsdOk (obsd.filter fun e => e.1 != l) (upd L l v) (pre ++ e1) := by
            intro x sig hx
            simp only [List.mem_filter, bne_iff_ne, ne_eq] at hx
            obtain ⟨hh, a, ha, hin⟩ := ho x sig hx.1
            exact ⟨hh, a, by simp only [upd, if_neg hx.2]; exact ha, List.mem_append_left _ hin⟩
          have := execStmts_cov rest _ _ _ _ (pre ++ e1) e2 (knownOk_assign hk h1) ho' hc.2 h2 o p hm
          rwa [List.append_assoc] at this
  | .exec r :: rest, known, obsd, L, L', pre, e, hk, ho, hc, h => by
    simp only [coveredStmts, Bool.and_eq_true] at hc
    simp only [execStmts] at h
    split at h
    · exact absurd h (by simp)
    · rename_i v e1 h1
      split at h
      · exact absurd h (by simp)
      · rename_i L2 e2 h2
        injection h with h; injection h with _ h; subst h
        intro o p hm
        rcases List.mem_append.mp hm with hm | hm
        · exact (evalR_cov hk ho hc.1 h1 o p hm).mono (fun x hx => List.mem_append_left _ hx)
        · have ho' : ObsdOk obsd L (pre ++ e1) := by
            intro x sig hx
            obtain ⟨hh, a, ha, hin⟩ := ho x sig hx
            exact ⟨hh, a, ha, List.mem_append_left _ hin⟩
          have := execStmts_cov rest _ _ _ _ (pre ++ e1) e2 hk ho' hc.2 h2 o p hm
          rwa [List.append_assoc] at this
  | .observeProperty hh l sig :: rest, known, obsd, L, L', pre, e, hk, ho, hc, h => by
    simp only [coveredStmts] at hc
    simp only [execStmts] at h
    split at h
    · rename_i a ha
      split at h
      · exact absurd h (by simp)
      · rename_i L2 e2 h2
        injection h with h; injection h with _ h; subst h
        intro o p hm
        have hm : Ev.read o p ∈ e2 := by simpa using hm
        have ho' : ObsdOk ((l, sig) :: obsd) L (pre ++ [Ev.observe hh a sig]) := by
          intro x sg hx
          rcases List.mem_cons.mp hx with e | hx
          · injection e with e1 e2; subst e1 e2
            exact ⟨hh, a, ha, by simp⟩
          · obtain ⟨h', a', ha', hin⟩ := ho x sg hx
            exact ⟨h', a', ha', List.mem_append_left _ hin⟩
        have := execStmts_cov rest _ _ _ _ (pre ++ [Ev.observe hh a sig]) e2 hk ho' hc h2 o p hm
        rwa [List.append_assoc] at this
    · exact absurd h (by simp)

theorem knownOk_init (S : Sem) (n : Nat) (L : Locals) : KnownOk S (List.replicate n none) L := by
  intro x m hx
  simp [List.getD_eq_getElem?_getD, List.getElem?_replicate] at hx
  split at hx <;> simp at hx

theorem runFrom_cov {S : Sem} {c : CodeBody} {s : Store}
    (hc : ∀ b ∈ c.blocks, coveredStmts c.staticDeps (List.replicate c.locals.length none) [] b.statements = true) :
    ∀ (fuel i : Nat) (visited : List Nat) (L : Locals) (v : Val) (e : List Ev),
      runFrom S c s fuel i visited L = some (v, e) → ∀ o p, Ev.read o p ∈ e → Cov S c o p e
  | 0, _, _, _, _, _, h => by simp [runFrom] at h
  | fuel + 1, i, visited, L, v, e, h => by
    obtain ⟨_, b, L', e1, hb, he, hrest⟩ := runFrom_succ h
    have hblock := execStmts_cov (c := c) b.statements _ [] L L' [] e1 (knownOk_init S _ L)
      (fun x sig hx => by simp at hx) (hc b (List.mem_of_getElem? hb)) he
    simp only [List.nil_append] at hblock
    rcases hrest with h | ⟨j, e2, hr, h⟩
    · subst h; exact hblock
    · subst h
      intro o p hm
      rcases List.mem_append.mp hm with hm | hm
      · exact (hblock o p hm).mono (fun x hx => List.mem_append_left _ hx)
      · exact (runFrom_cov hc fuel j _ L' v e2 hr o p hm).mono (fun x hx => List.mem_append_right _ hx)

/-! ### frame: an evaluation depends only on the values it read -/

theorem evalR_frame {S : Sem} {s : Store} {L : Locals} {r : Rvalue} {v : Val} {e : List Ev} (o : Nat) (p : PropInfo)
    (x : Val) (h : evalR S s L r = some (v, e)) (hn : Ev.read o p ∉ e) : evalR S (s.set o p x) L r = some (v, e) := by
  cases r with
  | readProperty a p' =>
    simp only [evalR] at h ⊢
    by_cases hp : a.typeDesc.isPointer = true
    · rw [if_pos hp] at h ⊢
      split at h
      · rename_i o' ho'
        injection h with h; injection h with h1 h2; subst h1 h2
        have hne : ¬ (o' = o ∧ p' = p) := fun ⟨e1, e2⟩ => hn (by subst e1 e2; simp)
        simp [Store.set, hne]
      · exact absurd h (by simp)
    · rw [if_neg hp] at h ⊢; exact h
  | _ => simp only [evalR] at h ⊢; exact h

theorem execStmts_frame {S : Sem} {s : Store} (o : Nat) (p : PropInfo) (x : Val) :
    ∀ (stmts : List Statement) (L L' : Locals) (e : List Ev), execStmts S s stmts L = some (L', e) →
      Ev.read o p ∉ e → execStmts S (s.set o p x) stmts L = some (L', e)
  | [], _, _, _, h, _ => by simpa [execStmts] using h
  | .assign l r :: rest, L, L', e, h, hn => by
    simp only [execStmts] at h ⊢
    split at h
    · exact absurd h (by simp)
    · rename_i v e1 h1
      split at h
      · exact absurd h (by simp)
      · rename_i L2 e2 h2
        injection h with h; injection h with hL h; subst h hL
        simp only [List.mem_append, not_or] at hn
        rw [evalR_frame o p x h1 hn.1]; simp only
        rw [execStmts_frame o p x rest _ _ _ h2 hn.2]
  | .exec r :: rest, L, L', e, h, hn => by
    simp only [execStmts] at h ⊢
    split at h
    · exact absurd h (by simp)
    · rename_i v e1 h1
      split at h
      · exact absurd h (by simp)
      · rename_i L2 e2 h2
        injection h with h; injection h with hL h; subst h hL
        simp only [List.mem_append, not_or] at hn
        rw [evalR_frame o p x h1 hn.1]; simp only
        rw [execStmts_frame o p x rest _ _ _ h2 hn.2]
  | .observeProperty hh l sig :: rest, L, L', e, h, hn => by
    simp only [execStmts] at h ⊢
    split at h
    · rename_i a ha
      split at h
      · exact absurd h (by simp)
      · rename_i L2 e2 h2
        injection h with h; injection h with hL h; subst h hL
        simp only [List.mem_cons, not_or] at hn
        rw [execStmts_frame o p x rest _ _ _ h2 hn.2]
    · exact absurd h (by simp)

theorem runFrom_frame {S : Sem} {c : CodeBody} {s : Store} (o : Nat) (p : PropInfo) (x : Val) :
    ∀ (fuel i : Nat) (visited : List Nat) (L : Locals) (v : Val) (e : List Ev),
      runFrom S c s fuel i visited L = some (v, e) → Ev.read o p ∉ e →
      runFrom S c (s.set o p x) fuel i visited L = some (v, e)
  | 0, _, _, _, _, _, h, _ => by simp [runFrom] at h
  | fuel + 1, i, visited, L, v, e, h, hn => by
    simp only [runFrom] at h ⊢
    split at h
    · exact absurd h (by simp)
    · rename_i hv
      rw [if_neg hv]
      split at h
      · exact absurd h (by simp)
      · rename_i b hb
        split at h
        · exact absurd h (by simp)
        · rename_i L' e1 he
          split at h
          · rename_i a _
            simp only [Option.map_eq_some_iff] at h
            obtain ⟨v', hv', h⟩ := h; injection h with h1 h2; subst h1 h2
            rw [execStmts_frame o p x _ _ _ _ he hn]; simp [*]
          · rename_i j _
            simp only [Option.map_eq_some_iff] at h
            obtain ⟨⟨v2, e2⟩, hr, h⟩ := h; injection h with h1 h2
            simp at h1 h2; subst h1 h2
            simp only [List.mem_append, not_or] at hn
            rw [execStmts_frame o p x _ _ _ _ he hn.1]; simp only [*]
            rw [runFrom_frame o p x fuel j _ L' _ e2 hr hn.2]; rfl
          · rename_i cnd t f _
            split at h
            · rename_i hcv
              simp only [Option.map_eq_some_iff] at h
              obtain ⟨⟨v2, e2⟩, hr, h⟩ := h; injection h with h1 h2
              simp at h1 h2; subst h1 h2
              simp only [List.mem_append, not_or] at hn
              rw [execStmts_frame o p x _ _ _ _ he hn.1]; simp only [*]
              rw [runFrom_frame o p x fuel t _ L' _ e2 hr hn.2]; rfl
            · rename_i hcv
              simp only [Option.map_eq_some_iff] at h
              obtain ⟨⟨v2, e2⟩, hr, h⟩ := h; injection h with h1 h2
              simp at h1 h2; subst h1 h2
              simp only [List.mem_append, not_or] at hn
              rw [execStmts_frame o p x _ _ _ _ he hn.1]; simp only [*]
              rw [runFrom_frame o p x fuel f _ L' _ e2 hr hn.2]; rfl
            · exact absurd h (by simp)
          · exact absurd h (by simp)

/-! ### the invariant of `binding_current` -/

theorem covered_parts {c : CodeBody} (h : covered c = true) :
    (∀ b ∈ c.blocks, coveredStmts c.staticDeps (List.replicate c.locals.length none) [] b.statements = true) ∧
    ((allObs c).map (·.1)).Nodup ∧ (∀ e ∈ allObs c, e.1 < c.observerCount) := by
  simp only [covered, Bool.and_eq_true, List.all_eq_true, decide_eq_true_eq] at h
  exact ⟨h.1.1, h.1.2, h.2⟩

/-- target current ∧ every (object, property) read by the last evaluation has a live connection to `update` -/
def Inv (S : Sem) (c : CodeBody) (W : World) : Prop :=
  ObsWf c W.obs ∧ ∃ v e, run S c W.store = some (v, e) ∧ W.target = some v ∧
    ∀ o p, Ev.read o p ∈ e → p.constant = true ∨ ∃ sig, p.notify = some (some sig) ∧ live S c W (o, sig) = true

theorem update_establishes {S : Sem} {c : CodeBody} (hc : covered c = true) {W W' : World}
    (hw : ObsWf c W.obs) (h : update S c W = some W') : Inv S c W' ∧ W'.store = W.store := by
  obtain ⟨c1, c2, c3⟩ := covered_parts hc
  unfold update at h
  split at h
  · exact absurd h (by simp)
  · rename_i v e hr
    injection h with h; subst h
    obtain ⟨n1, n2⟩ := runFrom_evObs (S := S) (s := W.store) c2 _ _ _ _ _ _ hr
    have hm : ∀ x ∈ evObs e, x ∈ allObs c := by
      intro x hx
      obtain ⟨j, b, _, hb, hxb⟩ := n2 x hx
      exact List.mem_flatMap.mpr ⟨b, List.mem_of_getElem? hb, hxb⟩
    obtain ⟨r1, r2⟩ := applyEvs_sound c2 e W.obs hw n1 hm
    refine ⟨⟨r1, v, e, hr, rfl, ?_⟩, rfl⟩
    intro o p hp
    rcases runFrom_cov c1 _ _ _ _ _ _ hr o p hp with hk | ⟨sig, hs, hst | ⟨hh, hob⟩⟩
    · exact Or.inl hk
    · exact Or.inr ⟨sig, hs, by simp [live, hst]⟩
    · refine Or.inr ⟨sig, hs, ?_⟩
      have hlt : hh < c.observerCount := c3 (hh, sig) (hm _ (mem_evObs.mpr ⟨_, hob⟩))
      simp only [live, Bool.or_eq_true, List.any_eq_true, List.mem_range, decide_eq_true_eq]
      exact Or.inr ⟨hh, hlt, r2 hh o sig hob⟩

theorem delivered_inv {S : Sem} {c : CodeBody} (hc : covered c = true) {W W' : World}
    (hd : Delivered S c W W') : ObsWf c W.obs → Inv S c W' ∧ W'.store = W.store := by
  induction hd with
  | one h => exact fun hw => update_establishes hc hw h
  | more h _ ih =>
    intro hw
    obtain ⟨i1, s1⟩ := update_establishes hc hw h
    obtain ⟨i2, s2⟩ := ih i1.1
    exact ⟨i2, s2.trans s1⟩

theorem step_inv {S : Sem} {c : CodeBody} (hc : covered c = true) {W W' : World} {ch : Change}
    (hi : Inv S c W) (hs : Step S c W ch W') : Inv S c W' ∧ W'.store = W.store.set ch.obj ch.prop ch.val := by
  cases hs with
  | quiet hk hq =>
    refine ⟨?_, rfl⟩
    obtain ⟨hw, v, e, hr, ht, hcov⟩ := hi
    have hn : Ev.read ch.obj ch.prop ∉ e := by
      intro hm
      rcases hcov _ _ hm with h | ⟨sig, h1, h2⟩
      · rw [hk] at h; exact absurd h (by simp)
      · have := hq sig h1
        simp only [live] at this h2
        rw [this] at h2; exact absurd h2 (by simp)
    refine ⟨hw, v, e, runFrom_frame _ _ _ _ _ _ _ _ _ hr hn, ht, ?_⟩
    intro o p hp
    rcases hcov o p hp with h | ⟨sig, h1, h2⟩
    · exact Or.inl h
    · exact Or.inr ⟨sig, h1, h2⟩
  | notify hk hn hl hd =>
    obtain ⟨i, s⟩ := delivered_inv hc hd hi.1
    exact ⟨i, s⟩

theorem steps_inv {S : Sem} {c : CodeBody} (hc : covered c = true) {W W' : World} {hist : List Change}
    (hs : Steps S c W hist W') : Inv S c W → Inv S c W' := by
  induction hs with
  | nil => exact id
  | cons h _ ih => exact fun hi => ih (step_inv hc hi h).1

theorem obsWf_init (c : CodeBody) : ObsWf c (fun _ => ({} : Observer)) := by
  intro h x s hc; simp at hc

theorem delivered_snoc {S : Sem} {c : CodeBody} {W W1 : World} (d : Delivered S c W W1) :
    ∀ {W'}, update S c W1 = some W' → Delivered S c W W' := by
  induction d with
  | one h1 => exact fun h => .more h1 (.one h)
  | more h1 _ ih => exact fun h => .more h1 (ih h)

/-- the executable step is one of the steps of the relation (when a connection is live the slot runs `n ≥ 1` times) -/
theorem fold_delivered {S : Sem} {c : CodeBody} : ∀ (n : Nat) (W W' : World),
    (n + 1).fold (fun _ _ acc => acc.bind (update S c)) (some W) = some W' → Delivered S c W W'
  | 0, W, W', h => by
    simp [Nat.fold] at h
    exact .one h
  | n + 1, W, W', h => by
    rw [Nat.fold_succ] at h
    cases hx : (n + 1).fold (fun _ _ acc => acc.bind (update S c)) (some W) with
    | none => rw [hx] at h; simp at h
    | some W1 =>
      rw [hx] at h
      have d1 := fold_delivered n W W1 hx
      have h : update S c W1 = some W' := by simpa using h
      exact delivered_snoc d1 h

end QV.Proofs.Observe
