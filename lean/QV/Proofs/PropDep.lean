/-
  Helper lemmas for C02, part 2: the model of tir/propdep.rs (`analyzeBlock`, `analyzePropertyDependency` in
  QV.Model.Finalize) always produces covered code.  The two-pass formulation of the Rust code (scan, then insert the
  observe statements at the recorded line numbers in reverse) is shown equal to a one-pass `annotate`, about which the
  facts are proved by induction.
-/
import QV.Model.Finalize
import QV.Model.Observe

namespace QV.Proofs.PropDep
open QV.Model QV.Model.Observe

inductive Decision where
  | nothing | dep (n : String) (sig : MethodInfo) | observe (x : Nat) (sig : MethodInfo) | diag (m : String)
  | panic (m : String)

def readDecision (locals : List (Option String)) (a : Operand) (p : PropInfo) : Decision :=
  if a.typeDesc.isPointer && !p.constant then
    match p.notify with
    | some (some signal) =>
      (match a with
       | .namedObject x _ => .dep x signal
       | .local x _ => (match locals.getD x none with | some n => .dep n signal | none => .observe x signal)
       | _ => .panic "invald read_property")
    | none => .diag s!"unobservable property: {p.name}"
    | some none => .diag "type resolution failed"
  else .nothing

def decision (locals : List (Option String)) : Statement → Decision
  | .assign _ (.readProperty a p) | .exec (.readProperty a p) => readDecision locals a p
  | _ => .nothing

def nextLocals (locals : List (Option String)) : Statement → List (Option String)
  | .assign l r => locals.set l (trackCopy locals r)
  | _ => locals

def Decision.out (line : Nat) : Decision →
    List (Nat × Nat × MethodInfo) × List (String × MethodInfo) × List String × Option String
  | .nothing => ([], [], [], none)
  | .dep n sig => ([], [(n, sig)], [], none)
  | .observe x sig => ([(line, x, sig)], [], [], none)
  | .diag m => ([], [], [m], none)
  | .panic m => ([], [], [], some m)

theorem scan_cons (locals : List (Option String)) (line : Nat) (stmt : Statement) (rest : List Statement) :
    analyzeBlock.scan locals line (stmt :: rest) =
      let here := (decision locals stmt).out line
      let r := analyzeBlock.scan (nextLocals locals stmt) (line + 1) rest
      (here.1 ++ r.1, here.2.1 ++ r.2.1, here.2.2.1 ++ r.2.2.1, here.2.2.2.or r.2.2.2) := by
  cases stmt with
  | observeProperty h l s => simp [analyzeBlock.scan, decision, nextLocals, Decision.out]
  | exec r =>
    cases r <;> simp only [analyzeBlock.scan, decision, nextLocals, Decision.out, List.nil_append, Option.or]
    simp only [readDecision]
    repeat' split
    all_goals simp_all
  | assign l r =>
    cases r with
    | copy a => cases a <;> simp [analyzeBlock.scan, decision, nextLocals, Decision.out, trackCopy]
    | readProperty a p =>
      simp only [analyzeBlock.scan, decision, nextLocals, Decision.out, Option.or, trackCopy]
      simp only [readDecision]
      repeat' split
      all_goals simp_all
    | _ => simp [analyzeBlock.scan, decision, nextLocals, Decision.out, trackCopy]

theorem scan_nil (locals : List (Option String)) (line : Nat) :
    analyzeBlock.scan locals line [] = ([], [], [], none) := by simp [analyzeBlock.scan]

theorem scan_lines : ∀ (stmts : List Statement) (locals : List (Option String)) (line : Nat),
    ∀ e ∈ (analyzeBlock.scan locals line stmts).1, line ≤ e.1
  | [], locals, line => by simp [scan_nil]
  | stmt :: rest, locals, line => by
    rw [scan_cons]
    intro e he
    simp only [List.mem_append] at he
    rcases he with he | he
    · cases hd : decision locals stmt <;> simp [hd, Decision.out] at he
      subst he; exact Nat.le_refl _
    · exact Nat.le_of_succ_le (scan_lines rest _ _ e he)

/-- one insertion of pass 2 (`statements.insert(line, ObserveProperty(h, obj, signal))`), relative to a base line -/
def insOne (start line : Nat) (e : (Nat × Nat × MethodInfo) × Nat) (acc : List Statement) : List Statement :=
  acc.take (e.1.1 - line) ++ [Statement.observeProperty (start + e.2) e.1.2.1 e.1.2.2] ++ acc.drop (e.1.1 - line)

theorem foldr_ins_cons (start line : Nat) (s : Statement) (xs : List Statement) :
    ∀ (o : List (Nat × Nat × MethodInfo)) (k : Nat), (∀ e ∈ o, line + 1 ≤ e.1) →
      (o.zipIdx k).foldr (insOne start line) (s :: xs) = s :: (o.zipIdx k).foldr (insOne start (line + 1)) xs
  | [], _, _ => by simp
  | e :: o, k, h => by
    rw [List.zipIdx_cons, List.foldr_cons, List.foldr_cons,
      foldr_ins_cons start line s xs o (k + 1) (fun x hx => h x (List.mem_cons_of_mem _ hx))]
    have he : line + 1 ≤ e.1 := h e List.mem_cons_self
    have : e.1 - line = (e.1 - (line + 1)) + 1 := by omega
    simp only [insOne, this, List.take_succ_cons, List.drop_succ_cons, List.cons_append]

/-- the one-pass formulation -/
def annotate (start : Nat) : List (Option String) → Nat → List Statement → List Statement
  | _, _, [] => []
  | locals, k, stmt :: rest =>
    match decision locals stmt with
    | .observe x sig =>
      .observeProperty (start + k) x sig :: stmt :: annotate start (nextLocals locals stmt) (k + 1) rest
    | _ => stmt :: annotate start (nextLocals locals stmt) k rest

theorem weave (start : Nat) : ∀ (stmts : List Statement) (locals : List (Option String)) (line k : Nat),
    ((analyzeBlock.scan locals line stmts).1.zipIdx k).foldr (insOne start line) stmts = annotate start locals k stmts
  | [], locals, line, k => by simp [scan_nil, annotate]
  | stmt :: rest, locals, line, k => by
    rw [scan_cons]
    have hl := scan_lines rest (nextLocals locals stmt) (line + 1)
    have ih1 := weave start rest (nextLocals locals stmt) (line + 1)
    cases hd : decision locals stmt with
    | observe x sig =>
      simp only [Decision.out, List.cons_append, List.nil_append, List.zipIdx_cons, List.foldr_cons]
      rw [foldr_ins_cons start line stmt rest _ (k + 1) hl, ih1 (k + 1)]
      simp [insOne, annotate, hd]
    | nothing =>
      simp only [Decision.out, List.nil_append]
      rw [foldr_ins_cons start line stmt rest _ k hl, ih1 k]; simp [annotate, hd]
    | dep n sig =>
      simp only [Decision.out, List.nil_append]
      rw [foldr_ins_cons start line stmt rest _ k hl, ih1 k]; simp [annotate, hd]
    | diag m =>
      simp only [Decision.out, List.nil_append]
      rw [foldr_ins_cons start line stmt rest _ k hl, ih1 k]; simp [annotate, hd]
    | panic m =>
      simp only [Decision.out, List.nil_append]
      rw [foldr_ins_cons start line stmt rest _ k hl, ih1 k]; simp [annotate, hd]

/-- `analyze_block` in one pass -/
theorem analyzeBlock_eq (stmts : List Statement) (n start : Nat) :
    analyzeBlock stmts n start =
      let r := analyzeBlock.scan (List.replicate n none) 0 stmts
      (annotate start (List.replicate n none) 0 stmts, r.2.1, r.2.2.1, start + r.1.length, r.2.2.2) := by
  have hw := weave start stmts (List.replicate n none) 0 0
  have hf : (fun (x : (Nat × Nat × MethodInfo) × Nat) (acc : List Statement) =>
      match x with
      | ((line, obj, signal), k) =>
        acc.take line ++ [Statement.observeProperty (start + k) obj signal] ++ acc.drop line) = insOne start 0 := by
    funext ⟨⟨line, obj, sig⟩, k⟩ acc; rfl
  simp only [analyzeBlock]
  rw [hf, hw]

/-! ### facts about `annotate` -/

def stmtReadOk (deps : List (String × MethodInfo)) (known : List (Option String)) (obsd : List (Nat × MethodInfo)) :
    Statement → Bool
  | .assign _ r | .exec r => readOk deps known obsd r
  | _ => true

theorem readDecision_readOk (deps : List (String × MethodInfo)) (known : List (Option String))
    (obsd : List (Nat × MethodInfo)) (a : Operand) (p : PropInfo) :
    match readDecision known a p with
    | .nothing => readOk deps known obsd (.readProperty a p) = true
    | .dep n sig => (n, sig) ∈ deps → readOk deps known obsd (.readProperty a p) = true
    | .observe x sig => readOk deps known ((x, sig) :: obsd) (.readProperty a p) = true
    | _ => True := by
  simp only [readDecision, readOk]
  by_cases hc : (a.typeDesc.isPointer && !p.constant) = true
  · simp only [hc, if_true]
    cases hn : p.notify with
    | none => simp
    | some on =>
      cases on with
      | none => simp
      | some sig =>
        cases a with
        | namedObject x cls => simp
        | «local» x ty =>
          cases hk : known.getD x none <;> simp only [hk] <;> simp
          exact Or.inl
        | _ => simp
  · simp [hc]

theorem decision_readOk (deps : List (String × MethodInfo)) (known : List (Option String))
    (obsd : List (Nat × MethodInfo)) (stmt : Statement) :
    match decision known stmt with
    | .nothing => stmtReadOk deps known obsd stmt = true
    | .dep n sig => (n, sig) ∈ deps → stmtReadOk deps known obsd stmt = true
    | .observe x sig => stmtReadOk deps known ((x, sig) :: obsd) stmt = true
    | _ => True := by
  cases stmt with
  | observeProperty h l s => simp [decision, stmtReadOk]
  | exec r =>
    cases r <;> simp only [decision, stmtReadOk, readOk]
    exact readDecision_readOk deps known obsd _ _
  | assign l r =>
    cases r <;> simp only [decision, stmtReadOk, readOk]
    exact readDecision_readOk deps known obsd _ _

theorem coveredStmts_cons (deps : List (String × MethodInfo)) (known : List (Option String))
    (obsd : List (Nat × MethodInfo)) (stmt : Statement) (rest : List Statement)
    (h1 : stmtReadOk deps known obsd stmt = true)
    (h2 : ∀ obsd', coveredStmts deps (nextLocals known stmt) obsd' rest = true) :
    coveredStmts deps known obsd (stmt :: rest) = true := by
  cases stmt with
  | observeProperty h l s => simpa [coveredStmts, nextLocals] using h2 _
  | exec r => simp only [coveredStmts, Bool.and_eq_true]; exact ⟨h1, by simpa [nextLocals] using h2 _⟩
  | assign l r => simp only [coveredStmts, Bool.and_eq_true]; exact ⟨h1, by simpa [nextLocals] using h2 _⟩

theorem stmtReadOk_observe_cons (deps : List (String × MethodInfo)) (known : List (Option String))
    (obsd : List (Nat × MethodInfo)) (stmt : Statement) (rest : List Statement) (h x : Nat) (sig : MethodInfo)
    (h1 : stmtReadOk deps known ((x, sig) :: obsd) stmt = true)
    (h2 : ∀ obsd', coveredStmts deps (nextLocals known stmt) obsd' rest = true) :
    coveredStmts deps known obsd (.observeProperty h x sig :: stmt :: rest) = true := by
  simp only [coveredStmts]
  exact coveredStmts_cons deps known _ stmt rest h1 h2

theorem annotate_covered (deps : List (String × MethodInfo)) (start : Nat) :
    ∀ (stmts : List Statement) (locals : List (Option String)) (line k : Nat) (obsd : List (Nat × MethodInfo)),
      (analyzeBlock.scan locals line stmts).2.2.1 = [] → (analyzeBlock.scan locals line stmts).2.2.2 = none →
      (∀ e ∈ (analyzeBlock.scan locals line stmts).2.1, e ∈ deps) →
      coveredStmts deps locals obsd (annotate start locals k stmts) = true
  | [], _, _, _, _, _, _, _ => by simp [annotate, coveredStmts]
  | stmt :: rest, locals, line, k, obsd, hg, hp, hd => by
    rw [scan_cons] at hg hp hd
    simp only [List.append_eq_nil_iff, Option.or_eq_none_iff] at hg hp
    have ih := fun k obsd' => annotate_covered deps start rest (nextLocals locals stmt) (line + 1) k obsd' hg.2 hp.2
      (fun e he => hd e (List.mem_append_right _ he))
    have hdec := decision_readOk deps locals obsd stmt
    cases hdc : decision locals stmt with
    | nothing =>
      rw [hdc] at hdec
      simp only [annotate, hdc]; exact coveredStmts_cons deps locals obsd stmt _ hdec (ih k)
    | dep n sig =>
      rw [hdc] at hdec
      have : (n, sig) ∈ deps := hd _ (by simp [hdc, Decision.out])
      simp only [annotate, hdc]; exact coveredStmts_cons deps locals obsd stmt _ (hdec this) (ih k)
    | observe x sig =>
      rw [hdc] at hdec
      simp only [annotate, hdc]
      exact stmtReadOk_observe_cons deps locals obsd stmt _ _ x sig hdec (ih (k + 1))
    | diag m => simp [hdc, Decision.out] at hg
    | panic m => simp [hdc, Decision.out] at hp

theorem annotate_obs (start : Nat) : ∀ (stmts : List Statement) (locals : List (Option String)) (line k : Nat),
    (∀ s ∈ stmts, stmtObs s = []) →
    ((annotate start locals k stmts).flatMap stmtObs).map (·.1) =
      List.range' (start + k) (analyzeBlock.scan locals line stmts).1.length
  | [], _, _, _, _ => by simp [annotate, scan_nil]
  | stmt :: rest, locals, line, k, hno => by
    rw [scan_cons]
    have hs : stmtObs stmt = [] := hno stmt List.mem_cons_self
    have ih := fun k => annotate_obs start rest (nextLocals locals stmt) (line + 1) k
      (fun s hs => hno s (List.mem_cons_of_mem _ hs))
    cases hdc : decision locals stmt with
    | observe x sig =>
      have e1 : annotate start locals k (stmt :: rest) =
          .observeProperty (start + k) x sig :: stmt :: annotate start (nextLocals locals stmt) (k + 1) rest := by
        simp [annotate, hdc]
      have e2 : stmtObs (.observeProperty (start + k) x sig) = [(start + k, sig)] := rfl
      rw [e1]
      simp only [List.flatMap_cons, hs, e2, List.nil_append, List.map_cons, ih (k + 1),
        Decision.out, List.cons_append, List.length_cons, List.range'_succ, Nat.add_assoc]
    | nothing => simp [annotate, hdc, Decision.out, hs, ih k]
    | dep n sig => simp [annotate, hdc, Decision.out, hs, ih k]
    | diag m => simp [annotate, hdc, Decision.out, hs, ih k]
    | panic m => simp [annotate, hdc, Decision.out, hs, ih k]

/-- a statement whose decision is a diagnostic: the diagnostic is reported -/
theorem scan_diag : ∀ (stmts : List Statement) (locals : List (Option String)) (line : Nat) (s : Statement) (m : String),
    s ∈ stmts → (∀ locals', decision locals' s = .diag m) → m ∈ (analyzeBlock.scan locals line stmts).2.2.1
  | [], _, _, _, _, h, _ => by simp at h
  | stmt :: rest, locals, line, s, m, h, hd => by
    rw [scan_cons]
    simp only [List.mem_append]
    rcases List.mem_cons.mp h with e | h
    · subst e; left; simp [hd locals, Decision.out]
    · right; exact scan_diag rest _ _ s m h hd

/-! ### the fold over the blocks -/

abbrev Acc := List BasicBlock × List (String × MethodInfo) × List String × Nat × Option String

def pdStep (n : Nat) (acc : Acc) (b : BasicBlock) : Acc :=
  let r := analyzeBlock b.statements n acc.2.2.2.1
  (acc.1 ++ [{ b with statements := r.1 }], acc.2.1 ++ r.2.1, acc.2.2.1 ++ r.2.2.1, r.2.2.2.1, acc.2.2.2.2.or r.2.2.2.2)

theorem apd_eq (code : CodeBody) :
    analyzePropertyDependency code =
      let r := code.blocks.foldl (pdStep code.locals.length) ([], code.staticDeps, [], code.observerCount, none)
      ({ code with blocks := r.1, staticDeps := r.2.1, observerCount := r.2.2.2.1 }, r.2.2.1, r.2.2.2.2) := rfl

theorem fold_facts (n : Nat) : ∀ (bs : List BasicBlock) (B0 : List BasicBlock) (D0 : List (String × MethodInfo))
    (G0 : List String) (o0 : Nat) (P0 : Option String),
    ∃ B D G N P, bs.foldl (pdStep n) (B0, D0, G0, o0, P0) = (B0 ++ B, D0 ++ D, G0 ++ G, o0 + N, P0.or P) ∧
      (G = [] → P = none → ∀ deps, (∀ e ∈ D, e ∈ deps) →
        ∀ b ∈ B, coveredStmts deps (List.replicate n none) [] b.statements = true) ∧
      ((∀ b ∈ bs, ∀ s ∈ b.statements, stmtObs s = []) → (B.flatMap blockObs).map (·.1) = List.range' o0 N) ∧
      (∀ b ∈ bs, ∀ m ∈ (analyzeBlock.scan (List.replicate n none) 0 b.statements).2.2.1, m ∈ G)
  | [], B0, D0, G0, o0, P0 => ⟨[], [], [], 0, none, by simp, by simp, by simp, by simp⟩
  | b :: bs, B0, D0, G0, o0, P0 => by
    let r := analyzeBlock.scan (List.replicate n none) 0 b.statements
    let b' : BasicBlock := { b with statements := annotate o0 (List.replicate n none) 0 b.statements }
    obtain ⟨B, D, G, N, P, he, f1, f2, f3⟩ :=
      fold_facts n bs (B0 ++ [b']) (D0 ++ r.2.1) (G0 ++ r.2.2.1) (o0 + r.1.length) (P0.or r.2.2.2)
    refine ⟨b' :: B, r.2.1 ++ D, r.2.2.1 ++ G, r.1.length + N, r.2.2.2.or P, ?_, ?_, ?_, ?_⟩
    · rw [List.foldl_cons]
      have : pdStep n (B0, D0, G0, o0, P0) b = (B0 ++ [b'], D0 ++ r.2.1, G0 ++ r.2.2.1, o0 + r.1.length, P0.or r.2.2.2) := by
        simp only [pdStep, analyzeBlock_eq]; rfl
      rw [this, he]
      simp [List.append_assoc, Nat.add_assoc, Option.or_assoc]
    · intro hG hP deps hD x hx
      simp only [List.append_eq_nil_iff] at hG
      have hP' : r.2.2.2 = none ∧ P = none := by simpa [Option.or_eq_none_iff] using hP
      rcases List.mem_cons.mp hx with e | hx
      · subst e
        exact annotate_covered deps o0 b.statements _ 0 0 [] hG.1 hP'.1 (fun e he => hD e (List.mem_append_left _ he))
      · exact f1 hG.2 hP'.2 deps (fun e he => hD e (List.mem_append_right _ he)) x hx
    · intro hno
      have h1 := annotate_obs o0 b.statements (List.replicate n none) 0 0 (hno b List.mem_cons_self)
      have h2 := f2 (fun x hx => hno x (List.mem_cons_of_mem _ hx))
      rw [List.flatMap_cons, List.map_append, h2]
      show ((annotate o0 (List.replicate n none) 0 b.statements).flatMap stmtObs).map (·.1) ++ _ = _
      rw [h1, Nat.add_zero, List.range'_append_1]
    · intro x hx m hm
      rcases List.mem_cons.mp hx with e | hx
      · subst e; exact List.mem_append_left _ hm
      · exact List.mem_append_right _ (f3 x hx m hm)

end QV.Proofs.PropDep
