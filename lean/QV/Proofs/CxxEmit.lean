/-
  Helper lemmas for C16: freshness of the names issued during `UiSupportCode::build`, tagged function names,
  the guard arithmetic and the observer allocation.
-/
import QV.Model.CxxEmit
import QV.Props.C10

namespace QV.Proofs.CxxEmit
open QV.Model.Names QV.Model.CxxEmit

/-! ### names issued by a run of the generator -/

/-- `names` were issued between `g` and `g'`: pairwise distinct, new, and exactly what was added -/
def Issued (g g' : Gen) (names : List Str) : Prop :=
  names.Nodup ∧ (∀ x ∈ names, x ∉ g.usedNames) ∧ (∀ x, x ∈ g'.usedNames ↔ x ∈ names ∨ x ∈ g.usedNames)

theorem Issued.nil (g : Gen) : Issued g g [] := by
  refine ⟨List.nodup_nil, ?_, ?_⟩ <;> simp

theorem Issued.single {g g' : Gen} {pfx name : Str} (h : g.generate pfx = some (name, g')) :
    Issued g g' [name] := by
  obtain ⟨h1, h2⟩ := QV.Props.C10.generate_fresh h
  refine ⟨by simp, ?_, ?_⟩
  · intro x hx; simp at hx; subst hx; exact h1
  · intro x; rw [h2]; simp

theorem Issued.append {g g1 g2 : Gen} {a b : List Str} (h1 : Issued g g1 a) (h2 : Issued g1 g2 b) :
    Issued g g2 (a ++ b) := by
  obtain ⟨na, fa, ma⟩ := h1
  obtain ⟨nb, fb, mb⟩ := h2
  refine ⟨?_, ?_, ?_⟩
  · rw [List.nodup_append]
    refine ⟨na, nb, ?_⟩
    intro x hxa y hyb hxy
    subst hxy
    exact fb x hyb ((ma x).2 (Or.inl hxa))
  · intro x hx
    rcases List.mem_append.1 hx with h | h
    · exact fa x h
    · intro hg
      exact fb x h ((ma x).2 (Or.inr hg))
  · intro x
    rw [mb x, ma x, List.mem_append]
    constructor
    · rintro (h | h | h)
      · exact Or.inl (Or.inr h)
      · exact Or.inl (Or.inl h)
      · exact Or.inr h
    · rintro ((h | h) | h)
      · exact Or.inr (Or.inl h)
      · exact Or.inl h
      · exact Or.inr (Or.inr h)

theorem Issued.perm {g g' : Gen} {a b : List Str} (h : Issued g g' a) (p : a.Perm b) : Issued g g' b := by
  obtain ⟨na, fa, ma⟩ := h
  refine ⟨p.nodup_iff.1 na, ?_, ?_⟩
  · intro x hx; exact fa x (p.mem_iff.2 hx)
  · intro x; rw [ma x, p.mem_iff]

def groupNames (g : List Item) : List Str := g.map (·.name)

theorem genGroup_issued (objCap : Str) :
    ∀ (nodes : List PNode) (stack : List Str) (g g' : Gen) (items : List Item),
      genGroup objCap nodes stack g = some (items, g') →
      Issued g g' (groupNames items) ∧ items.length = nodes.length := by
  intro nodes
  induction nodes with
  | nil =>
    intro stack g g' items h
    simp [genGroup] at h
    obtain ⟨rfl, rfl⟩ := h
    exact ⟨Issued.nil g, rfl⟩
  | cons nd rest ih =>
    intro stack g g' items h
    simp only [genGroup] at h
    split at h
    · exact absurd h (by simp)
    · rename_i name g1 hg
      split at h
      · exact absurd h (by simp)
      · rename_i its g2 hrest
        simp only [Option.some.injEq, Prod.mk.injEq] at h
        obtain ⟨rfl, rfl⟩ := h
        obtain ⟨i2, l2⟩ := ih _ _ _ _ hrest
        refine ⟨?_, by simp [l2]⟩
        have := Issued.append (Issued.single hg) i2
        simpa [groupNames] using this

theorem genGroups_issued (objCap : Str) :
    ∀ (grps : List (List PNode)) (g g' : Gen) (out : List (List Item)),
      genGroups objCap grps g = some (out, g') → Issued g g' (out.flatMap groupNames) := by
  intro grps
  induction grps with
  | nil =>
    intro g g' out h
    simp [genGroups] at h
    obtain ⟨rfl, rfl⟩ := h
    exact Issued.nil g
  | cons grp rest ih =>
    intro g g' out h
    simp only [genGroups] at h
    split at h
    · exact absurd h (by simp)
    · rename_i items g1 hg
      split at h
      · exact absurd h (by simp)
      · rename_i more g2 hrest
        simp only [Option.some.injEq, Prod.mk.injEq] at h
        obtain ⟨rfl, rfl⟩ := h
        have := Issued.append (genGroup_issued objCap _ _ _ _ _ hg).1 (ih _ _ _ hrest)
        simpa [List.flatMap_cons] using this

theorem genCallbacks_issued (objCap : Str) :
    ∀ (cbs : List Callback) (g g' : Gen) (out : List (Str × Callback)),
      genCallbacks objCap cbs g = some (out, g') → Issued g g' (out.map (·.1)) := by
  intro cbs
  induction cbs with
  | nil =>
    intro g g' out h
    simp [genCallbacks] at h
    obtain ⟨rfl, rfl⟩ := h
    exact Issued.nil g
  | cons cb rest ih =>
    intro g g' out h
    simp only [genCallbacks] at h
    split at h
    · exact absurd h (by simp)
    · rename_i name g1 hg
      split at h
      · exact absurd h (by simp)
      · rename_i more g2 hrest
        simp only [Option.some.injEq, Prod.mk.injEq] at h
        obtain ⟨rfl, rfl⟩ := h
        have := Issued.append (Issued.single hg) (ih _ _ _ hrest)
        simpa using this

def namesOf (bs : List (List Item)) (cs : List (Str × Callback)) : List Str :=
  bs.flatMap groupNames ++ cs.map (·.1)

theorem namesOf_perm (a a' : List (List Item)) (c c' : List (Str × Callback)) :
    (namesOf a c ++ namesOf a' c').Perm (namesOf (a ++ a') (c ++ c')) := by
  simp only [namesOf, List.flatMap_append, List.map_append, List.append_assoc]
  apply List.Perm.append_left
  rw [← List.append_assoc, ← List.append_assoc]
  exact List.Perm.append_right _ List.perm_append_comm

theorem genObjects_issued :
    ∀ (objs : List Obj) (g g' : Gen) (bs : List (List Item)) (cs : List (Str × Callback)),
      genObjects objs g = some (bs, cs, g') → Issued g g' (namesOf bs cs) := by
  intro objs
  induction objs with
  | nil =>
    intro g g' bs cs h
    simp [genObjects] at h
    obtain ⟨rfl, rfl, rfl⟩ := h
    exact Issued.nil g
  | cons o rest ih =>
    intro g g' bs cs h
    simp only [genObjects] at h
    split at h
    · exact absurd h (by simp)
    · rename_i b1 g1 h1
      split at h
      · exact absurd h (by simp)
      · rename_i c1 g2 h2
        split at h
        · exact absurd h (by simp)
        · rename_i b' c' g3 h3
          simp only [Option.some.injEq, Prod.mk.injEq] at h
          obtain ⟨rfl, rfl, rfl⟩ := h
          have i1 := Issued.append (genGroups_issued _ _ _ _ _ h1) (genCallbacks_issued _ _ _ _ _ h2)
          have i2 := Issued.append i1 (ih _ _ _ _ h3)
          exact Issued.perm i2 (namesOf_perm b1 b' c1 c')

/-! ### tagged function names -/

def tags : List Str := [sSetup, sUpdate, sEval, sOn]

theorem tagged_inj {t t' n n' : Str} (ht : t ∈ tags) (ht' : t' ∈ tags) (h : t ++ n = t' ++ n') :
    t = t' ∧ n = n' := by
  simp only [tags, List.mem_cons, List.not_mem_nil, or_false] at ht ht'
  rcases ht with rfl | rfl | rfl | rfl <;> rcases ht' with rfl | rfl | rfl | rfl <;>
    first
    | exact ⟨rfl, List.append_cancel_left h⟩
    | (exfalso; revert h; simp [sSetup, sUpdate, sEval, sOn])

/-- a unit of emission: the names it owns and the member functions it defines -/
structure EmitUnit where
  names : List Str
  defs : List Str

def EmitUnit.Good (u : EmitUnit) : Prop :=
  (u.names.Nodup → u.defs.Nodup) ∧ ∀ x ∈ u.defs, ∃ t ∈ tags, ∃ n ∈ u.names, x = t ++ n

theorem units_nodup : ∀ (us : List EmitUnit), (∀ u ∈ us, u.Good) → (us.flatMap (·.names)).Nodup →
    (us.flatMap (·.defs)).Nodup := by
  intro us
  induction us with
  | nil => intro _ _; simp
  | cons u rest ih =>
    intro hg hn
    simp only [List.flatMap_cons] at hn ⊢
    rw [List.nodup_append] at hn ⊢
    obtain ⟨hu, hrest, hdis⟩ := hn
    refine ⟨(hg u (by simp)).1 hu, ih (fun v hv => hg v (by simp [hv])) hrest, ?_⟩
    intro x hx y hy hxy
    subst hxy
    obtain ⟨t, ht, n, hn', rfl⟩ := (hg u (by simp)).2 x hx
    obtain ⟨v, hv, hyv⟩ := List.mem_flatMap.1 hy
    obtain ⟨t', ht', n', hn'', heq⟩ := (hg v (by simp [hv])).2 _ hyv
    obtain ⟨_, rfl⟩ := tagged_inj ht ht' heq
    exact hdis n hn' n (List.mem_flatMap.2 ⟨v, hv, hn''⟩) rfl

theorem map_tag_nodup {t : Str} {l : List Str} (h : l.Nodup) : (l.map (t ++ ·)).Nodup := by
  induction l with
  | nil => simp
  | cons a rest ih =>
    simp only [List.nodup_cons, List.map_cons, List.mem_map] at h ⊢
    refine ⟨?_, ih h.2⟩
    rintro ⟨b, hb, heq⟩
    exact h.1 (List.append_cancel_left heq ▸ hb)

def bindingUnit (g : List Item) : EmitUnit := { names := groupNames g, defs := bindingDefs g }
def callbackUnit (c : Str × Callback) : EmitUnit := { names := [c.1], defs := callbackDefs c }

theorem bindingUnit_good (g : List Item) : (bindingUnit g).Good := by
  cases g with
  | nil => exact ⟨fun _ => by simp [bindingUnit, bindingDefs], fun x hx => by simp [bindingUnit, bindingDefs] at hx⟩
  | cons it rest =>
    constructor
    · intro hn
      have hn' : (groupNames (it :: rest)).Nodup := hn
      simp only [bindingUnit, bindingDefs]
      have hev : ((it :: rest).map (fun x => sEval ++ x.name)).Nodup := by
        have := map_tag_nodup (t := sEval) hn'
        simpa [groupNames, List.map_map, Function.comp_def] using this
      rw [List.nodup_append]
      refine ⟨?_, hev, ?_⟩
      · simp only [List.nodup_cons, List.mem_cons, List.not_mem_nil, or_false, not_false_eq_true, List.nodup_nil,
          and_true]
        intro h
        exact absurd (tagged_inj (by simp [tags]) (by simp [tags]) h).1 (by simp [sSetup, sUpdate])
      · intro x hx y hy hxy
        subst hxy
        obtain ⟨z, _, hz⟩ := List.mem_map.1 hy
        simp only [List.mem_cons, List.not_mem_nil, or_false] at hx
        rcases hx with rfl | rfl
        · exact absurd (tagged_inj (by simp [tags]) (by simp [tags]) hz).1 (by simp [sSetup, sEval])
        · exact absurd (tagged_inj (by simp [tags]) (by simp [tags]) hz).1 (by simp [sUpdate, sEval])
    · intro x hx
      simp only [bindingUnit, bindingDefs, List.mem_append, List.mem_cons, List.not_mem_nil, or_false,
        List.mem_map] at hx
      rcases hx with (rfl | rfl) | ⟨z, hz, rfl⟩
      · exact ⟨sSetup, by simp [tags], it.name, by simp [bindingUnit, groupNames], rfl⟩
      · exact ⟨sUpdate, by simp [tags], it.name, by simp [bindingUnit, groupNames], rfl⟩
      · refine ⟨sEval, by simp [tags], z.name, ?_, rfl⟩
        simp only [bindingUnit, groupNames, List.mem_map]
        exact ⟨z, by simpa using hz, rfl⟩

theorem callbackUnit_good (c : Str × Callback) : (callbackUnit c).Good := by
  constructor
  · intro _
    simp only [callbackUnit, callbackDefs, List.nodup_cons, List.mem_cons, List.not_mem_nil, or_false,
      not_false_eq_true, List.nodup_nil, and_true]
    intro h
    exact absurd (tagged_inj (by simp [tags]) (by simp [tags]) h).1 (by simp [sSetup, sOn])
  · intro x hx
    simp only [callbackUnit, callbackDefs, List.mem_cons, List.not_mem_nil, or_false] at hx
    rcases hx with rfl | rfl
    · exact ⟨sSetup, by simp [tags], c.1, by simp [callbackUnit], rfl⟩
    · exact ⟨sOn, by simp [tags], c.1, by simp [callbackUnit], rfl⟩

/-! ### guard arithmetic -/

theorem guardWord_eq (i : Nat) : guardWord i = i / 32 := by
  simp [guardWord, Nat.shiftRight_eq_div_pow]

theorem guardBit_eq (i : Nat) : guardBit i = i % 32 := by
  have := Nat.and_two_pow_sub_one_eq_mod i 5
  simpa [guardBit] using this

/-! ### observers -/

theorem allocObservers_spec : ∀ (blocks : List Nat) (count : Nat),
    (allocObservers count blocks).2 = count + blocks.sum ∧
    ∀ ids ∈ (allocObservers count blocks).1, ∀ i ∈ ids, count ≤ i ∧ i < count + blocks.sum := by
  intro blocks
  induction blocks with
  | nil => intro count; simp [allocObservers]
  | cons k rest ih =>
    intro count
    obtain ⟨h1, h2⟩ := ih (count + k)
    simp only [allocObservers, List.sum_cons]
    refine ⟨by omega, ?_⟩
    intro ids hids i hi
    simp only [List.mem_cons] at hids
    rcases hids with rfl | hids
    · have := List.mem_range'_1.1 hi
      omega
    · have := h2 ids hids i hi
      omega

end QV.Proofs.CxxEmit
