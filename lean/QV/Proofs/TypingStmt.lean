/-
  C05 (b), statements: if the walk accepts a statement, the specification's statement checker accepts it — every
  expression in it is typed, declarations follow D14, conditions are bool, `case` values compare with the
  discriminant, `break` sits in a switch — and the walk's map of local names agrees with the specification's scope
  afterwards: JavaScript block scoping (D15) after the repairs a011e08 (if branches) and 2a702d4 (switch clauses).
-/
import QV.Proofs.TypingSound2

set_option linter.unusedSimpArgs false
set_option linter.unusedVariables false

namespace QV.Proofs.TypingSound
open QV.Model QV.Spec.Typing QV.Proofs.TypingRules QV.Proofs.TypingConst

/-! ### more small steps -/

theorem run_attempt {α} (x : W α) (s : WState) : run (attempt x) s = (some (run x s).1, (run x s).2) := rfl

@[simp] theorem run_setLocals (l : Locals) (s : WState) : run (setLocals l) s = (some (), { s with locals := l }) := rfl

@[simp] theorem run_failure {α} (s : WState) : run (failure : W α) s = (none, s) := rfl

theorem consumeLocal_ok {r : Except ExprError (Nat × Builder)} {s s' : WState} {n : Nat}
    (h : run (consumeLocal r) s = (some n, s')) : ∃ b', r = .ok (n, b') ∧ s' = { s with b := b' } := by
  cases r with
  | error e => simp [consumeLocal] at h
  | ok p =>
    rcases p with ⟨n', b'⟩
    simp only [consumeLocal] at h
    obtain ⟨x, s1, h1, h2⟩ := bind_ok h
    simp at h1 h2
    obtain ⟨rfl, rfl⟩ := h1
    exact ⟨b', by rw [h2.1], h2.2.symm⟩

theorem visitLocalDeclaration_ok {b b' : Builder} {ty : TypeKind} {n : Nat}
    (h : visitLocalDeclaration b ty = .ok (n, b')) :
    ty ≠ .void ∧ n = b.code.locals.length ∧ b'.code.locals = b.code.locals ++ [ty] := by
  unfold visitLocalDeclaration Builder.alloca at h
  by_cases hv : ty = .void
  · simp [hv] at h
  · simp [hv] at h
    obtain ⟨rfl, rfl⟩ := h
    exact ⟨hv, rfl, rfl⟩

/-! ### the name map and the scope under a declaration -/

theorem find_filter_ne (m : Locals) (name n : String) :
    (m.filter (·.1 ≠ name)).find? (·.1 = n) = if n = name then none else m.find? (·.1 = n) := by
  induction m with
  | nil => simp
  | cons x xs ih =>
    by_cases hx : x.1 = name
    · simp only [List.filter_cons, hx, ne_eq, not_true_eq_false, decide_false, Bool.false_eq_true, if_false, ih]
      by_cases hn : n = name
      · simp [hn]
      · have : ¬ x.1 = n := by rw [hx]; exact fun e => hn e.symm
        simp [hn, List.find?_cons, this]
    · simp only [List.filter_cons, ne_eq, hx, not_false_eq_true, decide_true, if_true, List.find?_cons]
      by_cases hxn : x.1 = n
      · have : ¬ n = name := by rw [← hxn]; exact hx
        simp [hxn, this]
      · simp only [hxn, decide_false, Bool.false_eq_true, if_false]
        exact ih

theorem get_insert (m : Locals) (name n : String) (v : Nat × DeclKind) :
    (m.insert name v).get? n = if n = name then some v else m.get? n := by
  unfold Locals.insert Locals.get?
  by_cases hn : n = name
  · subst hn; simp [List.find?_cons]
  · have : ¬ name = n := fun e => hn e.symm
    simp only [List.find?_cons, this, decide_false, find_filter_ne, hn, if_false]

theorem find_declare (sc : Scope) (name n : String) (t : TypeKind) (k : DeclKind) :
    (declare sc name t k).find n = if n = name then some (t, k) else sc.find n := by
  unfold declare Scope.find
  by_cases hn : n = name
  · subst hn; simp [List.find?_cons]
  · have : ¬ name = n := fun e => hn e.symm
    simp [List.find?_cons, this, hn]

/-- declaring a local: the walk's map and the specification's scope stay in agreement -/
theorem Inv.declare {s : WState} {sc : Scope} (h : Inv s sc) (name : String) (ty : TypeKind) (kind : DeclKind)
    (b' : Builder) (hb : b'.code.locals = s.b.code.locals ++ [ty]) (dg : List String) (uu : List Nat) :
    Inv { b := b', diags := dg, locals := s.locals.insert name (s.b.code.locals.length, kind), userUninit := uu }
      (QV.Spec.Typing.declare sc name ty kind) := by
  intro n
  simp only [get_insert, find_declare]
  by_cases hn : n = name
  · simp only [hn, if_true]
    exact ⟨ty, by simp [hb], rfl⟩
  · simp only [hn, if_false]
    have := h n
    cases hg : s.locals.get? n with
    | none => simpa [hg] using this
    | some p =>
      rcases p with ⟨l, k⟩
      simp only [hg] at this ⊢
      obtain ⟨t, h1, h2⟩ := this
      refine ⟨t, ?_, h2⟩
      rw [hb, List.getElem?_append_left (List.getElem?_eq_some_iff.1 h1).1]
      exact h1

/-- same name map, grown builder -/
theorem Inv.of_eq {s s' : WState} {sc : Scope} (h : Inv s sc) (hl : s'.locals = s.locals) (hg : Grows s.b s'.b) : Inv s' sc :=
  h.ext ⟨hl, hg⟩

/-! ### declarations -/

theorem sound_decls (c : Ctx) (kind : DeclKind) : (ds : List Decl) → ∀ s s' sc, Inv s sc →
    run (walkDecls c kind ds) s = (some (), s') →
    Grows s.b s'.b ∧ ∃ sc', checkDecls (worldOf c) kind sc ds = .ok sc' ∧ Inv s' sc'
  | [], s, s', sc, hinv, h => by
    simp [walkDecls] at h
    subst h
    exact ⟨Grows.refl _, sc, rfl, hinv⟩
  | d :: rest, s, s', sc, hinv, h => by
    simp only [walkDecls] at h
    obtain ⟨rvalue, s1, h1, h2⟩ := bind_ok h
    -- the initial value
    have hinit : Ext s s1 ∧ (match d.value with
        | some e => ∃ v, rvalue = some v ∧ typeOf (worldOf c) sc e = .ok v.typeDesc
        | none => rvalue = none ∧ kind ≠ .const_) := by
      cases hv : d.value with
      | some e =>
        simp only [hv] at h1 ⊢
        obtain ⟨v, s1', h3, h4⟩ := bind_ok h1
        obtain ⟨hext, ht⟩ := rvalue_of_expr (sound_expr c e) s s1' sc v hinv h3
        simp at h4
        obtain ⟨rfl, rfl⟩ := h4
        exact ⟨hext, v, rfl, ht⟩
      | none =>
        simp only [hv] at h1 ⊢
        by_cases hk : kind = .const_
        · simp [hk] at h1
        · simp [hk] at h1
          obtain ⟨rfl, rfl⟩ := h1
          exact ⟨Ext.refl _, rfl, hk⟩
    obtain ⟨hext1, hval⟩ := hinit
    obtain ⟨ty, s2, h5, h6⟩ := bind_ok h2
    -- the declared type
    have hty : s2 = s1 ∧ (match d.ty with
        | some a => annotated c.env a = .ok ty
        | none => ∃ v, rvalue = some v ∧ concreteOf v.typeDesc = some ty) := by
      cases ha : d.ty with
      | some a =>
        simp only [ha] at h5 ⊢
        exact processTypeAnnotation_ok h5
      | none =>
        simp only [ha] at h5 ⊢
        cases hr : rvalue with
        | none => simp [hr] at h5
        | some v =>
          simp only [hr, toConcreteType_eq] at h5
          cases hc : concreteOf v.typeDesc with
          | none => simp [hc] at h5
          | some t =>
            simp [hc] at h5
            obtain ⟨rfl, rfl⟩ := h5
            exact ⟨rfl, v, rfl, hc⟩
    obtain ⟨rfl, htyp⟩ := hty
    obtain ⟨b0, s3, h7, h8⟩ := bind_ok h6
    simp at h7
    obtain ⟨rfl, rfl⟩ := h7
    obtain ⟨l, s4, h9, h10⟩ := bind_ok h8
    obtain ⟨b1, h11, rfl⟩ := consumeLocal_ok h9
    obtain ⟨hnv, rfl, hb1⟩ := visitLocalDeclaration_ok h11
    obtain ⟨ls, s5, h12, h13⟩ := bind_ok h10
    simp at h12
    obtain ⟨rfl, rfl⟩ := h12
    obtain ⟨u, s6, h14, h15⟩ := bind_ok h13
    simp at h14
    have hinv1 := hinv.ext hext1
    have hinv6 : Inv s6 (QV.Spec.Typing.declare sc d.name ty kind) := by
      rw [← h14]
      exact hinv1.declare d.name ty kind b1 hb1 _ _
    have hg6 : Grows s2.b s6.b := by
      rw [← h14]; exact ⟨[ty], hb1⟩
    have hl6 : s6.b.code.locals[s2.b.code.locals.length]? = some ty := by
      rw [← h14]; simp [hb1]
    -- the specification's verdict on this declarator
    cases hr : rvalue with
    | none =>
      simp only [hr] at h15
      obtain ⟨u2, s7, h16, h17⟩ := bind_ok h15
      have hs7 : Inv s7 (QV.Spec.Typing.declare sc d.name ty kind) ∧ Grows s6.b s7.b := by
        have : s7 = { s6 with userUninit := s6.userUninit ++ [s2.b.code.locals.length] } := by
          have := congrArg Prod.snd h16
          simpa [run, modify, modifyGet, MonadStateOf.modifyGet, StateT.modifyGet, OptionT.lift, liftM, monadLift, MonadLift.monadLift,
            OptionT.mk, bind, StateT.bind, pure, StateT.pure, getModify] using this.symm
        rw [this]
        exact ⟨hinv6.of_eq rfl (Grows.refl _), Grows.refl _⟩
      obtain ⟨hg, sc', hsc', hinv'⟩ := sound_decls c kind rest s7 s' _ hs7.1 h17
      refine ⟨(hext1.grows.trans hg6).trans (hs7.2.trans hg), sc', ?_, hinv'⟩
      have hdecl : checkDecl (worldOf c) sc kind d = .ok (QV.Spec.Typing.declare sc d.name ty kind) := by
        unfold checkDecl
        cases hv : d.value with
        | some e => simp only [hv] at hval; obtain ⟨v, hv1, _⟩ := hval; rw [hr] at hv1; cases hv1
        | none =>
          simp only [hv] at hval
          cases ha : d.ty with
          | none => simp only [ha] at htyp; obtain ⟨v, hv1, _⟩ := htyp; rw [hr] at hv1; cases hv1
          | some a =>
            simp only [ha] at htyp
            simp [hval.2, worldOf_env, htyp, hnv]
      simp only [checkDecls, hdecl, hsc']
    | some v =>
      simp only [hr] at h15
      obtain ⟨bq, s8, h18, h19⟩ := bind_ok h15
      simp at h18
      obtain ⟨rfl, rfl⟩ := h18
      obtain ⟨u3, s9, h20, h17⟩ := bind_ok h19
      obtain ⟨b2, h22, rfl⟩ := consume_ok h20
      obtain ⟨has, _, hg2⟩ := visitLocalAssignment_ok hl6 h22
      have hinv9 := hinv6.of_eq (s' := { s6 with b := b2 }) rfl hg2
      obtain ⟨hg, sc', hsc', hinv'⟩ := sound_decls c kind rest _ s' _ hinv9 h17
      refine ⟨(hext1.grows.trans hg6).trans (hg2.trans hg), sc', ?_, hinv'⟩
      have hdecl : checkDecl (worldOf c) sc kind d = .ok (QV.Spec.Typing.declare sc d.name ty kind) := by
        unfold checkDecl
        cases hv : d.value with
        | none => simp only [hv] at hval; rw [hr] at hval; cases hval.1
        | some e =>
          simp only [hv] at hval
          obtain ⟨v', hv1, hte⟩ := hval
          rw [hr] at hv1
          cases hv1
          cases ha : d.ty with
          | none =>
            simp only [ha] at htyp
            obtain ⟨v'', hv2, hco⟩ := htyp
            rw [hr] at hv2
            cases hv2
            simp [hte, Except.map, hco, hnv, worldOf_env, has]
          | some a =>
            simp only [ha] at htyp
            simp [hte, Except.map, worldOf_env, htyp, hnv, has]
      simp only [checkDecls, hdecl, hsc']


/-! ### the statement visitors do not touch the table of locals -/

@[simp] theorem locals_visitExpressionStatement (b : Builder) (v : Operand) :
    (visitExpressionStatement b v).code.locals = b.code.locals := by
  simp [visitExpressionStatement]

@[simp] theorem locals_visitIfStatement (b : Builder) (cnd : Operand) (a x : Nat) (y : Option Nat) :
    (visitIfStatement b cnd a x y).code.locals = b.code.locals := by
  unfold visitIfStatement
  cases y <;> simp

@[simp] theorem locals_visitBreakStatement (b : Builder) (l : Nat) : (visitBreakStatement b l).code.locals = b.code.locals := by
  simp [visitBreakStatement]

@[simp] theorem locals_visitReturnStatement (b : Builder) (v : Operand) : (visitReturnStatement b v).code.locals = b.code.locals := by
  simp [visitReturnStatement]

theorem locals_connect (lastBodyRef : Nat) (defaultStart : Option Nat) (starts : List Nat) :
    ∀ (xs : List ((Operand × Nat) × Nat)) (b : Builder) (i : Nat),
      (visitSwitchStatement.connect lastBodyRef defaultStart starts b i xs).code.locals = b.code.locals
  | [], b, i => by simp [visitSwitchStatement.connect]
  | ((cnd, cr), bs) :: rest, b, i => by
    simp only [visitSwitchStatement.connect]
    rw [locals_connect lastBodyRef defaultStart starts rest]
    simp

theorem locals_foldl_finalize (bodies : List Nat) : ∀ (b : Builder),
    (bodies.foldl (fun b bodyRef => b.finalizeAt bodyRef (.br (bodyRef + 1))) b).code.locals = b.code.locals := by
  induction bodies with
  | nil => intro b; rfl
  | cons x xs ih => intro b; simp only [List.foldl_cons]; rw [ih]; simp

@[simp] theorem locals_visitSwitchStatement (b : Builder) (cc : List (Operand × Nat)) (bodies : List Nat) (dp : Option Nat)
    (hr er : Nat) : (visitSwitchStatement b cc bodies dp hr er).code.locals = b.code.locals := by
  unfold visitSwitchStatement
  simp only [locals_finalizeAt, locals_foldl_finalize, locals_connect]
  repeat' split
  all_goals simp

/-! ### `filter_map` over the clauses: nothing is gained by a failure -/

theorem caseConditions_length (c : Ctx) (left : Operand) : (cl : List (Option Expr × List Stmt)) → ∀ s s' conds,
    run (walkCaseConditions c left cl) s = (some conds, s') → conds.length ≤ (cl.filter (·.1.isSome)).length
  | [], s, s', conds, h => by
    simp [walkCaseConditions] at h
    simp [← h.1]
  | (none, body) :: rest, s, s', conds, h => by
    simp only [walkCaseConditions] at h
    have := caseConditions_length c left rest s s' conds h
    simpa using this
  | (some v, body) :: rest, s, s', conds, h => by
    simp only [walkCaseConditions] at h
    obtain ⟨r, s1, h1, h2⟩ := bind_ok h
    obtain ⟨others, s2, h3, h4⟩ := bind_ok h2
    have := caseConditions_length c left rest s1 s2 others h3
    cases r with
    | none => simp at h4; rw [← h4.1]; simp; omega
    | some x => simp at h4; rw [← h4.1]; simp; omega

theorem bodies_length (c : Ctx) (bl : Option Nat) : (cl : List (Option Expr × List Stmt)) → ∀ s s' bodies,
    run (walkBodies c bl cl) s = (some bodies, s') → bodies.length ≤ cl.length
  | [], s, s', bodies, h => by
    simp [walkBodies] at h
    simp [← h.1]
  | (cv, body) :: rest, s, s', bodies, h => by
    simp only [walkBodies] at h
    obtain ⟨outer, s0, h0, h0'⟩ := bind_ok h
    obtain ⟨ok, s1a, h1, h1'⟩ := bind_ok h0'
    obtain ⟨u, s1, hset, h2⟩ := bind_ok h1'
    cases ok with
    | false =>
      simp only [Bool.false_eq_true, if_false] at h2
      have := bodies_length c bl rest s1 s' bodies h2
      simp; omega
    | true =>
      simp only [if_true] at h2
      obtain ⟨l, s2, h3, h4⟩ := bind_ok h2
      obtain ⟨others, s3, h5, h6⟩ := bind_ok h4
      have := bodies_length c bl rest s2 s3 others h5
      simp at h6
      rw [← h6.1]
      simp; omega


theorem attempt_ok {α} {x : W α} {s s1 : WState} {r : Option α} (h : run (attempt x) s = (some r, s1)) :
    run x s = (r, s1) := by
  rw [run_attempt] at h
  simp at h
  exact Prod.ext h.1 h.2

/-- the `case` values: if none of them failed, each is typed in the scope before the switch and compares with the
    discriminant by `==` (D19) -/
theorem sound_caseConditions (c : Ctx) (left : Operand) : (cl : List (Option Expr × List Stmt)) → ∀ s s' sc conds, Inv s sc →
    run (walkCaseConditions c left cl) s = (some conds, s') →
    conds.length = (cl.filter (·.1.isSome)).length →
    Ext s s' ∧ ∀ e body, (some e, body) ∈ cl → ∃ ct, typeOf (worldOf c) sc e = .ok ct ∧
        (binaryType c.env (.cmp .eq) left.typeDesc ct).isSome = true
  | [], s, s', sc, conds, hinv, h, hlen => by
    simp [walkCaseConditions] at h
    rw [← h.2]
    exact ⟨Ext.refl _, by simp⟩
  | (none, body) :: rest, s, s', sc, conds, hinv, h, hlen => by
    simp only [walkCaseConditions] at h
    obtain ⟨hext, hall⟩ := sound_caseConditions c left rest s s' sc conds hinv h (by simpa using hlen)
    refine ⟨hext, ?_⟩
    intro e b hm
    simp at hm
    exact hall e b hm
  | (some v, body) :: rest, s, s', sc, conds, hinv, h, hlen => by
    simp only [walkCaseConditions] at h
    obtain ⟨r, s1, h1, h2⟩ := bind_ok h
    obtain ⟨others, s2, h3, h4⟩ := bind_ok h2
    have hle := caseConditions_length c left rest s1 s2 others h3
    cases r with
    | none =>
      simp at h4
      rw [← h4.1] at hlen
      simp at hlen
      omega
    | some x =>
      simp at h4
      obtain ⟨rfl, rfl⟩ := h4
      have hx := attempt_ok h1
      obtain ⟨right, s3, h5, h6⟩ := bind_ok hx
      obtain ⟨hext1, ht1⟩ := rvalue_of_expr (sound_expr c v) s s3 sc right hinv h5
      obtain ⟨b0, s4, h7, h8⟩ := bind_ok h6
      simp at h7
      obtain ⟨rfl, rfl⟩ := h7
      obtain ⟨cnd, s5, h9, h10⟩ := bind_ok h8
      obtain ⟨b', h11, rfl⟩ := consume_ok h9
      obtain ⟨hb, hg⟩ := visitBinaryExpression_ok (by intro o hx; cases hx) h11
      obtain ⟨lbl, s6, h12, h13⟩ := bind_ok h10
      have hext3 := markBranchPoint_ok h12
      simp at h13
      obtain ⟨_, rfl⟩ := h13
      have hext : Ext s s6 := (hext1.trans (Ext.setB _ _ hg)).trans hext3
      obtain ⟨hext', hall⟩ := sound_caseConditions c left rest s6 s2 sc others (hinv.ext hext) h3
        (by simp at hlen; omega)
      refine ⟨hext.trans hext', ?_⟩
      intro e b hm
      simp at hm
      rcases hm with ⟨rfl, rfl⟩ | hm
      · exact ⟨_, ht1, by rw [hb]; rfl⟩
      · exact hall e b hm


/-! ### the induction over statements -/

def StmtSound (c : Ctx) (bl : Option Nat) (st : Stmt) : Prop :=
  ∀ s s' sc, Inv s sc → run (walkStmt c bl st) s = (some (), s') →
    Grows s.b s'.b ∧ ∀ last prev, ∃ o, checkStmt (worldOf c) bl.isSome last prev sc st = .ok o ∧ Inv s' o.scope

def StmtsSound (c : Ctx) (bl : Option Nat) (ss : List Stmt) : Prop :=
  ∀ s s' sc, Inv s sc → run (walkStmts c bl ss) s = (some true, s') →
    Grows s.b s'.b ∧ ∀ last prev, ∃ o, checkStmts (worldOf c) bl.isSome last prev sc ss = .ok o ∧ Inv s' o.scope

def BodiesSound (c : Ctx) (bl : Option Nat) (cl : List (Option Expr × List Stmt)) : Prop :=
  ∀ s s' sc sc0 vt bodies, Inv s sc → bl.isSome = true → run (walkBodies c bl cl) s = (some bodies, s') →
    bodies.length = cl.length →
    (∀ e body, (some e, body) ∈ cl → ∃ ct, typeOf (worldOf c) sc0 e = .ok ct ∧
      (binaryType c.env (.cmp .eq) vt ct).isSome = true) →
    Grows s.b s'.b ∧ ∃ o, checkClauses (worldOf c) vt sc0 sc cl = .ok o ∧ Inv s' o.scope

theorem Ext.setB' (s : WState) (b : Builder) (hl : b.code.locals = s.b.code.locals) :
    Ext s { b := b, diags := s.diags, locals := s.locals, userUninit := s.userUninit } := ⟨rfl, Grows.of_eq hl⟩

mutual

theorem sound_stmt (c : Ctx) (bl : Option Nat) : (st : Stmt) → StmtSound c bl st
  | .expr e => by
    intro s s' sc hinv h
    simp only [walkStmt] at h
    obtain ⟨v, s1, h1, h2⟩ := bind_ok h
    obtain ⟨hext1, ht1⟩ := rvalue_of_expr (sound_expr c e) s s1 sc v hinv h1
    obtain ⟨b, s2, h3, h4⟩ := bind_ok h2
    simp at h3 h4
    obtain ⟨rfl, rfl⟩ := h3
    subst h4
    have hext2 : Ext s _ := hext1.trans (Ext.setB' s1 (visitExpressionStatement s1.b v) (by simp))
    refine ⟨hext2.grows, fun last prev =>
      ⟨{ scope := sc, tails := if last then [.value (strDefault v.typeDesc)] else [] }, by simp only [checkStmt, ht1], hinv.ext hext2⟩⟩
  | .lexical kind ds => by
    intro s s' sc hinv h
    simp only [walkStmt] at h
    obtain ⟨hg, sc', hsc', hinv'⟩ := sound_decls c kind ds s s' sc hinv h
    exact ⟨hg, fun last prev => ⟨{ scope := sc', tails := if last then [emptyTail prev] else [] }, by simp only [checkStmt, hsc'], hinv'⟩⟩
  | .break_ labeled => by
    intro s s' sc hinv h
    simp only [walkStmt] at h
    cases labeled with
    | true => simp at h
    | false =>
      simp only [Bool.false_eq_true, if_false] at h
      cases bl with
      | none => simp at h
      | some l =>
        simp only at h
        obtain ⟨b, s1, h1, h2⟩ := bind_ok h
        simp at h1 h2
        obtain ⟨rfl, rfl⟩ := h1
        subst h2
        have hext : Ext s _ := Ext.setB' s (visitBreakStatement s.b l) (by simp)
        exact ⟨hext.grows, fun last prev => ⟨{ scope := sc, tails := if last then [.unspecified] else [] }, by simp [checkStmt], hinv.ext hext⟩⟩
  | .return_ e => by
    intro s s' sc hinv h
    simp only [walkStmt] at h
    obtain ⟨v, s1, h1, h2⟩ := bind_ok h
    obtain ⟨b, s2, h3, h4⟩ := bind_ok h2
    simp at h3 h4
    obtain ⟨rfl, rfl⟩ := h3
    subst h4
    cases e with
    | none =>
      simp at h1
      obtain ⟨rfl, rfl⟩ := h1
      have hext : Ext s _ := Ext.setB' s (visitReturnStatement s.b Operand.void) (by simp)
      exact ⟨hext.grows, fun last prev => ⟨{ scope := sc, returns := [.void] }, by simp only [checkStmt], hinv.ext hext⟩⟩
    | some x =>
      simp only at h1
      obtain ⟨hext1, ht1⟩ := rvalue_of_expr (sound_expr c x) s s1 sc v hinv h1
      have hext : Ext s _ := hext1.trans (Ext.setB' s1 (visitReturnStatement s1.b v) (by simp))
      exact ⟨hext.grows, fun last prev => ⟨{ scope := sc, returns := [strDefault v.typeDesc] }, by simp only [checkStmt, ht1], hinv.ext hext⟩⟩
  | .block ss => by
    intro s s' sc hinv h
    simp only [walkStmt] at h
    obtain ⟨outer, s1, h1, h2⟩ := bind_ok h
    simp at h1
    obtain ⟨rfl, rfl⟩ := h1
    obtain ⟨ok, s2, h3, h4⟩ := bind_ok h2
    obtain ⟨u, s3, h5, h6⟩ := bind_ok h4
    simp at h5
    cases ok with
    | false => simp at h6
    | true =>
      simp at h6
      obtain ⟨hg, hall⟩ := sound_stmts c bl ss s s2 sc hinv h3
      subst h6
      rw [← h5]
      refine ⟨hg, fun last prev => ?_⟩
      obtain ⟨o, ho, _⟩ := hall last prev
      refine ⟨{ o with scope := sc }, by simp only [checkStmt, ho], ?_⟩
      exact hinv.of_eq rfl hg
  | .if_ cnd a b => by
    intro s s' sc hinv h
    simp only [walkStmt] at h
    obtain ⟨cv, s1, h1, h2⟩ := bind_ok h
    obtain ⟨hext1, ht1⟩ := rvalue_of_expr (sound_expr c cnd) s s1 sc cv hinv h1
    obtain ⟨cl, s2, h3, h4⟩ := bind_ok h2
    have hext2 := markBranchPoint_ok h3
    have hinv2 := (hinv.ext hext1).ext hext2
    obtain ⟨outer, s3, h5, h6⟩ := bind_ok h4
    simp at h5
    obtain ⟨rfl, rfl⟩ := h5
    obtain ⟨r, s4, h7, h8⟩ := bind_ok h6
    have hx := attempt_ok h7
    obtain ⟨u, s5, h9, h10⟩ := bind_ok h8
    simp at h9
    cases r with
    | none => simp at h10
    | some u0 =>
      simp only at h10
      obtain ⟨hga, halla⟩ := sound_stmt c bl a s2 s4 sc hinv2 hx
      -- the branch's declarations are dropped: the name map is the one from before the branch
      have hinv5 : Inv s5 sc := by
        rw [← h9]
        exact hinv2.of_eq rfl hga
      have hg5 : Grows s2.b s5.b := by rw [← h9]; exact hga
      obtain ⟨al, s6, h11, h12⟩ := bind_ok h10
      have hext6 := markBranchPoint_ok h11
      have hinv6 := hinv5.ext hext6
      obtain ⟨alt, s7, h13, h14⟩ := bind_ok h12
      cases b with
      | none =>
        simp at h13
        obtain ⟨rfl, rfl⟩ := h13
        obtain ⟨u1, s8, h15, h16⟩ := bind_ok h14
        obtain ⟨rfl, hcb⟩ := checkConditionType_ok h15
        obtain ⟨bb, s9, h17, h18⟩ := bind_ok h16
        simp at h17 h18
        obtain ⟨rfl, rfl⟩ := h17
        subst h18
        have hext9 : Ext s8 _ := Ext.setB' s8 (visitIfStatement s8.b cv cl al none) (by simp)
        refine ⟨(((hext1.grows.trans hext2.grows).trans hg5).trans hext6.grows).trans hext9.grows, fun last prev => ?_⟩
        obtain ⟨oa, hoa, _⟩ := halla last prev
        exact ⟨{ scope := sc, returns := oa.returns, tails := oa.tails ++ (if last then [emptyTail prev] else []) },
          by simp [checkStmt, ifOut, ht1, hoa, hcb], hinv6.ext hext9⟩
      | some bs =>
        simp only at h13
        obtain ⟨r2, s8, h15, h16⟩ := bind_ok h13
        have hx2 := attempt_ok h15
        obtain ⟨u2, s9, h17, h18⟩ := bind_ok h16
        simp at h17
        cases r2 with
        | none => simp at h18
        | some u3 =>
          simp only at h18
          obtain ⟨hgb, hallb⟩ := sound_stmt c bl bs s6 s8 sc hinv6 hx2
          -- `setLocals outer`: the name map from before the `if`
          have hl6 : s6.locals = s2.locals := by rw [hext6.locals, ← h9]
          have hinv9 : Inv s9 sc := by
            rw [← h17]
            exact hinv6.of_eq (by simp [hl6]) hgb
          have hg9 : Grows s6.b s9.b := by rw [← h17]; exact hgb
          obtain ⟨lb, s10, h19, h20⟩ := bind_ok h18
          have hext10 := markBranchPoint_ok h19
          simp at h20
          obtain ⟨rfl, rfl⟩ := h20
          obtain ⟨u1, s11, h21, h22⟩ := bind_ok h14
          obtain ⟨rfl, hcb⟩ := checkConditionType_ok h21
          obtain ⟨bb, s12, h23, h24⟩ := bind_ok h22
          simp at h23 h24
          obtain ⟨rfl, rfl⟩ := h23
          subst h24
          have hext12 : Ext s11 _ := Ext.setB' s11 (visitIfStatement s11.b cv cl al (some lb)) (by simp)
          refine ⟨(((((hext1.grows.trans hext2.grows).trans hg5).trans hext6.grows).trans hg9).trans hext10.grows).trans hext12.grows,
            fun last prev => ?_⟩
          obtain ⟨oa, hoa, _⟩ := halla last prev
          obtain ⟨ob, hob, _⟩ := hallb last prev
          exact ⟨{ scope := sc, returns := oa.returns ++ ob.returns, tails := oa.tails ++ ob.tails },
            by simp [checkStmt, ifElseOut, ht1, hoa, hob, hcb], (hinv9.ext hext10).ext hext12⟩
  | .switch v cl => by
    intro s s' sc hinv h
    simp only [walkStmt] at h
    by_cases hmd : (cl.filter (·.1.isNone)).length > 1
    · simp [hmd] at h
    · simp only [hmd, if_false] at h
      obtain ⟨left, s1, h1, h2⟩ := bind_ok h
      obtain ⟨hext1, ht1⟩ := rvalue_of_expr (sound_expr c v) s s1 sc left hinv h1
      obtain ⟨conds, s2, h3, h4⟩ := bind_ok h2
      obtain ⟨hr, s3, h5, h6⟩ := bind_ok h4
      have hext3 := markBranchPoint_ok h5
      obtain ⟨er, s4, h7, h8⟩ := bind_ok h6
      have hext4 := markBranchPoint_ok h7
      obtain ⟨outer, s5, h9, h10⟩ := bind_ok h8
      simp at h9
      obtain ⟨rfl, rfl⟩ := h9
      obtain ⟨bodies?, s6, h11, h12⟩ := bind_ok h10
      have hx := attempt_ok h11
      obtain ⟨u, s7, h13, h14⟩ := bind_ok h12
      simp at h13
      cases bodies? with
      | none => simp at h14
      | some bodies =>
        simp only at h14
        by_cases hlen : (cl.filter (·.1.isSome)).length = conds.length ∧ cl.length = bodies.length
        · simp only [hlen, and_self, if_true] at h14
          obtain ⟨bb, s8, h15, h16⟩ := bind_ok h14
          simp at h15 h16
          obtain ⟨rfl, rfl⟩ := h15
          subst h16
          obtain ⟨hext2, hcases⟩ := sound_caseConditions c left cl s1 s2 sc conds (hinv.ext hext1) h3 hlen.1.symm
          have hinv4 : Inv s4 sc := (((hinv.ext hext1).ext hext2).ext hext3).ext hext4
          obtain ⟨hg6, o, ho, _⟩ := sound_bodies c (some er) cl s4 s6 sc sc left.typeDesc bodies hinv4 rfl hx hlen.2.symm hcases
          have hg7 : Grows s4.b s7.b := by rw [← h13]; exact hg6
          have hinv7 : Inv s7 sc := by
            rw [← h13]
            exact hinv4.of_eq rfl hg6
          have hext8 : Ext s7 _ := Ext.setB' s7 (visitSwitchStatement s7.b conds bodies (cl.findIdx? (·.1.isNone)) hr er) (by simp)
          refine ⟨((((hext1.grows.trans hext2.grows).trans hext3.grows).trans hext4.grows).trans hg7).trans hext8.grows,
            fun last prev => ?_⟩
          exact ⟨{ o with scope := sc, tails := if last then [.unspecified] else [] },
            by simp only [checkStmt, hmd, if_false, ht1, ho], hinv7.ext hext8⟩
        · simp [hlen] at h14

theorem sound_stmts (c : Ctx) (bl : Option Nat) : (ss : List Stmt) → StmtsSound c bl ss
  | [] => by
    intro s s' sc hinv h
    simp [walkStmts] at h
    subst h
    exact ⟨Grows.refl _, fun last prev => ⟨{ scope := sc, tails := if last then [emptyTail prev] else [] }, by simp only [checkStmts], hinv⟩⟩
  | st :: rest => by
    intro s s' sc hinv h
    simp only [walkStmts] at h
    obtain ⟨r, s1, h1, h2⟩ := bind_ok h
    have hx := attempt_ok h1
    cases r with
    | none =>
      simp only at h2
      obtain ⟨u, s2, h3, h4⟩ := bind_ok h2
      simp at h4
    | some u =>
      simp only at h2
      obtain ⟨hg1, hall1⟩ := sound_stmt c bl st s s1 sc hinv hx
      cases rest with
      | nil =>
        simp [walkStmts] at h2
        subst h2
        exact ⟨hg1, fun last prev => by
          obtain ⟨o, ho, hi⟩ := hall1 last prev
          exact ⟨o, by simp only [checkStmts, ho], hi⟩⟩
      | cons st2 rest2 =>
        refine ⟨?_, fun last prev => ?_⟩
        · obtain ⟨o, ho, hi⟩ := hall1 false false
          exact hg1.trans (sound_stmts c bl (st2 :: rest2) s1 s' o.scope hi h2).1
        · obtain ⟨o, ho, hi⟩ := hall1 false prev
          obtain ⟨_, hall2⟩ := sound_stmts c bl (st2 :: rest2) s1 s' o.scope hi h2
          obtain ⟨o2, ho2, hi2⟩ := hall2 last (prev || producesValue st)
          exact ⟨{ o2 with returns := o.returns ++ o2.returns }, by simp only [checkStmts, ho, ho2], hi2⟩

theorem sound_bodies (c : Ctx) (bl : Option Nat) : (cl : List (Option Expr × List Stmt)) → BodiesSound c bl cl
  | [] => by
    intro s s' sc sc0 vt bodies hinv hbl h hlen hcases
    simp [walkBodies] at h
    rw [← h.2]
    exact ⟨Grows.refl _, { scope := sc }, by simp only [checkClauses], hinv⟩
  | (cv, body) :: rest => by
    intro s s' sc sc0 vt bodies hinv hbl h hlen hcases
    simp only [walkBodies] at h
    obtain ⟨outer, s0, h0, h0'⟩ := bind_ok h
    simp at h0
    obtain ⟨rfl, rfl⟩ := h0
    obtain ⟨ok, s1a, h1, h1'⟩ := bind_ok h0'
    obtain ⟨u, s1, hset, h2⟩ := bind_ok h1'
    simp at hset
    cases ok with
    | false =>
      simp only [Bool.false_eq_true, if_false] at h2
      have := bodies_length c bl rest s1 s' bodies h2
      simp at hlen
      omega
    | true =>
      simp only [if_true] at h2
      obtain ⟨l, s2, h3, h4⟩ := bind_ok h2
      obtain ⟨others, s3, h5, h6⟩ := bind_ok h4
      simp at h6
      obtain ⟨rfl, rfl⟩ := h6
      obtain ⟨hg1a, hall1⟩ := sound_stmts c bl body s s1a sc hinv h1
      obtain ⟨o, ho, hi⟩ := hall1 false true
      -- the clause's declarations are dropped: the name map is the one from before the clause
      have hinv1 : Inv s1 sc := by rw [← hset]; exact hinv.of_eq rfl hg1a
      have hg1 : Grows s.b s1.b := by rw [← hset]; exact hg1a
      have hext2 := markBranchPoint_ok h3
      obtain ⟨hg3, o3, ho3, hi3⟩ := sound_bodies c bl rest s2 s3 sc sc0 vt others (hinv1.ext hext2) hbl h5
        (by simp at hlen; exact hlen) (fun e b hm => hcases e b (by simp [hm]))
      refine ⟨(hg1.trans hext2.grows).trans hg3, { o3 with returns := o.returns ++ o3.returns }, ?_, hi3⟩
      rw [hbl] at ho
      cases cv with
      | none => simp only [checkClauses, ho, ho3]
      | some e =>
        obtain ⟨ct, hct, hbt⟩ := hcases e body (by simp)
        simp only [checkClauses, hct, worldOf_env, hbt, if_true, ho, ho3]

end


/-! ### corollaries -/

/-- the scope after a compound statement is the scope before it (specification, D15) -/
theorem checkStmt_scope_compound {w : World} {inSwitch last prev : Bool} {sc : Scope} {st : Stmt} {o : Out}
    (hst : (∃ ss, st = .block ss) ∨ (∃ cnd a b, st = .if_ cnd a b) ∨ (∃ v cl, st = .switch v cl))
    (h : checkStmt w inSwitch last prev sc st = .ok o) : o.scope = sc := by
  rcases hst with ⟨ss, rfl⟩ | ⟨cnd, a, b, rfl⟩ | ⟨v, cl, rfl⟩
  · simp only [checkStmt] at h
    split at h <;> simp at h
    rw [← h]
  · cases b with
    | none =>
      simp only [checkStmt, ifOut] at h
      split at h
      · simp at h
      · split at h
        · simp at h
        · split at h <;> simp at h
          rw [← h]
    | some bs =>
      simp only [checkStmt, ifElseOut] at h
      split at h
      · simp at h
      · split at h
        · simp at h
        · split at h
          · simp at h
          · split at h <;> simp at h
            rw [← h]
  · simp only [checkStmt] at h
    split at h
    · simp at h
    · split at h
      · simp at h
      · split at h <;> simp at h
        rw [← h]

/-- after a block, an `if` or a `switch` the walk's name map agrees with the scope from BEFORE the statement: a name
    declared in the block, in a branch or in a clause is not visible afterwards (and nothing that was visible is lost) -/
theorem compound_scope_restored (c : Ctx) (bl : Option Nat) (st : Stmt)
    (hst : (∃ ss, st = .block ss) ∨ (∃ cnd a b, st = .if_ cnd a b) ∨ (∃ v cl, st = .switch v cl))
    (s s' : WState) (sc : Scope) (hinv : Inv s sc) (h : run (walkStmt c bl st) s = (some (), s')) : Inv s' sc := by
  obtain ⟨_, hall⟩ := sound_stmt c bl st s s' sc hinv h
  obtain ⟨o, ho, hi⟩ := hall false false
  rw [checkStmt_scope_compound hst ho] at hi
  exact hi

/-- `Inv` says exactly which names are visible -/
theorem Inv.visible_iff {s : WState} {sc : Scope} (h : Inv s sc) (n : String) :
    (s.locals.get? n).isSome = (sc.find n).isSome := by
  have := h n
  cases hg : s.locals.get? n with
  | none => simp [hg] at this; simp [this]
  | some p =>
    rcases p with ⟨l, k⟩
    simp [hg] at this
    obtain ⟨t, _, h2⟩ := this
    simp [h2]

/-- from the top: if `tir::build` / `build_callback` produce code for a statement program, the specification's statement
    checker accepts the statement in the empty scope (every expression typed, declarations, conditions, case values,
    `break` placement, scoping) — whatever the flags that only steer the collection of result types -/
theorem build_stmt_sound (c : Ctx) (callback : Bool) (st : Stmt) (h : (build c callback (.stmt st)).code.isSome = true)
    (last prev : Bool) : ∃ o, checkStmt (worldOf c) false last prev [] st = .ok o := by
  unfold build at h
  simp only [walkProgram] at h
  generalize hrun : run (walkStmt c none st) {} = res at h
  rcases res with ⟨o, s1⟩
  have hrun' : (walkStmt c none st).run {} = (o, s1) := hrun
  simp only [hrun'] at h
  cases o with
  | none => simp at h
  | some u =>
    obtain ⟨_, hall⟩ := sound_stmt c none st {} s1 [] inv_init hrun
    obtain ⟨o, ho, _⟩ := hall last prev
    exact ⟨o, ho⟩

/-- a callback given as a statement (`onFired: { … }`): accepted by the checker ⇒ well-typed for the specification -/
theorem callback_stmt_sound (c : Ctx) (desc : MethodInfo) (st : Stmt) (h : acceptsCallback c desc (.stmt st) = true)
    (sigArgs : List TypeKind) : checkCallback (worldOf c) sigArgs (.stmt st) = .wellTyped := by
  have hcode : (build c true (.stmt st)).code.isSome = true := by
    unfold acceptsCallback at h
    cases hc : (build c true (.stmt st)).code with
    | none => simp [hc] at h
    | some code => rfl
  obtain ⟨o, ho⟩ := build_stmt_sound c true st hcode false false
  simp only [checkCallback, ho]

/-- a property binding: accepted by the checker ⇒ the specification finds no error in its statements; what remains open
    between the two is only the RESULT clause (D16: `resultsDisagree` / `resultMismatch`), which the checker decides on
    the IR (`verify_code_return_type_iff`) and the specification on the source -/
theorem binding_stmt_sound (c : Ctx) (propTy : TypeKind) (st : Stmt) (h : acceptsBinding c propTy (.stmt st) = true) :
    checkBinding (worldOf c) propTy (.stmt st) = .wellTyped ∨ checkBinding (worldOf c) propTy (.stmt st) = .unspecified ∨
    checkBinding (worldOf c) propTy (.stmt st) = .illTyped .resultsDisagree ∨
    checkBinding (worldOf c) propTy (.stmt st) = .illTyped .resultMismatch := by
  have hcode : (build c false (.stmt st)).code.isSome = true := by
    unfold acceptsBinding at h
    cases hc : (build c false (.stmt st)).code with
    | none => simp [hc] at h
    | some code => rfl
  obtain ⟨o, ho⟩ := build_stmt_sound c false st hcode true false
  simp only [checkBinding, ho]
  split
  · right; left; rfl
  · split
    · rename_i e he
      -- `resultType` only ever fails with `resultsDisagree`
      have : e = .resultsDisagree := by
        revert he
        generalize (o.returns ++ List.map _ o.tails) = rs
        intro he
        cases rs with
        | nil => simp [resultType] at he
        | cons t ts =>
          simp only [resultType] at he
          suffices ∀ (us : List Ty) (k : Ty) (e : Err), resultType.go (worldOf c).env k us = .error e → e = .resultsDisagree from
            this ts t e he
          intro us
          induction us with
          | nil => intro k e h; simp [resultType.go] at h
          | cons u us ih =>
            intro k e h
            simp only [resultType.go] at h
            split at h
            · exact ih _ _ h
            · simp at h; exact h.symm
      subst this
      right; right; left; rfl
    · split
      · left; rfl
      · right; right; right; rfl

end QV.Proofs.TypingSound
