/-
  C05 (b), the induction: every expression the walk accepts is typed by the specification with the same type.
-/
import QV.Proofs.TypingSound
import QV.Model.TypeCheck

set_option linter.unusedSimpArgs false
set_option linter.unusedVariables false

namespace QV.Proofs.TypingSound
open QV.Model QV.Spec.Typing QV.Proofs.TypingRules QV.Proofs.TypingConst

@[simp] theorem worldOf_env (c : Ctx) : (worldOf c).env = c.env := rfl
@[simp] theorem worldOf_thisObj (c : Ctx) : (worldOf c).thisObj = c.thisObj := rfl

theorem Ext.setB (s : WState) (b : Builder) (hg : Grows s.b b) :
    Ext s { b := b, diags := s.diags, locals := s.locals, userUninit := s.userUninit } := ⟨rfl, hg⟩

theorem item_rel {L : List TypeKind} {a : Operand} {t : Ty} (h : a.typeDesc = t) : Rel L (.item a) (.val t) := by
  rw [← h]; exact Rel.item a

mutual

theorem sound_expr (c : Ctx) : (e : Expr) → ExprSound c e
  | .ident n => by
    intro s s' sc i hinv h
    simp only [walkExpr] at h
    obtain ⟨rfl, r, hr, hrel⟩ := processIdentifier_ok hinv h
    exact ⟨Ext.refl _, r, by simp only [resolve, valueOfR_resolve]; exact hr, hrel⟩
  | .this => by
    intro s s' sc i hinv h
    simp only [walkExpr] at h
    cases ht : c.thisObj with
    | none => simp [ht] at h
    | some p =>
      rcases p with ⟨cls, name⟩
      simp [ht] at h
      obtain ⟨rfl, rfl⟩ := h
      exact ⟨Ext.refl _, _, by simp only [resolve, valueOfR_resolve, worldOf_thisObj, ht]; rfl, Rel.item _⟩
  | .integer v => by
    intro s s' sc i hinv h
    simp only [walkExpr] at h
    obtain ⟨b, s1, h1, h2⟩ := bind_ok h
    simp at h1
    obtain ⟨rfl, rfl⟩ := h1
    obtain ⟨a, s2, h3, h4⟩ := bind_ok h2
    simp at h4
    obtain ⟨rfl, rfl⟩ := h4
    obtain ⟨b', h5, rfl⟩ := consume_ok h3
    obtain ⟨rfl, ht, hv⟩ := visitInteger_ok h5
    exact ⟨Ext.refl _, _, by simp only [resolve, valueOfR_resolve, hv, if_true], item_rel ht⟩
  | .float v => by
    intro s s' sc i hinv h
    simp [walkExpr] at h
    obtain ⟨rfl, rfl⟩ := h
    exact ⟨Ext.refl _, _, by simp only [resolve, valueOfR_resolve]; rfl, Rel.item _⟩
  | .string v => by
    intro s s' sc i hinv h
    simp [walkExpr] at h
    obtain ⟨rfl, rfl⟩ := h
    exact ⟨Ext.refl _, _, by simp only [resolve, valueOfR_resolve]; rfl, Rel.item _⟩
  | .bool v => by
    intro s s' sc i hinv h
    simp [walkExpr] at h
    obtain ⟨rfl, rfl⟩ := h
    exact ⟨Ext.refl _, _, by simp only [resolve, valueOfR_resolve]; rfl, Rel.item _⟩
  | .null => by
    intro s s' sc i hinv h
    simp [walkExpr] at h
    obtain ⟨rfl, rfl⟩ := h
    exact ⟨Ext.refl _, _, by simp only [resolve, valueOfR_resolve]; rfl, Rel.item _⟩
  | .function => by
    intro s s' sc i hinv h
    simp [walkExpr] at h
  | .array es => by
    intro s s' sc i hinv h
    simp only [walkExpr] at h
    obtain ⟨els, s1, h1, h2⟩ := bind_ok h
    obtain ⟨hext, hts⟩ := sound_rvalues c es s s1 sc els hinv h1
    obtain ⟨b, s2, h3, h4⟩ := bind_ok h2
    simp at h3
    obtain ⟨rfl, rfl⟩ := h3
    obtain ⟨a, s3, h5, h6⟩ := bind_ok h4
    simp at h6
    obtain ⟨rfl, rfl⟩ := h6
    obtain ⟨b', h7, rfl⟩ := consume_ok h5
    obtain ⟨hat, hg⟩ := visitArray_ok h7
    refine ⟨hext.trans (Ext.setB _ _ hg), _, ?_, Rel.item a⟩
    simp only [resolve, valueOfR_resolve, hts, worldOf_env]
    rw [hat]
    rfl
  | .member o n => by
    intro s s' sc i hinv h
    simp only [walkExpr] at h
    obtain ⟨x, s1, h1, h2⟩ := bind_ok h
    obtain ⟨hext1, r0, hr0, hrel⟩ := sound_expr c o s s1 sc x hinv h1
    cases hrel with
    | item it =>
      obtain ⟨rfl, r, hr, hR⟩ := processItemProperty_ok h2
      refine ⟨hext1, r, ?_, hR _⟩
      simp only [resolve, valueOfR_resolve, hr0, valueOf, worldOf_env]
      simpa using hr
    | loc l k t hl =>
      simp only at h2
      obtain ⟨b, s2, h3, h4⟩ := bind_ok h2
      simp at h3
      obtain ⟨rfl, rfl⟩ := h3
      obtain ⟨it, s3, h5, h6⟩ := bind_ok h4
      obtain ⟨b', h7, rfl⟩ := consume_ok h5
      rw [visitLocalRef_ok hl] at h7
      simp at h7
      obtain ⟨rfl, rfl⟩ := h7
      obtain ⟨rfl, r, hr, hR⟩ := processItemProperty_ok h6
      refine ⟨hext1, r, ?_, hR _⟩
      simp only [resolve, valueOfR_resolve, hr0, worldOf_env]
      simpa [Operand.typeDesc] using hr
    | prop it p rk =>
      simp only at h2
      obtain ⟨b, s2, h3, h4⟩ := bind_ok h2
      simp at h3
      obtain ⟨rfl, rfl⟩ := h3
      obtain ⟨ov, s3, h5, h6⟩ := bind_ok h4
      obtain ⟨b', h7, rfl⟩ := consume_ok h5
      obtain ⟨hrd, hot, hg⟩ := visitObjectProperty_ok h7
      obtain ⟨rfl, r, hr, hR⟩ := processItemProperty_ok h6
      refine ⟨hext1.trans (Ext.setB _ _ hg), r, ?_, hR _⟩
      simp only [resolve, valueOfR_resolve, hr0, valueOf, hrd, if_true, worldOf_env]
      rw [hot] at hr
      simpa using hr
    | elem it ix k =>
      simp only at h2
      obtain ⟨b, s2, h3, h4⟩ := bind_ok h2
      simp at h3
      obtain ⟨rfl, rfl⟩ := h3
      obtain ⟨ov, s3, h5, h6⟩ := bind_ok h4
      obtain ⟨b', h7, rfl⟩ := consume_ok h5
      obtain ⟨t, het, hot, hg⟩ := visitObjectSubscript_ok h7
      obtain ⟨rfl, r, hr, hR⟩ := processItemProperty_ok h6
      refine ⟨hext1.trans (Ext.setB _ _ hg), r, ?_, hR _⟩
      simp only [resolve, valueOfR_resolve, hr0, valueOf, het, Except.map, worldOf_env]
      rw [hot] at hr
      simpa using hr
    | methods it ms sigs hs => simp at h2
    | fn f => simp at h2
    | math =>
      obtain ⟨rfl, r, hr, hR⟩ := processNamespaceName_ok h2
      exact ⟨hext1, r, by simp only [resolve, valueOfR_resolve, hr0]; exact hr, hR _⟩
    | console =>
      obtain ⟨rfl, r, hr, hR⟩ := processNamespaceName_ok h2
      exact ⟨hext1, r, by simp only [resolve, valueOfR_resolve, hr0]; exact hr, hR _⟩
    | type t =>
      obtain ⟨rfl, r, hr, hR⟩ := processTypeMember_ok h2
      exact ⟨hext1, r, by simp only [resolve, valueOfR_resolve, hr0, worldOf_env]; exact hr, hR _⟩
  | .subscript o ix => by
    intro s s' sc i hinv h
    simp only [walkExpr] at h
    obtain ⟨ok, s2, hA, hB⟩ := bind_ok h
    rcases ok with ⟨ov, kd⟩
    -- the object part
    have hobj : Ext s s2 ∧ ∃ r0, resolve (worldOf c) sc o = .ok r0 ∧ valueOf r0 = .ok ov.typeDesc ∧
        isLoc r0 = decide (kd = .lvalue) := by
      obtain ⟨x, s1, h1, h2⟩ := bind_ok hA
      obtain ⟨hext1, r0, hr0, hrel⟩ := sound_expr c o s s1 sc x hinv h1
      cases hrel with
      | item it =>
        simp at h2
        obtain ⟨⟨rfl, rfl⟩, rfl⟩ := h2
        exact ⟨hext1, _, hr0, rfl, by simp [isLoc]⟩
      | loc l k t hl =>
        simp only at h2
        obtain ⟨b, s3, h3, h4⟩ := bind_ok h2
        simp at h3
        obtain ⟨rfl, rfl⟩ := h3
        obtain ⟨it, s4, h5, h6⟩ := bind_ok h4
        obtain ⟨b', h7, rfl⟩ := consume_ok h5
        rw [visitLocalRef_ok hl] at h7
        simp at h7
        obtain ⟨rfl, rfl⟩ := h7
        simp at h6
        obtain ⟨⟨rfl, rfl⟩, rfl⟩ := h6
        exact ⟨hext1, _, hr0, rfl, by simp [isLoc]⟩
      | prop it p rk =>
        simp only at h2
        obtain ⟨b, s3, h3, h4⟩ := bind_ok h2
        simp at h3
        obtain ⟨rfl, rfl⟩ := h3
        obtain ⟨ov', s4, h5, h6⟩ := bind_ok h4
        obtain ⟨b', h7, rfl⟩ := consume_ok h5
        obtain ⟨hrd, hot, hg⟩ := visitObjectProperty_ok h7
        simp at h6
        obtain ⟨⟨rfl, rfl⟩, rfl⟩ := h6
        exact ⟨hext1.trans (Ext.setB _ _ hg), _, hr0, by simp [valueOf, hrd, hot], by simp [isLoc]⟩
      | elem it jx k =>
        simp only at h2
        obtain ⟨b, s3, h3, h4⟩ := bind_ok h2
        simp at h3
        obtain ⟨rfl, rfl⟩ := h3
        obtain ⟨ov', s4, h5, h6⟩ := bind_ok h4
        obtain ⟨b', h7, rfl⟩ := consume_ok h5
        obtain ⟨t, het, hot, hg⟩ := visitObjectSubscript_ok h7
        simp at h6
        obtain ⟨⟨rfl, rfl⟩, rfl⟩ := h6
        exact ⟨hext1.trans (Ext.setB _ _ hg), _, hr0, by simp [valueOf, het, hot, Except.map], by simp [isLoc]⟩
      | methods it ms sigs hs => simp at h2
      | fn f => simp at h2
      | math => simp at h2
      | console => simp at h2
      | type t => simp at h2
    obtain ⟨hext2, r0, hr0, hv0, hflag⟩ := hobj
    simp only at hB
    obtain ⟨index, s3, h8, h9⟩ := bind_ok hB
    obtain ⟨hext3, ht3⟩ := rvalue_of_expr (sound_expr c ix) s2 s3 sc index (hinv.ext hext2) h8
    simp at h9
    obtain ⟨rfl, rfl⟩ := h9
    refine ⟨hext2.trans hext3, _, ?_, Rel.elem ov index kd⟩
    simp only [resolve, valueOfR_resolve, hr0, hv0, ht3, hflag]
  | .call f args => by
    intro s s' sc i hinv h
    simp only [walkExpr] at h
    obtain ⟨argv, s1, h1, h2⟩ := bind_ok h
    obtain ⟨hext1, hts⟩ := sound_rvalues c args s s1 sc argv hinv h1
    obtain ⟨x, s2, h3, h4⟩ := bind_ok h2
    obtain ⟨hext2, r0, hr0, hrel⟩ := sound_expr c f s1 s2 sc x (hinv.ext hext1) h3
    cases hrel with
    | methods it ms sigs hs =>
      simp only at h4
      obtain ⟨b, s3, h5, h6⟩ := bind_ok h4
      simp at h5
      obtain ⟨rfl, rfl⟩ := h5
      obtain ⟨a, s4, h7, h8⟩ := bind_ok h6
      simp at h8
      obtain ⟨rfl, rfl⟩ := h8
      obtain ⟨b', h9, rfl⟩ := consume_ok h7
      obtain ⟨hcm, hg⟩ := visitObjectMethodCall_ok h9
      refine ⟨(hext1.trans hext2).trans (Ext.setB _ _ hg), .val a.typeDesc, ?_, Rel.item a⟩
      simp only [resolve, valueOfR_resolve, hts, hr0, hs, worldOf_env, hcm, Except.map]
    | fn bf =>
      simp only at h4
      obtain ⟨b, s3, h5, h6⟩ := bind_ok h4
      simp at h5
      obtain ⟨rfl, rfl⟩ := h5
      obtain ⟨a, s4, h7, h8⟩ := bind_ok h6
      simp at h8
      obtain ⟨rfl, rfl⟩ := h8
      obtain ⟨b', h9, rfl⟩ := consume_ok h7
      obtain ⟨hcm, hg⟩ := visitBuiltinCall_ok h9
      refine ⟨(hext1.trans hext2).trans (Ext.setB _ _ hg), .val a.typeDesc, ?_, Rel.item a⟩
      simp only [resolve, valueOfR_resolve, hts, hr0, worldOf_env, hcm, Except.map]
    | item it => simp at h4
    | loc l k t hl => simp at h4
    | prop it p rk => simp at h4
    | elem it jx k => simp at h4
    | math => simp at h4
    | console => simp at h4
    | type t => simp at h4
  | .assign l r => by
    intro s s' sc i hinv h
    simp only [walkExpr] at h
    -- the left-hand reference is walked first, then the value (repair 5ccd31a)
    obtain ⟨x, s1, h0, h2⟩ := bind_ok h
    obtain ⟨hext1, r0, hr0, hrel0⟩ := sound_expr c l s s1 sc x hinv h0
    obtain ⟨rv, s2, h3, h4⟩ := bind_ok h2
    obtain ⟨hext2, ht1⟩ := rvalue_of_expr (sound_expr c r) s1 s2 sc rv (hinv.ext hext1) h3
    have hrel := hrel0.grows hext2.grows
    cases hrel with
    | loc lc k t hl =>
      cases k with
      | const_ => simp at h4
      | let_ =>
        simp only at h4
        obtain ⟨b, s3, h5, h6⟩ := bind_ok h4
        simp at h5
        obtain ⟨rfl, rfl⟩ := h5
        obtain ⟨a, s4, h7, h8⟩ := bind_ok h6
        simp at h8
        obtain ⟨rfl, rfl⟩ := h8
        obtain ⟨b', h9, rfl⟩ := consume_ok h7
        obtain ⟨has, hav, hg⟩ := visitLocalAssignment_ok hl h9
        refine ⟨(hext1.trans hext2).trans (Ext.setB _ _ hg), .val .void, ?_, item_rel hav⟩
        simp only [resolve, valueOfR_resolve, ht1, hr0, worldOf_env, has, if_true]
    | prop it p rk =>
      simp only at h4
      by_cases hrk : rk = .gadget .rvalue
      · simp [hrk] at h4
      · simp only [hrk, if_false] at h4
        obtain ⟨b, s3, h5, h6⟩ := bind_ok h4
        simp at h5
        obtain ⟨rfl, rfl⟩ := h5
        obtain ⟨a, s4, h7, h8⟩ := bind_ok h6
        simp at h8
        obtain ⟨rfl, rfl⟩ := h8
        obtain ⟨b', h9, rfl⟩ := consume_ok h7
        obtain ⟨hw, has, hav, hg⟩ := visitObjectPropertyAssignment_ok h9
        refine ⟨(hext1.trans hext2).trans (Ext.setB _ _ hg), .val .void, ?_, item_rel hav⟩
        simp only [resolve, valueOfR_resolve, ht1, hr0, worldOf_env, hrk, decide_false, hw, has]
        simp
    | elem it jx k =>
      simp only at h4
      by_cases hk : k = .lvalue
      · simp only [hk, if_true] at h4
        obtain ⟨b, s3, h5, h6⟩ := bind_ok h4
        simp at h5
        obtain ⟨rfl, rfl⟩ := h5
        obtain ⟨a, s4, h7, h8⟩ := bind_ok h6
        simp at h8
        obtain ⟨rfl, rfl⟩ := h8
        obtain ⟨b', h9, rfl⟩ := consume_ok h7
        obtain ⟨t, het, has, hav, hg⟩ := visitObjectSubscriptAssignment_ok h9
        refine ⟨(hext1.trans hext2).trans (Ext.setB _ _ hg), .val .void, ?_, item_rel hav⟩
        simp only [resolve, valueOfR_resolve, ht1, hr0, worldOf_env, hk, decide_true, het, has]
        simp
      · simp [hk] at h4
    | item it => simp at h4
    | methods it ms sigs hs => simp at h4
    | fn f => simp at h4
    | math => simp at h4
    | console => simp at h4
    | type t => simp at h4
  | .unary tok a => by
    intro s s' sc i hinv h
    simp only [walkExpr] at h
    obtain ⟨arg, s1, h1, h2⟩ := bind_ok h
    obtain ⟨hext1, ht1⟩ := rvalue_of_expr (sound_expr c a) s s1 sc arg hinv h1
    cases hop : tok.toOp with
    | none => simp [hop] at h2
    | some op =>
      simp only [hop] at h2
      obtain ⟨b, s2, h3, h4⟩ := bind_ok h2
      simp at h3
      obtain ⟨rfl, rfl⟩ := h3
      obtain ⟨x, s3, h5, h6⟩ := bind_ok h4
      simp at h6
      obtain ⟨rfl, rfl⟩ := h6
      obtain ⟨b', h7, rfl⟩ := consume_ok h5
      obtain ⟨hu, hg⟩ := visitUnaryExpression_ok h7
      refine ⟨hext1.trans (Ext.setB _ _ hg), _, ?_, Rel.item x⟩
      simp only [resolve, valueOfR_resolve, ht1, unaryOf_eq, hop, hu]
  | .binary tok l r => by
    intro s s' sc i hinv h
    simp only [walkExpr] at h
    cases hop : tok.toOp with
    | none => simp [hop] at h
    | some op =>
      by_cases hlog : ∃ lo, op = .logical lo
      · obtain ⟨lo, rfl⟩ := hlog
        simp only [hop] at h
        obtain ⟨left, s1, h1, h2⟩ := bind_ok h
        obtain ⟨hext1, ht1⟩ := rvalue_of_expr (sound_expr c l) s s1 sc left hinv h1
        obtain ⟨ll, s2, h3, h4⟩ := bind_ok h2
        have hext2 := markBranchPoint_ok h3
        obtain ⟨right, s3, h5, h6⟩ := bind_ok h4
        obtain ⟨hext3, ht3⟩ := rvalue_of_expr (sound_expr c r) s2 s3 sc right ((hinv.ext hext1).ext hext2) h5
        obtain ⟨rl, s4, h7, h8⟩ := bind_ok h6
        have hext4 := markBranchPoint_ok h7
        obtain ⟨u1, s5, h9, h10⟩ := bind_ok h8
        obtain ⟨rfl, hbl⟩ := checkConditionType_ok h9
        obtain ⟨u2, s6, h11, h12⟩ := bind_ok h10
        obtain ⟨rfl, hbr⟩ := checkConditionType_ok h11
        obtain ⟨b, s7, h13, h14⟩ := bind_ok h12
        simp at h13
        obtain ⟨rfl, rfl⟩ := h13
        obtain ⟨u3, s8, h15, h16⟩ := bind_ok h14
        simp at h15 h16
        obtain ⟨hv1, hv2⟩ := visitBinaryLogicalExpression_ok s6.b lo left right ll rl
        refine ⟨(((hext1.trans hext2).trans hext3).trans hext4).trans ?_, .val .bool, ?_, ?_⟩
        · rw [← h16.2, ← h15]
          exact Ext.setB _ _ hv2
        · simp only [resolve, valueOfR_resolve, binaryOf_eq, hop, ht1, ht3, hbl, hbr]
          simp
        · rw [← h16.1]
          exact item_rel hv1
      · have hlog' : ∀ lo, op ≠ .logical lo := fun lo hx => hlog ⟨lo, hx⟩
        have hsplit : run (do
            let left ← walkRvalue c l
            let right ← walkRvalue c r
            return .item (← consume (visitBinaryExpression c.F c.env (← getB) op left right))) s = (some i, s') := by
          cases op with
          | logical lo => exact absurd rfl (hlog' lo)
          | _ => simpa only [hop] using h
        obtain ⟨left, s1, h1, h2⟩ := bind_ok hsplit
        obtain ⟨hext1, ht1⟩ := rvalue_of_expr (sound_expr c l) s s1 sc left hinv h1
        obtain ⟨right, s2, h3, h4⟩ := bind_ok h2
        obtain ⟨hext2, ht2⟩ := rvalue_of_expr (sound_expr c r) s1 s2 sc right (hinv.ext hext1) h3
        obtain ⟨b, s3, h5, h6⟩ := bind_ok h4
        simp at h5
        obtain ⟨rfl, rfl⟩ := h5
        obtain ⟨x, s4, h7, h8⟩ := bind_ok h6
        simp at h8
        obtain ⟨rfl, rfl⟩ := h8
        obtain ⟨b', h9, rfl⟩ := consume_ok h7
        obtain ⟨hb, hg⟩ := visitBinaryExpression_ok hlog' h9
        refine ⟨(hext1.trans hext2).trans (Ext.setB _ _ hg), _, ?_, Rel.item x⟩
        simp only [resolve, valueOfR_resolve, binaryOf_eq, hop, ht1, ht2]
        cases op with
        | logical lo => exact absurd rfl (hlog' lo)
        | _ => simp only [worldOf_env, hb]
  | .as_ v ty => by
    intro s s' sc i hinv h
    simp only [walkExpr] at h
    obtain ⟨val, s1, h1, h2⟩ := bind_ok h
    obtain ⟨hext1, ht1⟩ := rvalue_of_expr (sound_expr c v) s s1 sc val hinv h1
    obtain ⟨k, s2, h3, h4⟩ := bind_ok h2
    obtain ⟨rfl, hk⟩ := processTypeAnnotation_ok h3
    obtain ⟨b, s3, h5, h6⟩ := bind_ok h4
    simp at h5
    obtain ⟨rfl, rfl⟩ := h5
    obtain ⟨x, s4, h7, h8⟩ := bind_ok h6
    simp at h8
    obtain ⟨rfl, rfl⟩ := h8
    obtain ⟨b', h9, rfl⟩ := consume_ok h7
    obtain ⟨hc, hx, hg⟩ := visitAsExpression_ok h9
    refine ⟨hext1.trans (Ext.setB _ _ hg), .val (.concrete k), ?_, item_rel hx⟩
    simp only [resolve, valueOfR_resolve, ht1, worldOf_env, hk, hc, if_true]
  | .ternary cnd a b => by
    intro s s' sc i hinv h
    simp only [walkExpr] at h
    obtain ⟨cv, s1, h1, h2⟩ := bind_ok h
    obtain ⟨hext1, ht1⟩ := rvalue_of_expr (sound_expr c cnd) s s1 sc cv hinv h1
    obtain ⟨cl, s2, h3, h4⟩ := bind_ok h2
    have hext2 := markBranchPoint_ok h3
    have hinv2 := (hinv.ext hext1).ext hext2
    obtain ⟨av, s3, h5, h6⟩ := bind_ok h4
    obtain ⟨hext3, ht3⟩ := rvalue_of_expr (sound_expr c a) s2 s3 sc av hinv2 h5
    obtain ⟨al, s4, h7, h8⟩ := bind_ok h6
    have hext4 := markBranchPoint_ok h7
    have hinv4 := (hinv2.ext hext3).ext hext4
    obtain ⟨bv, s5, h9, h10⟩ := bind_ok h8
    obtain ⟨hext5, ht5⟩ := rvalue_of_expr (sound_expr c b) s4 s5 sc bv hinv4 h9
    obtain ⟨bl, s6, h11, h12⟩ := bind_ok h10
    have hext6 := markBranchPoint_ok h11
    obtain ⟨u1, s7, h13, h14⟩ := bind_ok h12
    obtain ⟨rfl, hcb⟩ := checkConditionType_ok h13
    obtain ⟨bb, s8, h15, h16⟩ := bind_ok h14
    simp at h15
    obtain ⟨rfl, rfl⟩ := h15
    obtain ⟨x, s9, h17, h18⟩ := bind_ok h16
    simp at h18
    obtain ⟨rfl, rfl⟩ := h18
    obtain ⟨b', h19, rfl⟩ := consume_ok h17
    obtain ⟨k, hk, hx, hg⟩ := visitTernaryExpression_ok h19
    refine ⟨(((((hext1.trans hext2).trans hext3).trans hext4).trans hext5).trans hext6).trans (Ext.setB _ _ hg), .val (.concrete k), ?_, item_rel hx⟩
    simp only [resolve, valueOfR_resolve, ht1, ht3, ht5, hcb, worldOf_env, hk]
    simp

theorem sound_rvalues (c : Ctx) : (es : List Expr) → RvalsSound c es
  | [] => by
    intro s s' sc as hinv h
    simp [walkRvalues] at h
    obtain ⟨rfl, rfl⟩ := h
    exact ⟨Ext.refl _, by simp [typeOfList]⟩
  | e :: es => by
    intro s s' sc as hinv h
    simp only [walkRvalues] at h
    obtain ⟨a, s1, h1, h2⟩ := bind_ok h
    obtain ⟨hext1, ht1⟩ := rvalue_of_expr (sound_expr c e) s s1 sc a hinv h1
    obtain ⟨rest, s2, h3, h4⟩ := bind_ok h2
    obtain ⟨hext2, ht2⟩ := sound_rvalues c es s1 s2 sc rest (hinv.ext hext1) h3
    simp at h4
    obtain ⟨rfl, rfl⟩ := h4
    exact ⟨hext1.trans hext2, by simp only [typeOfList, valueOfR_resolve, ht1, ht2, List.map_cons]⟩

end


theorem inv_init : Inv {} [] := by
  intro n
  simp [Locals.get?, Scope.find]

/-- a binding or callback that is ONE expression: if `tir::build` / `build_callback` produce code for it, the
    specification types the expression (in the empty scope), whatever diagnostics were pushed -/
theorem build_expr_sound (c : Ctx) (callback : Bool) (e : Expr)
    (h : (build c callback (.stmt (.expr e))).code.isSome = true) :
    ∃ t, typeOf (worldOf c) [] e = .ok t := by
  unfold build at h
  simp only [walkProgram, walkStmt] at h
  generalize hrun : run (do
      let value ← walkRvalue c e
      setB (visitExpressionStatement (← getB) value)) {} = res at h
  rcases res with ⟨o, st⟩
  have hrun' : (do
      let value ← walkRvalue c e
      setB (visitExpressionStatement (← getB) value) : W Unit).run {} = (o, st) := hrun
  simp only [hrun'] at h
  cases o with
  | none => simp at h
  | some u =>
    obtain ⟨a, s1, h1, _⟩ := bind_ok hrun
    obtain ⟨_, ht⟩ := rvalue_of_expr (sound_expr c e) {} s1 [] a inv_init h1
    exact ⟨_, ht⟩

end QV.Proofs.TypingSound
