/-
  C06, the builder for ALL programs — define-before-use, part 2: what every `visit_*` function of tir/builder.rs does
  to the certificate invariant `DInv` (same claim `ins`; the walk chooses the claims of new blocks).
-/
import QV.Proofs.BuilderInvDefBase

set_option linter.unusedSimpArgs false
set_option linter.unusedVariables false

namespace QV.Proofs.BuilderInv
open QV.Model QV.Model.Cfg

/-- what is known at the current point (the end of the current block) -/
def Cur (ins : Ins) (b : Builder) (x : Nat) : Prop := Out ins b (len b - 1) x

/-- an operand may be read at the current point -/
def OpOk (U : Nat → Prop) (ins : Ins) (b : Builder) (a : Operand) : Prop := ∀ x ∈ operandReads a, ¬ U x → Cur ins b x

/-- a step of the builder that keeps the claim: the invariant holds afterwards and no block knows less -/
structure DS (U : Nat → Prop) (ins : Ins) (b b' : Builder) : Prop where
  d : DInv U ins b'
  eq : len b' = len b
  om : ∀ i x, Out ins b i x → Out ins b' i x

theorem DS.refl {U : Nat → Prop} {ins : Ins} {b : Builder} (hd : DInv U ins b) : DS U ins b b := ⟨hd, rfl, fun _ _ h => h⟩

theorem DS.trans {U : Nat → Prop} {ins : Ins} {a b c : Builder} (h1 : DS U ins a b) (h2 : DS U ins b c) : DS U ins a c :=
  ⟨h2.d, h2.eq.trans h1.eq, fun i x h => h2.om i x (h1.om i x h)⟩

theorem DS.then_code {U : Nat → Prop} {ins : Ins} {b b1 b2 : Builder} (h : DS U ins b b1) (hc : b2.code = b1.code) : DS U ins b b2 :=
  ⟨h.d.congr hc, (len_congr hc).trans h.eq, fun i x hx => (Out.congr hc).2 (h.om i x hx)⟩

theorem DS.then_fail {U : Nat → Prop} {ins : Ins} {b b1 : Builder} (h : DS U ins b b1) (m : String) : DS U ins b (b1.fail m) :=
  h.then_code rfl

theorem DS.then_ite_fail {U : Nat → Prop} {ins : Ins} {b b1 : Builder} (h : DS U ins b b1) (c : Prop) [Decidable c] (m : String) :
    DS U ins b (if c then b1.fail m else b1) := h.then_code (ite_fail_code _ _ _)

theorem DS.then_alloca {U : Nat → Prop} {ins : Ins} {b b1 : Builder} (h : DS U ins b b1) (ty : TypeKind) : DS U ins b (b1.alloca ty).2 :=
  ⟨h.d.alloca ty, by rw [len_alloca]; exact h.eq, fun i x hx => (Out.alloca ty).2 (h.om i x hx)⟩

theorem DS.then_push {U : Nat → Prop} {ins : Ins} {b b1 : Builder} (h : DS U ins b b1) (k : Nat) (st : Statement)
    (hr : ∀ x ∈ stmtReads st, ¬ U x → Out ins b1 k x) : DS U ins b (b1.pushStatementAt k st) :=
  ⟨h.d.push k st hr, by rw [len_pushStatementAt]; exact h.eq, fun i x hx => (h.om i x hx).push k st⟩

theorem DS.then_fin {U : Nat → Prop} {ins : Ins} {b b1 : Builder} (h : DS U ins b b1) (k : Nat) (t : Terminator)
    (hr : ∀ x ∈ termReads t, ¬ U x → Out ins b1 k x)
    (hs : ∀ j ∈ successors (some t), ∀ x, ins j x → Out ins b1 k x) : DS U ins b (b1.finalizeAt k t) :=
  ⟨h.d.finalize k t hr hs, by rw [len_finalizeAt]; exact h.eq, fun i x hx => (Out.finalize k t).2 (h.om i x hx)⟩

theorem DS.then_completion {U : Nat → Prop} {ins : Ins} {b b1 : Builder} (h : DS U ins b b1) (v : Operand)
    (hr : ∀ x ∈ operandReads v, ¬ U x → Out ins b1 (len b1 - 1) x) : DS U ins b (b1.setCompletionValue v) :=
  ⟨h.d.setCompletion v hr, by rw [len_setCompletionValue]; exact h.eq, fun i x hx => (Out.setCompletion v).2 (h.om i x hx)⟩

theorem DS.cur {U : Nat → Prop} {ins : Ins} {b b' : Builder} (h : DS U ins b b') {x : Nat} (hx : Cur ins b x) : Cur ins b' x := by
  unfold Cur at hx ⊢; rw [h.eq]; exact h.om _ _ hx

theorem OpOk.mono {U : Nat → Prop} {ins : Ins} {b b' : Builder} {a : Operand} (h : OpOk U ins b a) (hs : DS U ins b b') :
    OpOk U ins b' a := fun x hx hu => hs.cur (h x hx hu)

@[simp] theorem reads_ensure (a : Operand) : operandReads (ensureConcreteString a) = operandReads a := by
  unfold ensureConcreteString
  split <;> simp [operandReads]

theorem OpOk.ensure {U : Nat → Prop} {ins : Ins} {b : Builder} {a : Operand} (h : OpOk U ins b a) : OpOk U ins b (ensureConcreteString a) := by
  unfold OpOk; rw [reads_ensure]; exact h

theorem OpOk.const (U : Nat → Prop) (ins : Ins) (b : Builder) (c : ConstantValue) : OpOk U ins b (.const c) := by
  intro x hx; simp [operandReads] at hx

theorem OpOk.void (U : Nat → Prop) (ins : Ins) (b : Builder) : OpOk U ins b .void := by
  intro x hx; simp [operandReads] at hx

/-! ### `emit_result` -/

theorem emitResult_void (b : Builder) (rv : Rvalue) : b.emitResult .void rv = (.void, b.pushStatement (.exec rv)) := by
  simp [Builder.emitResult, Builder.alloca]

theorem emitResult_nonvoid (b : Builder) (ty : TypeKind) (rv : Rvalue) (h : ty ≠ .void) :
    b.emitResult ty rv = (.local b.code.locals.length ty, (b.alloca ty).2.pushStatement (.assign b.code.locals.length rv)) := by
  simp [Builder.emitResult, Builder.alloca, h]

theorem ds_emit {U : Nat → Prop} {ins : Ins} {b b' : Builder} {ty : TypeKind} {rv : Rvalue} {a : Operand}
    (h : b.emitResult ty rv = (a, b')) (hd : DInv U ins b) (hpos : 0 < len b)
    (hr : ∀ x ∈ rvalueReads rv, ¬ U x → Cur ins b x) : DS U ins b b' ∧ OpOk U ins b' a := by
  by_cases hv : ty = .void
  · subst hv
    rw [emitResult_void] at h
    simp at h
    rw [← h.1, ← h.2]
    refine ⟨(DS.refl hd).then_push _ _ (fun x hx hu => ?_), OpOk.void _ _ _⟩
    exact hr x (by simpa [stmtReads] using hx) hu
  · rw [emitResult_nonvoid b ty rv hv] at h
    simp at h
    rw [← h.1, ← h.2]
    have h1 : DS U ins b (b.alloca ty).2 := (DS.refl hd).then_alloca ty
    have hcr : (b.alloca ty).2.currentRef = len b - 1 := by
      show len (b.alloca ty).2 - 1 = len b - 1
      rw [len_alloca]
    unfold Builder.pushStatement
    rw [hcr]
    refine ⟨h1.then_push _ _ (fun x hx hu => ?_), fun x hx hu => ?_⟩
    · exact h1.om _ _ (hr x (by simpa [stmtReads] using hx) hu)
    · simp [operandReads] at hx
      subst hx
      unfold Cur
      rw [len_pushStatementAt, len_alloca]
      exact Out.push_def (by rw [len_alloca]; omega) _ _

/-! ### the visitors that emit straight-line code -/

theorem visitInteger_d {U : Nat → Prop} {ins : Ins} {b b' : Builder} {v : Nat} {a : Operand} (h : visitInteger b v = .ok (a, b'))
    (hd : DInv U ins b) : DS U ins b b' ∧ OpOk U ins b' a := by
  unfold visitInteger at h
  split at h <;> simp at h
  rw [← h.1, ← h.2]; exact ⟨DS.refl hd, OpOk.const _ _ _ _⟩

theorem reads_map_ensure (els : List Operand) (x : Nat) (hx : x ∈ (els.map ensureConcreteString).flatMap operandReads) :
    ∃ e ∈ els, x ∈ operandReads e := by
  simp only [List.mem_flatMap, List.mem_map] at hx
  obtain ⟨a, ⟨e, he, rfl⟩, hxa⟩ := hx
  exact ⟨e, he, by simpa using hxa⟩

theorem visitArray_d {U : Nat → Prop} {ins : Ins} {env : Env} {b b' : Builder} {els : List Operand} {a : Operand}
    (h : visitArray env b els = .ok (a, b')) (hd : DInv U ins b) (hpos : 0 < len b) (he : ∀ e ∈ els, OpOk U ins b e) :
    DS U ins b b' ∧ OpOk U ins b' a := by
  unfold visitArray at h
  simp only at h
  split at h
  · simp at h; rw [← h.1, ← h.2]; exact ⟨DS.refl hd, OpOk.const _ _ _ _⟩
  · split at h
    · simp at h
    · split at h
      · simp at h
      · simp at h
        refine ds_emit h hd hpos (fun x hx hu => ?_)
        simp only [rvalueReads] at hx
        obtain ⟨e, he1, he2⟩ := reads_map_ensure els x hx
        exact he e he1 x he2 hu

theorem visitLocalRef_d {U : Nat → Prop} {ins : Ins} {b b' : Builder} {l : Nat} {a : Operand} (h : visitLocalRef b l = .ok (a, b'))
    (hd : DInv U ins b) (hl : U l ∨ Cur ins b l) : DS U ins b b' ∧ OpOk U ins b' a := by
  unfold visitLocalRef at h
  split at h <;> simp at h
  · rw [← h.1, ← h.2]
    refine ⟨DS.refl hd, fun x hx hu => ?_⟩
    simp [operandReads] at hx
    subst hx
    rcases hl with h1 | h1
    · exact absurd h1 hu
    · exact h1
  · rw [← h.1, ← h.2]; exact ⟨(DS.refl hd).then_fail _, OpOk.void _ _ _⟩

theorem visitLocalDeclaration_d {U : Nat → Prop} {ins : Ins} {b b' : Builder} {ty : TypeKind} {n : Nat}
    (h : visitLocalDeclaration b ty = .ok (n, b')) (hd : DInv U ins b) : DS U ins b b' := by
  unfold visitLocalDeclaration at h
  have hs := (DS.refl hd).then_alloca ty
  split at h <;> simp at h
  rename_i heq
  rw [← h.2]
  rw [heq] at hs
  exact hs

/-- `let v = e` / `v = e`: afterwards the variable is known at the current point -/
theorem visitLocalAssignment_d {U : Nat → Prop} {ins : Ins} {env : Env} {b b' : Builder} {l : Nat} {r a : Operand}
    (h : visitLocalAssignment env b l r = .ok (a, b')) (hd : DInv U ins b) (hpos : 0 < len b) (hr : OpOk U ins b r) :
    DS U ins b b' ∧ OpOk U ins b' a ∧ (l < b.code.locals.length → Cur ins b' l) := by
  unfold visitLocalAssignment at h
  split at h
  · rename_i heq
    simp at h; rw [← h.1, ← h.2]
    refine ⟨(DS.refl hd).then_fail _, OpOk.void _ _ _, fun h1 => ?_⟩
    rw [List.getElem?_eq_getElem h1] at heq
    simp at heq
  · simp only at h
    split at h <;> simp at h
    rw [← h.1, ← h.2]
    unfold Builder.pushStatement
    have hcr : b.currentRef = len b - 1 := rfl
    rw [hcr]
    refine ⟨(DS.refl hd).then_push _ _ (fun x hx hu => ?_), OpOk.void _ _ _, fun _ => ?_⟩
    · exact hr x (by simpa [stmtReads, rvalueReads] using hx) hu
    · unfold Cur
      rw [len_pushStatementAt]
      exact Out.push_def (by omega) _ _

theorem DInv.np_grow {U : Nat → Prop} {ins : Ins} {b : Builder} (n : Nat) (hn : np b ≤ n) (hd : DInv U ins b) :
    DInv U ins { b with code := { b.code with parameterCount := n } } := by
  have ho : ∀ i x, Out ins b i x → Out ins { b with code := { b.code with parameterCount := n } } i x := by
    intro i x hx
    rcases hx with h | h | h
    · exact Or.inl h
    · exact Or.inr (Or.inl h)
    · exact Or.inr (Or.inr (Nat.lt_of_lt_of_le h hn))
  refine ⟨fun i => ?_, fun i t hti => ?_, fun i a hci => ?_⟩
  · exact (hd.sc i).mono (fun _ h => h) (fun x hx => by
      rcases hx with h | h
      · exact Or.inl h
      · exact Or.inr (Nat.lt_of_lt_of_le h hn))
  · obtain ⟨h1, h2⟩ := hd.tc i t hti
    exact ⟨fun x hx hu => ho i x (h1 x hx hu), fun j hj x hx => ho i x (h2 j hj x hx)⟩
  · exact fun x hx hu => ho i x (hd.cc i a hci x hx hu)

/-- a parameter is known from the start -/
theorem visitFunctionParameter_d {U : Nat → Prop} {ins : Ins} {b b' : Builder} {ty : TypeKind} {n : Nat}
    (h : visitFunctionParameter b ty = .ok (n, b')) (hd : DInv U ins b) (hnp : np b ≤ b.code.locals.length) :
    DS U ins b b' ∧ n < np b' ∧ np b' ≤ b'.code.locals.length := by
  unfold visitFunctionParameter at h
  simp only at h
  generalize hb0 : (if b.code.locals.length ≠ b.code.parameterCount then
    b.fail "function parameters must be declared prior to any local declarations" else b) = b0 at h
  have hc0 : b0.code = b.code := by rw [← hb0]; exact ite_fail_code _ _ _
  have h0 : DS U ins b b0 := (DS.refl hd).then_code hc0
  by_cases hv : ty = .void
  · subst hv
    simp [Builder.alloca] at h
  · have h1 : DS U ins b (b0.alloca ty).2 := h0.then_alloca ty
    have hal : b0.alloca ty = (some (.local b0.code.locals.length ty), (b0.alloca ty).2) := by simp [Builder.alloca, hv]
    have hl1 : (b0.alloca ty).2.code.locals.length = b0.code.locals.length + 1 := by simp [Builder.alloca, hv]
    have hnp1 : np (b0.alloca ty).2 = np b0 := np_alloca _ _
    rw [hal] at h
    simp only at h
    generalize (b0.alloca ty).2 = b1 at h h1 hl1 hnp1
    simp at h
    obtain ⟨hn, hb'⟩ := h
    have hnp0 : np b0 ≤ b0.code.locals.length := by rw [np_congr hc0, hc0]; exact hnp
    have hle : np b1 ≤ b1.code.locals.length := by rw [hnp1, hl1]; omega
    rw [← hb']
    refine ⟨⟨DInv.np_grow _ hle h1.d, h1.eq, fun i x hx => ?_⟩, ?_, ?_⟩
    · rcases h1.om i x hx with h | h | h
      · exact Or.inl h
      · exact Or.inr (Or.inl h)
      · exact Or.inr (Or.inr (Nat.lt_of_lt_of_le h hle))
    · show n < b1.code.locals.length
      omega
    · exact Nat.le_refl _

theorem visitObjectProperty_d {U : Nat → Prop} {ins : Ins} {b b' : Builder} {o a : Operand} {p : PropInfo}
    (h : visitObjectProperty b o p = .ok (a, b')) (hd : DInv U ins b) (hpos : 0 < len b) (ho : OpOk U ins b o) :
    DS U ins b b' ∧ OpOk U ins b' a := by
  unfold visitObjectProperty at h
  split at h <;> simp at h
  exact ds_emit h hd hpos (fun x hx hu => ho x (by simpa [rvalueReads] using hx) hu)

theorem visitObjectPropertyAssignment_d {U : Nat → Prop} {ins : Ins} {env : Env} {b b' : Builder} {o r a : Operand} {p : PropInfo}
    (h : visitObjectPropertyAssignment env b o p r = .ok (a, b')) (hd : DInv U ins b) (hpos : 0 < len b)
    (ho : OpOk U ins b o) (hr : OpOk U ins b r) : DS U ins b b' ∧ OpOk U ins b' a := by
  unfold visitObjectPropertyAssignment at h
  split at h
  · simp at h
  · simp only at h
    split at h <;> simp at h
    refine ds_emit h hd hpos (fun x hx hu => ?_)
    simp [rvalueReads] at hx
    rcases hx with h1 | h1
    · exact ho x h1 hu
    · exact hr x h1 hu

theorem visitObjectSubscript_d {U : Nat → Prop} {ins : Ins} {b b' : Builder} {o i a : Operand}
    (h : visitObjectSubscript b o i = .ok (a, b')) (hd : DInv U ins b) (hpos : 0 < len b)
    (ho : OpOk U ins b o) (hi : OpOk U ins b i) : DS U ins b b' ∧ OpOk U ins b' a := by
  unfold visitObjectSubscript at h
  split at h <;> simp at h
  refine ds_emit h hd hpos (fun x hx hu => ?_)
  simp [rvalueReads] at hx
  rcases hx with h1 | h1
  · exact ho x h1 hu
  · exact hi x h1 hu

theorem visitObjectSubscriptAssignment_d {U : Nat → Prop} {ins : Ins} {env : Env} {b b' : Builder} {o i r a : Operand}
    (h : visitObjectSubscriptAssignment env b o i r = .ok (a, b')) (hd : DInv U ins b) (hpos : 0 < len b)
    (ho : OpOk U ins b o) (hi : OpOk U ins b i) (hr : OpOk U ins b r) : DS U ins b b' ∧ OpOk U ins b' a := by
  unfold visitObjectSubscriptAssignment at h
  split at h
  · simp at h
  · split at h <;> simp at h
    rw [← h.1, ← h.2]
    unfold Builder.pushStatement
    refine ⟨(DS.refl hd).then_push _ _ (fun x hx hu => ?_), OpOk.void _ _ _⟩
    simp [stmtReads, rvalueReads] at hx
    rcases hx with h1 | h1 | h1
    · exact ho x h1 hu
    · exact hi x h1 hu
    · exact hr x h1 hu

theorem visitObjectMethodCall_d {U : Nat → Prop} {ins : Ins} {env : Env} {b b' : Builder} {o a : Operand} {ms : List MethodInfo}
    {args : List Operand} (h : visitObjectMethodCall env b o ms args = .ok (a, b')) (hd : DInv U ins b) (hpos : 0 < len b)
    (ho : OpOk U ins b o) (ha : ∀ e ∈ args, OpOk U ins b e) : DS U ins b b' ∧ OpOk U ins b' a := by
  unfold visitObjectMethodCall at h
  simp only at h
  split at h <;> simp at h
  refine ds_emit h hd hpos (fun x hx hu => ?_)
  simp only [rvalueReads, List.mem_append] at hx
  rcases hx with h1 | h1
  · exact ho x (by simpa using h1) hu
  · obtain ⟨e, he1, he2⟩ := reads_map_ensure args x h1
    exact ha e he1 x he2 hu

theorem visitBuiltinCall_d {U : Nat → Prop} {ins : Ins} {env : Env} {b b' : Builder} {f : Builtin} {args : List Operand} {a : Operand}
    (h : visitBuiltinCall env b f args = .ok (a, b')) (hd : DInv U ins b) (hpos : 0 < len b)
    (ha : ∀ e ∈ args, OpOk U ins b e) : DS U ins b b' ∧ OpOk U ins b' a := by
  have hall : ∀ x ∈ args.flatMap operandReads, ¬ U x → Cur ins b x := by
    intro x hx hu
    simp only [List.mem_flatMap] at hx
    obtain ⟨e, he1, he2⟩ := hx
    exact ha e he1 x he2 hu
  unfold visitBuiltinCall at h
  cases f with
  | consoleLog lv => simp at h; exact ds_emit h hd hpos (fun x hx hu => hall x (by simpa [rvalueReads] using hx) hu)
  | tr =>
    simp only at h
    split at h
    · split at h <;> simp at h
      exact ds_emit h hd hpos (fun x hx hu => hall x (by simpa [rvalueReads] using hx) hu)
    · simp at h
  | max =>
    simp only at h
    split at h
    · split at h
      · simp at h
      · split at h <;> simp at h
        refine ds_emit h hd hpos (fun x hx hu => hall x ?_ hu)
        simpa [rvalueReads] using hx
    · simp at h
  | min =>
    simp only at h
    split at h
    · split at h
      · simp at h
      · split at h <;> simp at h
        refine ds_emit h hd hpos (fun x hx hu => hall x ?_ hu)
        simpa [rvalueReads] using hx
    · simp at h

theorem emitUnary_d {U : Nat → Prop} {ins : Ins} {b b' : Builder} {op : UnaryOp} {arg a : Operand}
    (h : emitUnaryExpression b op arg = .ok (a, b')) (hd : DInv U ins b) (hpos : 0 < len b) (ha : OpOk U ins b arg) :
    DS U ins b b' ∧ OpOk U ins b' a := by
  unfold emitUnaryExpression at h
  simp only at h
  split at h <;> simp at h
  exact ds_emit h hd hpos (fun x hx hu => ha x (by simpa [rvalueReads] using hx) hu)

theorem visitUnaryExpression_d {U : Nat → Prop} {ins : Ins} {F : FloatOps} {b b' : Builder} {op : UnaryOp} {arg a : Operand}
    (h : visitUnaryExpression F b op arg = .ok (a, b')) (hd : DInv U ins b) (hpos : 0 < len b) (ha : OpOk U ins b arg) :
    DS U ins b b' ∧ OpOk U ins b' a := by
  unfold visitUnaryExpression at h
  split at h
  · simp only at h
    split at h
    · simp at h; rw [← h.1, ← h.2]; exact ⟨DS.refl hd, OpOk.const _ _ _ _⟩
    · simp at h
  · exact emitUnary_d h hd hpos ha

theorem emitBinary_d {U : Nat → Prop} {ins : Ins} {env : Env} {b b' : Builder} {op : BinaryOp} {l r a : Operand}
    (h : emitBinaryExpression env b op l r = .ok (a, b')) (hd : DInv U ins b) (hpos : 0 < len b)
    (hl : OpOk U ins b l) (hr : OpOk U ins b r) : DS U ins b b' ∧ OpOk U ins b' a := by
  unfold emitBinaryExpression at h
  simp only at h
  split at h
  · simp at h
  · rename_i tyR ty b0 heq
    simp at h
    have hb0 : b0.code = b.code := by
      cases op with
      | logical o => simp at heq; rw [← heq.2]; rfl
      | arith o =>
        simp only at heq
        split at heq
        · simp at heq
        · split at heq
          · simp at heq; rw [← heq.2]
          · split at heq
            · split at heq <;> simp at heq; rw [← heq.2]
            · simp at heq
      | bitwise o =>
        simp only at heq
        split at heq
        · simp at heq
        · split at heq <;> simp at heq; rw [← heq.2]
      | shift o =>
        simp only at heq
        split at heq
        · simp at heq
        · split at heq <;> simp at heq; rw [← heq.2]
      | cmp o =>
        simp only at heq
        split at heq
        · simp at heq
        · split at heq <;> simp at heq; rw [← heq.2]
    have h0 : DS U ins b b0 := (DS.refl hd).then_code hb0
    obtain ⟨h1, h2⟩ := ds_emit h h0.d (by rw [h0.eq]; exact hpos) (fun x hx hu => by
      simp [rvalueReads] at hx
      rcases hx with h1 | h1
      · exact h0.cur (hl x h1 hu)
      · exact h0.cur (hr x h1 hu))
    exact ⟨h0.trans h1, h2⟩

theorem visitBinaryExpression_d {U : Nat → Prop} {ins : Ins} {F : FloatOps} {env : Env} {b b' : Builder} {op : BinaryOp}
    {l r a : Operand} (h : visitBinaryExpression F env b op l r = .ok (a, b')) (hd : DInv U ins b) (hpos : 0 < len b)
    (hl : OpOk U ins b l) (hr : OpOk U ins b r) : DS U ins b b' ∧ OpOk U ins b' a := by
  unfold visitBinaryExpression at h
  split at h
  · simp only at h
    split at h
    · rename_i v b0 heq
      simp at h
      rw [← h.1, ← h.2]
      have hb0 : b0.code = b.code := by
        cases op <;> simp at heq <;> rw [← heq.2] <;> rfl
      exact ⟨(DS.refl hd).then_code hb0, OpOk.const _ _ _ _⟩
    · simp at h
  · exact emitBinary_d h hd hpos hl hr

theorem visitAsExpression_d {U : Nat → Prop} {ins : Ins} {env : Env} {b b' : Builder} {v a : Operand} {ty : TypeKind}
    (h : visitAsExpression env b v ty = .ok (a, b')) (hd : DInv U ins b) (hpos : 0 < len b) (hv : OpOk U ins b v) :
    DS U ins b b' ∧ OpOk U ins b' a := by
  unfold visitAsExpression at h
  simp only at h
  split at h <;> simp at h
  · rw [← h.1, ← h.2]; exact ⟨DS.refl hd, hv.ensure⟩
  · exact ds_emit h hd hpos (fun x hx hu => hv x (by simpa [rvalueReads] using hx) hu)
  · exact ds_emit h hd hpos (fun x hx hu => hv x (by simpa [rvalueReads] using hx) hu)
  · exact ds_emit h hd hpos (fun x hx hu => hv x (by simpa [rvalueReads] using hx) hu)

theorem visitExpressionStatement_d {U : Nat → Prop} {ins : Ins} {b : Builder} {v : Operand} (hd : DInv U ins b)
    (hv : OpOk U ins b v) : DS U ins b (visitExpressionStatement b v) := by
  unfold visitExpressionStatement
  exact (DS.refl hd).then_completion _ (fun x hx hu => hv x (by simpa using hx) hu)

end QV.Proofs.BuilderInv
