/-
  Helper lemmas for QV.Props.C04: per-binding fate of the constant pass, the mode switch, and transport of
  memberships through `cxxAll` / `commonDiags` / `run`.
-/
import QV.Proofs.Passes

namespace QV.Proofs.Passes
open QV.Model.Passes

/-! ### names -/

theorem tagOf_other (n : Str) (h1 : n ≠ "actions".toList) (h2 : n ≠ "model".toList) (h3 : n ≠ "separator".toList)
   (h4 : n ≠ "flow".toList) (h5 : n ≠ "columns".toList) (h6 : n ≠ "rows".toList) (h7 : n ≠ "horizontalHeader".toList)
   (h8 : n ≠ "verticalHeader".toList) (h9 : n ≠ "header".toList) : tagOf n = .other := by
  unfold tagOf
  rw [if_neg h1, if_neg h2, if_neg h3, if_neg h4, if_neg h5, if_neg h6, if_neg h7, if_neg h8, if_neg h9]

theorem tagOf_spec (n : Str) :
    (n = "actions".toList ∧ tagOf n = .actions) ∨ (n = "model".toList ∧ tagOf n = .model) ∨
    (n = "separator".toList ∧ tagOf n = .separator) ∨ (n = "flow".toList ∧ tagOf n = .flow) ∨
    (n = "columns".toList ∧ tagOf n = .columns) ∨ (n = "rows".toList ∧ tagOf n = .rows) ∨
    (n = "horizontalHeader".toList ∧ tagOf n = .hHeader) ∨ (n = "verticalHeader".toList ∧ tagOf n = .vHeader) ∨
    (n = "header".toList ∧ tagOf n = .header) ∨
    (tagOf n = .other ∧ n ≠ "actions".toList ∧ n ≠ "model".toList ∧ n ≠ "separator".toList ∧ n ≠ "flow".toList ∧
      n ≠ "columns".toList ∧ n ≠ "rows".toList ∧ n ≠ "horizontalHeader".toList ∧ n ≠ "verticalHeader".toList ∧
      n ≠ "header".toList) := by
  by_cases h1 : n = "actions".toList
  · left; exact ⟨h1, by rw [h1]; decide⟩
  right
  by_cases h2 : n = "model".toList
  · left; exact ⟨h2, by rw [h2]; decide⟩
  right
  by_cases h3 : n = "separator".toList
  · left; exact ⟨h3, by rw [h3]; decide⟩
  right
  by_cases h4 : n = "flow".toList
  · left; exact ⟨h4, by rw [h4]; decide⟩
  right
  by_cases h5 : n = "columns".toList
  · left; exact ⟨h5, by rw [h5]; decide⟩
  right
  by_cases h6 : n = "rows".toList
  · left; exact ⟨h6, by rw [h6]; decide⟩
  right
  by_cases h7 : n = "horizontalHeader".toList
  · left; exact ⟨h7, by rw [h7]; decide⟩
  right
  by_cases h8 : n = "verticalHeader".toList
  · left; exact ⟨h8, by rw [h8]; decide⟩
  right
  by_cases h9 : n = "header".toList
  · left; exact ⟨h9, by rw [h9]; decide⟩
  right
  exact ⟨tagOf_other n h1 h2 h3 h4 h5 h6 h7 h8 h9, h1, h2, h3, h4, h5, h6, h7, h8, h9⟩

/-! ### scalar bindings -/

def entryId : EntryOut → Nat
  | .leaf l _ _ => l.id
  | .group g _ => g.id

theorem constLeaf_id (r : Route) (l : Leaf) : (constLeaf r l).id = l.id := by
  unfold constLeaf
  repeat' split
  all_goals rfl

theorem constLeaf_evaluated (r : Route) (l : Leaf) : (constLeaf r l).evaluated = (r != .untouched) := by
  unfold constLeaf
  repeat' split
  all_goals first | rfl | simp_all

theorem constLeaf_emb (r : Route) (l : Leaf) (v : Value) (h : (constLeaf r l).emb = some v) :
    (constLeaf r l).evaluated = true ∧ l.const = some (.ok v) := by
  rw [constLeaf_evaluated]
  unfold constLeaf at h
  repeat' split at h
  all_goals simp_all

/-- lemma A: a scalar binding the constant pass looks at is embedded, diagnosed, panics, is left for the mode switch,
    or is one of the two silent drops -/
theorem constLeaf_fate (r : Route) (l : Leaf) :
    (constLeaf r l).panic = true ∨ (constLeaf r l).emb.isSome = true ∨ (constLeaf r l).diags ≠ [] ∨
    (constLeaf r l).evalConst l = false ∨ (r = .separator ∧ l.const = some (.ok 0)) ∨
    (r = .refList ∧ l.shapeOk = false) := by
  unfold LeafOut.evalConst Leaf.isConst
  rw [constLeaf_evaluated]
  unfold constLeaf
  repeat' split
  all_goals simp_all

/-! ### members of grouped bindings -/

structure MemberOK (gd : List DK) (f : Leaf → LeafOut) : Prop where
  id : ∀ l, (f l).id = l.id
  emb : ∀ l v, (f l).emb = some v → (f l).evaluated = true ∧ l.const = some (.ok v)
  fate : ∀ l, (f l).panic = true ∨ (f l).emb.isSome = true ∨ (f l).diags ≠ [] ∨ gd ≠ [] ∨ (f l).evalConst l = false
  uniform : gd = [] → ∀ l l', (f l).diags = [] → (f l').diags = [] → (f l).evaluated = (f l').evaluated

theorem ok_constLeaf (gd : List DK) (r : Route) (hr : r ≠ .separator ∧ r ≠ .refList) : MemberOK gd (constLeaf r) where
  id l := constLeaf_id r l
  emb l v := constLeaf_emb r l v
  fate l := by
    rcases constLeaf_fate r l with h | h | h | h | h | h
    · exact Or.inl h
    · exact Or.inr (Or.inl h)
    · exact Or.inr (Or.inr (Or.inl h))
    · exact Or.inr (Or.inr (Or.inr (Or.inr h)))
    · exact absurd h.1 hr.1
    · exact absurd h.1 hr.2
  uniform _ l l' _ _ := by rw [constLeaf_evaluated, constLeaf_evaluated]

theorem ok_simpleNoRange (gd : List DK) : MemberOK gd (fun l => constLeaf .simple { l with rangeOk := true }) where
  id l := constLeaf_id _ _
  emb l v h := constLeaf_emb .simple { l with rangeOk := true } v h
  fate l := by
    have := (ok_constLeaf gd .simple (by decide)).fate { l with rangeOk := true }
    simpa [LeafOut.evalConst, Leaf.isConst] using this
  uniform _ l l' _ _ := by simp only [constLeaf_evaluated]

theorem ok_ite (gd : List DK) (c : Leaf → Prop) [DecidablePred c] (f g : Leaf → LeafOut)
    (hf : MemberOK gd f) (hg : MemberOK gd g)
    (hu : ∀ l l', (f l).diags = [] → (g l').diags = [] → (f l).evaluated = (g l').evaluated) :
    MemberOK gd (fun l => if c l then f l else g l) where
  id l := by by_cases h : c l <;> simp [h, hf.id, hg.id]
  emb l v := by
    by_cases h : c l <;> simp only [h, if_true, if_false]
    · exact hf.emb l v
    · exact hg.emb l v
  fate l := by
    by_cases h : c l <;> simp only [h, if_true, if_false]
    · exact hf.fate l
    · exact hg.fate l
  uniform hgd l l' := by
    by_cases h : c l <;> by_cases h' : c l' <;> simp only [h, h', if_true, if_false]
    · exact hf.uniform hgd l l'
    · exact hu l l'
    · intro a b; exact (hu l' l b a).symm
    · exact hg.uniform hgd l l'

theorem ok_dropEmb (gd : List DK) (hgd : gd ≠ []) (f : Leaf → LeafOut) (hf : MemberOK gd f) :
    MemberOK gd (dropEmb ∘ f) where
  id l := hf.id l
  emb l v h := by simp [dropEmb] at h
  fate l := Or.inr (Or.inr (Or.inr (Or.inl hgd)))
  uniform h := absurd h hgd

/-- the size-policy post-processing of a member: a value that cannot be used is dropped with a diagnostic -/
def spPost (c : Bool) (k : DK) (o : LeafOut) : LeafOut :=
  if o.emb.isSome && c then { dropEmb o with diags := o.diags ++ [k] } else o

theorem ok_spPost (gd : List DK) (c : Bool) (k : DK) (f : Leaf → LeafOut) (hf : MemberOK gd f) :
    MemberOK gd (fun l => spPost c k (f l)) where
  id l := by
    unfold spPost; split
    · exact hf.id l
    · exact hf.id l
  emb l v h := by
    unfold spPost at h ⊢; split at h
    · simp [dropEmb] at h
    · rename_i hc; simp only [hc]; exact hf.emb l v h
  fate l := by
    unfold spPost; split
    · simp
    · exact hf.fate l
  uniform hgd l l' := by
    unfold spPost; split <;> split
    · simp
    · simp
    · simp
    · exact hf.uniform hgd l l'

def spUnknownOut (l : Leaf) : LeafOut :=
  { id := l.id, evaluated := false, emb := none, diags := [.spUnknown], panic := false }

theorem ok_spUnknown (gd : List DK) : MemberOK gd spUnknownOut where
  id _ := rfl
  emb l v h := by simp [spUnknownOut] at h
  fate l := by simp [spUnknownOut]
  uniform _ _ _ _ _ := rfl

theorem sizePolicyMember_eq (hOk vOk : Bool) (l : Leaf) :
    sizePolicyMember hOk vOk l =
      if l.name = "horizontalPolicy".toList ∨ l.name = "verticalPolicy".toList then
        spPost (!(hOk && vOk)) .spBoth (constLeaf .simple { l with rangeOk := true })
      else if l.name = "horizontalStretch".toList ∨ l.name = "verticalStretch".toList then
        spPost (!(hOk && vOk)) .spStretch (constLeaf .value l)
      else spUnknownOut l := by
  unfold sizePolicyMember spPost spUnknownOut
  simp only [Bool.or_eq_true, decide_eq_true_eq]
  split
  · cases hOk <;> cases vOk <;> simp
  · rfl

@[simp] theorem spPost_evaluated (c : Bool) (k : DK) (o : LeafOut) : (spPost c k o).evaluated = o.evaluated := by
  unfold spPost; split <;> rfl

theorem ok_sizePolicy (gd : List DK) (hOk vOk : Bool) : MemberOK gd (sizePolicyMember hOk vOk) := by
  rw [funext (sizePolicyMember_eq hOk vOk)]
  refine ok_ite gd _ _ _ (ok_spPost gd _ _ _ (ok_simpleNoRange gd))
    (ok_ite gd _ _ _ (ok_spPost gd _ _ _ (ok_constLeaf gd .value (by decide))) (ok_spUnknown gd) ?_) ?_
  · intro l l' _ h; simp [spUnknownOut] at h
  · intro l l' _ h
    split at h
    · rename_i hc
      rw [if_pos hc]
      simp only [spPost_evaluated, constLeaf_evaluated]
      decide
    · simp [spUnknownOut] at h

/-- the member function of `gadgetMembers` -/
def gadgetFn (k : GKind) (ms : List Leaf) : Leaf → LeafOut :=
  match k with
  | .generic | .palette | .colorGroup => constLeaf .value
  | .brush => fun l => if l.name = "style".toList then constLeaf .simple { l with rangeOk := true } else constLeaf .value l
  | .icon => fun l => if l.name = "name".toList then constLeaf .simple { l with rangeOk := true } else constLeaf .value l
  | .sizePolicy => sizePolicyMember (policyOk "horizontalPolicy".toList ms) (policyOk "verticalPolicy".toList ms)
  | .unsupported | .object => constLeaf .untouched

theorem gadgetMembers_eq (k : GKind) (ms : List Leaf) : gadgetMembers k ms = ms.map (gadgetFn k ms) := by
  cases k <;> rfl

theorem ok_gadgetFn (gd : List DK) (k : GKind) (ms : List Leaf) : MemberOK gd (gadgetFn k ms) := by
  cases k <;> simp only [gadgetFn]
  case generic | palette | colorGroup => exact ok_constLeaf gd .value (by decide)
  case brush | icon =>
    exact ok_ite gd _ _ _ (ok_simpleNoRange gd) (ok_constLeaf gd .value (by decide))
      (by intros; simp only [constLeaf_evaluated]; decide)
  case sizePolicy => exact ok_sizePolicy gd _ _
  case unsupported | object => exact ok_constLeaf gd .untouched (by decide)

theorem constGroup_ok (gr : GRoute) (g : Group) :
    ∃ f, (constGroup gr g).members = g.members.map f ∧ MemberOK (constGroup gr g).diags f := by
  cases gr <;> cases hk : g.kind <;> cases hw : g.writable <;>
    simp +decide only [constGroup, hk, hw, gadgetMembers_eq, List.map_map, Bool.and_true,
      Bool.and_false, Bool.not_true, Bool.not_false, if_true, if_false, List.nil_append,
      Bool.false_eq_true] <;>
    first
    | exact ⟨_, rfl, ok_constLeaf _ _ (by decide)⟩
    | exact ⟨_, rfl, ok_gadgetFn _ _ _⟩
    | exact ⟨_, rfl, ok_dropEmb _ (by simp) _ (ok_gadgetFn _ _ _)⟩
    | exact ⟨_, rfl, ok_dropEmb _ (by simp) _ (ok_constLeaf _ _ (by decide))⟩

/-! ### entries -/

theorem mem_zip_map {α β : Type} (f : α → β) (ms : List α) (x : α × β) (h : x ∈ ms.zip (ms.map f)) :
    x.1 ∈ ms ∧ x.2 = f x.1 := by
  induction ms with
  | nil => simp at h
  | cons m ms ih =>
    simp only [List.map_cons, List.zip_cons_cons, List.mem_cons] at h
    rcases h with rfl | h
    · simp
    · have := ih h
      exact ⟨List.mem_cons_of_mem _ this.1, this.2⟩

/-- entries as the constant pass of the model produces them -/
inductive Produced : EntryOut → Prop
  | leaf (r : Route) (l : Leaf) (extra : List DK) : Produced (.leaf l (constLeaf r l) extra)
  | group (gr : GRoute) (g : Group) : Produced (.group g (constGroup gr g))

/-- an embedded value is the converted value of an evaluated constant -/
theorem Produced.emb {e : EntryOut} (he : Produced e) {x : Leaf × LeafOut} (hx : x ∈ e.leafOuts) (v : Value)
    (h : x.2.emb = some v) : x.2.evaluated = true ∧ x.1.const = some (.ok v) := by
  cases he with
  | leaf r l extra =>
    simp only [EntryOut.leafOuts, List.mem_singleton] at hx
    subst hx
    exact constLeaf_emb r l v h
  | group gr g =>
    obtain ⟨f, hf, ok⟩ := constGroup_ok gr g
    simp only [EntryOut.leafOuts, hf] at hx
    obtain ⟨_, h2⟩ := mem_zip_map f _ x hx
    rw [h2] at h ⊢
    exact ok.emb _ v h

/-- per-leaf outcome of the constant pass on an entry -/
def Fate (e : EntryOut) (x : Leaf × LeafOut) : Prop :=
  x.2.panic = true ∨ x.2.emb.isSome = true ∨ (∃ d ∈ e.diags, d.subj = x.1.id ∨ d.subj = entryId e) ∨
    (e.evalConst = false ∧ x.2.evalConst x.1 = false)

theorem exists_mem_of_ne_nil {α : Type} {l : List α} (h : l ≠ []) : ∃ a, a ∈ l := by
  cases l with
  | nil => exact absurd rfl h
  | cons a _ => exact ⟨a, by simp⟩

theorem leaf_fate (r : Route) (l : Leaf) (extra : List DK)
    (h1 : ¬ (r = .separator ∧ l.const = some (.ok 0))) (h2 : ¬ (r = .refList ∧ l.shapeOk = false)) :
    ∀ x ∈ (EntryOut.leaf l (constLeaf r l) extra).leafOuts, Fate (.leaf l (constLeaf r l) extra) x := by
  intro x hx
  simp only [EntryOut.leafOuts, List.mem_singleton] at hx
  subst hx
  rcases constLeaf_fate r l with h | h | h | h | h | h
  · exact Or.inl h
  · exact Or.inr (Or.inl h)
  · obtain ⟨k, hk⟩ := exists_mem_of_ne_nil h
    refine Or.inr (Or.inr (Or.inl ⟨⟨l.id, k⟩, ?_, Or.inl rfl⟩))
    simp [EntryOut.diags, hk]
  · exact Or.inr (Or.inr (Or.inr ⟨h, h⟩))
  · exact absurd h h1
  · exact absurd h h2

/-- lemma B -/
theorem group_fate (gr : GRoute) (g : Group) :
    ∀ x ∈ (EntryOut.group g (constGroup gr g)).leafOuts, Fate (.group g (constGroup gr g)) x := by
  intro x hx
  obtain ⟨f, hf, ok⟩ := constGroup_ok gr g
  have hx0 := hx
  simp only [EntryOut.leafOuts, hf] at hx
  obtain ⟨hm, h2⟩ := mem_zip_map f _ x hx
  rcases ok.fate x.1 with h | h | h | h | h
  · exact Or.inl (h2 ▸ h)
  · exact Or.inr (Or.inl (h2 ▸ h))
  · obtain ⟨k, hk⟩ := exists_mem_of_ne_nil h
    refine Or.inr (Or.inr (Or.inl ⟨⟨x.1.id, k⟩, ?_, Or.inl rfl⟩))
    simp only [EntryOut.diags, List.mem_append, List.mem_flatMap, List.mem_map, hf]
    exact Or.inr ⟨f x.1, ⟨x.1, hm, rfl⟩, k, hk, by rw [ok.id]⟩
  · obtain ⟨k, hk⟩ := exists_mem_of_ne_nil h
    refine Or.inr (Or.inr (Or.inl ⟨⟨g.id, k⟩, ?_, Or.inr rfl⟩))
    simp only [EntryOut.diags, List.mem_append, List.mem_map]
    exact Or.inl ⟨k, hk, rfl⟩
  · refine Or.inr (Or.inr (Or.inr ⟨?_, h2 ▸ h⟩))
    simp only [EntryOut.evalConst, List.all_eq_false]
    exact ⟨x, hx0, by rw [h2]; simp [h]⟩

/-- in a group without diagnostics either every member was evaluated or none -/
theorem group_uniform (gr : GRoute) (g : Group) (hd : (EntryOut.group g (constGroup gr g)).diags = []) :
    ∀ x ∈ (EntryOut.group g (constGroup gr g)).leafOuts, ∀ y ∈ (EntryOut.group g (constGroup gr g)).leafOuts,
      x.2.evaluated = y.2.evaluated := by
  intro x hx y hy
  obtain ⟨f, hf, ok⟩ := constGroup_ok gr g
  simp only [EntryOut.leafOuts, hf] at hx hy
  obtain ⟨hxm, hx2⟩ := mem_zip_map f _ x hx
  obtain ⟨hym, hy2⟩ := mem_zip_map f _ y hy
  simp only [EntryOut.diags, List.append_eq_nil_iff, List.map_eq_nil_iff, List.flatMap_eq_nil_iff, hf,
    List.mem_map, forall_exists_index, and_imp, forall_apply_eq_imp_iff₂] at hd
  rw [hx2, hy2]
  exact ok.uniform hd.1 x.1 y.1 (hd.2 x.1 hxm) (hd.2 y.1 hym)

/-! ### the mode switch -/

@[simp] theorem append_generated (a b : Cxx) : (a.append b).generated = a.generated ++ b.generated := rfl
@[simp] theorem append_repeated (a b : Cxx) : (a.append b).repeated = a.repeated ++ b.repeated := rfl
@[simp] theorem append_diags (a b : Cxx) : (a.append b).diags = a.diags ++ b.diags := rfl
@[simp] theorem append_bindings (a b : Cxx) : (a.append b).bindings = a.bindings ++ b.bindings := rfl

theorem mem_cxxMember_generated (m x : Leaf × LeafOut) :
    x ∈ (cxxMember m).generated ↔ x = m ∧ m.2.evalConst m.1 = false ∧ cxxLeaf m.1 = none := by
  unfold cxxMember
  split
  · simp_all
  · split <;> simp_all

theorem mem_cxxMember_repeated (m x : Leaf × LeafOut) :
    x ∈ (cxxMember m).repeated ↔ x = m ∧ m.2.evalConst m.1 = true ∧ cxxLeaf m.1 = none := by
  unfold cxxMember
  split
  · simp_all
  · split <;> simp_all

theorem mem_cxxMember_diags (m : Leaf × LeafOut) (d : Diag) :
    d ∈ (cxxMember m).diags ↔ ∃ k, cxxLeaf m.1 = some k ∧ d = ⟨m.1.id, k⟩ := by
  unfold cxxMember
  split
  · simp_all
  · split <;> simp_all

theorem mem_cxxMembers_generated (zs : List (Leaf × LeafOut)) (x : Leaf × LeafOut) :
    x ∈ (cxxMembers zs).generated ↔ x ∈ zs ∧ x.2.evalConst x.1 = false ∧ cxxLeaf x.1 = none := by
  induction zs with
  | nil => simp [cxxMembers]
  | cons m zs ih =>
    simp only [cxxMembers, append_generated, List.mem_append, ih, mem_cxxMember_generated, List.mem_cons]
    constructor
    · rintro (⟨rfl, h⟩ | ⟨h1, h⟩)
      · exact ⟨Or.inl rfl, h⟩
      · exact ⟨Or.inr h1, h⟩
    · rintro ⟨rfl | h1, h⟩
      · exact Or.inl ⟨rfl, h⟩
      · exact Or.inr ⟨h1, h⟩

theorem mem_cxxMembers_repeated (zs : List (Leaf × LeafOut)) (x : Leaf × LeafOut) :
    x ∈ (cxxMembers zs).repeated ↔ x ∈ zs ∧ x.2.evalConst x.1 = true ∧ cxxLeaf x.1 = none := by
  induction zs with
  | nil => simp [cxxMembers]
  | cons m zs ih =>
    simp only [cxxMembers, append_repeated, List.mem_append, ih, mem_cxxMember_repeated, List.mem_cons]
    constructor
    · rintro (⟨rfl, h⟩ | ⟨h1, h⟩)
      · exact ⟨Or.inl rfl, h⟩
      · exact ⟨Or.inr h1, h⟩
    · rintro ⟨rfl | h1, h⟩
      · exact Or.inl ⟨rfl, h⟩
      · exact Or.inr ⟨h1, h⟩

theorem mem_cxxMembers_diags (zs : List (Leaf × LeafOut)) (d : Diag) :
    d ∈ (cxxMembers zs).diags ↔ ∃ m ∈ zs, ∃ k, cxxLeaf m.1 = some k ∧ d = ⟨m.1.id, k⟩ := by
  induction zs with
  | nil => simp [cxxMembers]
  | cons m zs ih =>
    simp only [cxxMembers, append_diags, List.mem_append, ih, mem_cxxMember_diags, List.mem_cons]
    constructor
    · rintro (h | ⟨m', h1, h⟩)
      · exact ⟨m, Or.inl rfl, h⟩
      · exact ⟨m', Or.inr h1, h⟩
    · rintro ⟨m', rfl | h1, h⟩
      · exact Or.inl h
      · exact Or.inr ⟨m', h1, h⟩

/-- what `cxxEntry` puts in `generated` is a leaf of the entry whose cell is not an evaluated constant -/
theorem mem_cxxEntry_generated (e : EntryOut) (x : Leaf × LeafOut) (h : x ∈ (cxxEntry e).generated) :
    x ∈ e.leafOuts ∧ x.2.evalConst x.1 = false := by
  unfold cxxEntry at h
  split at h
  · simp at h
  · rename_i hc
    split at h
    · split at h
      · simp at h
      · simp only [List.mem_singleton] at h
        subst h
        simpa [EntryOut.evalConst, EntryOut.leafOuts] using hc
    · split at h
      · simp at h
      · split at h
        · simp at h
        · split at h
          · simp at h
          · simp only [mem_cxxMembers_generated] at h
            exact ⟨h.1, h.2.1⟩

theorem mem_cxxEntry_repeated (e : EntryOut) (x : Leaf × LeafOut) (h : x ∈ (cxxEntry e).repeated) :
    e.evalConst = false ∧ x ∈ e.leafOuts ∧ x.2.evalConst x.1 = true := by
  unfold cxxEntry at h
  split at h
  · simp at h
  · rename_i hc
    refine ⟨by simpa using hc, ?_⟩
    split at h
    · split at h <;> simp at h
    · split at h
      · simp at h
      · split at h
        · simp at h
        · split at h
          · simp at h
          · simp only [mem_cxxMembers_repeated] at h
            exact ⟨h.1, h.2.1⟩

/-- lemma C -/
theorem cxxEntry_fate (e : EntryOut) (he : e.evalConst = false) (x : Leaf × LeafOut) (hx : x ∈ e.leafOuts)
    (hxc : x.2.evalConst x.1 = false) :
    x ∈ (cxxEntry e).generated ∨ ∃ d ∈ (cxxEntry e).diags, d.subj = x.1.id ∨ d.subj = entryId e := by
  unfold cxxEntry
  rw [if_neg (by simp [he])]
  cases e with
  | leaf l o extra =>
    simp only [EntryOut.leafOuts, List.mem_singleton] at hx
    subst hx
    simp only []
    split
    · rename_i k _
      exact Or.inr ⟨⟨l.id, k⟩, by simp, Or.inl rfl⟩
    · exact Or.inl (by simp)
  | group g o =>
    simp only [EntryOut.leafOuts] at hx
    simp only []
    split
    · exact Or.inr ⟨_, List.mem_singleton.2 rfl, Or.inr rfl⟩
    · cases hl : cxxLeaf x.1 with
      | some k =>
        have hd : (⟨x.1.id, k⟩ : Diag) ∈ (cxxMembers (g.members.zip o.members)).diags :=
          (mem_cxxMembers_diags _ _).2 ⟨x, hx, k, hl, rfl⟩
        refine Or.inr ⟨⟨x.1.id, k⟩, ?_, Or.inl rfl⟩
        split
        · simp [hd]
        · split
          · simp [hd]
          · exact hd
      | none =>
        have hg : x ∈ (cxxMembers (g.members.zip o.members)).generated :=
          (mem_cxxMembers_generated _ _).2 ⟨hx, hxc, hl⟩
        split
        · exact Or.inr ⟨⟨g.id, .cxxNotReadable⟩, by simp, Or.inr rfl⟩
        · split
          · exact Or.inr ⟨⟨g.id, .cxxNotWritable⟩, by simp, Or.inr rfl⟩
          · exact Or.inl hg

/-! ### transport through `cxxEntries`, `cxxAll`, `commonDiags`, `run` -/

theorem mem_cxxEntries_generated (es : List EntryOut) (x : Leaf × LeafOut) :
    x ∈ (cxxEntries es).generated ↔ ∃ e ∈ es, x ∈ (cxxEntry e).generated := by
  induction es with
  | nil => simp [cxxEntries]
  | cons e es ih => simp [cxxEntries, ih]

theorem mem_cxxEntries_repeated (es : List EntryOut) (x : Leaf × LeafOut) :
    x ∈ (cxxEntries es).repeated ↔ ∃ e ∈ es, x ∈ (cxxEntry e).repeated := by
  induction es with
  | nil => simp [cxxEntries]
  | cons e es ih => simp [cxxEntries, ih]

theorem mem_cxxEntries_diags (es : List EntryOut) (d : Diag) :
    d ∈ (cxxEntries es).diags ↔ ∃ e ∈ es, d ∈ (cxxEntry e).diags := by
  induction es with
  | nil => simp [cxxEntries]
  | cons e es ih => simp [cxxEntries, ih]

theorem mem_cxxAll_generated (ps : List Placed) (x : Leaf × LeafOut) :
    x ∈ (cxxAll ps).generated ↔ ∃ p ∈ ps, ∃ e ∈ p.props, x ∈ (cxxEntry e).generated := by
  induction ps with
  | nil => simp [cxxAll]
  | cons p ps ih => simp [cxxAll, ih, mem_cxxEntries_generated]

theorem mem_cxxAll_repeated (ps : List Placed) (x : Leaf × LeafOut) :
    x ∈ (cxxAll ps).repeated ↔ ∃ p ∈ ps, ∃ e ∈ p.props, x ∈ (cxxEntry e).repeated := by
  induction ps with
  | nil => simp [cxxAll]
  | cons p ps ih => simp [cxxAll, ih, mem_cxxEntries_repeated]

theorem mem_cxxAll_diags (ps : List Placed) (d : Diag) :
    d ∈ (cxxAll ps).diags ↔ ∃ p ∈ ps, ∃ e ∈ p.props, d ∈ (cxxEntry e).diags := by
  induction ps with
  | nil => simp [cxxAll]
  | cons p ps ih => simp [cxxAll, ih, mem_cxxEntries_diags]

theorem mem_commonDiags_of_entry (ps : List Placed) (td : List Diag) (p : Placed) (hp : p ∈ ps) (e : EntryOut)
    (he : e ∈ p.allOuts) (d : Diag) (hd : d ∈ e.diags) : d ∈ commonDiags ps td := by
  simp only [commonDiags, List.mem_append, List.mem_flatMap]
  exact Or.inl (Or.inr ⟨p, hp, by simp only [Placed.formDiags, List.mem_append, List.mem_flatMap]; exact Or.inr ⟨e, he, hd⟩⟩)

theorem mem_commonDiags_of_leftover (ps : List Placed) (td : List Diag) (p : Placed) (hp : p ∈ ps) (e : EntryOut)
    (he : e ∈ p.attached.flatten) (hc : e.evalConst = false) : ⟨entryId e, .leftover⟩ ∈ commonDiags ps td := by
  simp only [commonDiags, List.mem_append, List.mem_flatMap]
  refine Or.inr ⟨p, hp, ?_⟩
  simp only [leftoverDiags, List.mem_map, List.mem_filter]
  refine ⟨e, ⟨he, by simp [hc]⟩, ?_⟩
  cases e <;> rfl

/-- the shape of a generate-mode result that has objects or was built -/
theorem run_generate_shape (doc : Forest)
    (h : (run .generate doc).objects ≠ [] ∨ (run .generate doc).built = true) :
    run .generate doc =
      { built := true, panic := anyPanic (place .root doc).1, objects := (place .root doc).1
        support := some { bindings := (cxxAll (place .root doc).1).bindings
                          generated := (cxxAll (place .root doc).1).generated
                          repeated := (cxxAll (place .root doc).1).repeated
                          connected := connectedAll (place .root doc).1 }
        diags := commonDiags (place .root doc).1 (place .root doc).2 ++ (cxxAll (place .root doc).1).diags } := by
  unfold run at h ⊢
  split
  · split
    · rename_i hr; simp [hr, noResult] at h
    · rfl
  · simp [noResult] at h

theorem panic_of_leaf (e : EntryOut) (x : Leaf × LeafOut) (hx : x ∈ e.leafOuts) (h : x.2.panic = true) :
    e.panic = true := by
  cases e with
  | leaf l o extra =>
    simp only [EntryOut.leafOuts, List.mem_singleton] at hx
    subst hx; exact h
  | group g o =>
    simp only [EntryOut.leafOuts] at hx
    simp only [EntryOut.panic, List.any_eq_true]
    exact ⟨x.2, (List.of_mem_zip hx).2, h⟩

theorem anyPanic_false (ps : List Placed) (h : anyPanic ps = false) (p : Placed) (hp : p ∈ ps) (e : EntryOut)
    (he : e ∈ p.allOuts) (x : Leaf × LeafOut) (hx : x ∈ e.leafOuts) : x.2.panic = false := by
  cases hpan : x.2.panic with
  | false => rfl
  | true =>
    have : anyPanic ps = true := by
      simp only [anyPanic, List.any_eq_true]
      exact ⟨p, hp, e, he, panic_of_leaf e x hx hpan⟩
    rw [h] at this; cases this

/-! ### where entries come from -/

theorem mem_constProps (d : Disp) (o : Obj) (sole : Bool) (es : List Entry) (e : EntryOut)
    (h : e ∈ constProps d o sole es) :
    (∃ l, Entry.leaf l ∈ es ∧ e = .leaf l (constLeaf (propLeafRoute d o sole l) l) (propLeafExtra d o l)) ∨
    (∃ g, Entry.group g ∈ es ∧ e = .group g (constGroup (propGroupRoute d o g) g)) := by
  induction es with
  | nil => simp [constProps] at h
  | cons a es ih =>
    cases a with
    | leaf l =>
      simp only [constProps, List.mem_cons] at h
      rcases h with rfl | h
      · exact Or.inl ⟨l, by simp, rfl⟩
      · rcases ih h with ⟨l', h1, h2⟩ | ⟨g', h1, h2⟩
        · exact Or.inl ⟨l', List.mem_cons_of_mem _ h1, h2⟩
        · exact Or.inr ⟨g', List.mem_cons_of_mem _ h1, h2⟩
    | group g =>
      simp only [constProps, List.mem_cons] at h
      rcases h with rfl | h
      · exact Or.inr ⟨g, by simp, rfl⟩
      · rcases ih h with ⟨l', h1, h2⟩ | ⟨g', h1, h2⟩
        · exact Or.inl ⟨l', List.mem_cons_of_mem _ h1, h2⟩
        · exact Or.inr ⟨g', List.mem_cons_of_mem _ h1, h2⟩

theorem mem_constAttEntries (reach : Reach) (d : Disp) (first : Bool) (ty : AttType) (es : List Entry) (e : EntryOut)
    (h : e ∈ constAttEntries reach d first ty es) :
    (∃ l, e = .leaf l (constLeaf (attLeafRoute reach d first ty l) l) []) ∨
    (∃ g, e = .group g (constGroup (attGroupRoute reach d first ty g) g)) := by
  induction es with
  | nil => simp [constAttEntries] at h
  | cons a es ih =>
    cases a with
    | leaf l =>
      simp only [constAttEntries, List.mem_cons] at h
      rcases h with rfl | h
      · exact Or.inl ⟨l, rfl⟩
      · exact ih h
    | group g =>
      simp only [constAttEntries, List.mem_cons] at h
      rcases h with rfl | h
      · exact Or.inr ⟨g, rfl⟩
      · exact ih h

theorem mem_constAttached (reach : Reach) (d : Disp) (as : List AttMap) : ∀ (sl st : Bool) (e : EntryOut),
    e ∈ (constAttached reach d sl st as).flatten → ∃ first ty es, e ∈ constAttEntries reach d first ty es := by
  induction as with
  | nil => intro sl st e h; simp [constAttached] at h
  | cons a as ih =>
    intro sl st e h
    simp only [constAttached, List.flatten_cons, List.mem_append] at h
    rcases h with h | h
    · exact ⟨_, _, _, h⟩
    · exact ih _ _ e h

theorem attLeafRoute_cases (reach : Reach) (d : Disp) (first : Bool) (ty : AttType) (l : Leaf) :
    attLeafRoute reach d first ty l = .untouched ∨ attLeafRoute reach d first ty l = .simple ∨
    attLeafRoute reach d first ty l = .value := by
  unfold attLeafRoute
  repeat' split
  all_goals simp

theorem mem_liveEntries_leaf (es : List Entry) (l : Leaf) (h : Entry.leaf l ∈ liveEntries es) : Entry.leaf l ∈ es := by
  induction es with
  | nil => simp [liveEntries] at h
  | cons a es ih =>
    cases a with
    | leaf l' =>
      simp only [liveEntries] at h
      split at h
      · simp only [List.mem_cons] at h ⊢
        rcases h with h | h
        · exact Or.inl h
        · exact Or.inr (ih h)
      · exact List.mem_cons_of_mem _ (ih h)
    | group g =>
      simp only [liveEntries] at h
      split at h
      · simp only [List.mem_cons] at h
        rcases h with h | h
        · cases h
        · exact List.mem_cons_of_mem _ (ih h)
      · exact List.mem_cons_of_mem _ (ih h)

theorem dispatch_action (reach : Reach) (o : Obj) (h : (dispatch reach o).1 = .action) : o.isAction = true := by
  unfold dispatch at h
  repeat' split at h
  all_goals simp_all

theorem propLeafRoute_separator (d : Disp) (o : Obj) (sole : Bool) (l : Leaf)
    (h : propLeafRoute d o sole l = .separator) : d = .action ∧ tagOf l.name = .separator := by
  unfold propLeafRoute at h
  repeat' split at h
  all_goals simp_all

theorem propLeafRoute_refList (d : Disp) (o : Obj) (sole : Bool) (l : Leaf)
    (h : propLeafRoute d o sole l = .refList) : tagOf l.name = .actions := by
  unfold propLeafRoute at h
  repeat' split at h
  all_goals simp_all

/-! ### one placed object -/

/-- the no-silent-drop condition on one object -/
def ObjNoSilentDrop (o : Obj) : Prop :=
  ∀ l, Entry.leaf l ∈ o.entries →
    ¬ (o.isAction = true ∧ tagOf l.name = .separator ∧ l.const = some (.ok 0)) ∧
    ¬ (tagOf l.name = .actions ∧ l.shapeOk = false)

theorem placeOne_props_produced (reach : Reach) (o : Obj) (hc : Bool) :
    ∀ e ∈ (placeOne reach o hc).props, Produced e := by
  intro e he
  simp only [placeOne] at he
  rcases mem_constProps _ _ _ _ _ he with ⟨l, _, rfl⟩ | ⟨g, _, rfl⟩
  · exact .leaf _ _ _
  · exact .group _ _

theorem placeOne_attached_produced (reach : Reach) (o : Obj) (hc : Bool) :
    ∀ e ∈ (placeOne reach o hc).attached.flatten, Produced e := by
  intro e he
  simp only [placeOne] at he
  obtain ⟨first, ty, es, h⟩ := mem_constAttached _ _ _ _ _ e he
  rcases mem_constAttEntries _ _ _ _ _ _ h with ⟨l, rfl⟩ | ⟨g, rfl⟩
  · exact .leaf _ _ _
  · exact .group _ _

theorem placeOne_produced (reach : Reach) (o : Obj) (hc : Bool) :
    ∀ e ∈ (placeOne reach o hc).allOuts, Produced e := by
  intro e he
  simp only [Placed.allOuts, List.mem_append] at he
  rcases he with he | he
  · exact placeOne_props_produced reach o hc e he
  · exact placeOne_attached_produced reach o hc e he

theorem placeOne_props_fate (reach : Reach) (o : Obj) (hc : Bool) (hnd : ObjNoSilentDrop o) :
    ∀ e ∈ (placeOne reach o hc).props, ∀ x ∈ e.leafOuts, Fate e x := by
  intro e he
  simp only [placeOne] at he
  rcases mem_constProps _ _ _ _ _ he with ⟨l, hl, rfl⟩ | ⟨g, _, rfl⟩
  · have hl' : Entry.leaf l ∈ o.entries := by
      simp only [codeMap] at hl
      split at hl
      · simp at hl
      · exact mem_liveEntries_leaf _ _ hl
    obtain ⟨n1, n2⟩ := hnd l hl'
    apply leaf_fate
    · rintro ⟨hr, hcst⟩
      obtain ⟨hd, ht⟩ := propLeafRoute_separator _ _ _ _ hr
      exact n1 ⟨dispatch_action _ _ hd, ht, hcst⟩
    · rintro ⟨hr, hs⟩
      exact n2 ⟨propLeafRoute_refList _ _ _ _ hr, hs⟩
  · exact group_fate _ _

theorem placeOne_attached_fate (reach : Reach) (o : Obj) (hc : Bool) :
    ∀ e ∈ (placeOne reach o hc).attached.flatten, ∀ x ∈ e.leafOuts, Fate e x := by
  intro e he
  simp only [placeOne] at he
  obtain ⟨first, ty, es, h⟩ := mem_constAttached _ _ _ _ _ e he
  rcases mem_constAttEntries _ _ _ _ _ _ h with ⟨l, rfl⟩ | ⟨g, rfl⟩
  · apply leaf_fate
    · rintro ⟨hr, _⟩
      rcases attLeafRoute_cases reach (dispatch reach o).1 first ty l with h | h | h <;> rw [h] at hr <;> cases hr
    · rintro ⟨hr, _⟩
      rcases attLeafRoute_cases reach (dispatch reach o).1 first ty l with h | h | h <;> rw [h] at hr <;> cases hr
  · exact group_fate _ _

end QV.Proofs.Passes
