/- Helper lemmas for C19 (core Lean only). -/
import QV.Model.Color
import QV.Spec.QtColor
import QV.Gen.ColorTable

namespace QV.Proofs.Color
open QV.Model.Color QV.Spec.QtColor

theorem assoc_none {β} (t : List (Char × β)) (c : Char) (h : ∀ p ∈ t, p.1 ≠ c) : assoc t c = none := by
  induction t with
  | nil => rfl
  | cons p t ih =>
    obtain ⟨k, v⟩ := p
    have hk : k ≠ c := h (k, v) (by simp)
    simp [assoc, hk]
    exact ih (fun p hp => h p (by simp [hp]))

theorem char_eq_ofNat (c : Char) : c = Char.ofNat c.toNat := by simp

theorem hexDigit_eq_spec (c : Char) : hexDigit? c = digit? c := by
  by_cases h : c.toNat < 128
  · rw [char_eq_ofNat c]
    generalize c.toNat = n at h
    revert n
    decide +kernel
  · have h1 : hexDigit? c = none := by
      simp only [hexDigit?]
      split
      · omega
      · split
        · omega
        · split
          · omega
          · rfl
    have hk : ∀ p ∈ digitTable, p.1.toNat < 128 := by decide
    have h2 : digit? c = none := by
      apply assoc_none
      intro p hp he
      have := hk p hp
      rw [he] at this
      exact h this
    rw [h1, h2]

theorem lower_eq_spec (c : Char) : toAsciiLower c = lower c := by
  by_cases h : c.toNat < 128
  · rw [char_eq_ofNat c]
    generalize c.toNat = n at h
    revert n
    decide +kernel
  · have h1 : toAsciiLower c = c := by
      simp only [toAsciiLower]
      split
      · omega
      · rfl
    have hk : ∀ p ∈ lowerTable, p.1.toNat < 128 := by decide
    have h2 : assoc lowerTable c = none := by
      apply assoc_none
      intro p hp he
      have := hk p hp
      rw [he] at this
      exact h this
    simp [lower, h1, h2]

theorem asciiLower_eq_spec (s : List Char) : asciiLower s = s.map lower := by
  simp [asciiLower, funext lower_eq_spec]

theorem hexDigit_lt (c : Char) (d : Nat) (h : hexDigit? c = some d) : d < 16 := by
  simp only [hexDigit?] at h
  split at h
  · simp at h; omega
  · split at h
    · simp at h; omega
    · split at h
      · simp at h; omega
      · simp at h

/-- The `from_str_radix` loop on digit values. -/
def loopV : List Nat → Nat → Option Nat
  | [], acc => some acc
  | d :: ds, acc => if acc * 16 + d < 4294967296 then loopV ds (acc * 16 + d) else none

theorem digits_cons {c : Char} {cs : List Char} {vs : List Nat} (h : digits? (c :: cs) = some vs) :
    ∃ d ds, vs = d :: ds ∧ hexDigit? c = some d ∧ digits? cs = some ds := by
  simp only [digits?] at h
  rw [← hexDigit_eq_spec] at h
  cases hd : hexDigit? c with
  | none => simp [hd] at h
  | some d =>
    cases hds : digits? cs with
    | none => simp [hd, hds] at h
    | some ds =>
      simp [hd, hds] at h
      exact ⟨d, ds, h.symm, rfl, rfl⟩

theorem digits_length : ∀ {ds : List Char} {vs : List Nat}, digits? ds = some vs → vs.length = ds.length
  | [], vs, h => by simp [digits?] at h; simp [← h]
  | c :: cs, vs, h => by
    obtain ⟨d, ds, rfl, _, h2⟩ := digits_cons h
    simp [digits_length h2]

theorem digits_lt : ∀ {ds : List Char} {vs : List Nat}, digits? ds = some vs → ∀ v ∈ vs, v < 16
  | [], vs, h => by simp [digits?] at h; subst h; simp
  | c :: cs, vs, h => by
    obtain ⟨d, ds, rfl, h1, h2⟩ := digits_cons h
    intro v hv
    simp at hv
    rcases hv with rfl | hv
    · exact hexDigit_lt c _ h1
    · exact digits_lt h2 v hv

theorem digits_any_false : ∀ {ds : List Char} {vs : List Nat}, digits? ds = some vs →
    ds.any (fun c => !isAsciiHexDigit c) = false
  | [], _, _ => rfl
  | c :: cs, vs, h => by
    obtain ⟨d, ds, rfl, h1, h2⟩ := digits_cons h
    simp [List.any_cons, isAsciiHexDigit, h1]
    have := digits_any_false h2
    simpa [isAsciiHexDigit] using this

theorem digits_none_any : ∀ {ds : List Char}, digits? ds = none →
    ds.any (fun c => !isAsciiHexDigit c) = true
  | [], h => by simp [digits?] at h
  | c :: cs, h => by
    simp only [digits?] at h
    rw [← hexDigit_eq_spec] at h
    simp only [List.any_cons, isAsciiHexDigit]
    cases hd : hexDigit? c with
    | none => simp
    | some d =>
      cases hds : digits? cs with
      | none =>
        have := digits_none_any hds
        simp [isAsciiHexDigit] at this
        simp [this]
      | some ds => simp [hd, hds] at h

theorem loop_eq : ∀ {ds : List Char} {vs : List Nat}, digits? ds = some vs →
    ∀ acc, fromStrRadix16Loop ds acc = loopV vs acc
  | [], vs, h, acc => by simp [digits?] at h; subst h; simp [fromStrRadix16Loop, loopV]
  | c :: cs, vs, h, acc => by
    obtain ⟨d, ds, rfl, h1, h2⟩ := digits_cons h
    simp only [fromStrRadix16Loop, loopV, h1]
    split
    · exact loop_eq h2 _
    · rfl

/-! keyword table lemmas -/

theorem lookupLast_mem {t : Table} {k : List Char} {v} (h : lookupLast t k = some v) : (k, v) ∈ t := by
  induction t with
  | nil => simp [lookupLast] at h
  | cons p t ih =>
    obtain ⟨k', v'⟩ := p
    simp only [lookupLast] at h
    cases hl : lookupLast t k with
    | some w => simp [hl] at h; subst h; exact List.mem_cons_of_mem _ (ih hl)
    | none =>
      simp [hl] at h
      obtain ⟨rfl, rfl⟩ := h
      simp

theorem lookup_mem {t : Table} {k : List Char} {v} (h : lookup t k = some v) : (k, v) ∈ t := by
  induction t with
  | nil => simp [lookup] at h
  | cons p t ih =>
    obtain ⟨k', v'⟩ := p
    simp only [lookup] at h
    split at h
    · simp at h; subst h; rename_i hk; subst hk; simp
    · exact List.mem_cons_of_mem _ (ih h)

/-- If each table answers every key of the other identically, they answer *all* keys identically. -/
theorem lookups_agree (impl spec : Table)
    (hA : ∀ row ∈ spec, lookupLast impl row.1 = some row.2)
    (hB : ∀ row ∈ impl, lookup spec row.1 = some row.2) (k : List Char) :
    lookupLast impl k = lookup spec k := by
  cases hs : lookup spec k with
  | some v => exact hA (k, v) (lookup_mem hs)
  | none =>
    cases hi : lookupLast impl k with
    | none => rfl
    | some v =>
      have := hB (k, v) (lookupLast_mem hi)
      simp [hs] at this

end QV.Proofs.Color
