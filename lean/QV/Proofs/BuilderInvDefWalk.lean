/-
  C06, the builder for ALL programs — define-before-use, part 4: the induction over the expression walk.
  The claim `ins` is extended whenever the walk opens a block (`mark_branch_point`): a block that starts a branch
  claims what its branching block knows; a join block claims that plus the result temporary of the construct.
-/
import QV.Proofs.BuilderInvDefCtl

set_option linter.unusedSimpArgs false
set_option linter.unusedVariables false

namespace QV.Proofs.BuilderInv
open QV.Model QV.Model.Cfg

/-- the variables the user declared without initialiser so far -/
def UU (s : WState) : Nat → Prop := fun x => x ∈ s.userUninit

/-- the claim fits the state: the builder invariants hold, and every variable in the name map is assigned at the
    current point (or was declared without initialiser) -/
structure DPre (s : WState) (ins : Ins) : Prop where
  inv : Inv s.b
  d : DInv (UU s) ins s.b
  loc : ∀ e ∈ s.locals, UU s e.2.1 ∨ Cur ins s.b e.2.1

/-- a later builder with an extended claim: old blocks keep their claim and know at least as much -/
structure LeB (b : Builder) (ins : Ins) (b' : Builder) (ins' : Ins) : Prop where
  mono : len b ≤ len b'
  ext : ∀ i, i < len b → ins' i = ins i
  om : ∀ i, i < len b → ∀ x, Out ins b i x → Out ins' b' i x

theorem LeB.refl (b : Builder) (ins : Ins) : LeB b ins b ins := ⟨Nat.le_refl _, fun _ _ => rfl, fun _ _ _ h => h⟩

theorem LeB.trans {a b c : Builder} {i1 i2 i3 : Ins} (h1 : LeB a i1 b i2) (h2 : LeB b i2 c i3) : LeB a i1 c i3 :=
  ⟨Nat.le_trans h1.mono h2.mono,
   fun i hi => (h2.ext i (Nat.lt_of_lt_of_le hi h1.mono)).trans (h1.ext i hi),
   fun i hi x hx => h2.om i (Nat.lt_of_lt_of_le hi h1.mono) x (h1.om i hi x hx)⟩

theorem LeB.of_ds {U : Nat → Prop} {ins : Ins} {b b' : Builder} (h : DS U ins b b') : LeB b ins b' ins :=
  ⟨by rw [h.eq]; exact Nat.le_refl _, fun _ _ => rfl, fun i _ x hx => h.om i x hx⟩

theorem LeB.newBlock (b : Builder) (ins : Ins) (S : Nat → Prop) : LeB b ins b.newBlock.2 (upd ins (len b) S) :=
  ⟨by simp, fun i hi => upd_ne ins S (by omega), fun i hi x hx => (Out.newBlock_old S (by omega)).2 hx⟩

/-- what an expression denotes may be used at the current point -/
def InterOk (U : Nat → Prop) (ins : Ins) (b : Builder) : Inter → Prop
  | .item a => OpOk U ins b a
  | .local l _ => U l ∨ Cur ins b l
  | .boundProperty a _ _ => OpOk U ins b a
  | .boundSubscript a i _ => OpOk U ins b a ∧ OpOk U ins b i
  | .boundMethod a _ => OpOk U ins b a
  | _ => True

/-- the effect of walking an expression -/
structure EStep (s : WState) (ins : Ins) (s' : WState) (ins' : Ins) : Prop where
  pre : DPre s' ins'
  le : LeB s.b ins s'.b ins'
  m : ∀ x, Cur ins s.b x → Cur ins' s'.b x
  locs : s'.locals = s.locals
  uueq : s'.userUninit = s.userUninit

theorem EStep.refl {s : WState} {ins : Ins} (hp : DPre s ins) : EStep s ins s ins :=
  ⟨hp, LeB.refl _ _, fun _ h => h, rfl, rfl⟩

theorem EStep.trans {s1 s2 s3 : WState} {i1 i2 i3 : Ins} (h1 : EStep s1 i1 s2 i2) (h2 : EStep s2 i2 s3 i3) : EStep s1 i1 s3 i3 :=
  ⟨h2.pre, h1.le.trans h2.le, fun x hx => h2.m x (h1.m x hx), h2.locs.trans h1.locs, h2.uueq.trans h1.uueq⟩

theorem UU_eq {s s' : WState} (h : s'.userUninit = s.userUninit) : UU s' = UU s := by unfold UU; rw [h]

theorem OpOk.estep {s s' : WState} {ins ins' : Ins} {a : Operand} (h : OpOk (UU s) ins s.b a) (e : EStep s ins s' ins') :
    OpOk (UU s') ins' s'.b a := by
  intro x hx hu
  rw [UU_eq e.uueq] at hu
  exact e.m x (h x hx hu)

theorem InterOk.estep {s s' : WState} {ins ins' : Ins} {r : Inter} (h : InterOk (UU s) ins s.b r) (e : EStep s ins s' ins') :
    InterOk (UU s') ins' s'.b r := by
  cases r with
  | item a => exact OpOk.estep (a := a) h e
  | «local» l k =>
    rcases h with h | h
    · left; rw [UU_eq e.uueq]; exact h
    · right; exact e.m l h
  | boundProperty a p rk => exact OpOk.estep (a := a) h e
  | boundSubscript a i k => exact ⟨OpOk.estep h.1 e, OpOk.estep h.2 e⟩
  | boundMethod a ms => exact OpOk.estep (a := a) h e
  | builtinFunction f => trivial
  | builtinNamespace k => trivial
  | type t => trivial

/-- a straight-line visitor -/
theorem EStep.of_ds {s : WState} {ins : Ins} {b' : Builder} (hp : DPre s ins) (hs : Same s.b b') (hd : DS (UU s) ins s.b b') :
    EStep s ins { s with b := b' } ins :=
  ⟨⟨hs.adv.inv hp.inv, hd.d, fun e he => by
      rcases hp.loc e he with h | h
      · exact Or.inl h
      · exact Or.inr (hd.cur h)⟩,
   LeB.of_ds hd, fun x hx => hd.cur hx, rfl, rfl⟩

theorem getB_consume {s s' : WState} {f : Builder → VisitResult} {a : Operand}
    (h : run (do let b ← getB; consume (f b)) s = (some a, s')) : ∃ b', f s.b = .ok (a, b') ∧ s' = { s with b := b' } := by
  obtain ⟨b, s1, h1, h2⟩ := bind_ok h
  simp at h1
  obtain ⟨rfl, rfl⟩ := h1
  exact consume_ok h2

/-- `getB`, a straight-line visitor, `pure` -/
theorem visit_stepD {α} {s s' : WState} {ins : Ins} {f : Builder → VisitResult} {k : Operand → α} {r : α} (hp : DPre s ins)
    (h : run (do let b ← getB; let a ← consume (f b); pure (k a)) s = (some r, s'))
    (hs : ∀ a b', f s.b = .ok (a, b') → Same s.b b')
    (hd : ∀ a b', f s.b = .ok (a, b') → DS (UU s) ins s.b b' ∧ OpOk (UU s) ins b' a) :
    ∃ a, r = k a ∧ EStep s ins s' ins ∧ OpOk (UU s') ins s'.b a := by
  obtain ⟨b, s1, h1, h2⟩ := bind_ok h
  simp at h1
  obtain ⟨rfl, rfl⟩ := h1
  obtain ⟨a, s2, h3, h4⟩ := bind_ok h2
  simp at h4
  obtain ⟨b', h5, rfl⟩ := consume_ok h3
  rw [← h4.2]
  exact ⟨a, h4.1.symm, EStep.of_ds hp (hs a b' h5) (hd a b' h5).1, (hd a b' h5).2⟩

/-- the same without the final `pure` -/
theorem consume_stepD {s s' : WState} {ins : Ins} {f : Builder → VisitResult} {a : Operand} (hp : DPre s ins)
    (h : run (do let b ← getB; consume (f b)) s = (some a, s'))
    (hs : ∀ a b', f s.b = .ok (a, b') → Same s.b b')
    (hd : ∀ a b', f s.b = .ok (a, b') → DS (UU s) ins s.b b' ∧ OpOk (UU s) ins b' a) :
    EStep s ins s' ins ∧ OpOk (UU s') ins s'.b a := by
  obtain ⟨b', h5, rfl⟩ := getB_consume h
  exact ⟨EStep.of_ds hp (hs a b' h5) (hd a b' h5).1, (hd a b' h5).2⟩

theorem mark_eq {s s' : WState} {l : Nat} (h : run markBranchPoint s = (some l, s')) :
    l = len s.b - 1 ∧ s' = { s with b := s.b.newBlock.2 } := by
  unfold markBranchPoint at h
  obtain ⟨b, s1, h1, h2⟩ := bind_ok h
  simp at h1
  obtain ⟨rfl, rfl⟩ := h1
  simp only at h2
  obtain ⟨u, s2, h3, h4⟩ := bind_ok h2
  simp at h3 h4
  exact ⟨by rw [← h4.1]; rfl, by rw [← h4.2, ← h3]⟩

/-! ### name resolution: what it yields may be used -/

theorem interOk_nonlocal_item (U : Nat → Prop) (ins : Ins) (b : Builder) {o : Operand} (h : ∀ n t, o ≠ .local n t) :
    OpOk U ins b o := by
  intro x hx; rw [reads_nonlocal h] at hx; simp at hx

theorem processRef_inter {U : Nat → Prop} {ins : Ins} {b : Builder} {r : RefKind} {n : String} {s s' : WState} {i : Inter}
    (h : run (processRef r n) s = (some i, s')) : InterOk U ins b i := by
  cases r <;> simp [processRef] at h <;> rw [← h.1]
  · trivial
  · exact interOk_nonlocal_item U ins b (by intro n t hx; cases hx)
  · exact interOk_nonlocal_item U ins b (by intro n t hx; cases hx)
  · exact interOk_nonlocal_item U ins b (by intro n t hx; cases hx)
  · exact interOk_nonlocal_item U ins b (by intro n t hx; cases hx)

theorem lookupGlobalName_inter {U : Nat → Prop} {ins : Ins} {b : Builder} {n : String} {x : Inter}
    (h : lookupGlobalName n = some x) : InterOk U ins b x := by
  unfold lookupGlobalName at h
  repeat' split at h
  all_goals first
    | (simp at h; done)
    | (simp at h; rw [← h]; trivial)

theorem locals_get_mem {m : Locals} {name : String} {v : Nat × DeclKind} (h : m.get? name = some v) : ∃ e ∈ m, e.2 = v := by
  unfold Locals.get? at h
  cases hf : m.find? (·.1 = name) with
  | none => simp [hf] at h
  | some e =>
    simp [hf] at h
    exact ⟨e, List.mem_of_find?_eq_some hf, h⟩

theorem processIdentifier_inter {c : Ctx} {n : String} {s s' : WState} {ins : Ins} {i : Inter} (hp : DPre s ins)
    (h : run (processIdentifier c n) s = (some i, s')) : InterOk (UU s) ins s.b i := by
  unfold processIdentifier at h
  obtain ⟨ls, s1, h1, h2⟩ := bind_ok h
  simp at h1
  obtain ⟨rfl, rfl⟩ := h1
  split at h2
  · rename_i l k heq
    simp at h2
    rw [← h2.1]
    obtain ⟨e, he, hev⟩ := locals_get_mem heq
    have := hp.loc e he
    rw [hev] at this
    exact this
  · split at h2
    · exact processRef_inter h2
    · split at h2
      · rename_i x hx
        simp at h2
        rw [← h2.1]
        exact lookupGlobalName_inter hx
      · simp at h2

theorem processItemProperty_inter {U : Nat → Prop} {ins : Ins} {b : Builder} {c : Ctx} {item : Operand} {n : String} {ik : ExprKind}
    {s s' : WState} {i : Inter} (h : run (processItemProperty c item n ik) s = (some i, s')) (hi : OpOk U ins b item) :
    InterOk U ins b i := by
  unfold processItemProperty at h
  simp only at h
  repeat' split at h
  all_goals first
    | (simp at h; done)
    | (simp at h; rw [← h.1]; exact hi)

theorem processNamespaceName_inter {U : Nat → Prop} {ins : Ins} {b : Builder} {k : NamespaceKind} {n : String} {s s' : WState} {i : Inter}
    (h : run (processNamespaceName k n) s = (some i, s')) : InterOk U ins b i := by
  unfold processNamespaceName at h
  cases k <;> simp only at h <;> repeat' split at h
  all_goals first
    | (simp at h; done)
    | (simp at h; rw [← h.1]; trivial)

theorem processTypeMember_inter {U : Nat → Prop} {ins : Ins} {b : Builder} {c : Ctx} {t : NamedTy} {n : String} {s s' : WState} {i : Inter}
    (h : run (processTypeMember c t n) s = (some i, s')) : InterOk U ins b i := by
  unfold processTypeMember at h
  split at h
  · exact processRef_inter h
  · simp at h

/-- turning what an expression denotes into a value -/
theorem interToRvalue_d {i : Inter} {s s' : WState} {ins : Ins} {a : Operand} (hp : DPre s ins) (hi : InterOk (UU s) ins s.b i)
    (h : run (interToRvalue i) s = (some a, s')) : EStep s ins s' ins ∧ OpOk (UU s') ins s'.b a := by
  cases i with
  | item x => simp [interToRvalue] at h; rw [← h.1, ← h.2]; exact ⟨EStep.refl hp, hi⟩
  | «local» l k =>
    simp only [interToRvalue] at h
    exact consume_stepD hp h (fun a b' hr => visitLocalRef_same hr) (fun a b' hr => visitLocalRef_d hr hp.d hi)
  | boundProperty it p rk =>
    simp only [interToRvalue] at h
    exact consume_stepD hp h (fun a b' hr => visitObjectProperty_same hr) (fun a b' hr => visitObjectProperty_d hr hp.d hp.inv.pos hi)
  | boundSubscript it ix k =>
    simp only [interToRvalue] at h
    exact consume_stepD hp h (fun a b' hr => visitObjectSubscript_same hr)
      (fun a b' hr => visitObjectSubscript_d hr hp.d hp.inv.pos hi.1 hi.2)
  | boundMethod it ms => simp [interToRvalue] at h
  | builtinFunction f => simp [interToRvalue] at h
  | builtinNamespace k => simp [interToRvalue] at h
  | type t => simp [interToRvalue] at h

/-! ### expressions -/

def ExprD (c : Ctx) (e : Expr) : Prop :=
  ∀ s s' r ins, DPre s ins → run (walkExpr c e) s = (some r, s') →
    ∃ ins', EStep s ins s' ins' ∧ InterOk (UU s') ins' s'.b r

def RvalD (c : Ctx) (e : Expr) : Prop :=
  ∀ s s' a ins, DPre s ins → run (walkRvalue c e) s = (some a, s') →
    ∃ ins', EStep s ins s' ins' ∧ OpOk (UU s') ins' s'.b a

def RvalsD (c : Ctx) (es : List Expr) : Prop :=
  ∀ s s' as ins, DPre s ins → run (walkRvalues c es) s = (some as, s') →
    ∃ ins', EStep s ins s' ins' ∧ ∀ a ∈ as, OpOk (UU s') ins' s'.b a

theorem rvalue_of_exprD {c : Ctx} {e : Expr} (he : ExprD c e) : RvalD c e := by
  intro s s' a ins hp h
  simp only [walkRvalue] at h
  obtain ⟨i, s1, h1, h2⟩ := bind_ok h
  obtain ⟨ins1, e1, hi1⟩ := he s s1 i ins hp h1
  obtain ⟨e2, ha⟩ := interToRvalue_d e1.pre hi1 h2
  exact ⟨ins1, e1.trans e2, ha⟩

/-- the state after `mark_branch_point`, with the claim `S` for the new block -/
theorem mark_pre {s : WState} {ins : Ins} (hp : DPre s ins) (S : Nat → Prop)
    (hl : ∀ e ∈ s.locals, UU s e.2.1 ∨ S e.2.1) :
    DPre { s with b := s.b.newBlock.2 } (upd ins (len s.b) S) := by
  refine ⟨(adv_newBlock s.b).inv hp.inv, hp.d.newBlock S hp.inv, fun e he => ?_⟩
  rcases hl e he with h | h
  · exact Or.inl h
  · right
    show Out _ _ (len s.b.newBlock.2 - 1) _
    have : len s.b.newBlock.2 - 1 = len s.b := by simp
    rw [this]
    exact (Out.newBlock_new S).2 (Or.inl h)

theorem cur_newBlock {b : Builder} {ins : Ins} (S : Nat → Prop) (x : Nat) :
    Cur (upd ins (len b) S) b.newBlock.2 x ↔ (S x ∨ x < np b) := by
  unfold Cur
  have : len b.newBlock.2 - 1 = len b := by simp
  rw [this]
  exact Out.newBlock_new S

/-- after a visitor that worked on a fresh join block: what the join block claims is known -/
theorem cur_of_join {U : Nat → Prop} {ins : Ins} {b b' : Builder} {S : Nat → Prop}
    (h : DS U (upd ins (len b) S) b.newBlock.2 b') {x : Nat} (hx : S x) : Cur (upd ins (len b) S) b' x :=
  h.cur ((cur_newBlock S x).2 (Or.inl hx))

theorem getB_consume_bind {β} {s s' : WState} {f : Builder → VisitResult} {k : Operand → W β} {r : β}
    (h : run (do let b ← getB; let a ← consume (f b); k a) s = (some r, s')) :
    ∃ a b', f s.b = .ok (a, b') ∧ run (k a) { s with b := b' } = (some r, s') := by
  obtain ⟨b, s1, h1, h2⟩ := bind_ok h
  simp at h1
  obtain ⟨rfl, rfl⟩ := h1
  obtain ⟨a, s2, h3, h4⟩ := bind_ok h2
  obtain ⟨b', h5, rfl⟩ := consume_ok h3
  exact ⟨a, b', h5, h4⟩

theorem mark_eq' {s s' : WState} {l : Nat} (h : run markBranchPoint s = (some l, s')) :
    l = len s.b - 1 ∧ s'.b = s.b.newBlock.2 ∧ s'.locals = s.locals ∧ s'.userUninit = s.userUninit := by
  obtain ⟨h1, h2⟩ := mark_eq h
  rw [h2]
  exact ⟨h1, rfl, rfl, rfl⟩

theorem mark_pre' {s s' : WState} {ins : Ins} (hp : DPre s ins) (hb : s'.b = s.b.newBlock.2) (hl : s'.locals = s.locals)
    (hu : s'.userUninit = s.userUninit) (S : Nat → Prop) (hloc : ∀ e ∈ s.locals, UU s e.2.1 ∨ S e.2.1) :
    DPre s' (upd ins (len s.b) S) := by
  have h := mark_pre hp S hloc
  refine ⟨by rw [hb]; exact h.inv, by rw [hb, UU_eq hu]; exact h.d, fun e he => ?_⟩
  rw [hl] at he
  rw [hb, UU_eq hu]
  exact h.loc e he

theorem setB_pure {α} {s s' : WState} {b : Builder} {r x : α} (h : run (do setB b; pure x) s = (some r, s')) :
    r = x ∧ s'.b = b ∧ s'.locals = s.locals ∧ s'.userUninit = s.userUninit := by
  obtain ⟨u, s1, h1, h2⟩ := bind_ok h
  simp at h1 h2
  rw [← h2.2, ← h1]
  exact ⟨h2.1.symm, rfl, rfl, rfl⟩

mutual

theorem d_expr (c : Ctx) : (e : Expr) → ExprD c e
  | .ident n => by
    intro s s' i ins hp h
    simp only [walkExpr] at h
    have hs := processIdentifier_ok h
    subst hs
    exact ⟨ins, EStep.refl hp, processIdentifier_inter hp h⟩
  | .this => by
    intro s s' i ins hp h
    simp only [walkExpr] at h
    split at h <;> simp at h
    rw [← h.1, ← h.2]
    exact ⟨ins, EStep.refl hp, interOk_nonlocal_item _ _ _ (by intro n t hx; cases hx)⟩
  | .integer v => by
    intro s s' i ins hp h
    simp only [walkExpr] at h
    obtain ⟨a, rfl, e, ha⟩ := visit_stepD hp h (fun a b' hr => visitInteger_same hr) (fun a b' hr => visitInteger_d hr hp.d)
    exact ⟨ins, e, ha⟩
  | .float v => by
    intro s s' i ins hp h
    simp [walkExpr] at h
    rw [← h.1, ← h.2]; exact ⟨ins, EStep.refl hp, OpOk.const _ _ _ _⟩
  | .string v => by
    intro s s' i ins hp h
    simp [walkExpr] at h
    rw [← h.1, ← h.2]; exact ⟨ins, EStep.refl hp, OpOk.const _ _ _ _⟩
  | .bool v => by
    intro s s' i ins hp h
    simp [walkExpr] at h
    rw [← h.1, ← h.2]; exact ⟨ins, EStep.refl hp, OpOk.const _ _ _ _⟩
  | .null => by
    intro s s' i ins hp h
    simp [walkExpr] at h
    rw [← h.1, ← h.2]; exact ⟨ins, EStep.refl hp, OpOk.const _ _ _ _⟩
  | .function => by
    intro s s' i ins hp h
    simp [walkExpr] at h
  | .array es => by
    intro s s' i ins hp h
    simp only [walkExpr] at h
    obtain ⟨els, s1, h1, h2⟩ := bind_ok h
    obtain ⟨ins1, e1, hels⟩ := d_rvalues c es s s1 els ins hp h1
    obtain ⟨a, rfl, e2, ha⟩ := visit_stepD e1.pre h2 (fun a b' hr => visitArray_same hr)
      (fun a b' hr => visitArray_d hr e1.pre.d e1.pre.inv.pos hels)
    exact ⟨ins1, e1.trans e2, ha⟩
  | .member o n => by
    intro s s' i ins hp h
    simp only [walkExpr] at h
    obtain ⟨x, s1, h1, h2⟩ := bind_ok h
    obtain ⟨ins1, e1, hx⟩ := d_expr c o s s1 x ins hp h1
    cases x with
    | item it =>
      simp only at h2
      have hs := processItemProperty_ok h2
      subst hs
      exact ⟨ins1, e1, processItemProperty_inter h2 hx⟩
    | «local» l k =>
      simp only at h2
      obtain ⟨it, b', h3, h4⟩ := getB_consume_bind h2
      have hv := visitLocalRef_d h3 e1.pre.d hx
      have e2 := EStep.of_ds e1.pre (visitLocalRef_same h3) hv.1
      have hs := processItemProperty_ok h4
      subst hs
      exact ⟨ins1, e1.trans e2, processItemProperty_inter h4 hv.2⟩
    | boundProperty it p rk =>
      simp only at h2
      obtain ⟨ov, b', h3, h4⟩ := getB_consume_bind h2
      have hv := visitObjectProperty_d h3 e1.pre.d e1.pre.inv.pos hx
      have e2 := EStep.of_ds e1.pre (visitObjectProperty_same h3) hv.1
      have hs := processItemProperty_ok h4
      subst hs
      exact ⟨ins1, e1.trans e2, processItemProperty_inter h4 hv.2⟩
    | boundSubscript it ix k =>
      simp only at h2
      obtain ⟨ov, b', h3, h4⟩ := getB_consume_bind h2
      have hv := visitObjectSubscript_d h3 e1.pre.d e1.pre.inv.pos hx.1 hx.2
      have e2 := EStep.of_ds e1.pre (visitObjectSubscript_same h3) hv.1
      have hs := processItemProperty_ok h4
      subst hs
      exact ⟨ins1, e1.trans e2, processItemProperty_inter h4 hv.2⟩
    | boundMethod it ms => simp at h2
    | builtinFunction f => simp at h2
    | builtinNamespace k =>
      simp only at h2
      have hs := processNamespaceName_ok h2
      subst hs
      exact ⟨ins1, e1, processNamespaceName_inter h2⟩
    | type t =>
      simp only at h2
      have hs := processTypeMember_ok h2
      subst hs
      exact ⟨ins1, e1, processTypeMember_inter h2⟩
  | .subscript o ix => by
    intro s s' i ins hp h
    simp only [walkExpr] at h
    obtain ⟨ok, s2, hA, hB⟩ := bind_ok h
    have hobj : ∃ ins2, EStep s ins s2 ins2 ∧ OpOk (UU s2) ins2 s2.b ok.1 := by
      obtain ⟨x, s1, h1, h2⟩ := bind_ok hA
      obtain ⟨ins1, e1, hx⟩ := d_expr c o s s1 x ins hp h1
      cases x with
      | item it => simp at h2; rw [← h2.1, ← h2.2]; exact ⟨ins1, e1, hx⟩
      | «local» l k =>
        simp only at h2
        obtain ⟨it, b', h3, h4⟩ := getB_consume_bind h2
        have hv := visitLocalRef_d h3 e1.pre.d hx
        have e2 := EStep.of_ds e1.pre (visitLocalRef_same h3) hv.1
        simp at h4
        rw [← h4.1, ← h4.2]
        exact ⟨ins1, e1.trans e2, hv.2⟩
      | boundProperty it p rk =>
        simp only at h2
        obtain ⟨ov, b', h3, h4⟩ := getB_consume_bind h2
        have hv := visitObjectProperty_d h3 e1.pre.d e1.pre.inv.pos hx
        have e2 := EStep.of_ds e1.pre (visitObjectProperty_same h3) hv.1
        simp at h4
        rw [← h4.1, ← h4.2]
        exact ⟨ins1, e1.trans e2, hv.2⟩
      | boundSubscript it jx k =>
        simp only at h2
        obtain ⟨ov, b', h3, h4⟩ := getB_consume_bind h2
        have hv := visitObjectSubscript_d h3 e1.pre.d e1.pre.inv.pos hx.1 hx.2
        have e2 := EStep.of_ds e1.pre (visitObjectSubscript_same h3) hv.1
        simp at h4
        rw [← h4.1, ← h4.2]
        exact ⟨ins1, e1.trans e2, hv.2⟩
      | boundMethod it ms => simp at h2
      | builtinFunction f => simp at h2
      | builtinNamespace k => simp at h2
      | type t => simp at h2
    obtain ⟨ins2, e2, hok⟩ := hobj
    obtain ⟨index, s3, h8, h9⟩ := bind_ok hB
    obtain ⟨ins3, e3, hidx⟩ := rvalue_of_exprD (d_expr c ix) s2 s3 index ins2 e2.pre h8
    simp at h9
    rw [← h9.1, ← h9.2]
    exact ⟨ins3, e2.trans e3, OpOk.estep hok e3, hidx⟩
  | .call f args => by
    intro s s' i ins hp h
    simp only [walkExpr] at h
    obtain ⟨argv, s1, h1, h2⟩ := bind_ok h
    obtain ⟨ins1, e1, hargs⟩ := d_rvalues c args s s1 argv ins hp h1
    obtain ⟨x, s2, h3, h4⟩ := bind_ok h2
    obtain ⟨ins2, e2, hx⟩ := d_expr c f s1 s2 x ins1 e1.pre h3
    have hargs2 : ∀ a ∈ argv, OpOk (UU s2) ins2 s2.b a := fun a ha => OpOk.estep (hargs a ha) e2
    cases x with
    | boundMethod it ms =>
      simp only at h4
      obtain ⟨a, rfl, e3, ha⟩ := visit_stepD e2.pre h4 (fun a b' hr => visitObjectMethodCall_same hr)
        (fun a b' hr => visitObjectMethodCall_d hr e2.pre.d e2.pre.inv.pos hx hargs2)
      exact ⟨ins2, (e1.trans e2).trans e3, ha⟩
    | builtinFunction bf =>
      simp only at h4
      obtain ⟨a, rfl, e3, ha⟩ := visit_stepD e2.pre h4 (fun a b' hr => visitBuiltinCall_same hr)
        (fun a b' hr => visitBuiltinCall_d hr e2.pre.d e2.pre.inv.pos hargs2)
      exact ⟨ins2, (e1.trans e2).trans e3, ha⟩
    | item it => simp at h4
    | «local» l k => simp at h4
    | boundProperty it p rk => simp at h4
    | boundSubscript it jx k => simp at h4
    | builtinNamespace k => simp at h4
    | type t => simp at h4
  | .assign l r => by
    intro s s' i ins hp h
    simp only [walkExpr] at h
    obtain ⟨x, s1, h0, h2⟩ := bind_ok h
    obtain ⟨ins1, e1, hx1⟩ := d_expr c l s s1 x ins hp h0
    obtain ⟨rv, s2, h3, h4⟩ := bind_ok h2
    obtain ⟨ins2, e2, hrv⟩ := rvalue_of_exprD (d_expr c r) s1 s2 rv ins1 e1.pre h3
    have hx : InterOk (UU s2) ins2 s2.b x := InterOk.estep hx1 e2
    cases x with
    | «local» lc k =>
      cases k with
      | const_ => simp at h4
      | let_ =>
        simp only at h4
        obtain ⟨a, rfl, e3, ha⟩ := visit_stepD e2.pre h4 (fun a b' hr => visitLocalAssignment_same hr)
          (fun a b' hr => ⟨(visitLocalAssignment_d hr e2.pre.d e2.pre.inv.pos hrv).1, (visitLocalAssignment_d hr e2.pre.d e2.pre.inv.pos hrv).2.1⟩)
        exact ⟨ins2, (e1.trans e2).trans e3, ha⟩
    | boundProperty it p rk =>
      simp only at h4
      split at h4
      · simp at h4
      · obtain ⟨a, rfl, e3, ha⟩ := visit_stepD e2.pre h4 (fun a b' hr => visitObjectPropertyAssignment_same hr)
          (fun a b' hr => visitObjectPropertyAssignment_d hr e2.pre.d e2.pre.inv.pos hx hrv)
        exact ⟨ins2, (e1.trans e2).trans e3, ha⟩
    | boundSubscript it jx k =>
      simp only at h4
      split at h4
      · obtain ⟨a, rfl, e3, ha⟩ := visit_stepD e2.pre h4 (fun a b' hr => visitObjectSubscriptAssignment_same hr)
          (fun a b' hr => visitObjectSubscriptAssignment_d hr e2.pre.d e2.pre.inv.pos hx.1 hx.2 hrv)
        exact ⟨ins2, (e1.trans e2).trans e3, ha⟩
      · simp at h4
    | item it => simp at h4
    | boundMethod it ms => simp at h4
    | builtinFunction f => simp at h4
    | builtinNamespace k => simp at h4
    | type t => simp at h4
  | .unary tok a => by
    intro s s' i ins hp h
    simp only [walkExpr] at h
    obtain ⟨arg, s1, h1, h2⟩ := bind_ok h
    obtain ⟨ins1, e1, harg⟩ := rvalue_of_exprD (d_expr c a) s s1 arg ins hp h1
    split at h2
    · simp at h2
    · obtain ⟨a', rfl, e2, ha⟩ := visit_stepD e1.pre h2 (fun a b' hr => visitUnaryExpression_same hr)
        (fun a b' hr => visitUnaryExpression_d hr e1.pre.d e1.pre.inv.pos harg)
      exact ⟨ins1, e1.trans e2, ha⟩
  | .binary tok l r => by
    intro s s' i ins hp h
    have hinv' : Inv s'.b := (good_expr c (.binary tok l r) s s' i hp.inv h).inv hp.inv
    simp only [walkExpr] at h
    cases hop : tok.toOp with
    | none => simp [hop] at h
    | some op =>
      by_cases hlog : ∃ lo, op = .logical lo
      · obtain ⟨lo, rfl⟩ := hlog
        simp only [hop] at h
        obtain ⟨left, s1, h1, h2⟩ := bind_ok h
        obtain ⟨ins1, e1, hleft⟩ := rvalue_of_exprD (d_expr c l) s s1 left ins hp h1
        obtain ⟨ll, s2, h3, h4⟩ := bind_ok h2
        obtain ⟨hll, hb2, hl2, hu2⟩ := mark_eq' h3
        have hp2 : DPre s2 (upd ins1 (len s1.b) (Cur ins1 s1.b)) :=
          mark_pre' e1.pre hb2 hl2 hu2 _ (fun e he => e1.pre.loc e he)
        obtain ⟨right, s3, h5, h6⟩ := bind_ok h4
        obtain ⟨ins3, e3, hright⟩ := rvalue_of_exprD (d_expr c r) s2 s3 right _ hp2 h5
        obtain ⟨rl, s4, h7, h8⟩ := bind_ok h6
        obtain ⟨hrl, hb4, hl4, hu4⟩ := mark_eq' h7
        obtain ⟨u1, s5, h9, h10⟩ := bind_ok h8
        rw [checkConditionType_ok h9] at h10
        obtain ⟨u2, s6, h11, h12⟩ := bind_ok h10
        rw [checkConditionType_ok h11] at h12
        obtain ⟨bb, s7, h13, h14⟩ := bind_ok h12
        simp at h13
        obtain ⟨rfl, rfl⟩ := h13
        rw [hb4] at h14
        -- the pieces
        have hpos1 := e1.pre.inv.pos
        have hpos3 := e3.pre.inv.pos
        have hlen2 : len s2.b = len s1.b + 1 := by rw [hb2]; simp
        have hmono3 : len s1.b + 1 ≤ len s3.b := by have := e3.le.mono; omega
        have hu31 : UU s3 = UU s1 := (UU_eq e3.uueq).trans (UU_eq hu2)
        have L12 : LeB s1.b ins1 s2.b (upd ins1 (len s1.b) (Cur ins1 s1.b)) := by rw [hb2]; exact LeB.newBlock _ _ _
        have L23 := e3.le
        generalize hS5 : (fun x => Cur ins1 s1.b x ∨
          x ∈ operandReads (visitBinaryLogicalExpression s3.b.newBlock.2 lo left ll right rl).1) = S5
        have L34 := LeB.newBlock s3.b ins3 S5
        have L14 := (L12.trans L23).trans L34
        have hd4 : DInv (UU s3) (upd ins3 (len s3.b) S5) s3.b.newBlock.2 := e3.pre.d.newBlock S5 e3.pre.inv
        have hS1 : ∀ x, Cur ins1 s1.b x → Out (upd ins3 (len s3.b) S5) s3.b.newBlock.2 ll x := by
          intro x hx
          rw [hll]
          exact L14.om _ (by omega) x hx
        have hS1r : ∀ x, Cur ins1 s1.b x → Out (upd ins3 (len s3.b) S5) s3.b.newBlock.2 rl x := by
          intro x hx
          rw [hrl]
          have h2 : Cur (upd ins1 (len s1.b) (Cur ins1 s1.b)) s2.b x := by
            rw [hb2]; exact (cur_newBlock _ x).2 (Or.inl hx)
          exact L34.om _ (by omega) x (e3.m x h2)
        have hins1 : (upd ins3 (len s3.b) S5) (ll + 1) = Cur ins1 s1.b := by
          have h1 : ll + 1 = len s1.b := by omega
          rw [h1, L34.ext _ (by omega), L23.ext _ (by omega), upd_same]
        have hinsj : (upd ins3 (len s3.b) S5) (rl + 1) = S5 := by
          have h1 : rl + 1 = len s3.b := by omega
          rw [h1, upd_same]
        have hds := visitLogical_d (U := UU s3) (ins := upd ins3 (len s3.b) S5) s3.b.newBlock.2 lo left right ll rl hd4
          (by simp; omega) (by simp; omega)
          (fun x hx hu => hS1 x (hleft x hx (by rw [hu31] at hu; exact hu)))
          (fun x hx hu => by rw [hrl]; exact L34.om _ (by omega) x (hright x hx hu))
          (fun x hx => by rw [hins1] at hx; exact hS1 x hx)
          (fun x hx => by
            rw [hinsj, ← hS5] at hx
            rcases hx with h | h
            · exact Or.inl ⟨hS1 x h, hS1r x h⟩
            · exact Or.inr h)
        have hSres : ∀ x ∈ operandReads (visitBinaryLogicalExpression s3.b.newBlock.2 lo left ll right rl).1, S5 x :=
          fun x hx => by rw [← hS5]; exact Or.inr hx
        have hScur : ∀ x, Cur ins1 s1.b x → S5 x := fun x hx => by rw [← hS5]; exact Or.inl hx
        generalize hV : visitBinaryLogicalExpression s3.b.newBlock.2 lo left ll right rl = V at h14 hds hSres
        rcases V with ⟨it, bV⟩
        simp only at h14 hds hSres
        obtain ⟨rfl, hb', hl', hu'⟩ := setB_pure h14
        have hu's : UU s' = UU s3 := (UU_eq hu').trans (UU_eq hu4)
        have hjoin : ∀ x, S5 x → Cur (upd ins3 (len s3.b) S5) s'.b x := fun x hx => by
          rw [hb']; exact cur_of_join hds hx
        refine ⟨upd ins3 (len s3.b) S5, ⟨⟨hinv', by rw [hb', hu's]; exact hds.d, fun e he => ?_⟩, ?_, fun x hx => ?_, ?_, ?_⟩,
          fun x hx hu => ?_⟩
        · rw [hl', hl4, e3.locs, hl2] at he
          rcases e1.pre.loc e he with h | h
          · left; rw [hu's, hu31]; exact h
          · right; exact hjoin _ (hScur _ h)
        · rw [hb']; exact e1.le.trans (L14.trans (LeB.of_ds hds))
        · exact hjoin _ (hScur _ (e1.m x hx))
        · rw [hl', hl4, e3.locs, hl2, e1.locs]
        · rw [hu', hu4, e3.uueq, hu2, e1.uueq]
        · exact hjoin _ (hSres x hx)
      · have hlog' : ∀ lo, op ≠ .logical lo := fun lo hx => hlog ⟨lo, hx⟩
        have hsplit : run (do
            let left ← walkRvalue c l
            let right ← walkRvalue c r
            return .item (← consume (visitBinaryExpression c.F c.env (← getB) op left right))) s = (some i, s') := by
          cases op with
          | logical lo => exact absurd rfl (hlog' lo)
          | _ => simpa only [hop] using h
        obtain ⟨left, s1, h1, h2⟩ := bind_ok hsplit
        obtain ⟨ins1, e1, hleft⟩ := rvalue_of_exprD (d_expr c l) s s1 left ins hp h1
        obtain ⟨right, s2, h3, h4⟩ := bind_ok h2
        obtain ⟨ins2, e2, hright⟩ := rvalue_of_exprD (d_expr c r) s1 s2 right ins1 e1.pre h3
        obtain ⟨a, rfl, e3, ha⟩ := visit_stepD e2.pre h4 (fun a b' hr => visitBinaryExpression_same hr)
          (fun a b' hr => visitBinaryExpression_d hr e2.pre.d e2.pre.inv.pos (OpOk.estep hleft e2) hright)
        exact ⟨ins2, (e1.trans e2).trans e3, ha⟩
  | .as_ v ty => by
    intro s s' i ins hp h
    simp only [walkExpr] at h
    obtain ⟨val, s1, h1, h2⟩ := bind_ok h
    obtain ⟨ins1, e1, hval⟩ := rvalue_of_exprD (d_expr c v) s s1 val ins hp h1
    obtain ⟨k, s2, h3, h4⟩ := bind_ok h2
    have := processTypeAnnotation_ok h3
    subst this
    obtain ⟨a, rfl, e2, ha⟩ := visit_stepD e1.pre h4 (fun a b' hr => visitAsExpression_same hr)
      (fun a b' hr => visitAsExpression_d hr e1.pre.d e1.pre.inv.pos hval)
    exact ⟨ins1, e1.trans e2, ha⟩
  | .ternary cnd a b => by
    intro s s' i ins hp h
    have hinv' : Inv s'.b := (good_expr c (.ternary cnd a b) s s' i hp.inv h).inv hp.inv
    simp only [walkExpr] at h
    obtain ⟨cv, s1, h1, h2⟩ := bind_ok h
    obtain ⟨ins1, e1, hcv⟩ := rvalue_of_exprD (d_expr c cnd) s s1 cv ins hp h1
    obtain ⟨cl, s2, h3, h4⟩ := bind_ok h2
    obtain ⟨hcl, hb2, hl2, hu2⟩ := mark_eq' h3
    have hp2 : DPre s2 (upd ins1 (len s1.b) (Cur ins1 s1.b)) :=
      mark_pre' e1.pre hb2 hl2 hu2 _ (fun e he => e1.pre.loc e he)
    obtain ⟨av, s3, h5, h6⟩ := bind_ok h4
    obtain ⟨ins3, e3, hav⟩ := rvalue_of_exprD (d_expr c a) s2 s3 av _ hp2 h5
    obtain ⟨al, s4, h7, h8⟩ := bind_ok h6
    obtain ⟨hal, hb4, hl4, hu4⟩ := mark_eq' h7
    have hu31 : UU s3 = UU s1 := (UU_eq e3.uueq).trans (UU_eq hu2)
    have hloc3 : ∀ e ∈ s3.locals, UU s3 e.2.1 ∨ Cur ins1 s1.b e.2.1 := by
      intro e he
      rw [e3.locs, hl2] at he
      rcases e1.pre.loc e he with h | h
      · left; rw [hu31]; exact h
      · exact Or.inr h
    have hp4 : DPre s4 (upd ins3 (len s3.b) (Cur ins1 s1.b)) := mark_pre' e3.pre hb4 hl4 hu4 _ hloc3
    obtain ⟨bv, s5, h9, h10⟩ := bind_ok h8
    obtain ⟨ins5, e5, hbv⟩ := rvalue_of_exprD (d_expr c b) s4 s5 bv _ hp4 h9
    obtain ⟨bl, s6, h11, h12⟩ := bind_ok h10
    obtain ⟨hbl, hb6, hl6, hu6⟩ := mark_eq' h11
    obtain ⟨u1, s7, h13, h14⟩ := bind_ok h12
    rw [checkConditionType_ok h13] at h14
    obtain ⟨bb, s8, h15, h16⟩ := bind_ok h14
    simp at h15
    obtain ⟨rfl, rfl⟩ := h15
    obtain ⟨x, s9, h17, h18⟩ := bind_ok h16
    simp at h18
    obtain ⟨rfl, rfl⟩ := h18
    obtain ⟨b', h19, hs9⟩ := consume_ok h17
    have hb' : s9.b = b' := by rw [hs9]
    have hl' : s9.locals = s6.locals := by rw [hs9]
    have hu' : s9.userUninit = s6.userUninit := by rw [hs9]
    rw [hb6] at h19
    -- the pieces
    have hpos1 := e1.pre.inv.pos
    have hpos3 := e3.pre.inv.pos
    have hpos5 := e5.pre.inv.pos
    have hlen2 : len s2.b = len s1.b + 1 := by rw [hb2]; simp
    have hlen4 : len s4.b = len s3.b + 1 := by rw [hb4]; simp
    have hmono3 : len s1.b + 1 ≤ len s3.b := by have := e3.le.mono; omega
    have hmono5 : len s3.b + 1 ≤ len s5.b := by have := e5.le.mono; omega
    have hu53 : UU s5 = UU s3 := (UU_eq e5.uueq).trans (UU_eq hu4)
    have L12 : LeB s1.b ins1 s2.b (upd ins1 (len s1.b) (Cur ins1 s1.b)) := by rw [hb2]; exact LeB.newBlock _ _ _
    have L23 := e3.le
    have L34 : LeB s3.b ins3 s4.b (upd ins3 (len s3.b) (Cur ins1 s1.b)) := by rw [hb4]; exact LeB.newBlock _ _ _
    have L45 := e5.le
    generalize hS7 : (fun z => Cur ins1 s1.b z ∨ z ∈ operandReads x) = S7
    have L56 := LeB.newBlock s5.b ins5 S7
    have L36 := (L34.trans L45).trans L56
    have L16 := (L12.trans L23).trans L36
    have hd6 : DInv (UU s5) (upd ins5 (len s5.b) S7) s5.b.newBlock.2 := e5.pre.d.newBlock S7 e5.pre.inv
    have hC : ∀ z, Cur ins1 s1.b z → Out (upd ins5 (len s5.b) S7) s5.b.newBlock.2 cl z := by
      intro z hz
      rw [hcl]
      exact L16.om _ (by omega) z hz
    have hX : ∀ z, Cur ins1 s1.b z → Out (upd ins5 (len s5.b) S7) s5.b.newBlock.2 al z := by
      intro z hz
      rw [hal]
      have h2 : Cur (upd ins1 (len s1.b) (Cur ins1 s1.b)) s2.b z := by rw [hb2]; exact (cur_newBlock _ z).2 (Or.inl hz)
      exact L36.om _ (by omega) z (e3.m z h2)
    have hY : ∀ z, Cur ins1 s1.b z → Out (upd ins5 (len s5.b) S7) s5.b.newBlock.2 bl z := by
      intro z hz
      rw [hbl]
      have h2 : Cur (upd ins3 (len s3.b) (Cur ins1 s1.b)) s4.b z := by rw [hb4]; exact (cur_newBlock _ z).2 (Or.inl hz)
      exact L56.om _ (by omega) z (e5.m z h2)
    have hins1 : (upd ins5 (len s5.b) S7) (cl + 1) = Cur ins1 s1.b := by
      have h1 : cl + 1 = len s1.b := by omega
      rw [h1, L56.ext _ (by omega), L45.ext _ (by omega), L34.ext _ (by omega), L23.ext _ (by omega), upd_same]
    have hins2 : (upd ins5 (len s5.b) S7) (al + 1) = Cur ins1 s1.b := by
      have h1 : al + 1 = len s3.b := by omega
      rw [h1, L56.ext _ (by omega), L45.ext _ (by omega), upd_same]
    have hinsj : (upd ins5 (len s5.b) S7) (bl + 1) = S7 := by
      have h1 : bl + 1 = len s5.b := by omega
      rw [h1, upd_same]
    have hds := visitTernary_d (U := UU s5) (ins := upd ins5 (len s5.b) S7) h19 hd6
      (by simp; omega) (by simp; omega) (by simp; omega)
      (fun z hz hu => hC z (hcv z hz (by rw [hu53, hu31] at hu; exact hu)))
      (fun z hz hu => by
        rw [hal]
        exact L36.om _ (by omega) z (hav z hz (by rw [hu53] at hu; exact hu)))
      (fun z hz hu => by rw [hbl]; exact L56.om _ (by omega) z (hbv z hz hu))
      (fun z hz => by rw [hins1] at hz; exact hC z hz)
      (fun z hz => by rw [hins2] at hz; exact hC z hz)
      (fun z hz => by
        rw [hinsj, ← hS7] at hz
        rcases hz with h | h
        · exact Or.inl ⟨hX z h, hY z h⟩
        · exact Or.inr h)
    have hu's : UU s9 = UU s5 := (UU_eq hu').trans (UU_eq hu6)
    have hjoin : ∀ z, S7 z → Cur (upd ins5 (len s5.b) S7) s9.b z := fun z hz => by
      rw [hb']; exact cur_of_join hds hz
    refine ⟨upd ins5 (len s5.b) S7, ⟨⟨hinv', by rw [hb', hu's]; exact hds.d, fun e he => ?_⟩, ?_, fun z hz => ?_, ?_, ?_⟩,
      fun z hz hu => ?_⟩
    · rw [hl', hl6, e5.locs, hl4, e3.locs, hl2] at he
      rcases e1.pre.loc e he with h | h
      · left; rw [hu's, hu53, hu31]; exact h
      · right; exact hjoin _ (by rw [← hS7]; exact Or.inl h)
    · rw [hb']; exact e1.le.trans (L16.trans (LeB.of_ds hds))
    · exact hjoin _ (by rw [← hS7]; exact Or.inl (e1.m z hz))
    · rw [hl', hl6, e5.locs, hl4, e3.locs, hl2, e1.locs]
    · rw [hu', hu6, e5.uueq, hu4, e3.uueq, hu2, e1.uueq]
    · exact hjoin _ (by rw [← hS7]; exact Or.inr hz)

theorem d_rvalues (c : Ctx) : (es : List Expr) → RvalsD c es
  | [] => by
    intro s s' as ins hp h
    simp [walkRvalues] at h
    rw [h.1, ← h.2]; exact ⟨ins, EStep.refl hp, by simp⟩
  | e :: es => by
    intro s s' as ins hp h
    simp only [walkRvalues] at h
    obtain ⟨a, s1, h1, h2⟩ := bind_ok h
    obtain ⟨ins1, e1, ha⟩ := rvalue_of_exprD (d_expr c e) s s1 a ins hp h1
    obtain ⟨rest, s2, h3, h4⟩ := bind_ok h2
    obtain ⟨ins2, e2, hrest⟩ := d_rvalues c es s1 s2 rest ins1 e1.pre h3
    simp at h4
    rw [← h4.1, ← h4.2]
    refine ⟨ins2, e1.trans e2, fun x hx => ?_⟩
    simp at hx
    rcases hx with rfl | hx
    · exact OpOk.estep ha e2
    · exact hrest x hx

end

end QV.Proofs.BuilderInv
