/-
  C05, the checks uigen performs after `tir::build` (QV.Model.TypeCheck): the return type against the property type,
  the callback parameters against the signal — they are the specification's rules D16 and D18.
-/
import QV.Model.TypeCheck
import QV.Spec.IrTyping
import QV.Proofs.TypingRules

namespace QV.Proofs.TypingChecks
open QV.Model QV.Spec.Typing QV.Proofs.TypingRules

theorem returnTypes_eq (code : CodeBody) :
    QV.Spec.IrTyping.returnTypes code = (returnOperands code).map (·.typeDesc) := by
  unfold QV.Spec.IrTyping.returnTypes returnOperands
  induction code.blocks with
  | nil => rfl
  | cons b bs ih =>
    simp only [List.filterMap_cons]
    cases b.terminator with
    | none => simpa using ih
    | some t => cases t <;> simp [ih]

theorem go_eq (env : Env) (ops : List Operand) (known : TypeDesc) :
    resolveReturnType.go env known ops =
      (match resultType.go env known (ops.map (·.typeDesc)) with
       | .ok t => some t
       | .error _ => none) := by
  induction ops generalizing known with
  | nil => simp [resolveReturnType.go, resultType.go]
  | cons a as ih =>
    simp only [resolveReturnType.go, List.map_cons, resultType.go, deduceType_eq]
    cases common env known a.typeDesc with
    | none => simp
    | some t => simpa using ih t

/-- `resolve_return_type` deduces exactly the specification's common result type (D16) -/
theorem resolveReturnType_eq (env : Env) (code : CodeBody) :
    resolveReturnType env code =
      (match resultType env (QV.Spec.IrTyping.returnTypes code) with
       | .ok t => some t
       | .error _ => none) := by
  rw [returnTypes_eq]
  unfold resolveReturnType resultType
  cases returnOperands code with
  | nil => simp
  | cons a as => simpa using go_eq env as a.typeDesc

/-- `verify_code_return_type`: the results have one common type and it is assignable to the property
    (identity or upcast, a literal type adopting the property type) -/
theorem verifyCodeReturnType_eq (env : Env) (code : CodeBody) (p : TypeKind) :
    verifyCodeReturnType env code p =
      (match resultType env (QV.Spec.IrTyping.returnTypes code) with
       | .ok t => assignable env p t
       | .error _ => false) := by
  unfold verifyCodeReturnType
  rw [resolveReturnType_eq]
  cases resultType env (QV.Spec.IrTyping.returnTypes code) with
  | error e => rfl
  | ok t => simp [isAssignable_eq]

/-- `verify_callback_parameter_type` is rule D18: not more parameters than the signal has, and each signal argument
    assignable to the declared parameter type -/
theorem verifyCallbackParameterType_eq (env : Env) (desc : MethodInfo) (code : CodeBody) :
    verifyCallbackParameterType env desc code =
      (!(code.parameterCount > desc.args.length) &&
        (desc.args.zip (code.locals.take code.parameterCount)).all fun (a, p) => assignable env p (.concrete a)) := by
  unfold verifyCallbackParameterType
  by_cases h : code.parameterCount > desc.args.length
  · simp [h]
  · simp only [h, if_false, decide_false, Bool.not_false, Bool.true_and]
    congr 1
    funext ⟨a, p⟩
    exact isConcreteAssignable_eq env p a

end QV.Proofs.TypingChecks
