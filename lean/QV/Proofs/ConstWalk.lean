/-
  C03 end to end on constant expressions: composition of the per-operator folding results (QV.Proofs.ConstFold) over the
  AST walk (Model/Walk.lean) by induction on the expression, with the walk-monad lemmas of QV.Proofs.SemWalk.

  Fragment  ConstFrag ::= integer | true | false | float | string | null | unary-op ConstFrag | ConstFrag ⊕ ConstFrag
  (⊕ every binary operator token except `&&` and `||`; tokens the language does not support — `**`, `>>>`, `??`,
  `instanceof`, `in`, `typeof`, `void`, `delete` — are in the fragment: the walk refuses them).
-/
import QV.Proofs.SemWalk
import QV.Proofs.ConstFold

namespace QV.Proofs.ConstWalk
open QV.Model QV.Spec.ConstSem QV.Proofs.ConstFold QV.Proofs.SemWalk

/-! ### per-operator folding (the statements of QV.Props.C03.fold_unary_sound / fold_binary_sound, proved here from
    QV.Proofs.ConstFold so that this module does not depend on the property file) -/

theorem foldBinary (F : FloatOps) (env : Env) (b : Builder) (tok : BinaryToken) (op : BinaryOp)
    (htok : tok.toOp = some op) (hlog : ∀ lop, op ≠ .logical lop) (l r : ConstantValue) (hl : inRange l)
    (res : Operand) (b' : Builder)
    (h : visitBinaryExpression F env b op (.const l) (.const r) = .ok (res, b')) :
    b' = b ∧ ∃ c, res = .const c ∧ inRange c ∧ binary F tok (valOf l) (valOf r) = .val (valOf c) := by
  cases op with
  | logical lop => exact absurd rfl (hlog lop)
  | arith aop =>
    simp only [visitBinaryExpression] at h
    cases he : evalBinaryArith F aop l r with
    | error e => simp [he] at h
    | ok c =>
      simp [he] at h
      exact ⟨h.2.symm, c, h.1.symm, sound_arith F tok aop htok l r c hl he⟩
  | bitwise bop =>
    simp only [visitBinaryExpression] at h
    cases he : evalBinaryBitwise bop l r with
    | error e => simp [he] at h
    | ok c =>
      simp [he] at h
      exact ⟨h.2.symm, c, h.1.symm, sound_bitwise F tok bop htok l r c he⟩
  | shift sop =>
    simp only [visitBinaryExpression] at h
    cases he : evalShift sop l r with
    | error e => simp [he] at h
    | ok c =>
      simp [he] at h
      exact ⟨h.2.symm, c, h.1.symm, sound_shift F tok sop htok l r c hl he⟩
  | cmp cop =>
    simp only [visitBinaryExpression] at h
    cases he : evalComparison F cop l r with
    | error e => simp [he] at h
    | ok c =>
      simp [he] at h
      exact ⟨h.2.symm, c, h.1.symm, sound_cmp F tok cop htok l r c he⟩

theorem foldUnary (F : FloatOps) (b : Builder) (tok : UnaryToken) (op : UnaryOp)
    (htok : tok.toOp = some op) (a : ConstantValue) (ha : inRange a) (res : Operand) (b' : Builder)
    (h : visitUnaryExpression F b op (.const a) = .ok (res, b')) :
    b' = b ∧ ∃ c, res = .const c ∧ inRange c ∧ unary F tok (valOf a) = .val (valOf c) := by
  cases tok <;> simp [UnaryToken.toOp] at htok <;> subst htok <;> cases a <;>
    simp [visitUnaryExpression, evalUnaryArith, evalUnaryBitwise, evalUnaryLogical] at h
  case logicalNot.bool v =>
    exact ⟨h.2.symm, _, h.1.symm, trivial, by simp [unary, valOf]⟩
  case bitwiseNot.integer v =>
    refine ⟨h.2.symm, _, h.1.symm, ?_, by simp [unary, valOf]⟩
    simp only [inRange, representable, Bool.and_eq_true, decide_eq_true_eq] at ha ⊢
    omega
  case minus.integer v =>
    rcases checked_cases (-v) with ⟨hr, h1, h2⟩ | ⟨_, h1, _⟩ <;> rw [h1] at h
    · simp at h
      exact ⟨h.2.symm, _, h.1.symm, hr, by simp [unary, valOf, h2]⟩
    · simp at h
  case minus.float v =>
    exact ⟨h.2.symm, _, h.1.symm, trivial, by simp [unary, valOf]⟩
  case plus.integer v =>
    exact ⟨h.2.symm, _, h.1.symm, ha, by simp [unary, valOf]⟩
  case plus.float v =>
    exact ⟨h.2.symm, _, h.1.symm, trivial, by simp [unary, valOf]⟩

/-! ### the fragment -/

inductive ConstFrag : Expr → Prop
  | int (v : Nat) : ConstFrag (.integer v)
  | bool (b : Bool) : ConstFrag (.bool b)
  | float (v : Nat) : ConstFrag (.float v)
  | string (s : List Char) : ConstFrag (.string s)
  | null : ConstFrag .null
  | unary (tok : UnaryToken) (a : Expr) : ConstFrag a → ConstFrag (.unary tok a)
  | binary (tok : BinaryToken) (l r : Expr) : (∀ lop, tok.toOp ≠ some (.logical lop)) →
      ConstFrag l → ConstFrag r → ConstFrag (.binary tok l r)

/-- a failed walk: the builder is untouched (no code), at least one diagnostic was added, nothing else changed -/
def FailedWith (s s' : WState) : Prop :=
  s'.b = s.b ∧ s'.locals = s.locals ∧ ∃ d ds, s'.diags = s.diags ++ d :: ds

theorem FailedWith.trans_diag (s s' : WState) (m : String) (h : s' = s) :
    FailedWith s { s' with diags := s'.diags ++ [m] } := by
  subst h
  exact ⟨rfl, rfl, m, [], rfl⟩

theorem wstate_eta (s : WState) : ({ s with b := s.b } : WState) = s := by cases s; rfl

/-! ### literal cases -/

theorem run_float (wc : Ctx) (v : Nat) (s : WState) :
    (walkRvalue wc (.float v)).run s = (some (.const (.float v)), s) := by
  rw [walkRvalue, walkExpr]; rfl

theorem run_string (wc : Ctx) (v : List Char) (s : WState) :
    (walkRvalue wc (.string v)).run s = (some (.const (.cstring v)), s) := by
  rw [walkRvalue, walkExpr]; rfl

theorem run_null (wc : Ctx) (s : WState) :
    (walkRvalue wc .null).run s = (some (.const .nullPointer), s) := by
  rw [walkRvalue, walkExpr]; rfl

/-- an integer literal that does not fit `i64` (≥ 2^63) is refused by `visit_integer`, with the conversion diagnostic -/
theorem run_integer_too_large (wc : Ctx) (v : Nat) (s : WState) (hv : ¬ (v : Int) ≤ i64Max) :
    (walkRvalue wc (.integer v)).run s =
      (none, { s with diags := s.diags ++ [ExprError.integerConversion.message] }) := by
  rw [walkRvalue, walkExpr]
  simp only [run_bind, run_getB, visitInteger, hv, ↓reduceIte]
  rfl

theorem run_integer_ok (wc : Ctx) (v : Nat) (s : WState) (hv : (v : Int) ≤ i64Max) :
    (walkRvalue wc (.integer v)).run s = (some (.const (.integer v)), s) := by
  rw [walkRvalue, walkExpr]
  simp only [run_bind, run_getB, visitInteger, hv, ↓reduceIte]
  rfl

/-! ### equations of the denotation (definitional; the generated equation lemmas of `eval` are too deep to build) -/

theorem eval_integer (F : FloatOps) (v : Nat) : eval F (.integer v) = if (v : Int) < (2 : Int) ^ 63 then .val (.int v) else .undefined "integer literal out of range" := by
  rfl
theorem eval_bool (F : FloatOps) (v : Bool) : eval F (.bool v) = .val (.bool v) := rfl
theorem eval_float (F : FloatOps) (v : Nat) : eval F (.float v) = .val (.float v) := rfl
theorem eval_string (F : FloatOps) (v : List Char) : eval F (.string v) = .val (.str v) := rfl
theorem eval_null (F : FloatOps) : eval F .null = .val .null := rfl
theorem eval_unary (F : FloatOps) (op : UnaryToken) (a : Expr) : eval F (.unary op a) = (match eval F a with | .val v => unary F op v | r => r) := by
  rfl
theorem eval_binary (F : FloatOps) (op : BinaryToken) (l r : Expr) : eval F (.binary op l r) =
    (match op.toOp with
     | none => .illTyped
     | some _ =>
       match eval F l, eval F r with
       | .val a, .val b => binary F op a b
       | .undefined w, _ => .undefined w
       | .val _, .undefined w => .undefined w
       | .outside, _ | _, .outside => .outside
       | _, _ => .illTyped) := by
  rfl

/-! ### the walk on the fragment -/

/-- what a walk of a constant expression does: it either succeeds WITHOUT touching the state (no statement, no local,
    no diagnostic) and returns a constant within 64 bits that is the denotation of the expression, or it fails with a
    diagnostic and without code -/
def Outcome (F : FloatOps) (e : Expr) (s : WState) (r : Option Operand × WState) : Prop :=
  match r with
  | (some op, s') => s' = s ∧ ∃ c, op = .const c ∧ inRange c ∧ eval F e = .val (valOf c)
  | (none, s') => FailedWith s s'

theorem representable_nat (v : Nat) (h : (v : Int) ≤ i64Max) : representable (v : Int) = true := by
  have e63 : (2 : Int) ^ 63 = 9223372036854775808 := by decide
  simp only [representable, e63, Bool.and_eq_true, decide_eq_true_eq, i64Max] at h ⊢
  omega

theorem lt_pow_of_le (v : Nat) (h : (v : Int) ≤ i64Max) : (v : Int) < (2 : Int) ^ 63 := by
  have e63 : (2 : Int) ^ 63 = 9223372036854775808 := by decide
  simp only [e63, i64Max] at h ⊢
  omega

theorem walk_const (wc : Ctx) (e : Expr) (hf : ConstFrag e) :
    ∀ s, Outcome wc.F e s ((walkRvalue wc e).run s) := by
  induction hf with
  | int v =>
    intro s
    by_cases hv : (v : Int) ≤ i64Max
    · rw [run_integer_ok wc v s hv]
      refine ⟨rfl, _, rfl, representable_nat v hv, ?_⟩
      rw [eval_integer, if_pos (lt_pow_of_le v hv)]
      rfl
    · rw [run_integer_too_large wc v s hv]
      exact ⟨rfl, rfl, _, [], rfl⟩
  | bool v => intro s; rw [run_bool]; exact ⟨rfl, _, rfl, trivial, by simp [eval_bool, valOf]⟩
  | float v => intro s; rw [run_float]; exact ⟨rfl, _, rfl, trivial, by simp [eval_float, valOf]⟩
  | string v => intro s; rw [run_string]; exact ⟨rfl, _, rfl, trivial, by simp [eval_string, valOf]⟩
  | null => intro s; rw [run_null]; exact ⟨rfl, _, rfl, trivial, by simp [eval_null, valOf]⟩
  | unary tok a _ ih =>
    intro s
    rw [run_unary]
    have iha := ih s
    cases hw : (walkRvalue wc a).run s with
    | mk r s1 =>
      rw [hw] at iha
      cases r with
      | none => exact iha
      | some arg =>
        obtain ⟨hs1, ca, harg, hca, heva⟩ := iha
        subst hs1; subst harg
        simp only
        cases htok : tok.toOp with
        | none => exact ⟨rfl, rfl, _, [], rfl⟩
        | some u =>
          simp only
          cases hv : visitUnaryExpression wc.F s1.b u (.const ca) with
          | error er => exact ⟨rfl, rfl, _, [], rfl⟩
          | ok xb =>
            obtain ⟨x, b⟩ := xb
            obtain ⟨hb, c, hx, hc, hval⟩ := foldUnary wc.F s1.b tok u htok ca hca x b hv
            subst hb; subst hx
            refine ⟨wstate_eta s1, c, rfl, hc, ?_⟩
            rw [eval_unary, heva]
            exact hval
  | binary tok l r hlog _ _ ihl ihr =>
    intro s
    cases htok : tok.toOp with
    | none =>
      -- an operator token the language does not have: refused
      rw [walkRvalue, walkExpr]
      simp only [htok, run_bind]
      exact ⟨rfl, rfl, _, [], rfl⟩
    | some op =>
      have hlog' : ∀ lop, op ≠ .logical lop := fun lop h => hlog lop (by rw [htok, h])
      rw [run_binary wc tok op l r s htok hlog']
      have ih1 := ihl s
      cases hw1 : (walkRvalue wc l).run s with
      | mk r1 s1 =>
        rw [hw1] at ih1
        cases r1 with
        | none => exact ih1
        | some left =>
          obtain ⟨hs1, cl, hleft, hcl, hevl⟩ := ih1
          subst hs1; subst hleft
          simp only
          have ih2 := ihr s1
          cases hw2 : (walkRvalue wc r).run s1 with
          | mk r2 s2 =>
            rw [hw2] at ih2
            cases r2 with
            | none => exact ih2
            | some right =>
              obtain ⟨hs2, cr, hright, _, hevr⟩ := ih2
              subst hs2; subst hright
              simp only
              cases hv : visitBinaryExpression wc.F wc.env s2.b op (.const cl) (.const cr) with
              | error er => exact ⟨rfl, rfl, _, [], rfl⟩
              | ok xb =>
                obtain ⟨x, b⟩ := xb
                obtain ⟨hb, c, hx, hc, hval⟩ := foldBinary wc.F wc.env s2.b tok op htok hlog' cl cr hcl x b hv
                subst hb; subst hx
                refine ⟨wstate_eta s2, c, rfl, hc, ?_⟩
                rw [eval_binary, htok, hevl, hevr]
                exact hval

theorem run_rvalue (wc : Ctx) (e : Expr) (s : WState) :
    (walkRvalue wc e).run s =
      match (walkExpr wc e).run s with
      | (some i, s1) => (interToRvalue i).run s1
      | (none, s1) => (none, s1) := by
  rw [walkRvalue]
  simp only [run_bind]
  cases (walkExpr wc e).run s with
  | mk r s1 => cases r <;> rfl

/-- on the fragment `walk_expr` returns an item (never a bound property / method / type …) -/
theorem walkExpr_const_item (wc : Ctx) (e : Expr) (hf : ConstFrag e) (s s' : WState) (i : QV.Model.Inter)
    (h : (walkExpr wc e).run s = (some i, s')) : ∃ x, i = .item x := by
  cases hf with
  | int v =>
    rw [walkExpr] at h
    simp only [run_bind, run_getB] at h
    cases hc : (consume (visitInteger s.b v)).run s with
    | mk r s1 =>
      rw [hc] at h
      cases r with
      | none => (injection h with h1 _; cases h1)
      | some a => simp only [run_pure] at h; injection h with h1 _; injection h1 with h1; exact ⟨a, h1.symm⟩
  | bool v => rw [walkExpr] at h; injection h with h1 _; injection h1 with h1; exact ⟨_, h1.symm⟩
  | float v => rw [walkExpr] at h; injection h with h1 _; injection h1 with h1; exact ⟨_, h1.symm⟩
  | string v => rw [walkExpr] at h; injection h with h1 _; injection h1 with h1; exact ⟨_, h1.symm⟩
  | null => rw [walkExpr] at h; injection h with h1 _; injection h1 with h1; exact ⟨_, h1.symm⟩
  | unary tok a _ =>
    rw [walkExpr] at h
    simp only [run_bind] at h
    cases hw : (walkRvalue wc a).run s with
    | mk r s1 =>
      rw [hw] at h
      cases r with
      | none => (injection h with h1 _; cases h1)
      | some arg =>
        simp only at h
        cases htok : tok.toOp with
        | none =>
          rw [htok] at h
          have : ((err s!"unsupported operation '{tok.symbol}'" : W QV.Model.Inter).run s1).1 = none := rfl
          simp only at h
          rw [h] at this
          simp at this
        | some u =>
          rw [htok] at h
          simp only [run_bind, run_getB] at h
          cases hc : (consume (visitUnaryExpression wc.F s1.b u arg)).run s1 with
          | mk r2 s2 =>
            rw [hc] at h
            cases r2 with
            | none => (injection h with h1 _; cases h1)
            | some x => simp only [run_pure] at h; injection h with h1 _; injection h1 with h1; exact ⟨x, h1.symm⟩
  | binary tok l r hlog _ _ =>
    rw [walkExpr] at h
    cases htok : tok.toOp with
    | none =>
      rw [htok] at h
      have : ((err s!"unsupported operation '{tok.symbol}'" : W QV.Model.Inter).run s).1 = none := rfl
      simp only at h
      rw [h] at this
      simp at this
    | some op =>
      rw [htok] at h
      cases op with
      | logical lop => exact absurd htok (hlog lop)
      | _ =>
        simp only [run_bind] at h
        cases hw1 : (walkRvalue wc l).run s with
        | mk r1 s1 =>
          rw [hw1] at h
          cases r1 with
          | none => (injection h with h1 _; cases h1)
          | some left =>
            simp only at h
            cases hw2 : (walkRvalue wc r).run s1 with
            | mk r2 s2 =>
              rw [hw2] at h
              cases r2 with
              | none => (injection h with h1 _; cases h1)
              | some right =>
                simp only [run_bind, run_getB] at h
                cases hc : (consume (visitBinaryExpression wc.F wc.env s2.b _ left right)).run s2 with
                | mk r3 s3 =>
                  rw [hc] at h
                  cases r3 with
                  | none => (injection h with h1 _; cases h1)
                  | some x => simp only [run_pure] at h; injection h with h1 _; injection h1 with h1; exact ⟨x, h1.symm⟩

/-- (a) on the fragment, a successful `walk_expr` returns `.item (.const c)`, leaves the state untouched (no statement,
    no local, no diagnostic), `c` lies within 64 bits, and `c` is the denotation of the expression -/
theorem walk_const_sound (wc : Ctx) (e : Expr) (hf : ConstFrag e) (s s' : WState) (i : QV.Model.Inter)
    (h : (walkExpr wc e).run s = (some i, s')) :
    s' = s ∧ ∃ c, i = .item (.const c) ∧ inRange c ∧ eval wc.F e = .val (valOf c) := by
  obtain ⟨x, rfl⟩ := walkExpr_const_item wc e hf s s' i h
  have hr := run_rvalue wc e s
  rw [h] at hr
  have ho := walk_const wc e hf s
  rw [hr] at ho
  obtain ⟨hs, c, hx, hc, hev⟩ := ho
  exact ⟨hs, c, by rw [← hx], hc, hev⟩

/-- (b) an expression of the fragment WITHOUT a value (64-bit overflow, division by zero, bad shift count, integer
    literal ≥ 2^63, …) is refused: the walk fails, adds a diagnostic and emits no code -/
theorem walk_const_rejects_undefined (wc : Ctx) (e : Expr) (hf : ConstFrag e) (w : String)
    (hu : eval wc.F e = .undefined w) (s : WState) :
    ∃ s', (walkExpr wc e).run s = (none, s') ∧ FailedWith s s' := by
  cases hrun : (walkExpr wc e).run s with
  | mk r s' =>
    cases r with
    | some i =>
      obtain ⟨_, c, _, _, hev⟩ := walk_const_sound wc e hf s s' i hrun
      rw [hu] at hev
      cases hev
    | none =>
      refine ⟨s', rfl, ?_⟩
      have hr := run_rvalue wc e s
      rw [hrun] at hr
      have ho := walk_const wc e hf s
      rw [hr] at ho
      exact ho

/-- the same for any expression that is not a well-typed constant with a value: whenever the walk fails, it is with a
    diagnostic and without code (totality of the dichotomy) -/
theorem walk_const_fails_with_diagnostic (wc : Ctx) (e : Expr) (hf : ConstFrag e) (s s' : WState)
    (h : (walkExpr wc e).run s = (none, s')) : FailedWith s s' := by
  have hr := run_rvalue wc e s
  rw [h] at hr
  have ho := walk_const wc e hf s
  rw [hr] at ho
  exact ho

/-- integer literals ≥ 2^63: no value in the specification, refused by `visit_integer` -/
theorem walk_const_integer_too_large (wc : Ctx) (v : Nat) (hv : (2 : Int) ^ 63 ≤ (v : Int)) (s : WState) :
    (∃ w, eval wc.F (.integer v) = .undefined w) ∧
    (walkRvalue wc (.integer v)).run s = (none, { s with diags := s.diags ++ [ExprError.integerConversion.message] }) := by
  have e63 : (2 : Int) ^ 63 = 9223372036854775808 := by decide
  constructor
  · refine ⟨"integer literal out of range", ?_⟩
    rw [eval_integer, if_neg (by omega)]
  · apply run_integer_too_large
    simp only [i64Max]
    omega

/-! ### the binding level -/

/-- the evaluated value (tir/interpret.rs `EvaluatedValue`) a constant operand becomes in `evaluate_code`
    (`to_evaluated_value`; `null` has none) -/
def evaluatedOf : ConstantValue → Option EvaluatedValue
  | .bool v => some (.bool v)
  | .integer v => some (.integer v)
  | .float v => some (.float v)
  | .cstring v | .qstring v => some (.string v .noTr)
  | .nullPointer => none
  | .emptyList => some .emptyList

/-- what an evaluated value denotes in the specification's values -/
def denoted : EvaluatedValue → Option Val
  | .bool b => some (.bool b)
  | .integer v => some (.int v)
  | .float v => some (.float v)
  | .string s .noTr => some (.str s)
  | .string s .tr => some (.trStr s)
  | _ => none

theorem denoted_evaluatedOf (c : ConstantValue) (hn : c ≠ .nullPointer) (he : c ≠ .emptyList) :
    (evaluatedOf c).bind denoted = some (valOf c) := by
  cases c <;> simp_all [evaluatedOf, denoted, valOf]

set_option linter.unusedSimpArgs false in
/-- (c) the binding level: for the binding `e` with `e` in the fragment, `tir::build` either produces a body — then
    without diagnostics and panics, and `evaluate_code` of that body is the evaluated value of a constant `c` within 64
    bits that is the denotation of `e` — or no body and at least one diagnostic -/
theorem build_const (wc : Ctx) (e : Expr) (hf : ConstFrag e) :
    (∀ code, (build wc false (.stmt (.expr e))).code = some code →
      (build wc false (.stmt (.expr e))).diags = [] ∧ (build wc false (.stmt (.expr e))).panic = none ∧
      ∃ c, inRange c ∧ eval wc.F e = .val (valOf c) ∧ evaluateCode wc.env code = .value (evaluatedOf c)) ∧
    ((build wc false (.stmt (.expr e))).code = none → (build wc false (.stmt (.expr e))).diags ≠ []) := by
  have hrun := run_expr_stmt wc e {}
  have ho := walk_const wc e hf {}
  cases hw : (walkRvalue wc e).run {} with
  | mk r s1 =>
    rw [hw] at hrun ho
    cases r with
    | none =>
      obtain ⟨_, _, d, ds, hd⟩ := ho
      simp only at hrun
      constructor
      · intro code hcode
        simp [build, walkProgram, hrun] at hcode
      · intro _
        simp [build, walkProgram, hrun, hd]
    | some op =>
      obtain ⟨hs1, c, hop, hc, hev⟩ := ho
      subst hs1; subst hop
      simp only at hrun
      constructor
      · intro code hcode
        simp only [build, walkProgram, hrun] at hcode ⊢
        refine ⟨?_, ?_, c, hc, hev, ?_⟩
        · first | trivial | rfl
        · first | trivial | (cases c <;> rfl)
        · simp only [Option.some.injEq] at hcode
          subst hcode
          cases c <;> rfl
      · intro hn
        simp [build, walkProgram, hrun] at hn

/-- an expression of the fragment without a value is not built: no body, at least one diagnostic -/
theorem build_const_rejects_undefined (wc : Ctx) (e : Expr) (hf : ConstFrag e) (w : String)
    (hu : eval wc.F e = .undefined w) :
    (build wc false (.stmt (.expr e))).code = none ∧ (build wc false (.stmt (.expr e))).diags ≠ [] := by
  obtain ⟨h1, h2⟩ := build_const wc e hf
  cases hc : (build wc false (.stmt (.expr e))).code with
  | none => exact ⟨rfl, h2 hc⟩
  | some code =>
    obtain ⟨_, _, c, _, hev, _⟩ := h1 code hc
    rw [hu] at hev
    cases hev

end QV.Proofs.ConstWalk
