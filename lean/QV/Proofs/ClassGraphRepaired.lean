import QV.Model.ClassGraphRepaired
import QV.Proofs.ClassGraph

/-
  Lemmas about QV.Model.ClassGraph.Repaired (the query functions after the proposed repair of F10): with
  errors deferred, every answer is complete on *all* tables.
-/
namespace QV.Proofs.ClassGraph.Repaired
open QV.Model.ClassGraph QV.Proofs.ClassGraph

theorem fmi_found {α : Type} {f : ClassDecl → Lookup α} {l : List Item} {fe : Option TypeMapError} {x : α}
    (h : Repaired.findMapItems f l fe = .found x) : ∃ d, .ok d ∈ l ∧ f d = .found x := by
  induction l generalizing fe with
  | nil => cases fe <;> simp [Repaired.findMapItems] at h
  | cons i rest ih =>
    cases i with
    | err e =>
      cases fe with
      | none => simp only [Repaired.findMapItems] at h; obtain ⟨d, hd, hf⟩ := ih h; exact ⟨d, List.mem_cons_of_mem _ hd, hf⟩
      | some e0 => simp only [Repaired.findMapItems] at h; obtain ⟨d, hd, hf⟩ := ih h; exact ⟨d, List.mem_cons_of_mem _ hd, hf⟩
    | ok c =>
      simp only [Repaired.findMapItems] at h
      cases hfc : f c with
      | notFound => rw [hfc] at h; obtain ⟨d, hd, hf⟩ := ih h; exact ⟨d, List.mem_cons_of_mem _ hd, hf⟩
      | found y => rw [hfc] at h; cases h; exact ⟨c, List.mem_cons_self, hfc⟩
      | error e => rw [hfc] at h; cases h

/-- the first class on which `f` answers decides the result, whatever unresolved references surround it -/
theorem fmi_hit {α : Type} {f : ClassDecl → Lookup α} {l : List Item} {fe : Option TypeMapError} {d : ClassDecl}
    (hd : .ok d ∈ l) (hf : f d ≠ .notFound) :
    ∃ d', .ok d' ∈ l ∧ f d' ≠ .notFound ∧ Repaired.findMapItems f l fe = f d' := by
  induction l generalizing fe with
  | nil => cases hd
  | cons i rest ih =>
    cases i with
    | err e =>
      have hd' : Item.ok d ∈ rest := by
        rcases List.mem_cons.mp hd with h | h
        · cases h
        · exact h
      cases fe with
      | none =>
        obtain ⟨d', h1, h2, h3⟩ := ih (fe := some e) hd'
        exact ⟨d', List.mem_cons_of_mem _ h1, h2, by simp only [Repaired.findMapItems]; exact h3⟩
      | some e0 =>
        obtain ⟨d', h1, h2, h3⟩ := ih (fe := some e0) hd'
        exact ⟨d', List.mem_cons_of_mem _ h1, h2, by simp only [Repaired.findMapItems]; exact h3⟩
    | ok c =>
      cases hfc : f c with
      | notFound =>
        have hd' : Item.ok d ∈ rest := by
          rcases List.mem_cons.mp hd with h | h
          · cases h; exact absurd hfc hf
          · exact h
        obtain ⟨d', h1, h2, h3⟩ := ih (fe := fe) hd'
        exact ⟨d', List.mem_cons_of_mem _ h1, h2, by simp only [Repaired.findMapItems, hfc]; exact h3⟩
      | found y =>
        exact ⟨c, List.mem_cons_self, by rw [hfc]; simp, by simp only [Repaired.findMapItems, hfc]⟩
      | error e =>
        exact ⟨c, List.mem_cons_self, by rw [hfc]; simp, by simp only [Repaired.findMapItems, hfc]⟩

theorem fmi_none {α : Type} {f : ClassDecl → Lookup α} {l : List Item} {fe : Option TypeMapError}
    (hall : ∀ d, .ok d ∈ l → f d = .notFound) :
    Repaired.findMapItems f l fe = .notFound ∨ ∃ e, Repaired.findMapItems f l fe = .error e ∧ (fe = some e ∨ .err e ∈ l) := by
  induction l generalizing fe with
  | nil =>
    cases fe with
    | none => exact .inl (by simp [Repaired.findMapItems])
    | some e => exact .inr ⟨e, by simp [Repaired.findMapItems], .inl rfl⟩
  | cons i rest ih =>
    have hall' : ∀ d, Item.ok d ∈ rest → f d = .notFound := fun d hd => hall d (List.mem_cons_of_mem _ hd)
    cases i with
    | err e =>
      cases fe with
      | none =>
        simp only [Repaired.findMapItems]
        rcases ih (fe := some e) hall' with h | ⟨e', h1, h2⟩
        · exact .inl h
        · refine .inr ⟨e', h1, .inr ?_⟩
          rcases h2 with h2 | h2
          · cases h2; exact List.mem_cons_self
          · exact List.mem_cons_of_mem _ h2
      | some e0 =>
        simp only [Repaired.findMapItems]
        rcases ih (fe := some e0) hall' with h | ⟨e', h1, h2⟩
        · exact .inl h
        · refine .inr ⟨e', h1, ?_⟩
          rcases h2 with h2 | h2
          · exact .inl h2
          · exact .inr (List.mem_cons_of_mem _ h2)
    | ok c =>
      simp only [Repaired.findMapItems, hall c List.mem_cons_self]
      rcases ih (fe := fe) hall' with h | ⟨e', h1, h2⟩
      · exact .inl h
      · refine .inr ⟨e', h1, ?_⟩
        rcases h2 with h2 | h2
        · exact .inl h2
        · exact .inr (List.mem_cons_of_mem _ h2)

theorem fmsb_eq {α : Type} (t : Table) (self : ClassDecl) (f : ClassDecl → Lookup α) :
    Repaired.findMapSelfAndBaseClasses t self f =
      (match f self with
       | .notFound => Repaired.findMapItems f (baseClasses t self) none
       | .found x => .found x
       | .error e => .error e) := by
  unfold Repaired.findMapSelfAndBaseClasses
  cases f self <;> rfl

theorem fmsb_found {α : Type} {t : Table} {self : ClassDecl} {f : ClassDecl → Lookup α} {x : α}
    (h : Repaired.findMapSelfAndBaseClasses t self f = .found x) : ∃ d, Reach t self d ∧ f d = .found x := by
  rw [fmsb_eq] at h
  cases hfs : f self with
  | notFound =>
    rw [hfs] at h
    obtain ⟨d, hd, hfd⟩ := fmi_found h
    exact ⟨d, baseClasses_reach hd, hfd⟩
  | found y => rw [hfs] at h; cases h; exact ⟨self, .refl _, hfs⟩
  | error e => rw [hfs] at h; cases h

/-- all tables: if the class or any ancestor answers, the search returns the answer of one of them -/
theorem fmsb_hit {α : Type} {t : Table} {self d : ClassDecl} {f : ClassDecl → Lookup α}
    (hr : Reach t self d) (hf : f d ≠ .notFound) :
    ∃ d', Reach t self d' ∧ f d' ≠ .notFound ∧ Repaired.findMapSelfAndBaseClasses t self f = f d' := by
  rw [fmsb_eq]
  cases hfs : f self with
  | notFound =>
    rcases reach_cases hr with rfl | hd
    · exact absurd hfs hf
    · obtain ⟨d', h1, h2, h3⟩ := fmi_hit (fe := none) hd hf
      exact ⟨d', baseClasses_reach h1, h2, h3⟩
  | found y => exact ⟨self, .refl _, by rw [hfs]; simp, by rw [hfs]⟩
  | error e => exact ⟨self, .refl _, by rw [hfs]; simp, by rw [hfs]⟩

/-- all tables: if neither the class nor any ancestor answers, the result is "not found" or the deferred error -/
theorem fmsb_none {α : Type} {t : Table} {self : ClassDecl} {f : ClassDecl → Lookup α}
    (hall : ∀ d, Reach t self d → f d = .notFound) :
    Repaired.findMapSelfAndBaseClasses t self f = .notFound ∨
      ∃ e, Repaired.findMapSelfAndBaseClasses t self f = .error e ∧ .err e ∈ baseClasses t self := by
  rw [fmsb_eq, hall self (.refl _)]
  rcases fmi_none (f := f) (l := baseClasses t self) (fe := none) (fun d hd => hall d (baseClasses_reach hd)) with h | ⟨e, h1, h2⟩
  · exact .inl h
  · refine .inr ⟨e, h1, ?_⟩
    rcases h2 with h2 | h2
    · cases h2
    · exact h2

/-! a member lookup whose per-class function never fails -/
section member
variable {α : Type} {t : Table} {f : ClassDecl → Lookup α} {P : ClassDecl → Prop} {owner : α → ClassDecl}

structure TotalMemberLookup (f : ClassDecl → Lookup α) (P : ClassDecl → Prop) (owner : α → ClassDecl) : Prop where
  found : ∀ d x, f d = .found x → owner x = d ∧ P d
  notFound : ∀ d, f d = .notFound → ¬ P d
  noError : ∀ d e, f d ≠ .error e

theorem TotalMemberLookup.sound (m : TotalMemberLookup f P owner) {self : ClassDecl} {x : α}
    (h : Repaired.findMapSelfAndBaseClasses t self f = .found x) : Reach t self (owner x) ∧ P (owner x) := by
  obtain ⟨d, hd, hfd⟩ := fmsb_found h
  obtain ⟨h1, h2⟩ := m.found d x hfd
  rw [h1]; exact ⟨hd, h2⟩

theorem TotalMemberLookup.complete (m : TotalMemberLookup f P owner) {self d : ClassDecl}
    (hd : Reach t self d) (hp : P d) : ∃ x, Repaired.findMapSelfAndBaseClasses t self f = .found x := by
  have hf : f d ≠ .notFound := fun h => m.notFound d h hp
  obtain ⟨d', _, h2, h3⟩ := fmsb_hit (t := t) hd hf
  cases hfd : f d' with
  | found x => exact ⟨x, by rw [h3, hfd]⟩
  | notFound => exact absurd hfd h2
  | error e => exact absurd hfd (m.noError d' e)

theorem TotalMemberLookup.own_first (m : TotalMemberLookup f P owner) {self : ClassDecl} (hp : P self) :
    ∃ x, Repaired.findMapSelfAndBaseClasses t self f = .found x ∧ owner x = self := by
  cases h : f self with
  | found x => exact ⟨x, by rw [fmsb_eq, h], (m.found self x h).1⟩
  | notFound => exact absurd hp (m.notFound self h)
  | error e => exact absurd h (m.noError self e)

theorem TotalMemberLookup.none (m : TotalMemberLookup f P owner) {self : ClassDecl}
    (h : ¬ ∃ x, Repaired.findMapSelfAndBaseClasses t self f = .found x) : ∀ d, Reach t self d → ¬ P d :=
  fun _ hd hp => h (m.complete hd hp)

end member

theorem getType_eq_found {t : Table} {self : ClassDecl} {n : Name} {x : ClassDecl × EnumDecl} :
    Repaired.getType t self n = .found x ↔
      Repaired.findMapSelfAndBaseClasses t self (fun cls => getTypeNoSuper cls n) = .found x := by
  unfold Repaired.getType
  cases Repaired.findMapSelfAndBaseClasses t self (fun cls => getTypeNoSuper cls n) <;> simp

theorem getType_ne_error (t : Table) (self : ClassDecl) (n : Name) (e : TypeMapError) :
    Repaired.getType t self n ≠ .error e := by
  unfold Repaired.getType
  cases Repaired.findMapSelfAndBaseClasses t self (fun cls => getTypeNoSuper cls n) <;> simp

theorem resolveMemberType_found (t : Table) (d : ClassDecl) (ty : Name) :
    Repaired.resolveMemberType t d ty = .found () := by
  unfold Repaired.resolveMemberType
  cases h : Repaired.getType t d ty with
  | error e => exact absurd h (getType_ne_error t d ty e)
  | found x => rfl
  | notFound => rfl

theorem resolveMemberTypes_found (t : Table) (d : ClassDecl) (tys : List Name) :
    Repaired.resolveMemberTypes t d tys = .found () := by
  induction tys with
  | nil => rfl
  | cons ty rest ih => simp only [Repaired.resolveMemberTypes, resolveMemberType_found, ih]

theorem getType_total (n : Name) :
    TotalMemberLookup (fun cls => getTypeNoSuper cls n) (fun d => ∃ e ∈ d.enums, e.name = n) (·.1) :=
  ⟨(getType_member { classes := [] } n).found, (getType_member { classes := [] } n).notFound,
    fun d e => by unfold getTypeNoSuper; split <;> simp⟩

theorem getEnumByVariant_total (v : Name) :
    TotalMemberLookup (fun cls => getEnumByVariantNoSuper cls v)
      (fun d => ∃ e ∈ d.enums, e.isScoped = false ∧ v ∈ e.variants) (·.1) :=
  ⟨(getEnumByVariant_member { classes := [] } v).found, (getEnumByVariant_member { classes := [] } v).notFound,
    fun d e => by unfold getEnumByVariantNoSuper; split <;> simp⟩

theorem getProperty_total (t : Table) (p : Name) :
    TotalMemberLookup (fun cls => Repaired.getPropertyNoSuper t cls p) (fun d => p ∈ d.props) id := by
  refine ⟨fun d x h => ?_, fun d h => ?_, fun d e h => ?_⟩
  · unfold Repaired.getPropertyNoSuper at h
    rw [resolveMemberType_found] at h
    split at h
    · next hp => cases h; exact ⟨rfl, hp⟩
    · cases h
  · unfold Repaired.getPropertyNoSuper at h
    rw [resolveMemberType_found] at h
    split at h
    · cases h
    · next hp => exact hp
  · unfold Repaired.getPropertyNoSuper at h
    rw [resolveMemberType_found] at h
    split at h <;> cases h

theorem getPublicMethod_total (t : Table) (m : Name) :
    TotalMemberLookup (fun cls => Repaired.getPublicMethodNoSuper t cls m)
      (fun d => methodSlice (methodTable d) m ≠ []) (·.1) := by
  refine ⟨fun d x h => ?_, fun d h => ?_, fun d e h => ?_⟩
  · unfold Repaired.getPublicMethodNoSuper at h
    split at h
    · cases h
    · next hne => rw [resolveMemberTypes_found] at h; cases h; exact ⟨rfl, hne⟩
  · unfold Repaired.getPublicMethodNoSuper at h
    split at h
    · next he => simp [he]
    · rw [resolveMemberTypes_found] at h; cases h
  · unfold Repaired.getPublicMethodNoSuper at h
    split at h
    · cases h
    · rw [resolveMemberTypes_found] at h; cases h

/-! `is_derived_from`, `common_base_class` -/

theorem pedantic_found_iff {t : Table} {self base : ClassDecl}
    (hs : lookupClass t.classes self.name = some self) (hb : lookupClass t.classes base.name = some base) :
    Repaired.isDerivedFromPedantic t self base = .found () ↔ Reach t self base := by
  unfold Repaired.isDerivedFromPedantic
  constructor
  · intro h
    split at h
    · next hn => rw [handle_eq_of_name_eq hs hb hn]; exact .refl _
    · obtain ⟨d, hd, hfd⟩ := fmi_found h
      have hr := baseClasses_reach hd
      split at hfd
      · next hn => rw [← handle_eq_of_name_eq (reach_handle hr hs) hb hn]; exact hr
      · cases hfd
  · intro hr
    split
    · rfl
    · next hn =>
      rcases reach_cases hr with rfl | hd
      · exact absurd rfl hn
      · obtain ⟨d', _, h2, h3⟩ := fmi_hit (f := fun c => if c.name = base.name then Lookup.found () else .notFound)
          (fe := none) hd (by simp)
        rw [h3]
        split
        · rfl
        · next hne => simp [hne] at h2

theorem isDerivedFrom_iff {t : Table} {self base : ClassDecl}
    (hs : lookupClass t.classes self.name = some self) (hb : lookupClass t.classes base.name = some base) :
    Repaired.isDerivedFrom t self base = true ↔ Reach t self base := by
  rw [← pedantic_found_iff hs hb]
  unfold Repaired.isDerivedFrom
  cases Repaired.isDerivedFromPedantic t self base <;> simp

theorem commonBaseClass_found {t : Table} {self other c : ClassDecl}
    (hs : lookupClass t.classes self.name = some self) (ho : lookupClass t.classes other.name = some other)
    (h : Repaired.commonBaseClass t self other = .found c) : Reach t self c ∧ Reach t other c := by
  unfold Repaired.commonBaseClass at h
  cases heq : Repaired.findMapSelfAndBaseClasses t self (Repaired.commonBaseStep t other) with
  | notFound =>
    simp only [heq] at h
    split at h <;> cases h
  | error e => simp only [heq] at h; cases h
  | found r =>
    simp only [heq] at h
    cases h
    obtain ⟨d, hd, hfd⟩ := fmsb_found heq
    unfold Repaired.commonBaseStep at hfd
    split at hfd
    · next hp => cases hfd; exact ⟨hd, (pedantic_found_iff ho (reach_handle hd hs)).mp hp⟩
    · cases hfd

theorem commonBaseClass_complete {t : Table} {self other c : ClassDecl}
    (hs : lookupClass t.classes self.name = some self) (ho : lookupClass t.classes other.name = some other)
    (h1 : Reach t self c) (h2 : Reach t other c) : ∃ c', Repaired.commonBaseClass t self other = .found c' := by
  have hp := (pedantic_found_iff ho (reach_handle h1 hs)).mpr h2
  have hstep : ∀ d, Repaired.commonBaseStep t other d ≠ .notFound → Repaired.commonBaseStep t other d = .found d := by
    intro d hne
    unfold Repaired.commonBaseStep at hne ⊢
    split
    · rfl
    · next hx => split at hne <;> simp_all
  obtain ⟨d', _, hne, heq⟩ := fmsb_hit (t := t) (self := self) (d := c) (f := Repaired.commonBaseStep t other) h1
    (by unfold Repaired.commonBaseStep; rw [hp]; simp)
  refine ⟨d', ?_⟩
  unfold Repaired.commonBaseClass
  rw [heq, hstep d' hne]

end QV.Proofs.ClassGraph.Repaired
