/- Helper lemmas for C12 (core Lean only). -/
import QV.Model.Layout
import QV.Spec.Layout

namespace QV.Proofs.Layout
open QV.Model.Layout QV.Spec.Layout

def flowOf (ltr : Bool) (n : Nat) : Flow := if ltr then .leftToRight n else .topToBottom n

theorem tmod_succ_of_lt (c n : Nat) (h : c < n) :
    Int.tmod ((c : Int) + 1) (n : Int) = if c + 1 = n then 0 else (c : Int) + 1 := by
  rw [Int.tmod_eq_emod_of_nonneg (by omega)]
  split
  · rename_i h1
    have : ((c : Int) + 1) = (n : Int) := by omega
    rw [this]; simp
  · rename_i h1
    apply Int.emod_eq_of_lt <;> omega

theorem parseIndex_fst (f : String) (v : Option Int) (max : Int) :
    (parseIndex f v max).1 = (validIndex v max).map Int.ofNat := by
  cases v with
  | none => rfl
  | some v =>
    simp only [parseIndex, validIndex]
    by_cases h1 : v < 0
    · simp [h1] <;> omega
    · by_cases h2 : v > max
      · simp [h1, h2] <;> omega
      · have : 0 ≤ v ∧ v ≤ max := by omega
        simp [h1, h2, this] <;> omega

theorem validIndex_le {v : Option Int} {max : Int} {k : Nat} (h : validIndex v max = some k) :
    (k : Int) ≤ max := by
  cases v with
  | none => simp [validIndex] at h
  | some v =>
    simp only [validIndex] at h
    split at h
    · simp at h; omega
    · simp at h

theorem reposition_spec (ltr : Bool) (n r0 c0 : Nat) (row col : Option Nat) :
    Counter.reposition ⟨flowOf ltr n, r0, c0⟩ (row.map Int.ofNat) (col.map Int.ofNat)
      = ⟨flowOf ltr n, ((place ltr (r0, c0) row col).1 : Int), ((place ltr (r0, c0) row col).2 : Int)⟩ := by
  cases ltr <;> cases row <;> cases col <;> simp [Counter.reposition, flowOf, place]

theorem advance_spec (ltr : Bool) (n : Nat) (r c : Nat) (h : if ltr then c < n else r < n) :
    Counter.advance ⟨flowOf ltr n, r, c⟩
        = ⟨flowOf ltr n, ((advance ltr n (r, c)).1 : Int), ((advance ltr n (r, c)).2 : Int)⟩
      ∧ (if ltr then (advance ltr n (r, c)).2 < n else (advance ltr n (r, c)).1 < n) := by
  cases ltr with
  | true =>
    simp only [if_true] at h
    simp only [Counter.advance, flowOf, advance, if_true, tmod_succ_of_lt c n h]
    by_cases hw : c + 1 = n
    · simp [hw]; omega
    · simp [hw]; omega
  | false =>
    simp only [Bool.false_eq_true, if_false] at h
    simp only [Counter.advance, flowOf, advance, Bool.false_eq_true, if_false, tmod_succ_of_lt r n h]
    by_cases hw : r + 1 = n
    · simp [hw]; omega
    · simp [hw]; omega

theorem next_spec (ltr : Bool) (n : Nat) (hn : 0 < n) (r0 c0 : Nat)
    (hc : if ltr then c0 < n else r0 < n) (row col : Option Nat)
    (hcol : ltr = true → ∀ c, col = some c → c < n) (hrow : ltr = false → ∀ r, row = some r → r < n) :
    Counter.next ⟨flowOf ltr n, r0, c0⟩ (row.map Int.ofNat) (col.map Int.ofNat)
        = ((((place ltr (r0, c0) row col).1 : Int), ((place ltr (r0, c0) row col).2 : Int)),
            ⟨flowOf ltr n, ((advance ltr n (place ltr (r0, c0) row col)).1 : Int),
                           ((advance ltr n (place ltr (r0, c0) row col)).2 : Int)⟩)
      ∧ (if ltr then (advance ltr n (place ltr (r0, c0) row col)).2 < n
         else (advance ltr n (place ltr (r0, c0) row col)).1 < n) := by
  have hp : if ltr then (place ltr (r0, c0) row col).2 < n else (place ltr (r0, c0) row col).1 < n := by
    cases ltr with
    | true =>
      simp only [if_true] at hc ⊢
      cases row <;> cases col <;> simp [place] <;> first | exact hc | exact hn | exact hcol rfl _ rfl
    | false =>
      simp only [Bool.false_eq_true, if_false] at hc ⊢
      cases row <;> cases col <;> simp [place] <;> first | exact hc | exact hn | exact hrow rfl _ rfl
  have ha := advance_spec ltr n (place ltr (r0, c0) row col).1 (place ltr (r0, c0) row col).2 hp
  simp only [Counter.next, reposition_spec]
  exact ⟨by rw [ha.1], ha.2⟩

/-- The specification's placement of a child with raw (unvalidated) explicit indexes. -/
def specPlace (ltr : Bool) (n : Nat) (cursor : Nat × Nat) (row col : Option Int) : Nat × Nat :=
  place ltr cursor (validIndex row (if ltr then 65535 else (n : Int) - 1))
    (validIndex col (if ltr then (n : Int) - 1 else 65535))

/-- One step of the counter (with index validation), against the specification's `place`/`advance`. -/
theorem parseNext_spec (ltr : Bool) (n : Nat) (hn : 0 < n) (r0 c0 : Nat)
    (hc : if ltr then c0 < n else r0 < n) (row col : Option Int) :
    (Counter.parseNext ⟨flowOf ltr n, r0, c0⟩ row col).1
        = ((((specPlace ltr n (r0, c0) row col).1 : Int), ((specPlace ltr n (r0, c0) row col).2 : Int)),
            ⟨flowOf ltr n, ((advance ltr n (specPlace ltr n (r0, c0) row col)).1 : Int),
                           ((advance ltr n (specPlace ltr n (r0, c0) row col)).2 : Int)⟩)
      ∧ (if ltr then (advance ltr n (specPlace ltr n (r0, c0) row col)).2 < n
         else (advance ltr n (specPlace ltr n (r0, c0) row col)).1 < n) := by
  unfold specPlace
  have key : (Counter.parseNext ⟨flowOf ltr n, r0, c0⟩ row col).1 =
      Counter.next ⟨flowOf ltr n, r0, c0⟩
        ((validIndex row (if ltr then 65535 else (n : Int) - 1)).map Int.ofNat)
        ((validIndex col (if ltr then (n : Int) - 1 else 65535)).map Int.ofNat) := by
    cases ltr <;> simp [Counter.parseNext, flowOf, parseIndex_fst, maxIndex]
  rw [key]
  apply next_spec ltr n hn r0 c0 hc
  · intro h c hcv
    subst h
    have := validIndex_le hcv
    simp at this; omega
  · intro h r hrv
    subst h
    have := validIndex_le hrv
    simp at this; omega

end QV.Proofs.Layout

namespace QV.Proofs.Layout
open QV.Model.Layout QV.Spec.Layout

/-! ### `maybe_insert_into_opt_i32_array` against "the first value given for an index is recorded" -/

/-- `arr` represents the settings `seen`. -/
def Repr (arr : List (Option Int)) (seen : List (Nat × Int)) : Prop :=
  arr.length = recordedLen seen ∧ ∀ i, arr.getD i none = recorded seen i

theorem repr_nil : Repr [] [] := ⟨rfl, fun i => by simp [recorded]⟩

theorem recorded_lt {seen : List (Nat × Int)} {j : Nat} {v : Int} (h : recorded seen j = some v) :
    j < recordedLen seen := by
  induction seen with
  | nil => simp [recorded] at h
  | cons p rest ih =>
    obtain ⟨k, w⟩ := p
    simp only [recorded] at h
    simp only [recordedLen]
    split at h
    · omega
    · have := ih h; omega

theorem recorded_append (seen : List (Nat × Int)) (j : Nat) (v : Int) (i : Nat) :
    recorded (seen ++ [(j, v)]) i =
      match recorded seen i with
      | some w => some w
      | none => if j = i then some v else none := by
  induction seen with
  | nil => simp [recorded]
  | cons p rest ih =>
    obtain ⟨k, w⟩ := p
    simp only [List.cons_append, recorded]
    split
    · rfl
    · exact ih

theorem recordedLen_append (seen : List (Nat × Int)) (j : Nat) (v : Int) :
    recordedLen (seen ++ [(j, v)]) = max (recordedLen seen) (j + 1) := by
  induction seen with
  | nil => simp [recordedLen]
  | cons p rest ih =>
    obtain ⟨k, w⟩ := p
    simp only [List.cons_append, recordedLen, ih]
    omega

theorem getD_append_replicate (arr : List (Option Int)) (k i : Nat) :
    (arr ++ List.replicate k none).getD i none = arr.getD i none := by
  simp only [List.getD_eq_getElem?_getD]
  by_cases h : i < arr.length
  · rw [List.getElem?_append_left h]
  · rw [List.getElem?_append_right (by omega)]
    have : arr[i]? = none := List.getElem?_eq_none (by omega)
    rw [this]
    by_cases h2 : i - arr.length < k
    · simp [List.getElem?_replicate, h2]
    · simp [List.getElem?_replicate, h2]

theorem getD_set (arr : List (Option Int)) (j i : Nat) (x : Option Int) (hj : j < arr.length) :
    (arr.set j x).getD i none = if j = i then x else arr.getD i none := by
  simp only [List.getD_eq_getElem?_getD, List.getElem?_set]
  by_cases h : j = i
  · subst h; simp [hj]
  · simp [h]

/-- What one `maybe_insert_into_opt_i32_array` call does, in terms of the settings represented. -/
theorem maybeInsert_repr {arr : List (Option Int)} {seen : List (Nat × Int)} (h : Repr arr seen)
    (j : Nat) (v : Int) :
    match recorded seen j with
    | some v0 =>
      if v0 ≠ v then Repr (maybeInsert arr j (some v)).1 seen ∧ (maybeInsert arr j (some v)).2 = [.mismatch v0]
      else Repr (maybeInsert arr j (some v)).1 seen ∧ (maybeInsert arr j (some v)).2 = []
    | none => Repr (maybeInsert arr j (some v)).1 (seen ++ [(j, v)]) ∧ (maybeInsert arr j (some v)).2 = [] := by
  obtain ⟨hlen, hget⟩ := h
  cases hr : recorded seen j with
  | some v0 =>
    have hj : j < arr.length := by rw [hlen]; exact recorded_lt hr
    have hk : j + 1 - arr.length = 0 := by omega
    have hg : arr.getD j none = some v0 := by rw [hget, hr]
    by_cases hne : v0 ≠ v
    · simp only [hne, ne_eq, not_false_eq_true, if_true, maybeInsert, hk, List.replicate_zero, List.append_nil, hg]
      exact ⟨⟨hlen, hget⟩, trivial⟩
    · have heq : v0 = v := by simpa using hne
      subst heq
      simp only [ne_eq, not_true_eq_false, if_false, maybeInsert, hk, List.replicate_zero, List.append_nil, hg]
      refine ⟨⟨by simp [hlen], fun i => ?_⟩, trivial⟩
      rw [getD_set _ _ _ _ hj]
      split
      · rename_i h; subst h; rw [← hget, hg]
      · exact hget i
  | none =>
    simp only
    have hg : (arr ++ List.replicate (j + 1 - arr.length) none).getD j none = none := by
      rw [getD_append_replicate, hget, hr]
    have hjl : j < (arr ++ List.replicate (j + 1 - arr.length) none).length := by simp; omega
    simp only [maybeInsert, hg]
    refine ⟨⟨?_, fun i => ?_⟩, trivial⟩
    · simp [recordedLen_append, hlen]; omega
    · rw [getD_set _ _ _ _ hjl, getD_append_replicate, recorded_append, hget]
      by_cases hji : j = i
      · subst hji; simp [hr]
      · simp [hji]
        cases recorded seen i <;> rfl

/-- The settings recorded after processing `entries` on top of `seen` (first value per index wins). -/
def absorb (seen : List (Nat × Int)) : List (Nat × Int) → List (Nat × Int)
  | [] => seen
  | (j, v) :: rest =>
    match recorded seen j with
    | some _ => absorb seen rest
    | none => absorb (seen ++ [(j, v)]) rest

theorem recorded_absorb (seen entries : List (Nat × Int)) (i : Nat) :
    recorded (absorb seen entries) i = recorded (seen ++ entries) i := by
  induction entries generalizing seen with
  | nil => simp [absorb]
  | cons p rest ih =>
    obtain ⟨j, v⟩ := p
    simp only [absorb]
    have happ : seen ++ (j, v) :: rest = (seen ++ [(j, v)]) ++ rest := by simp
    cases hr : recorded seen j with
    | some w =>
      simp only
      rw [ih, happ]
      -- dropping a shadowed setting does not change what is recorded
      have hdrop : ∀ (s t : List (Nat × Int)), recorded (s ++ t) i =
          match recorded s i with
          | some x => some x
          | none => recorded t i := by
        intro s t
        induction s with
        | nil => simp [recorded]
        | cons q s ihs =>
          obtain ⟨k, x⟩ := q
          simp only [List.cons_append, recorded]
          split
          · rfl
          · exact ihs
      rw [hdrop seen rest, hdrop (seen ++ [(j, v)]) rest, recorded_append]
      cases hs : recorded seen i with
      | some x => rfl
      | none =>
        simp only
        by_cases hji : j = i
        · subst hji; rw [hr] at hs; cases hs
        · simp [hji]
    | none =>
      simp only
      rw [ih, happ]

end QV.Proofs.Layout

namespace QV.Proofs.Layout
open QV.Model.Layout QV.Spec.Layout

def entry (j : Nat) (v : Option Int) : List (Nat × Int) :=
  match v with
  | some x => [(j, x)]
  | none => []

/-- settings `(index of child k, value of child k)` for the children that give a value -/
def entriesOf : List Nat → List (Option Int) → List (Nat × Int)
  | i :: is, v :: vs => entry i v ++ entriesOf is vs
  | _, _ => []

theorem absorb_append (seen a b : List (Nat × Int)) : absorb seen (a ++ b) = absorb (absorb seen a) b := by
  induction a generalizing seen with
  | nil => simp [absorb]
  | cons p rest ih =>
    obtain ⟨j, v⟩ := p
    simp only [List.cons_append, absorb]
    split <;> exact ih _

theorem maybeInsert_absorb {arr : List (Option Int)} {seen : List (Nat × Int)} (h : Repr arr seen)
    (j : Nat) (v : Option Int) : Repr (maybeInsert arr j v).1 (absorb seen (entry j v)) := by
  cases v with
  | none => simpa [maybeInsert, entry, absorb] using h
  | some x =>
    have := maybeInsert_repr h j x
    simp only [entry, absorb]
    cases hr : recorded seen j with
    | some v0 =>
      rw [hr] at this
      simp only at this ⊢
      by_cases hne : v0 ≠ x
      · rw [if_pos hne] at this; exact this.1
      · rw [if_neg hne] at this; exact this.1
    | none =>
      rw [hr] at this
      exact this.1

/-- The specification's cells for raw children `(row, column)` options. -/
def specCells (ltr : Bool) (n : Nat) (cursor : Nat × Nat) : List (Option Int × Option Int) → List (Nat × Nat)
  | [] => []
  | (r, c) :: rest =>
    let p := specPlace ltr n cursor r c
    p :: specCells ltr n (advance ltr n p) rest

theorem specCells_eq_cells (ltr : Bool) (n : Nat) (cursor : Nat × Nat) (l : List (Option Int × Option Int)) :
    specCells ltr n cursor l =
      cells ltr n cursor (l.map fun rc =>
        (validIndex rc.1 (if ltr then 65535 else (n : Int) - 1),
         validIndex rc.2 (if ltr then (n : Int) - 1 else 65535))) := by
  induction l generalizing cursor with
  | nil => rfl
  | cons rc rest ih =>
    obtain ⟨r, c⟩ := rc
    simp only [specCells, List.map_cons, cells, specPlace]
    rw [ih]

/-- **Grid layout, all children at once**: items sit in the specification's cells, spans are copied, and
    each array represents "first value given per index" with the index the code uses:
    column for columnStretch / columnMinimumWidth / **rowMinimumHeight (sic, F9)**, row for rowStretch. -/
theorem gridGo_spec (ltr : Bool) (n : Nat) (hn : 0 < n) (children : List Attached) :
    ∀ (r0 c0 : Nat) (_hc : if ltr then c0 < n else r0 < n) (attrs : Attributes)
      (sCMW sCS sRMH sRS : List (Nat × Int))
      (_h1 : Repr attrs.columnMinimumWidth sCMW) (_h2 : Repr attrs.columnStretch sCS)
      (_h3 : Repr attrs.rowMinimumHeight sRMH) (_h4 : Repr attrs.rowStretch sRS),
    let res := gridGo ⟨flowOf ltr n, r0, c0⟩ attrs children
    let cs := specCells ltr n (r0, c0) (children.map fun a => (a.row, a.column))
    res.2.1 = List.zipWith (fun (p : Nat × Nat) a => Item.ofAttached (some (p.1 : Int)) (some (p.2 : Int)) a) cs children
    ∧ Repr res.1.columnMinimumWidth (absorb sCMW (entriesOf (cs.map (·.2)) (children.map (·.columnMinimumWidth))))
    ∧ Repr res.1.columnStretch (absorb sCS (entriesOf (cs.map (·.2)) (children.map (·.columnStretch))))
    ∧ Repr res.1.rowMinimumHeight (absorb sRMH (entriesOf (cs.map (·.2)) (children.map (·.rowMinimumHeight))))
    ∧ Repr res.1.rowStretch (absorb sRS (entriesOf (cs.map (·.1)) (children.map (·.rowStretch))))
    ∧ res.1.stretch = attrs.stretch := by
  induction children with
  | nil =>
    intro r0 c0 _ attrs sCMW sCS sRMH sRS h1 h2 h3 h4
    simp [gridGo, specCells, entriesOf, absorb]
    exact ⟨h1, h2, h3, h4⟩
  | cons a rest ih =>
    intro r0 c0 hc attrs sCMW sCS sRMH sRS h1 h2 h3 h4
    obtain ⟨hstep, hinv⟩ := parseNext_spec ltr n hn r0 c0 hc a.row a.column
    generalize hp : specPlace ltr n (r0, c0) a.row a.column = p at hstep hinv
    obtain ⟨pr, pc⟩ := p
    simp only [gridGo, List.map_cons, specCells, hp]
    have hpn : Counter.parseNext ⟨flowOf ltr n, r0, c0⟩ a.row a.column =
        ((((pr : Int), (pc : Int)), ⟨flowOf ltr n, ((advance ltr n (pr, pc)).1 : Int), ((advance ltr n (pr, pc)).2 : Int)⟩),
          (Counter.parseNext ⟨flowOf ltr n, r0, c0⟩ a.row a.column).2) := by
      rw [← hstep]
    rw [hpn]
    simp only [Int.toNat_natCast]
    have ih' := ih (advance ltr n (pr, pc)).1 (advance ltr n (pr, pc)).2 hinv
      { attrs with
        columnMinimumWidth := (maybeInsert attrs.columnMinimumWidth pc a.columnMinimumWidth).1
        columnStretch := (maybeInsert attrs.columnStretch pc a.columnStretch).1
        rowMinimumHeight := (maybeInsert attrs.rowMinimumHeight pc a.rowMinimumHeight).1
        rowStretch := (maybeInsert attrs.rowStretch pr a.rowStretch).1 }
      _ _ _ _
      (maybeInsert_absorb h1 pc a.columnMinimumWidth) (maybeInsert_absorb h2 pc a.columnStretch)
      (maybeInsert_absorb h3 pc a.rowMinimumHeight) (maybeInsert_absorb h4 pr a.rowStretch)
    simp only [List.zipWith_cons_cons, entriesOf, absorb_append]
    obtain ⟨i1, i2, i3, i4, i5, i6⟩ := ih'
    exact ⟨by rw [i1], i2, i3, i4, i5, i6⟩

end QV.Proofs.Layout
