import QV.Model.ClassGraph
import QV.Spec.Graph
import QV.Spec.GraphOfTable

/-
  Helper lemmas for C17: the breadth-first base-class walk of QV.Model.ClassGraph terminates and enumerates
  exactly the proper ancestors; what the `find_map`-style queries return; the certified reachability
  computation of QV.Spec.Graph; the bridge between a table and its graph reading.
-/
namespace QV.Proofs.ClassGraph
open QV.Model.ClassGraph

/-! ### name lookup -/

theorem lookupClass_name {cs : List ClassDecl} {n : Name} {d : ClassDecl} (h : lookupClass cs n = some d) :
    d.name = n := by
  induction cs with
  | nil => simp [lookupClass] at h
  | cons x xs ih =>
    simp only [lookupClass] at h
    split at h
    · next y hy => cases h; exact ih hy
    · split at h
      · next hx => cases h; exact hx
      · cases h

theorem lookupClass_mem {cs : List ClassDecl} {n : Name} {d : ClassDecl} (h : lookupClass cs n = some d) :
    d ∈ cs := by
  induction cs with
  | nil => simp [lookupClass] at h
  | cons x xs ih =>
    simp only [lookupClass] at h
    split at h
    · next y hy => cases h; exact List.mem_cons_of_mem _ (ih hy)
    · split at h
      · cases h; exact List.mem_cons_self
      · cases h

/-- a handle obtained by name denotes the class stored under its own name -/
theorem lookupClass_self {cs : List ClassDecl} {n : Name} {d : ClassDecl} (h : lookupClass cs n = some d) :
    lookupClass cs d.name = some d := by
  rw [lookupClass_name h]; exact h

/-- handles are equal iff their names are -/
theorem handle_eq_of_name_eq {cs : List ClassDecl} {a b : ClassDecl}
    (ha : lookupClass cs a.name = some a) (hb : lookupClass cs b.name = some b) (h : a.name = b.name) : a = b := by
  rw [h] at ha; rw [ha] at hb; cases hb; rfl

theorem resolveClass_ok {t : Table} {n : Name} {d : ClassDecl} :
    resolveClass t n = .ok d ↔ lookupClass t.classes n = some d := by
  unfold resolveClass
  split
  · next x hx => rw [hx]; constructor <;> intro h <;> cases h <;> rfl
  · next hx => rw [hx]; split <;> simp

theorem resolveClass_error {t : Table} {n : Name} {e : TypeMapError} (h : resolveClass t n = .error e) :
    lookupClass t.classes n = none := by
  unfold resolveClass at h
  split at h
  · cases h
  · next hx => exact hx

theorem resolveClass_error_of_none {t : Table} {n : Name} (h : lookupClass t.classes n = none) :
    ∃ e, resolveClass t n = .error e := by
  unfold resolveClass
  rw [h]
  by_cases ho : n ∈ t.others
  · exact ⟨.invalidSuperClassType n, by simp [ho]⟩
  · exact ⟨.invalidTypeRef n, by simp [ho]⟩

/-! ### termination of the walk -/

theorem pendingSize_append (a b : List (List Name)) : pendingSize (a ++ b) = pendingSize a + pendingSize b := by
  induction a with
  | nil => simp [pendingSize]
  | cons x xs ih => simp only [List.cons_append, pendingSize, ih]; omega

theorem weight_mono (cs : List ClassDecl) (n : Name) (vis : List Name) : weight cs (n :: vis) ≤ weight cs vis := by
  induction cs with
  | nil => simp [weight]
  | cons x xs ih =>
    simp only [weight]
    by_cases h1 : x.name ∈ vis
    · have : x.name ∈ n :: vis := List.mem_cons_of_mem _ h1
      simp [h1, this]; exact ih
    · by_cases h2 : x.name ∈ n :: vis
      · simp [h1, h2]; omega
      · simp [h1, h2]; exact ih

/-- visiting a new class pays for everything it appends to `pending` -/
theorem weight_visit {cs : List ClassDecl} {d : ClassDecl} {vis : List Name} (hd : d ∈ cs) (hv : d.name ∉ vis) :
    weight cs (d.name :: vis) + (d.publicSuperClassNames.length + 1) ≤ weight cs vis := by
  induction cs with
  | nil => cases hd
  | cons x xs ih =>
    simp only [weight]
    rcases List.mem_cons.mp hd with rfl | hmem
    · have h1 : d.name ∈ d.name :: vis := List.mem_cons_self
      have := weight_mono xs d.name vis
      simp [h1, hv]; omega
    · have := ih hmem
      by_cases h1 : x.name ∈ vis
      · have h2 : x.name ∈ d.name :: vis := List.mem_cons_of_mem _ h1
        simp [h1, h2]; omega
      · by_cases h2 : x.name ∈ d.name :: vis
        · simp [h1, h2]; omega
        · simp [h1, h2]; omega

/-- The loop of `BaseClasses::next`, driven until it returns `None`, as a relation *without fuel*:
    `Run t pending visited items`. -/
inductive Run (t : Table) : List (List Name) → List Name → List Item → Prop where
  | done (vis : List Name) : Run t [] vis []
  | pop {rest vis out} : Run t rest vis out → Run t ([] :: rest) vis out
  | err {n ns rest vis out e} : resolveClass t n = .error e → Run t (ns :: rest) vis out →
      Run t ((n :: ns) :: rest) vis (.err e :: out)
  | seen {n ns rest vis out c} : resolveClass t n = .ok c → c.name ∈ vis → Run t (ns :: rest) vis out →
      Run t ((n :: ns) :: rest) vis out
  | new {n ns rest vis out c} : resolveClass t n = .ok c → c.name ∉ vis →
      Run t ((ns :: rest) ++ [c.publicSuperClassNames]) (c.name :: vis) out →
      Run t ((n :: ns) :: rest) vis (.ok c :: out)

/-- every state has a finite run, and `bfsAux` computes it whenever it is given `bfsFuel` or more: the
    out-of-fuel branch of `bfsAux` is never taken -/
theorem bfsAux_run (t : Table) : ∀ (fuel : Nat) (pending : List (List Name)) (vis : List Name),
    bfsFuel t pending vis ≤ fuel → Run t pending vis (bfsAux t fuel pending vis) := by
  intro fuel
  induction fuel with
  | zero => intro p v h; simp [bfsFuel] at h
  | succ f ih =>
    intro pending vis h
    match pending with
    | [] => simp only [bfsAux]; exact .done vis
    | [] :: rest =>
      simp only [bfsAux]
      refine .pop (ih _ _ ?_)
      simp only [bfsFuel, pendingSize] at h ⊢; omega
    | (n :: ns) :: rest =>
      simp only [bfsAux]
      have hsz : pendingSize ((n :: ns) :: rest) = pendingSize (ns :: rest) + 1 := by
        simp only [pendingSize, List.length_cons]; omega
      split
      · next e he =>
        refine .err he (ih _ _ ?_)
        simp only [bfsFuel] at h ⊢; omega
      · next c hc =>
        split
        · next hv =>
          refine .seen hc hv (ih _ _ ?_)
          simp only [bfsFuel] at h ⊢; omega
        · next hv =>
          refine .new hc hv (ih _ _ ?_)
          have hmem := lookupClass_mem (resolveClass_ok.mp hc)
          have hw := weight_visit hmem hv
          simp only [bfsFuel, pendingSize_append, pendingSize, List.length_cons] at h ⊢
          omega

theorem Run.functional {t : Table} {p : List (List Name)} {vis : List Name} {o1 o2 : List Item}
    (h1 : Run t p vis o1) (h2 : Run t p vis o2) : o1 = o2 := by
  induction h1 generalizing o2 with
  | done => cases h2; rfl
  | pop _ ih => cases h2 with | pop h => exact ih h
  | err he _ ih =>
    cases h2 with
    | err he' h => rw [he] at he'; cases he'; rw [ih h]
    | seen hc _ _ => rw [he] at hc; cases hc
    | new hc _ _ => rw [he] at hc; cases hc
  | seen hc hv _ ih =>
    cases h2 with
    | err he' _ => rw [hc] at he'; cases he'
    | seen hc' _ h => exact ih h
    | new hc' hv' _ => rw [hc] at hc'; cases hc'; exact absurd hv hv'
  | new hc hv _ ih =>
    cases h2 with
    | err he' _ => rw [hc] at he'; cases he'
    | seen hc' hv' _ => rw [hc] at hc'; cases hc'; exact absurd hv' hv
    | new hc' _ h => rw [hc] at hc'; cases hc'; rw [ih h]

theorem baseClasses_run (t : Table) (d : ClassDecl) :
    Run t [d.publicSuperClassNames] [] (baseClasses t d) :=
  bfsAux_run t _ _ _ (Nat.le_refl _)

/-- more fuel never changes the answer -/
theorem bfsAux_fuel_irrelevant (t : Table) (fuel : Nat) (pending : List (List Name)) (vis : List Name)
    (h : bfsFuel t pending vis ≤ fuel) :
    bfsAux t fuel pending vis = bfsAux t (bfsFuel t pending vis) pending vis :=
  Run.functional (bfsAux_run t fuel pending vis h) (bfsAux_run t _ pending vis (Nat.le_refl _))

/-! ### what the walk enumerates -/

/-- reachability on handles: `b` is `a` or is reached from `a` through public super-class names that resolve -/
inductive Reach (t : Table) : ClassDecl → ClassDecl → Prop where
  | refl (d : ClassDecl) : Reach t d d
  | step {a b c : ClassDecl} {n : Name} : n ∈ a.publicSuperClassNames → lookupClass t.classes n = some b →
      Reach t b c → Reach t a c

theorem Reach.trans {t : Table} {a b c : ClassDecl} (h1 : Reach t a b) (h2 : Reach t b c) : Reach t a c := by
  induction h1 with
  | refl => exact h2
  | step hn hl _ ih => exact .step hn hl (ih h2)

/-- every class yielded is a handle obtained by name -/
theorem run_ok_handle {t : Table} {p vis out} (h : Run t p vis out) :
    ∀ d, .ok d ∈ out → lookupClass t.classes d.name = some d := by
  induction h with
  | done => intro d hd; cases hd
  | pop _ ih => exact ih
  | err _ _ ih =>
    intro d hd
    rcases List.mem_cons.mp hd with h | h
    · cases h
    · exact ih d h
  | seen _ _ _ ih => exact ih
  | new hc _ _ ih =>
    intro d hd
    rcases List.mem_cons.mp hd with h | h
    · cases h; exact lookupClass_self (resolveClass_ok.mp hc)
    · exact ih d h

/-- soundness: every class yielded is reached from a pending name -/
theorem run_ok_sound {t : Table} {p vis out} (h : Run t p vis out) :
    ∀ d, .ok d ∈ out → ∃ n ∈ p.flatten, ∃ c, lookupClass t.classes n = some c ∧ Reach t c d := by
  induction h with
  | done => intro d hd; cases hd
  | pop _ ih => intro d hd; simpa using ih d hd
  | err _ _ ih =>
    intro d hd
    rcases List.mem_cons.mp hd with h | h
    · cases h
    · obtain ⟨m, hm, c, hc, hr⟩ := ih d h
      refine ⟨m, ?_, c, hc, hr⟩
      simp only [List.flatten_cons, List.mem_append, List.mem_cons] at hm ⊢
      rcases hm with hm | hm
      · exact .inl (.inr hm)
      · exact .inr hm
  | seen _ _ _ ih =>
    intro d hd
    obtain ⟨m, hm, c, hc, hr⟩ := ih d hd
    refine ⟨m, ?_, c, hc, hr⟩
    simp only [List.flatten_cons, List.mem_append, List.mem_cons] at hm ⊢
    rcases hm with hm | hm
    · exact .inl (.inr hm)
    · exact .inr hm
  | @new n ns rest vis out c hc _ _ ih =>
    intro d hd
    rcases List.mem_cons.mp hd with h | h
    · cases h
      exact ⟨n, by simp, c, resolveClass_ok.mp hc, .refl _⟩
    · obtain ⟨m, hm, c', hc', hr⟩ := ih d h
      simp only [List.flatten_append, List.flatten_cons, List.flatten_nil, List.append_nil, List.mem_append] at hm
      rcases hm with (hm | hm) | hm
      · exact ⟨m, by simp [hm], c', hc', hr⟩
      · exact ⟨m, by simp [hm], c', hc', hr⟩
      · exact ⟨n, by simp, c, resolveClass_ok.mp hc, .step hm hc' hr⟩

/-- completeness invariant: at the end, every resolvable pending name and every resolvable public super of a
    yielded class is either in the initial visited set or has been yielded -/
theorem run_closed {t : Table} {p vis out} (h : Run t p vis out) :
    (∀ n ∈ p.flatten, ∀ c, lookupClass t.classes n = some c → c.name ∈ vis ∨ .ok c ∈ out) ∧
    (∀ d, .ok d ∈ out → ∀ n ∈ d.publicSuperClassNames, ∀ c, lookupClass t.classes n = some c →
      c.name ∈ vis ∨ .ok c ∈ out) := by
  induction h with
  | done => exact ⟨fun n hn => by simp at hn, fun d hd => by cases hd⟩
  | pop _ ih => exact ⟨fun n hn => ih.1 n (by simpa using hn), ih.2⟩
  | @err n ns rest vis out e he _ ih =>
    have lift : ∀ c : ClassDecl, c.name ∈ vis ∨ Item.ok c ∈ out → c.name ∈ vis ∨ Item.ok c ∈ Item.err e :: out :=
      fun c h => h.imp id (List.mem_cons_of_mem _)
    refine ⟨fun m hm c hc => ?_, fun d hd m hm c hc => ?_⟩
    · simp only [List.flatten_cons, List.mem_append, List.mem_cons] at hm
      rcases hm with (rfl | hm) | hm
      · rw [resolveClass_error he] at hc; cases hc
      · exact lift c (ih.1 m (by simp [hm]) c hc)
      · exact lift c (ih.1 m (by simp [hm]) c hc)
    · rcases List.mem_cons.mp hd with h | h
      · cases h
      · exact lift c (ih.2 d h m hm c hc)
  | @seen n ns rest vis out c0 hc0 hv _ ih =>
    refine ⟨fun m hm c hc => ?_, ih.2⟩
    simp only [List.flatten_cons, List.mem_append, List.mem_cons] at hm
    rcases hm with (rfl | hm) | hm
    · rw [resolveClass_ok.mp hc0] at hc; cases hc; exact .inl hv
    · exact ih.1 m (by simp [hm]) c hc
    · exact ih.1 m (by simp [hm]) c hc
  | @new n ns rest vis out c0 hc0 hv _ ih =>
    have h0 := lookupClass_self (resolveClass_ok.mp hc0)
    have lift : ∀ (m : Name) (c : ClassDecl), lookupClass t.classes m = some c →
        c.name ∈ c0.name :: vis ∨ Item.ok c ∈ out → c.name ∈ vis ∨ Item.ok c ∈ Item.ok c0 :: out := by
      intro m c hc h
      rcases h with h | h
      · rcases List.mem_cons.mp h with h | h
        · have := handle_eq_of_name_eq (lookupClass_self hc) h0 h
          subst this
          exact .inr List.mem_cons_self
        · exact .inl h
      · exact .inr (List.mem_cons_of_mem _ h)
    refine ⟨fun m hm c hc => ?_, fun d hd m hm c hc => ?_⟩
    · simp only [List.flatten_cons, List.mem_append, List.mem_cons] at hm
      rcases hm with (rfl | hm) | hm
      · rw [resolveClass_ok.mp hc0] at hc; cases hc; exact .inr List.mem_cons_self
      · exact lift m c hc (ih.1 m (by simp [hm]) c hc)
      · exact lift m c hc (ih.1 m (by simp [hm]) c hc)
    · rcases List.mem_cons.mp hd with h | h
      · cases h
        exact lift m c hc (ih.1 m (by simp [hm]) c hc)
      · exact lift m c hc (ih.2 d h m hm c hc)

/-- errors yielded: exactly the unresolved names among the pending names and the public supers of the yielded classes -/
theorem run_err_sound {t : Table} {p vis out} (h : Run t p vis out) :
    ∀ e, .err e ∈ out → (∃ n ∈ p.flatten, resolveClass t n = .error e) ∨
      (∃ d, .ok d ∈ out ∧ ∃ n ∈ d.publicSuperClassNames, resolveClass t n = .error e) := by
  induction h with
  | done => intro e he; cases he
  | pop _ ih => intro e he; simpa using ih e he
  | @err n ns rest vis out e0 he0 _ ih =>
    intro e he
    rcases List.mem_cons.mp he with h | h
    · cases h; exact .inl ⟨n, by simp, he0⟩
    · rcases ih e h with ⟨m, hm, hr⟩ | ⟨d, hd, hr⟩
      · refine .inl ⟨m, ?_, hr⟩
        simp only [List.flatten_cons, List.mem_append, List.mem_cons] at hm ⊢
        rcases hm with hm | hm
        · exact .inl (.inr hm)
        · exact .inr hm
      · exact .inr ⟨d, List.mem_cons_of_mem _ hd, hr⟩
  | seen _ _ _ ih =>
    intro e he
    rcases ih e he with ⟨m, hm, hr⟩ | h
    · refine .inl ⟨m, ?_, hr⟩
      simp only [List.flatten_cons, List.mem_append, List.mem_cons] at hm ⊢
      rcases hm with hm | hm
      · exact .inl (.inr hm)
      · exact .inr hm
    · exact .inr h
  | @new n ns rest vis out c0 hc0 _ _ ih =>
    intro e he
    rcases List.mem_cons.mp he with h | h
    · cases h
    · rcases ih e h with ⟨m, hm, hr⟩ | ⟨d, hd, hr⟩
      · simp only [List.flatten_append, List.flatten_cons, List.flatten_nil, List.append_nil, List.mem_append] at hm
        rcases hm with (hm | hm) | hm
        · exact .inl ⟨m, by simp [hm], hr⟩
        · exact .inl ⟨m, by simp [hm], hr⟩
        · exact .inr ⟨c0, List.mem_cons_self, m, hm, hr⟩
      · exact .inr ⟨d, List.mem_cons_of_mem _ hd, hr⟩

theorem run_err_complete {t : Table} {p vis out} (h : Run t p vis out) :
    (∀ n ∈ p.flatten, ∀ e, resolveClass t n = .error e → .err e ∈ out) ∧
    (∀ d, .ok d ∈ out → ∀ n ∈ d.publicSuperClassNames, ∀ e, resolveClass t n = .error e → .err e ∈ out) := by
  induction h with
  | done => exact ⟨fun n hn => by simp at hn, fun d hd => by cases hd⟩
  | pop _ ih => exact ⟨fun n hn => ih.1 n (by simpa using hn), ih.2⟩
  | @err n ns rest vis out e0 he0 _ ih =>
    refine ⟨fun m hm e he => ?_, fun d hd m hm e he => ?_⟩
    · simp only [List.flatten_cons, List.mem_append, List.mem_cons] at hm
      rcases hm with (rfl | hm) | hm
      · rw [he0] at he; cases he; exact List.mem_cons_self
      · exact List.mem_cons_of_mem _ (ih.1 m (by simp [hm]) e he)
      · exact List.mem_cons_of_mem _ (ih.1 m (by simp [hm]) e he)
    · rcases List.mem_cons.mp hd with h | h
      · cases h
      · exact List.mem_cons_of_mem _ (ih.2 d h m hm e he)
  | @seen n ns rest vis out c0 hc0 _ _ ih =>
    refine ⟨fun m hm e he => ?_, ih.2⟩
    simp only [List.flatten_cons, List.mem_append, List.mem_cons] at hm
    rcases hm with (rfl | hm) | hm
    · rw [hc0] at he; cases he
    · exact ih.1 m (by simp [hm]) e he
    · exact ih.1 m (by simp [hm]) e he
  | @new n ns rest vis out c0 hc0 _ _ ih =>
    refine ⟨fun m hm e he => ?_, fun d hd m hm e he => ?_⟩
    · simp only [List.flatten_cons, List.mem_append, List.mem_cons] at hm
      rcases hm with (rfl | hm) | hm
      · rw [hc0] at he; cases he
      · exact List.mem_cons_of_mem _ (ih.1 m (by simp [hm]) e he)
      · exact List.mem_cons_of_mem _ (ih.1 m (by simp [hm]) e he)
    · rcases List.mem_cons.mp hd with h | h
      · cases h
        exact List.mem_cons_of_mem _ (ih.1 m (by simp [hm]) e he)
      · exact List.mem_cons_of_mem _ (ih.2 d h m hm e he)

/-- the classes yielded are pairwise distinct and none was visited before -/
theorem run_ok_fresh {t : Table} {p vis out} (h : Run t p vis out) :
    (∀ d, .ok d ∈ out → d.name ∉ vis) ∧
    (out.filterMap fun | .ok c => some c.name | .err _ => none).Nodup := by
  induction h with
  | done => exact ⟨fun d hd => (by cases hd), by simp⟩
  | pop _ ih => exact ih
  | err _ _ ih =>
    refine ⟨fun d hd => ?_, by simpa [List.filterMap_cons] using ih.2⟩
    rcases List.mem_cons.mp hd with h | h
    · cases h
    · exact ih.1 d h
  | seen _ _ _ ih => exact ih
  | @new n ns rest vis out c0 hc0 hv _ ih =>
    refine ⟨fun d hd => ?_, ?_⟩
    · rcases List.mem_cons.mp hd with h | h
      · cases h; exact hv
      · exact fun hmem => ih.1 d h (List.mem_cons_of_mem _ hmem)
    · simp only [List.filterMap_cons, List.nodup_cons]
      refine ⟨fun hmem => ?_, ih.2⟩
      obtain ⟨x, hx, hxe⟩ := List.mem_filterMap.mp hmem
      cases x with
      | ok c => simp at hxe; exact ih.1 c hx (by rw [hxe]; exact List.mem_cons_self)
      | err e => simp at hxe

/-! ### `baseClasses`: exactly the proper ancestors, and exactly the unresolved references below -/

theorem reach_handle {t : Table} {a b : ClassDecl} (h : Reach t a b)
    (ha : lookupClass t.classes a.name = some a) : lookupClass t.classes b.name = some b := by
  induction h with
  | refl => exact ha
  | step _ hl _ ih => exact ih (lookupClass_self hl)

theorem baseClasses_ok_iff (t : Table) (self d : ClassDecl) :
    .ok d ∈ baseClasses t self ↔
      ∃ n ∈ self.publicSuperClassNames, ∃ c, lookupClass t.classes n = some c ∧ Reach t c d := by
  have hrun := baseClasses_run t self
  constructor
  · intro h
    obtain ⟨n, hn, c, hc, hr⟩ := run_ok_sound hrun d h
    exact ⟨n, by simpa using hn, c, hc, hr⟩
  · rintro ⟨n, hn, c, hc, hr⟩
    have hcl := run_closed hrun
    have hc0 : Item.ok c ∈ baseClasses t self := by
      rcases hcl.1 n (by simpa using hn) c hc with h | h
      · cases h
      · exact h
    clear hn hc
    induction hr with
    | refl => exact hc0
    | step hn' hl _ ih =>
      apply ih
      rcases hcl.2 _ hc0 _ hn' _ hl with h | h
      · cases h
      · exact h

theorem baseClasses_reach {t : Table} {self d : ClassDecl} (h : .ok d ∈ baseClasses t self) : Reach t self d := by
  obtain ⟨n, hn, c, hc, hr⟩ := (baseClasses_ok_iff t self d).mp h
  exact .step hn hc hr

theorem reach_cases {t : Table} {self d : ClassDecl} (h : Reach t self d) :
    d = self ∨ .ok d ∈ baseClasses t self := by
  cases h with
  | refl => exact .inl rfl
  | step hn hl hr => exact .inr ((baseClasses_ok_iff t self d).mpr ⟨_, hn, _, hl, hr⟩)

theorem baseClasses_err_iff (t : Table) (self : ClassDecl) (e : TypeMapError) :
    .err e ∈ baseClasses t self ↔
      ∃ a, Reach t self a ∧ ∃ n ∈ a.publicSuperClassNames, resolveClass t n = .error e := by
  have hrun := baseClasses_run t self
  constructor
  · intro h
    rcases run_err_sound hrun e h with ⟨n, hn, hr⟩ | ⟨d, hd, n, hn, hr⟩
    · exact ⟨self, .refl _, n, by simpa using hn, hr⟩
    · exact ⟨d, baseClasses_reach hd, n, hn, hr⟩
  · rintro ⟨a, ha, n, hn, hr⟩
    rcases reach_cases ha with rfl | h
    · exact (run_err_complete hrun).1 n (by simpa using hn) e hr
    · exact (run_err_complete hrun).2 a h n hn e hr

/-- no unresolved super-class reference can be met walking up from `self` -/
def Clean (t : Table) (self : ClassDecl) : Prop := ∀ e, .err e ∉ baseClasses t self

theorem Clean.of_reach {t : Table} {self d : ClassDecl} (h : Clean t self) (hr : Reach t self d) : Clean t d := by
  intro e he
  obtain ⟨a, ha, hn⟩ := (baseClasses_err_iff t d e).mp he
  exact h e ((baseClasses_err_iff t self e).mpr ⟨a, hr.trans ha, hn⟩)

/-! ### `find_map` over the items -/

theorem findMapItems_found {α : Type} {f : ClassDecl → Lookup α} {l : List Item} {x : α}
    (h : findMapItems f l = .found x) : ∃ d, .ok d ∈ l ∧ f d = .found x := by
  induction l with
  | nil => simp [findMapItems] at h
  | cons i rest ih =>
    cases i with
    | err e => simp [findMapItems] at h
    | ok c =>
      simp only [findMapItems] at h
      cases hfc : f c with
      | notFound =>
        rw [hfc] at h
        obtain ⟨d, hd, hfd⟩ := ih h
        exact ⟨d, List.mem_cons_of_mem _ hd, hfd⟩
      | found y => rw [hfc] at h; cases h; exact ⟨c, List.mem_cons_self, hfc⟩
      | error e => rw [hfc] at h; cases h

theorem findMapItems_notFound {α : Type} {f : ClassDecl → Lookup α} {l : List Item} :
    findMapItems f l = .notFound ↔ (∀ e, .err e ∉ l) ∧ ∀ d, .ok d ∈ l → f d = .notFound := by
  induction l with
  | nil => simp [findMapItems]
  | cons i rest ih =>
    cases i with
    | err e =>
      simp only [findMapItems]
      constructor
      · intro h; cases h
      · intro h; exact absurd List.mem_cons_self (h.1 e)
    | ok c =>
      simp only [findMapItems]
      cases hfc : f c with
      | notFound =>
        simp only []
        rw [ih]
        constructor
        · rintro ⟨h1, h2⟩
          refine ⟨fun e he => ?_, fun d hd => ?_⟩
          · rcases List.mem_cons.mp he with h | h
            · cases h
            · exact h1 e h
          · rcases List.mem_cons.mp hd with h | h
            · cases h; exact hfc
            · exact h2 d h
        · rintro ⟨h1, h2⟩
          exact ⟨fun e he => h1 e (List.mem_cons_of_mem _ he), fun d hd => h2 d (List.mem_cons_of_mem _ hd)⟩
      | found y =>
        simp only []
        constructor
        · intro h; cases h
        · intro h; have := h.2 c List.mem_cons_self; rw [hfc] at this; cases this
      | error e =>
        simp only []
        constructor
        · intro h; cases h
        · intro h; have := h.2 c List.mem_cons_self; rw [hfc] at this; cases this

theorem findMapItems_error {α : Type} {f : ClassDecl → Lookup α} {l : List Item} {e : TypeMapError}
    (h : findMapItems f l = .error e) : .err e ∈ l ∨ ∃ d, .ok d ∈ l ∧ f d = .error e := by
  induction l with
  | nil => simp [findMapItems] at h
  | cons i rest ih =>
    cases i with
    | err e' => simp only [findMapItems] at h; cases h; exact .inl List.mem_cons_self
    | ok c =>
      simp only [findMapItems] at h
      cases hfc : f c with
      | notFound =>
        rw [hfc] at h
        rcases ih h with h | ⟨d, hd, hfd⟩
        · exact .inl (List.mem_cons_of_mem _ h)
        · exact .inr ⟨d, List.mem_cons_of_mem _ hd, hfd⟩
      | found y => rw [hfc] at h; cases h
      | error e' => rw [hfc] at h; cases h; exact .inr ⟨c, List.mem_cons_self, hfc⟩

theorem fmsb_eq {α : Type} (t : Table) (self : ClassDecl) (f : ClassDecl → Lookup α) :
    findMapSelfAndBaseClasses t self f =
      (match f self with
       | .notFound => findMapItems f (baseClasses t self)
       | .found x => .found x
       | .error e => .error e) := by
  unfold findMapSelfAndBaseClasses
  cases f self <;> rfl

theorem fmsb_found {α : Type} {t : Table} {self : ClassDecl} {f : ClassDecl → Lookup α} {x : α}
    (h : findMapSelfAndBaseClasses t self f = .found x) : ∃ d, Reach t self d ∧ f d = .found x := by
  rw [fmsb_eq] at h
  cases hfs : f self with
  | notFound =>
    rw [hfs] at h
    obtain ⟨d, hd, hfd⟩ := findMapItems_found h
    exact ⟨d, baseClasses_reach hd, hfd⟩
  | found y => rw [hfs] at h; cases h; exact ⟨self, .refl _, hfs⟩
  | error e => rw [hfs] at h; cases h

theorem fmsb_notFound {α : Type} {t : Table} {self : ClassDecl} {f : ClassDecl → Lookup α}
    (h : findMapSelfAndBaseClasses t self f = .notFound) :
    Clean t self ∧ ∀ d, Reach t self d → f d = .notFound := by
  rw [fmsb_eq] at h
  cases hfs : f self with
  | notFound =>
    rw [hfs] at h
    obtain ⟨h1, h2⟩ := findMapItems_notFound.mp h
    refine ⟨h1, fun d hd => ?_⟩
    rcases reach_cases hd with rfl | hd
    · exact hfs
    · exact h2 d hd
  | found y => rw [hfs] at h; cases h
  | error e => rw [hfs] at h; cases h

theorem fmsb_error {α : Type} {t : Table} {self : ClassDecl} {f : ClassDecl → Lookup α} {e : TypeMapError}
    (h : findMapSelfAndBaseClasses t self f = .error e) :
    .err e ∈ baseClasses t self ∨ ∃ d, Reach t self d ∧ f d = .error e := by
  rw [fmsb_eq] at h
  cases hfs : f self with
  | notFound =>
    rw [hfs] at h
    rcases findMapItems_error h with h | ⟨d, hd, hfd⟩
    · exact .inl h
    · exact .inr ⟨d, baseClasses_reach hd, hfd⟩
  | found y => rw [hfs] at h; cases h
  | error e' => rw [hfs] at h; cases h; exact .inr ⟨self, .refl _, hfs⟩

theorem fmsb_self {α : Type} {t : Table} {self : ClassDecl} {f : ClassDecl → Lookup α} {x : α}
    (h : f self = .found x) : findMapSelfAndBaseClasses t self f = .found x := by
  rw [fmsb_eq, h]

/-! ### a member lookup in general

  `f` is the per-class lookup (`get_*_no_super`), `P d` says that class `d` declares the member. -/
section member
variable {α : Type} {t : Table} {f : ClassDecl → Lookup α} {P : ClassDecl → Prop} {owner : α → ClassDecl}

structure MemberLookup (t : Table) (f : ClassDecl → Lookup α) (P : ClassDecl → Prop) (owner : α → ClassDecl) : Prop where
  found : ∀ d x, f d = .found x → owner x = d ∧ P d
  notFound : ∀ d, f d = .notFound → ¬ P d
  error : ∀ d e, f d = .error e → .err e ∈ baseClasses t d

theorem MemberLookup.sound (m : MemberLookup t f P owner) {self : ClassDecl} {x : α}
    (h : findMapSelfAndBaseClasses t self f = .found x) : Reach t self (owner x) ∧ P (owner x) := by
  obtain ⟨d, hd, hfd⟩ := fmsb_found h
  obtain ⟨h1, h2⟩ := m.found d x hfd
  rw [h1]; exact ⟨hd, h2⟩

theorem MemberLookup.none (m : MemberLookup t f P owner) {self : ClassDecl}
    (h : findMapSelfAndBaseClasses t self f = .notFound) : Clean t self ∧ ∀ d, Reach t self d → ¬ P d := by
  obtain ⟨h1, h2⟩ := fmsb_notFound h
  exact ⟨h1, fun d hd => m.notFound d (h2 d hd)⟩

theorem MemberLookup.err (m : MemberLookup t f P owner) {self : ClassDecl} {e : TypeMapError}
    (h : findMapSelfAndBaseClasses t self f = .error e) : ¬ Clean t self := by
  intro hc
  rcases fmsb_error h with h | ⟨d, hd, hfd⟩
  · exact hc e h
  · exact (hc.of_reach hd) e (m.error d e hfd)

theorem MemberLookup.complete (m : MemberLookup t f P owner) {self d : ClassDecl} (hc : Clean t self)
    (hd : Reach t self d) (hp : P d) : ∃ x, findMapSelfAndBaseClasses t self f = .found x := by
  cases h : findMapSelfAndBaseClasses t self f with
  | found x => exact ⟨x, rfl⟩
  | notFound => exact absurd hp ((m.none h).2 d hd)
  | error e => exact absurd hc (m.err h)

theorem MemberLookup.own_first (m : MemberLookup t f P owner) {self : ClassDecl} (hc : Clean t self) (hp : P self) :
    ∃ x, findMapSelfAndBaseClasses t self f = .found x ∧ owner x = self := by
  cases h : f self with
  | found x => exact ⟨x, fmsb_self h, (m.found self x h).1⟩
  | notFound => exact absurd hp (m.notFound self h)
  | error e => exact absurd (m.error self e h) (hc e)

end member

theorem lookupEnum_some {es : List EnumDecl} {n : Name} {e : EnumDecl} (h : lookupEnum es n = some e) :
    e ∈ es ∧ e.name = n := by
  induction es with
  | nil => simp [lookupEnum] at h
  | cons x xs ih =>
    simp only [lookupEnum] at h
    split at h
    · next y hy => cases h; exact ⟨List.mem_cons_of_mem _ (ih hy).1, (ih hy).2⟩
    · split at h
      · next hx => cases h; exact ⟨List.mem_cons_self, hx⟩
      · cases h

theorem lookupEnum_none {es : List EnumDecl} {n : Name} (h : lookupEnum es n = none) : ∀ e ∈ es, e.name ≠ n := by
  induction es with
  | nil => intro e he; cases he
  | cons x xs ih =>
    simp only [lookupEnum] at h
    split at h
    · cases h
    · next hy =>
      split at h
      · cases h
      · next hx =>
        intro e he
        rcases List.mem_cons.mp he with rfl | he
        · exact hx
        · exact ih hy e he

theorem lookupEnumByVariant_some {es : List EnumDecl} {v : Name} {e : EnumDecl}
    (h : lookupEnumByVariant es v = some e) : e ∈ es ∧ e.isScoped = false ∧ v ∈ e.variants := by
  induction es with
  | nil => simp [lookupEnumByVariant] at h
  | cons x xs ih =>
    simp only [lookupEnumByVariant] at h
    split at h
    · next y hy => cases h; exact ⟨List.mem_cons_of_mem _ (ih hy).1, (ih hy).2⟩
    · split at h
      · next hx =>
        cases h
        simp only [Bool.and_eq_true, Bool.not_eq_true', decide_eq_true_eq] at hx
        exact ⟨List.mem_cons_self, hx.1, hx.2⟩
      · cases h

theorem lookupEnumByVariant_none {es : List EnumDecl} {v : Name} (h : lookupEnumByVariant es v = none) :
    ∀ e ∈ es, ¬ (e.isScoped = false ∧ v ∈ e.variants) := by
  induction es with
  | nil => intro e he; cases he
  | cons x xs ih =>
    simp only [lookupEnumByVariant] at h
    split at h
    · cases h
    · next hy =>
      split at h
      · cases h
      · next hx =>
        simp only [Bool.and_eq_true, Bool.not_eq_true', decide_eq_true_eq] at hx
        intro e he
        rcases List.mem_cons.mp he with rfl | he
        · exact hx
        · exact ih hy e he

/-- nested enum by name -/
theorem getType_member (t : Table) (name : Name) :
    MemberLookup t (fun cls => getTypeNoSuper cls name) (fun d => ∃ e ∈ d.enums, e.name = name) (·.1) := by
  refine ⟨fun d x h => ?_, fun d h => ?_, fun d e h => ?_⟩
  · unfold getTypeNoSuper at h
    split at h
    · next e he => cases h; exact ⟨rfl, e, lookupEnum_some he⟩
    · cases h
  · unfold getTypeNoSuper at h
    split at h
    · cases h
    · next he => rintro ⟨e, hm, hn⟩; exact lookupEnum_none he e hm hn
  · unfold getTypeNoSuper at h
    split at h <;> cases h

theorem getType_found_enum {t : Table} {self : ClassDecl} {name : Name} {x : ClassDecl × EnumDecl}
    (h : getType t self name = .found x) : x.2 ∈ x.1.enums ∧ x.2.name = name := by
  obtain ⟨d, _, hfd⟩ := fmsb_found h
  unfold getTypeNoSuper at hfd
  split at hfd
  · next e he => cases hfd; exact lookupEnum_some he
  · cases hfd

/-- nested unscoped enum by variant -/
theorem getEnumByVariant_member (t : Table) (v : Name) :
    MemberLookup t (fun cls => getEnumByVariantNoSuper cls v)
      (fun d => ∃ e ∈ d.enums, e.isScoped = false ∧ v ∈ e.variants) (·.1) := by
  refine ⟨fun d x h => ?_, fun d h => ?_, fun d e h => ?_⟩
  · unfold getEnumByVariantNoSuper at h
    split at h
    · next e he => cases h; exact ⟨rfl, e, lookupEnumByVariant_some he⟩
    · cases h
  · unfold getEnumByVariantNoSuper at h
    split at h
    · cases h
    · next he => rintro ⟨e, hm, hn⟩; exact lookupEnumByVariant_none he e hm hn
  · unfold getEnumByVariantNoSuper at h
    split at h <;> cases h

theorem getEnumByVariant_found_enum {t : Table} {self : ClassDecl} {v : Name} {x : ClassDecl × EnumDecl}
    (h : getEnumByVariant t self v = .found x) : x.2 ∈ x.1.enums ∧ x.2.isScoped = false ∧ v ∈ x.2.variants := by
  obtain ⟨d, _, hfd⟩ := fmsb_found h
  unfold getEnumByVariantNoSuper at hfd
  split at hfd
  · next e he => cases hfd; exact lookupEnumByVariant_some he
  · cases hfd

/-- a member's type fails to resolve only because of an unresolved super class above its class -/
theorem resolveMemberType_error {t : Table} {d : ClassDecl} {ty : Name} {e : TypeMapError}
    (h : resolveMemberType t d ty = .error e) : .err e ∈ baseClasses t d := by
  unfold resolveMemberType at h
  split at h
  · next e' he =>
    cases h
    rcases fmsb_error he with h | ⟨d', _, hfd⟩
    · exact h
    · exact absurd hfd (by unfold getTypeNoSuper; split <;> simp)
  · cases h
  · cases h

theorem resolveMemberType_clean {t : Table} {d : ClassDecl} (hc : Clean t d) (ty : Name) :
    resolveMemberType t d ty = .found () := by
  cases h : resolveMemberType t d ty with
  | found u => rfl
  | error e => exact absurd (resolveMemberType_error h) (hc e)
  | notFound => unfold resolveMemberType at h; split at h <;> cases h

theorem resolveMemberTypes_error {t : Table} {d : ClassDecl} {tys : List Name} {e : TypeMapError}
    (h : resolveMemberTypes t d tys = .error e) : .err e ∈ baseClasses t d := by
  induction tys with
  | nil => simp [resolveMemberTypes] at h
  | cons ty rest ih =>
    simp only [resolveMemberTypes] at h
    split at h
    · next e' he => cases h; exact resolveMemberType_error he
    · exact ih h

theorem getProperty_member (t : Table) (p : Name) :
    MemberLookup t (fun cls => getPropertyNoSuper t cls p) (fun d => p ∈ d.props) id := by
  refine ⟨fun d x h => ?_, fun d h => ?_, fun d e h => ?_⟩
  · unfold getPropertyNoSuper at h
    split at h
    · next hp => split at h <;> cases h <;> exact ⟨rfl, hp⟩
    · cases h
  · unfold getPropertyNoSuper at h
    split at h
    · split at h <;> cases h
    · next hp => exact hp
  · unfold getPropertyNoSuper at h
    split at h
    · split at h
      · next e' he => cases h; exact resolveMemberType_error he
      · cases h
    · cases h

theorem getPublicMethod_member (t : Table) (m : Name) :
    MemberLookup t (fun cls => getPublicMethodNoSuper t cls m) (fun d => methodSlice (methodTable d) m ≠ []) (·.1) := by
  refine ⟨fun d x h => ?_, fun d h => ?_, fun d e h => ?_⟩
  · unfold getPublicMethodNoSuper at h
    split at h
    · cases h
    · next hne => split at h <;> cases h <;> exact ⟨rfl, hne⟩
  · unfold getPublicMethodNoSuper at h
    split at h
    · next he => simp [he]
    · split at h <;> cases h
  · unfold getPublicMethodNoSuper at h
    split at h
    · cases h
    · split at h
      · next e' he => cases h; exact resolveMemberTypes_error he
      · cases h

theorem getPublicMethod_found_slice {t : Table} {self : ClassDecl} {m : Name} {x : ClassDecl × List MethodData}
    (h : getPublicMethod t self m = .found x) : x.2 = methodSlice (methodTable x.1) m := by
  obtain ⟨d, _, hfd⟩ := fmsb_found h
  unfold getPublicMethodNoSuper at hfd
  split at hfd
  · cases hfd
  · split at hfd <;> cases hfd <;> rfl

/-! ### `is_derived_from`, `common_base_class` -/

theorem pedantic_found {t : Table} {self base : ClassDecl}
    (hb : lookupClass t.classes base.name = some base) (hs : lookupClass t.classes self.name = some self)
    (h : isDerivedFromPedantic t self base = .found ()) : Reach t self base := by
  unfold isDerivedFromPedantic at h
  split at h
  · next hn => rw [handle_eq_of_name_eq hs hb hn]; exact .refl _
  · obtain ⟨d, hd, hfd⟩ := findMapItems_found h
    have hr := baseClasses_reach hd
    split at hfd
    · next hn => rw [← handle_eq_of_name_eq (reach_handle hr hs) hb hn]; exact hr
    · cases hfd

theorem pedantic_notFound {t : Table} {self base : ClassDecl}
    (h : isDerivedFromPedantic t self base = .notFound) : Clean t self ∧ ¬ Reach t self base := by
  unfold isDerivedFromPedantic at h
  split at h
  · cases h
  · next hn =>
    obtain ⟨h1, h2⟩ := findMapItems_notFound.mp h
    refine ⟨h1, fun hr => ?_⟩
    rcases reach_cases hr with rfl | hd
    · exact hn rfl
    · have := h2 base hd
      simp at this

theorem pedantic_error {t : Table} {self base : ClassDecl} {e : TypeMapError}
    (h : isDerivedFromPedantic t self base = .error e) : .err e ∈ baseClasses t self := by
  unfold isDerivedFromPedantic at h
  split at h
  · cases h
  · rcases findMapItems_error h with h | ⟨d, _, hfd⟩
    · exact h
    · split at hfd <;> cases hfd

theorem isDerivedFrom_eq_true {t : Table} {self base : ClassDecl} :
    isDerivedFrom t self base = true ↔ isDerivedFromPedantic t self base = .found () := by
  unfold isDerivedFrom
  cases isDerivedFromPedantic t self base <;> simp

/-- all tables: a positive answer is always right -/
theorem isDerivedFrom_sound {t : Table} {self base : ClassDecl}
    (hb : lookupClass t.classes base.name = some base) (hs : lookupClass t.classes self.name = some self)
    (h : isDerivedFrom t self base = true) : Reach t self base :=
  pedantic_found hb hs (isDerivedFrom_eq_true.mp h)

/-- when no unresolved reference can be met from `self`, a negative answer is right too -/
theorem isDerivedFrom_complete {t : Table} {self base : ClassDecl} (hc : Clean t self) (hr : Reach t self base) :
    isDerivedFrom t self base = true := by
  rw [isDerivedFrom_eq_true]
  cases h : isDerivedFromPedantic t self base with
  | found u => rfl
  | notFound => exact absurd hr (pedantic_notFound h).2
  | error e => exact absurd (pedantic_error h) (hc e)

/-- all tables: a negative answer means "not an ancestor" or "an unresolved reference was met" -/
theorem isDerivedFrom_false {t : Table} {self base : ClassDecl} (h : isDerivedFrom t self base = false) :
    ¬ Reach t self base ∨ ¬ Clean t self := by
  by_cases hc : Clean t self
  · refine .inl fun hr => ?_
    rw [isDerivedFrom_complete hc hr] at h; cases h
  · exact .inr hc

theorem commonBaseClass_found {t : Table} {self other c : ClassDecl}
    (hs : lookupClass t.classes self.name = some self) (ho : lookupClass t.classes other.name = some other)
    (h : commonBaseClass t self other = .found c) : Reach t self c ∧ Reach t other c := by
  obtain ⟨d, hd, hfd⟩ := fmsb_found h
  split at hfd
  · next hp => cases hfd; exact ⟨hd, pedantic_found (reach_handle hd hs) ho hp⟩
  · cases hfd
  · cases hfd

theorem commonBaseClass_notFound {t : Table} {self other : ClassDecl}
    (h : commonBaseClass t self other = .notFound) : ∀ c, Reach t self c → ¬ Reach t other c := by
  obtain ⟨_, h2⟩ := fmsb_notFound h
  intro c hc hoc
  have := h2 c hc
  split at this
  · cases this
  · cases this
  · next hp => exact (pedantic_notFound hp).2 hoc

theorem commonBaseClass_error {t : Table} {self other : ClassDecl} {e : TypeMapError}
    (h : commonBaseClass t self other = .error e) : ¬ Clean t self ∨ ¬ Clean t other := by
  rcases fmsb_error h with h | ⟨d, _, hfd⟩
  · exact .inl fun hc => hc e h
  · split at hfd
    · cases hfd
    · next e' hp => cases hfd; exact .inr fun hc => hc e (pedantic_error hp)
    · cases hfd

theorem commonBaseClass_complete {t : Table} {self other c : ClassDecl} (hcs : Clean t self) (hco : Clean t other)
    (h1 : Reach t self c) (h2 : Reach t other c) : ∃ c', commonBaseClass t self other = .found c' := by
  cases h : commonBaseClass t self other with
  | found c' => exact ⟨c', rfl⟩
  | notFound => exact absurd h2 (commonBaseClass_notFound h c h1)
  | error e => rcases commonBaseClass_error h with h | h <;> contradiction

/-! ### the sorted method table -/

/-- the public methods in `from_meta` order: signals, slots, methods -/
def publicMethods (d : ClassDecl) : List MethodData :=
  (d.signals.filterMap fun m => if m.isPublic then some { name := m.name, kind := MethodKind.signal, nargs := m.nargs } else none) ++
  (d.slots.filterMap fun m => if m.isPublic then some { name := m.name, kind := MethodKind.slot, nargs := m.nargs } else none) ++
  (d.methods.filterMap fun m => if m.isPublic then some { name := m.name, kind := MethodKind.method, nargs := m.nargs } else none)

theorem methodTable_eq (d : ClassDecl) : methodTable d = sortByName (publicMethods d) := rfl

theorem String.le_of_lt' {a b : String} (h : a < b) : a ≤ b := String.not_lt.mp (String.lt_asymm h)

theorem mem_insertByName {m x : MethodData} {l : List MethodData} :
    x ∈ insertByName m l ↔ x = m ∨ x ∈ l := by
  induction l with
  | nil => simp [insertByName]
  | cons y ys ih =>
    simp only [insertByName]
    split
    · simp only [List.mem_cons, ih]
      constructor
      · rintro (h | h | h)
        · exact .inr (.inl h)
        · exact .inl h
        · exact .inr (.inr h)
      · rintro (h | h | h)
        · exact .inr (.inl h)
        · exact .inl h
        · exact .inr (.inr h)
    · simp only [List.mem_cons]

theorem sorted_insertByName {m : MethodData} {l : List MethodData}
    (h : l.Pairwise fun x y => x.name ≤ y.name) : (insertByName m l).Pairwise fun x y => x.name ≤ y.name := by
  induction l with
  | nil => simp [insertByName]
  | cons y ys ih =>
    obtain ⟨h1, h2⟩ := List.pairwise_cons.mp h
    simp only [insertByName]
    split
    · next hlt =>
      refine List.pairwise_cons.mpr ⟨fun z hz => ?_, ih h2⟩
      rcases mem_insertByName.mp hz with rfl | hz
      · exact String.le_of_lt' hlt
      · exact h1 z hz
    · next hge =>
      have hmy : m.name ≤ y.name := String.not_lt.mp hge
      refine List.pairwise_cons.mpr ⟨fun z hz => ?_, h⟩
      rcases List.mem_cons.mp hz with rfl | hz
      · exact hmy
      · exact String.le_trans hmy (h1 z hz)

theorem sorted_sortByName (l : List MethodData) : (sortByName l).Pairwise fun x y => x.name ≤ y.name := by
  induction l with
  | nil => simp [sortByName]
  | cons x xs ih => exact sorted_insertByName ih

/-- the sort is stable: the entries of one name keep their order -/
theorem filter_insertByName (m : MethodData) (l : List MethodData) (n : Name) :
    (insertByName m l).filter (fun d => d.name = n) =
      if m.name = n then m :: l.filter (fun d => d.name = n) else l.filter (fun d => d.name = n) := by
  induction l with
  | nil => simp only [insertByName, List.filter_cons, List.filter_nil]; split <;> simp_all
  | cons y ys ih =>
    simp only [insertByName]
    split
    · next hlt =>
      rw [List.filter_cons, ih]
      by_cases hm : m.name = n
      · have hy : ¬ y.name = n := fun hy => String.lt_irrefl n (by rw [hy, hm] at hlt; exact hlt)
        simp [hm, hy]
      · simp only [hm, if_false, List.filter_cons]
    · rw [List.filter_cons]
      by_cases hm : m.name = n <;> simp [hm]

theorem filter_sortByName (l : List MethodData) (n : Name) :
    (sortByName l).filter (fun d => d.name = n) = l.filter (fun d => d.name = n) := by
  induction l with
  | nil => rfl
  | cons x xs ih =>
    show (insertByName x (sortByName xs)).filter _ = _
    rw [filter_insertByName, ih, List.filter_cons]
    by_cases hx : x.name = n <;> simp [hx]

theorem filter_nil_of_gt {l : List MethodData} {n : Name} (h : ∀ x ∈ l, n < x.name) :
    l.filter (fun d => d.name = n) = [] := by
  apply List.filter_eq_nil_iff.mpr
  intro x hx
  have := h x hx
  simp only [decide_eq_true_eq]
  intro he; rw [he] at this; exact String.lt_irrefl n this

theorem takeWhile_eq_filter {l : List MethodData} {n : Name} (hs : l.Pairwise fun x y => x.name ≤ y.name)
    (hge : ∀ x ∈ l, n ≤ x.name) :
    l.takeWhile (fun d => d.name = n) = l.filter (fun d => d.name = n) := by
  induction l with
  | nil => rfl
  | cons y ys ih =>
    obtain ⟨h1, h2⟩ := List.pairwise_cons.mp hs
    by_cases hy : y.name = n
    · rw [List.takeWhile_cons, List.filter_cons]
      simp only [hy, decide_true, if_true]
      rw [ih h2 fun x hx => hge x (List.mem_cons_of_mem _ hx)]
    · rw [List.takeWhile_cons, List.filter_cons]
      simp only [hy, decide_false, Bool.false_eq_true, if_false]
      have hlt : n < y.name := by
        have hle := hge y List.mem_cons_self
        apply String.not_le.mp
        intro hle'
        exact hy (String.le_antisymm hle' hle)
      symm
      apply filter_nil_of_gt
      intro x hx
      apply String.not_le.mp
      intro hxn
      exact String.lt_irrefl n (String.not_le.mp fun h => String.not_le.mpr hlt (String.le_trans (h1 x hx) hxn))

theorem methodSlice_sorted {l : List MethodData} (n : Name) (hs : l.Pairwise fun x y => x.name ≤ y.name) :
    methodSlice l n = l.filter (fun d => d.name = n) := by
  unfold methodSlice
  induction l with
  | nil => rfl
  | cons y ys ih =>
    obtain ⟨h1, h2⟩ := List.pairwise_cons.mp hs
    by_cases hy : y.name < n
    · rw [List.dropWhile_cons]
      simp only [hy, decide_true, if_true]
      rw [ih h2, List.filter_cons]
      have : ¬ y.name = n := fun he => String.lt_irrefl n (by rw [he] at hy; exact hy)
      simp [this]
    · rw [List.dropWhile_cons]
      simp only [hy, decide_false, Bool.false_eq_true, if_false]
      apply takeWhile_eq_filter hs
      intro x hx
      rcases List.mem_cons.mp hx with rfl | hx
      · exact String.not_lt.mp hy
      · exact String.le_trans (String.not_lt.mp hy) (h1 x hx)

/-- the binary search on the sorted table selects exactly the public methods of that name, in declaration
    order (signals, then slots, then methods) -/
theorem methodSlice_methodTable (d : ClassDecl) (n : Name) :
    methodSlice (methodTable d) n = (publicMethods d).filter (fun m => m.name = n) := by
  rw [methodTable_eq, methodSlice_sorted n (sorted_sortByName _), filter_sortByName]

/-! ### the specification's executable reachability is correct (pure graph facts) -/
section spec
open QV.Spec.Graph

theorem Derives.trans {g : Graph} {a b c : String} (h1 : Derives g a b) (h2 : Derives g b c) : Derives g a c := by
  induction h1 with
  | refl => exact h2
  | step he _ ih => exact .step he (ih h2)

theorem mem_insertAll {acc xs : List String} {x : String} : x ∈ insertAll acc xs ↔ x ∈ acc ∨ x ∈ xs := by
  induction xs generalizing acc with
  | nil => simp [insertAll]
  | cons y ys ih =>
    simp only [insertAll, ih, List.mem_cons]
    by_cases hy : y ∈ acc
    · simp only [hy, if_true]
      constructor
      · rintro (h | h)
        · exact .inl h
        · exact .inr (.inr h)
      · rintro (h | rfl | h)
        · exact .inl h
        · exact .inl hy
        · exact .inr h
    · simp only [hy, if_false, List.mem_append, List.mem_singleton]
      constructor
      · rintro ((h | h) | h)
        · exact .inl h
        · exact .inr (.inl h)
        · exact .inr (.inr h)
      · rintro (h | h | h)
        · exact .inl (.inl h)
        · exact .inl (.inr h)
        · exact .inr h

theorem mem_succs {g : Graph} {a b : String} : b ∈ succs g a ↔ Edge g a b := by
  unfold succs Edge IsClass
  cases h : classOf g a with
  | none => simp
  | some d =>
    simp only [List.mem_filter, Option.isSome_iff_exists]
    constructor
    · rintro ⟨h1, h2⟩; exact ⟨d, rfl, h1, h2⟩
    · rintro ⟨d', hd', h1, h2⟩; cases hd'; exact ⟨h1, h2⟩

theorem mem_grow {g : Graph} {s : List String} {x : String} : x ∈ grow g s ↔ x ∈ s ∨ ∃ a ∈ s, Edge g a x := by
  unfold grow
  rw [mem_insertAll, List.mem_flatMap]
  constructor
  · rintro (h | ⟨a, ha, hx⟩)
    · exact .inl h
    · exact .inr ⟨a, ha, mem_succs.mp hx⟩
  · rintro (h | ⟨a, ha, hx⟩)
    · exact .inl h
    · exact .inr ⟨a, ha, mem_succs.mpr hx⟩

theorem iterate_sound {g : Graph} (k : Nat) : ∀ (s : List String) (x : String), x ∈ iterate g k s →
    ∃ a ∈ s, Derives g a x := by
  induction k with
  | zero => intro s x hx; exact ⟨x, hx, .refl _⟩
  | succ k ih =>
    intro s x hx
    obtain ⟨a, ha, hax⟩ := ih (grow g s) x hx
    rcases mem_grow.mp ha with h | ⟨a', ha', he⟩
    · exact ⟨a, h, hax⟩
    · exact ⟨a', ha', .step he hax⟩

theorem subset_iterate {g : Graph} (k : Nat) : ∀ (s : List String) (x : String), x ∈ s → x ∈ iterate g k s := by
  induction k with
  | zero => intro s x hx; exact hx
  | succ k ih => intro s x hx; exact ih _ x (mem_grow.mpr (.inl hx))

theorem closed_derives {g : Graph} {s : List String} (hc : closed g s = true) {a b : String}
    (h : Derives g a b) (ha : a ∈ s) : b ∈ s := by
  induction h with
  | refl => exact ha
  | step he _ ih =>
    apply ih
    unfold closed at hc
    have := List.all_eq_true.mp hc _ ha
    have := List.all_eq_true.mp this _ (mem_succs.mpr he)
    simpa using this

/-- the oracle the driver uses for "derives from" is graph reachability -/
theorem ancestors?_spec {g : Graph} {a : String} {s : List String} (h : ancestors? g a = some s) (b : String) :
    b ∈ s ↔ Derives g a b := by
  unfold ancestors? at h
  simp only [] at h
  split at h
  · next hc =>
    cases h
    constructor
    · intro hb
      obtain ⟨a', ha', hd⟩ := iterate_sound _ _ _ hb
      rw [List.mem_singleton.mp ha'] at hd; exact hd
    · intro hd
      exact closed_derives hc hd (subset_iterate _ _ _ (List.mem_singleton.mpr rfl))
  · cases h

/-! ### a table and its graph reading -/

theorem classOf_map_nodeOf (cs : List ClassDecl) (n : Name) :
    classOf (cs.map nodeOf) n = (lookupClass cs n).map nodeOf := by
  induction cs with
  | nil => rfl
  | cons x xs ih =>
    simp only [List.map_cons, classOf, lookupClass, ih]
    cases lookupClass xs n with
    | some y => rfl
    | none =>
      simp only [Option.map_none]
      show (if x.name = n then some (nodeOf x) else none) = _
      split <;> rfl

theorem classOf_toGraph (t : Table) (n : Name) : classOf (toGraph t) n = (lookupClass t.classes n).map nodeOf :=
  classOf_map_nodeOf _ _

theorem classOf_handle {t : Table} {d : ClassDecl} (h : lookupClass t.classes d.name = some d) :
    classOf (toGraph t) d.name = some (nodeOf d) := by
  rw [classOf_toGraph, h]; rfl

theorem isClass_iff {t : Table} {n : Name} : IsClass (toGraph t) n ↔ ∃ d, lookupClass t.classes n = some d := by
  unfold IsClass
  rw [classOf_toGraph]
  cases lookupClass t.classes n <;> simp

theorem reach_derives {t : Table} {a b : ClassDecl} (h : Reach t a b)
    (ha : lookupClass t.classes a.name = some a) : Derives (toGraph t) a.name b.name := by
  induction h with
  | refl => exact .refl _
  | @step a b c n hn hl _ ih =>
    have hb := lookupClass_self hl
    rw [← lookupClass_name hl] at hn hl
    exact .step ⟨nodeOf a, classOf_handle ha, hn, isClass_iff.mpr ⟨b, hl⟩⟩ (ih hb)

theorem derives_reach {t : Table} {x y : String} (h : Derives (toGraph t) x y) :
    ∀ a, lookupClass t.classes x = some a → ∃ b, lookupClass t.classes y = some b ∧ Reach t a b := by
  induction h with
  | refl => intro a ha; exact ⟨a, ha, .refl _⟩
  | @step x z y he _ ih =>
    intro a ha
    obtain ⟨d, hd, hz, hcz⟩ := he
    rw [classOf_toGraph, ha] at hd
    cases hd
    obtain ⟨b', hb'⟩ := isClass_iff.mp hcz
    obtain ⟨b, hb, hr⟩ := ih b' hb'
    exact ⟨b, hb, .step hz hb' hr⟩

/-- `Derives` between two handles is `Reach` -/
theorem derives_iff_reach {t : Table} {a b : ClassDecl} (ha : lookupClass t.classes a.name = some a)
    (hb : lookupClass t.classes b.name = some b) : Derives (toGraph t) a.name b.name ↔ Reach t a b := by
  constructor
  · intro h
    obtain ⟨b', hb', hr⟩ := derives_reach h a ha
    rw [hb] at hb'; cases hb'; exact hr
  · intro h; exact reach_derives h ha

theorem clean_iff_not_dangling {t : Table} {self : ClassDecl} (hs : lookupClass t.classes self.name = some self) :
    Clean t self ↔ ¬ DanglingFrom (toGraph t) self.name := by
  constructor
  · rintro hc ⟨a, d, s, hda, hd, hsd, hns⟩
    obtain ⟨a', ha', hr⟩ := derives_reach hda self hs
    rw [classOf_toGraph, ha'] at hd
    cases hd
    have hnone : lookupClass t.classes s = none := by
      cases h : lookupClass t.classes s with
      | none => rfl
      | some x => exact absurd (isClass_iff.mpr ⟨x, h⟩) hns
    obtain ⟨e, he⟩ := resolveClass_error_of_none hnone
    exact hc e ((baseClasses_err_iff t self e).mpr ⟨a', hr, s, hsd, he⟩)
  · intro hnd e he
    obtain ⟨a, ha, n, hn, hr⟩ := (baseClasses_err_iff t self e).mp he
    refine hnd ⟨a.name, nodeOf a, n, reach_derives ha hs, classOf_handle (reach_handle ha hs), hn, ?_⟩
    rw [isClass_iff]
    rintro ⟨d, hd⟩
    rw [resolveClass_error hr] at hd; cases hd

end spec

end QV.Proofs.ClassGraph
