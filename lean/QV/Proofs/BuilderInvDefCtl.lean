/-
  C06, the builder for ALL programs — define-before-use, part 3: the visitors that build control flow.  Each lemma
  lists what the claims `ins` of the blocks involved must satisfy (the walk chooses them so).
-/
import QV.Proofs.BuilderInvDefVisit

set_option linter.unusedSimpArgs false
set_option linter.unusedVariables false

namespace QV.Proofs.BuilderInv
open QV.Model QV.Model.Cfg

theorem reads_nonlocal {o : Operand} (h : ∀ n t, o ≠ .local n t) : operandReads o = [] := by
  cases o <;> simp [operandReads]
  exact absurd rfl (h _ _)

theorem logical_core {U : Nat → Prop} {ins : Ins} {b b1 : Builder} (h1 : DS U ins b b1) (init : Bool) (n : Nat) (l r : Operand)
    (lr rr T F : Nat) (hT : (T = lr + 1 ∧ F = rr + 1) ∨ (T = rr + 1 ∧ F = lr + 1)) (hlr : lr < len b) (hrr : rr < len b)
    (hl : ∀ x ∈ operandReads l, ¬ U x → Out ins b lr x)
    (hr : ∀ x ∈ operandReads r, ¬ U x → Out ins b rr x)
    (hs1 : ∀ x, ins (lr + 1) x → Out ins b lr x)
    (hj : ∀ x, ins (rr + 1) x → (Out ins b lr x ∧ Out ins b rr x) ∨ x = n) :
    DS U ins b ((((b1.pushStatementAt lr (.assign n (.copy (.const (.bool init))))).finalizeAt lr (.brCond l T F)).pushStatementAt rr
      (.assign n (.copy r))).finalizeAt rr (.br (rr + 1))) := by
  have hlen1 : len b1 = len b := h1.eq
  have d1 := h1.then_push lr (.assign n (.copy (.const (.bool init)))) (fun x hx hu => by
    simp [stmtReads, rvalueReads, operandReads] at hx)
  have hn1 : Out ins (b1.pushStatementAt lr (.assign n (.copy (.const (.bool init))))) lr n :=
    Out.push_def (by omega) _ _
  have hjoin : ∀ x, ins (rr + 1) x → Out ins (b1.pushStatementAt lr (.assign n (.copy (.const (.bool init))))) lr x := by
    intro x hx
    rcases hj x hx with h | h
    · exact d1.om lr x h.1
    · subst h; exact hn1
  have d2 := d1.then_fin lr (.brCond l T F) (fun x hx hu => d1.om lr x (hl x (by simpa [termReads] using hx) hu))
    (fun j hj' x hx => by
      simp [successors] at hj'
      rcases hT with ⟨rfl, rfl⟩ | ⟨rfl, rfl⟩
      · rcases hj' with rfl | rfl
        · exact d1.om lr x (hs1 x hx)
        · exact hjoin x hx
      · rcases hj' with rfl | rfl
        · exact hjoin x hx
        · exact d1.om lr x (hs1 x hx))
  have d3 := d2.then_push rr (.assign n (.copy r)) (fun x hx hu =>
    d2.om rr x (hr x (by simpa [stmtReads, rvalueReads] using hx) hu))
  have hn3 : Out ins (((b1.pushStatementAt lr (.assign n (.copy (.const (.bool init))))).finalizeAt lr (.brCond l T F)).pushStatementAt rr
      (.assign n (.copy r))) rr n :=
    Out.push_def (by rw [d2.eq]; exact hrr) _ _
  exact d3.then_fin rr (.br (rr + 1)) (fun x hx hu => by simp [termReads] at hx)
    (fun j hj' x hx => by
      simp [successors] at hj'
      subst hj'
      rcases hj x hx with h | h
      · exact d3.om rr x h.2
      · subst h; exact hn3)

/-- `a && b` / `a || b`: `lr` ends the left operand's code, `rr` the right one's; block `lr + 1` starts the right
    operand, block `rr + 1` is the join -/
theorem visitLogical_d {U : Nat → Prop} {ins : Ins} (b : Builder) (op : LogicOp) (l r : Operand) (lr rr : Nat)
    (hd : DInv U ins b) (hlr : lr < len b) (hrr : rr < len b)
    (hl : ∀ x ∈ operandReads l, ¬ U x → Out ins b lr x)
    (hr : ∀ x ∈ operandReads r, ¬ U x → Out ins b rr x)
    (hs1 : ∀ x, ins (lr + 1) x → Out ins b lr x)
    (hj : ∀ x, ins (rr + 1) x → (Out ins b lr x ∧ Out ins b rr x) ∨
      x ∈ operandReads (visitBinaryLogicalExpression b op l lr r rr).1) :
    DS U ins b (visitBinaryLogicalExpression b op l lr r rr).2 := by
  unfold visitBinaryLogicalExpression at hj ⊢
  generalize hb0 : (if l.typeDesc ≠ .bool ∨ r.typeDesc ≠ .bool then b.fail "logical operand must be bool" else b) = b0 at hj ⊢
  have hc0 : b0.code = b.code := by rw [← hb0]; exact ite_fail_code _ _ _
  have h0 : DS U ins b b0 := (DS.refl hd).then_code hc0
  have hbv : TypeKind.bool ≠ TypeKind.void := by simp [TypeKind.bool, TypeKind.void]
  have ha : b0.alloca .bool = (some (.local b0.code.locals.length .bool),
      { b0 with code := { b0.code with locals := b0.code.locals ++ [TypeKind.bool] } }) := by
    simp [Builder.alloca, hbv]
  have h1 : DS U ins b (b0.alloca .bool).2 := h0.then_alloca .bool
  rw [ha] at h1
  simp only [ha] at hj ⊢
  generalize hb1 : ({ b0 with code := { b0.code with locals := b0.code.locals ++ [TypeKind.bool] } } : Builder) = b1 at h1 hj ⊢
  generalize b0.code.locals.length = n at hj ⊢
  cases op
  · simp only [] at hj ⊢
    simp only [operandReads, List.mem_singleton] at hj
    exact logical_core h1 false n l r lr rr _ _ (Or.inl ⟨rfl, rfl⟩) hlr hrr hl hr hs1 hj
  · simp only [] at hj ⊢
    simp only [operandReads, List.mem_singleton] at hj
    exact logical_core h1 true n l r lr rr _ _ (Or.inr ⟨rfl, rfl⟩) hlr hrr hl hr hs1 hj

/-- `c ? x : y`: `cr`, `xr`, `yr` end the code of the condition and of the two branches; `cr + 1` and `xr + 1` start the
    branches, `yr + 1` is the join -/
theorem visitTernary_d {U : Nat → Prop} {ins : Ins} {env : Env} {b b' : Builder} {c x y res : Operand} {cr xr yr : Nat}
    (h : visitTernaryExpression env b c cr x xr y yr = .ok (res, b')) (hd : DInv U ins b)
    (hcr : cr < len b) (hxr : xr < len b) (hyr : yr < len b)
    (hc : ∀ z ∈ operandReads c, ¬ U z → Out ins b cr z)
    (hx : ∀ z ∈ operandReads x, ¬ U z → Out ins b xr z)
    (hy : ∀ z ∈ operandReads y, ¬ U z → Out ins b yr z)
    (hs1 : ∀ z, ins (cr + 1) z → Out ins b cr z) (hs2 : ∀ z, ins (xr + 1) z → Out ins b cr z)
    (hj : ∀ z, ins (yr + 1) z → (Out ins b xr z ∧ Out ins b yr z) ∨ z ∈ operandReads res) : DS U ins b b' := by
  unfold visitTernaryExpression at h
  simp only at h
  split at h
  · simp at h
  · rename_i ty hdc
    simp at h
    obtain ⟨hres, h2⟩ := h
    rw [← h2]
    have h1 : DS U ins b (b.alloca ty).2 := (DS.refl hd).then_alloca ty
    generalize (b.alloca ty).2 = b1 at h1
    generalize (b.alloca ty).1 = sink at hres
    have store : ∀ (bb : Builder) (src : Operand) (ref : Nat), DS U ins b bb → ref < len b →
        (∀ z ∈ operandReads src, ¬ U z → Out ins bb ref z) →
        (∀ z, ins (yr + 1) z → Out ins bb ref z ∨ z ∈ operandReads res) →
        DS U ins b ((match sink with
          | some (Operand.local n _) => bb.pushStatementAt ref (.assign n (.copy src))
          | _ => bb).finalizeAt ref (.br (yr + 1))) := by
      intro bb src ref hbb href hsrc hjj
      split
      · rename_i n t
        have hr0 : operandReads res = [n] := by rw [← hres]; simp [operandReads]
        have dp := hbb.then_push ref (.assign n (.copy src)) (fun z hz hu =>
          hsrc z (by simpa [stmtReads, rvalueReads] using hz) hu)
        have hn : Out ins (bb.pushStatementAt ref (.assign n (.copy src))) ref n :=
          Out.push_def (by rw [hbb.eq]; exact href) _ _
        refine dp.then_fin ref _ (fun z hz hu => by simp [termReads] at hz) (fun j hj' z hz => ?_)
        simp [successors] at hj'
        subst hj'
        rcases hjj z hz with h | h
        · exact h.push _ _
        · rw [hr0] at h; simp at h; subst h; exact hn
      · rename_i hne
        have hr0 : operandReads res = [] := by
          rw [← hres]
          cases sink with
          | none => simp [operandReads]
          | some o => simp only [Option.getD_some]; exact reads_nonlocal (fun n t he => hne n t (by rw [he]))
        refine hbb.then_fin ref _ (fun z hz hu => by simp [termReads] at hz) (fun j hj' z hz => ?_)
        simp [successors] at hj'
        subst hj'
        rcases hjj z hz with h | h
        · exact h
        · rw [hr0] at h; simp at h
    have c1 := h1.then_fin cr (.brCond c (cr + 1) (xr + 1)) (fun z hz hu => h1.om cr z (hc z (by simpa [termReads] using hz) hu))
      (fun j hj' z hz => by
        simp [successors] at hj'
        rcases hj' with rfl | rfl
        · exact h1.om cr z (hs1 z hz)
        · exact h1.om cr z (hs2 z hz))
    have c2 := store _ (ensureConcreteString x) xr c1 hxr
      (fun z hz hu => c1.om xr z (hx z (by simpa using hz) hu))
      (fun z hz => by
        rcases hj z hz with h | h
        · exact Or.inl (c1.om xr z h.1)
        · exact Or.inr h)
    exact store _ (ensureConcreteString y) yr c2 hyr
      (fun z hz hu => c2.om yr z (hy z (by simpa using hz) hu))
      (fun z hz => by
        rcases hj z hz with h | h
        · exact Or.inl (c2.om yr z h.2)
        · exact Or.inr h)

/-- `if (c) A else B`: `cr`, `xr`, `yr` end the code of the condition and of the branches -/
theorem visitIf_d {U : Nat → Prop} {ins : Ins} (b : Builder) (cnd : Operand) (cr xr : Nat) (yr : Option Nat)
    (hd : DInv U ins b)
    (hc : ∀ z ∈ operandReads cnd, ¬ U z → Out ins b cr z)
    (hs1 : ∀ z, ins (cr + 1) z → Out ins b cr z) (hs2 : ∀ z, ins (xr + 1) z → Out ins b cr z)
    (he1 : ∀ z, ins (yr.getD xr + 1) z → Out ins b xr z)
    (he2 : ∀ y, yr = some y → ∀ z, ins (y + 1) z → Out ins b y z) :
    DS U ins b (visitIfStatement b cnd cr xr yr) := by
  unfold visitIfStatement
  simp only []
  have c1 := (DS.refl hd).then_fin cr (.brCond cnd (cr + 1) (xr + 1)) (fun z hz hu => hc z (by simpa [termReads] using hz) hu)
    (fun j hj' z hz => by
      simp [successors] at hj'
      rcases hj' with rfl | rfl
      · exact hs1 z hz
      · exact hs2 z hz)
  have c2 := c1.then_fin xr (.br (yr.getD xr + 1)) (fun z hz hu => by simp [termReads] at hz)
    (fun j hj' z hz => by
      simp [successors] at hj'
      subst hj'
      exact c1.om xr z (he1 z hz))
  cases yr with
  | none => exact c2
  | some y =>
    simp only [Option.getD_some] at c2 ⊢
    exact c2.then_fin y (.br (y + 1)) (fun z hz hu => by simp [termReads] at hz)
      (fun j hj' z hz => by
        simp [successors] at hj'
        subst hj'
        exact c2.om y z (he2 y rfl z hz))

/-- `break` / `return`: the current block is closed and a fresh (dead) block becomes current; it may claim `S` -/
theorem visitBreak_d {U : Nat → Prop} {ins : Ins} (b : Builder) (l : Nat) (S : Nat → Prop) (hd : DInv U ins b) (hi : Inv b)
    (hl : l < len b) (hs : ∀ z, ins l z → Cur ins b z) :
    DInv U (upd ins (len b) S) (visitBreakStatement b l) ∧
      (∀ i z, i ≠ len b → (Out (upd ins (len b) S) (visitBreakStatement b l) i z ↔ Out ins b i z)) ∧
      (∀ z, Out (upd ins (len b) S) (visitBreakStatement b l) (len b) z ↔ (S z ∨ z < np b)) := by
  unfold visitBreakStatement
  have hcr : b.currentRef = len b - 1 := rfl
  have c1 := (DS.refl hd).then_fin b.currentRef (.br l) (fun z hz hu => by simp [termReads] at hz)
    (fun j hj' z hz => by
      simp [successors] at hj'
      subst hj'
      rw [hcr]; exact hs z hz)
  have hi1 : Inv (b.finalizeAt b.currentRef (.br l)) := (adv_finalizeAt b _ _ (validBr hl)).inv hi
  have hlen : len (b.finalizeAt b.currentRef (.br l)) = len b := by simp
  have := c1.d.newBlock S hi1
  rw [hlen] at this
  refine ⟨this, fun i z hne => ?_, fun z => ?_⟩
  · have h1 := Out.newBlock_old (ins := ins) (b := b.finalizeAt b.currentRef (.br l)) S (i := i) (x := z) (by rw [hlen]; exact hne)
    rw [hlen] at h1
    exact h1.trans (Out.finalize _ _)
  · have h1 := Out.newBlock_new (ins := ins) (b := b.finalizeAt b.currentRef (.br l)) S (x := z)
    rw [hlen] at h1
    simpa using h1

theorem visitReturn_d {U : Nat → Prop} {ins : Ins} (b : Builder) (v : Operand) (S : Nat → Prop) (hd : DInv U ins b) (hi : Inv b)
    (hv : OpOk U ins b v) :
    DInv U (upd ins (len b) S) (visitReturnStatement b v) ∧
      (∀ i z, i ≠ len b → (Out (upd ins (len b) S) (visitReturnStatement b v) i z ↔ Out ins b i z)) ∧
      (∀ z, Out (upd ins (len b) S) (visitReturnStatement b v) (len b) z ↔ (S z ∨ z < np b)) := by
  unfold visitReturnStatement
  have hcr : b.currentRef = len b - 1 := rfl
  have c1 := (DS.refl hd).then_fin b.currentRef (.ret (ensureConcreteString v)) (fun z hz hu => by
      rw [hcr]; exact hv z (by simpa [termReads] using hz) hu)
    (fun j hj' z hz => by simp [successors] at hj')
  have hi1 : Inv (b.finalizeAt b.currentRef (.ret (ensureConcreteString v))) := (adv_finalizeAt b _ _ (validRet _ _)).inv hi
  have hlen : len (b.finalizeAt b.currentRef (.ret (ensureConcreteString v))) = len b := by simp
  have := c1.d.newBlock S hi1
  rw [hlen] at this
  refine ⟨this, fun i z hne => ?_, fun z => ?_⟩
  · have h1 := Out.newBlock_old (ins := ins) (b := b.finalizeAt b.currentRef (.ret (ensureConcreteString v))) S (i := i) (x := z)
      (by rw [hlen]; exact hne)
    rw [hlen] at h1
    exact h1.trans (Out.finalize _ _)
  · have h1 := Out.newBlock_new (ins := ins) (b := b.finalizeAt b.currentRef (.ret (ensureConcreteString v))) S (x := z)
    rw [hlen] at h1
    simpa using h1

/-! ### `visit_switch_statement`: every jump installed goes from a block that knows `D` (what is known once the
    switch value has been computed) to a block that claims no more than `D` — except the fall-through of a case
    condition into the next one, which claims what its predecessor knows -/

theorem connect_d {U : Nat → Prop} {ins : Ins} {b0 : Builder} (D : Nat → Prop) (lastBodyRef : Nat) (defaultStart : Option Nat) (starts : List Nat)
    (hds : ∀ d, defaultStart = some d → ∀ z, ins d z → D z) (hlast : ∀ z, ins (lastBodyRef + 1) z → D z) :
    ∀ (xs : List ((Operand × Nat) × Nat)) (b : Builder) (i : Nat), DS U ins b0 b →
      (∀ x ∈ xs, (∀ z ∈ operandReads x.1.1, ¬ U z → Out ins b0 x.1.2 z) ∧ (∀ z, ins (x.1.2 + 1) z → Out ins b0 x.1.2 z) ∧
        (∀ z, D z → Out ins b0 x.1.2 z) ∧ (∀ z, ins x.2 z → D z)) →
      DS U ins b0 (visitSwitchStatement.connect lastBodyRef defaultStart starts b i xs)
  | [], b, i, hb, hx => by
    simp only [visitSwitchStatement.connect]
    exact hb
  | ((cnd, cr), bs) :: rest, b, i, hb, hx => by
    simp only [visitSwitchStatement.connect]
    obtain ⟨h1, h2, h3, h4⟩ := hx ((cnd, cr), bs) (by simp)
    simp only at h1 h2 h3 h4
    have c1 := hb.then_fin cr (.brCond cnd bs (if i + 1 < starts.length then cr + 1 else defaultStart.getD (lastBodyRef + 1)))
      (fun z hz hu => hb.om cr z (h1 z (by simpa [termReads] using hz) hu))
      (fun j hj' z hz => by
        simp [successors] at hj'
        rcases hj' with rfl | rfl
        · exact hb.om cr z (h3 z (h4 z hz))
        · split at hz
          · exact hb.om cr z (h2 z hz)
          · cases hdd : defaultStart with
            | none => rw [hdd] at hz; simp at hz; exact hb.om cr z (h3 z (hlast z hz))
            | some d => rw [hdd] at hz; simp at hz; exact hb.om cr z (h3 z (hds d hdd z hz)))
    exact connect_d D lastBodyRef defaultStart starts hds hlast rest _ (i + 1) c1 (fun x hx' => hx x (by simp [hx']))

theorem foldl_finalize_d {U : Nat → Prop} {ins : Ins} {b0 : Builder} (D : Nat → Prop) :
    ∀ (bodies : List Nat) (b : Builder), DS U ins b0 b →
      (∀ r ∈ bodies, (∀ z, ins (r + 1) z → D z) ∧ (∀ z, D z → Out ins b0 r z)) →
      DS U ins b0 (bodies.foldl (fun b bodyRef => b.finalizeAt bodyRef (.br (bodyRef + 1))) b)
  | [], b, hb, hr => by simpa using hb
  | r :: rest, b, hb, hr => by
    simp only [List.foldl_cons]
    obtain ⟨h1, h2⟩ := hr r (by simp)
    have c1 := hb.then_fin r (.br (r + 1)) (fun z hz hu => by simp [termReads] at hz)
      (fun j hj' z hz => by
        simp [successors] at hj'
        subst hj'
        exact hb.om r z (h2 z (h1 z hz)))
    exact foldl_finalize_d D rest _ c1 (fun x hx => hr x (by simp [hx]))

theorem visitSwitch_d {U : Nat → Prop} {ins : Ins} (D : Nat → Prop) (b : Builder) (conds : List (Operand × Nat)) (bodies : List Nat)
    (dp : Option Nat) (hr er : Nat) (hd : DInv U ins b)
    (hc : ∀ x ∈ conds, (∀ z ∈ operandReads x.1, ¬ U z → Out ins b x.2 z) ∧ (∀ z, ins (x.2 + 1) z → Out ins b x.2 z) ∧
      (∀ z, D z → Out ins b x.2 z))
    (hb : ∀ r ∈ bodies, (∀ z, ins (r + 1) z → D z) ∧ (∀ z, D z → Out ins b r z))
    (hh : ∀ z, D z → Out ins b hr z)
    (he : (∀ z, ins (er + 1) z → D z) ∧ (∀ z, D z → Out ins b er z)) :
    DS U ins b (visitSwitchStatement b conds bodies dp hr er) := by
  unfold visitSwitchStatement
  simp only []
  have hstarts0 : ∀ x ∈ (if bodies.isEmpty then [] else (er + 1) :: (bodies.dropLast.map (· + 1))), ∀ z, ins x z → D z := by
    intro x hx
    split at hx
    · simp at hx
    · rw [List.mem_cons] at hx
      rcases hx with rfl | hx
      · exact he.1
      · obtain ⟨a, ha, rfl⟩ := List.mem_map.1 hx
        exact (hb a (mem_of_mem_dropLast _ _ ha)).1
  generalize (if bodies.isEmpty then [] else (er + 1) :: (bodies.dropLast.map (· + 1))) = starts0 at hstarts0
  have hlast : ∀ z, ins (bodies.getLast?.getD er + 1) z → D z := by
    cases hgl : bodies.getLast? with
    | none => simpa using he.1
    | some r => simpa using (hb r (List.mem_of_getLast? hgl)).1
  have key : ∀ (ds : Option Nat) (starts : List Nat) (b1 : Builder), DS U ins b b1 →
      (∀ d, ds = some d → ∀ z, ins d z → D z) → (∀ x ∈ starts, ∀ z, ins x z → D z) →
      DS U ins b (((bodies.foldl (fun b bodyRef => b.finalizeAt bodyRef (.br (bodyRef + 1)))
        (visitSwitchStatement.connect (bodies.getLast?.getD er) ds starts
          (if conds.length ≠ starts.length then b1.fail "assert_eq!(case_conditions.len(), case_body_start_refs.len())" else b1) 0
          (conds.zip starts))).finalizeAt hr (.br (er + 1))).finalizeAt er (.br (bodies.getLast?.getD er + 1))) := by
    intro ds starts b1 hs1 hds hst
    have c1 : DS U ins b (visitSwitchStatement.connect (bodies.getLast?.getD er) ds starts
        (if conds.length ≠ starts.length then b1.fail "assert_eq!(case_conditions.len(), case_body_start_refs.len())" else b1) 0
        (conds.zip starts)) := connect_d D (bodies.getLast?.getD er) ds starts hds hlast (conds.zip starts) _ 0
      (hs1.then_ite_fail _ _) (by
      intro x hx
      obtain ⟨h1, h2⟩ := List.of_mem_zip (a := x.1) (b := x.2) (by simpa using hx)
      obtain ⟨g1, g2, g3⟩ := hc x.1 h1
      exact ⟨g1, g2, g3, hst x.2 h2⟩)
    have c2 := foldl_finalize_d D bodies _ c1 hb
    have c3 := c2.then_fin hr (.br (er + 1)) (fun z hz hu => by simp [termReads] at hz)
      (fun j hj' z hz => by
        simp [successors] at hj'
        subst hj'
        exact c2.om hr z (hh z (he.1 z hz)))
    exact c3.then_fin er (.br (bodies.getLast?.getD er + 1)) (fun z hz hu => by simp [termReads] at hz)
      (fun j hj' z hz => by
        simp [successors] at hj'
        subst hj'
        exact c3.om er z (he.2 z (hlast z hz)))
  cases dp with
  | none =>
    simp only
    exact key none starts0 b (DS.refl hd) (by simp) hstarts0
  | some p =>
    simp only
    cases hrm : removeAt starts0 p with
    | none =>
      simp only
      exact key none starts0 _ ((DS.refl hd).then_fail _) (by simp) hstarts0
    | some q =>
      rcases q with ⟨d, rest⟩
      obtain ⟨h1, h2, h3⟩ := removeAt_mem starts0 p d rest hrm
      simp only
      exact key (some d) rest b (DS.refl hd) (by intro d' hd'; simp at hd'; subst hd'; exact hstarts0 d h1)
        (fun x hx => hstarts0 x (h2 x hx))

end QV.Proofs.BuilderInv
