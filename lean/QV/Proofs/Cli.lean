/-
  Helper lemmas for C15 (QV.Props.C15): path/name functions, the abstract FS, the write protocol.
-/
import QV.Spec.Fs
import QV.Model.Cli

namespace QV.Proofs.Cli
open QV.Spec.Fs QV.Model.Cli

/-! ### names -/

theorem asciiLower_eq_lowerChar (c : Char) : asciiLower c = lowerChar c := by
  unfold asciiLower lowerChar
  have h : (65 ≤ c.toNat ∧ c.toNat ≤ 90) ↔ ('A' ≤ c ∧ c ≤ 'Z') := by
    simp only [Char.le_def, Char.toNat]
    constructor
    · rintro ⟨a, b⟩; exact ⟨by simpa [UInt32.le_iff_toNat_le] using a, by simpa [UInt32.le_iff_toNat_le] using b⟩
    · rintro ⟨a, b⟩; exact ⟨by simpa [UInt32.le_iff_toNat_le] using a, by simpa [UInt32.le_iff_toNat_le] using b⟩
  by_cases hc : 65 ≤ c.toNat ∧ c.toNat ≤ 90
  · rw [if_pos hc, if_pos (h.mp hc)]
  · rw [if_neg hc, if_neg (fun x => hc (h.mpr x))]


theorem map_asciiLower (l : Name) : l.map asciiLower = l.map lowerChar := by
  induction l with
  | nil => rfl
  | cons c cs ih => simp [ih, asciiLower_eq_lowerChar]

/-- the model's file names are the documented ones: lower-casing the whole name only changes the stem -/
theorem names_eq_spec (o : Options) (stem : Name) :
    (o.rules.typeNameToUiName stem, o.rules.typeNameToUiSupportCxxHeaderName stem)
      = specNames (!o.noLowercaseFileName) stem := by
  cases h : o.noLowercaseFileName <;>
    simp [Options.rules, FileNameRules.typeNameToUiName, FileNameRules.typeNameToUiSupportCxxHeaderName,
      FileNameRules.applyCaseChange, specNames, h, map_asciiLower] <;> decide

theorem rsplitDot_none {l : Name} (h : '.' ∉ l) : rsplitDot l = none := by
  induction l with
  | nil => rfl
  | cons c cs ih =>
    have hc : c ≠ '.' := fun e => h (by simp [e])
    have hcs : '.' ∉ cs := fun e => h (by simp [e])
    simp [rsplitDot, ih hcs, hc]

theorem rsplitDot_append (stem ext : Name) (h : '.' ∉ ext) :
    rsplitDot (stem ++ '.' :: ext) = some (stem, ext) := by
  induction stem with
  | nil => simp [rsplitDot, rsplitDot_none h]
  | cons c cs ih => simp [rsplitDot, ih]

theorem splitFileAtDot_append (stem ext : Name) (hs : stem ≠ []) (h : '.' ∉ ext) (he : ext ≠ []) :
    splitFileAtDot (stem ++ '.' :: ext) = (stem, some ext) := by
  unfold splitFileAtDot
  have hne : stem ++ '.' :: ext ≠ ['.', '.'] := by
    intro e
    cases stem with
    | nil => exact hs rfl
    | cons c cs =>
      cases cs with
      | nil => simp at e; exact he e.2
      | cons d ds => simp at e
  rw [if_neg hne, rsplitDot_append stem ext h]
  simp [hs]

theorem fileName_snoc (dir : Path) (n : Name) : fileName (dir ++ [.normal n]) = some n := by
  simp [fileName]

theorem withFileName_snoc (dir : Path) (n m : Name) :
    withFileName (dir ++ [.normal n]) m = dir ++ [.normal m] := by
  simp [withFileName, fileName_snoc]


/-! ### the abstract file system -/

@[simp] theorem run_nil (fs : FS) : run fs [] = fs := rfl
@[simp] theorem run_cons (fs : FS) (op : Op) (ops : List Op) : run fs (op :: ops) = run (step fs op) ops := rfl
theorem run_append (fs : FS) (a b : List Op) : run fs (a ++ b) = run (run fs a) b := by
  simp [run, List.foldl_append]

@[simp] theorem set_same (fs : FS) (p : Path) (n : Option Node) : (fs.set p n) p = n := by simp [FS.set]
theorem set_other (fs : FS) {p q : Path} (n : Option Node) (h : q ≠ p) : (fs.set p n) q = fs q := by
  simp [FS.set, h]

theorem crash_nil {fs s : FS} (h : CrashState fs [] s) : s = fs := by
  cases h; rfl

theorem crash_cons {fs s : FS} {op : Op} {rest : List Op} (h : CrashState fs (op :: rest) s) :
    s = fs ∨ (∃ p b n, op = .write p b ∧ s = step fs (.write p (b.take n))) ∨ CrashState (step fs op) rest s := by
  cases h with
  | here => exact .inl rfl
  | partialWrite _ p b rest n => exact .inr (.inl ⟨p, b, n, rfl, rfl⟩)
  | next h => exact .inr (.inr h)

theorem crash_append {a b : List Op} : ∀ {fs s : FS}, CrashState fs (a ++ b) s →
    CrashState fs a s ∨ CrashState (run fs a) b s := by
  induction a with
  | nil => intro fs s h; exact .inr h
  | cons op a ih =>
    intro fs s h
    rcases crash_cons h with rfl | ⟨p, c, n, rfl, rfl⟩ | h'
    · exact .inl (.here _ _)
    · exact .inl (.partialWrite _ _ _ _ _)
    · rcases ih h' with h1 | h2
      · exact .inl (.next h1)
      · exact .inr h2

/-- every prefix of the trace is a crash state … -/
theorem crash_of_prefix {pre t : List Op} (h : pre <+: t) : ∀ fs, CrashState fs t (run fs pre) := by
  obtain ⟨suf, rfl⟩ := h
  induction pre with
  | nil => intro fs; exact .here _ _
  | cons op pre ih => intro fs; exact .next (ih (step fs op))

/-- … in particular the state after the complete run -/
theorem crash_run (fs : FS) (t : List Op) : CrashState fs t (run fs t) :=
  crash_of_prefix (List.prefix_refl t) fs

/-! ### create_dir_all -/

theorem mkdirWalk_spec {fs : FS} : ∀ {qs : List Path} {mk : List Op}, mkdirWalk fs qs = some mk →
    ∀ op ∈ mk, ∃ q ∈ qs, op = .mkdir q ∧ fs q = none := by
  intro qs
  induction qs with
  | nil => intro mk h; simp [mkdirWalk] at h; subst h; simp
  | cons q qs ih =>
    intro mk h op hop
    unfold mkdirWalk at h
    split at h
    · obtain ⟨q', hq', e⟩ := ih h op hop
      exact ⟨q', List.mem_cons_of_mem _ hq', e⟩
    · split at h
      · exact absurd h (by simp)
      · rename_i hnone
        cases hw : mkdirWalk fs qs with
        | none => simp [hw] at h
        | some mk' =>
          simp [hw] at h
          subst h
          rcases List.mem_cons.mp hop with rfl | hop'
          · exact ⟨q, List.mem_cons_self, rfl, hnone⟩
          · obtain ⟨q', hq', e⟩ := ih hw op hop'
            exact ⟨q', List.mem_cons_of_mem _ hq', e⟩

/-- relation between the state `fs` before a `create_dir_all(d)` and any state during/after it -/
def MkRel (d : Path) (fs s : FS) : Prop :=
  ∀ p, s p = fs p ∨ (fs p = none ∧ s p = some .dir ∧ p ∈ prefixes d)

theorem crash_mkdirs {d : Path} {fs0 : FS} : ∀ {mk : List Op},
    (∀ op ∈ mk, ∃ q ∈ prefixes d, op = .mkdir q ∧ fs0 q = none) →
    ∀ {fs s : FS}, MkRel d fs0 fs → CrashState fs mk s → MkRel d fs0 s := by
  intro mk
  induction mk with
  | nil => intro _ fs s hrel h; rw [crash_nil h]; exact hrel
  | cons op mk ih =>
    intro hall fs s hrel h
    obtain ⟨q, hq, rfl, hnone⟩ := hall op List.mem_cons_self
    rcases crash_cons h with rfl | ⟨p, c, n, e, _⟩ | h'
    · exact hrel
    · cases e
    · refine ih (fun op hop => hall op (List.mem_cons_of_mem _ hop)) ?_ h'
      intro p
      by_cases hp : p = q
      · subst hp; exact .inr ⟨hnone, by simp [step], hq⟩
      · simp only [step, set_other _ _ hp]; exact hrel p


theorem crash_mono {a : List Op} (b : List Op) : ∀ {fs s : FS}, CrashState fs a s → CrashState fs (a ++ b) s := by
  induction a with
  | nil => intro fs s h; rw [crash_nil h]; exact .here _ _
  | cons op a ih =>
    intro fs s h
    rcases crash_cons h with rfl | ⟨p, c, n, rfl, rfl⟩ | h'
    · exact .here _ _
    · exact .partialWrite _ _ _ _ _
    · exact .next (ih h')

/-! ### temp file + rename -/

/-- states while `create temp; write; fchmod; rename` runs (including a partially executed `write`):
    only the temp path and — in one step, with the complete content — the destination differ -/
theorem crash_tail4 {s1 s : FS} {t o : Path} {b : Bytes}
    (h : CrashState s1 [.createTemp t, .write t b, .chmod t, .rename t o] s) :
    ∀ p, s p = s1 p ∨ p = t ∨ (p = o ∧ s p = some (.file b)) := by
  intro p
  by_cases hp : p = t
  · exact .inr (.inl hp)
  rcases crash_cons h with rfl | ⟨_, _, _, e, _⟩ | h1
  · exact .inl rfl
  · cases e
  rcases crash_cons h1 with rfl | ⟨p', c, n, e, rfl⟩ | h2
  · exact .inl (by simp [step, FS.set, hp])
  · cases e
    exact .inl (by simp [step, FS.set, hp])
  have e3 : step (step s1 (.createTemp t)) (.write t b) = s1.set t (some (.file b)) := by
    funext q
    by_cases hq : q = t <;> simp [step, FS.set, hq]
  rw [e3] at h2
  rcases crash_cons h2 with rfl | ⟨_, _, _, e, _⟩ | h3
  · exact .inl (by simp [FS.set, hp])
  · cases e
  simp only [step] at h3
  rcases crash_cons h3 with rfl | ⟨_, _, _, e, _⟩ | h4
  · exact .inl (by simp [FS.set, hp])
  · cases e
  have := crash_nil h4
  subst this
  by_cases hto : t = o
  · subst hto
    exact .inl (by simp [step, FS.set, hp])
  · by_cases hpo : p = o
    · exact .inr (.inr ⟨hpo, by simp [step, FS.set, hpo, hto, Ne.symm hto]⟩)
    · exact .inl (by simp [step, FS.set, hp, hpo, hto])

theorem run_tail4 {s1 : FS} {t o : Path} {b : Bytes} (hto : t ≠ o) :
    run s1 [.createTemp t, .write t b, .chmod t, .rename t o] o = some (.file b) ∧
    ∀ p, p ≠ o → p ≠ t → run s1 [.createTemp t, .write t b, .chmod t, .rename t o] p = s1 p := by
  have e3 : step (step s1 (.createTemp t)) (.write t b) = s1.set t (some (.file b)) := by
    funext q
    by_cases hq : q = t <;> simp [step, FS.set, hq]
  simp only [run_cons, run_nil, e3]
  constructor
  · simp [step, FS.set, hto, Ne.symm hto]
  · intro p hpo hpt
    simp [step, FS.set, hto, hpo, hpt]

/-- relation between the state `fs` before one output is (re)written and any state during/after it -/
def JobRel (o : Path) (b : Bytes) (t : Path) (fs s : FS) : Prop :=
  ∀ p, s p = fs p ∨ (fs p = none ∧ s p = some .dir ∧ p ∈ prefixes o.dropLast) ∨ p = t ∨
    (p = o ∧ s p = some (.file b))

theorem parent_eq {o dir : Path} (h : parent o = some dir) : dir = o.dropLast := by
  unfold parent at h
  split at h <;> simp at h <;> exact h.symm

theorem mkdirAll_spec {fs : FS} {d : Path} {mk : List Op} (h : mkdirAll fs d = some mk) :
    ∀ op ∈ mk, ∃ q ∈ prefixes d, op = .mkdir q ∧ fs q = none := mkdirWalk_spec h

theorem mkrel_refl (d : Path) (fs : FS) : MkRel d fs fs := fun _ => .inl rfl

theorem withOutputFile_eq {fs : FS} {nm : Name} {o dir : Path} {b : Bytes} {mk : List Op}
    (hp : parent o = some dir) (hm : mkdirAll fs dir = some mk) :
    withOutputFile fs nm o b =
      if fs (dir ++ [.normal nm]) ≠ none then (mk, .ioTemp)
      else if isDir fs o then
        (mk ++ [.createTemp (dir ++ [.normal nm]), .write (dir ++ [.normal nm]) b, .chmod (dir ++ [.normal nm])], .ioPersist)
      else
        (mk ++ [.createTemp (dir ++ [.normal nm]), .write (dir ++ [.normal nm]) b, .chmod (dir ++ [.normal nm]),
          .rename (dir ++ [.normal nm]) o], .ok) := by
  simp only [withOutputFile, hp, hm]
  split
  · rfl
  · split <;> simp

theorem withOutputFile_crash {fs s : FS} {nm : Name} {o : Path} {b : Bytes}
    (h : CrashState fs (withOutputFile fs nm o b).1 s) :
    JobRel o b (o.dropLast ++ [.normal nm]) fs s := by
  cases hdir : parent o with
  | none => simp only [withOutputFile, hdir] at h; rw [crash_nil h]; exact fun _ => .inl rfl
  | some dir =>
  have hd := parent_eq hdir
  subst hd
  cases hmk : mkdirAll fs o.dropLast with
  | none => simp only [withOutputFile, hdir, hmk] at h; rw [crash_nil h]; exact fun _ => .inl rfl
  | some mk =>
  have hspec := mkdirAll_spec hmk
  rw [withOutputFile_eq hdir hmk] at h
  -- whatever branch: the ops are a prefix of mk ++ [create, write, chmod, rename]
  have hfull : CrashState fs (mk ++ [.createTemp (o.dropLast ++ [.normal nm]), .write (o.dropLast ++ [.normal nm]) b,
      .chmod (o.dropLast ++ [.normal nm]), .rename (o.dropLast ++ [.normal nm]) o]) s := by
    split at h
    · exact crash_mono _ h
    · split at h
      · have := crash_mono [.rename (o.dropLast ++ [.normal nm]) o] h
        simpa using this
      · exact h
  rcases crash_append hfull with h1 | h2
  · intro p
    rcases crash_mkdirs hspec (mkrel_refl _ fs) h1 p with e | e
    · exact .inl e
    · exact .inr (.inl e)
  · intro p
    have hm := crash_mkdirs hspec (mkrel_refl _ fs) (crash_run fs mk) p
    rcases crash_tail4 h2 p with e | e | e
    · rcases hm with e' | e'
      · exact .inl (e.trans e')
      · exact .inr (.inl ⟨e'.1, e.trans e'.2.1, e'.2.2⟩)
    · exact .inr (.inr (.inl e))
    · exact .inr (.inr (.inr e))

theorem writeIfChanged_crash {fs s : FS} {nm : Name} {o : Path} {b : Bytes}
    (h : CrashState fs (writeIfChanged fs nm o b).1 s) :
    JobRel o b (o.dropLast ++ [.normal nm]) fs s := by
  unfold writeIfChanged at h
  split at h
  · rw [crash_nil h]; exact fun _ => .inl rfl
  · exact withOutputFile_crash h


/-! ### whole runs: crash safety -/

/-- the names tempfile gives its files: `.tmp` followed by characters other than `.` (it uses six
    alphanumerics) -/
def IsTempName (n : Name) : Prop := ∃ r, n = ['.', 't', 'm', 'p'] ++ r ∧ '.' ∉ r

/-- every (path, content) a run may write -/
def allOutputs (opts : Options) (srcs : List Source) : List (Path × Bytes) := srcs.flatMap (sourceOutputs opts)

/-- `Safe J fs s`: compared with `fs`, state `s` differs at a path only by (1) the *complete* content of a
    job of `J` for that very path, (2) a temp file next to an output, (3) a directory created on the way
    to an output where nothing existed. -/
def Safe (J : List (Path × Bytes)) (fs s : FS) : Prop :=
  ∀ p, s p = fs p
    ∨ (∃ b, (p, b) ∈ J ∧ s p = some (.file b))
    ∨ (∃ o b nm, (o, b) ∈ J ∧ IsTempName nm ∧ p = o.dropLast ++ [.normal nm])
    ∨ (fs p = none ∧ s p = some .dir ∧ ∃ o b, (o, b) ∈ J ∧ p ∈ prefixes o.dropLast)

theorem safe_refl (J : List (Path × Bytes)) (fs : FS) : Safe J fs fs := fun _ => .inl rfl

theorem safe_step {J : List (Path × Bytes)} {fs0 s0 s : FS} {o : Path} {b : Bytes} {nm : Name}
    (h0 : Safe J fs0 s0) (hj : JobRel o b (o.dropLast ++ [.normal nm]) s0 s) (hmem : (o, b) ∈ J)
    (hnm : IsTempName nm) : Safe J fs0 s := by
  intro p
  rcases hj p with e | ⟨e1, e2, e3⟩ | e | ⟨e1, e2⟩
  · rcases h0 p with h | ⟨b', h1, h2⟩ | h | ⟨h1, h2, h3⟩
    · exact .inl (e.trans h)
    · exact .inr (.inl ⟨b', h1, e.trans h2⟩)
    · exact .inr (.inr (.inl h))
    · exact .inr (.inr (.inr ⟨h1, e.trans h2, h3⟩))
  · rcases h0 p with h | ⟨b', _, h2⟩ | h | ⟨_, h2, _⟩
    · exact .inr (.inr (.inr ⟨h ▸ e1, e2, o, b, hmem, e3⟩))
    · rw [e1] at h2; cases h2
    · exact .inr (.inr (.inl h))
    · rw [e1] at h2; cases h2
  · exact .inr (.inr (.inl ⟨o, b, nm, hmem, hnm, e⟩))
  · exact .inr (.inl ⟨b, e1 ▸ hmem, e2⟩)

theorem file_crash {opts : Options} {tmp : Nat → Name} {J : List (Path × Bytes)} (htmp : ∀ k, IsTempName (tmp k))
    {fs0 fs s : FS} {k : Nat} {src : Source} (hJ : ∀ x ∈ sourceOutputs opts src, x ∈ J)
    (h0 : Safe J fs0 fs) (h : CrashState fs (generateUiFile opts tmp fs k src).1 s) : Safe J fs0 s := by
  unfold generateUiFile at h
  unfold sourceOutputs at hJ
  cases hp : planFile opts src with
  | error st => simp only [hp] at h; rw [crash_nil h]; exact h0
  | ok uh =>
    obtain ⟨u, hh⟩ := uh
    simp only [hp] at h hJ
    have hu : (u.1, u.2) ∈ J := hJ u List.mem_cons_self
    split at h
    · exact safe_step h0 (writeIfChanged_crash h) hu (htmp k)
    · split at h
      · exact safe_step h0 (writeIfChanged_crash h) hu (htmp k)
      · rename_i hnd
        have hhm : (hh.1, hh.2) ∈ J := hJ hh (by simp [hnd])
        rcases crash_append h with h1 | h2
        · exact safe_step h0 (writeIfChanged_crash h1) hu (htmp k)
        · have hmid := safe_step h0 (writeIfChanged_crash (crash_run fs _)) hu (htmp k)
          exact safe_step hmid (writeIfChanged_crash h2) hhm (htmp (k + 1))

theorem loop_crash {opts : Options} {tmp : Nat → Name} {J : List (Path × Bytes)} (htmp : ∀ k, IsTempName (tmp k))
    {fs0 s : FS} : ∀ (srcs : List Source) (fs : FS) (k : Nat) (diag : Bool), (∀ x ∈ allOutputs opts srcs, x ∈ J) →
    Safe J fs0 fs → CrashState fs (generateUiLoop opts tmp fs k diag srcs).1 s → Safe J fs0 s := by
  intro srcs
  induction srcs with
  | nil => intro fs k diag _ h0 h; simp only [generateUiLoop] at h; rw [crash_nil h]; exact h0
  | cons src rest ih =>
    intro fs k diag hJ h0 h
    have hJ1 : ∀ x ∈ sourceOutputs opts src, x ∈ J := fun x hx => hJ x (by simp [allOutputs, hx])
    have hJ2 : ∀ x ∈ allOutputs opts rest, x ∈ J := fun x hx => hJ x (by
      simp only [allOutputs, List.flatMap_cons, List.mem_append]; exact .inr hx)
    simp only [generateUiLoop] at h
    split at h
    · exact file_crash htmp hJ1 h0 h
    · rcases crash_append h with h1 | h2
      · exact file_crash htmp hJ1 h0 h1
      · exact ih _ _ _ hJ2 (file_crash htmp hJ1 h0 (crash_run fs _)) h2

theorem generateUi_crash {opts : Options} {tmp : Nat → Name} (htmp : ∀ k, IsTempName (tmp k))
    {fs s : FS} {srcs : List Source} (h : CrashState fs (generateUi opts tmp fs srcs).1 s) :
    Safe (allOutputs opts srcs) fs s := by
  unfold generateUi at h
  split at h
  · rw [crash_nil h]; exact safe_refl _ _
  · split at h
    · rw [crash_nil h]; exact safe_refl _ _
    · exact loop_crash htmp srcs fs 0 false (fun _ hx => hx) (safe_refl _ _) h


/-! ### output paths end in an output name, which is never a temp name -/

theorem not_temp_of_dot {a r : Name} (ha : a ≠ []) : ¬ IsTempName (a ++ '.' :: r) := by
  rintro ⟨r', e, hr'⟩
  cases a with
  | nil => exact ha rfl
  | cons c a' =>
    simp only [List.cons_append, List.cons.injEq] at e
    have hmem : '.' ∈ a' ++ '.' :: r := by simp
    rw [e.2] at hmem
    simp at hmem
    exact hr' hmem

theorem asciiLower_dot : asciiLower '.' = '.' := by decide

theorem not_temp_uiName (o : Options) {tn : Name} (h : tn ≠ []) : ¬ IsTempName (o.rules.typeNameToUiName tn) := by
  unfold FileNameRules.typeNameToUiName FileNameRules.applyCaseChange
  split
  · rw [List.map_append]
    exact not_temp_of_dot (r := ['u', 'i']) (by simpa using h)
  · exact not_temp_of_dot h

theorem not_temp_hName (o : Options) (tn : Name) :
    ¬ IsTempName (o.rules.typeNameToUiSupportCxxHeaderName tn) := by
  unfold FileNameRules.typeNameToUiSupportCxxHeaderName FileNameRules.applyCaseChange
  split
  · rw [List.map_append, List.map_cons, asciiLower_dot]
    exact not_temp_of_dot (by simp)
  · exact not_temp_of_dot (by simp)

theorem key_append (a b : Path) : key (a ++ b) = key a ++ key b := by simp [key]
theorem key_normal (n : Name) : key [.normal n] = [.normal n] := by simp [key]
theorem key_norm (p : Path) : key (norm p) = key p := by
  cases p with
  | nil => rfl
  | cons c cs => simp [norm, key, List.filter_cons, List.filter_filter]

theorem withFileName_shape (p : Path) (n : Name) : ∃ x, withFileName p n = x ++ [.normal n] ∧ (x = p ∨ x = p.dropLast) := by
  unfold withFileName
  split
  · exact ⟨_, rfl, .inr rfl⟩
  · exact ⟨_, rfl, .inl rfl⟩

theorem key_join_snoc (d x : Path) (n : Name) : ∃ base, key (join d (x ++ [.normal n])) = base ++ [.normal n] := by
  unfold join
  split
  · exact ⟨key x, by rw [key_append, key_normal]⟩
  · exact ⟨key d ++ key x, by rw [key_norm, key_append, key_append, key_normal, List.append_assoc]⟩

theorem outputPaths_shape (opts : Options) (src : Path) (tn : Name) :
    (∃ b1, key (outputPaths opts src tn).1 = b1 ++ [.normal (opts.rules.typeNameToUiName tn)]) ∧
    (∃ b2, key (outputPaths opts src tn).2 = b2 ++ [.normal (opts.rules.typeNameToUiSupportCxxHeaderName tn)]) := by
  obtain ⟨x1, e1, _⟩ := withFileName_shape src (opts.rules.typeNameToUiName tn)
  obtain ⟨x2, e2, _⟩ := withFileName_shape src (opts.rules.typeNameToUiSupportCxxHeaderName tn)
  unfold outputPaths
  cases opts.outputDirectory with
  | none =>
    simp only [e1, e2]
    exact ⟨⟨key x1, by rw [key_append, key_normal]⟩, ⟨key x2, by rw [key_append, key_normal]⟩⟩
  | some d =>
    simp only [e1, e2]
    exact ⟨key_join_snoc d x1 _, key_join_snoc d x2 _⟩

theorem stem_ne_nil_of_ext {n e : Name} (h : (splitFileAtDot n).2 = some e) : (splitFileAtDot n).1 ≠ [] := by
  unfold splitFileAtDot at h ⊢
  split
  · rename_i h2; simp [h2] at h
  · rename_i h2
    simp only [h2, if_false] at h
    split
    · rename_i h3; simp [h3] at h
    · rename_i before after h3
      simp only [h3] at h
      split
      · rename_i h4; simp [h4] at h
      · assumption

theorem stem_ne_nil {p : Path} {tn : Name} (hq : isQmlFile p = true) (hs : fileStem p = some tn) : tn ≠ [] := by
  unfold isQmlFile at hq
  cases he : extension p with
  | none => simp [he] at hq
  | some e =>
    unfold extension at he
    unfold fileStem at hs
    cases hn : fileName p with
    | none => simp [hn] at he
    | some n =>
      simp only [hn, Option.bind_some] at he
      simp only [hn, Option.map_some, Option.some.injEq] at hs
      rw [← hs]
      exact stem_ne_nil_of_ext he

/-- the two planned output paths end in `Normal` names that tempfile can never pick -/
theorem plan_last {opts : Options} {src : Source} {u h : Path × Bytes} (hp : planFile opts src = .ok (u, h)) :
    (∃ base n, u.1 = base ++ [.normal n] ∧ ¬ IsTempName n) ∧ (∃ base n, h.1 = base ++ [.normal n] ∧ ¬ IsTempName n) := by
  unfold planFile at hp
  split at hp
  · cases hp
  · cases hp
  · split at hp <;> cases hp
  · rename_i ui header _
    split at hp
    · rename_i hq
      split at hp
      · rename_i tn hs
        simp only [Except.ok.injEq, Prod.mk.injEq] at hp
        obtain ⟨rfl, rfl⟩ := hp
        obtain ⟨⟨b1, e1⟩, ⟨b2, e2⟩⟩ := outputPaths_shape opts src.path tn
        exact ⟨⟨b1, _, e1, not_temp_uiName opts (stem_ne_nil hq hs)⟩, ⟨b2, _, e2, not_temp_hName opts tn⟩⟩
      · cases hp
    · cases hp

theorem temp_ne_of_last {o base : Path} {n nm : Name} (ho : o = base ++ [.normal n]) (hn : ¬ IsTempName n)
    (hnm : IsTempName nm) : o.dropLast ++ [.normal nm] ≠ o := by
  subst ho
  intro e
  simp at e
  exact hn (e ▸ hnm)


/-! ### re-running -/

theorem writeIfChanged_skip {fs : FS} {nm : Name} {o : Path} {b : Bytes} (h : fs o = some (.file b)) :
    writeIfChanged fs nm o b = ([], .ok) := by
  simp [writeIfChanged, h]

/-- a successful (re)write leaves exactly `b` at `o` and changes no other existing path -/
theorem writeIfChanged_ok {fs : FS} {nm : Name} {o : Path} {b : Bytes}
    (h : (writeIfChanged fs nm o b).2 = .ok) (hne : o.dropLast ++ [.normal nm] ≠ o) :
    run fs (writeIfChanged fs nm o b).1 o = some (.file b) ∧
    ∀ p, p ≠ o → fs p ≠ none → run fs (writeIfChanged fs nm o b).1 p = fs p := by
  unfold writeIfChanged at h ⊢
  split
  · rename_i hsame; exact ⟨hsame, fun _ _ _ => rfl⟩
  rename_i hdiff
  simp only [hdiff, if_false] at h
  cases hdir : parent o with
  | none => simp [withOutputFile, hdir] at h
  | some dir =>
  have hd := parent_eq hdir
  subst hd
  cases hmk : mkdirAll fs o.dropLast with
  | none => simp [withOutputFile, hdir, hmk] at h
  | some mk =>
  have hspec := mkdirAll_spec hmk
  rw [withOutputFile_eq hdir hmk] at h ⊢
  split at h
  · cases h
  rename_i hfresh
  rw [if_neg hfresh]
  split at h
  · cases h
  rename_i hnd
  rw [if_neg hnd]
  simp only [run_append]
  have hm := crash_mkdirs hspec (mkrel_refl _ fs) (crash_run fs mk)
  obtain ⟨r1, r2⟩ := run_tail4 (s1 := run fs mk) (b := b) hne
  refine ⟨r1, fun p hpo hp => ?_⟩
  have hpt : p ≠ o.dropLast ++ [.normal nm] := by
    intro e; subst e; exact hp (by simpa using hfresh)
  rw [r2 p hpo hpt]
  rcases hm p with e | e
  · exact e
  · exact absurd e.1 hp

def NoCollision (J : List (Path × Bytes)) : Prop := ∀ o b b', (o, b) ∈ J → (o, b') ∈ J → b = b'

def _root_.QV.Model.Cli.Status.isIo : Status → Bool
  | .invalidFileName | .ioMkdir | .ioTemp | .ioPersist => true
  | _ => false

/-- the outputs of the sources a run gets to: a source that ends in diagnostics is skipped, any other
    untranslated source (not loaded, unreadable) ends the run -/
def execOutputs (opts : Options) : List Source → List (Path × Bytes)
  | [] => []
  | s :: rest =>
    match planFile opts s with
    | .ok _ => sourceOutputs opts s ++ execOutputs opts rest
    | .error .diagnostic => execOutputs opts rest
    | .error _ => []

theorem planFile_error_ne_ok {opts : Options} {src : Source} {st : Status} (h : planFile opts src = .error st) :
    st ≠ .ok ∧ st.isIo = false := by
  unfold planFile at h
  split at h
  · cases h; exact ⟨by decide, rfl⟩
  · cases h; exact ⟨by decide, rfl⟩
  · split at h <;> cases h <;> exact ⟨by decide, rfl⟩
  · split at h
    · split at h
      · cases h
      · cases h; exact ⟨by decide, rfl⟩
    · cases h; exact ⟨by decide, rfl⟩

/-- preservation by one compare-then-write: a path holding `c` keeps it unless this job targets it with
    another content -/
theorem writeIfChanged_preserves {fs : FS} {nm : Name} {o : Path} {b : Bytes}
    (h : (writeIfChanged fs nm o b).2 = .ok) (hne : o.dropLast ++ [.normal nm] ≠ o)
    {p : Path} {c : Bytes} (hp : fs p = some (.file c)) (hsame : p = o → b = c) :
    run fs (writeIfChanged fs nm o b).1 p = some (.file c) := by
  by_cases hpo : p = o
  · subst hpo
    have := hsame rfl
    subst this
    rw [writeIfChanged_skip hp]; exact hp
  · rw [(writeIfChanged_ok h hne).2 p hpo (by simp [hp])]; exact hp

theorem file_rerun {opts : Options} {tmp : Nat → Name} (htmp : ∀ k, IsTempName (tmp k)) {fs : FS} {k : Nat}
    {src : Source} (hok : (generateUiFile opts tmp fs k src).2.2 = .ok)
    (hnc : NoCollision (sourceOutputs opts src)) :
    (∀ x ∈ sourceOutputs opts src, run fs (generateUiFile opts tmp fs k src).1 x.1 = some (.file x.2)) ∧
    (∀ p c, fs p = some (.file c) → (∀ b, (p, b) ∈ sourceOutputs opts src → b = c) →
      run fs (generateUiFile opts tmp fs k src).1 p = some (.file c)) := by
  unfold generateUiFile at hok ⊢
  unfold sourceOutputs at hnc ⊢
  cases hp : planFile opts src with
  | error st => simp only [hp] at hok; exact absurd hok (planFile_error_ne_ok hp).1
  | ok uh =>
    obtain ⟨u, hh⟩ := uh
    obtain ⟨⟨bu, nu, eu, tu⟩, ⟨bh, nh, eh, th⟩⟩ := plan_last hp
    have hne1 := temp_ne_of_last eu tu (htmp k)
    have hne2 := temp_ne_of_last eh th (htmp (k + 1))
    simp only [hp] at hok hnc ⊢
    by_cases h1 : (writeIfChanged fs (tmp k) u.1 u.2).2 = .ok
    · simp only [h1, ne_eq, not_true_eq_false, if_false] at hok ⊢
      cases hnd : opts.noDynamicBinding
      case true =>
        simp only [hnd, if_true] at hnc ⊢
        constructor
        · intro x hx
          simp at hx; subst hx
          exact (writeIfChanged_ok h1 hne1).1
        · intro p c hpc hall
          exact writeIfChanged_preserves h1 hne1 hpc (fun e => hall u.2 (by simp [e]))
      case false =>
        simp only [hnd, Bool.false_eq_true, if_false] at hok hnc ⊢
        simp only [run_append]
        constructor
        · intro x hx
          simp only [List.mem_cons, List.not_mem_nil, or_false] at hx
          rcases hx with rfl | rfl
          · refine writeIfChanged_preserves hok hne2 (writeIfChanged_ok h1 hne1).1 ?_
            intro e
            exact hnc x.1 hh.2 x.2 (by simp [e]) (by simp)
          · exact (writeIfChanged_ok hok hne2).1
        · intro p c hpc hall
          refine writeIfChanged_preserves hok hne2 (writeIfChanged_preserves h1 hne1 hpc ?_) ?_
          · intro e; exact hall u.2 (by simp [e])
          · intro e; exact hall hh.2 (by simp [e])
    · simp only [ne_eq, h1, not_false_eq_true, if_true] at hok


theorem writeIfChanged_status (fs : FS) (nm : Name) (o : Path) (b : Bytes) :
    (writeIfChanged fs nm o b).2 = .ok ∨ (writeIfChanged fs nm o b).2.isIo = true := by
  unfold writeIfChanged
  split
  · exact .inl rfl
  cases hdir : parent o with
  | none => simp [withOutputFile, hdir, Status.isIo]
  | some dir =>
  cases hmk : mkdirAll fs dir with
  | none => simp [withOutputFile, hdir, hmk, Status.isIo]
  | some mk =>
  rw [withOutputFile_eq hdir hmk]
  split
  · exact .inr rfl
  · split
    · exact .inr rfl
    · exact .inl rfl

theorem generateUiFile_error {opts : Options} {tmp : Nat → Name} {fs : FS} {k : Nat} {src : Source} {st : Status}
    (h : planFile opts src = .error st) : generateUiFile opts tmp fs k src = ([], k, st) := by
  simp [generateUiFile, h]

theorem file_status {opts : Options} {tmp : Nat → Name} {fs : FS} {k : Nat} {src : Source}
    {uh : (Path × Bytes) × (Path × Bytes)} (h : planFile opts src = .ok uh) :
    (generateUiFile opts tmp fs k src).2.2 = .ok ∨ (generateUiFile opts tmp fs k src).2.2.isIo = true := by
  obtain ⟨u, hh⟩ := uh
  simp only [generateUiFile, h]
  split
  · rename_i h1
    rcases writeIfChanged_status fs (tmp k) u.1 u.2 with e | e
    · exact absurd e h1
    · exact .inr e
  · split
    · exact .inl rfl
    · exact writeIfChanged_status _ _ _ _

theorem file_noop {opts : Options} {tmp : Nat → Name} {s : FS} {k : Nat} {src : Source}
    {uh : (Path × Bytes) × (Path × Bytes)} (h : planFile opts src = .ok uh)
    (hold : ∀ x ∈ sourceOutputs opts src, s x.1 = some (.file x.2)) :
    (generateUiFile opts tmp s k src).1 = [] ∧ (generateUiFile opts tmp s k src).2.2 = .ok := by
  obtain ⟨u, hh⟩ := uh
  simp only [sourceOutputs, h] at hold
  have hu := writeIfChanged_skip (nm := tmp k) (hold u List.mem_cons_self)
  simp only [generateUiFile, h, hu]
  cases hnd : opts.noDynamicBinding
  case true => simp
  case false =>
    have hh' := writeIfChanged_skip (nm := tmp (k + 1)) (hold hh (by simp [hnd]))
    simp [hh']

theorem execOutputs_cons_ok {opts : Options} {src : Source} {rest : List Source}
    {uh : (Path × Bytes) × (Path × Bytes)} (h : planFile opts src = .ok uh) :
    execOutputs opts (src :: rest) = sourceOutputs opts src ++ execOutputs opts rest := by
  simp [execOutputs, h]

theorem execOutputs_cons_diag {opts : Options} {src : Source} {rest : List Source}
    (h : planFile opts src = .error .diagnostic) : execOutputs opts (src :: rest) = execOutputs opts rest := by
  simp [execOutputs, h]

theorem execOutputs_cons_error {opts : Options} {src : Source} {rest : List Source} {st : Status}
    (h : planFile opts src = .error st) (hne : st ≠ .diagnostic) : execOutputs opts (src :: rest) = [] := by
  cases st <;> first | exact absurd rfl hne | simp [execOutputs, h]

theorem loop_rerun_establish {opts : Options} {tmp : Nat → Name} (htmp : ∀ k, IsTempName (tmp k)) :
    ∀ (srcs : List Source) (fs : FS) (k : Nat) (diag : Bool),
    (generateUiLoop opts tmp fs k diag srcs).2.isIo = false → NoCollision (execOutputs opts srcs) →
    (∀ x ∈ execOutputs opts srcs, run fs (generateUiLoop opts tmp fs k diag srcs).1 x.1 = some (.file x.2)) ∧
    (∀ p c, fs p = some (.file c) → (∀ b, (p, b) ∈ execOutputs opts srcs → b = c) →
      run fs (generateUiLoop opts tmp fs k diag srcs).1 p = some (.file c)) := by
  intro srcs
  induction srcs with
  | nil => intro fs k diag _ _; simp [generateUiLoop, execOutputs]
  | cons src rest ih =>
    intro fs k diag hio hnc
    cases hp : planFile opts src with
    | error st =>
      have hst := planFile_error_ne_ok hp
      by_cases hd : st = .diagnostic
      · subst hd
        rw [execOutputs_cons_diag hp] at hnc ⊢
        simp only [generateUiLoop, generateUiFile_error hp] at hio ⊢
        simp only [ne_eq, not_true_eq_false, and_false, if_false, run_nil, List.nil_append] at hio ⊢
        exact ih fs k _ hio hnc
      · simp only [generateUiLoop, generateUiFile_error hp, execOutputs_cons_error hp hd]
        simp [hst.1, hd]
    | ok uh =>
      rw [execOutputs_cons_ok hp] at hnc ⊢
      simp only [generateUiLoop] at hio ⊢
      by_cases hr : (generateUiFile opts tmp fs k src).2.2 = .ok
      · simp only [hr, ne_eq, not_true_eq_false, false_and, if_false] at hio ⊢
        have hnc1 : NoCollision (sourceOutputs opts src) :=
          fun o b b' h1 h2 => hnc o b b' (List.mem_append_left _ h1) (List.mem_append_left _ h2)
        have hnc2 : NoCollision (execOutputs opts rest) :=
          fun o b b' h1 h2 => hnc o b b' (List.mem_append_right _ h1) (List.mem_append_right _ h2)
        obtain ⟨f1, f2⟩ := file_rerun htmp hr hnc1
        obtain ⟨i1, i2⟩ := ih (run fs (generateUiFile opts tmp fs k src).1) (generateUiFile opts tmp fs k src).2.1 _ hio hnc2
        simp only [run_append]
        constructor
        · intro x hx
          rcases List.mem_append.mp hx with hx | hx
          · refine i2 x.1 x.2 (f1 x hx) ?_
            intro b hb
            exact (hnc x.1 x.2 b (List.mem_append_left _ hx) (List.mem_append_right _ hb)).symm
          · exact i1 x hx
        · intro p c hpc hall
          refine i2 p c (f2 p c hpc fun b hb => hall b (List.mem_append_left _ hb)) ?_
          intro b hb
          exact hall b (List.mem_append_right _ hb)
      · rcases file_status (tmp := tmp) (fs := fs) (k := k) hp with e | e
        · exact absurd e hr
        · have hnd : (generateUiFile opts tmp fs k src).2.2 ≠ .diagnostic := by
            intro e'; rw [e'] at e; cases e
          simp only [ne_eq, hr, hnd, not_false_eq_true, and_self, if_true] at hio
          rw [e] at hio; cases hio

theorem loop_rerun_noop {opts : Options} {tmp tmp' : Nat → Name} :
    ∀ (srcs : List Source) (fs : FS) (k : Nat) (diag : Bool) (s : FS) (k' : Nat),
    (generateUiLoop opts tmp fs k diag srcs).2.isIo = false →
    (∀ x ∈ execOutputs opts srcs, s x.1 = some (.file x.2)) →
    generateUiLoop opts tmp' s k' diag srcs = ([], (generateUiLoop opts tmp fs k diag srcs).2) := by
  intro srcs
  induction srcs with
  | nil => intro fs k diag s k' _ _; simp [generateUiLoop]
  | cons src rest ih =>
    intro fs k diag s k' hio hold
    cases hp : planFile opts src with
    | error st =>
      have hst := planFile_error_ne_ok hp
      by_cases hd : st = .diagnostic
      · subst hd
        rw [execOutputs_cons_diag hp] at hold
        simp only [generateUiLoop, generateUiFile_error hp] at hio ⊢
        simp only [ne_eq, not_true_eq_false, and_false, if_false, run_nil, List.nil_append] at hio ⊢
        rw [ih fs k _ s k' hio hold]
      · simp only [generateUiLoop, generateUiFile_error hp]
        simp [hst.1, hd]
    | ok uh =>
      rw [execOutputs_cons_ok hp] at hold
      simp only [generateUiLoop] at hio ⊢
      by_cases hr : (generateUiFile opts tmp fs k src).2.2 = .ok
      · simp only [hr, ne_eq, not_true_eq_false, false_and, if_false] at hio ⊢
        obtain ⟨n1, n2⟩ := file_noop (tmp := tmp') (k := k') hp (fun x hx => hold x (List.mem_append_left _ hx))
        simp only [n1, n2, not_true_eq_false, false_and, if_false, run_nil, List.nil_append]
        rw [ih _ _ _ s _ hio (fun x hx => hold x (List.mem_append_right _ hx))]
      · rcases file_status (tmp := tmp) (fs := fs) (k := k) hp with e | e
        · exact absurd e hr
        · have hnd : (generateUiFile opts tmp fs k src).2.2 ≠ .diagnostic := by
            intro e'; rw [e'] at e; cases e
          simp only [ne_eq, hr, hnd, not_false_eq_true, and_self, if_true] at hio
          rw [e] at hio; cases hio

theorem generateUi_rerun {opts : Options} {tmp tmp' : Nat → Name} (htmp : ∀ k, IsTempName (tmp k)) {fs : FS}
    {srcs : List Source} (hio : (generateUi opts tmp fs srcs).2.isIo = false)
    (hnc : NoCollision (execOutputs opts srcs)) :
    generateUi opts tmp' (run fs (generateUi opts tmp fs srcs).1) srcs = ([], (generateUi opts tmp fs srcs).2) := by
  unfold generateUi at hio ⊢
  split
  · rfl
  · split
    · rfl
    · rename_i h1 h2
      simp only [h1, h2] at hio
      have hest := (loop_rerun_establish htmp srcs fs 0 false hio hnc).1
      exact loop_rerun_noop srcs fs 0 false _ 0 hio hest


/-! ### where ops may point -/

/-- `OpFor o op`: `op` belongs to the (re)writing of output `o`: it creates an ancestor directory of `o`,
    or touches only `o` itself and one sibling (the temp file) -/
def OpFor (o : Path) (op : Op) : Prop :=
  (∃ q ∈ prefixes o.dropLast, op = .mkdir q) ∨ ∃ nm, ∀ p ∈ op.targets, p = o ∨ p = o.dropLast ++ [.normal nm]

theorem writeIfChanged_ops {fs : FS} {nm : Name} {o : Path} {b : Bytes} :
    ∀ op ∈ (writeIfChanged fs nm o b).1, OpFor o op := by
  intro op hop
  unfold writeIfChanged at hop
  split at hop
  · cases hop
  cases hdir : parent o with
  | none => simp [withOutputFile, hdir] at hop
  | some dir =>
  have hd := parent_eq hdir
  subst hd
  cases hmk : mkdirAll fs o.dropLast with
  | none => simp [withOutputFile, hdir, hmk] at hop
  | some mk =>
  have hspec := mkdirAll_spec hmk
  rw [withOutputFile_eq hdir hmk] at hop
  have hfull : op ∈ mk ++ [.createTemp (o.dropLast ++ [.normal nm]), .write (o.dropLast ++ [.normal nm]) b,
      .chmod (o.dropLast ++ [.normal nm]), .rename (o.dropLast ++ [.normal nm]) o] := by
    split at hop
    · exact List.mem_append_left _ hop
    · split at hop
      · simp only [List.mem_append] at hop ⊢
        rcases hop with h | h
        · exact .inl h
        · exact .inr (by simp at h ⊢; rcases h with h | h | h <;> simp [h])
      · exact hop
  rcases List.mem_append.mp hfull with h | h
  · obtain ⟨q, hq, e, _⟩ := hspec op h
    exact .inl ⟨q, hq, e⟩
  · refine .inr ⟨nm, ?_⟩
    simp only [List.mem_cons, List.not_mem_nil, or_false] at h
    rcases h with rfl | rfl | rfl | rfl <;> simp [Op.targets]

theorem file_ops {opts : Options} {tmp : Nat → Name} {fs : FS} {k : Nat} {src : Source} :
    ∀ op ∈ (generateUiFile opts tmp fs k src).1, ∃ x ∈ sourceOutputs opts src, OpFor x.1 op := by
  intro op hop
  unfold generateUiFile at hop
  unfold sourceOutputs
  cases hp : planFile opts src with
  | error st => simp [hp] at hop
  | ok uh =>
    obtain ⟨u, hh⟩ := uh
    simp only [hp] at hop ⊢
    split at hop
    · exact ⟨u, List.mem_cons_self, writeIfChanged_ops op hop⟩
    · split at hop
      · exact ⟨u, List.mem_cons_self, writeIfChanged_ops op hop⟩
      · rename_i hnd
        rcases List.mem_append.mp hop with h | h
        · exact ⟨u, List.mem_cons_self, writeIfChanged_ops op h⟩
        · exact ⟨hh, by simp [hnd], writeIfChanged_ops op h⟩

theorem loop_ops {opts : Options} {tmp : Nat → Name} : ∀ (srcs : List Source) (fs : FS) (k : Nat) (diag : Bool),
    ∀ op ∈ (generateUiLoop opts tmp fs k diag srcs).1, ∃ src ∈ srcs, ∃ x ∈ sourceOutputs opts src, OpFor x.1 op := by
  intro srcs
  induction srcs with
  | nil => intro fs k diag op hop; simp [generateUiLoop] at hop
  | cons src rest ih =>
    intro fs k diag op hop
    simp only [generateUiLoop] at hop
    split at hop
    · obtain ⟨x, hx, h⟩ := file_ops op hop
      exact ⟨src, List.mem_cons_self, x, hx, h⟩
    · rcases List.mem_append.mp hop with h | h
      · obtain ⟨x, hx, h⟩ := file_ops op h
        exact ⟨src, List.mem_cons_self, x, hx, h⟩
      · obtain ⟨s', hs', x, hx, h⟩ := ih _ _ _ op h
        exact ⟨s', List.mem_cons_of_mem _ hs', x, hx, h⟩

theorem generateUi_ops {opts : Options} {tmp : Nat → Name} {fs : FS} {srcs : List Source} :
    ∀ op ∈ (generateUi opts tmp fs srcs).1, refuses opts (srcs.map (·.path)) = false ∧
      ∃ src ∈ srcs, ∃ x ∈ sourceOutputs opts src, OpFor x.1 op := by
  intro op hop
  unfold generateUi at hop
  split at hop
  · cases hop
  · rename_i href
    split at hop
    · cases hop
    · exact ⟨by simpa using href, loop_ops srcs fs 0 false op hop⟩

def AllNormal (l : Path) : Prop := ∀ c ∈ l, ∃ n, c = .normal n

theorem key_accepted {x : Path} (h : x.all acceptedComponent = true) : AllNormal (key x) := by
  intro c hc
  simp only [key, List.mem_filter] at hc
  have := List.all_eq_true.mp h c hc.1
  cases c with
  | normal n => exact ⟨n, rfl⟩
  | curDir => simp at hc
  | rootDir => simp [acceptedComponent] at this
  | parentDir => simp [acceptedComponent] at this

theorem hasRoot_snoc_accepted {x : Path} (n : Name) (h : x.all acceptedComponent = true) :
    hasRoot (x ++ [.normal n]) = false := by
  cases x with
  | nil => simp [hasRoot]
  | cons c cs =>
    have := List.all_eq_true.mp h c List.mem_cons_self
    cases c <;> simp [hasRoot, acceptedComponent] at this ⊢

theorem all_dropLast {x : Path} (h : x.all acceptedComponent = true) : x.dropLast.all acceptedComponent = true := by
  apply List.all_eq_true.mpr
  intro c hc
  exact List.all_eq_true.mp h c (List.dropLast_subset x hc)

theorem join_inside (d src : Path) (n : Name) (h : src.all acceptedComponent = true) :
    ∃ r, key (join d (withFileName src n)) = key d ++ r ∧ AllNormal r ∧ r ≠ [] := by
  obtain ⟨x, e, hx⟩ := withFileName_shape src n
  have hxa : x.all acceptedComponent = true := by
    rcases hx with rfl | rfl
    · exact h
    · exact all_dropLast h
  rw [e]
  unfold join
  rw [hasRoot_snoc_accepted n hxa]
  simp only [Bool.false_eq_true, if_false]
  refine ⟨key x ++ [.normal n], by rw [key_norm, key_append, key_append, key_normal], ?_, by simp⟩
  intro c hc
  rcases List.mem_append.mp hc with hc | hc
  · exact key_accepted hxa c hc
  · simp at hc; exact ⟨n, hc⟩

theorem plan_inside {opts : Options} {d : Path} (hd : opts.outputDirectory = some d) {src : Source}
    (hacc : src.path.all acceptedComponent = true) :
    ∀ x ∈ sourceOutputs opts src, ∃ r, x.1 = key d ++ r ∧ AllNormal r ∧ r ≠ [] := by
  intro x hx
  unfold sourceOutputs at hx
  cases hp : planFile opts src with
  | error st => simp [hp] at hx
  | ok uh =>
    obtain ⟨u, hh⟩ := uh
    have hboth : (∃ r, u.1 = key d ++ r ∧ AllNormal r ∧ r ≠ []) ∧ (∃ r, hh.1 = key d ++ r ∧ AllNormal r ∧ r ≠ []) := by
      unfold planFile at hp
      split at hp
      · cases hp
      · cases hp
      · split at hp <;> cases hp
      · split at hp
        · split at hp
          · rename_i tn _
            simp only [Except.ok.injEq, Prod.mk.injEq] at hp
            obtain ⟨rfl, rfl⟩ := hp
            simp only [outputPaths, hd]
            exact ⟨join_inside d _ _ hacc, join_inside d _ _ hacc⟩
          · cases hp
        · cases hp
    simp only [hp] at hx
    rcases List.mem_cons.mp hx with rfl | hx
    · exact hboth.1
    · split at hx
      · cases hx
      · simp at hx; subst hx; exact hboth.2

theorem refuses_false {opts : Options} {d : Path} (hd : opts.outputDirectory = some d) {ps : List Path}
    (h : refuses opts ps = false) : ∀ p ∈ ps, p.all acceptedComponent = true := by
  intro p hp
  simp only [refuses, hd, Option.isSome_some, Bool.true_and, List.any_eq_false] at h
  simpa using h p hp

theorem allNormal_sub {a b : Path} (h : AllNormal b) (hs : ∀ c ∈ a, c ∈ b) : AllNormal a := fun c hc => h c (hs c hc)

/-- the targets of an op belonging to output `D ++ r` (r all `Normal`, non-empty) -/
theorem opFor_inside {D r : Path} (hr : AllNormal r) (hne : r ≠ []) {op : Op} (h : OpFor (D ++ r) op) :
    ∀ p ∈ op.targets, (∃ rest, p = D ++ rest ∧ AllNormal rest ∧ rest ≠ []) ∨ ((∃ q, op = .mkdir q) ∧ p <+: D) := by
  have hdl : (D ++ r).dropLast = D ++ r.dropLast := List.dropLast_append_of_ne_nil hne
  have hrd : AllNormal r.dropLast := allNormal_sub hr (fun c hc => List.dropLast_subset r hc)
  intro p hp
  rcases h with ⟨q, hq, rfl⟩ | ⟨nm, h⟩
  · simp only [Op.targets, List.mem_singleton] at hp
    subst hp
    rw [hdl] at hq
    simp only [prefixes, List.mem_map, List.mem_range] at hq
    obtain ⟨i, _, rfl⟩ := hq
    rw [List.take_append]
    by_cases hi : i + 1 ≤ D.length
    · right
      refine ⟨⟨_, rfl⟩, ?_⟩
      have : i + 1 - D.length = 0 := by omega
      rw [this, List.take_zero, List.append_nil]
      exact List.take_prefix _ _
    · have hD : List.take (i + 1) D = D := List.take_of_length_le (by omega)
      rw [hD]
      by_cases hnil : List.take (i + 1 - D.length) r.dropLast = []
      · right
        rw [hnil, List.append_nil]
        exact ⟨⟨_, rfl⟩, List.prefix_refl _⟩
      · left
        exact ⟨_, rfl, allNormal_sub hrd (fun c hc => List.mem_of_mem_take hc), hnil⟩
  · left
    rcases h p hp with rfl | rfl
    · exact ⟨r, rfl, hr, hne⟩
    · rw [hdl, List.append_assoc]
      refine ⟨_, rfl, ?_, by simp⟩
      intro c hc
      rcases List.mem_append.mp hc with hc | hc
      · exact hrd c hc
      · simp at hc; exact ⟨nm, hc⟩

/-! ### which path texts are refused -/

theorem splitSlash_ne_nil (s : List Char) : splitSlash s ≠ [] := by
  induction s with
  | nil => simp [splitSlash]
  | cons c cs ih =>
    unfold splitSlash
    split
    · simp
    · split <;> simp

theorem compOf_accepted (seg : Name) :
    (compOf seg).toList.all acceptedComponent = !(seg == ['.', '.']) := by
  unfold compOf
  by_cases h1 : seg = []
  · subst h1; rfl
  by_cases h2 : seg = ['.']
  · subst h2; rfl
  by_cases h3 : seg = ['.', '.']
  · subst h3; rfl
  · simp [h1, h2, h3, acceptedComponent]

theorem filterMap_compOf_accepted (l : List Name) :
    (l.filterMap compOf).all acceptedComponent = !l.contains ['.', '.'] := by
  induction l with
  | nil => rfl
  | cons seg rest ih =>
    have h := compOf_accepted seg
    have hcomm : (['.', '.'] == seg) = (seg == ['.', '.']) := BEq.comm
    rw [List.contains_cons, hcomm, Bool.not_or, ← ih, ← h]
    cases hc : compOf seg with
    | none => rw [List.filterMap_cons_none hc]; simp
    | some c => rw [List.filterMap_cons_some hc]; simp


theorem parse_accepted (s : List Char) : (parsePath s).all acceptedComponent = !specRefused s := by
  unfold parsePath specRefused
  by_cases h : s.head? = some '/'
  · simp [h, acceptedComponent]
  · have hb : (s.head? == some '/') = false := by simpa using h
    rw [if_neg h, hb, Bool.false_or]
    cases hsp : splitSlash s with
    | nil => exact absurd hsp (splitSlash_ne_nil s)
    | cons first rest =>
      have hcomm : (['.', '.'] == first) = (first == ['.', '.']) := BEq.comm
      simp only []
      rw [List.all_append, filterMap_compOf_accepted, List.contains_cons, hcomm, Bool.not_or]
      congr 1
      by_cases hf : first = ['.']
      · subst hf; rfl
      · rw [if_neg hf]; exact compOf_accepted first

/-! ### the planned outputs of a `.qml` source -/

theorem planFile_qml (opts : Options) (dir : Path) (stem ext : Name) (hs : stem ≠ []) (hdot : '.' ∉ ext)
    (hq : ext.map asciiLower = ['q', 'm', 'l']) (ui header : Bytes) :
    planFile opts ⟨dir ++ [.normal (stem ++ '.' :: ext)], .ok ui header⟩ =
      .ok ((key (outputPaths opts (dir ++ [.normal (stem ++ '.' :: ext)]) stem).1, ui),
           (key (outputPaths opts (dir ++ [.normal (stem ++ '.' :: ext)]) stem).2, header)) := by
  have he : ext ≠ [] := by intro e; subst e; simp at hq
  have hsplit := splitFileAtDot_append stem ext hs hdot he
  have hstem : fileStem (dir ++ [.normal (stem ++ '.' :: ext)]) = some stem := by
    simp [fileStem, fileName_snoc, hsplit]
  have hext : extension (dir ++ [.normal (stem ++ '.' :: ext)]) = some ext := by
    simp [extension, fileName_snoc, hsplit]
  have hqml : isQmlFile (dir ++ [.normal (stem ++ '.' :: ext)]) = true := by
    simp [isQmlFile, hext, hq]
  simp only [planFile, hqml, hstem, if_true]

theorem place_inside (d dir : Path) (n : Name) (h : dir.all acceptedComponent = true) :
    key (join d (dir ++ [.normal n])) = key d ++ key dir ++ [.normal n] := by
  unfold join
  rw [hasRoot_snoc_accepted n h]
  simp only [Bool.false_eq_true, if_false]
  rw [key_norm, key_append, key_append, key_normal, List.append_assoc]

/-! ### what a run leaves alone ("only when needed", "nothing else is written") -/

/-- one compare-then-write of `o'` targets no path that exists already, other than `o'` itself:
    `mkdir` only where nothing is, the temp name only if it is free (`O_EXCL`) -/
theorem writeIfChanged_avoids {fs : FS} {nm : Name} {o' : Path} {b' : Bytes} {p : Path}
    (hp : fs p ≠ none) (hne : p ≠ o') :
    ∀ op ∈ (writeIfChanged fs nm o' b').1, p ∉ op.targets := by
  intro op hop
  unfold writeIfChanged at hop
  split at hop
  · cases hop
  cases hdir : parent o' with
  | none => simp [withOutputFile, hdir] at hop
  | some dir =>
  have hd := parent_eq hdir
  subst hd
  cases hmk : mkdirAll fs o'.dropLast with
  | none => simp [withOutputFile, hdir, hmk] at hop
  | some mk =>
  have hspec := mkdirAll_spec hmk
  rw [withOutputFile_eq hdir hmk] at hop
  have hmkop : ∀ op ∈ mk, p ∉ op.targets := by
    intro op h
    obtain ⟨q, _, e, hnone⟩ := hspec op h
    subst e
    simp only [Op.targets, List.mem_singleton]
    intro e; subst e; exact hp hnone
  split at hop
  · exact hmkop op hop
  · rename_i hfresh
    have hfree : fs (o'.dropLast ++ [.normal nm]) = none := by simpa using hfresh
    have hpt : p ≠ o'.dropLast ++ [.normal nm] := by
      intro e; subst e; exact hp hfree
    split at hop
    · rcases List.mem_append.mp hop with h | h
      · exact hmkop op h
      · simp only [List.mem_cons, List.not_mem_nil, or_false] at h
        rcases h with rfl | rfl | rfl <;> simp [Op.targets, hpt]
    · rcases List.mem_append.mp hop with h | h
      · exact hmkop op h
      · simp only [List.mem_cons, List.not_mem_nil, or_false] at h
        rcases h with rfl | rfl | rfl | rfl <;> simp [Op.targets, hpt, hne]

/-- … and none at all if `o'` already holds the content -/
theorem writeIfChanged_avoids' {fs : FS} {nm : Name} {o' : Path} {b' : Bytes} {p : Path} {c : Bytes}
    (hp : fs p = some (.file c)) (hsame : p = o' → b' = c) :
    ∀ op ∈ (writeIfChanged fs nm o' b').1, p ∉ op.targets := by
  by_cases hpo : p = o'
  · subst hpo
    have := hsame rfl
    subst this
    rw [writeIfChanged_skip hp]
    intro op hop; cases hop
  · exact writeIfChanged_avoids (by simp [hp]) hpo

theorem file_avoids {opts : Options} {tmp : Nat → Name} (htmp : ∀ k, IsTempName (tmp k)) {fs : FS} {k : Nat}
    {src : Source} {p : Path} {c : Bytes} (hp : fs p = some (.file c))
    (hall : ∀ b, (p, b) ∈ sourceOutputs opts src → b = c) :
    ∀ op ∈ (generateUiFile opts tmp fs k src).1, p ∉ op.targets := by
  intro op hop
  unfold generateUiFile at hop
  unfold sourceOutputs at hall
  cases hpl : planFile opts src with
  | error st => simp [hpl] at hop
  | ok uh =>
    obtain ⟨u, hh⟩ := uh
    obtain ⟨⟨bu, nu, eu, tu⟩, _⟩ := plan_last hpl
    have hne1 := temp_ne_of_last eu tu (htmp k)
    simp only [hpl] at hop hall
    have h1 : ∀ op ∈ (writeIfChanged fs (tmp k) u.1 u.2).1, p ∉ op.targets :=
      writeIfChanged_avoids' hp (fun e => hall u.2 (by simp [e]))
    split at hop
    · exact h1 op hop
    · rename_i hok1
      have hok1' : (writeIfChanged fs (tmp k) u.1 u.2).2 = .ok := by simpa using hok1
      split at hop
      · exact h1 op hop
      · rename_i hnd
        rcases List.mem_append.mp hop with h | h
        · exact h1 op h
        · have hp' := writeIfChanged_preserves hok1' hne1 hp (fun e => hall u.2 (by simp [e]))
          exact writeIfChanged_avoids' hp' (fun e => hall hh.2 (by simp [hnd, e])) op h

theorem loop_avoids {opts : Options} {tmp : Nat → Name} (htmp : ∀ k, IsTempName (tmp k)) :
    ∀ (srcs : List Source) (fs : FS) (k : Nat) (diag : Bool), NoCollision (execOutputs opts srcs) →
    ∀ (p : Path) (c : Bytes), fs p = some (.file c) → (∀ b, (p, b) ∈ execOutputs opts srcs → b = c) →
    ∀ op ∈ (generateUiLoop opts tmp fs k diag srcs).1, p ∉ op.targets := by
  intro srcs
  induction srcs with
  | nil => intro fs k diag _ p c _ _ op hop; simp [generateUiLoop] at hop
  | cons src rest ih =>
    intro fs k diag hnc p c hp hall op hop
    cases hpl : planFile opts src with
    | error st =>
      have hst := planFile_error_ne_ok hpl
      simp only [generateUiLoop, generateUiFile_error hpl] at hop
      by_cases hd : st = .diagnostic
      · subst hd
        rw [execOutputs_cons_diag hpl] at hnc hall
        simp only [ne_eq, not_true_eq_false, and_false, if_false, run_nil, List.nil_append] at hop
        exact ih fs k _ hnc p c hp hall op hop
      · simp [hst.1, hd] at hop
    | ok uh =>
      rw [execOutputs_cons_ok hpl] at hnc hall
      have hnc1 : NoCollision (sourceOutputs opts src) :=
        fun o b b' h1 h2 => hnc o b b' (List.mem_append_left _ h1) (List.mem_append_left _ h2)
      have hnc2 : NoCollision (execOutputs opts rest) :=
        fun o b b' h1 h2 => hnc o b b' (List.mem_append_right _ h1) (List.mem_append_right _ h2)
      have hall1 : ∀ b, (p, b) ∈ sourceOutputs opts src → b = c := fun b hb => hall b (List.mem_append_left _ hb)
      have hfile := file_avoids htmp (k := k) hp hall1
      simp only [generateUiLoop] at hop
      split at hop
      · exact hfile op hop
      · rename_i hcont
        rcases List.mem_append.mp hop with h | h
        · exact hfile op h
        · by_cases hr : (generateUiFile opts tmp fs k src).2.2 = .ok
          · have hp' := (file_rerun htmp hr hnc1).2 p c hp hall1
            exact ih _ _ _ hnc2 p c hp' (fun b hb => hall b (List.mem_append_right _ hb)) op h
          · rcases file_status (tmp := tmp) (fs := fs) (k := k) hpl with e | e
            · exact absurd e hr
            · exfalso
              apply hcont
              refine ⟨hr, ?_⟩
              intro e'; rw [e'] at e; cases e

theorem generateUi_avoids {opts : Options} {tmp : Nat → Name} (htmp : ∀ k, IsTempName (tmp k)) {fs : FS}
    {srcs : List Source} (hnc : NoCollision (execOutputs opts srcs)) {p : Path} {c : Bytes}
    (hp : fs p = some (.file c)) (hall : ∀ b, (p, b) ∈ execOutputs opts srcs → b = c) :
    ∀ op ∈ (generateUi opts tmp fs srcs).1, p ∉ op.targets := by
  intro op hop
  unfold generateUi at hop
  split at hop
  · cases hop
  · split at hop
    · cases hop
    · exact loop_avoids htmp srcs fs 0 false hnc p c hp hall op hop

end QV.Proofs.Cli
