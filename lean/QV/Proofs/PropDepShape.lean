/-
  tir/propdep.rs (`analyzePropertyDependency`, QV.Model.Finalize) and the C06 conclusion: the pass keeps every block's
  terminator, inserts only `observeProperty` statements, each one directly before a statement that reads the observed
  local itself — so jump targets, terminators and define-before-use (including the reads of the inserted statements)
  carry over from the body it is given, on every path.  For EVERY body; no assumption on where it comes from.
-/
import QV.Proofs.PropDep
import QV.Proofs.Cfg

set_option linter.unusedSimpArgs false
set_option linter.unusedVariables false

namespace QV.Proofs.PropDepShape
open QV.Model QV.Model.Cfg QV.Model.Observe QV.Proofs.PropDep QV.Proofs.Cfg

/-- the local an inserted observe statement reads is read by the statement it is inserted before -/
theorem decision_observe_reads {L : List (Option String)} {s : Statement} {x : Nat} {sig : MethodInfo}
    (h : decision L s = .observe x sig) : x ∈ stmtReads s := by
  have key : ∀ a p, readDecision L a p = .observe x sig → x ∈ operandReads a := by
    intro a p hd
    unfold readDecision at hd
    split at hd
    · split at hd
      · split at hd
        · cases hd
        · split at hd
          · cases hd
          · injection hd with h1 h2
            subst h1
            simp [operandReads]
        · cases hd
      · cases hd
      · cases hd
    · cases hd
  cases s with
  | observeProperty hh l m => simp [decision] at h
  | exec r =>
    cases r <;> simp only [decision] at h <;> try (cases h)
    simp only [stmtReads, rvalueReads]
    exact key _ _ h
  | assign l r =>
    cases r <;> simp only [decision] at h <;> try (cases h)
    simp only [stmtReads, rvalueReads]
    exact key _ _ h

theorem defsOf_annotate (start : Nat) : ∀ (stmts : List Statement) (L : List (Option String)) (k : Nat),
    defsOf (annotate start L k stmts) = defsOf stmts
  | [], L, k => by simp [annotate]
  | stmt :: rest, L, k => by
    cases hd : decision L stmt <;> simp only [annotate, hd] <;>
      simp [defsOf, stmtDef] <;> exact defsOf_annotate start rest _ _

/-- "reads covered", in recursive form: `A` is what is assigned before the first statement -/
def CovR (U : Nat → Prop) : List Statement → List Nat → Prop
  | [], _ => True
  | s :: rest, A => (∀ x ∈ stmtReads s, ¬ U x → x ∈ A) ∧ CovR U rest (stmtDef s ++ A)

theorem CovR.mono {U : Nat → Prop} : ∀ (stmts : List Statement) (A B : List Nat), (∀ x ∈ A, x ∈ B) → CovR U stmts A → CovR U stmts B
  | [], _, _, _, _ => trivial
  | s :: rest, A, B, hab, h => by
    refine ⟨fun x hx hu => hab x (h.1 x hx hu), CovR.mono rest _ _ (fun x hx => ?_) h.2⟩
    rw [List.mem_append] at hx ⊢
    rcases hx with hx | hx
    · exact Or.inl hx
    · exact Or.inr (hab x hx)

/-- the indexed form (as in `checkCfg_sound`) gives the recursive one … -/
theorem covR_of_indexed {U : Nat → Prop} : ∀ (stmts : List Statement) (A : List Nat),
    (∀ (k : Nat) (s : Statement), stmts[k]? = some s → ∀ x ∈ stmtReads s, ¬ U x → x ∈ defsOf (stmts.take k) ++ A) →
    CovR U stmts A
  | [], _, _ => trivial
  | s :: rest, A, h => by
    refine ⟨fun x hx hu => by simpa [defsOf] using h 0 s rfl x hx hu, covR_of_indexed rest _ (fun k s' hk x hx hu => ?_)⟩
    have := h (k + 1) s' (by simpa using hk) x hx hu
    simp only [List.take_succ_cons, defsOf, List.flatMap_cons, List.mem_append] at this ⊢
    rcases this with (h1 | h1) | h1
    · exact Or.inr (Or.inl h1)
    · exact Or.inl h1
    · exact Or.inr (Or.inr h1)

/-- … and back -/
theorem indexed_of_covR {U : Nat → Prop} : ∀ (stmts : List Statement) (A : List Nat), CovR U stmts A →
    ∀ (k : Nat) (s : Statement), stmts[k]? = some s → ∀ x ∈ stmtReads s, ¬ U x → x ∈ defsOf (stmts.take k) ++ A
  | [], _, _, k, s, hk => by simp at hk
  | s0 :: rest, A, h, k, s, hk => by
    intro x hx hu
    cases k with
    | zero =>
      simp at hk; subst hk
      simpa [defsOf] using h.1 x hx hu
    | succ k =>
      have := indexed_of_covR rest _ h.2 k s (by simpa using hk) x hx hu
      simp only [List.take_succ_cons, defsOf, List.flatMap_cons, List.mem_append] at this ⊢
      rcases this with h1 | h1 | h1
      · exact Or.inl (Or.inr h1)
      · exact Or.inl (Or.inl h1)
      · exact Or.inr h1

theorem covR_annotate {U : Nat → Prop} (start : Nat) : ∀ (stmts : List Statement) (L : List (Option String)) (k : Nat) (A : List Nat),
    CovR U stmts A → CovR U (annotate start L k stmts) A
  | [], L, k, A, h => by simp [annotate, CovR]
  | stmt :: rest, L, k, A, h => by
    cases hd : decision L stmt with
    | observe x sig =>
      simp only [annotate, hd]
      refine ⟨fun y hy hu => ?_, h.1, covR_annotate start rest _ _ _ h.2⟩
      simp [stmtReads] at hy
      subst hy
      exact h.1 y (decision_observe_reads hd) hu
    | nothing => simp only [annotate, hd]; exact ⟨h.1, covR_annotate start rest _ _ _ h.2⟩
    | dep n sig => simp only [annotate, hd]; exact ⟨h.1, covR_annotate start rest _ _ _ h.2⟩
    | diag m => simp only [annotate, hd]; exact ⟨h.1, covR_annotate start rest _ _ _ h.2⟩
    | panic m => simp only [annotate, hd]; exact ⟨h.1, covR_annotate start rest _ _ _ h.2⟩

/-! ### the pass, block by block -/

/-- what the pass does to one block -/
def AnnRel (n : Nat) (b b' : BasicBlock) : Prop :=
  ∃ k, b' = { b with statements := annotate k (List.replicate n none) 0 b.statements }

def BlocksRel (n : Nat) (bs B : List BasicBlock) : Prop :=
  B.length = bs.length ∧ ∀ (i : Nat) (b' : BasicBlock), B[i]? = some b' → ∃ b, bs[i]? = some b ∧ AnnRel n b b'

theorem fold_rel (n : Nat) : ∀ (bs : List BasicBlock) (acc : Acc),
    ∃ B, (bs.foldl (pdStep n) acc).1 = acc.1 ++ B ∧ BlocksRel n bs B
  | [], acc => ⟨[], by simp, rfl, fun i b' h => by simp at h⟩
  | b :: bs, acc => by
    obtain ⟨B, he, hl, hr⟩ := fold_rel n bs (pdStep n acc b)
    have h1 : (pdStep n acc b).1 = acc.1 ++ [{ b with statements := annotate acc.2.2.2.1 (List.replicate n none) 0 b.statements }] := by
      simp only [pdStep, analyzeBlock_eq]
    refine ⟨{ b with statements := annotate acc.2.2.2.1 (List.replicate n none) 0 b.statements } :: B, ?_, by simp [hl], ?_⟩
    · rw [List.foldl_cons, he, h1]; simp
    · intro i b' hi
      cases i with
      | zero => simp at hi; subst hi; exact ⟨b, rfl, acc.2.2.2.1, rfl⟩
      | succ i => simpa using hr i b' (by simpa using hi)

theorem analyze_blocks (code : CodeBody) :
    BlocksRel code.locals.length code.blocks (analyzePropertyDependency code).1.blocks ∧
      (analyzePropertyDependency code).1.parameterCount = code.parameterCount := by
  rw [apd_eq]
  obtain ⟨B, he, hr⟩ := fold_rel code.locals.length code.blocks ([], code.staticDeps, [], code.observerCount, none)
  simp only [he, List.nil_append]
  exact ⟨hr, trivial⟩

theorem BlocksRel.back {n : Nat} {bs B : List BasicBlock} (h : BlocksRel n bs B) {i : Nat} {b : BasicBlock} (hb : bs[i]? = some b) :
    ∃ b', B[i]? = some b' ∧ AnnRel n b b' := by
  have hi : i < bs.length := (List.getElem?_eq_some_iff.1 hb).1
  have hi' : i < B.length := by rw [h.1]; exact hi
  obtain ⟨b0, hb0, hr⟩ := h.2 i _ (List.getElem?_eq_getElem hi')
  rw [hb] at hb0
  cases hb0
  exact ⟨_, List.getElem?_eq_getElem hi', hr⟩

theorem AnnRel.term {n : Nat} {b b' : BasicBlock} (h : AnnRel n b b') : b'.terminator = b.terminator := by
  obtain ⟨k, rfl⟩ := h; rfl

theorem AnnRel.defs {n : Nat} {b b' : BasicBlock} (h : AnnRel n b b') : defsOf b'.statements = defsOf b.statements := by
  obtain ⟨k, rfl⟩ := h; exact defsOf_annotate _ _ _ _

/-- a path through the analysed body is a path through the body it was given, with the same assigned locals -/
theorem reaches_back (code : CodeBody) : ∀ {i : Nat} {A : List Nat},
    Reaches (analyzePropertyDependency code).1 i A → Reaches code i A := by
  obtain ⟨hrel, hnp⟩ := analyze_blocks code
  intro i A hr
  induction hr with
  | entry => rw [hnp]; exact .entry
  | @step i j A b' _ hb hj ih =>
    obtain ⟨b, hb0, hann⟩ := hrel.2 i b' hb
    rw [hann.defs]
    exact .step ih hb0 (by rw [← hann.term]; exact hj)

/-- the whole conclusion of `checkCfg_sound`, with the reads of the locals in `U` exempt -/
def SemOk (U : Nat → Prop) (c : CodeBody) : Prop :=
  ∀ (i : Nat) (A : List Nat), Reaches c i A →
    ∃ (b : BasicBlock) (t : Terminator), c.blocks[i]? = some b ∧ b.terminator = some t ∧
      t ≠ Terminator.unreachable ∧
      (∀ j ∈ successors b.terminator, j < c.blocks.length) ∧
      (∀ (k : Nat) (s : Statement), b.statements[k]? = some s →
        ∀ x ∈ stmtReads s, ¬ U x → x ∈ defsOf (b.statements.take k) ++ A) ∧
      (∀ x ∈ termReads t, ¬ U x → x ∈ defsOf b.statements ++ A)

/-- **the pass preserves the C06 conclusion**, for every body and every path — in particular every inserted
    observe statement reads a local that is assigned on every path to it -/
theorem analyze_keeps_semOk (U : Nat → Prop) (code : CodeBody) (h : SemOk U code) :
    SemOk U (analyzePropertyDependency code).1 := by
  obtain ⟨hrel, hnp⟩ := analyze_blocks code
  intro i A hr
  obtain ⟨b, t, hb, ht, hne, htg, hst, htr⟩ := h i A (reaches_back code hr)
  obtain ⟨b', hb', hann⟩ := hrel.back hb
  refine ⟨b', t, hb', by rw [hann.term]; exact ht, hne, ?_, ?_, ?_⟩
  · rw [hann.term, hrel.1]; exact htg
  · obtain ⟨k0, rfl⟩ := hann
    exact indexed_of_covR _ A (covR_annotate k0 _ _ _ A (covR_of_indexed _ A hst))
  · rw [hann.defs]; exact htr

end QV.Proofs.PropDepShape
