/- Helper lemmas for C11: flatten-then-rebuild equals direct recursion. Core Lean only. -/
import QV.Model.FormTree
import QV.Spec.FormTree

namespace QV.Proofs.FormTree
open QV.Model.FormTree QV.Spec.FormTree

theorem populate_prefix (F : Forest) : ∀ ns, ∃ added, (populate F ns).1 = ns ++ added := by
  induction F with
  | nil => intro ns; exact ⟨[], by simp [populate]⟩
  | cons info ch rest ihc ihr =>
    intro ns
    simp only [populate]
    split
    · obtain ⟨a1, h1⟩ := ihc ns
      obtain ⟨a3, h3⟩ := ihr ((populate ch ns).1 ++ [{ info, childIndices := (populate ch ns).2 }])
      refine ⟨a1 ++ [{ info, childIndices := (populate ch ns).2 }] ++ a3, ?_⟩
      rw [h3, h1]; simp [List.append_assoc]
    · exact ihr ns

theorem populate_isEmpty (F : Forest) : ∀ ns, (populate F ns).2.isEmpty = !hasResolving F := by
  induction F with
  | nil => intro ns; simp [populate, hasResolving]
  | cons info ch rest _ ihr =>
    intro ns
    simp only [populate, hasResolving]
    split
    · rename_i h; simp [h]
    · rename_i h; simp [h, ihr]

theorem assemble_some (mode : Mode) (info : Info) (hc : Bool) (kids : Mode → Option (List (Built × Nat)))
    (h : ∀ m, ∃ ks, kids m = some ks) : ∃ b, assemble mode info hc kids = some b := by
  obtain ⟨ko, hko⟩ := h .obj
  obtain ⟨ki, hki⟩ := h .item
  cases mode <;> simp only [assemble] <;> (repeat' split) <;> simp [hko, hki]

/-- **Flatten, then rebuild by indices = direct recursion on the tree**, for every forest of siblings, every
    vector it is appended to, every later extension of that vector, and any sufficient fuel. -/
theorem build_populate (F : Forest) :
    ∀ (ns E : List NodeData) (fuel : Nat) (m : Mode), depth F ≤ fuel →
      mapOpt (build ((populate F ns).1 ++ E) fuel m) (populate F ns).2 = some (specForest m F) := by
  induction F with
  | nil => intro ns E fuel m _; simp [populate, mapOpt, specForest]
  | cons info ch rest ihc ihr =>
    intro ns E fuel m hd
    simp only [depth] at hd
    simp only [populate, specForest]
    by_cases hres : info.resolves = true
    · simp only [hres, if_true]
      -- names for the pieces
      generalize hr1 : populate ch ns = r1 at *
      let nd : NodeData := { info, childIndices := r1.2 }
      obtain ⟨A, hA⟩ := populate_prefix rest (r1.1 ++ [nd])
      have hrest := ihr (r1.1 ++ [nd]) E fuel m (by omega)
      -- the node itself
      obtain ⟨fuel', rfl⟩ : ∃ f, fuel = f + 1 := ⟨fuel - 1, by omega⟩
      have hnodes : (populate rest (r1.1 ++ [nd])).1 ++ E = r1.1 ++ ([nd] ++ A ++ E) := by
        rw [hA]; simp [List.append_assoc]
      have hget : ((populate rest (r1.1 ++ [nd])).1 ++ E)[r1.1.length]? = some nd := by
        rw [hnodes, List.getElem?_append_right (Nat.le_refl _)]
        simp
      have hkids : ∀ m', mapOpt (build ((populate rest (r1.1 ++ [nd])).1 ++ E) fuel' m') r1.2
          = some (specForest m' ch) := by
        intro m'
        have := ihc ns ([nd] ++ A ++ E) fuel' m' (by omega)
        rw [hr1] at this
        rw [hnodes]
        exact this
      have hself : build ((populate rest (r1.1 ++ [nd])).1 ++ E) (fuel' + 1) m r1.1.length
          = assemble m info (hasResolving ch) (fun m' => some (specForest m' ch)) := by
        simp only [build, hget]
        have hemp : (!nd.childIndices.isEmpty) = hasResolving ch := by
          have := populate_isEmpty ch ns
          rw [hr1] at this
          simp [nd, this]
        rw [hemp]
        congr 1
        funext m'
        exact hkids m'
      obtain ⟨b, hb⟩ := assemble_some m info (hasResolving ch) (fun m' => some (specForest m' ch))
        (fun m' => ⟨_, rfl⟩)
      have hfold : ({ info := info, childIndices := r1.2 } : NodeData) = nd := rfl
      simp only [mapOpt, hfold]
      rw [hself, hrest]
      simp only [hb]
    · have hres' : info.resolves = false := by simpa using hres
      simp only [hres', Bool.false_eq_true, if_false]
      exact ihr ns E fuel m (by omega)

end QV.Proofs.FormTree
