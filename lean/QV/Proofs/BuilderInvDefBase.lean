/-
  C06, the builder for ALL programs — define-before-use, part 1: the certificate invariant.

  `ins i` is a set of locals claimed to be assigned whenever control arrives at block `i`.  `DInv U ins b` says that
  the claim is consistent with everything built so far: in every block each read (of a local outside `U`, the
  variables the user declared without initialiser) is covered by an earlier assignment of the block, by `ins`, or
  is a parameter; every terminator present reads covered locals only and every successor's claim follows from what
  the block knows at its end; the same for the completion value (the operand of the `return` that
  `finalize_completion_values` may install later).  Here: what the primitives of tir/core.rs do to it.
-/
import QV.Proofs.BuilderInvStmt

set_option linter.unusedSimpArgs false
set_option linter.unusedVariables false

namespace QV.Proofs.BuilderInv
open QV.Model QV.Model.Cfg

abbrev Ins := Nat → Nat → Prop

def stmtsOf (b : Builder) (i : Nat) : List Statement := ((b.code.blocks[i]?).map (·.statements)).getD []
def complOf (b : Builder) (i : Nat) : Option Operand := (b.code.blocks[i]?).bind (·.completionValue)
def np (b : Builder) : Nat := b.code.parameterCount

/-- what block `i` knows at its end -/
def Out (ins : Ins) (b : Builder) (i x : Nat) : Prop := x ∈ defsOf (stmtsOf b i) ∨ ins i x ∨ x < np b

/-- every read in `stmts` of a local outside `U` is covered by an earlier definition in `stmts` or by `K` -/
def Cov (U : Nat → Prop) (stmts : List Statement) (K : Nat → Prop) : Prop :=
  ∀ k s, stmts[k]? = some s → ∀ x ∈ stmtReads s, ¬ U x → x ∈ defsOf (stmts.take k) ∨ K x

structure DInv (U : Nat → Prop) (ins : Ins) (b : Builder) : Prop where
  sc : ∀ i, Cov U (stmtsOf b i) (fun x => ins i x ∨ x < np b)
  tc : ∀ i t, termOf b i = some t → (∀ x ∈ termReads t, ¬ U x → Out ins b i x) ∧
        (∀ j ∈ successors (some t), ∀ x, ins j x → Out ins b i x)
  cc : ∀ i a, complOf b i = some a → ∀ x ∈ operandReads a, ¬ U x → Out ins b i x

theorem defsOf_append (a b : List Statement) : defsOf (a ++ b) = defsOf a ++ defsOf b := by
  simp [defsOf]

theorem Cov.nil (U : Nat → Prop) (K : Nat → Prop) : Cov U [] K := by
  intro k s h; simp at h

theorem Cov.snoc {U : Nat → Prop} {stmts : List Statement} {K : Nat → Prop} {st : Statement} (h : Cov U stmts K)
    (hs : ∀ x ∈ stmtReads st, ¬ U x → x ∈ defsOf stmts ∨ K x) : Cov U (stmts ++ [st]) K := by
  intro k s hk x hx hu
  by_cases hlt : k < stmts.length
  · rw [List.getElem?_append_left hlt] at hk
    rw [List.take_append_of_le_length (Nat.le_of_lt hlt)]
    exact h k s hk x hx hu
  · have hge : stmts.length ≤ k := Nat.le_of_not_lt hlt
    rw [List.getElem?_append_right hge] at hk
    have hk0 : k - stmts.length = 0 := by
      cases hd : k - stmts.length with
      | zero => rfl
      | succ n => rw [hd] at hk; simp at hk
    rw [hk0] at hk
    simp at hk
    rw [← hk] at hx
    have hk' : k = stmts.length := by omega
    subst hk'
    have : (stmts ++ [st]).take stmts.length = stmts := by simp
    rw [this]
    exact hs x hx hu

theorem Cov.mono {U U' : Nat → Prop} {stmts : List Statement} {K K' : Nat → Prop} (h : Cov U stmts K)
    (hu : ∀ x, U x → U' x) (hk : ∀ x, K x → K' x) : Cov U' stmts K' := by
  intro k s hs x hx hnu
  rcases h k s hs x hx (fun h => hnu (hu x h)) with h1 | h1
  · exact Or.inl h1
  · exact Or.inr (hk x h1)

/-! ### the pieces of a block under the primitives -/

theorem blocks_modifyBlock (b : Builder) (i : Nat) (f : BasicBlock → BasicBlock) (j : Nat) :
    (b.modifyBlock i f).code.blocks[j]? = if j = i then (b.code.blocks[i]?).map f else b.code.blocks[j]? := by
  unfold Builder.modifyBlock
  cases hb : b.code.blocks[i]? with
  | none =>
    simp only [Builder.fail]
    by_cases hj : j = i
    · subst hj; simp [hb]
    · simp [hj]
  | some blk =>
    simp only
    by_cases hj : j = i
    · subst hj
      have hlt := (List.getElem?_eq_some_iff.1 hb).1
      simp [hlt]
    · simp [hj, List.getElem?_set_ne (Ne.symm hj)]

theorem np_modifyBlock (b : Builder) (i : Nat) (f : BasicBlock → BasicBlock) : np (b.modifyBlock i f) = np b := by
  unfold Builder.modifyBlock np
  split <;> rfl

theorem stmtsOf_congr {b0 b : Builder} (h : b0.code = b.code) (j : Nat) : stmtsOf b0 j = stmtsOf b j := by
  unfold stmtsOf; rw [h]
theorem complOf_congr {b0 b : Builder} (h : b0.code = b.code) (j : Nat) : complOf b0 j = complOf b j := by
  unfold complOf; rw [h]
theorem np_congr {b0 b : Builder} (h : b0.code = b.code) : np b0 = np b := by
  unfold np; rw [h]

theorem stmtsOf_ge {b : Builder} {j : Nat} (h : len b ≤ j) : stmtsOf b j = [] := by
  unfold stmtsOf; rw [List.getElem?_eq_none h]; rfl

@[simp] theorem stmtsOf_fail (b : Builder) (m : String) (j : Nat) : stmtsOf (b.fail m) j = stmtsOf b j := rfl
@[simp] theorem complOf_fail (b : Builder) (m : String) (j : Nat) : complOf (b.fail m) j = complOf b j := rfl
@[simp] theorem np_fail (b : Builder) (m : String) : np (b.fail m) = np b := rfl

theorem stmtsOf_pushStatementAt (b : Builder) (i : Nat) (st : Statement) (j : Nat) :
    stmtsOf (b.pushStatementAt i st) j = if j = i ∧ i < len b then stmtsOf b j ++ [st] else stmtsOf b j := by
  unfold Builder.pushStatementAt
  generalize hb0 : (if b.blockHasTerminator i = true then b.fail "push_statement: terminator already set" else b) = b0
  have hc : b0.code = b.code := by rw [← hb0]; exact ite_fail_code _ _ _
  unfold stmtsOf
  rw [blocks_modifyBlock, hc]
  by_cases hj : j = i
  · subst hj
    by_cases hlt : j < len b
    · have hb : b.code.blocks[j]? = some b.code.blocks[j] := List.getElem?_eq_getElem hlt
      simp [hlt, hb]
    · have hb : b.code.blocks[j]? = none := List.getElem?_eq_none (Nat.le_of_not_lt hlt)
      simp [hlt, hb]
  · simp [hj]

@[simp] theorem complOf_pushStatementAt (b : Builder) (i : Nat) (st : Statement) (j : Nat) :
    complOf (b.pushStatementAt i st) j = complOf b j := by
  unfold Builder.pushStatementAt
  generalize hb0 : (if b.blockHasTerminator i = true then b.fail "push_statement: terminator already set" else b) = b0
  have hc : b0.code = b.code := by rw [← hb0]; exact ite_fail_code _ _ _
  unfold complOf
  rw [blocks_modifyBlock, hc]
  by_cases hj : j = i
  · subst hj; cases b.code.blocks[j]? <;> simp
  · simp [hj]

@[simp] theorem np_pushStatementAt (b : Builder) (i : Nat) (st : Statement) : np (b.pushStatementAt i st) = np b := by
  unfold Builder.pushStatementAt
  simp only []
  rw [np_modifyBlock]
  exact np_congr (ite_fail_code _ _ _)

@[simp] theorem stmtsOf_finalizeAt (b : Builder) (i : Nat) (t : Terminator) (j : Nat) :
    stmtsOf (b.finalizeAt i t) j = stmtsOf b j := by
  unfold Builder.finalizeAt
  generalize hb0 : (if b.blockHasTerminator i = true then b.fail "finalize: terminator already set" else b) = b0
  have hc : b0.code = b.code := by rw [← hb0]; exact ite_fail_code _ _ _
  unfold stmtsOf
  rw [blocks_modifyBlock, hc]
  by_cases hj : j = i
  · subst hj; cases b.code.blocks[j]? <;> simp
  · simp [hj]

@[simp] theorem complOf_finalizeAt (b : Builder) (i : Nat) (t : Terminator) (j : Nat) :
    complOf (b.finalizeAt i t) j = complOf b j := by
  unfold Builder.finalizeAt
  generalize hb0 : (if b.blockHasTerminator i = true then b.fail "finalize: terminator already set" else b) = b0
  have hc : b0.code = b.code := by rw [← hb0]; exact ite_fail_code _ _ _
  unfold complOf
  rw [blocks_modifyBlock, hc]
  by_cases hj : j = i
  · subst hj; cases b.code.blocks[j]? <;> simp
  · simp [hj]

@[simp] theorem np_finalizeAt (b : Builder) (i : Nat) (t : Terminator) : np (b.finalizeAt i t) = np b := by
  unfold Builder.finalizeAt
  rw [np_modifyBlock]
  exact np_congr (ite_fail_code _ _ _)

@[simp] theorem stmtsOf_setCompletionValue (b : Builder) (v : Operand) (j : Nat) :
    stmtsOf (b.setCompletionValue v) j = stmtsOf b j := by
  unfold Builder.setCompletionValue
  generalize hb0 : (if b.blockHasTerminator b.currentRef = true then b.fail "set_completion_value: terminator already set" else b) = b0
  have hc : b0.code = b.code := by rw [← hb0]; exact ite_fail_code _ _ _
  simp only []
  rw [hb0]
  unfold stmtsOf
  rw [blocks_modifyBlock, hc]
  by_cases hj : j = b.currentRef
  · subst hj; cases b.code.blocks[b.currentRef]? <;> simp
  · simp [hj]

theorem complOf_setCompletionValue (b : Builder) (v : Operand) (j : Nat) :
    complOf (b.setCompletionValue v) j = if j = len b - 1 ∧ 0 < len b then some v else complOf b j := by
  unfold Builder.setCompletionValue
  generalize hb0 : (if b.blockHasTerminator b.currentRef = true then b.fail "set_completion_value: terminator already set" else b) = b0
  have hc : b0.code = b.code := by rw [← hb0]; exact ite_fail_code _ _ _
  simp only []
  rw [hb0]
  unfold complOf
  rw [blocks_modifyBlock, hc]
  have hcur : b.currentRef = len b - 1 := rfl
  by_cases hj : j = b.currentRef
  · subst hj
    rw [if_pos rfl]
    by_cases hpos : 0 < len b
    · have hlt : b.currentRef < len b := by rw [hcur]; omega
      have hb : b.code.blocks[b.currentRef]? = some b.code.blocks[b.currentRef] := List.getElem?_eq_getElem hlt
      rw [hb, if_pos ⟨hcur, hpos⟩]
      rfl
    · have hb : b.code.blocks[b.currentRef]? = none := List.getElem?_eq_none (by rw [hcur]; unfold len at hpos ⊢; omega)
      rw [hb, if_neg (fun h => hpos h.2)]
      rfl
  · have : ¬ (j = len b - 1 ∧ 0 < len b) := fun h => hj (by rw [hcur]; exact h.1)
    rw [if_neg hj, if_neg this]

@[simp] theorem np_setCompletionValue (b : Builder) (v : Operand) : np (b.setCompletionValue v) = np b := by
  unfold Builder.setCompletionValue
  simp only []
  rw [np_modifyBlock]
  exact np_congr (ite_fail_code _ _ _)

@[simp] theorem stmtsOf_newBlock (b : Builder) (j : Nat) : stmtsOf b.newBlock.2 j = stmtsOf b j := by
  simp only [Builder.newBlock, stmtsOf]
  by_cases hlt : j < b.code.blocks.length
  · rw [List.getElem?_append_left hlt]
  · have hge := Nat.le_of_not_lt hlt
    rw [List.getElem?_eq_none hge]
    by_cases he : j = b.code.blocks.length
    · subst he; simp
    · rw [List.getElem?_eq_none (by simp; omega)]

@[simp] theorem complOf_newBlock (b : Builder) (j : Nat) : complOf b.newBlock.2 j = complOf b j := by
  simp only [Builder.newBlock, complOf]
  by_cases hlt : j < b.code.blocks.length
  · rw [List.getElem?_append_left hlt]
  · have hge := Nat.le_of_not_lt hlt
    rw [List.getElem?_eq_none hge]
    by_cases he : j = b.code.blocks.length
    · subst he; simp
    · rw [List.getElem?_eq_none (by simp; omega)]

@[simp] theorem np_newBlock (b : Builder) : np b.newBlock.2 = np b := rfl

@[simp] theorem stmtsOf_alloca (b : Builder) (ty : TypeKind) (j : Nat) : stmtsOf (b.alloca ty).2 j = stmtsOf b j := by
  unfold Builder.alloca
  split <;> rfl
@[simp] theorem complOf_alloca (b : Builder) (ty : TypeKind) (j : Nat) : complOf (b.alloca ty).2 j = complOf b j := by
  unfold Builder.alloca
  split <;> rfl
@[simp] theorem np_alloca (b : Builder) (ty : TypeKind) : np (b.alloca ty).2 = np b := by
  unfold Builder.alloca
  split <;> rfl

/-! ### the invariant under the primitives (same claim `ins`) -/

/-- `b'` extends `b`: same blocks count, every block knows at least as much, the skeleton and completion values
    are as described by the caller -/
theorem Out.mono_of {ins : Ins} {b b' : Builder} {i x : Nat}
    (hs : ∀ y, y ∈ defsOf (stmtsOf b i) → y ∈ defsOf (stmtsOf b' i)) (hn : np b ≤ np b') (h : Out ins b i x) : Out ins b' i x := by
  rcases h with h | h | h
  · exact Or.inl (hs x h)
  · exact Or.inr (Or.inl h)
  · exact Or.inr (Or.inr (Nat.lt_of_lt_of_le h hn))

theorem DInv.congr {U : Nat → Prop} {ins : Ins} {b b' : Builder} (h : b'.code = b.code) (hd : DInv U ins b) : DInv U ins b' := by
  have hs : ∀ j, stmtsOf b' j = stmtsOf b j := stmtsOf_congr h
  have ht : ∀ j, termOf b' j = termOf b j := termOf_congr h
  have hc : ∀ j, complOf b' j = complOf b j := complOf_congr h
  have hn : np b' = np b := np_congr h
  have ho : ∀ i x, Out ins b' i x ↔ Out ins b i x := fun i x => by unfold Out; rw [hs, hn]
  refine ⟨fun i => ?_, fun i t hti => ?_, fun i a hci => ?_⟩
  · rw [hs, hn]; exact hd.sc i
  · rw [ht] at hti
    obtain ⟨h1, h2⟩ := hd.tc i t hti
    exact ⟨fun x hx hu => (ho i x).2 (h1 x hx hu), fun j hj x hx => (ho i x).2 (h2 j hj x hx)⟩
  · rw [hc] at hci
    exact fun x hx hu => (ho i x).2 (hd.cc i a hci x hx hu)

theorem Out.congr {ins : Ins} {b b' : Builder} (h : b'.code = b.code) {i x : Nat} : Out ins b' i x ↔ Out ins b i x := by
  unfold Out; rw [stmtsOf_congr h, np_congr h]

theorem DInv.fail {U : Nat → Prop} {ins : Ins} {b : Builder} (m : String) (hd : DInv U ins b) : DInv U ins (b.fail m) :=
  DInv.congr (b := b) (b' := b.fail m) rfl hd

theorem Out.push {ins : Ins} {b : Builder} (k : Nat) (st : Statement) {i x : Nat} (h : Out ins b i x) :
    Out ins (b.pushStatementAt k st) i x := by
  refine Out.mono_of (fun y hy => ?_) (by simp) h
  rw [stmtsOf_pushStatementAt]
  split
  · rw [defsOf_append]; exact List.mem_append.2 (Or.inl hy)
  · exact hy

theorem Out.push_def {ins : Ins} {b : Builder} {k : Nat} (hk : k < len b) (l : Nat) (r : Rvalue) :
    Out ins (b.pushStatementAt k (.assign l r)) k l := by
  left
  rw [stmtsOf_pushStatementAt]
  simp [hk, defsOf_append, defsOf, stmtDef]

/-- pushing a statement whose reads are covered at the end of block `k` -/
theorem DInv.push {U : Nat → Prop} {ins : Ins} {b : Builder} (k : Nat) (st : Statement) (hd : DInv U ins b)
    (hr : ∀ x ∈ stmtReads st, ¬ U x → Out ins b k x) : DInv U ins (b.pushStatementAt k st) := by
  refine ⟨fun i => ?_, fun i t hti => ?_, fun i a hci => ?_⟩
  · rw [stmtsOf_pushStatementAt, np_pushStatementAt]
    split
    · rename_i hc
      obtain ⟨rfl, _⟩ := hc
      refine (hd.sc i).snoc (fun x hx hu => ?_)
      rcases hr x hx hu with h | h | h
      · exact Or.inl h
      · exact Or.inr (Or.inl h)
      · exact Or.inr (Or.inr h)
    · exact hd.sc i
  · rw [termOf_pushStatementAt] at hti
    obtain ⟨h1, h2⟩ := hd.tc i t hti
    exact ⟨fun x hx hu => (h1 x hx hu).push k st, fun j hj x hx => (h2 j hj x hx).push k st⟩
  · rw [complOf_pushStatementAt] at hci
    exact fun x hx hu => (hd.cc i a hci x hx hu).push k st

theorem Out.finalize {ins : Ins} {b : Builder} (k : Nat) (t : Terminator) {i x : Nat} :
    Out ins (b.finalizeAt k t) i x ↔ Out ins b i x := by
  unfold Out; rw [stmtsOf_finalizeAt, np_finalizeAt]

/-- installing a terminator whose reads and whose successors' claims are covered at the end of block `k` -/
theorem DInv.finalize {U : Nat → Prop} {ins : Ins} {b : Builder} (k : Nat) (t : Terminator) (hd : DInv U ins b)
    (hr : ∀ x ∈ termReads t, ¬ U x → Out ins b k x)
    (hs : ∀ j ∈ successors (some t), ∀ x, ins j x → Out ins b k x) : DInv U ins (b.finalizeAt k t) := by
  refine ⟨fun i => ?_, fun i t' hti => ?_, fun i a hci => ?_⟩
  · rw [stmtsOf_finalizeAt, np_finalizeAt]; exact hd.sc i
  · rw [termOf_finalizeAt] at hti
    split at hti
    · rename_i hc
      obtain ⟨rfl, _⟩ := hc
      simp at hti; subst hti
      exact ⟨fun x hx hu => (Out.finalize i t).2 (hr x hx hu), fun j hj x hx => (Out.finalize i t).2 (hs j hj x hx)⟩
    · obtain ⟨h1, h2⟩ := hd.tc i t' hti
      exact ⟨fun x hx hu => (Out.finalize k t).2 (h1 x hx hu), fun j hj x hx => (Out.finalize k t).2 (h2 j hj x hx)⟩
  · rw [complOf_finalizeAt] at hci
    exact fun x hx hu => (Out.finalize k t).2 (hd.cc i a hci x hx hu)

theorem Out.setCompletion {ins : Ins} {b : Builder} (v : Operand) {i x : Nat} :
    Out ins (b.setCompletionValue v) i x ↔ Out ins b i x := by
  unfold Out; rw [stmtsOf_setCompletionValue, np_setCompletionValue]

theorem DInv.setCompletion {U : Nat → Prop} {ins : Ins} {b : Builder} (v : Operand) (hd : DInv U ins b)
    (hr : ∀ x ∈ operandReads v, ¬ U x → Out ins b (len b - 1) x) : DInv U ins (b.setCompletionValue v) := by
  refine ⟨fun i => ?_, fun i t' hti => ?_, fun i a hci => ?_⟩
  · rw [stmtsOf_setCompletionValue, np_setCompletionValue]; exact hd.sc i
  · rw [termOf_setCompletionValue] at hti
    obtain ⟨h1, h2⟩ := hd.tc i t' hti
    exact ⟨fun x hx hu => (Out.setCompletion v).2 (h1 x hx hu), fun j hj x hx => (Out.setCompletion v).2 (h2 j hj x hx)⟩
  · rw [complOf_setCompletionValue] at hci
    split at hci
    · rename_i hc
      obtain ⟨rfl, _⟩ := hc
      simp at hci
      intro x hx hu
      rw [← hci] at hx
      exact (Out.setCompletion v).2 (hr x hx hu)
    · exact fun x hx hu => (Out.setCompletion v).2 (hd.cc i a hci x hx hu)

theorem Out.alloca {ins : Ins} {b : Builder} (ty : TypeKind) {i x : Nat} : Out ins (b.alloca ty).2 i x ↔ Out ins b i x := by
  unfold Out; rw [stmtsOf_alloca, np_alloca]

theorem DInv.alloca {U : Nat → Prop} {ins : Ins} {b : Builder} (ty : TypeKind) (hd : DInv U ins b) : DInv U ins (b.alloca ty).2 := by
  refine ⟨fun i => ?_, fun i t' hti => ?_, fun i a hci => ?_⟩
  · rw [stmtsOf_alloca, np_alloca]; exact hd.sc i
  · rw [termOf_alloca] at hti
    obtain ⟨h1, h2⟩ := hd.tc i t' hti
    exact ⟨fun x hx hu => (Out.alloca ty).2 (h1 x hx hu), fun j hj x hx => (Out.alloca ty).2 (h2 j hj x hx)⟩
  · rw [complOf_alloca] at hci
    exact fun x hx hu => (Out.alloca ty).2 (hd.cc i a hci x hx hu)

/-! ### a new block, with ANY claim -/

def upd (ins : Ins) (k : Nat) (S : Nat → Prop) : Ins := fun i => if i = k then S else ins i

@[simp] theorem upd_same (ins : Ins) (k : Nat) (S : Nat → Prop) : upd ins k S k = S := by simp [upd]
theorem upd_ne (ins : Ins) {k i : Nat} (S : Nat → Prop) (h : i ≠ k) : upd ins k S i = ins i := by simp [upd, h]

theorem Out.newBlock_old {ins : Ins} {b : Builder} (S : Nat → Prop) {i x : Nat} (hi : i ≠ len b) :
    Out (upd ins (len b) S) b.newBlock.2 i x ↔ Out ins b i x := by
  unfold Out; rw [stmtsOf_newBlock, np_newBlock, upd_ne ins S hi]

theorem Out.newBlock_new {ins : Ins} {b : Builder} (S : Nat → Prop) {x : Nat} :
    Out (upd ins (len b) S) b.newBlock.2 (len b) x ↔ (S x ∨ x < np b) := by
  unfold Out; rw [stmtsOf_newBlock, np_newBlock, upd_same, stmtsOf_ge (Nat.le_refl _)]
  simp [defsOf]

/-- `mark_branch_point` (and the block pushed by break/return): the new block is empty and nothing jumps to it
    yet, so it may claim anything -/
theorem DInv.newBlock {U : Nat → Prop} {ins : Ins} {b : Builder} (S : Nat → Prop) (hd : DInv U ins b) (hi : Inv b) :
    DInv U (upd ins (len b) S) b.newBlock.2 := by
  refine ⟨fun i => ?_, fun i t hti => ?_, fun i a hci => ?_⟩
  · rw [stmtsOf_newBlock, np_newBlock]
    by_cases he : i = len b
    · subst he; rw [stmtsOf_ge (Nat.le_refl _)]; exact Cov.nil _ _
    · rw [upd_ne ins S he]; exact hd.sc i
  · rw [termOf_newBlock] at hti
    have hlt := termOf_lt hti
    have hne : i ≠ len b := by omega
    obtain ⟨h1, h2⟩ := hd.tc i t hti
    refine ⟨fun x hx hu => (Out.newBlock_old S hne).2 (h1 x hx hu), fun j hj x hx => ?_⟩
    have hjlt : j < len b := (hi.tgt i t hti).1 j hj
    have hjne : j ≠ len b := by omega
    rw [upd_ne ins S hjne] at hx
    exact (Out.newBlock_old S hne).2 (h2 j hj x hx)
  · rw [complOf_newBlock] at hci
    have hlt : i < len b := by
      unfold complOf at hci
      cases hb : b.code.blocks[i]? with
      | none => simp [hb] at hci
      | some blk => exact (List.getElem?_eq_some_iff.1 hb).1
    have hne : i ≠ len b := by omega
    exact fun x hx hu => (Out.newBlock_old S hne).2 (hd.cc i a hci x hx hu)

/-- `U` may grow (a later `let v: T;`) -/
theorem DInv.weaken {U U' : Nat → Prop} {ins : Ins} {b : Builder} (hd : DInv U ins b) (hu : ∀ x, U x → U' x) : DInv U' ins b :=
  ⟨fun i => (hd.sc i).mono hu (fun _ h => h),
   fun i t hti => ⟨fun x hx hnu => (hd.tc i t hti).1 x hx (fun h => hnu (hu x h)), (hd.tc i t hti).2⟩,
   fun i a hci x hx hnu => hd.cc i a hci x hx (fun h => hnu (hu x h))⟩

end QV.Proofs.BuilderInv
