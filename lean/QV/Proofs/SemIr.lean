/-
  Helper lemmas for QV.Props.C01 / C13: execution of IR fragments (Model.IrSem) produced by the builder's visitors.
-/
import QV.Model.IrSem
import QV.Model.Finalize

namespace QV.Proofs.SemIr
open QV.Model QV.Model.IrSem
open QV.Spec.Sem (Val World Host Ev Ty STy coerceTo)

/-! ### values that are not untyped constants pass every conversion unchanged -/

def isCint : Val → Bool
  | .cint _ => true
  | _ => false

theorem coerceTo_of_not_cint (t : Ty) (v : Val) (h : isCint v = false) : coerceTo t v = some v := by
  cases v <;> simp_all [coerceTo, isCint]

theorem mkInt_eq {v : Int} {w : Val} (h : QV.Spec.Sem.mkInt v = some w) : w = .int v := by
  unfold QV.Spec.Sem.mkInt at h
  split at h <;> simp_all

/-! ### the builder's primitives -/

/-- the current block exists and has no terminator yet -/
def OpenAt (b : Builder) (blk : BasicBlock) : Prop :=
  b.code.blocks[b.currentRef]? = some blk ∧ blk.terminator = none

theorem pushStatementAt_open (b : Builder) (i : Nat) (blk : BasicBlock) (s : Statement)
    (hb : b.code.blocks[i]? = some blk) (ht : blk.terminator = none) :
    b.pushStatementAt i s =
      { b with code := { b.code with blocks := b.code.blocks.set i { blk with statements := blk.statements ++ [s] } } } := by
  simp [Builder.pushStatementAt, Builder.blockHasTerminator, Builder.modifyBlock, hb, ht]

theorem finalizeAt_open (b : Builder) (i : Nat) (blk : BasicBlock) (t : Terminator)
    (hb : b.code.blocks[i]? = some blk) (ht : blk.terminator = none) :
    b.finalizeAt i t =
      { b with code := { b.code with blocks := b.code.blocks.set i { blk with terminator := some t } } } := by
  simp [Builder.finalizeAt, Builder.blockHasTerminator, Builder.modifyBlock, hb, ht]

/-- `emit_result` for a non-void type: one fresh local, one statement appended to the open current block, nothing
    else touched (append-only statements, fresh locals) -/
theorem emitResult_nonvoid (b : Builder) (ty : TypeKind) (rv : Rvalue) (blk : BasicBlock) (hty : ty ≠ .void)
    (ho : OpenAt b blk) :
    b.emitResult ty rv =
      (.local b.code.locals.length ty,
       { b with code := { b.code with
           locals := b.code.locals ++ [ty],
           blocks := b.code.blocks.set b.currentRef
             { blk with statements := blk.statements ++ [.assign b.code.locals.length rv] } } }) := by
  obtain ⟨hb, ht⟩ := ho
  have hcur : ({ b with code := { b.code with locals := b.code.locals ++ [ty] } } : Builder).currentRef = b.currentRef := rfl
  simp only [Builder.emitResult, Builder.alloca, hty, ne_eq, not_false_eq_true, ↓reduceIte]
  simp only [Builder.pushStatement, hcur]
  rw [pushStatementAt_open _ _ blk _ (by simpa using hb) ht]

/-- `emit_result` for `void`: one `exec` statement appended, no local -/
theorem emitResult_void (b : Builder) (rv : Rvalue) (blk : BasicBlock) (ho : OpenAt b blk) :
    b.emitResult .void rv =
      (.void, { b with code := { b.code with
          blocks := b.code.blocks.set b.currentRef { blk with statements := blk.statements ++ [.exec rv] } } }) := by
  obtain ⟨hb, ht⟩ := ho
  simp only [Builder.emitResult, Builder.alloca, ne_eq, not_true_eq_false, ↓reduceIte]
  simp only [Builder.pushStatement]
  rw [pushStatementAt_open _ _ blk _ hb ht]

/-! ### execution of statement lists -/

theorem execStatements_append (c : ICtx) (locals : List TypeKind) (xs ys : List Statement) (s : State) :
    execStatements c locals (xs ++ ys) s = (execStatements c locals xs s).bind (execStatements c locals ys) := by
  induction xs generalizing s with
  | nil => simp [execStatements]
  | cons x xs ih =>
    simp only [List.cons_append, execStatements]
    cases h : execStatement c locals s x with
    | none => simp
    | some s1 => simp [ih]

/-- executing the statement emitted for an rvalue: the fresh local receives the value (converted to the local's
    type), every other local, the world and the trace are what the rvalue leaves -/
theorem exec_assign (c : ICtx) (locals : List TypeKind) (s s1 : State) (n : Nat) (ty : TypeKind) (rv : Rvalue)
    (v v' : Val) (hn : locals[n]? = some ty) (hev : evalRvalue c s rv = some (v, s1))
    (hv : coerceTo (styOf ty).ty v = some v') :
    execStatement c locals s (.assign n rv) = some { s1 with L := upd s1.L n v' } := by
  simp [execStatement, hev, hn, hv]

theorem upd_same (L : IrSem.Locals) (n : Nat) (v : Val) : upd L n v n = some v := by simp [upd]
theorem upd_other (L : IrSem.Locals) (n m : Nat) (v : Val) (h : m ≠ n) : upd L n v m = L m := by simp [upd, h]

/-- an operand that does not mention local `n` -/
def Avoids (n : Nat) : Operand → Prop
  | .local m _ => m ≠ n
  | _ => True

theorem evalOperand_upd (c : ICtx) (L : IrSem.Locals) (n : Nat) (v : Val) (a : Operand) (h : Avoids n a) :
    evalOperand c (upd L n v) a = evalOperand c L a := by
  cases a with
  | const k => cases k <;> simp [evalOperand]
  | «local» m ty => simp_all [evalOperand, Avoids, upd]
  | _ => simp [evalOperand]

/-! ### one step of the block machine -/

theorem runFrom_step (c : ICtx) (code : CodeBody) (fuel i : Nat) (s s1 : State) (b : BasicBlock)
    (hb : code.blocks[i]? = some b) (hs : execStatements c code.locals b.statements s = some s1) :
    runFrom c code (fuel + 1) i s =
      match b.terminator with
      | some (.ret a) => (evalOperand c s1.L a).map fun v => (v, s1)
      | some (.br j) => runFrom c code fuel j s1
      | some (.brCond cnd t f) =>
        (match evalOperand c s1.L cnd with
         | some (.bool true) => runFrom c code fuel t s1
         | some (.bool false) => runFrom c code fuel f s1
         | _ => none)
      | some .unreachable => none
      | none => none := by
  simp only [runFrom, hb, hs]
  cases b.terminator with
  | none => rfl
  | some t => cases t <;> rfl

end QV.Proofs.SemIr
