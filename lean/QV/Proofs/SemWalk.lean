/-
  Helper lemmas for QV.Props.C01: the AST walk (Model/Walk.lean) on the STRAIGHT-LINE expression fragment
  (integer / bool literals, reads `o.p` of object ids, unary and non-logical binary operators), composed from the
  visitor-level lemmas by induction on the expression with the builder invariant (append-only statements in the open
  current block, fresh locals, everything else untouched).
-/
import QV.Proofs.SemVisit

namespace QV.Proofs.SemWalk
open QV.Model QV.Model.IrSem QV.Proofs.SemIr QV.Proofs.SemVisit
open QV.Spec.Sem (Val World Host Ev Ty STy coerceTo binop unop)

/-! ### the walk monad -/

theorem run_bind {α β} (x : W α) (f : α → W β) (s : WState) :
    (x >>= f).run s = match x.run s with
      | (some a, s1) => (f a).run s1
      | (none, s1) => (none, s1) := by
  simp only [OptionT.run, bind, OptionT.bind, OptionT.mk, StateT.bind]
  cases h : x s with
  | mk r s1 => cases r <;> simp [pure, StateT.pure]

theorem run_pure {α} (a : α) (s : WState) : (pure a : W α).run s = (some a, s) := rfl

theorem run_getB (s : WState) : getB.run s = (some s.b, s) := rfl
theorem run_getLocals (s : WState) : getLocals.run s = (some s.locals, s) := rfl
theorem run_setB (b : Builder) (s : WState) : (setB b).run s = (some (), { s with b := b }) := rfl

theorem run_consume_ok (a : Operand) (b : Builder) (s : WState) :
    (consume (.ok (a, b))).run s = (some a, { s with b := b }) := rfl

theorem run_consume_err (e : ExprError) (s : WState) : ((consume (.error e)).run s).1 = none := rfl

theorem run_err {α} (m : String) (s : WState) : ((err m : W α).run s).1 = none := rfl

/-! ### the builder invariant -/

/-- `b'` is `b` with the statements `ss` appended to the open current block and fresh locals appended; nothing else
    (no other block, no terminator, no panic flag, no parameter) changed -/
structure Grows (b : Builder) (ss : List Statement) (b' : Builder) : Prop where
  panic : b'.panic = b.panic
  locals : ∃ tys, b'.code.locals = b.code.locals ++ tys
  blocks : ∃ blk, b.code.blocks[b.currentRef]? = some blk ∧ blk.terminator = none ∧
    b'.code.blocks = b.code.blocks.set b.currentRef { blk with statements := blk.statements ++ ss }
  params : b'.code.parameterCount = b.code.parameterCount
  deps : b'.code.staticDeps = b.code.staticDeps
  obs : b'.code.observerCount = b.code.observerCount

theorem set_self {α} : ∀ (l : List α) (i : Nat) (x : α), l[i]? = some x → l.set i x = l
  | [], _, _, h => by simp at h
  | y :: ys, 0, x, h => by simp at h; simp [h]
  | y :: ys, i + 1, x, h => by simp at h; simp [set_self ys i x h]

theorem Grows.refl (b : Builder) (blk : BasicBlock) (ho : OpenAt b blk) : Grows b [] b := by
  obtain ⟨hb, ht⟩ := ho
  refine ⟨rfl, ⟨[], by simp⟩, ⟨blk, hb, ht, ?_⟩, rfl, rfl, rfl⟩
  simp only [List.append_nil]
  exact (set_self _ _ _ hb).symm

theorem Grows.currentRef {b b' : Builder} {ss : List Statement} (h : Grows b ss b') : b'.currentRef = b.currentRef := by
  obtain ⟨blk, _, _, hbl⟩ := h.blocks
  simp [Builder.currentRef, hbl]

/-- after growing, the current block is still open -/
theorem Grows.open {b b' : Builder} {ss : List Statement} (h : Grows b ss b') :
    ∃ blk', OpenAt b' blk' := by
  obtain ⟨blk, hb, ht, hbl⟩ := h.blocks
  refine ⟨{ blk with statements := blk.statements ++ ss }, ?_, ht⟩
  rw [h.currentRef, hbl]
  exact getElem?_set_self' _ _ _ _ hb

theorem Grows.trans {b1 b2 b3 : Builder} {s1 s2 : List Statement} (h1 : Grows b1 s1 b2) (h2 : Grows b2 s2 b3) :
    Grows b1 (s1 ++ s2) b3 := by
  obtain ⟨t1, hl1⟩ := h1.locals
  obtain ⟨t2, hl2⟩ := h2.locals
  obtain ⟨blk1, hb1, ht1, hbl1⟩ := h1.blocks
  obtain ⟨blk2, hb2, ht2, hbl2⟩ := h2.blocks
  refine ⟨h2.panic.trans h1.panic, ⟨t1 ++ t2, by rw [hl2, hl1, List.append_assoc]⟩, ⟨blk1, hb1, ht1, ?_⟩,
    h2.params.trans h1.params, h2.deps.trans h1.deps, h2.obs.trans h1.obs⟩
  rw [h1.currentRef, hbl1, getElem?_set_self' _ _ _ _ hb1] at hb2
  injection hb2 with hb2
  subst hb2
  rw [hbl2, h1.currentRef, hbl1]
  simp [List.set_set, List.append_assoc]

/-- `emit_result` of a non-void type grows the builder by one statement and one local -/
theorem grows_emit (b : Builder) (blk : BasicBlock) (ty : TypeKind) (rv : Rvalue) (hty : ty ≠ .void) (ho : OpenAt b blk) :
    (b.emitResult ty rv).1 = .local b.code.locals.length ty ∧
    Grows b [.assign b.code.locals.length rv] (b.emitResult ty rv).2 ∧
    (b.emitResult ty rv).2.code.locals = b.code.locals ++ [ty] := by
  rw [emitResult_nonvoid b ty rv blk hty ho]
  exact ⟨rfl, ⟨rfl, ⟨[ty], rfl⟩, ⟨blk, ho.1, ho.2, rfl⟩, rfl, rfl, rfl⟩, rfl⟩

/-! ### what the walk does on each constructor of the fragment -/

theorem run_unary (wc : Ctx) (tok : UnaryToken) (a : Expr) (s : WState) :
    (walkRvalue wc (.unary tok a)).run s =
      match (walkRvalue wc a).run s with
      | (none, s1) => (none, s1)
      | (some arg, s1) =>
        match tok.toOp with
        | none => (none, { s1 with diags := s1.diags ++ [s!"unsupported operation '{tok.symbol}'"] })
        | some u =>
          match visitUnaryExpression wc.F s1.b u arg with
          | .ok (x, b) => (some x, { s1 with b := b })
          | .error e => (none, { s1 with diags := s1.diags ++ [e.message] }) := by
  rw [walkRvalue, walkExpr]
  simp only [run_bind]
  cases h : (walkRvalue wc a).run s with
  | mk r s1 =>
    cases r with
    | none => rfl
    | some arg =>
      simp only
      cases tok.toOp with
      | none => rfl
      | some u =>
        simp only [run_bind, run_getB]
        cases hv : visitUnaryExpression wc.F s1.b u arg with
        | error e => rfl
        | ok xb => cases xb; rfl

theorem run_binary (wc : Ctx) (tok : BinaryToken) (op : BinaryOp) (l r : Expr) (s : WState)
    (htok : tok.toOp = some op) (hlog : ∀ lop, op ≠ .logical lop) :
    (walkRvalue wc (.binary tok l r)).run s =
      match (walkRvalue wc l).run s with
      | (none, s1) => (none, s1)
      | (some left, s1) =>
        match (walkRvalue wc r).run s1 with
        | (none, s2) => (none, s2)
        | (some right, s2) =>
          match visitBinaryExpression wc.F wc.env s2.b op left right with
          | .ok (x, b) => (some x, { s2 with b := b })
          | .error e => (none, { s2 with diags := s2.diags ++ [e.message] }) := by
  rw [walkRvalue, walkExpr]
  cases op with
  | logical lop => exact absurd rfl (hlog lop)
  | _ =>
    simp only [htok, run_bind]
    cases h1 : (walkRvalue wc l).run s with
    | mk r1 s1 =>
      cases r1 with
      | none => rfl
      | some left =>
        simp only
        cases h2 : (walkRvalue wc r).run s1 with
        | mk r2 s2 =>
          cases r2 with
          | none => rfl
          | some right =>
            simp only [run_bind, run_getB]
            cases hv : visitBinaryExpression wc.F wc.env s2.b _ left right with
            | error e => rfl
            | ok xb => cases xb; rfl

set_option linter.unusedSimpArgs false in
theorem run_integer (wc : Ctx) (v : Nat) (s s' : WState) (op : Operand)
    (h : (walkRvalue wc (.integer v)).run s = (some op, s')) :
    op = .const (.integer v) ∧ s' = s ∧ (v : Int) ≤ i64Max := by
  rw [walkRvalue, walkExpr] at h
  simp only [run_bind, run_getB, visitInteger] at h
  by_cases hv : (v : Int) ≤ i64Max
  · simp only [hv, ↓reduceIte, run_consume_ok, run_pure, interToRvalue] at h
    injection h with h1 h2
    injection h1 with h1
    exact ⟨h1.symm, h2.symm, hv⟩
  · simp only [hv, ↓reduceIte] at h
    have : ((consume (Except.error ExprError.integerConversion)).run s).1 = none := rfl
    revert h
    cases hc : (consume (Except.error ExprError.integerConversion)).run s with
    | mk r s1 =>
      rw [hc] at this
      simp only at this
      subst this
      intro h
      simp only at h
      injection h with h1 _
      cases h1

theorem run_bool (wc : Ctx) (v : Bool) (s : WState) :
    (walkRvalue wc (.bool v)).run s = (some (.const (.bool v)), s) := by
  rw [walkRvalue, walkExpr]
  rfl

set_option linter.unusedSimpArgs false in
/-- a read `o.p` of an object id that no variable in scope shadows: one `readProperty` statement through `emit_result` -/
theorem run_read' (wc : Ctx) (o p cls : String) (ci : ClassInfo) (pinfo : PropInfo) (s s' : WState) (op : Operand)
    (hl : s.locals.get? o = none)
    (h1 : wc.objects.find? (·.1 = o) = some (o, cls)) (h2 : wc.env.findClass cls = some ci)
    (h3 : ci.props.find? (·.name = p) = some pinfo)
    (h : (walkRvalue wc (.member (.ident o) p)).run s = (some op, s')) :
    op = (s.b.emitResult pinfo.ty (.readProperty (.namedObject o cls) pinfo)).1 ∧
    s' = { s with b := (s.b.emitResult pinfo.ty (.readProperty (.namedObject o cls) pinfo)).2 } := by
  rw [walkRvalue, walkExpr, walkExpr] at h
  simp only [run_bind, processIdentifier, run_getLocals, hl, Ctx.getRef, h1,
    processRef, run_pure, processItemProperty, toConcreteType, Operand.typeDesc, Ctx.classOfType, h2, h3,
    TypeKind.isPointer, interToRvalue, run_getB, visitObjectProperty, ensureConcreteString] at h
  cases hr : pinfo.readable with
  | true =>
    simp only [hr, Bool.not_true, Bool.false_eq_true, ↓reduceIte, run_consume_ok] at h
    injection h with h1 h2
    injection h1 with h1
    exact ⟨h1.symm, h2.symm⟩
  | false =>
    simp only [hr, Bool.not_false, ↓reduceIte] at h
    have : ((consume (Except.error ExprError.unreadableProperty)).run s).1 = none := rfl
    rw [h] at this
    simp at this

/-- a read `o.p` of an object id: one `readProperty` statement through `emit_result` -/
theorem run_read (wc : Ctx) (o p cls : String) (ci : ClassInfo) (pinfo : PropInfo) (s s' : WState) (op : Operand)
    (hl : s.locals = [])
    (h1 : wc.objects.find? (·.1 = o) = some (o, cls)) (h2 : wc.env.findClass cls = some ci)
    (h3 : ci.props.find? (·.name = p) = some pinfo)
    (h : (walkRvalue wc (.member (.ident o) p)).run s = (some op, s')) :
    op = (s.b.emitResult pinfo.ty (.readProperty (.namedObject o cls) pinfo)).1 ∧
    s' = { s with b := (s.b.emitResult pinfo.ty (.readProperty (.namedObject o cls) pinfo)).2 } :=
  run_read' wc o p cls ci pinfo s s' op (by rw [hl]; rfl) h1 h2 h3 h

/-- a read of a variable in scope: no statement, the variable's local is the operand -/
theorem run_var (wc : Ctx) (x : String) (n : Nat) (k : DeclKind) (ty : TypeKind) (s s' : WState) (op : Operand)
    (hl : s.locals.get? x = some (n, k)) (hty : s.b.code.locals[n]? = some ty)
    (h : (walkRvalue wc (.ident x)).run s = (some op, s')) : op = .local n ty ∧ s' = s := by
  rw [walkRvalue, walkExpr] at h
  simp only [run_bind, processIdentifier, run_getLocals, hl, run_pure, interToRvalue, run_getB, visitLocalRef, hty,
    run_consume_ok] at h
  injection h with h1 h2
  injection h1 with h1
  exact ⟨h1.symm, h2.symm⟩

/-- an expression statement: the walk of the expression, then `visit_expression_statement` -/
theorem run_expr_stmt (wc : Ctx) (e : Expr) (s : WState) :
    (walkStmt wc none (.expr e)).run s =
      match (walkRvalue wc e).run s with
      | (some op, s1) => (some (), { s1 with b := visitExpressionStatement s1.b op })
      | (none, s1) => (none, s1) := by
  rw [walkStmt]
  simp only [run_bind]
  cases (walkRvalue wc e).run s with
  | mk r s1 => cases r <;> rfl

/-! ### operator results on the dynamic path are never untyped constants -/

theorem mkInt_not_cint {x : Int} {v : Val} (h : QV.Spec.Sem.mkInt x = some v) : isCint v = false := by
  rw [mkInt_eq h]; rfl

theorem arithInt_not_cint {o : ArithOp} {x y : Int} {v : Val} (h : QV.Spec.Sem.arithInt o x y = some v) : isCint v = false := by
  cases o <;> simp only [QV.Spec.Sem.arithInt] at h <;> (repeat' split at h) <;>
    first | exact mkInt_not_cint h | (simp at h)

theorem arithUint_not_cint {o : ArithOp} {x y : Nat} {v : Val} (h : QV.Spec.Sem.arithUint o x y = some v) : isCint v = false := by
  cases o <;> simp only [QV.Spec.Sem.arithUint, QV.Spec.Sem.mkUintWrap] at h <;> (repeat' split at h) <;>
    first | (simp at h; subst h; rfl) | (simp at h)

theorem shiftVal_not_cint {o : ShiftOp} {l : Val} {n : Int} {v : Val} (h : QV.Spec.Sem.shiftVal o l n = some v) : isCint v = false := by
  unfold QV.Spec.Sem.shiftVal at h
  split at h
  · simp at h
  · split at h <;> first | exact mkInt_not_cint h | (simp [QV.Spec.Sem.mkUintWrap] at h; subst h; rfl) | (simp at h)

theorem unify_not_both_cint {l r a b : Val} (h : QV.Spec.Sem.unify l r = some (a, b)) (hd : isCint l = false ∨ isCint r = false) :
    isCint a = false ∨ isCint b = false := by
  cases l with
  | cint x =>
    cases r <;> first
      | (simp [isCint] at hd; done)
      | (simp only [QV.Spec.Sem.unify, Option.map_eq_some_iff, Prod.mk.injEq] at h; obtain ⟨_, _, _, rfl⟩ := h; right; rfl)
  | _ =>
    cases r <;> first
      | (simp only [QV.Spec.Sem.unify, Option.map_eq_some_iff, Prod.mk.injEq] at h; obtain ⟨_, _, rfl, _⟩ := h; left; rfl)
      | (simp only [QV.Spec.Sem.unify, Option.some.injEq, Prod.mk.injEq] at h; obtain ⟨rfl, _⟩ := h; left; rfl)

theorem binop_dyn_not_cint (F : FloatOps) (op : BinaryOp) (l r v : Val) (h : binop F op l r = some v)
    (hd : isCint l = false ∨ isCint r = false) : isCint v = false := by
  unfold binop at h
  cases op with
  | logical o => simp at h
  | shift o =>
    simp only at h
    split at h
    · simp [isCint] at hd
    · split at h
      · exact shiftVal_not_cint h
      · simp at h
  | arith o =>
    simp only at h
    cases hu : QV.Spec.Sem.unify l r with
    | none => simp [hu] at h
    | some ab =>
      obtain ⟨a, b⟩ := ab
      have hab := unify_not_both_cint hu hd
      simp only [hu] at h
      cases a <;> cases b
      all_goals (try simp only [isCint] at hab)
      all_goals (try simp only at h)
      all_goals first
        | exact arithInt_not_cint h
        | exact arithUint_not_cint h
        | (simp at hab; done)
        | (cases h <;> first | rfl | (simp [isCint, QV.Spec.Sem.arithDouble]))
        | (cases o <;> simp only at h <;> cases h <;> rfl)
  | bitwise o =>
    simp only at h
    cases hu : QV.Spec.Sem.unify l r with
    | none => simp [hu] at h
    | some ab =>
      obtain ⟨a, b⟩ := ab
      have hab := unify_not_both_cint hu hd
      simp only [hu] at h
      cases a <;> cases b
      all_goals (try simp only [isCint] at hab)
      all_goals (try simp only at h)
      all_goals first
        | (simp at hab; done)
        | (cases h <;> rfl)
  | cmp o =>
    simp only at h
    cases hu : QV.Spec.Sem.unify l r with
    | none => simp [hu] at h
    | some ab =>
      obtain ⟨a, b⟩ := ab
      have hab := unify_not_both_cint hu hd
      simp only [hu] at h
      cases a <;> cases b
      all_goals (try simp only [isCint] at hab)
      all_goals (try simp only at h)
      all_goals first
        | (simp at hab; done)
        | (cases h <;> rfl)
        | (cases o <;> simp only at h <;> cases h <;> rfl)

end QV.Proofs.SemWalk
