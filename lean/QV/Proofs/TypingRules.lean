/-
  C05, per-rule characterisations: the type rules of the checker's model (QV.Model.Types / Builder / Ceval, mirrors of
  typeutil.rs, tir/builder.rs, tir/ceval.rs) are exactly the tables of the specification (QV.Spec.Typing).
-/
import QV.Model.Builder
import QV.Spec.Typing

set_option linter.unusedSimpArgs false

namespace QV.Proofs.TypingRules
open QV.Model QV.Spec.Typing

/-! ### class table accessors -/

theorem sameEnum_eq (env : Env) (a b : String) : sameEnum env a b = env.enumCompat a b := by
  unfold sameEnum Env.enumCompat Env.findEnum
  cases env.enums.find? (·.name = a) <;> cases env.enums.find? (·.name = b) <;> simp

theorem subclass_eq (env : Env) (d b : String) : subclass env d b = env.derives d b := by
  unfold subclass Env.derives Env.findClass
  cases env.classes.find? (·.name = d) <;> simp

theorem enumCompat_comm (env : Env) (a b : String) : env.enumCompat a b = env.enumCompat b a := by
  unfold Env.enumCompat
  have : decide (a = b) = decide (b = a) := by by_cases h : a = b <;> simp [h, eq_comm]
  rw [this, Bool.or_assoc, Bool.or_assoc]
  congr 1
  exact Bool.or_comm _ _

/-- unfolding set for the primitive type names -/
macro "tk_simp" : tactic =>
  `(tactic| simp_all [isNumeric, isIntegral, numK, intK, enumK, ptrK, listK, TypeKind.double, TypeKind.int, TypeKind.uint,
      TypeKind.bool, TypeKind.void, TypeKind.variant, TypeKind.string, TypeDesc.bool, TypeDesc.int, TypeDesc.uint,
      TypeDesc.double, TypeDesc.string, TypeDesc.void, litFits, concreteOf, isEnumKind, TypeKind.isPointer, intTy])

/-! ### `is_assignable` -/

theorem pickConcrete_assign (env : Env) (e a : TypeKind) :
    (pickConcreteTypeCast env e a = .noop ∨ pickConcreteTypeCast env e a = .implicit) ↔
      assignable env e (.concrete a) = true := by
  unfold pickConcreteTypeCast assignable
  by_cases h : e = a
  · subst h; simp
  · have h' : ¬ a = e := fun x => h x.symm
    simp only [h, h', if_false, Bool.false_or, decide_false]
    cases e with
    | just ne =>
      cases a with
      | just na =>
        cases ne with
        | prim pe =>
          cases na with
          | prim pa => cases pe <;> cases pa <;> tk_simp
          | _ => cases pe <;> tk_simp
        | enum x =>
          cases na with
          | enum y => simp only [sameEnum_eq, enumCompat_comm env y x]; cases env.enumCompat x y <;> tk_simp
          | prim pa => cases pa <;> tk_simp
          | _ => tk_simp
        | _ =>
          cases na with
          | prim pa => cases pa <;> tk_simp
          | _ => tk_simp
      | pointer na => cases ne with
        | prim pe => cases pe <;> tk_simp
        | _ => tk_simp
      | list ta => cases ne with
        | prim pe => cases pe <;> tk_simp
        | _ => tk_simp
    | pointer ne =>
      cases a with
      | just na => cases na with
        | prim pa => cases pa <;> cases ne <;> tk_simp
        | _ => cases ne <;> tk_simp
      | pointer na =>
        cases ne <;> cases na <;> (try simp only [subclass_eq]) <;> tk_simp
        rename_i x y
        cases env.derives y x <;> simp
      | list ta => cases ne <;> tk_simp
    | list te =>
      cases a with
      | just na => cases na with
        | prim pa => cases pa <;> tk_simp
        | _ => tk_simp
      | pointer na => tk_simp
      | list ta => tk_simp

theorem isConcreteAssignable_eq (env : Env) (e a : TypeKind) :
    isConcreteAssignable env e a = assignable env e (.concrete a) := by
  have h := pickConcrete_assign env e a
  unfold isConcreteAssignable
  cases hk : pickConcreteTypeCast env e a <;> cases ha : assignable env e (.concrete a) <;> simp_all

/-- `is_assignable` is the specification's `assignable`: identity, object upcast, enum/flags alias, literal adoption -/
theorem isAssignable_eq (env : Env) (e : TypeKind) (a : TypeDesc) : isAssignable env e a = assignable env e a := by
  cases a with
  | concrete k =>
    have := isConcreteAssignable_eq env e k
    simpa [isAssignable, isConcreteAssignable, pickTypeCast] using this
  | constInteger =>
    simp only [isAssignable, pickTypeCast, assignable]
    cases e with
    | just n => cases n with
      | prim p => cases p <;> tk_simp
      | _ => tk_simp
    | _ => tk_simp
  | constString =>
    simp only [isAssignable, pickTypeCast, assignable]
    cases e with
    | just n => cases n with
      | prim p => cases p <;> tk_simp
      | _ => tk_simp
    | _ => tk_simp
  | nullPointer =>
    simp only [isAssignable, pickTypeCast, assignable]
    cases e with
    | just n => cases n with
      | prim p => cases p <;> tk_simp
      | _ => tk_simp
    | _ => tk_simp
  | emptyList =>
    simp only [isAssignable, pickTypeCast, assignable]
    cases e with
    | just n => cases n with
      | prim p => cases p <;> tk_simp
      | _ => tk_simp
    | _ => tk_simp

/-! ### `deduce_type` -/

/-- `deduce_type` succeeds exactly on the pairs that have one common type, and yields it -/
theorem deduceType_eq (env : Env) (l r : TypeDesc) :
    deduceType env l r = (match common env l r with | some t => .ok t | none => .error (.incompatible l r)) := by
  unfold deduceType common
  by_cases h : l = r
  · subst h; cases l <;> simp
  · simp only [h, if_false]
    cases l with
    | concrete a =>
      cases r with
      | concrete b =>
        have hab : ¬ a = b := fun x => h (by rw [x])
        simp only [hab, if_false]
        cases a with
        | just na => cases b with
          | just nb =>
            cases na with
            | enum x => cases nb with
              | enum y => simp only [sameEnum_eq]; cases env.enumCompat x y <;> simp
              | _ => simp
            | prim p => cases nb <;> cases p <;> simp
            | _ => cases nb <;> simp
          | _ => cases na with
            | prim p => cases p <;> simp
            | _ => simp
        | pointer na => cases b <;> simp
        | list ta => cases b <;> simp
      | constInteger => cases a with
        | just n => cases n with
          | prim p => cases p <;> tk_simp
          | _ => tk_simp
        | _ => tk_simp
      | constString => cases a with
        | just n => cases n with
          | prim p => cases p <;> tk_simp
          | _ => tk_simp
        | _ => tk_simp
      | nullPointer => cases a with
        | just n => cases n with
          | prim p => cases p <;> tk_simp
          | _ => tk_simp
        | _ => tk_simp
      | emptyList => cases a with
        | just n => cases n with
          | prim p => cases p <;> tk_simp
          | _ => tk_simp
        | _ => tk_simp
    | constInteger => cases r with
      | concrete b => cases b with
        | just n => cases n with
          | prim p => cases p <;> tk_simp
          | _ => tk_simp
        | _ => tk_simp
      | _ => simp_all
    | constString => cases r with
      | concrete b => cases b with
        | just n => cases n with
          | prim p => cases p <;> tk_simp
          | _ => tk_simp
        | _ => tk_simp
      | _ => simp_all
    | nullPointer => cases r with
      | concrete b => cases b with
        | just n => cases n with
          | prim p => cases p <;> tk_simp
          | _ => tk_simp
        | _ => tk_simp
      | _ => simp_all
    | emptyList => cases r with
      | concrete b => cases b with
        | just n => cases n with
          | prim p => cases p <;> tk_simp
          | _ => tk_simp
        | _ => tk_simp
      | _ => simp_all

theorem toConcreteType_eq (t : TypeDesc) :
    toConcreteType t = (match concreteOf t with | some k => .ok k | none => .error (.undetermined t)) := by
  cases t <;> simp [toConcreteType, concreteOf]

/-- `deduce_concrete_type` succeeds exactly when there is one common type that is (or defaults to) a concrete type -/
theorem deduceConcreteType_ok_iff (env : Env) (l r : TypeDesc) (k : TypeKind) :
    deduceConcreteType env l r = .ok k ↔ commonConcrete env l r = some k := by
  unfold deduceConcreteType commonConcrete
  rw [deduceType_eq]
  cases common env l r with
  | none => simp
  | some t => simp [toConcreteType_eq]; cases concreteOf t <;> simp

theorem deduceConcrete_ok_iff (env : Env) (op : String) (l r : TypeDesc) (k : TypeKind) :
    deduceConcrete env op l r = .ok k ↔ commonConcrete env l r = some k := by
  rw [← deduceConcreteType_ok_iff]
  unfold deduceConcrete
  cases deduceConcreteType env l r <;> simp

theorem deduceConcrete_error_iff (env : Env) (op : String) (l r : TypeDesc) :
    (∃ e, deduceConcrete env op l r = .error e) ↔ commonConcrete env l r = none := by
  cases h : deduceConcrete env op l r with
  | ok k => have := (deduceConcrete_ok_iff env op l r k).1 h; simp [this]
  | error e =>
    cases h2 : commonConcrete env l r with
    | none => simp
    | some k => have := (deduceConcrete_ok_iff env op l r k).2 h2; simp [this] at h

/-! ### `pick_type_cast` = the documented cast table -/

/-- how the specification's cast kinds are realised -/
def realises : Option CastKind → TypeCastKind → Prop
  | some .assign, k => k = .noop ∨ k = .implicit
  | some .numeric, k => k = .static
  | some .discard, k => k = .static
  | some .extract, k => k = .variant
  | none, k => k = .invalid

theorem pickConcreteTypeCast_table (env : Env) (e a : TypeKind) :
    realises (castKind env e (.concrete a)) (pickConcreteTypeCast env e a) := by
  have hassign := pickConcrete_assign env e a
  unfold castKind
  cases hA : assignable env e (.concrete a) with
  | true => simp only [if_true, realises]; exact hassign.2 hA
  | false =>
    have hne : ¬ e = a := by
      intro h; subst h; simp [assignable] at hA
    simp only [Bool.false_eq_true, if_false]
    unfold assignable at hA
    unfold pickConcreteTypeCast
    simp only [hne, if_false]
    have hne' : ¬ a = e := fun x => hne x.symm
    simp only [hne', decide_false, Bool.false_or] at hA
    cases e with
    | just ne =>
      cases a with
      | just na =>
        cases ne with
        | prim pe =>
          cases na with
          | prim pa => cases pe <;> cases pa <;> simp [realises] <;> tk_simp
          | _ => cases pe <;> simp [realises] <;> tk_simp
        | enum x =>
          cases na with
          | enum y =>
            simp only [sameEnum_eq, enumCompat_comm env y x] at hA
            simp [hA, realises]; tk_simp
          | prim pa => cases pa <;> simp [realises] <;> tk_simp
          | _ => simp [realises] <;> tk_simp
        | _ =>
          cases na with
          | prim pa => cases pa <;> simp [realises] <;> tk_simp
          | _ => simp [realises] <;> tk_simp
      | pointer na => cases ne with
        | prim pe => cases pe <;> simp [realises] <;> tk_simp
        | _ => simp [realises] <;> tk_simp
      | list ta => cases ne with
        | prim pe => cases pe <;> simp [realises] <;> tk_simp
        | _ => simp [realises] <;> tk_simp
    | pointer ne =>
      cases a with
      | just na => cases na with
        | prim pa => cases pa <;> cases ne <;> simp [realises] <;> tk_simp
        | _ => cases ne <;> simp [realises] <;> tk_simp
      | pointer na =>
        cases ne <;> cases na <;> (try simp only [subclass_eq] at hA) <;> simp [realises] <;> tk_simp
      | list ta => cases ne <;> simp [realises] <;> tk_simp
    | list te =>
      cases a with
      | just na => cases na with
        | prim pa => cases pa <;> simp [realises] <;> tk_simp
        | _ => simp [realises] <;> tk_simp
      | pointer na => simp [realises] <;> tk_simp
      | list ta => simp [realises] <;> tk_simp

/-- `pick_type_cast` is the documented cast table and nothing else -/
theorem pickTypeCast_table (env : Env) (e : TypeKind) (a : TypeDesc) :
    realises (castKind env e a) (pickTypeCast env e a) := by
  cases a with
  | concrete k => exact pickConcreteTypeCast_table env e k
  | constInteger =>
    unfold castKind assignable pickTypeCast
    cases e with
    | just n => cases n with
      | prim p => cases p <;> simp [realises] <;> tk_simp
      | _ => simp [realises] <;> tk_simp
    | _ => simp [realises] <;> tk_simp
  | constString =>
    unfold castKind assignable pickTypeCast
    cases e with
    | just n => cases n with
      | prim p => cases p <;> simp [realises] <;> tk_simp
      | _ => simp [realises] <;> tk_simp
    | _ => simp [realises] <;> tk_simp
  | nullPointer =>
    unfold castKind assignable pickTypeCast
    cases e with
    | just n => cases n with
      | prim p => cases p <;> simp [realises] <;> tk_simp
      | _ => simp [realises] <;> tk_simp
    | _ => simp [realises] <;> tk_simp
  | emptyList =>
    unfold castKind assignable pickTypeCast
    cases e with
    | just n => cases n with
      | prim p => cases p <;> simp [realises] <;> tk_simp
      | _ => simp [realises] <;> tk_simp
    | _ => simp [realises] <;> tk_simp

theorem pickTypeCast_invalid_iff (env : Env) (e : TypeKind) (a : TypeDesc) :
    pickTypeCast env e a = .invalid ↔ castable env e a = false := by
  have h := pickTypeCast_table env e a
  unfold castable
  cases hc : castKind env e a with
  | none => simp [hc, realises] at h ⊢; exact h
  | some k =>
    cases k <;> simp [hc, realises] at h ⊢ <;> (try cases h) <;> simp_all

/-! ### builder helpers -/

theorem emitResult_typeDesc (b : Builder) (ty : TypeKind) (rv : Rvalue) :
    (b.emitResult ty rv).1.typeDesc = .concrete ty := by
  unfold Builder.emitResult Builder.alloca
  by_cases h : ty = .void
  · subst h; simp [Operand.typeDesc, TypeDesc.void]
  · simp [h, Operand.typeDesc]

theorem ensureConcreteString_typeDesc (a : Operand) : (ensureConcreteString a).typeDesc = strDefault a.typeDesc := by
  unfold ensureConcreteString
  split
  · simp [Operand.typeDesc, ConstantValue.typeDesc, strDefault, TypeDesc.string]
  · rename_i h
    cases a with
    | const v => cases v <;> simp_all [Operand.typeDesc, ConstantValue.typeDesc, strDefault, TypeDesc.bool, TypeDesc.double, TypeDesc.string]
    | _ => simp [Operand.typeDesc, strDefault, TypeDesc.void]

/-- the specification's tables treat a string literal like a QString -/
theorem unaryType_strDefault (op : UnaryOp) (t : TypeDesc) : unaryType op (strDefault t) = unaryType op t := by
  cases t <;> cases op <;> simp [strDefault, unaryType, TypeDesc.string, TypeDesc.bool, TypeKind.string, TypeKind.bool, numK, intK, enumK,
    TypeKind.int, TypeKind.uint, TypeKind.double]

/-- success of a checker step -/
def okB {ε α} : Except ε α → Bool
  | .ok _ => true
  | .error _ => false

@[simp] theorem okB_ok {ε α} (a : α) : okB (Except.ok a : Except ε α) = true := rfl
@[simp] theorem okB_error {ε α} (e : ε) : okB (Except.error e : Except ε α) = false := rfl

/-! ### dynamic path: `emit_unary_expression` -/

/-- the dynamic path accepts a unary operation exactly when the specification's table admits it -/
theorem emitUnary_okB (b : Builder) (op : UnaryOp) (a : Operand) :
    okB (emitUnaryExpression b op a) = (unaryType op a.typeDesc).isSome := by
  rw [← unaryType_strDefault, ← ensureConcreteString_typeDesc]
  unfold emitUnaryExpression
  generalize ensureConcreteString a = x
  cases hx : x.typeDesc with
  | concrete k =>
    cases k with
    | just n => cases n with
      | prim p => cases p <;> cases op <;> simp [hx, toConcrete, toConcreteType, unaryType] <;> tk_simp
      | _ => cases op <;> simp [hx, toConcrete, toConcreteType, unaryType] <;> tk_simp
    | _ => cases op <;> simp [hx, toConcrete, toConcreteType, unaryType] <;> tk_simp
  | _ => cases op <;> simp [hx, toConcrete, toConcreteType, unaryType, toOperationTypeError] <;> tk_simp

theorem typeDesc_of_emitResult {b : Builder} {ty : TypeKind} {rv : Rvalue} {res : Operand} {b' : Builder}
    (h : b.emitResult ty rv = (res, b')) : res.typeDesc = .concrete ty := by
  have := emitResult_typeDesc b ty rv
  rw [h] at this
  exact this

/-- result type of the dynamic path: the table's type, a literal type defaulted (D1) -/
theorem emitUnary_type (b : Builder) (op : UnaryOp) (a : Operand) (res : Operand) (b' : Builder)
    (h : emitUnaryExpression b op a = .ok (res, b')) :
    ∃ t k, unaryType op a.typeDesc = some t ∧ concreteOf t = some k ∧ res.typeDesc = .concrete k := by
  rw [← unaryType_strDefault, ← ensureConcreteString_typeDesc]
  unfold emitUnaryExpression at h
  generalize ensureConcreteString a = x at h ⊢
  cases hx : x.typeDesc with
  | concrete k =>
    cases k with
    | just n => cases n with
      | prim p =>
        cases p <;> cases op <;> simp [hx, toConcrete, toConcreteType, unaryType] at h ⊢ <;> tk_simp <;>
          (exact typeDesc_of_emitResult h)
      | _ =>
        cases op <;> simp [hx, toConcrete, toConcreteType, unaryType] at h ⊢ <;> tk_simp <;>
          (exact typeDesc_of_emitResult h)
    | _ => cases op <;> simp [hx, toConcrete, toConcreteType, unaryType] at h ⊢ <;> tk_simp
  | constInteger =>
    cases op <;> simp [hx, toConcrete, toConcreteType, unaryType, toOperationTypeError] at h ⊢ <;> tk_simp <;>
      (exact typeDesc_of_emitResult h)
  | _ => cases op <;> simp [hx, toConcrete, toConcreteType, unaryType, toOperationTypeError] at h ⊢ <;> tk_simp

/-! ### dynamic path: `emit_binary_expression` -/

theorem common_strDefault_concrete (env : Env) (l r : TypeDesc) :
    commonConcrete env (strDefault l) (strDefault r) = commonConcrete env l r := by
  cases l with
  | concrete a =>
    cases r with
    | constString =>
      simp only [strDefault, commonConcrete, common, TypeDesc.string]
      by_cases h : a = .string
      · subst h; simp [litFits, concreteOf]
      · simp only [h, if_false, litFits, decide_false]
        cases a with
        | just n => cases n <;> simp [TypeKind.string]
        | _ => simp
    | _ => simp [strDefault]
  | constString =>
    cases r with
    | concrete b =>
      simp only [strDefault, commonConcrete, common, TypeDesc.string]
      by_cases h : b = .string
      · subst h; simp [litFits, concreteOf]
      · have h' : ¬ TypeKind.string = b := fun x => h x.symm
        simp only [h, h', if_false, litFits, decide_false]
        cases b with
        | just n => cases n <;> simp_all [TypeKind.string]
        | _ => simp
    | constString => simp [strDefault, commonConcrete, common, TypeDesc.string, concreteOf]
    | _ => simp [strDefault, commonConcrete, common, TypeDesc.string, litFits, TypeKind.string, intK, ptrK, listK, TypeKind.int, TypeKind.uint]
  | _ =>
    cases r with
    | constString => simp [strDefault, commonConcrete, common, TypeDesc.string, litFits, TypeKind.string, intK, ptrK, listK, TypeKind.int, TypeKind.uint]
    | _ => simp [strDefault]

/-- arithmetic: the table in terms of the common concrete type -/
theorem binaryType_arith_isSome (env : Env) (a : ArithOp) (l r : TypeDesc) :
    (binaryType env (.arith a) l r).isSome =
      (match commonConcrete env l r with
       | some k => numK k || (k = .string && a = .add)
       | none => false) := by
  unfold binaryType commonConcrete
  cases common env l r with
  | none => simp
  | some t =>
    cases t with
    | concrete k => simp [concreteOf]; split <;> simp_all
    | constInteger => simp [concreteOf, numK]
    | constString =>
      simp [concreteOf, numK, TypeKind.string, TypeKind.int, TypeKind.uint, TypeKind.double]
      split <;> simp_all
    | _ => simp [concreteOf]

theorem binaryType_bitwise_isSome (env : Env) (o : BitOp) (l r : TypeDesc) :
    (binaryType env (.bitwise o) l r).isSome =
      (match commonConcrete env l r with
       | some k => k = .bool || intK k || enumK k
       | none => false) := by
  unfold binaryType commonConcrete
  cases common env l r with
  | none => simp
  | some t =>
    cases t with
    | concrete k => simp [concreteOf]; split <;> simp_all
    | constInteger => simp [concreteOf, intK]
    | constString => simp [concreteOf, intK, enumK, TypeKind.string, TypeKind.int, TypeKind.uint, TypeKind.bool]
    | _ => simp [concreteOf]

theorem common_null_iff (env : Env) (l r : TypeDesc) :
    common env l r = some .nullPointer ↔ l = .nullPointer ∧ r = .nullPointer := by
  unfold common
  cases l <;> cases r <;> simp
  split <;> (try split) <;> simp

/-- comparison: the table in terms of the common concrete type; the pair (null, null) is the one place where the
    table (== and != admitted) and the dynamic path ("undetermined type") differ — it never reaches the dynamic
    path, two `null` literals are constants -/
theorem binaryType_cmp_isSome (env : Env) (c : CmpOp) (l r : TypeDesc) (hnn : ¬ (l = .nullPointer ∧ r = .nullPointer)) :
    (binaryType env (.cmp c) l r).isSome =
      (match commonConcrete env l r with
       | some k => k = .bool || numK k || k = .string || enumK k || (ptrK k && (c = .eq || c = .ne))
       | none => false) := by
  have hn := common_null_iff env l r
  unfold binaryType commonConcrete
  cases hc : common env l r with
  | none => simp
  | some t =>
    cases t with
    | concrete k =>
      simp only [Option.bind_some, concreteOf, orderedTy, eqOnlyTy, TypeDesc.bool]
      cases k with
      | just n => cases n with
        | prim p => cases p <;> simp [numK, enumK, ptrK, TypeKind.bool, TypeKind.int, TypeKind.uint, TypeKind.double, TypeKind.string]
        | _ => simp [numK, enumK, ptrK, TypeKind.bool, TypeKind.int, TypeKind.uint, TypeKind.double, TypeKind.string]
      | pointer n =>
        simp [numK, enumK, ptrK, TypeKind.bool, TypeKind.int, TypeKind.uint, TypeKind.double, TypeKind.string]
        split <;> simp_all
      | list t => simp [numK, enumK, ptrK, TypeKind.bool, TypeKind.int, TypeKind.uint, TypeKind.double, TypeKind.string]
    | constInteger => simp [concreteOf, orderedTy, numK]
    | constString => simp [concreteOf, orderedTy, TypeKind.string]
    | nullPointer => exact absurd (hn.1 hc) hnn
    | emptyList => simp [concreteOf, orderedTy, eqOnlyTy]

theorem strDefault_null (t : TypeDesc) : strDefault t = .nullPointer ↔ t = .nullPointer := by
  cases t <;> simp [strDefault, TypeDesc.string]

theorem intTy_strDefault (t : TypeDesc) : intTy (strDefault t) = intTy t := by
  cases t <;> simp [strDefault, intTy, TypeDesc.string, intK, TypeKind.string, TypeKind.int, TypeKind.uint]

/-- splitting a type descriptor down to the primitive (for table lemmas) -/
macro "td_cases" t:ident : tactic =>
  `(tactic| (cases $t:ident with
      | concrete k => cases k with
        | just n => cases n with
          | prim p => cases p <;> tk_simp
          | _ => tk_simp
        | _ => tk_simp
      | _ => tk_simp))

/-- the dynamic path accepts a binary operation exactly when the specification's table admits it
    (`&&`/`||` never reach `emit_binary_expression`; two `null` literals are constants and never reach it either) -/
theorem emitBinary_okB (env : Env) (b : Builder) (op : BinaryOp) (l r : Operand) (hlog : ∀ o, op ≠ .logical o)
    (hnn : ¬ (l.typeDesc = .nullPointer ∧ r.typeDesc = .nullPointer)) :
    okB (emitBinaryExpression env b op l r) = (binaryType env op l.typeDesc r.typeDesc).isSome := by
  unfold emitBinaryExpression
  simp only [ensureConcreteString_typeDesc]
  cases op with
  | logical o => exact absurd rfl (hlog o)
  | arith a =>
    rw [binaryType_arith_isSome, ← common_strDefault_concrete]
    cases hd : deduceConcrete env a.symbol (strDefault l.typeDesc) (strDefault r.typeDesc) with
    | error e =>
      have := (deduceConcrete_error_iff env a.symbol _ _).1 ⟨e, hd⟩
      simp [this, hd]
    | ok ty =>
      have := (deduceConcrete_ok_iff env a.symbol _ _ ty).1 hd
      simp only [this]
      cases ty with
      | just n => cases n with
        | prim p => cases p <;> cases a <;> tk_simp
        | _ => tk_simp
      | _ => tk_simp
  | bitwise o =>
    rw [binaryType_bitwise_isSome, ← common_strDefault_concrete]
    cases hd : deduceConcrete env o.symbol (strDefault l.typeDesc) (strDefault r.typeDesc) with
    | error e =>
      have := (deduceConcrete_error_iff env o.symbol _ _).1 ⟨e, hd⟩
      simp [this, hd]
    | ok ty =>
      have := (deduceConcrete_ok_iff env o.symbol _ _ ty).1 hd
      simp only [this]
      cases ty with
      | just n => cases n with
        | prim p => cases p <;> tk_simp
        | _ => tk_simp
      | _ => tk_simp
  | cmp c =>
    rw [binaryType_cmp_isSome env c _ _ hnn, ← common_strDefault_concrete]
    cases hd : deduceConcrete env c.symbol (strDefault l.typeDesc) (strDefault r.typeDesc) with
    | error e =>
      have := (deduceConcrete_error_iff env c.symbol _ _).1 ⟨e, hd⟩
      simp [this, hd]
    | ok ty =>
      have := (deduceConcrete_ok_iff env c.symbol _ _ ty).1 hd
      simp only [this]
      cases ty with
      | just n => cases n with
        | prim p => cases p <;> tk_simp
        | _ => tk_simp
      | pointer n => cases c <;> tk_simp
      | list t => tk_simp
  | shift s =>
    simp only [binaryType]
    rw [← intTy_strDefault l.typeDesc, ← intTy_strDefault r.typeDesc]
    generalize strDefault l.typeDesc = lt
    generalize hrt : strDefault r.typeDesc = rt
    have hrs : rt ≠ .constString := by
      rw [← hrt]; cases r.typeDesc <;> simp [strDefault, TypeDesc.string]
    cases lt with
    | concrete k =>
      simp only [toConcrete, toConcreteType]
      cases k with
      | just n => cases n with
        | prim p => cases p <;> (td_cases rt)
        | _ => td_cases rt
      | _ => td_cases rt
    | constInteger => simp only [toConcrete, toConcreteType]; td_cases rt
    | constString => simp only [toConcrete, toConcreteType]; td_cases rt
    | nullPointer => simp [toConcrete, toConcreteType, toOperationTypeError, intTy]
    | emptyList => simp [toConcrete, toConcreteType, toOperationTypeError, intTy]

theorem binaryType_common (env : Env) (op : BinaryOp) (l r t : TypeDesc)
    (hop : (∃ a, op = .arith a) ∨ (∃ o, op = .bitwise o)) (h : binaryType env op l r = some t) :
    common env l r = some t := by
  rcases hop with ⟨a, rfl⟩ | ⟨o, rfl⟩ <;> unfold binaryType at h <;>
    cases hc : common env l r with
    | none => simp [hc] at h
    | some u =>
      simp only [hc, Option.bind_some] at h
      cases u <;> simp at h <;> (try split at h) <;> simp_all

theorem emit_shape (tyR : Except ExprError TypeKind × Builder) (rv : Rvalue) (res : Operand) (b' : Builder)
    (h : (match tyR with
          | (.error e, _) => (Except.error e : VisitResult)
          | (.ok ty, b) => .ok (b.emitResult ty rv)) = .ok (res, b')) :
    ∃ ty b0, tyR = (.ok ty, b0) ∧ res.typeDesc = .concrete ty := by
  rcases tyR with ⟨x, b0⟩
  cases x with
  | error e => simp at h
  | ok ty =>
    simp at h
    exact ⟨ty, b0, rfl, typeDesc_of_emitResult h⟩

/-- result type of the dynamic path of a binary operation: the table's type, a literal type defaulted (D1) -/
theorem emitBinary_type (env : Env) (b : Builder) (op : BinaryOp) (l r : Operand) (hlog : ∀ o, op ≠ .logical o)
    (hnn : ¬ (l.typeDesc = .nullPointer ∧ r.typeDesc = .nullPointer)) (res : Operand) (b' : Builder)
    (h : emitBinaryExpression env b op l r = .ok (res, b')) :
    ∃ t k, binaryType env op l.typeDesc r.typeDesc = some t ∧ concreteOf t = some k ∧ res.typeDesc = .concrete k := by
  have hok := emitBinary_okB env b op l r hlog hnn
  rw [h] at hok
  simp only [okB_ok] at hok
  obtain ⟨t, ht⟩ := Option.isSome_iff_exists.1 hok.symm
  refine ⟨t, ?_⟩
  unfold emitBinaryExpression at h
  simp only [ensureConcreteString_typeDesc] at h
  obtain ⟨ty', b0, heq, hres⟩ := emit_shape _ _ _ _ h
  clear h
  cases op with
  | logical o => exact absurd rfl (hlog o)
  | arith a =>
    have hc := binaryType_common env _ _ _ _ (Or.inl ⟨a, rfl⟩) ht
    simp only at heq
    cases hd : deduceConcrete env a.symbol (strDefault l.typeDesc) (strDefault r.typeDesc) with
    | error e => simp [hd] at heq
    | ok ty =>
      have h2 := (deduceConcrete_ok_iff env a.symbol _ _ ty).1 hd
      rw [common_strDefault_concrete] at h2
      have h3 : concreteOf t = some ty := by simpa [commonConcrete, hc] using h2
      simp only [hd] at heq
      have : ty' = ty := by
        split at heq
        · simp at heq; exact heq.1.symm
        · split at heq
          · split at heq
            · simp at heq; exact heq.1.symm
            · simp at heq
          · simp at heq
      subst this
      exact ⟨ty', ht, h3, hres⟩
  | bitwise o =>
    have hc := binaryType_common env _ _ _ _ (Or.inr ⟨o, rfl⟩) ht
    simp only at heq
    cases hd : deduceConcrete env o.symbol (strDefault l.typeDesc) (strDefault r.typeDesc) with
    | error e => simp [hd] at heq
    | ok ty =>
      have h2 := (deduceConcrete_ok_iff env o.symbol _ _ ty).1 hd
      rw [common_strDefault_concrete] at h2
      have h3 : concreteOf t = some ty := by simpa [commonConcrete, hc] using h2
      simp only [hd] at heq
      have : ty' = ty := by
        split at heq
        · simp at heq; exact heq.1.symm
        · simp at heq
      subst this
      exact ⟨ty', ht, h3, hres⟩
  | cmp c =>
    have htb : t = .bool := by
      unfold binaryType at ht
      cases hc : common env l.typeDesc r.typeDesc with
      | none => simp [hc] at ht
      | some u =>
        simp only [hc, Option.bind_some] at ht
        split at ht
        · simpa using ht.symm
        · split at ht
          · simpa using ht.symm
          · simp at ht
    subst htb
    simp only at heq
    have : ty' = .bool := by
      cases hd : deduceConcrete env c.symbol (strDefault l.typeDesc) (strDefault r.typeDesc) with
      | error e => simp [hd] at heq
      | ok ty =>
        simp only [hd] at heq
        split at heq
        · simp at heq; exact heq.1.symm
        · simp at heq
    subst this
    exact ⟨.bool, ht, by simp [concreteOf, TypeDesc.bool], hres⟩
  | shift s =>
    simp only [binaryType] at ht
    simp only at heq
    split at ht
    · rename_i hint
      simp only [Bool.and_eq_true] at hint
      have hlt : ∃ k, concreteOf l.typeDesc = some k ∧ toConcrete s.symbol (strDefault l.typeDesc) = .ok k := by
        cases hl : l.typeDesc with
        | concrete k => exact ⟨k, by simp [concreteOf], by simp [strDefault, toConcrete, toConcreteType]⟩
        | constInteger => exact ⟨.int, by simp [concreteOf], by simp [strDefault, toConcrete, toConcreteType]⟩
        | _ => simp [hl, intTy] at hint
      obtain ⟨k, hk1, hk2⟩ := hlt
      have htk : concreteOf t = some k := by
        simp only [Option.some.injEq] at ht
        rw [← ht]
        split
        · rename_i hc
          simp only [Bool.and_eq_true, decide_eq_true_eq] at hc
          rw [hc.1] at hk1
          simpa [concreteOf, TypeDesc.int] using hk1
        · exact hk1
      simp only [hk2] at heq
      have : ty' = k := by
        split at heq
        · simp at heq; exact heq.1.symm
        · simp at heq
      subst this
      refine ⟨ty', ?_, htk, hres⟩
      simp only [binaryType, hint, Bool.and_self, if_true]
      exact ht
    · simp at ht

/-! ### operator tokens -/

theorem unaryOf_eq (t : UnaryToken) : unaryOf t = t.toOp := by cases t <;> rfl
theorem binaryOf_eq (t : BinaryToken) : binaryOf t = t.toOp := by cases t <;> rfl

/-! ### `is_assignable`, spelled out -/

theorem isAssignable_iff (env : Env) (e : TypeKind) (a : TypeDesc) :
    isAssignable env e a = true ↔
      a = .concrete e ∨
      (∃ d b, a = .concrete (.pointer (.cls d)) ∧ e = .pointer (.cls b) ∧ env.derives d b = true) ∨
      (∃ x y, a = .concrete (.just (.enum x)) ∧ e = .just (.enum y) ∧ env.enumCompat x y = true) ∨
      (a = .constInteger ∧ (e = .int ∨ e = .uint)) ∨
      (a = .constString ∧ e = .string) ∨
      (a = .nullPointer ∧ ∃ n, e = .pointer n) ∨
      (a = .emptyList ∧ ∃ t, e = .list t) := by
  rw [isAssignable_eq]
  cases a with
  | concrete k =>
    simp only [assignable, Bool.or_eq_true, decide_eq_true_eq, TypeDesc.concrete.injEq, reduceCtorEq, false_and, or_false]
    constructor
    · rintro (h | h)
      · exact Or.inl h
      · split at h
        · rename_i d b
          exact Or.inr (Or.inl ⟨d, b, rfl, rfl, by rw [← subclass_eq]; exact h⟩)
        · rename_i x y
          exact Or.inr (Or.inr ⟨x, y, rfl, rfl, by rw [← sameEnum_eq]; exact h⟩)
        · simp at h
    · rintro (h | ⟨d, b, h1, h2, h3⟩ | ⟨x, y, h1, h2, h3⟩)
      · exact Or.inl h
      · subst h1 h2; right; simp [subclass_eq, h3]
      · subst h1 h2; right; simp [sameEnum_eq, h3]
  | constInteger =>
    simp [assignable, litFits, intK]
  | constString => simp [assignable, litFits]
  | nullPointer =>
    simp only [assignable, litFits]
    cases e <;> simp [ptrK]
  | emptyList =>
    simp only [assignable, litFits]
    cases e <;> simp [listK]
