/-
  C06, the builder for ALL programs — part 6: `tir::build` / `tir::build_callback` (QV.Model.Finalize.build).
-/
import QV.Proofs.BuilderInvFinalize

set_option linter.unusedSimpArgs false
set_option linter.unusedVariables false

namespace QV.Proofs.BuilderInv
open QV.Model QV.Model.Cfg QV.Proofs.Cfg

/-- everything the parts give, for a built body -/
theorem build_out (ctx : Ctx) (callback : Bool) (p : Program) (code : CodeBody)
    (h : (build ctx callback p).code = some code) :
    ∃ panic, FinOut code.blocks panic ∧ ((build ctx callback p).panic = none → panic = none) := by
  unfold build at h ⊢
  generalize hrun : (walkProgram ctx callback p).run {} = res at h ⊢
  rcases res with ⟨r, st⟩
  cases r with
  | none => simp at h
  | some u =>
    simp only at h ⊢
    have hw := walkOut_of_walk ctx callback p st hrun
    have hfo := finalize_out st.b.code hw
    have hcur : st.b.currentRef = st.b.code.blocks.length - 1 := rfl
    rw [hcur] at h ⊢
    generalize hfin : finalizeCompletionValues st.b.code (st.b.code.blocks.length - 1) = fin at h hfo ⊢
    rcases fin with ⟨code', panic'⟩
    simp at h
    subst h
    refine ⟨panic', hfo, fun hp => ?_⟩
    simp only at hp
    cases hsp : st.b.panic with
    | none => simpa [hsp] using hp
    | some m => simp [hsp] at hp

theorem tL_of_get {blocks : List BasicBlock} {i : Nat} {b : BasicBlock} (h : blocks[i]? = some b) : tL blocks i = b.terminator := by
  unfold tL; rw [h]; rfl

/-- (1) every jump of a built body targets an existing block -/
theorem build_targets_exist (ctx : Ctx) (callback : Bool) (p : Program) (code : CodeBody)
    (h : (build ctx callback p).code = some code) :
    ∀ (i : Nat) (b : BasicBlock), code.blocks[i]? = some b → ∀ j ∈ successors b.terminator, j < code.blocks.length := by
  obtain ⟨panic, hfo, _⟩ := build_out ctx callback p code h
  intro i b hb j hj
  cases ht : b.terminator with
  | none => simp [ht, successors] at hj
  | some t =>
    rw [ht] at hj
    exact hfo.targets i t (by rw [tL_of_get hb, ht]) j hj

/-- (2a) every block of a built body has a terminator -/
theorem build_blocks_terminated (ctx : Ctx) (callback : Bool) (p : Program) (code : CodeBody)
    (h : (build ctx callback p).code = some code) :
    0 < code.blocks.length ∧ ∀ (i : Nat) (b : BasicBlock), code.blocks[i]? = some b → b.terminator.isSome = true := by
  obtain ⟨panic, hfo, _⟩ := build_out ctx callback p code h
  refine ⟨hfo.pos, fun i b hb => ?_⟩
  have := hfo.closed i (List.getElem?_eq_some_iff.1 hb).1
  rw [tL_of_get hb] at this
  exact this

/-- (2b) a block that carries the `unreachable` marker has no incoming edge and is not the entry block … -/
theorem build_unreachable_isolated (ctx : Ctx) (callback : Bool) (p : Program) (code : CodeBody)
    (h : (build ctx callback p).code = some code) (hp : (build ctx callback p).panic = none) :
    ∀ (i : Nat) (b : BasicBlock), code.blocks[i]? = some b → b.terminator = some .unreachable →
      i ≠ 0 ∧ ∀ (j : Nat) (bj : BasicBlock), code.blocks[j]? = some bj → i ∉ successors bj.terminator := by
  obtain ⟨panic, hfo, hpan⟩ := build_out ctx callback p code h
  intro i b hb ht
  obtain ⟨h1, h2⟩ := hfo.noEdge (hpan hp) i (by rw [tL_of_get hb, ht])
  exact ⟨h1, fun j bj hbj => by rw [← tL_of_get hbj]; exact h2 j⟩

/-- … hence no execution path reaches it -/
theorem build_no_reachable_unreachable (ctx : Ctx) (callback : Bool) (p : Program) (code : CodeBody)
    (h : (build ctx callback p).code = some code) (hp : (build ctx callback p).panic = none) :
    ∀ (i : Nat) (A : List Nat), Reaches code i A → ∀ b, code.blocks[i]? = some b → b.terminator ≠ some .unreachable := by
  intro i A hr b hb ht
  obtain ⟨h0, hno⟩ := build_unreachable_isolated ctx callback p code h hp i b hb ht
  rcases reaches_cases hr with h1 | ⟨j, hj⟩
  · exact h0 h1
  · cases hbj : code.blocks[j]? with
    | none => simp [tL, hbj, successors] at hj
    | some bj =>
      rw [tL_of_get hbj] at hj
      exact hno j bj hbj hj

theorem build_reaches_lt (ctx : Ctx) (callback : Bool) (p : Program) (code : CodeBody)
    (h : (build ctx callback p).code = some code) : ∀ {i : Nat} {A : List Nat}, Reaches code i A → i < code.blocks.length := by
  intro i A hr
  induction hr with
  | entry => exact (build_blocks_terminated ctx callback p code h).1
  | step _ hb hj _ => exact build_targets_exist ctx callback p code h _ _ hb _ hj

/-- the control-flow half of the checker's verdict, for ALL programs and EVERY execution path: the conclusion of
    `check_sound`, without running the checker -/
theorem build_control_flow_sound (ctx : Ctx) (callback : Bool) (p : Program) (code : CodeBody)
    (h : (build ctx callback p).code = some code) (hp : (build ctx callback p).panic = none) :
    ∀ (i : Nat) (A : List Nat), Reaches code i A →
      ∃ (b : BasicBlock) (t : Terminator), code.blocks[i]? = some b ∧ b.terminator = some t ∧
        t ≠ Terminator.unreachable ∧ (∀ j ∈ successors b.terminator, j < code.blocks.length) := by
  intro i A hr
  have hlt := build_reaches_lt ctx callback p code h hr
  have hb : code.blocks[i]? = some code.blocks[i] := List.getElem?_eq_getElem hlt
  have hterm := (build_blocks_terminated ctx callback p code h).2 i _ hb
  cases ht : (code.blocks[i]).terminator with
  | none => simp [ht] at hterm
  | some t =>
    refine ⟨_, t, hb, ht, ?_, build_targets_exist ctx callback p code h i _ hb⟩
    intro he
    subst he
    exact build_no_reachable_unreachable ctx callback p code h hp i A hr _ hb ht

end QV.Proofs.BuilderInv
